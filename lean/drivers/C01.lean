import TenpyModel.Core.ArrCodec
/-!
Line protocol of the tensor model (C01/C04): one JSON line per *program*
  {"scalar": "int"|"gint", "kernel": "cy"|"py", "operands": [Arr…], "steps": [{"op": …, "in": [value ids], …}]}
→ {"steps": [{"arr": Arr+dense | "scalar": x | "nat": n | "error": class | "skipped": true, "extra": …,
              "ins": [sorted flag of each input after the step]}]}
Values are numbered: operands first, then one value per step.
-/
open Lean TenpyModel TenpyModel.J TenpyModel.Core TenpyModel.Core.Codec TenpyModel.Core.ArrCodec

/-- everything the interpreter needs to know about the scalar type -/
structure Sc (α : Type) where
  sc    : SC α
  star  : α → α
  absSq : α → Nat

structure StepOut (α : Type) where
  val   : Option (Arr α) := none          -- value bound to this step (if a tensor)
  json  : List (String × Json)
  upd   : List (Nat × Arr α) := []         -- new state of input operands (side effects)

variable {α : Type} [Add α] [Mul α] [Neg α] [Zero α] [DecidableEq α]

def errOut (e : Err) : StepOut α := { json := [("error", Json.str e.name)] }

def arrOut (S : Sc α) (a : Arr α) (extra : List (String × Json) := []) (upd : List (Nat × Arr α) := []) : StepOut α :=
  { val := some a, json := [("arr", arrToJson S.sc a)] ++ extra, upd }

def valOut (S : Sc α) : Val α → StepOut α
  | .arr a => arrOut S a
  | .scalar x => { json := [("scalar", S.sc.emit x)] }

def ofExcept (S : Sc α) (r : Except Err (Arr α)) : StepOut α :=
  match r with
  | .ok a => arrOut S a
  | .error e => errOut e

def optField (j : Json) (k : String) (f : Json → Except String β) : Except String (Option β) :=
  match (j.getObjVal? k).toOption with
  | none => pure none
  | some v => if v.isNull then pure none else some <$> f v

def maskOfJson (j : Json) : Except String Arr.Mask := do
  if hasKey j "b" then return .bools (← boolList (← field j "b")) else return .ints (← intList (← field j "i"))

def dotAxesOfJson (j : Json) : Except String Arr.DotAxes :=
  match j with
  | Json.arr #[a, b] => do return .pair (← axList a) (← axList b)
  | _ => do return .int (← getInt j)

def innerAxesOfJson (j : Json) : Except String Arr.InnerAxes :=
  match j with
  | Json.str "range" => pure .range
  | Json.str "labels" => pure .labels
  | Json.arr #[a, b] => do return .pair (← axList a) (← axList b)
  | _ => throw "inner axes"

/-- dense-level specification of the operations that are not modelled block by block -/
def specDense (S : Sc α) (kind : String) (j : Json) (ins : List (Arr α)) : Except String (Dense α) := do
  let d0 := (ins.headD ⟨[], [], [], [], [], [], true⟩).toDenseFast
  match kind with
  | "same" => return d0
  | "ix" =>     -- getitem: per axis an index list, and whether the axis is dropped (integer index)
    let lists ← listOf natList (← field j "idx")
    let drop ← natList (← field j "drop")
    return (d0.ix lists).squeeze drop
  | "setix" =>  -- setitem: a[ix] = other
    let lists ← listOf natList (← field j "idx")
    let src := (ins.getD 1 ⟨[], [], [], [], [], [], true⟩).toDenseFast
    return d0.setIx (src.reshape (lists.map List.length)) lists
  | "setix_flat" =>
    let lists ← listOf natList (← field j "idx")
    let src ← denseOfJson S.sc (← field j "src")
    return d0.setIx (src.reshape (lists.map List.length)) lists
  | "pad" =>    -- extend(axis, extra): zeros appended along `axis`
    let k ← getNat (← field j "axis")
    let n ← getNat (← field j "n")
    return Dense.concat2 d0 (Dense.zeros (d0.shape.set k n)) k
  | "add_leg" => -- add_leg(leg, i, axis): zero except the slice `i` of the new axis
    let k ← getNat (← field j "axis")
    let n ← getNat (← field j "n")
    let i ← getNat (← field j "i")
    return Dense.ofFn (Dense.insertAt d0.shape k n) (fun idx =>
      if idx.getD k 0 = i then d0.get 0 (Dense.removeAt idx k) else 0)
  | "concat" => -- grid_concat of a 1D grid = concatenate
    let k ← getNat (← field j "axis")
    return Dense.concatenate (ins.map Arr.toDenseFast) k
  | "grid_outer" => -- grid (C order, `null` = zero) of equally shaped tensors
    let gshape ← natList (← field j "gshape")
    let which ← listOf (optOf getNat) (← field j "grid")      -- position in `in` or null, C order over the grid
    let es := ins.map Arr.toDenseFast
    let eshape := (es.headD ⟨[], []⟩).shape
    return Dense.ofFn (gshape ++ eshape) (fun idx =>
      match which.getD (Dense.flatIdx gshape (idx.take gshape.length)) none with
      | none => 0
      | some t => (es.getD t ⟨[], []⟩).get 0 (idx.drop gshape.length))
  | _ => throw s!"unknown spec kind {kind}"

def runStep (S : Sc α) (cy same : Bool) (env : Array (Option (Arr α))) (j : Json) : Except String (StepOut α) := do
  let op ← getStr (← field j "op")
  let inIds ← natList (fieldD j "in" (Json.arr #[]))
  let insOpt := inIds.map (fun i => (env.getD i none))
  if insOpt.any Option.isNone then return { json := [("skipped", true)] }
  let ins := insOpt.filterMap id
  let a := ins.headD ⟨[], [], [], [], [], [], true⟩
  let b := ins.getD 1 a
  let idB := inIds.getD 1 0
  match op with
  | "from_ndarray" =>
    let legs ← listOf alegOfJson (← field j "legs")
    let mods ← natList (← field j "mods")
    return ofExcept S (Arr.fromNdarray mods legs (← optField j "qtotal" intList) (← optField j "labels" (listOf labelOfJson))
      (← denseOfJson S.sc (← field j "dense")))
  | "zeros" =>
    let legs ← listOf alegOfJson (← field j "legs")
    let mods ← natList (← field j "mods")
    return ofExcept S (Arr.zeros mods legs (← optField j "qtotal" intList) (← optField j "labels" (listOf labelOfJson)))
  | "copy" => return arrOut S a.copy
  | "zeros_like" => return arrOut S a.zerosLike
  | "transpose" => return ofExcept S (a.transpose (← optField j "axes" axList))
  | "iswapaxes" => return ofExcept S (a.iswapaxes (← axOfJson (← field j "ax1")) (← axOfJson (← field j "ax2")))
  | "conj" => return arrOut S (a.conj S.star)
  | "complex_conj" => return arrOut S (a.complexConj S.star)
  | "neg" => return arrOut S a.neg
  | "scale" => return arrOut S (a.iscalePrefactor (← S.sc.parse (← field j "s")))
  | "isort_qdata" => return arrOut S a.isortQdata
  | "iadd_prefactor_other" =>
    let p ← S.sc.parse (← field j "p")
    match Arr.iaddPrefactorOtherNamed same cy a.copy p b with
    | .ok (r, b') => return arrOut S r [] [(idB, b')]
    | .error e => return errOut e
  | "binary_blockwise" =>
    let f ← getStr (← field j "f")
    let fn : α → α → α := if f == "add" then (· + ·) else if f == "sub" then (fun x y => x + -y) else (· * ·)
    match Arr.ibinaryBlockwiseNamed same fn a.copy b with
    | .ok (r, b') => return arrOut S r [] [(idB, b')]
    | .error e => return errOut e
  | "take_slice" => return ofExcept S (a.takeSlice (← intList (← field j "indices")) (← axList (← field j "axes")))
  | "add_trivial_leg" =>
    return ofExcept S (a.addTrivialLegChecked (← getInt (← field j "axis")) (← labelOfJson (fieldD j "label" Json.null))
      (← getInt (← field j "qconj")))
  | "squeeze" =>
    match a.squeeze (← optField j "axes" axList) with
    | .ok v => return valOut S v
    | .error e => return errOut e
  | "getitem_int" =>
    match a.getItemIntPartial (← intList (← field j "inds")) with
    | .ok v => return valOut S v
    | .error e => return errOut e
  | "scale_axis" =>
    return ofExcept S (a.iscaleAxis (← listOf S.sc.parse (← field j "s")) (← axOfJson (← field j "axis")))
  | "iproject" =>
    return ofExcept S (a.iproject (← listOf maskOfJson (← field j "masks")) (← axList (← field j "axes")))
  | "permute" => return ofExcept S (a.permute (← natList (← field j "perm")) (← axOfJson (← field j "axis")))
  | "sort_legcharge" =>
    match a.sortLegchargeOrCopy (← boolList (← field j "sort")) (← boolList (← field j "bunch")) with
    | .ok (perms, cp) => return arrOut S cp [("perms", ofList ofNatList perms)]
    | .error e => return errOut e
  | "gauge_total_charge" =>
    return ofExcept S (a.gaugeTotalCharge (← axOfJson (← field j "axis")) (← optField j "newqtotal" intList)
      (← optField j "new_qconj" getInt))
  | "combine_legs" =>
    let cl ← listOf axList (← field j "cl")
    let na ← optField j "new_axes" intList
    let pipes ← optField j "pipes" (listOf (optOf alegOfJson))
    let qc ← listOf (optOf getInt) (fieldD j "qconj" (Json.arr #[Json.null]))
    return ofExcept S (a.combineLegsChecked cl na pipes qc)
  | "split_legs" => return ofExcept S (a.splitLegs (← optField j "axes" axList))
  | "concatenate" => return ofExcept S (Arr.concatenateChecked same ins (← axOfJson (← field j "axis")))
  | "outer" => return ofExcept S (Arr.outerNamed same a b)
  | "inner" =>
    match Arr.innerNamed same S.star a b (← innerAxesOfJson (← field j "axes")) (← getBool (← field j "do_conj")) with
    | .ok x => return { json := [("scalar", S.sc.emit x)] }
    | .error e => return errOut e
  | "trace" =>
    match a.trace (← axOfJson (← field j "l1")) (← axOfJson (← field j "l2")) with
    | .ok v => return valOut S v
    | .error e => return errOut e
  | "tensordot" =>
    match Arr.tensordotNamed same cy a b (← dotAxesOfJson (← field j "axes")) with
    | .ok v => return valOut S v
    | .error e => return errOut e
  | "norm" =>
    let ord ← getStr (← field j "ord")
    let n := if ord == "0" then a.norm0 else if ord == "inf" then a.normInfSq S.absSq else a.normSq S.absSq
    return { json := [("nat", Json.num (JsonNumber.fromNat n))] }
  | "get_leg_index" =>
    match a.getLegIndex (← axOfJson (← field j "ax")) with
    | .ok n => return { json := [("nat", Json.num (JsonNumber.fromNat n))] }
    | .error e => return errOut e
  | "iset_leg_labels" => return ofExcept S (a.isetLegLabels (← listOf labelOfJson (← field j "labels")))
  | "fixed_error" => return { json := [("error", ← field j "error")] }
  | "spec" =>
    -- dense-level specification only; the implementation's result is injected as the value of this step
    let kind ← getStr (← field j "kind")
    let d ← specDense S kind j ins
    let inj ← optField j "inject" (arrOfJson S.sc)
    -- side effects of the (unmodelled) call on the cached claim of its operands: an operand observed to be
    -- lexsorted afterwards is lexsorted in the model as well (e.g. `a == b` sorts `b` in the compiled kernel)
    let seen ← optField j "ins_sorted" (listOf (optOf getBool))
    let upd := match seen with
      | none => []
      | some fl => (List.zip inIds (List.zip ins fl)).filterMap (fun (x : Nat × Arr α × Option Bool) =>
          if x.2.2 == some true && !x.2.1.qdataSorted then some (x.1, x.2.1.isortQdata) else none)
    return { val := inj, json := [("dense", denseToJson S.sc d)], upd }
  | _ => throw s!"unknown op {op}"

/-- charge names of a tensor given as JSON (`"names"` is optional: missing names are empty) -/
def namesOfJson (j : Json) : Except String (List String) := do
  match ← optField j "names" (listOf getStr) with
  | some ns => return ns
  | none => return ((← optField j "mods" natList).getD []).map (fun _ => "")

def runCase (S : Sc α) (j : Json) : Except String Json := do
  let cy := (← getStr (fieldD j "kernel" (Json.str "py"))) == "cy"
  let opsJson ← getArr (← field j "operands")
  let operands ← opsJson.mapM (arrOfJson S.sc)
  let steps ← getArr (← field j "steps")
  let mut env : Array (Option (Arr α)) := (operands.map some).toArray
  -- charge names (`ChargeInfo.names`) travel next to the values: the result of an operation has the ChargeInfo of
  -- its first operand, a constructor / injected result brings its own
  let mut names : Array (List String) := (← opsJson.mapM namesOfJson).toArray
  let mut outs : Array Json := #[]
  for st in steps do
    let inIds ← natList (fieldD st "in" (Json.arr #[]))
    let inNames := inIds.map (fun i => names.getD i [])
    let firstNames := inNames.headD []
    let same := inNames.all (fun n => namesCompatible firstNames n)
    let r ← match runStep S cy same env st with
      | .ok r => pure r
      | .error e => pure ({ json := [("driver_error", Json.str e)] } : StepOut α)
    for (i, v) in r.upd do
      env := env.setIfInBounds i (some v)
    env := env.push r.val
    let own ← match (st.getObjVal? "inject").toOption with
      | some inj => if inj.isNull then pure none else some <$> namesOfJson inj
      | none => if inIds.isEmpty then some <$> namesOfJson st else pure none
    let resNames := own.getD firstNames
    names := names.push resNames
    let insFlags := inIds.map (fun i => match env.getD i none with
      | some x => Json.bool x.qdataSorted
      | none => Json.null)
    let nm := if r.val.isSome then [("names", ofList Json.str resNames)] else []
    outs := outs.push (obj (r.json ++ nm ++ [("ins", Json.arr insFlags.toArray)]))
  return obj [("steps", Json.arr outs)]

def handle (j : Json) : Except String Json := do
  let s ← getStr (fieldD j "scalar" (Json.str "int"))
  if s == "gint" then runCase (α := GInt) ⟨scGInt, GInt.star, GInt.absSq⟩ j
  else runCase (α := Int) ⟨scInt, id, fun x => (x * x).toNat⟩ j

def main : IO Unit := serve handle
