import TenpyModel.Util.J
import TenpyModel.Ops.Sym
import TenpyModel.Ops.Terms
import TenpyModel.Ops.Graph
import TenpyModel.Ops.MPO
open Lean TenpyModel TenpyModel.J
open TenpyModel.Ops

/-! Line protocol of the C11 model (see harness/C11.py).  Local operators are expanded in matrix
units, name "a,b" = |a><b| (a: index of leg `p`, b: index of leg `p*`). -/

def parseRatStr (s : String) : Except String Rat :=
  match s.splitOn "/" with
  | [a] => match a.toInt? with
    | some n => pure (n : Rat)
    | none => throw s!"bad rational {s}"
  | [a, b] => match a.toInt?, b.toNat? with
    | some n, some d => if d = 0 then throw "zero denominator" else pure (mkRat n d)
    | _, _ => throw s!"bad rational {s}"
  | _ => throw s!"bad rational {s}"

def getRat (j : Json) : Except String Rat :=
  match j with
  | .str s => parseRatStr s
  | _ => do let n ← j.getInt?; pure (n : Rat)

def ofRat (r : Rat) : Json :=
  if r.den = 1 then Json.num (JsonNumber.fromInt r.num) else Json.str s!"{r.num}/{r.den}"

def getGQ (j : Json) : Except String GQ :=
  match j with
  | .arr a => match a.toList with
    | [x, y] => do return ⟨← getRat x, ← getRat y⟩
    | _ => throw "bad complex"
  | _ => do return ⟨← getRat j, 0⟩

def ofGQ (c : GQ) : Json := Json.arr #[ofRat c.re, ofRat c.im]
instance : Inhabited GQ := ⟨0⟩

def unitName (a b : Nat) : String := s!"{a},{b}"

def hcUnit (n : String) : String :=
  match n.splitOn "," with
  | [a, b] => b ++ "," ++ a
  | _ => n

def gramUnit (x y : String) : GQ := if x = y then 1 else 0

def optNat (j : Json) : Except String (Option Nat) :=
  if j.isNull then pure none else do
    let i ← getInt j
    pure (some i.toNat)

/-- `IdR = -1` of the implementation means "last index" -/
def optIdx (chi : List Nat) (j : Json) (b : Nat) : Except String (Option Nat) :=
  if j.isNull then pure none else do
    let i ← getInt j
    if i < 0 then pure (some ((chi.getD b 0 : Int) + i).toNat) else pure (some i.toNat)

def parseMPO (j : Json) : Except String (MPOM GQ) := do
  let chi ← natList (← field j "chi")
  let idLj ← getArr (← field j "idL")
  let idRj ← getArr (← field j "idR")
  let idL ← (idLj.zipIdx).mapM (fun (x, b) => optIdx chi x b)
  let idR ← (idRj.zipIdx).mapM (fun (x, b) => optIdx chi x b)
  let W ← listOf (listOf (fun e => do
    match ← getArr e with
    | [l, r, a, b, c] => return (⟨← getNat l, ← getNat r, unitName (← getNat a) (← getNat b), ← getGQ c⟩ : Edge Nat GQ)
    | _ => throw "bad W entry")) (← field j "W")
  return ⟨W.length, W, chi, idL, idR⟩

/-- merge equal `(l, r, name)`, drop zeros, sort -/
def canonLayer (l : List (Edge Nat GQ)) : List (Edge Nat GQ) :=
  let merged := l.foldl (fun (acc : List (Edge Nat GQ)) e =>
    if acc.any (fun x => x.kL = e.kL && x.kR = e.kR && x.op = e.op) then
      acc.map (fun x => if x.kL = e.kL && x.kR = e.kR && x.op = e.op then { x with c := x.c + e.c } else x)
    else acc ++ [e]) []
  let nz := merged.filter (fun e => !e.c.isZero)
  let lt (a b : Edge Nat GQ) : Bool :=
    a.kL < b.kL || (a.kL = b.kL && (a.kR < b.kR || (a.kR = b.kR && a.op < b.op)))
  (nz.toArray.qsort lt).toList

def ofEdge (e : Edge Nat GQ) : Json :=
  match e.op.splitOn "," with
  | [a, b] => Json.arr #[e.kL, e.kR, (a.toNat?.getD 0), (b.toNat?.getD 0), ofGQ e.c]
  | _ => Json.arr #[e.kL, e.kR, Json.str e.op, ofGQ e.c]

def optJson (o : Option Nat) : Json := match o with | some n => n | none => Json.null

def mpoJson (m : MPOM GQ) : Json :=
  obj [("chi", ofNatList m.chi), ("idL", ofList optJson m.idL), ("idR", ofList optJson m.idR),
       ("W", ofList (fun l => ofList ofEdge (canonLayer l)) m.layers)]

/-- canonical dense form of a formal sum of matrix-unit strings: sorted by string, equal strings
merged, zeros dropped (sort + merge of neighbours) -/
def canonOp (s : Sym GQ) : List (OpStr × GQ) :=
  let keyed : Array (String × OpStr × GQ) := (s.map (fun p => ("|".intercalate p.1, p.1, p.2))).toArray
  let sorted := keyed.qsort (fun a b => a.1 < b.1)
  let merged := sorted.foldl (fun (acc : Array (String × OpStr × GQ)) x =>
    match acc.back? with
    | some y => if y.1 = x.1 then acc.pop.push (y.1, y.2.1, y.2.2 + x.2.2) else acc.push x
    | none => acc.push x) #[]
  (merged.toList.filter (fun x => !x.2.2.isZero)).map (fun x => (x.2.1, x.2.2))

/-- Frobenius inner product of two canonical sums over orthonormal names (merge of sorted lists) -/
def frobCanon (a b : List (OpStr × GQ)) : GQ :=
  let ka := a.map (fun p => ("|".intercalate p.1, p.2))
  let kb := (b.map (fun p => ("|".intercalate p.1, p.2))).toArray
  -- b is sorted by the same key: binary search
  ka.foldl (fun acc (k, c) =>
    match kb.binSearch (k, (0 : GQ)) (fun x y => x.1 < y.1) with
    | some (_, d) => acc + GQ.conj c * d
    | none => acc) 0

def opJson (s : List (OpStr × GQ)) : Json :=
  ofList (fun (p : OpStr × GQ) => Json.arr #[ofList Json.str p.1, ofGQ p.2]) s

/-! dual numbers `a + b ε`, `ε² = 0`, over the Gaussian rationals: first-order expansion of `U_I` -/
structure Dual where
  a : GQ
  b : GQ
instance : Zero Dual := ⟨⟨0, 0⟩⟩
instance : One Dual := ⟨⟨1, 0⟩⟩
instance : Add Dual := ⟨fun x y => ⟨x.a + y.a, x.b + y.b⟩⟩
instance : Mul Dual := ⟨fun x y => ⟨x.a * y.a, x.a * y.b + x.b * y.a⟩⟩

def toDual (m : MPOM GQ) : MPOM Dual :=
  ⟨m.L, m.layers.map (fun l => l.map (fun e => ⟨e.kL, e.kR, e.op, ⟨e.c, 0⟩⟩)), m.chi, m.idL, m.idR⟩

def idSym (dims : List Nat) : Sym GQ :=
  dims.foldr (fun d acc =>
    (List.range d).flatMap (fun a => acc.map (fun p => (unitName a a :: p.1, p.2)))) [([], 1)]

def handleMPO (j : Json) : Except String Json := do
  let dims ← natList (← field j "d")
  let finite ← getBool (fieldD j "finite" true)
  let window ← getNat (fieldD j "window" (1 : Nat))
  let A ← parseMPO (← field j "A")
  let den (m : MPOM GQ) : Sym GQ := if finite then m.denote else m.denoteWindow window
  let dA := canonOp (den A)
  let mut out : List (String × Json) := [("denoteA", opJson dA)]
  let dimsW := (List.replicate (if finite then 1 else window) dims).flatten
  match j.getObjVal? "B" with
  | .ok bj =>
    let B ← parseMPO bj
    let dB := canonOp (den B)
    let S := MPOM.add A B
    let dS := canonOp (den S)
    out := out ++ [("denoteB", opJson dB), ("add", mpoJson S), ("denote_add", opJson dS),
                   ("add_ok", dS == canonOp (den A ++ den B)), ("equal", dA == dB)]
    if finite then
      let ov := MPOM.overlapTM gramUnit GQ.conj A B
      let fr := frobCanon dA dB
      let nA := MPOM.overlapTM gramUnit GQ.conj A A
      let nB := MPOM.overlapTM gramUnit GQ.conj B B
      out := out ++ [("overlap", ofGQ ov), ("overlap_ok", ov == fr), ("normA", ofGQ nA), ("normB", ofGQ nB)]
  | .error _ => pure ()
  -- dagger
  let Ad := A.dagger hcUnit GQ.conj
  let dAd := canonOp (den Ad)
  out := out ++ [("dagger", mpoJson Ad), ("dagger_ok", dAd == canonOp (Sym.dagger hcUnit GQ.conj (den A))),
                 ("hermitian", dAd == dA)]
  -- plus_identity
  match j.getObjVal? "plus_identity" with
  | .ok pj =>
    let beta ← getGQ (← field pj "beta")
    let tb ← getGQ (← field pj "tb")
    let ta ← getGQ (← field pj "ta")
    let alpha ← getGQ (← field pj "alpha")
    let sites ← natList (← field pj "sites")
    let idOp (k : Nat) : List (String × GQ) := (List.range (dims.getD k 1)).map (fun a => (unitName a a, 1))
    let P := A.plusIdentity beta tb ta sites idOp
    let want := canonOp (Sym.smul alpha (idSym dims) ++ Sym.smul beta (den A))
    out := out ++ [("plus_identity", mpoJson P), ("plus_identity_ok", canonOp P.denote == want)]
  | .error _ => pure ()
  -- make_U_I
  match j.getObjVal? "UI" with
  | .ok uj =>
    let dt ← getGQ (← field uj "dt")
    let U := A.makeUI dt finite
    let UD := (toDual A).makeUI (⟨0, 1⟩ : Dual) finite
    let dUD : Sym Dual := if finite then UD.denote else UD.denoteWindow window
    let zeroth := canonOp (dUD.map (fun p => (p.1, p.2.a)))
    let first := canonOp (dUD.map (fun p => (p.1, p.2.b)))
    -- for a window of an infinite MPO the zeroth order is the identity and the first order the terms
    -- inside the window, both as for the finite case
    out := out ++ [("UI", mpoJson U), ("UI_order0_ok", zeroth == canonOp (idSym dimsW)),
                   ("UI_order1_ok", first == dA)]
  | .error _ => pure ()
  -- prefactor
  match j.getObjVal? "prefactor" with
  | .ok pj =>
    let qs ← listOf (fun q => do
      let i ← getNat (← field q "i")
      let ops ← listOf (fun o => do
        match ← getArr o with
        | [a, b] => return unitName (← getNat a) (← getNat b)
        | _ => throw "bad op") (← field q "ops")
      return (i, ops)) pj
    out := out ++ [("prefactor", ofList (fun (q : Nat × List String) => ofGQ (A.prefactor q.1 q.2)) qs)]
  | .error _ => pure ()
  return obj out

def handle (j : Json) : Except String Json := do
  let k ← getStr (← field j "k")
  if k == "mpo" then handleMPO j
  else throw s!"unknown kind {k}"

def main : IO Unit := serve handle
