import TenpyModel.Util.J
import TenpyModel.Ops.Sym
import TenpyModel.Ops.Terms
import TenpyModel.Ops.Graph
import TenpyModel.Ops.MPO
import TenpyModel.C11.ExtEnv
import TenpyModel.C11.ExtStruct
import TenpyModel.C11.ExtDecide
import TenpyModel.C11.ExtTerms
import TenpyModel.C11.ExtFlag
open Lean TenpyModel TenpyModel.J
open TenpyModel.Ops

/-! Line protocol of the C11 model (see harness/C11.py).  Local operators are expanded in matrix
units, name "a,b" = |a><b| (a: index of leg `p`, b: index of leg `p*`). -/

def parseRatStr (s : String) : Except String Rat :=
  match s.splitOn "/" with
  | [a] => match a.toInt? with
    | some n => pure (n : Rat)
    | none => throw s!"bad rational {s}"
  | [a, b] => match a.toInt?, b.toNat? with
    | some n, some d => if d = 0 then throw "zero denominator" else pure (mkRat n d)
    | _, _ => throw s!"bad rational {s}"
  | _ => throw s!"bad rational {s}"

def getRat (j : Json) : Except String Rat :=
  match j with
  | .str s => parseRatStr s
  | _ => do let n ← j.getInt?; pure (n : Rat)

def ofRat (r : Rat) : Json :=
  if r.den = 1 then Json.num (JsonNumber.fromInt r.num) else Json.str s!"{r.num}/{r.den}"

def getGQ (j : Json) : Except String GQ :=
  match j with
  | .arr a => match a.toList with
    | [x, y] => do return ⟨← getRat x, ← getRat y⟩
    | _ => throw "bad complex"
  | _ => do return ⟨← getRat j, 0⟩

def ofGQ (c : GQ) : Json := Json.arr #[ofRat c.re, ofRat c.im]
instance : Inhabited GQ := ⟨0⟩

def unitName (a b : Nat) : String := s!"{a},{b}"

def hcUnit (n : String) : String :=
  match n.splitOn "," with
  | [a, b] => b ++ "," ++ a
  | _ => n

def gramUnit (x y : String) : GQ := if x = y then 1 else 0

def optNat (j : Json) : Except String (Option Nat) :=
  if j.isNull then pure none else do
    let i ← getInt j
    pure (some i.toNat)

/-- `IdR = -1` of the implementation means "last index" -/
def optIdx (chi : List Nat) (j : Json) (b : Nat) : Except String (Option Nat) :=
  if j.isNull then pure none else do
    let i ← getInt j
    if i < 0 then pure (some ((chi.getD b 0 : Int) + i).toNat) else pure (some i.toNat)

def parseMPO (j : Json) : Except String (MPOM GQ) := do
  let chi ← natList (← field j "chi")
  let idLj ← getArr (← field j "idL")
  let idRj ← getArr (← field j "idR")
  let idL ← (idLj.zipIdx).mapM (fun (x, b) => optIdx chi x b)
  let idR ← (idRj.zipIdx).mapM (fun (x, b) => optIdx chi x b)
  let W ← listOf (listOf (fun e => do
    match ← getArr e with
    | [l, r, a, b, c] => return (⟨← getNat l, ← getNat r, unitName (← getNat a) (← getNat b), ← getGQ c⟩ : Edge Nat GQ)
    | _ => throw "bad W entry")) (← field j "W")
  return ⟨W.length, W, chi, idL, idR⟩

/-- merge equal `(l, r, name)`, drop zeros, sort -/
def canonLayer (l : List (Edge Nat GQ)) : List (Edge Nat GQ) :=
  let merged := l.foldl (fun (acc : List (Edge Nat GQ)) e =>
    if acc.any (fun x => x.kL = e.kL && x.kR = e.kR && x.op = e.op) then
      acc.map (fun x => if x.kL = e.kL && x.kR = e.kR && x.op = e.op then { x with c := x.c + e.c } else x)
    else acc ++ [e]) []
  let nz := merged.filter (fun e => !e.c.isZero)
  let lt (a b : Edge Nat GQ) : Bool :=
    a.kL < b.kL || (a.kL = b.kL && (a.kR < b.kR || (a.kR = b.kR && a.op < b.op)))
  (nz.toArray.qsort lt).toList

def ofEdge (e : Edge Nat GQ) : Json :=
  match e.op.splitOn "," with
  | [a, b] => Json.arr #[e.kL, e.kR, (a.toNat?.getD 0), (b.toNat?.getD 0), ofGQ e.c]
  | _ => Json.arr #[e.kL, e.kR, Json.str e.op, ofGQ e.c]

def optJson (o : Option Nat) : Json := match o with | some n => n | none => Json.null

def mpoJson (m : MPOM GQ) : Json :=
  obj [("chi", ofNatList m.chi), ("idL", ofList optJson m.idL), ("idR", ofList optJson m.idR),
       ("W", ofList (fun l => ofList ofEdge (canonLayer l)) m.layers)]

/-- canonical dense form of a formal sum of matrix-unit strings: sorted by string, equal strings
merged, zeros dropped (sort + merge of neighbours) -/
def canonOp (s : Sym GQ) : List (OpStr × GQ) :=
  let keyed : Array (String × OpStr × GQ) := (s.map (fun p => ("|".intercalate p.1, p.1, p.2))).toArray
  let sorted := keyed.qsort (fun a b => a.1 < b.1)
  let merged := sorted.foldl (fun (acc : Array (String × OpStr × GQ)) x =>
    match acc.back? with
    | some y => if y.1 = x.1 then acc.pop.push (y.1, y.2.1, y.2.2 + x.2.2) else acc.push x
    | none => acc.push x) #[]
  (merged.toList.filter (fun x => !x.2.2.isZero)).map (fun x => (x.2.1, x.2.2))

/-- Frobenius inner product of two canonical sums over orthonormal names (merge of sorted lists) -/
def frobCanon (a b : List (OpStr × GQ)) : GQ :=
  let ka := a.map (fun p => ("|".intercalate p.1, p.2))
  let kb := (b.map (fun p => ("|".intercalate p.1, p.2))).toArray
  -- b is sorted by the same key: binary search
  ka.foldl (fun acc (k, c) =>
    match kb.binSearch (k, (0 : GQ)) (fun x y => x.1 < y.1) with
    | some (_, d) => acc + GQ.conj c * d
    | none => acc) 0

def opJson (s : List (OpStr × GQ)) : Json :=
  ofList (fun (p : OpStr × GQ) => Json.arr #[ofList Json.str p.1, ofGQ p.2]) s

/-! dual numbers `a + b ε`, `ε² = 0`, over the Gaussian rationals: first-order expansion of `U_I` -/
structure Dual where
  a : GQ
  b : GQ
instance : Zero Dual := ⟨⟨0, 0⟩⟩
instance : One Dual := ⟨⟨1, 0⟩⟩
instance : Add Dual := ⟨fun x y => ⟨x.a + y.a, x.b + y.b⟩⟩
instance : Mul Dual := ⟨fun x y => ⟨x.a * y.a, x.a * y.b + x.b * y.a⟩⟩

def toDual (m : MPOM GQ) : MPOM Dual :=
  ⟨m.L, m.layers.map (fun l => l.map (fun e => ⟨e.kL, e.kR, e.op, ⟨e.c, 0⟩⟩)), m.chi, m.idL, m.idR⟩

def idSym (dims : List Nat) : Sym GQ :=
  dims.foldr (fun d acc =>
    (List.range d).flatMap (fun a => acc.map (fun p => (unitName a a :: p.1, p.2)))) [([], 1)]

def handleMPO (j : Json) : Except String Json := do
  let dims ← natList (← field j "d")
  let finite ← getBool (fieldD j "finite" true)
  let window ← getNat (fieldD j "window" (1 : Nat))
  let A ← parseMPO (← field j "A")
  let den (m : MPOM GQ) : Sym GQ := if finite then m.denote else m.denoteWindow window
  let dA := canonOp (den A)
  let mut out : List (String × Json) := [("denoteA", opJson dA)]
  let dimsW := (List.replicate (if finite then 1 else window) dims).flatten
  match j.getObjVal? "B" with
  | .ok bj =>
    let B ← parseMPO bj
    let dB := canonOp (den B)
    let S := MPOM.add A B
    let dS := canonOp (den S)
    out := out ++ [("denoteB", opJson dB), ("add", mpoJson S), ("denote_add", opJson dS),
                   ("add_ok", dS == canonOp (den A ++ den B)), ("equal", dA == dB)]
    if finite then
      let ov := MPOM.overlapTM gramUnit GQ.conj A B
      let fr := frobCanon dA dB
      let nA := MPOM.overlapTM gramUnit GQ.conj A A
      let nB := MPOM.overlapTM gramUnit GQ.conj B B
      out := out ++ [("overlap", ofGQ ov), ("overlap_ok", ov == fr), ("normA", ofGQ nA), ("normB", ofGQ nB)]
  | .error _ => pure ()
  -- dagger
  let Ad := A.dagger hcUnit GQ.conj
  let dAd := canonOp (den Ad)
  out := out ++ [("dagger", mpoJson Ad), ("dagger_ok", dAd == canonOp (Sym.dagger hcUnit GQ.conj (den A))),
                 ("hermitian", dAd == dA)]
  -- plus_identity
  match j.getObjVal? "plus_identity" with
  | .ok pj =>
    let beta ← getGQ (← field pj "beta")
    let tb ← getGQ (← field pj "tb")
    let ta ← getGQ (← field pj "ta")
    let alpha ← getGQ (← field pj "alpha")
    let sites ← natList (← field pj "sites")
    let idOp (k : Nat) : List (String × GQ) := (List.range (dims.getD k 1)).map (fun a => (unitName a a, 1))
    let P := A.plusIdentity beta tb ta sites idOp
    let want := canonOp (Sym.smul alpha (idSym dims) ++ Sym.smul beta (den A))
    out := out ++ [("plus_identity", mpoJson P), ("plus_identity_ok", canonOp P.denote == want)]
  | .error _ => pure ()
  -- make_U_I
  match j.getObjVal? "UI" with
  | .ok uj =>
    let dt ← getGQ (← field uj "dt")
    let U := A.makeUI dt finite
    let UD := (toDual A).makeUI (⟨0, 1⟩ : Dual) finite
    let dUD : Sym Dual := if finite then UD.denote else UD.denoteWindow window
    let zeroth := canonOp (dUD.map (fun p => (p.1, p.2.a)))
    let first := canonOp (dUD.map (fun p => (p.1, p.2.b)))
    -- for a window of an infinite MPO the zeroth order is the identity and the first order the terms
    -- inside the window, both as for the finite case
    out := out ++ [("UI", mpoJson U), ("UI_order0_ok", zeroth == canonOp (idSym dimsW)),
                   ("UI_order1_ok", first == dA)]
  | .error _ => pure ()
  -- prefactor
  match j.getObjVal? "prefactor" with
  | .ok pj =>
    let qs ← listOf (fun q => do
      let i ← getNat (← field q "i")
      let ops ← listOf (fun o => do
        match ← getArr o with
        | [a, b] => return unitName (← getNat a) (← getNat b)
        | _ => throw "bad op") (← field q "ops")
      return (i, ops)) pj
    out := out ++ [("prefactor", ofList (fun (q : Nat × List String) => ofGQ (A.prefactor q.1 q.2)) qs)]
  | .error _ => pure ()
  return obj out


/-! ## extension round: environments, re-arrangements, decision glue, to_TermList (harness/c11_ext.py) -/

def melUnit (o p q : String) : GQ := if o = p ++ "," ++ q then 1 else 0

def optGQ (o : Option GQ) : Json := match o with | some c => ofGQ c | none => Json.null

def parseMPS (j : Json) : Except String (MPSM GQ) := do
  let lay (x : Json) : Except String (List (List (Edge Nat GQ))) :=
    listOf (listOf (fun e => do
      match ← getArr e with
      | [l, r, p, c] => return (⟨← getNat l, ← getNat r, toString (← getNat p), ← getGQ c⟩ : Edge Nat GQ)
      | _ => throw "bad MPS entry")) x
  let A ← lay (← field j "A")
  let B ← lay (← field j "B")
  let S ← listOf (listOf getGQ) (← field j "S")
  let chi ← natList (← field j "chi")
  return ⟨A, B, S, chi⟩

def parseMaxRange (j : Json) : Except String MaxRange :=
  if j.isNull then pure .unknown else
  match j with
  | .str _ => pure .inf
  | _ => do let n ← getInt j; pure (.fin n)

def parseMPOX (j : Json) (finite : Bool) : Except String (MPOX GQ) := do
  let m ← parseMPO j
  let mr ← parseMaxRange (fieldD j "maxRange" Json.null)
  let ph ← getBool (fieldD j "plusHc" false)
  return ⟨m, finite, mr, ph⟩

/-- joined unit names "a.c,b.d" of a grouped site -/
def joinUnit (x y : String) : String :=
  match x.splitOn ",", y.splitOn "," with
  | [a, b], [c, d] => a ++ "." ++ c ++ "," ++ b ++ "." ++ d
  | _, _ => x ++ "*" ++ y

def ofEdgeS (e : Edge Nat GQ) : Json :=
  match e.op.splitOn "," with
  | [a, b] => Json.arr #[e.kL, e.kR, Json.str a, Json.str b, ofGQ e.c]
  | _ => Json.arr #[e.kL, e.kR, Json.str e.op, ofGQ e.c]

def mpoJsonS (m : MPOM GQ) : Json :=
  obj [("chi", ofNatList m.chi), ("idL", ofList optJson m.idL), ("idR", ofList optJson m.idR),
       ("W", ofList (fun l => ofList ofEdgeS (canonLayer l)) m.layers)]

def optMPO (f : MPOM GQ → Json) (o : Option (MPOM GQ)) : Json := match o with | some m => f m | none => Json.null

def epsSqDefault : Rat := (1 / 10000000000 : Rat) * (1 / 10000000000 : Rat)


/-- a canonical matrix-unit operator sum applied to a canonical state (sum of basis strings) -/
def applyOp (T U : List (OpStr × GQ)) : List (OpStr × GQ) :=
  canonOp (T.flatMap (fun (o, c) => U.filterMap (fun (y, e) =>
    let parts := o.map (fun n => n.splitOn ",")
    if parts.length = y.length && (parts.zip y).all (fun (ab, yk) => ab.getD 1 "" == yk) then
      some (parts.map (fun ab => ab.getD 0 ""), c * e)
    else none)))

/-- `<s|u>` of two canonical states -/
def innerState (s u : List (OpStr × GQ)) : GQ := frobCanon s u

def handleExt (j : Json) : Except String Json := do
  let dims ← natList (← field j "d")
  let finite ← getBool (fieldD j "finite" true)
  let A ← parseMPOX (← field j "A") finite
  let mut out : List (String × Json) := []
  -- environments
  match j.getObjVal? "psi" with
  | .ok pj =>
    let psi ← parseMPS pj
    let phi ← match j.getObjVal? "phi" with
      | .ok qj => parseMPS qj
      | .error _ => pure psi
    let cuts ← natList (fieldD j "cuts" (Json.arr #[]))
    let e : Env GQ := ⟨phi, A.m, psi, A.plusHc⟩
    let vals := cuts.map (fun i0 => Env.fullContraction melUnit GQ.conj e i0)
    -- independent evaluation of <bra| H |ket> from the denotations: H applied to the canonical ket, then the
    -- inner product with the canonical bra (matrix units: "a,b" maps |b> to |a>)
    let dH := canonOp A.m.denote
    let specs := cuts.map (fun i0 =>
      let t := innerState (canonOp (phi.state i0)) (applyOp dH (canonOp (psi.state i0)))
      if A.plusHc then t + GQ.conj t else t)
    out := out ++ [("full_contraction", ofList optGQ vals), ("full_contraction_spec", ofList ofGQ specs),
                   ("ev", optGQ (A.m.expectationValueFinite melUnit GQ.conj A.plusHc psi))]
    let doVar ← getBool (fieldD j "var" false)
    if doVar then
      let names (i : Nat) : List String := (List.range (dims.getD i 1)).map toString
      let th := canonOp psi.thetaState
      out := out ++ [("var_contr", optGQ (A.m.varianceContr melUnit GQ.conj names psi)),
                     ("variance", optGQ (A.m.variance melUnit GQ.conj names finite A.plusHc psi)),
                     ("var_spec", ofGQ (innerState th (applyOp dH (applyOp dH th))))]
  | .error _ => pure ()
  -- sort_legcharges
  match j.getObjVal? "sort" with
  | .ok sj =>
    let q ← listOf (listOf intList) (← field sj "q")
    let S := A.m.sortLegcharges q
    out := out ++ [("sort", mpoJson S), ("sort_perms", ofList (fun x => ofNatList (sortPerm x)) q),
                   ("sort_ok", canonOp S.denote == canonOp A.m.denote)]
  | .error _ => pure ()
  -- group_sites
  match j.getObjVal? "group" with
  | .ok gj =>
    let n ← getNat (← field gj "n")
    let sizes ← optOf natList (fieldD gj "sizes" Json.null)
    let G := A.m.groupSites joinUnit n sizes
    let szs := sizes.getD (groupSizes A.m.L n)
    let ok := match G with
      | some g => canonOp g.denote == canonOp (A.m.denote.map (fun p => (regroupStr joinUnit szs p.1, p.2)))
      | none => true
    let mr ← parseMaxRange (fieldD (← field j "A") "maxRange" Json.null)
    let gmr : Json := match groupedMaxRange mr szs with
      | .fin r => Json.num (JsonNumber.fromInt r)
      | .inf => Json.str "inf"
      | .unknown => Json.null
    out := out ++ [("group", optMPO mpoJsonS G), ("group_ok", ok), ("group_max_range", gmr)]
  | .error _ => pure ()
  -- enlarge_mps_unit_cell
  match j.getObjVal? "enlarge" with
  | .ok ej =>
    let f ← getNat (← field ej "factor")
    let w ← getNat (fieldD ej "window" (1 : Nat))
    let E := A.m.enlargeUnitCell finite f
    let ok := match E with
      | some g => canonOp (g.denoteWindow w) == canonOp (A.m.denoteWindow (f * w))
      | none => true
    out := out ++ [("enlarge", optMPO mpoJson E), ("enlarge_ok", ok)]
  | .error _ => pure ()
  -- extract_segment
  match j.getObjVal? "segment" with
  | .ok sj =>
    let ucw ← getNat (← field sj "ucw")
    let first ← getNat (← field sj "first")
    let last ← getNat (← field sj "last")
    let G := A.m.extractSegment ucw first last
    out := out ++ [("segment", optMPO mpoJson G),
                   ("segment_denote", match G with | some g => opJson (canonOp g.denote) | none => Json.null)]
  | .error _ => pure ()
  -- decision glue
  match j.getObjVal? "B" with
  | .ok bj =>
    let finB ← getBool (fieldD bj "finite" finite)
    let B ← parseMPOX bj finB
    let ns ← optOf getNat (fieldD j "numSites" Json.null)
    let mrArg ← parseMaxRange (fieldD j "isEqualMaxRange" Json.null)
    let ov := MPOX.overlap gramUnit GQ.conj hcUnit A B ns
    let n? := MPOX.overlapNumSites A B ns
    let doSpec ← getBool (fieldD j "overlapSpec" true)
    let ovSpec : Json := match (if doSpec then n? else none) with
      | some n => ofGQ (frobCanon (canonOp (A.window hcUnit GQ.conj n)) (canonOp (B.window hcUnit GQ.conj n)))
      | none => Json.null
    let dist := MPOX.distance gramUnit GQ.conj hcUnit (fun z : GQ => z.re) ((1 : Rat) / 100000000000000) A B ns
    let ie := MPOX.isEqual gramUnit GQ.conj hcUnit GQ.normSq epsSqDefault A B mrArg
    let ieBA := MPOX.isEqual gramUnit GQ.conj hcUnit GQ.normSq epsSqDefault B A mrArg
    out := out ++ [("overlap", optGQ ov), ("overlap_num_sites", match n? with | some n => (n : Json) | none => Json.null),
                   ("overlap_spec", ovSpec), ("distance", optGQ dist),
                   ("is_equal", match ie with | some b => (b : Json) | none => Json.null),
                   ("is_equal_BA", match ieBA with | some b => (b : Json) | none => Json.null),
                   ("is_equal_num_sites", (MPOX.isEqualNumSites A B mrArg : Nat))]
  | .error _ => pure ()
  match j.getObjVal? "hermitian" with
  | .ok hj =>
    let mrArg ← parseMaxRange (fieldD hj "maxRange" Json.null)
    let ih := MPOX.isHermitian gramUnit GQ.conj hcUnit GQ.normSq epsSqDefault A mrArg
    out := out ++ [("is_hermitian", match ih with | some b => (b : Json) | none => Json.null)]
  | .error _ => pure ()
  -- __add__ with the attributes (explicit_plus_hc, max_range, bc)
  match j.getObjVal? "add" with
  | .ok aj =>
    let fa ← getBool (fieldD (← field aj "A0") "finite" finite)
    let fb ← getBool (fieldD (← field aj "B0") "finite" finite)
    let A0 ← parseMPOX (← field aj "A0") fa
    let B0 ← parseMPOX (← field aj "B0") fb
    let rangeJ (r : MaxRange) : Json := match r with
      | .fin r => Json.num (JsonNumber.fromInt r)
      | .inf => Json.str "inf"
      | .unknown => Json.null
    match MPOX.add A0 B0 with
    | some S =>
      let okFull := if finite then
          canonOp (S.full hcUnit GQ.conj) == canonOp (A0.full hcUnit GQ.conj ++ B0.full hcUnit GQ.conj)
        else true
      out := out ++ [("add", obj [("mpo", mpoJson S.m), ("plusHc", (S.plusHc : Json)), ("finite", (S.finite : Json)),
                                  ("maxRange", rangeJ S.maxRange), ("full_ok", (okFull : Json))])]
    | none => out := out ++ [("add", Json.null)]
  | .error _ => pure ()
  -- to_TermList
  match j.getObjVal? "termlist" with
  | .ok tj =>
    let start ← optOf natList (fieldD tj "start" Json.null)
    let mr ← optOf getNat (fieldD tj "maxRange" Json.null)
    let ign ← listOf (fun o => do
        match ← getArr o with
        | [a, b] => return unitName (← getNat a) (← getNat b)
        | _ => throw "bad op") (fieldD tj "ignore" (Json.arr #[]))
    let L := A.m.L
    let basis (jj : Nat) : List String :=
      let d := dims.getD (jj % L) 1
      (List.range d).flatMap (fun a => (List.range d).map (fun b => unitName a b))
    let cut2 : Rat := (1 / 1000000000000 : Rat) * (1 / 1000000000000 : Rat)
    let small (c : GQ) : Bool := c.normSq < cut2
    let tl := MPOX.toTermList small ign A basis start mr
    let termJ (t : TTerm GQ) : Json :=
      Json.arr #[ofList (fun (p : String × Nat) =>
        match p.1.splitOn "," with
        | [a, b] => Json.arr #[(a.toNat?.getD 0 : Nat), (b.toNat?.getD 0 : Nat), (p.2 : Nat)]
        | _ => Json.arr #[Json.str p.1, (p.2 : Nat)]) t.1, ofGQ t.2]
    out := out ++ [("termlist", match tl with | some l => ofList termJ l | none => Json.null)]
  | .error _ => pure ()
  return obj out

def handle (j : Json) : Except String Json := do
  let k ← getStr (← field j "k")
  if k == "mpo" then handleMPO j
  else if k == "ext" then handleExt j
  else throw s!"unknown kind {k}"

def main : IO Unit := serve handle
