import TenpyModel.Util.J
import TenpyModel.C18.ExtMeas
import TenpyModel.C18.ExtNames
import TenpyModel.C18.ExtCkpt
/-! Driver for the C18 extension round (separate from drivers/C18.lean): ops `merge`, `names`, `ckpt`. -/
open Lean TenpyModel TenpyModel.J
open TenpyModel.C18

/-- `{"k":"merge","rows":[[[key,val],…],…]}` → after every merge the store (`null` | `[[key,[val|null,…]],…]`) or
`"raised"` from the first raising merge on -/
def parseRow (j : Json) : Except String ExtMeas.Row :=
  listOf (fun p => do
    match (← getArr p) with
    | [k, v] => return (← getNat k, ← getInt v)
    | _ => throw "bad-pair") j

def valJson : ExtMeas.Val → Json
  | none => Json.null
  | some v => (v : Json)

def colsJson : Option ExtMeas.Cols → Json
  | none => Json.null
  | some cols => ofList (fun (c : ExtMeas.Key × List ExtMeas.Val) => Json.arr #[(c.1 : Json), ofList valJson c.2]) cols

def mergeTrace : Option ExtMeas.Cols → List ExtMeas.Row → List Json
  | _, [] => []
  | st, r :: rs => match ExtMeas.merge st r with
    | none => (r :: rs).map (fun _ => Json.str "raised")
    | some st' => colsJson st' :: mergeTrace st' rs

def handleMerge (j : Json) : Except String Json := do
  let rows ← listOf parseRow (← field j "rows")
  return obj [("trace", Json.arr (mergeTrace none rows).toArray)]

/-- `{"k":"names","opts":{…},"dir":[[name,content],…],"stub":c}`; names: `["out",i] | ["bak",i] | ["log"] | ["baklog"]` -/
def parseName (j : Json) : Except String ExtNames.FName := do
  match (← getArr j) with
  | [t] =>
    let s ← getStr t
    if s == "log" then return .log else if s == "baklog" then return .bakLog else throw "bad-name"
  | [t, i] =>
    let s ← getStr t
    if s == "out" then return .out (← getNat i) else if s == "bak" then return .bak (← getNat i) else throw "bad-name"
  | _ => throw "bad-name"

def nameJson : ExtNames.FName → Json
  | .out i => Json.arr #["out", i]
  | .bak i => Json.arr #["bak", i]
  | .log => Json.arr #["log"]
  | .bakLog => Json.arr #["baklog"]

def handleNames (j : Json) : Except String Json := do
  let oj ← field j "opts"
  let b (k : String) : Except String Bool := do getBool (← field oj k)
  let o : ExtNames.Opts := { hasName := ← b "has_name", skip := ← b "skip", overwrite := ← b "overwrite",
                             loaded := ← b "loaded", safe := ← b "safe", guardSkip := ← b "guard_skip" }
  let entries ← listOf (fun p => do
    match (← getArr p) with
    | [n, c] => return (← parseName n, ← getNat c)
    | _ => throw "bad-entry") (← field j "dir")
  let stubC ← getNat (← field j "stub")
  let maxI ← getNat (← field j "max_i")
  let r := ExtNames.fixNames stubC o (ExtNames.ofList entries)
  let names : List ExtNames.FName :=
    (List.range (maxI + 1)).flatMap (fun i => [ExtNames.FName.out i, ExtNames.FName.bak i]) ++ [.log, .bakLog]
  let listing := names.filterMap (fun n => (r.2 n).map (fun c => Json.arr #[nameJson n, (c : Json)]))
  let oc : Json := match r.1 with
    | .noFile => Json.arr #["nofile"]
    | .skipped => Json.arr #["skip"]
    | .refused => Json.arr #["refuse"]
    | .ok i bk => Json.arr #["ok", i, bk]
  return obj [("outcome", oc), ("dir", Json.arr listing.toArray)]

/-- `{"k":"ckpt","last":t,"every":null|e,"evs":[["ckpt",now,tLast,tAfter]|["sig",bool],…]}` → the state after every
prefix of the events: `[saves, last, every, sigint, stop]` -/
def parseEv (j : Json) : Except String ExtCkpt.Ev := do
  match (← getArr j) with
  | [t, b] => if (← getStr t) == "sig" then return .signal (← getBool b) else throw "bad-ev"
  | [t, a, b, c] =>
    if (← getStr t) == "ckpt" then return .ckpt ⟨← getInt a, ← getInt b, ← getInt c⟩ else throw "bad-ev"
  | _ => throw "bad-ev"

def ckptStateJson (r : ExtCkpt.St × Option ExtCkpt.Stop) : Json :=
  Json.arr #[ofNatList r.1.saves, (r.1.last : Json),
    (match r.1.every with | none => Json.null | some e => (e : Json)), r.1.sigint,
    (match r.2 with
      | none => Json.null
      | some .savedAndInterrupted => Json.str "KeyboardInterrupt-after-save"
      | some .secondSigint => Json.str "KeyboardInterrupt-second"
      | some .badSignal => Json.str "ValueError")]

def handleCkpt (j : Json) : Except String Json := do
  let evs ← listOf parseEv (← field j "evs")
  let st : ExtCkpt.St := { last := ← getInt (← field j "last"), every := ← optOf getInt (fieldD j "every" Json.null),
                           sigint := false, saves := [] }
  let tr := (List.range evs.length).map (fun k => ckptStateJson (ExtCkpt.runEvs 0 st (evs.take (k + 1))))
  return obj [("trace", Json.arr tr.toArray)]

def handle (j : Json) : Except String Json := do
  let k ← getStr (← field j "k")
  if k == "merge" then handleMerge j
  else if k == "names" then handleNames j
  else if k == "ckpt" then handleCkpt j
  else throw s!"unknown kind {k}"

def main : IO Unit := serve handle
