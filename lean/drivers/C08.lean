import TenpyModel.Util.J
import TenpyModel.MPS.Eval
import TenpyModel.C08.ExtEval
import TenpyModel.C08.ExtArgs
/-!
Line protocol of the C08 extension round (`harness/c08_ext.py`).  One JSON object per line in, one
out.  Tensors / scalars travel as IEEE-754 bit patterns like in `drivers/C07.lean` (same MPS dump
format, `harness/mps_common.py::dump_mps`); everything is evaluated at `Cx Float`.

ops: `corrsweep` (`_corr_up_diag`), `corrmatrix` (`correlation_function`), `samplerange`
(`sample_measurements` for a given outcome), `evplan` / `getop` / `corrsites` / `mutinf` / `tcfjr` /
`opidx` (argument parsing and loop ranges), `selfcheck` (tabulated vs literal definitions).
-/
open Lean TenpyModel TenpyModel.J TenpyModel.MPS TenpyModel.MPS.MPSM TenpyModel.MPS.Eval
open TenpyModel.MPS.Ext TenpyModel.MPS.Ext.EvalX

instance : Zero Float := ⟨0.0⟩
instance : One Float := ⟨1.0⟩

abbrev C := Cx Float

def ofBits (re im : Nat) : C := ⟨Float.ofBits (UInt64.ofNat re), Float.ofBits (UInt64.ofNat im)⟩
def fbits (x : Float) : Json := Json.num (JsonNumber.fromNat x.toBits.toNat)
def encScalar (x : C) : Json := Json.arr #[fbits x.re, fbits x.im]
def cj : C → C := Cx.conj

def getScalar (j : Json) : Except String C := do
  match ← getArr j with
  | [r, i] => return ofBits (← getNat r) (← getNat i)
  | _ => throw "scalar"

def getFlat (j : Json) : Except String (Array C) := do
  let re ← natList (← field j "re")
  let imj := fieldD j "im" Json.null
  if imj.isNull then
    return (re.map (fun r => ofBits r 0)).toArray
  else
    let im ← natList imj
    if im.length ≠ re.length then throw "re/im length"
    return ((re.zip im).map (fun (r, i) => ofBits r i)).toArray

def getForm (j : Json) : Except String (Option Form) :=
  if j.isNull then pure none else do
    match ← getArr j with
    | [l, r] => return some (← getInt l, ← getInt r)
    | _ => throw "form"

def getBC (j : Json) : Except String BC := do
  match ← getStr j with
  | "finite" => pure BC.finite
  | "segment" => pure BC.segment
  | "infinite" => pure BC.infinite
  | s => throw s!"bc {s}"

def parseSite (j : Json) : Except String (Site C) := do
  let dL ← getNat (← field j "dL")
  let d ← getNat (← field j "d")
  let dR ← getNat (← field j "dR")
  let arr ← getFlat j
  if arr.size ≠ dL * d * dR then throw s!"site size {arr.size} vs {dL}*{d}*{dR}"
  return { dL := dL, d := d, dR := dR, form := ← getForm (fieldD j "form" Json.null),
           B := fun a p c => if a < dL ∧ p < d ∧ c < dR then arr.getD ((a * d + p) * dR + c) 0 else 0 }

def parseBond (j : Json) : Except String (Bond C) := do
  let ss ← natList j
  let rs := ss.map (fun b =>
    let r := Float.sqrt (Float.ofBits (UInt64.ofNat b))
    ((⟨r, 0.0⟩ : C), (⟨1.0 / r, 0.0⟩ : C)))
  let ra := (rs.map (·.1)).toArray
  let ri := (rs.map (·.2)).toArray
  return { chi := ss.length, R := fun a => ra.getD a 0, Rinv := fun a => ri.getD a 0 }

def emptySite : Site C := { dL := 0, d := 0, dR := 0, B := fun _ _ _ => 0, form := none }
def emptyBond : Bond C := { chi := 0, R := fun _ => 0, Rinv := fun _ => 0 }

def parseMPS (j : Json) : Except String (MPSM C) := do
  let sites ← listOf parseSite (← field j "sites")
  let bonds ← listOf parseBond (← field j "bonds")
  let sa := sites.toArray
  let ba := bonds.toArray
  return { L := sites.length, site := fun i => sa.getD i emptySite, bond := fun i => ba.getD i emptyBond,
           norm := ← getScalar (← field j "norm"), bc := ← getBC (← field j "bc") }

def getMat (n : Nat) (j : Json) : Except String (Mat C) := do
  let arr ← getFlat j
  if arr.size ≠ n * n then throw s!"matrix size {arr.size} vs {n}^2"
  return fun p q => if p < n ∧ q < n then arr.getD (p * n + q) 0 else 0

def basisVec (k : Nat) : Vec C := fun a => delta a k
def zeroMat : Mat C := fun _ _ => 0

/-- per-site operator list `[mat | null, …]` (site `k` has dimension `d k`) -/
def getOpsPerSite (d : Nat → Nat) (j : Json) : Except String (Nat → Mat C) := do
  let l ← getArr j
  let ms ← (l.zip (List.range l.length)).mapM (fun ((o : Json), (k : Nat)) =>
    if o.isNull then pure zeroMat else getMat (d k) o)
  let ma := ms.toArray
  return fun k => ma.getD k zeroMat

def getStrOps (d : Nat → Nat) (j : Json) : Except String (Option (Nat → Mat C)) :=
  if j.isNull then pure none else do return some (← getOpsPerSite d j)

/-- the tensors an `MPSEnvironment` contraction around site `i` uses: `'A'` forms left of `i`
(`get_LP(i)`), `get_B(i, 'Th')`, `'B'` forms right of `i` (`get_RP`) -/
def chainAt (M : MPSM C) (i : Nat) : List (RSite C) × RSite C × List (RSite C) :=
  ((M.formSites fA 0 i).map tabSite, tabSite (M.getBsite i fTh),
   (M.formSites fB ((i : Int) + 1) (M.L - (i + 1))).map tabSite)

/-- closing of a finite chain: trivial outer legs -/
def Wend : Mat C := fun b' b => cj (delta b' 0) * delta b 0

structure RowCtx where
  LP : Mat C
  sbI : RSite C
  skI : RSite C
  sbs : List (RSite C)
  sks : List (RSite C)
  RP : Nat → Mat C

/-- left environment, centre tensors and all right environments for the row of site `i` -/
def rowCtx (bra ket : MPSM C) (i : Nat) : RowCtx :=
  let (lb, sbI, sbs) := chainAt bra i
  let (lk, skI, sks) := chainAt ket i
  let lp := tmFoldE cj (outer cj (basisVec 0) (basisVec 0)) lb lk
  let nb := (lb.getLast?.map (·.dR)).getD 1
  let nk := (lk.getLast?.map (·.dR)).getD 1
  let lpa := tabMat nb nk lp
  let rps := (rpAllE cj Wend 1 1 sbs sks).toArray
  { LP := ofArrMat nb nk lpa, sbI := sbI, skI := skI, sbs := sbs, sks := sks,
    RP := fun j => match rps.getD (j - i) (0, 0, #[]) with
      | (m, n, arr) => ofArrMat m n arr }

def sweepE (bra ket : MPSM C) (i : Nat) (opA : Mat C) (sof first : Bool) (opsB : Nat → Mat C)
    (str : Option (Nat → Mat C)) (js : List Nat) : List C :=
  let c := rowCtx bra ket i
  corrUpDiagE cj c.LP c.sbI c.skI opA sof first opsB str c.RP i c.sbs c.sks js

def diagE (bra ket : MPSM C) (i : Nat) (op1 op2 : Mat C) : C :=
  let c := rowCtx bra ket i
  let arr := tmStepE cj c.LP c.sbI (opSite (mmul c.skI.d op1 op2) c.skI)
  closeRP c.sbI.dR c.skI.dR (ofArrMat c.sbI.dR c.skI.dR arr) (c.RP i)

def optScalar : Option C → Json
  | some v => encScalar v
  | none => Json.null

def getOpDesc (j : Json) : Except String OpDesc := do
  match ← getArr j with
  | [s, r] => return ⟨← getBool s, ← getNat r⟩
  | _ => throw "opdesc"

def planJson (l : List (Int × Nat)) : Json :=
  Json.arr (l.map (fun (i, k) => Json.arr #[Json.num (JsonNumber.fromInt i), Json.num (JsonNumber.fromNat k)])).toArray

def handle (j : Json) : Except String Json := do
  let op ← getStr (← field j "op")
  match op with
  | "corrsweep" =>
    let bra ← parseMPS (← field j "bra")
    let ket ← parseMPS (← field j "ket")
    let i ← getNat (← field j "i")
    let js ← natList (← field j "js")
    let d := fun k => (ket.site k).d
    let opA ← getMat (d i) (← field j "opA")
    let opsB ← getOpsPerSite d (← field j "opsB")
    let str ← getStrOps d (fieldD j "str" Json.null)
    let sof ← getBool (← field j "sof")
    let first ← getBool (← field j "first")
    return obj [("v", Json.arr ((sweepE bra ket i opA sof first opsB str js).map encScalar).toArray)]
  | "corrmatrix" =>
    let bra ← parseMPS (← field j "bra")
    let ket ← parseMPS (← field j "ket")
    let d := fun k => (ket.site k).d
    let ops1 ← getOpsPerSite d (← field j "ops1")
    let ops2 ← getOpsPerSite d (← field j "ops2")
    let str ← getStrOps d (fieldD j "str" Json.null)
    let sof ← getBool (← field j "sof")
    let s1 ← natList (← field j "s1")
    let s2 ← natList (← field j "s2")
    let herm ← getBool (← field j "herm")
    let usenorm ← getBool (← field j "usenorm")
    let inp : CorrIn C :=
      { up := fun i js => sweepE bra ket i (ops1 i) sof true ops2 str js,
        lo := fun jj is => sweepE bra ket jj (ops2 jj) sof false ops1 str is,
        diag := fun i => diagE bra ket i (ops1 i) (ops2 i) }
    let nrm : C := if usenorm then bra.norm * ket.norm else 1
    match corrMatrix cj inp s1 s2 herm nrm with
    | .error e => return obj [("ok", false), ("err", Json.str e)]
    | .ok Cm =>
      let rows := (List.range s1.length).map (fun x =>
        Json.arr ((List.range s2.length).map (fun y => optScalar (Cm x y))).toArray)
      return obj [("ok", true), ("C", Json.arr rows.toArray)]
  | "samplerange" =>
    let M ← parseMPS (← field j "mps")
    let first ← getNat (← field j "first")
    let last ← getNat (← field j "last")
    let σ ← natList (← field j "sigma")
    let cplx ← getBool (← field j "complex")
    let vdj := fieldD j "vd" Json.null
    let d := fun (k : Nat) => (M.siteAt (k : Int)).d
    let (vd, nops) ← (if vdj.isNull then pure ((none : Option (Nat → Nat → Mat C)), 1) else do
      let per ← listOf (getOpsPerSite d) vdj
      let pa := per.toArray
      pure (some (fun k i => (pa.getD k (fun _ => zeroMat)) i), per.length))
    let θ := tabSite (M.getBsite first fTh)
    let Bs := (M.formSites fB ((first : Int) + 1) (last - first)).map tabSite
    let sites := basisSites vd nops first first (θ :: Bs)
    let chiL := θ.dL
    let idm : Mat C := fun a a' => delta a a'
    -- the numbers the code divides by: square roots of the squared norms, step by step
    let rec norms (i : Nat) (Θ : Mat C) : List (RSite C) → List Nat → List (C × C)
      | s :: ss, p :: ps =>
        let a0 := tabMat chiL s.dR (mstep Θ s p)
        let n2 := normsq cj chiL s.dR (ofArrMat chiL s.dR a0)
        let w : C := ⟨Float.sqrt n2.re, 0.0⟩
        let wi : C := ⟨1.0 / w.re, 0.0⟩
        let arr := tabMat chiL s.dR (fun a b => wi * (ofArrMat chiL s.dR a0) a b)
        (w, wi) :: norms (i + 1) (ofArrMat chiL s.dR arr) ss ps
      | _, _ => []
    let ws := (norms first idm sites σ).toArray
    let w := fun i => (ws.getD (i - first) (1, 1)).1
    let winv := fun i => (ws.getD (i - first) (1, 1)).2
    let full := M.finiteBC && M.bc == BC.finite && first == 0 && last + 1 == M.L
    let W := sampleRangeE chiL w winv full first idm 1 sites σ
    let res := if cplx then W else W * cj W
    let n2s := sampleNormSqsE cj chiL winv first idm sites σ
    return obj [("weight", encScalar res), ("W", encScalar W),
                ("ws", Json.arr ((ws.toList.map (·.1)).map encScalar).toArray),
                ("normsqs", Json.arr (n2s.map encScalar).toArray)]
  | "opidx" =>
    let first ← getNat (← field j "first")
    let nops ← getNat (← field j "nops")
    let is ← natList (← field j "sites")
    return obj [("v", ofNatList (is.map (sampleOpIdx first nops)))]
  | "evplan" =>
    let L ← getNat (← field j "L")
    let fin ← getBool (← field j "finite")
    let ops ← listOf getOpDesc (← field j "ops")
    let sites ← optOf intList (fieldD j "sites" Json.null)
    let axes ← optOf (fun a => do
      match ← natList a with
      | [x, y] => pure (x, y)
      | _ => throw "axes") (fieldD j "axes" Json.null)
    match evPlan L fin ops sites axes with
    | .error e => return obj [("ok", false), ("err", Json.str e)]
    | .ok (n, l) => return obj [("ok", true), ("n", n), ("plan", planJson l)]
  | "getop" =>
    let L ← getNat (← field j "L")
    let fin ← getBool (← field j "finite")
    let nops ← getNat (← field j "nops")
    let is ← intList (← field j "sites")
    return obj [("v", Json.arr (is.map (fun i => match getOpIdx L fin nops i with
      | .ok k => Json.num (JsonNumber.fromNat k)
      | .error e => Json.str e)).toArray)]
  | "corrsites" =>
    let L ← getNat (← field j "L")
    let a := fieldD j "arg" Json.null
    let arg ← (if a.isNull then pure SitesArg.none else
      match a.getNat? with
      | .ok k => pure (SitesArg.int k)
      | .error _ => do return SitesArg.list (← natList a))
    let i ← getNat (fieldD j "i" (Json.num 0))
    let s := corrSitesArg L arg
    return obj [("sorted", ofNatList s), ("jgtr", ofNatList (jGtr i s))]
  | "mutinf" =>
    let L ← getNat (← field j "L")
    let fin ← getBool (← field j "finite")
    let mr ← optOf getNat (fieldD j "max_range" Json.null)
    return obj [("coords", Json.arr ((mutinfCoords L fin mr).map (fun (a, b) => ofNatList [a, b])).toArray)]
  | "tcfjr" =>
    let L ← getNat (← field j "L")
    let fin ← getBool (← field j "finite")
    let iL ← getInt (← field j "iL")
    let tL ← intList (← field j "termL")
    let tR ← intList (← field j "termR")
    return obj [("jR", ofIntList (tcfDefaultJR L fin iL tL tR))]
  | "selfcheck" =>
    -- tabulated evaluation against the literal model definitions on a small chain
    let bra ← parseMPS (← field j "bra")
    let ket ← parseMPS (← field j "ket")
    let d := fun k => (ket.site k).d
    let opA ← getMat (d 0) (← field j "opA")
    let opsB ← getOpsPerSite d (← field j "opsB")
    let str ← getStrOps d (fieldD j "str" Json.null)
    let js ← natList (← field j "js")
    let σ ← natList (← field j "sigma")
    let (_, sbI, sbs) := chainAt bra 0
    let (_, skI, sks) := chainAt ket 0
    let lp := outer cj (basisVec 0) (basisVec 0)
    let rpLit : Nat → Mat C := fun jj => rfold cj Wend (sbs.drop (jj - 0)) (sks.drop (jj - 0))
    let lit := corrUpDiag cj lp sbI skI opA true true opsB str rpLit 0 sbs sks js
    let fast := sweepE bra ket 0 opA true true opsB str js
    let ww : Nat → C := fun i => ⟨1.0 + 0.5 * i.toFloat, 0.0⟩
    let wi : Nat → C := fun i => ⟨1.0 / (1.0 + 0.5 * i.toFloat), 0.0⟩
    let idm : Mat C := fun a a' => delta a a'
    let chain := skI :: sks
    let s1 := sampleRange ww wi true 0 idm 1 chain σ
    let s2 := sampleRangeE 1 ww wi true 0 idm 1 chain σ
    let n1 := sampleNormSqs cj 1 wi 0 idm chain σ
    let n2 := sampleNormSqsE cj 1 wi 0 idm chain σ
    return obj [("lit", Json.arr (lit.map encScalar).toArray), ("fast", Json.arr (fast.map encScalar).toArray),
                ("s_lit", encScalar s1), ("s_fast", encScalar s2),
                ("n_lit", Json.arr (n1.map encScalar).toArray), ("n_fast", Json.arr (n2.map encScalar).toArray)]
  | _ => throw s!"unknown op {op}"

def main : IO Unit := serve handle
