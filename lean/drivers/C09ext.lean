import TenpyModel.Util.J
import TenpyModel.C09.ExtPermute
import TenpyModel.C09.ExtTerm
/-!
Line protocol of the C09 extension round (`harness/c09_ext.py`).  One JSON object per line in, one out.

ops:
* `permute`  `{L, items: [[key, par], ...]}` → `{raises}` or `{sched, sign, keys, inv}` (`permuteSitesChecked`)
* `termops`  `{sites: [[jw names]...], inf, term: [[op, [parts], i]...], autoJW, off, jwRight: null|bool}`
             → `{error}` or `{ops, imin, extra}` (`termToOps`)
* `termplan` same without `jwRight`, plus `canJW` → `{error}` or `{jw, steps: [[site, [names]]...]}`
* `validsite` `{L, inf, i}` → `{k}` (null = ValueError)
-/
open Lean TenpyModel TenpyModel.J TenpyModel.MPS TenpyModel.C09.Ext

def getItem (j : Json) : Except String PItem := do
  match ← getArr j with
  | [k, p] => return ⟨← getNat k, ← getBool p⟩
  | _ => throw "item"

def getREntry (j : Json) : Except String REntry := do
  match ← getArr j with
  | [o, ps, i] => return ⟨← getStr o, ← listOf getStr ps, ← getInt i⟩
  | _ => throw "entry"

def errName : TermErr → String
  | .assertion => "AssertionError"
  | .valueError => "ValueError"
  | .indexError => "IndexError"

def strList (l : List String) : Json := ofList Json.str l

def handle (j : Json) : Except String Json := do
  let op ← getStr (← field j "op")
  match op with
  | "permute" =>
    let L ← getNat (← field j "L")
    let items ← listOf getItem (← field j "items")
    match permuteSitesChecked L items with
    | none => return obj [("raises", Json.str "IndexError")]
    | some r =>
      return obj [("sched", ofNatList r.sched), ("sign", Json.num (JsonNumber.fromInt r.sign)),
        ("keys", ofNatList (r.final.map (·.key))), ("inv", Json.num (JsonNumber.fromNat (invCount (items.take L)))),
        ("invsign", Json.num (JsonNumber.fromInt (invSign (items.take L))))]
  | "termops" =>
    let sites ← listOf (listOf getStr) (← field j "sites")
    let inf ← getBool (← field j "inf")
    let term ← listOf getREntry (← field j "term")
    let autoJW ← getBool (← field j "autoJW")
    let off ← getInt (← field j "off")
    let jwRight ← optOf getBool (fieldD j "jwRight" Json.null)
    match termToOps sites inf term autoJW off jwRight with
    | .error e => return obj [("error", Json.str (errName e))]
    | .ok (ops, imin, extra) =>
      return obj [("ops", ofList strList ops), ("imin", Json.num (JsonNumber.fromInt imin)), ("extra", Json.bool extra)]
  | "termplan" =>
    let sites ← listOf (listOf getStr) (← field j "sites")
    let inf ← getBool (← field j "inf")
    let canJW ← listOf getBool (← field j "canJW")
    let term ← listOf getREntry (← field j "term")
    let autoJW ← getBool (← field j "autoJW")
    let off ← getInt (← field j "off")
    match applyLocalTermPlan sites inf canJW term autoJW off with
    | .error e => return obj [("error", Json.str (errName e))]
    | .ok p =>
      let jw := match p.jwLeftOf with
        | none => Json.null
        | some k => Json.num (JsonNumber.fromNat k)
      return obj [("jw", jw), ("steps", ofList (fun (s : Nat × List String) =>
        Json.arr #[Json.num (JsonNumber.fromNat s.1), strList s.2]) p.steps)]
  | "validsite" =>
    let L ← getNat (← field j "L")
    let inf ← getBool (← field j "inf")
    let i ← getInt (← field j "i")
    match validSite L inf i with
    | none => return obj [("k", Json.null)]
    | some k => return obj [("k", Json.num (JsonNumber.fromNat k))]
  | _ => throw s!"unknown op {op}"

def main : IO Unit := serve handle
