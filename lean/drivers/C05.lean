import TenpyModel.Core.Codec
import TenpyModel.C05.Fact
/-!
Line protocol of the C05 model. Input: the matrix `a` as constructed by the worker (legs with flags, qtotal,
`_qdata`, integer-coded block data), the operation and its options, and the data-dependent decisions of the
per-block routines (`keep` masks of the cutoff, number of columns of `qr_li`, `argsort` permutations).

The per-block routine `F` is instantiated by PROVENANCE CODES: entry `(r, c)` of factor `k` of the block at
position `b` is the integer `((k*64 + b)*64 + r)*64 + c + 1`; `0` is a structural zero, `-1` an exact one
(identity blocks). The harness replaces every code by the number the implementation's own per-block call
returned and compares the dense factors entry by entry, exactly.
-/
open Lean TenpyModel TenpyModel.J TenpyModel.Core TenpyModel.Core.Codec TenpyModel.C05

structure Code where
  v : Int
deriving DecidableEq, Repr

instance : Zero Code := ⟨⟨0⟩⟩
instance : One Code := ⟨⟨-1⟩⟩
instance : Add Code := ⟨fun a b => ⟨a.v + b.v⟩⟩
instance : Mul Code := ⟨fun a _ => a⟩

def code (k b r c : Nat) : Code := ⟨(((k * 64 + b) * 64 + r) * 64 + c + 1 : Nat)⟩

def matToJson (m : Mat Code) : Json := ofList (fun row => ofIntList (row.map (·.v))) m
def matOfJson (j : Json) : Except String (Mat Code) := do
  return (← listOf intList j).map (fun row => row.map (fun x => (⟨x⟩ : Code)))

def optStr : Option String → Json
  | none => Json.null
  | some s => Json.str s

def bmatOfJson (j : Json) : Except String (BMat Code) := do
  let legs ← listOf legOfJson (← field j "legs")
  let qd ← listOf natList (← field j "qdata")
  let bl ← listOf matOfJson (← field j "blocks")
  match legs with
  | [l0, l1] =>
    return { leg0 := l0, leg1 := l1, qtotal := ← intList (← field j "qtotal"),
             blocks := List.zipWith (fun q m => ⟨q.getD 0 0, q.getD 1 0, m⟩) qd bl }
  | _ => throw "rank"

def bmatToJson (a : BMat Code) : Json :=
  obj [("legs", Json.arr #[legToJson a.leg0, legToJson a.leg1]), ("qtotal", ofIntList a.qtotal),
       ("qdata", ofList (fun (b : Blk Code) => ofNatList [b.qi, b.qj]) a.blocks),
       ("shapes", ofList (fun (b : Blk Code) => ofNatList [b.m.nrows, b.m.ncols]) a.blocks),
       ("blocks", ofList (fun (b : Blk Code) => matToJson b.m) a.blocks),
       ("dense", matToJson a.toDense)]

def errToJson : Err → Json
  | .valueError => obj [("error", "ValueError")]
  | .runtimeError => obj [("error", "RuntimeError")]
  | .notImplemented => obj [("error", "NotImplementedError")]

def optCharge (j : Json) : Except String (Option Charge) := optOf intList j

def blockedJson (p : Piped Code) : List (String × Json) :=
  [("piped", ofNatList (pipedAxes p)), ("blocked", bmatToJson p.mat)]

def shapeOf (a : BMat Code) (b : Blk Code) : Nat × Nat :=
  (a.leg0.blockSizes.getD b.qi 0, a.leg1.blockSizes.getD b.qj 0)

def handle (j : Json) : Except String Json := do
  let op ← getStr (← field j "op")
  let o ← field j "opts"
  let a ← bmatOfJson (← field j "a")
  let aux := fieldD j "aux" (obj [])
  let keep ← listOf (listOf getBool) (fieldD aux "keep" (Json.arr #[]))
  let ks ← natList (fieldD aux "k" (Json.arr #[]))
  let perms ← listOf natList (fieldD aux "perms" (Json.arr #[]))
  -- decisions by code: S-code -> kept?
  let keepP : Code → Bool := fun c =>
    let n := (c.v - 1).toNat
    let col := n % 64
    let b := (n / (64 * 64)) % 64
    (keep.getD b []).getD col true
  if op == "svd" || op == "pinv" || op == "polar" then
    let full ← (if op == "svd" then (do getBool (← field o "full")) else pure false)
    let F : Nat → Blk Code → SvdFac Code := fun i b =>
      let m := b.m.nrows
      let n := b.m.ncols
      let k := min m n
      if full then ⟨Mat.ofFn m m (code 1 i), (List.range k).map (code 2 i 0), Mat.ofFn n n (code 3 i)⟩
      else ⟨Mat.ofFn m k (code 1 i), (List.range k).map (code 2 i 0), Mat.ofFn k n (code 3 i)⟩
    if op == "svd" then
      let cutoff := !(← field o "cutoff").isNull
      let so : SvdOpts := { full := full, computeUV := ← getBool (← field o "uv"), cutoff := cutoff,
                            qL := ← optCharge (← field o "qL"), qR := ← optCharge (← field o "qR"),
                            innerQconj := ← getInt (← field o "iq") }
      let p := asCompletelyBlocked a
      match svd a F keepP so with
      | .error e => return errToJson e
      | .ok r =>
        let labs ← listOf (optOf getStr) (← field o "labels")
        let al ← listOf (optOf getStr) (← field (← field j "a") "labels")
        return obj (blockedJson p ++ [("U", bmatToJson r.u), ("S", ofIntList (r.s.map (·.v))), ("VH", bmatToJson r.vh),
                     ("labelsU", ofList optStr [al.getD 0 none, labs.getD 0 none]),
                     ("labelsVH", ofList optStr [labs.getD 1 none, al.getD 1 none])])
    else if op == "pinv" then
      let p := asCompletelyBlocked a
      match pinvBlocked p.mat F keepP id id with
      | .error e => return errToJson e
      | .ok r => return obj (blockedJson p ++ [("P", bmatToJson (splitLegs r (p.pipe1.map Pipe.conj) (p.pipe0.map Pipe.conj)))])
    else
      let p := asCompletelyBlocked a
      let left ← getBool (← field o "left")
      match polarBlocked p.mat F keepP id left with
      | .error e => return errToJson e
      | .ok (u, pp) =>
        let pu := splitLegs u p.pipe0 p.pipe1
        let ppp := if left then splitLegs pp p.pipe0 (p.pipe0.map Pipe.conj)
                   else splitLegs pp (p.pipe1.map Pipe.conj) p.pipe1
        return obj (blockedJson p ++ [("U", bmatToJson pu), ("P", bmatToJson ppp)])
  else if op == "qr" || op == "lq" then
    let complete := (← getStr (← field o "mode")) == "complete"
    let cutoff := !(← field o "cutoff").isNull
    let qo : QrOpts := { complete := complete, cutoff := cutoff, posDiag := false,
                         qtotalQ := ← optCharge (← field o "qQ"), innerQconj := ← getInt (← field o "iq") }
    let F : Nat → Blk Code → Mat Code × Mat Code := fun i b =>
      let m := b.m.nrows
      let n := b.m.ncols
      if cutoff then let k := ks.getD i 0; (if k = 0 then [] else Mat.ofFn m k (code 1 i), Mat.ofFn k n (code 2 i))
      else if complete then (Mat.ofFn m m (code 1 i), Mat.ofFn m n (code 2 i))
      else let k := min m n; (Mat.ofFn m k (code 1 i), Mat.ofFn k n (code 2 i))
    let labs ← listOf (optOf getStr) (← field o "labels")
    let al ← listOf (optOf getStr) (← field (← field j "a") "labels")
    if op == "qr" then
      let p := asCompletelyBlocked a
      let r := qr a F id id qo
      return obj (blockedJson p ++ [("Q", bmatToJson r.q), ("R", bmatToJson r.r),
                   ("labelsQ", ofList optStr [al.getD 0 none, labs.getD 0 none]),
                   ("labelsR", ofList optStr [labs.getD 1 none, al.getD 1 none])])
    else
      let p := asCompletelyBlocked a.transpose
      let r := lq a F id id qo
      return obj (blockedJson p ++ [("Q", bmatToJson r.q), ("L", bmatToJson r.r),
                   ("labelsL", ofList optStr [al.getD 0 none, labs.getD 0 none]),
                   ("labelsQ", ofList optStr [labs.getD 1 none, al.getD 1 none])])
  else if op == "eigh" || op == "eig" then
    let sorted := !(← field o "sort").isNull
    let F : Nat → Blk Code → List Code × Mat Code := fun i b =>
      let m := b.m.nrows
      ((List.range m).map (code 1 i 0), Mat.ofFn m m (code 2 i))
    let perm : Nat → List Code → List Nat := fun i w => if sorted then perms.getD i [] else List.range w.length
    match eigWorker a F perm with
    | .error e => return errToJson e
    | .ok r =>
      let al ← listOf (optOf getStr) (← field (← field j "a") "labels")
      return obj (blockedJson (asCompletelyBlocked a) ++ [("W", ofIntList (r.w.map (·.v))), ("V", bmatToJson r.v),
                   ("labelsV", ofList optStr [al.getD 0 none, some "eig"])])
  else if op == "eigvalsh" || op == "eigvals" then
    let sorted := !(← field o "sort").isNull
    let F : Nat → Blk Code → List Code := fun i b => (List.range b.m.nrows).map (code 1 i 0)
    let perm : Nat → List Code → List Nat := fun i w => if sorted then perms.getD i [] else List.range w.length
    match eigvalsWorker a F perm with
    | .error e => return errToJson e
    | .ok w => return obj (blockedJson (asCompletelyBlocked a) ++ [("W", ofIntList (w.map (·.v)))])
  else if op == "expm" then
    let F : Nat → Blk Code → Mat Code := fun i b => Mat.ofFn b.m.nrows b.m.nrows (code 1 i)
    match expm a F with
    | .error e => return errToJson e
    | .ok r => return obj (blockedJson (asCompletelyBlocked a) ++ [("E", bmatToJson r)])
  else if op == "ortho" then
    let F : Nat → Blk Code → Mat Code := fun i b => Mat.ofFn b.m.nrows b.m.nrows (code 1 i)
    match orthoColumns a F with
    | .error e => return errToJson e
    | .ok r =>
      let p := asCompletelyBlocked a
      return obj ((if a.leg0.indLen = a.leg1.indLen then [] else blockedJson p) ++ [("O", bmatToJson r)])
  else if op == "speigs" then
    match squareCheck a .valueError with
    | .error e => return errToJson e
    | .ok () =>
      let p := asCompletelyBlocked a
      match speigsSelect p.mat (← intList (← field o "sector")) with
      | .error e => return errToJson e
      | .ok (.inl i) => return obj (blockedJson p ++ [("stored", Json.num (JsonNumber.fromNat i))])
      | .ok (.inr q) => return obj (blockedJson p ++ [("zero_sector", Json.num (JsonNumber.fromNat q))])
  else throw s!"unknown op {op}"

def main : IO Unit := serve handle
