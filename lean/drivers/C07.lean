import TenpyModel.Util.J
import TenpyModel.MPS.Eval
/-!
Line protocol of the MPS model (serves C07, C08, C09).  One JSON object per line in, one out.

Numbers travel as IEEE-754 bit patterns (JSON integers) in both directions, so nothing is lost in
decimal conversion.  `"num":"f"` evaluates the model at `Cx Float`; `"num":"q"` converts every input
exactly to a Gaussian rational, evaluates the same definitions at `Cx Rat` and answers with
`"p/q"` strings (exact comparison on the Python side).
-/
open Lean TenpyModel TenpyModel.J TenpyModel.MPS TenpyModel.MPS.MPSM TenpyModel.MPS.Eval

instance : Zero Float := ⟨0.0⟩
instance : One Float := ⟨1.0⟩

/-- scalar input/output for one evaluation mode -/
structure NumIO (α : Type) where
  ofBits : Nat → Nat → Except String α
  enc : α → Json × Json
  /-- `(S^(1/2), S^(-1/2))` from the bit pattern of a singular value -/
  root : Nat → Except String (α × α)
  cj : α → α
  sqrt : α → Except String α
  inv : α → Except String α

def ratOfBits (n : Nat) : Except String Rat := do
  let sign := n / 2 ^ 63
  let e : Nat := (n / 2 ^ 52) % 2048
  let m := n % 2 ^ 52
  if e = 2047 then throw "nan-or-inf"
  let mant : Nat := if e = 0 then m else m + 2 ^ 52
  let ex : Int := if e = 0 then -1074 else (e : Int) - 1075
  let v : Rat := if ex ≥ 0 then ((mant * 2 ^ ex.toNat : Nat) : Rat) else mkRat mant (2 ^ (-ex).toNat)
  return if sign = 1 then -v else v

def ratJson (r : Rat) : Json :=
  if r.den = 1 then Json.str s!"{r.num}" else Json.str s!"{r.num}/{r.den}"

def ratSqrt (r : Rat) : Except String Rat :=
  if r < 0 then throw "sqrt-negative" else
  let n := r.num.toNat
  let sn := Nat.sqrt n
  let sd := Nat.sqrt r.den
  if sn * sn = n ∧ sd * sd = r.den then pure (mkRat sn sd) else throw "sqrt-inexact"

def ioQ : NumIO (Cx Rat) where
  ofBits re im := do return ⟨← ratOfBits re, ← ratOfBits im⟩
  enc x := (ratJson x.re, ratJson x.im)
  root b := do
    let s ← ratOfBits b
    let r ← ratSqrt s
    if r = 0 then throw "zero-singular-value"
    return (⟨r, 0⟩, ⟨1 / r, 0⟩)
  cj := Cx.conj
  sqrt x := do return ⟨← ratSqrt x.re, 0⟩
  inv x := if x.im = 0 ∧ x.re ≠ 0 then pure ⟨1 / x.re, 0⟩ else throw "inv"

def fbits (x : Float) : Json := Json.num (JsonNumber.fromNat x.toBits.toNat)

def ioF : NumIO (Cx Float) where
  ofBits re im := pure ⟨Float.ofBits (UInt64.ofNat re), Float.ofBits (UInt64.ofNat im)⟩
  enc x := (fbits x.re, fbits x.im)
  root b :=
    let s := Float.ofBits (UInt64.ofNat b)
    let r := Float.sqrt s
    pure (⟨r, 0.0⟩, ⟨1.0 / r, 0.0⟩)
  cj := Cx.conj
  sqrt x := pure ⟨Float.sqrt x.re, 0.0⟩
  inv x := pure ⟨1.0 / x.re, 0.0⟩

section generic
variable {α : Type} [Zero α] [One α] [Add α] [Mul α] [Neg α] (io : NumIO α)

def getScalar (j : Json) : Except String α := do
  match ← getArr j with
  | [r, i] => io.ofBits (← getNat r) (← getNat i)
  | _ => throw "scalar"

def encScalar (x : α) : Json := let (r, i) := io.enc x; Json.arr #[r, i]

/-- flat tensor `{"re":[…],"im":[…]|null}` -/
def getFlat (j : Json) : Except String (Array α) := do
  let re ← natList (← field j "re")
  let imj := fieldD j "im" Json.null
  if imj.isNull then
    (re.mapM (fun r => io.ofBits r 0)).map List.toArray
  else
    let im ← natList imj
    if im.length ≠ re.length then throw "re/im length"
    ((re.zip im).mapM (fun (r, i) => io.ofBits r i)).map List.toArray

def encList (xs : List α) : Json :=
  let es := xs.map io.enc
  obj [("re", Json.arr (es.map (·.1)).toArray), ("im", Json.arr (es.map (·.2)).toArray)]

def getForm (j : Json) : Except String (Option Form) :=
  if j.isNull then pure none else do
    match ← getArr j with
    | [l, r] => return some (← getInt l, ← getInt r)
    | _ => throw "form"

/-- requested form of `get_B`: `null` (as stored) or `[l|null, r|null]` -/
def getReqForm (j : Json) : Except String (Option (Option Int × Option Int)) :=
  if j.isNull then pure none else do
    match ← getArr j with
    | [l, r] => return some (← optOf getInt l, ← optOf getInt r)
    | _ => throw "reqform"

def getBC (j : Json) : Except String BC := do
  match ← getStr j with
  | "finite" => pure BC.finite
  | "segment" => pure BC.segment
  | "infinite" => pure BC.infinite
  | s => throw s!"bc {s}"

def parseSite (j : Json) : Except String (Site α) := do
  let dL ← getNat (← field j "dL")
  let d ← getNat (← field j "d")
  let dR ← getNat (← field j "dR")
  let arr ← getFlat io j
  if arr.size ≠ dL * d * dR then throw s!"site size {arr.size} vs {dL}*{d}*{dR}"
  return { dL := dL, d := d, dR := dR, form := ← getForm (fieldD j "form" Json.null),
           B := fun a p c => if a < dL ∧ p < d ∧ c < dR then arr.getD ((a * d + p) * dR + c) 0 else 0 }

def parseBond (j : Json) : Except String (Bond α) := do
  let ss ← natList j
  let rs ← ss.mapM io.root
  let ra := (rs.map (·.1)).toArray
  let ri := (rs.map (·.2)).toArray
  return { chi := ss.length, R := fun a => ra.getD a 0, Rinv := fun a => ri.getD a 0 }

def emptySite : Site α := { dL := 0, d := 0, dR := 0, B := fun _ _ _ => 0, form := none }
def emptyBond : Bond α := { chi := 0, R := fun _ => 0, Rinv := fun _ => 0 }

def parseMPS (j : Json) : Except String (MPSM α) := do
  let sites ← listOf (parseSite io) (← field j "sites")
  let bonds ← listOf (parseBond io) (← field j "bonds")
  let sa := sites.toArray
  let ba := bonds.toArray
  return { L := sites.length, site := fun i => sa.getD i emptySite, bond := fun i => ba.getD i emptyBond,
           norm := ← getScalar io (← field j "norm"), bc := ← getBC (← field j "bc") }

def dumpT3 (dL d dR : Nat) (T : T3 α) : Json :=
  encList io ((List.range dL).flatMap (fun a => (List.range d).flatMap (fun p =>
    (List.range dR).map (fun c => T a p c))))

def dumpForm : Option Form → Json
  | none => Json.null
  | some (l, r) => Json.arr #[Json.num (JsonNumber.fromInt l), Json.num (JsonNumber.fromInt r)]

def dumpSite (s : Site α) : Json :=
  match dumpT3 io s.dL s.d s.dR s.B with
  | Json.obj kvs => Json.obj (kvs.insert "dL" s.dL |>.insert "d" s.d |>.insert "dR" s.dR
      |>.insert "form" (dumpForm s.form))
  | x => x

/-- singular values of a bond, recomputed as `(S^(1/2))²` -/
def dumpBond (b : Bond α) : Json := encList io ((List.range b.chi).map (fun a => Spow b 2 a))

def dumpMPS (M : MPSM α) : Json :=
  let nb := if M.bc == BC.infinite then M.L else M.L + 1
  obj [("L", M.L), ("sites", ofList (fun i => dumpSite io (M.site i)) (List.range M.L)),
       ("bonds", ofList (fun i => dumpBond io (M.bond i)) (List.range nb)),
       ("norm", encScalar io M.norm)]

def basisVec (k : Nat) : Vec α := fun a => delta a k

/-- `theta(i, n)` for all open indices, row-major `(aL, σ…, aR)` -/
def thetaAll (M : MPSM α) (i : Int) (n : Nat) (scale : α) : List α :=
  let sites := (M.thetaSites 2 i 2 n).map tabSite
  let chiL := (sites.head?.map (·.dL)).getD 1
  let chiR := (sites.getLast?.map (·.dR)).getD 1
  (List.range chiL).flatMap (fun aL =>
    allAmpsE (fun v => (List.range chiR).map (fun aR => scale * v aR)) (basisVec aL) sites)

def allAmpsOf (sites : List (RSite α)) (scale : α) : List α :=
  allAmpsE (fun v => [scale * v 0]) (basisVec 0) (sites.map tabSite)

def getMat (n : Nat) (j : Json) : Except String (Mat α) := do
  let arr ← getFlat io j
  if arr.size ≠ n * n then throw s!"matrix size {arr.size} vs {n}^2"
  return fun p q => if p < n ∧ q < n then arr.getD (p * n + q) 0 else 0

def frob2 (cj : α → α) (m n : Nat) (E : Mat α) : α :=
  sumN m (fun a => sumN n (fun b => E a b * cj (E a b)))

def sub (x y : α) : α := x + (-y)

/-- all configurations in row-major order -/
def allCfgs : List Nat → List (List Nat)
  | [] => [[]]
  | d :: ds => (List.range d).flatMap (fun p => (allCfgs ds).map (p :: ·))

def handleG (j : Json) : Except String Json := do
  let op ← getStr (← field j "op")
  let cj := io.cj
  match op with
  | "theta" =>
    let M ← parseMPS io (← field j "mps")
    let i ← getInt (← field j "i")
    let n ← getNat (← field j "n")
    let withNorm ← getBool (fieldD j "norm" false)
    return obj [("v", encList io (thetaAll M i n (if withNorm then M.norm else 1))),
                ("canonical", M.canonical)]
  | "plain" =>
    let M ← parseMPS io (← field j "mps")
    return obj [("v", encList io (allAmpsOf (M.plainSites 0 M.L) 1))]
  | "getB" =>
    let M ← parseMPS io (← field j "mps")
    let i ← getInt (← field j "i")
    let nf ← getReqForm (← field j "form")
    let s := M.getBsite i nf
    return obj [("t", dumpT3 io s.dL s.d s.dR s.M), ("valid", M.getBValid i nf)]
  | "convert" =>
    let M ← parseMPS io (← field j "mps")
    let seqs ← listOf (listOf (fun f => do
      match ← getForm f with
      | some x => pure x
      | none => throw "convert to None")) (← field j "forms")
    let Ms := seqs.foldl (fun (M : MPSM α) fs =>
      let fa := fs.toArray
      -- materialise after every conversion (otherwise closures nest)
      let M' := M.convertForm (fun i => fa.getD i (0, 0))
      let sa := ((List.range M.L).map (fun i =>
        let s := M'.site i
        let arr := tabT3 s.dL s.d s.dR s.B
        { s with B := ofArrT3 s.dL s.d s.dR arr })).toArray
      { M' with site := fun i => sa.getD i emptySite }) M
    return obj [("mps", dumpMPS io Ms)]
  | "normtest" =>
    let M ← parseMPS io (← field j "mps")
    let res := (List.range M.L).map (fun (i : Nat) =>
      let s := M.getBsite i fTh
      let SL := M.getSL i
      let SR := M.getSR i
      let eL := frob2 cj s.dL s.dL (fun a a' => sub (M.normTestL cj i a a') (delta a a' * Spow SL 4 a))
      let eR := frob2 cj s.dR s.dR (fun b b' => sub (M.normTestR cj i b b') (delta b b' * Spow SR 4 b))
      Json.arr #[encScalar io eL, encScalar io eR])
    return obj [("err2", Json.arr res.toArray)]
  | "fromProduct" =>
    let L ← getNat (← field j "L")
    let ds ← natList (← field j "d")
    let perms ← listOf natList (← field j "perm")
    let permute ← getBool (← field j "permute")
    let labelled ← listOf getBool (← field j "labelled")
    let psj ← getArr (← field j "p_state")
    let ps ← psj.mapM (fun (e : Json) => do
      match e.getNat? with
      | .ok k => pure (PState.idx (α := α) k)
      | .error _ =>
        let arr ← getFlat io e
        pure (PState.vec (fun p => arr.getD p 0)))
    let form ← getForm (← field j "form")
    let bc ← getBC (← field j "bc")
    let da := ds.toArray
    let pa := (perms.map List.toArray).toArray
    let la := labelled.toArray
    let psa := ps.toArray
    let M := fromProductState L (fun i => da.getD i 0) (fun i p => (pa.getD i #[]).getD p 0) permute
      (fun i => la.getD i false) (fun i => psa.getD i (PState.idx 0)) form bc
    return obj [("mps", dumpMPS io M), ("state", encList io (thetaAll M 0 L M.norm))]
  | "fromBflat" =>
    let sj ← getArr (← field j "sites")
    let bs ← sj.mapM (fun (e : Json) => do
      let dL ← getNat (← field e "dL")
      let d ← getNat (← field e "d")
      let dR ← getNat (← field e "dR")
      let perm ← natList (← field e "perm")
      let arr ← getFlat io e
      if arr.size ≠ dL * d * dR then throw "bflat size"
      let pa := perm.toArray
      pure ({ dL := dL, d := d, dR := dR, perm := fun p => pa.getD p 0,
              T := fun p a c => if p < d ∧ a < dL ∧ c < dR then arr.getD ((p * dL + a) * dR + c) 0 else 0 }
            : BflatSite α))
    let bonds ← listOf (parseBond io) (← field j "bonds")
    let form ← getForm (← field j "form")
    let bc ← getBC (← field j "bc")
    let ba := bs.toArray
    let bo := bonds.toArray
    let M := fromBflat bs.length (fun i => ba.getD i ⟨0, 0, 0, id, fun _ _ _ => 0⟩)
      (fun i => bo.getD i emptyBond) form bc
    return obj [("mps", dumpMPS io M), ("plain", encList io (allAmpsOf (M.plainSites 0 M.L) 1))]
  | "overlap" =>
    let bra ← parseMPS io (← field j "bra")
    let ket ← parseMPS io (← field j "ket")
    let tm := overlapTME cj (basisVec 0) (basisVec 0) (bra.envSites 0) (ket.envSites 0) 1 1
      (basisVec 0) (basisVec 0) * cj bra.norm * ket.norm
    return obj [("v", encScalar io tm)]
  | "expval1" =>
    let M ← parseMPS io (← field j "mps")
    let items ← getArr (← field j "items")
    let res ← items.mapM (fun (e : Json) => do
      let i ← getInt (← field e "i")
      let d := (M.siteAt i).d
      let O ← getMat io d (← field e "op")
      pure (encScalar io (M.expval1 cj i O)))
    return obj [("v", Json.arr res.toArray)]
  | "sandwich" =>
    let bra ← parseMPS io (← field j "bra")
    let ket ← parseMPS io (← field j "ket")
    let items ← getArr (← field j "items")
    let sb := (bra.envSites 0).map tabSite
    let sk := (ket.envSites 0).map tabSite
    let res ← items.mapM (fun (e : Json) => do
      let opsj ← getArr e
      let ops ← (opsj.zip (List.range opsj.length)).mapM (fun ((o : Json), (k : Nat)) =>
        if o.isNull then pure (none : Option (Mat α)) else do
          let d := (ket.site k).d
          pure (some (← getMat io d o)))
      let v := overlapTME cj (basisVec 0) (basisVec 0) sb (applyOps ops sk) 1 1 (basisVec 0) (basisVec 0)
        * cj bra.norm * ket.norm
      pure (encScalar io v))
    return obj [("v", Json.arr res.toArray)]
  | "sample" =>
    let M ← parseMPS io (← field j "mps")
    let σ ← natList (← field j "sigma")
    -- chain [get_theta(0,1), get_B(1), …] and the norms the code divides by
    let chain := ((M.getBsite 0 fTh) :: M.formSites fB 1 (M.L - 1)).map tabSite
    let rec norms (v : Vec α) : List (RSite α) → List Nat → Except String (List (α × α))
      | s :: ss, p :: ps => do
        let ua := tabVec s.dR (vstep v s p)
        let u := ofArr ua
        let n2 := sumN s.dR (fun b => u b * cj (u b))
        let w ← io.sqrt n2
        let wi ← io.inv w
        let ua2 := tabVec s.dR (fun b => wi * u b)
        let rest ← norms (ofArr ua2) ss ps
        pure ((w, wi) :: rest)
      | _, _ => pure []
    let ws ← norms (basisVec 0) chain σ
    let wa := ws.toArray
    let tot := sampleGoE (fun i => (wa.getD i (1, 1)).1) (fun i => (wa.getD i (1, 1)).2) 0 (basisVec 0) 1 chain σ
    let amp := contractE (basisVec 0) chain σ 0
    return obj [("weight", encScalar io tot), ("amp", encScalar io amp)]
  | "inversion" =>
    let M ← parseMPS io (← field j "mps")
    let shipped ← getBool (fieldD j "as_shipped" false)
    return obj [("mps", dumpMPS io (if shipped then M.spatialInversionAsShipped else M.spatialInversion))]
  | "roll" =>
    let M ← parseMPS io (← field j "mps")
    let s ← getInt (← field j "shift")
    let shipped ← getBool (fieldD j "as_shipped" false)
    return obj [("mps", dumpMPS io (if shipped then M.rollAsShipped s else M.roll s))]
  | "enlarge" =>
    let M ← parseMPS io (← field j "mps")
    let f ← getNat (← field j "factor")
    return obj [("mps", dumpMPS io (M.enlarge f))]
  | "applyLocal" =>
    let M ← parseMPS io (← field j "mps")
    let i ← getInt (← field j "i")
    let O ← getMat io (M.siteAt i).d (← field j "opm")
    let M1 ← (do
      let sj := fieldD j "signs" Json.null
      if sj.isNull then pure M else do
        let sg ← getFlat io sj
        pure (M.applyJWLeft i (fun a => sg.getD a 0)))
    return obj [("mps", dumpMPS io (M1.applyLocalOp i O))]
  | "applyProduct" =>
    let M ← parseMPS io (← field j "mps")
    let opsj ← getArr (← field j "ops")
    let ops ← (opsj.zip (List.range opsj.length)).mapM (fun ((o : Json), (k : Nat)) =>
      if o.isNull then pure (none : Option (Mat α)) else do
        pure (some (← getMat io (M.site k).d o)))
    let oa := ops.toArray
    return obj [("mps", dumpMPS io (M.applyProductOp (fun k => oa.getD k none)))]
  | "group" =>
    let M ← parseMPS io (← field j "mps")
    let ns ← natList (← field j "ns")
    let groups := M.groupedSites 0 ns
    -- tensor of each group: contract its sites, physical legs combined in C order
    let res := groups.map (fun g =>
      let g := g.map tabSite
      let dL := (g.head?.map (·.dL)).getD 1
      let dR := (g.getLast?.map (·.dR)).getD 1
      let D : Nat := (g.map (·.d)).foldl (fun (x y : Nat) => x * y) 1
      let vals := (List.range dL).flatMap (fun a =>
        allAmpsE (fun v => (List.range dR).map (fun c => v c)) (basisVec a) g)
      match encList io vals with
      | Json.obj kvs => Json.obj (kvs.insert "dL" dL |>.insert "d" D |>.insert "dR" dR)
      | x => x)
    return obj [("groups", Json.arr res.toArray)]
  | "add" =>
    let A ← parseMPS io (← field j "a")
    let B ← parseMPS io (← field j "b")
    let x ← getScalar io (← field j "alpha")
    let y ← getScalar io (← field j "beta")
    -- first site 'Th', the others 'B', prefactors times the norms (as coded)
    let ca := (A.getBsite 0 fTh) :: A.formSites fB 1 (A.L - 1)
    let cb := (B.getBsite 0 fTh) :: B.formSites fB 1 (B.L - 1)
    let ch := addChain (x * A.norm) (y * B.norm) ca cb
    return obj [("state", encList io (allAmpsOf ch 1)),
                ("chi", ofNatList (ch.map (·.dR)))]
  | "selfcheck" =>
    let M ← parseMPS io (← field j "mps")
    let sites := M.thetaSites 2 0 2 M.L
    let cfgs := (allCfgs (dims sites)).take 6
    let direct := cfgs.map (fun σ => contract (basisVec 0) sites σ 0)
    let fast := cfgs.map (fun σ => contractE (basisVec 0) (sites.map tabSite) σ 0)
    let all := (allAmpsOf sites 1).take 6
    let tmD := overlapTM cj (basisVec 0) (basisVec 0) (M.envSites 0) (M.envSites 0) 1 1 (basisVec 0) (basisVec 0)
    let tmE := overlapTME cj (basisVec 0) (basisVec 0) (M.envSites 0) (M.envSites 0) 1 1 (basisVec 0) (basisVec 0)
    return obj [("direct", encList io direct), ("fast", encList io fast), ("all", encList io all),
                ("tmD", encScalar io tmD), ("tmE", encScalar io tmE)]
  | _ => throw s!"unknown op {op}"

end generic

def permItem (j : Json) : Except String PItem := do
  match ← getArr j with
  | [k, p] => return ⟨← getNat k, ← getBool p⟩
  | _ => throw "pitem"

def handle (j : Json) : Except String Json := do
  let op ← getStr (← field j "op")
  if op == "permsign" then
    let l ← listOf permItem (← field j "items")
    let r := permuteRun (l.length * l.length + 1) 0 l 1
    return obj [("sign", Json.num (JsonNumber.fromInt r.1)), ("inv", Json.num (JsonNumber.fromInt (invSign l))),
                ("order", ofNatList (r.2.map (·.key)))]
  else if op == "forms" then
    return obj [("A", dumpForm (formOf "A")), ("B", dumpForm (formOf "B")), ("C", dumpForm (formOf "C")),
                ("G", dumpForm (formOf "G")), ("Th", dumpForm (formOf "Th"))]
  else
    let num ← getStr (fieldD j "num" "f")
    if num == "q" then handleG ioQ j else handleG ioF j

def main : IO Unit := serve handle
