import TenpyModel.Util.J
import TenpyModel.C19.Variants
import TenpyModel.C19.Ext
import TenpyModel.C19.ExtBC
open Lean TenpyModel TenpyModel.J
open TenpyModel.C19

/-! Line protocol for C19: one lattice description + a list of queries per line. -/

def rowsJ (rows : List (List Int)) : Json := ofList ofIntList rows
def optIntJ : Option Int → Json
  | some i => Json.num (JsonNumber.fromInt i)
  | none => Json.null

def boolList := listOf getBool
def intRows := listOf intList
def natRows := listOf natList

def parseCls (s : String) : Except String Cls :=
  match s with
  | "lattice" => pure .lattice | "simple" => pure .simple | "chain" => pure .chain
  | "ladder" => pure .ladder | "nleg" => pure .nleg | "square" => pure .square
  | "triangular" => pure .triangular | "honeycomb" => pure .honeycomb | "kagome" => pure .kagome
  | _ => throw s!"unknown class {s}"

def parsePrio (j : Json) : Except String (Option (List Int)) := optOf intList j

/-- `{"name": s}` | `{"standard": [snake, prio]}` | `{"grouped": [groups, prio]}` | `{"rows": [...]}` -/
def parseOrder (j : Json) : Except String (Sum OrderSpec (List (List Int))) := do
  if let .ok n := field j "name" then return .inl (.name (← getStr n))
  if let .ok s := field j "standard" then
    match ← getArr s with
    | [sn, p] => return .inl (.standard (← boolList sn) (← parsePrio p))
    | _ => throw "bad standard"
  if let .ok s := field j "grouped" then
    match ← getArr s with
    | [g, p] => return .inl (.grouped (← natRows g) (← parsePrio p))
    | _ => throw "bad grouped"
  if let .ok r := field j "rows" then return .inr (← intRows r)
  throw "bad order"

def parseRat (j : Json) : Except String Rat := do
  match ← getArr j with
  | [n, d] => return mkRat (← getInt n) (← getNat d)
  | _ => throw "bad rat"

inductive Obj where
  | lat (l : Lat)
  | hel (h : Helical)

def unwrap (o : Option α) (msg : String) : Except String α :=
  match o with
  | some a => pure a
  | none => throw msg

def build (j : Json) : Except String Obj := do
  let cls ← parseCls (← getStr (← field j "cls"))
  let Ls ← natList (← field j "Ls")
  let Lu ← getNat (← field j "Lu")
  let bc ← boolList (← field j "bc")
  let bcShift ← optOf intList (fieldD j "bc_shift" Json.null)
  let finite ← getBool (← field j "finite")
  let spec ← parseOrder (← field j "order")
  let variant := fieldD j "variant" Json.null
  let shape := Ls ++ [Lu]
  -- MultiSpeciesLattice: the order spec goes through `simple_lattice.ordering`
  if let .ok m := field variant "multi" then
    let nsp ← getNat m
    let simpleOrder ← match spec with
      | .inl s => unwrap (clsOrdering cls shape s) "unknown ordering"
      | .inr _ => throw "rows not supported for multi"
    return .lat (mkMultiSpecies Ls Lu nsp bc bcShift finite simpleOrder)
  let order ← match spec with
    | .inl s => do pure (castRows (← unwrap (initOrdering cls shape s) "unknown ordering"))
    | .inr rows => pure rows
  let reg := Lat.mk' Ls Lu bc bcShift finite order
  if variant.isNull then return .lat reg
  if let .ok f := field variant "enlarge" then
    return .lat (enlargeMpsUnitCell reg (← getNat f))
  if let .ok ir := field variant "irregular" then
    let remove ← optOf intRows (fieldD ir "remove" Json.null)
    let addJ := fieldD ir "add" Json.null
    let add ← optOf (fun a => do
      match ← getArr a with
      | [rows, mps] => pure (← intRows rows, ← listOf (optOf parseRat) mps)
      | _ => throw "bad add") addJ
    let nAdd ← getNat (fieldD ir "n_add_uc" (0 : Nat))
    return .lat (mkIrregularLattice reg remove add nAdd)
  if let .ok h := field variant "helical" then
    return .hel (mkHelical reg (← getNat h))
  if let .ok h := field variant "helical_enlarge" then
    match ← getArr h with
    | [n, f] => return .hel ((mkHelical reg (← getNat n)).enlarge (← getNat f))
    | _ => throw "bad helical_enlarge"
  throw "unknown variant"

def couplingsJ (c : Couplings) : Json :=
  Json.arr #[ofIntList (c.rows.map (·.1)), ofIntList (c.rows.map (·.2.1)),
             rowsJ (c.rows.map (·.2.2)), ofIntList c.shape]

def multiJ (c : MultiCouplings) : Json :=
  if c.error then Json.str "error"
  else Json.arr #[rowsJ (c.rows.map (·.1)), rowsJ (c.rows.map (·.2)), ofIntList c.shape]

def parseOps (j : Json) : Except String (List (List Int × Nat)) :=
  listOf (fun o => do
    match ← getArr o with
    | [dx, u] => pure (← intList dx, ← getNat u)
    | _ => throw "bad op") j

/-- all `dx` with `|dx_a| ≤ m_a`, first coordinate slowest, each coordinate ascending -/
def dxBox : List Nat → List (List Int)
  | [] => [[]]
  | m :: ms => ((List.range (2 * m + 1)).map (fun (k : Nat) => Int.ofNat k - Int.ofNat m)).flatMap
      (fun d => (dxBox ms).map (d :: ·))

def query (o : Obj) (q : Json) : Except String Json := do
  let a ← getArr q
  let reg := match o with
    | .lat l => l
    | .hel h => h.reg
  match a with
  | [t] =>
    let s ← getStr t
    if s == "order" then
      return rowsJ (match o with | .lat l => l.order | .hel h => h.order)
    else if s == "perm" then
      return ofIntList (match o with | .lat l => l.perm | .hel h => h.perm)
    else if s == "sizes" then
      return (match o with
        | .lat l => Json.arr #[l.nSites, l.nCells, ofNatList l.Ls, l.Lu]
        | .hel h => Json.arr #[h.nSites, h.nCells, ofNatList h.reg.Ls, h.reg.Lu])
    else if s == "vals_idx" then
      return Json.arr #[ofList optIntJ reg.valsIdx, ofList (ofList optIntJ) reg.valsIdxFixU]
    else if s == "helical_ok" then return Json.bool (helicalOrderOk reg)
    else throw s!"unknown query {s}"
  | [t, x] =>
    let s ← getStr t
    if s == "fix_u" then
      let u ← optOf getNat x
      match o with
      | .lat l => return ofIntList (mpsIdxFixU l u)
      | .hel h => return ofIntList (match u with | some u => h.mpsFixU.getD u [] | none => h.perm)
    else if s == "mps2lat" then
      return rowsJ ((← intList x).map (mps2latIdx reg))
    else if s == "lat2mps" then
      return ofIntList ((← intRows x).map (lat2mpsIdx reg))
    else if s == "cshape" then
      let c := couplingShape reg (← intList x)
      return Json.arr #[ofIntList c.1, ofIntList c.2]
    else if s == "mshape" then
      let c := multiCouplingShape reg (← intRows x)
      return Json.arr #[ofIntList c.1, ofIntList c.2]
    else if s == "multi" then
      let ops ← parseOps x
      match o with
      | .lat l => return multiJ (possibleMultiCouplings l ops)
      | .hel h => return multiJ (h.possibleMultiCouplings ops)
    else if s == "coupall" then
      -- every (u1, u2, dx) with |dx_a| ≤ m_a: only the (i, j) pairs, to keep lines short
      let ms ← natList x
      let us := List.range reg.Lu
      let res := us.flatMap (fun u1 => us.flatMap (fun u2 => (dxBox ms).map (fun dx =>
        let c := match o with
          | .lat l => possibleCouplings l u1 u2 dx
          | .hel h => h.possibleCouplings u1 u2 dx
        Json.arr #[ofIntList (c.rows.map (·.1)), ofIntList (c.rows.map (·.2.1))])))
      return Json.arr res.toArray
    else throw s!"unknown query {s}"
  | [t, x, y] =>
    let s ← getStr t
    if s == "values" then
      let A ← intList x
      let u ← optOf getNat y
      return ofList optIntJ (mps2latValues reg A u)
    else throw s!"unknown query {s}"
  | [t, x, y, z] =>
    let s ← getStr t
    if s == "coup" then
      let u1 ← getNat x
      let u2 ← getNat y
      let dx ← intList z
      match o with
      | .lat l => return couplingsJ (possibleCouplings l u1 u2 dx)
      | .hel h => return couplingsJ (h.possibleCouplings u1 u2 dx)
    else if s == "masked" then
      let A ← intList x
      let inds ← intList y
      let incl ← getBool z
      let out (r : Option (List Nat × List (Option Int))) : Json := match r with
        | some r => Json.arr #[ofNatList r.1, ofList optIntJ r.2]
        | none => Json.str "error"
      -- [as coded, with pending_fixes/C19-masked-shape.diff applied]
      return Json.arr #[out (mps2latValuesMasked reg A inds incl), out (mps2latValuesMasked reg A inds incl true)]
    else throw s!"unknown query {s}"
  | [t, x, y, z, w] =>
    let s ← getStr t
    if s == "coupS" then
      let u1 ← getNat x
      let u2 ← getNat y
      let dx ← intList z
      let st ← intList w
      let r := possibleCouplingsStrength reg u1 u2 dx st
      return Json.arr #[ofIntList (r.map (·.1)), ofIntList (r.map (·.2.1)), ofIntList (r.map (·.2.2))]
    else throw s!"unknown query {s}"
  | _ => throw "bad query"

/-! Extension round: ops on `TenpyModel.C19.Ext` (lines with a field `"ext"`). -/

def parseCoup (j : Json) : Except String Ext.Coup := do
  match ← getArr j with
  | [a, b, dx] => pure (← getNat a, ← getNat b, ← intList dx)
  | _ => throw "bad coupling"

def coupJ (c : Ext.Coup) : Json :=
  Json.arr #[Json.num (JsonNumber.fromNat c.1), Json.num (JsonNumber.fromNat c.2.1), ofIntList c.2.2]

def parseDict (j : Json) : Except String Ext.PairsDict :=
  listOf (fun e => do
    match ← getArr e with
    | [k, v] => pure (← getStr k, ← listOf parseCoup v)
    | _ => throw "bad dict entry") j

def parseBCEntry (j : Json) : Except String Ext.BCEntry :=
  match j with
  | Json.str s => pure (.str s)
  | _ => do pure (.shift (← getInt j))

def bcEntryJ : Ext.BCEntry → Json
  | .str s => Json.str s
  | .shift n => Json.num (JsonNumber.fromInt n)

def bcStateJ : Option Ext.BCState → Json
  | none => Json.str "error"
  | some st => Json.arr #[Json.arr (st.bc.map Json.bool).toArray,
      match st.bcShift with | none => Json.null | some sh => ofIntList sh]

def handleBC (j : Json) : Except String Json := do
  let dim ← getNat (← field j "dim")
  let finite ← getBool (← field j "finite")
  let a ← field j "arg"
  let arg : Ext.BCArg ← match a with
    | Json.str s => pure (Ext.BCArg.single s)
    | _ => do pure (Ext.BCArg.list (← listOf parseBCEntry a))
  let st := Ext.bcSetter dim arg
  let get : Json := match st with
    | none => Json.null
    | some st => match Ext.bcGetter st with
      | none => Json.str "error"
      | some l => ofList bcEntryJ l
  return obj [("r", obj [("set", bcStateJ st), ("get", get), ("init", bcStateJ (Ext.initBC dim arg finite))])]

def handleExt (op : String) (j : Json) : Except String Json := do
  if op == "bc" then handleBC j
  else if op == "msp" then
    let names ← listOf getStr (← field j "names")
    let pairs ← parseDict (← field j "pairs")
    let simpleLu ← getNat (← field j "simpleLu")
    let dim ← getNat (← field j "dim")
    let us ← natList (← field j "us")
    let pos ← intRows (← field j "pos")
    let cn ← listOf (fun e => do
      match ← getArr e with
      | [k, u] => pure (← getStr k, ← getNat u)
      | _ => throw "bad cn") (← field j "cn")
    let nsp := names.length
    let d := Ext.genNewPairs names pairs simpleLu dim
    let dJ : Json := match d with
      | none => Json.str "error"
      | some d => ofList (fun (e : String × List Ext.Coup) => Json.arr #[Json.str e.1, ofList coupJ e.2]) d
    let umap := us.map (fun u => [Ext.selfUToSimpleU nsp u, Ext.selfUToSpeciesIdx nsp u,
      Ext.simpleUToSpeciesU nsp (Ext.selfUToSimpleU nsp u) (Ext.selfUToSpeciesIdx nsp u)])
    let cnJ := cn.map (fun (e : String × Nat) => match d with
      | none => Json.null
      | some d => match d.lookup e.1 with
        | none => Json.null
        | some ps => Json.num (JsonNumber.fromNat (Ext.countNeighbors ps e.2)))
    return obj [("r", obj [("pairs", dJ), ("umap", ofList ofNatList umap),
      ("pos", rowsJ (Ext.repeatRows pos nsp)),
      ("tile", ofNatList (Ext.tileList (List.range nsp) simpleLu)),
      ("cn", Json.arr cnJ.toArray)])]
  else if op == "fcp" then
    let basis ← intRows (← field j "basis")
    let pos ← intRows (← field j "pos")
    let m ← getNat (← field j "m")
    let cut2 ← optOf getInt (fieldD j "cut2" Json.null)
    match Ext.findCouplingPairs basis pos m cut2 with
    | none => return obj [("r", Json.str "error")]
    | some res => return obj [("r", ofList (fun (e : Int × List Ext.Coup) =>
        Json.arr #[Json.num (JsonNumber.fromInt e.1), ofList coupJ e.2]) res)]
  else throw s!"unknown ext op {op}"

def handle (j : Json) : Except String Json := do
  if let .ok e := field j "ext" then return ← handleExt (← getStr e) j
  let o ← build j
  let qs ← getArr (← field j "q")
  let rs ← qs.mapM (query o)
  return obj [("r", Json.arr rs.toArray)]

def main : IO Unit := serve handle
