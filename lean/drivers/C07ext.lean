import TenpyModel.Util.J
import TenpyModel.MPS.Eval
import TenpyModel.C07.ExtCover
import TenpyModel.C07.ExtCharge
import TenpyModel.C07.ExtGlue
/-!
Line protocol for the C07 extension round (`harness/c07_ext.py`): the models of
`from_product_mps_covering`, `get_total_charge` / `gauge_total_charge`, `_parse_form` / `convert_form` /
`get_theta` guards / entropy bond selection.  Floats travel as IEEE-754 bit patterns (as in
`drivers/C07.lean`); charges are exact integers.
-/
open Lean TenpyModel TenpyModel.J TenpyModel.MPS TenpyModel.MPS.MPSM TenpyModel.MPS.Eval TenpyModel.C07Ext

instance : Zero Float := ⟨0.0⟩
instance : One Float := ⟨1.0⟩

abbrev C := Cx Float

def ofBits (re im : Nat) : C := ⟨Float.ofBits (UInt64.ofNat re), Float.ofBits (UInt64.ofNat im)⟩
def fbits (x : Float) : Json := Json.num (JsonNumber.fromNat x.toBits.toNat)

def getFlat (j : Json) : Except String (Array C) := do
  let re ← natList (← field j "re")
  let imj := fieldD j "im" Json.null
  if imj.isNull then return (re.map (fun r => ofBits r 0)).toArray
  let im ← natList imj
  if im.length ≠ re.length then throw "re/im length"
  return ((re.zip im).map (fun (r, i) => ofBits r i)).toArray

def encList (xs : List C) : Json :=
  obj [("re", Json.arr (xs.map (fun x => fbits x.re)).toArray), ("im", Json.arr (xs.map (fun x => fbits x.im)).toArray)]

def parseRSite (j : Json) : Except String (RSite C) := do
  let dL ← getNat (← field j "dL")
  let d ← getNat (← field j "d")
  let dR ← getNat (← field j "dR")
  let arr ← getFlat j
  if arr.size ≠ dL * d * dR then throw s!"site size {arr.size} vs {dL}*{d}*{dR}"
  return { dL := dL, d := d, dR := dR,
           M := fun a p c => if a < dL ∧ p < d ∧ c < dR then arr.getD ((a * d + p) * dR + c) 0 else 0 }

def dumpRSite (s : RSite C) : Json :=
  let vals := (List.range s.dL).flatMap (fun a => (List.range s.d).flatMap (fun p =>
    (List.range s.dR).map (fun c => s.M a p c)))
  match encList vals with
  | Json.obj kvs => Json.obj (kvs.insert "dL" s.dL |>.insert "d" s.d |>.insert "dR" s.dR)
  | x => x

def basisVec (k : Nat) : Vec C := fun a => delta a k

/-! ### part A: covering -/

def parseSR (j : Json) : Except String (Nat × Vec C) := do
  let bs ← natList j
  let arr := (bs.map (fun b => ofBits b 0)).toArray
  return (bs.length, fun a => arr.getD a 0)

def handleCover (j : Json) : Except String Json := do
  let L ← getNat (← field j "L")
  let dphys ← natList (← field j "d")
  let fin ← getBool (← field j "finite")
  let da := dphys.toArray
  let locals ← listOf (fun (e : Json) => do
    let im ← natList (← field e "im")
    let sites ← listOf parseRSite (← field e "sites")
    let srs ← listOf parseSR (← field e "sr")
    pure (im, sites, srs)) (← field j "locals")
  let valid := coverValid (locals.map (·.1)) (locals.map (fun l => l.2.1.length))
  let Ltot := (locals.map (fun l => l.1.length)).foldl (· + ·) 0
  if !valid || Ltot ≠ L then
    return obj [("valid", false)]
  let one : Nat × Vec C := (1, fun _ => 1)
  -- tabulate after every combination (closures would nest otherwise)
  let parts := locals.map (fun l => (padChain (fun i => da.getD i 0) L 0 1 l.1 l.2.1).map tabSite)
  let chain := match parts with
    | [] => []
    | c :: cs => cs.foldl (fun acc c' => (kronChain acc c').map tabSite) c
  let srParts := locals.map (fun l => padSR L 0 one l.1 l.2.2)
  let srs := coverSR srParts
  let bonds := (List.range (L + 1)).map (fun i =>
    let b := coverBond fin L srs i
    encList ((List.range b.1).map b.2))
  let state := allAmpsE (fun v => [v 0]) (basisVec 0) chain
  -- the literal definition (`coverChain`, no tabulation) on the first few amplitudes
  let lit := coverChain (locals.map (fun l => padChain (fun i => da.getD i 0) L 0 1 l.1 l.2.1))
  let nlit := 4
  let cfgs := (List.range nlit).map (fun k =>
    (List.range L).map (fun i => (k / (i + 1)) % (max 1 (da.getD i 1))))
  let litAmps := cfgs.map (fun σ => contract (basisVec 0) lit σ 0)
  let fastAmps := cfgs.map (fun σ => contractE (basisVec 0) chain σ 0)
  return obj [("valid", true), ("sites", ofList dumpRSite chain), ("bonds", Json.arr bonds.toArray),
              ("state", encList state), ("lit", encList litAmps), ("fast", encList fastAmps)]

/-! ### part B: charges -/

/-- integer charge vectors; missing components are zero -/
structure QV where
  v : List Int
deriving Repr

def QV.add : List Int → List Int → List Int
  | [], ys => ys
  | xs, [] => xs
  | x :: xs, y :: ys => (x + y) :: QV.add xs ys

instance : Add QV := ⟨fun a b => ⟨QV.add a.v b.v⟩⟩
instance : Neg QV := ⟨fun a => ⟨a.v.map (fun x => -x)⟩⟩
instance : Zero QV := ⟨⟨[]⟩⟩

def QV.pad (n : Nat) (q : QV) : List Int := (List.range n).map (fun i => q.v.getD i 0)

def mkChInfo (mods : List Nat) : ChInfo QV :=
  { mv := fun q => ⟨(List.range mods.length).map (fun i =>
        let x := q.v.getD i 0
        let m := mods.getD i 1
        if m ≤ 1 then x else x % (m : Int))⟩
    isZero := fun q => q.v.all (· == 0)
    trivial := mods.isEmpty }

def qvEq (n : Nat) (a b : QV) : Bool := a.pad n == b.pad n

def getQV (j : Json) : Except String QV := do return ⟨← intList j⟩

def parseLeg (j : Json) : Except String (VLeg QV) := do
  let qs ← listOf getQV (← field j "q")
  let pos ← getBool (← field j "pos")
  let qa := qs.toArray
  return { dim := qs.length, q := fun a => qa.getD a ⟨[]⟩, pos := pos }

def parseQSite (j : Json) : Except String (QSite QV Nat) := do
  let vL ← parseLeg (← field j "vL")
  let vR ← parseLeg (← field j "vR")
  let qp ← listOf getQV (← field j "qp")
  let qtot ← getQV (← field j "qtot")
  let nz ← natList (← field j "nz")
  let d := qp.length
  if nz.length ≠ vL.dim * d * vR.dim then throw "nz size"
  let na := nz.toArray
  let qa := qp.toArray
  return { d := d, M := fun a p b => if a < vL.dim ∧ p < d ∧ b < vR.dim then na.getD ((a * d + p) * vR.dim + b) 0 else 0,
           vL := vL, qp := fun p => qa.getD p ⟨[]⟩, vR := vR, qtot := qtot }

def dumpQV (n : Nat) (q : QV) : Json := ofIntList (q.pad n)
def dumpLeg (n : Nat) (l : VLeg QV) : Json :=
  obj [("q", ofList (fun a => dumpQV n (l.q a)) (List.range l.dim)), ("pos", l.pos)]
def dumpQSite (n : Nat) (s : QSite QV Nat) : Json :=
  obj [("vL", dumpLeg n s.vL), ("vR", dumpLeg n s.vR), ("qtot", dumpQV n s.qtot)]

/-- the charge rule with `make_valid` compared on padded vectors -/
def ruleOK (ci : ChInfo QV) (n : Nat) (s : QSite QV Nat) : Bool :=
  (List.range s.vL.dim).all (fun a => (List.range s.d).all (fun p => (List.range s.vR.dim).all (fun b =>
    s.M a p b == 0 || qvEq n (ci.mv (s.vL.charge a + s.qp p + s.vR.charge b)) (ci.mv s.qtot))))

def contractibleOK (ci : ChInfo QV) (n : Nat) (s t : QSite QV Nat) : Bool :=
  s.vR.dim == t.vL.dim && (List.range s.vR.dim).all (fun b =>
    qvEq n (ci.mv (s.vR.charge b + t.vL.charge b)) (ci.mv 0))

def optQV (n : Nat) : Option QV → Json
  | some q => dumpQV n q
  | none => Json.null

def handleCharge (j : Json) : Except String Json := do
  let mods ← natList (← field j "mod")
  let n := mods.length
  let ci := mkChInfo mods
  let bc ← getStr (← field j "bc")
  let sites ← listOf parseQSite (← field j "sites")
  let segj := fieldD j "seg" Json.null
  let seg ← (if segj.isNull then pure none else do
    match ← getArr segj with
    | [u, v] => pure (some (← getQV u, ← getQV v))
    | _ => throw "seg")
  let fin := bc == "finite"
  let tot := getTotalCharge ci fin sites seg false
  let totP := getTotalCharge ci fin sites seg true
  let rules := sites.map (ruleOK ci n)
  let rec bondsOK : List (QSite QV Nat) → List Bool
    | s :: t :: rest => contractibleOK ci n s t :: bondsOK (t :: rest)
    | _ => []
  let base := [("total", optQV n tot), ("total_phys", optQV n totP),
               ("rule", Json.arr (rules.map Json.bool).toArray),
               ("contractible", Json.arr ((bondsOK sites).map Json.bool).toArray)]
  let gj := fieldD j "gauge" Json.null
  if gj.isNull then return obj base
  -- gauge_total_charge
  let qj := fieldD gj "qtotal" Json.null
  let qarg ← (if qj.isNull then pure (QArg.none : QArg QV) else do
    let arr ← getArr qj
    match arr.head? with
    | some (Json.arr _) => pure (QArg.perSite (← arr.mapM getQV))
    | _ => pure (QArg.one (← getQV qj)))
  let vl ← optOf parseLeg (fieldD gj "vL_leg" Json.null)
  let vr ← optOf parseLeg (fieldD gj "vR_leg" Json.null)
  let r := gaugeTotalCharge ci (qvEq n) (bc == "infinite") (!segj.isNull) sites qarg vl vr
  let gout := match r with
    | .ok out =>
      let after := getTotalCharge ci fin out seg false
      let afterP := getTotalCharge ci fin out seg true
      obj [("ok", ofList (dumpQSite n) out), ("total", optQV n after), ("total_phys", optQV n afterP),
           ("rule", Json.arr ((out.map (ruleOK ci n)).map Json.bool).toArray),
           ("contractible", Json.arr ((bondsOK out).map Json.bool).toArray)]
    | .error e => obj [("error", Json.str (match e with
        | .notImplemented => "NotImplementedError" | .wrongShape => "ValueError:shape"
        | .legMismatch => "ValueError:leg" | .assertion => "AssertionError"))]
  return obj (base ++ [("gauge", gout)])

/-! ### part C: glue -/

def getFormJ (j : Json) : Except String Form := do
  match ← getArr j with
  | [l, r] => return (← getInt l, ← getInt r)
  | _ => throw "form"

def getEntry (j : Json) : Except String FormEntry :=
  if j.isNull then pure .pyNone else
  match j.getStr? with
  | .ok s => pure (.name s)
  | .error _ => do return .tup (← getFormJ j)

def getFormArg (j : Json) : Except String FormArg := do
  let t := fieldD j "t" Json.null
  if !t.isNull then return .tuple (← getFormJ t)
  match j.getObjVal? "l" with
  | .ok l => return .list (← listOf getEntry l)
  | .error _ => return .single (← getEntry (fieldD j "s" Json.null))

def dumpForm : Option Form → Json
  | none => Json.null
  | some (l, r) => Json.arr #[Json.num (JsonNumber.fromInt l), Json.num (JsonNumber.fromInt r)]

def errStr : FormErr → String
  | .wrongLen => "ValueError:len" | .keyError => "KeyError" | .nonCanonical => "ValueError:noncanonical"

def parseBondF (j : Json) : Except String (Bond C) := do
  let ss ← natList j
  let rs := ss.map (fun b =>
    let s := Float.ofBits (UInt64.ofNat b)
    let r := Float.sqrt s
    ((⟨r, 0.0⟩ : C), (⟨1.0 / r, 0.0⟩ : C)))
  let ra := (rs.map (·.1)).toArray
  let ri := (rs.map (·.2)).toArray
  return { chi := ss.length, R := fun a => ra.getD a 0, Rinv := fun a => ri.getD a 0 }

def getBCj (j : Json) : Except String BC := do
  match ← getStr j with
  | "finite" => pure BC.finite
  | "segment" => pure BC.segment
  | "infinite" => pure BC.infinite
  | s => throw s!"bc {s}"

def emptySite : Site C := { dL := 0, d := 0, dR := 0, B := fun _ _ _ => 0, form := none }
def emptyBond : Bond C := { chi := 0, R := fun _ => 0, Rinv := fun _ => 0 }

def parseMPSF (j : Json) : Except String (MPSM C) := do
  let sites ← listOf (fun (e : Json) => do
    let s ← parseRSite e
    let fj := fieldD e "form" Json.null
    let f ← (if fj.isNull then pure none else some <$> getFormJ fj)
    pure ({ dL := s.dL, d := s.d, dR := s.dR, B := s.M, form := f } : Site C)) (← field j "sites")
  let bonds ← listOf parseBondF (← field j "bonds")
  let sa := sites.toArray
  let ba := bonds.toArray
  let nj ← getArr (← field j "norm")
  let nrm ← (match nj with
    | [r, i] => do pure (ofBits (← getNat r) (← getNat i))
    | _ => throw "norm")
  return { L := sites.length, site := fun i => sa.getD i emptySite, bond := fun i => ba.getD i emptyBond,
           norm := nrm, bc := ← getBCj (← field j "bc") }

def dumpSiteF (s : Site C) : Json :=
  match dumpRSite { dL := s.dL, d := s.d, dR := s.dR, M := s.B } with
  | Json.obj kvs => Json.obj (kvs.insert "form" (dumpForm s.form))
  | x => x

def handleGlue (op : String) (j : Json) : Except String Json := do
  match op with
  | "parseForm" =>
    let L ← getNat (← field j "L")
    let arg ← getFormArg (← field j "arg")
    match parseForm L arg with
    | .ok fs => return obj [("ok", ofList dumpForm fs)]
    | .error e => return obj [("err", Json.str (errStr e))]
  | "convertArg" =>
    let M ← parseMPSF (← field j "mps")
    let arg ← getFormArg (← field j "arg")
    -- materialise the tensors after the call
    let (M', e) := convertFormArg M arg
    let sites := (List.range M'.L).map (fun i =>
      let s := M'.site i
      let arr := tabT3 s.dL s.d s.dR s.B
      dumpSiteF { s with B := ofArrT3 s.dL s.d s.dR arr })
    return obj [("sites", Json.arr sites.toArray),
                ("err", match e with | some e => Json.str (errStr e) | none => Json.null)]
  | "thetaGuard" =>
    let L ← getNat (← field j "L")
    let bc ← getBCj (← field j "bc")
    let forms ← listOf (fun (f : Json) => if f.isNull then pure (none : Option Form) else some <$> getFormJ f)
      (← field j "forms")
    let fa := forms.toArray
    let M : MPSM C := { L := L, site := fun i => { emptySite with form := fa.getD i none },
                        bond := fun _ => emptyBond, norm := 1, bc := bc }
    let qs ← listOf (fun (q : Json) => do
      match ← getArr q with
      | [i, n] => pure (← getInt i, ← getInt n)
      | _ => throw "query") (← field j "queries")
    let res := qs.map (fun (i, n) => match thetaGuard M i n with
      | none => Json.null
      | some .nonCanonical => Json.str "ValueError:noncanonical"
      | some .outOfBounds => Json.str "ValueError:bounds"
      | some .nTooSmall => Json.str "ValueError:n")
    return obj [("res", Json.arr res.toArray)]
  | "entropy" =>
    let bc ← getBCj (← field j "bc")
    let L ← getNat (← field j "L")
    let bonds ← listOf parseBondF (← field j "bonds")
    let ba := bonds.toArray
    -- bond `k` is tagged by `chi = 1000 + k` in a shadow MPS to read off WHICH bond is selected
    let Mtag : MPSM C := { L := L, site := fun _ => emptySite,
                           bond := fun k => { emptyBond with chi := 1000 + k }, norm := 1, bc := bc }
    let ibs ← intList (← field j "ibs")
    let ns ← natList (← field j "ns")
    let res := ibs.map (fun ib => match entropyBond Mtag ib with
      | none => Json.null
      | some b =>
        let k := b.chi - 1000
        let bd := ba.getD k emptyBond
        obj [("bond", k), ("renyi", encList (ns.map (fun n => renyiSum bd n)))])
    return obj [("res", Json.arr res.toArray), ("default", ofNatList (nontrivialBonds Mtag))]
  | _ => throw s!"unknown op {op}"

/-! ### part D: basis permutation of `from_product_state` -/

def handlePstate (j : Json) : Except String Json := do
  let permute ← getBool (← field j "permute")
  let sites ← listOf (fun (e : Json) => do
    let d ← getNat (← field e "d")
    let perm ← natList (← field e "perm")
    let lab ← getBool (← field e "labelled")
    let ej ← field e "entry"
    let ent ← (match ej.getNat? with
      | .ok k => pure (PState.idx (α := C) k)
      | .error _ => do
        let arr ← getFlat ej
        pure (PState.vec (fun p => arr.getD p 0)))
    pure (d, perm.toArray, lab, ent)) (← field j "sites")
  let sa := sites.toArray
  let dflt : Nat × Array Nat × Bool × PState C := (0, #[], false, PState.idx 0)
  let perm : Nat → Nat → Nat := fun i p => ((sa.getD i dflt).2.1).getD p p
  let labelled : Nat → Bool := fun i => (sa.getD i dflt).2.2.1
  let ps : Nat → PState C := fun i => (sa.getD i dflt).2.2.2
  let vecs := (List.range sites.length).map (fun i =>
    encList ((List.range (sa.getD i dflt).1).map (fun p => localAmp perm permute labelled ps i p)))
  return obj [("vecs", Json.arr vecs.toArray)]

def handle (j : Json) : Except String Json := do
  let op ← getStr (← field j "op")
  if op == "pstate" then handlePstate j
  else if op == "cover" then handleCover j
  else if op == "charge" then handleCharge j
  else handleGlue op j

def main : IO Unit := serve handle
