-- Root of the `TenpyModel` library: everything `lake build` (setup) compiles.
import TenpyModel.Util.J
import TenpyModel.C20.PropsEvents
