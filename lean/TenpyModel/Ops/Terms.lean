import TenpyModel.Ops.Sym
/-!
# Ops model, part 2: the term containers of `tenpy/networks/terms.py`

* `Dict`                      python `dict` (insertion ordered association list)
* `TermList`                  `TermList.terms` zipped with `TermList.strength`
* `OnsiteTerms`               `add_onsite_term`, `to_TermList`, `remove_zeros`, `__iadd__`
* `CouplingTerms`             nested dict `{i: {(op_i, op_str): {j: {op_j: strength}}}}`:
                              `add_coupling_term`, `to_TermList`, `max_range`, `remove_zeros`, `__iadd__`
* `MultiCouplingTerms`        `add_multi_coupling_term` (switchLR, op_switch, shift, `_insert_connection`),
                              `to_TermList`; the nested dictionaries `terms_left/right` are kept as the
                              list of their root-to-counter paths (a trie is the set of its paths; every
                              consumer below only walks root-to-counter paths)
* `ExpDecayTerms`             `add_exponentially_decaying_coupling`, `add_centered_exponentially_decaying_term`,
                              `to_TermList(cutoff, bc)`

`to_TermList` of the python classes forgets the operator string between the sites.  The model
functions `toTermListS` keep it as an annotation (`STerm`); erasing the annotation
(`STerm.erase`) gives exactly the python result, which is what the harness compares.
Denotations (`denote`) are formal sums over *finite* chains `0 ≤ site < L`.
-/
namespace TenpyModel.Ops

/-! ## python dict -/

abbrev Dict (κ ν : Type) := List (κ × ν)

namespace Dict
variable {κ ν : Type} [DecidableEq κ]

def get? (d : Dict κ ν) (k : κ) : Option ν :=
  match d with
  | [] => none
  | (k', v) :: rest => if k' = k then some v else get? rest k

/-- `d[k] = f(d.get(k))` keeping python's insertion order -/
def upsert (d : Dict κ ν) (k : κ) (f : Option ν → ν) : Dict κ ν :=
  match d with
  | [] => [(k, f none)]
  | (k', v) :: rest => if k' = k then (k', f (some v)) :: rest else (k', v) :: upsert rest k f

def keys (d : Dict κ ν) : List κ := d.map (·.1)
end Dict

/-- `d.get(key, 0) + strength` -/
def addTo {α : Type} [Add α] [Zero α] (s : α) : Option α → α
  | none => 0 + s
  | some v => v + s

/-- insertion sort by a strict order `lt` (python `sorted` on distinct keys) -/
def sortBy {κ : Type} (lt : κ → κ → Bool) : List κ → List κ
  | [] => []
  | k :: rest =>
    let rec ins (k : κ) : List κ → List κ
      | [] => [k]
      | q :: qs => if lt k q then k :: q :: qs else q :: ins k qs
    ins k (sortBy lt rest)

def strLt (a b : String) : Bool := a < b
def intLt (a b : Int) : Bool := a < b
def pairLt (a b : String × String) : Bool := a.1 < b.1 || (a.1 = b.1 && a.2 < b.2)

/-- items of a dict in sorted key order (`for k in sorted(d): d[k]`) -/
def Dict.sortedItems {κ ν : Type} [DecidableEq κ] (lt : κ → κ → Bool) (d : Dict κ ν) : List (κ × ν) :=
  (sortBy lt d.keys).filterMap (fun k => (Dict.get? d k).map (fun v => (k, v)))

/-! ## TermList -/

/-- one term: `[(opname, site), …]` in python order, with its strength -/
abbrev TermList (α : Type) := List (List (String × Int) × α)

/-- a term with the operator string to the right of every operator but the last
(`str` of the last entry is unused) -/
structure SOp where
  op : String
  site : Int
  str : String
deriving DecidableEq, Repr

abbrev STermList (α : Type) := List (List SOp × α)

def STermList.erase {α : Type} (t : STermList α) : TermList α :=
  t.map (fun p => (p.1.map (fun o => (o.op, o.site)), p.2))

/-- positional string of an annotated term on the chain `0 … L-1`: operators at their sites, the
annotated string between consecutive operators, `Id` outside.  Sites must be ascending. -/
def stermStr (L : Nat) : Nat → List SOp → OpStr
  | pos, [] => idStr (L - pos)
  | pos, [o] => idStr (o.site.toNat - pos) ++ o.op :: idStr (L - o.site.toNat - 1)
  | pos, o :: o' :: rest =>
    idStr (o.site.toNat - pos) ++ o.op ::
      (List.replicate (o'.site.toNat - o.site.toNat - 1) o.str ++ stermStrTail L o' rest)
where
  stermStrTail (L : Nat) : SOp → List SOp → OpStr
  | o, [] => o.op :: idStr (L - o.site.toNat - 1)
  | o, o' :: rest =>
    o.op :: (List.replicate (o'.site.toNat - o.site.toNat - 1) o.str ++ stermStrTail L o' rest)

/-- operators of one term ordered by site (only the centred exponentially decaying terms are
emitted by python with `j < i`, i.e. unordered) -/
def sortSOps : List SOp → List SOp
  | [] => []
  | o :: rest =>
    let rec ins (o : SOp) : List SOp → List SOp
      | [] => [o]
      | q :: qs => if o.site < q.site then o :: q :: qs else q :: ins o qs
    ins o (sortSOps rest)

def STermList.denote {α : Type} (L : Nat) (t : STermList α) : Sym α :=
  t.map (fun p => (stermStr L 0 (sortSOps p.1), p.2))

/-! ## OnsiteTerms -/

structure OnsiteTerms (α : Type) where
  L : Nat
  terms : List (Dict String α)

namespace OnsiteTerms
variable {α : Type}

def empty (L : Nat) : OnsiteTerms α := ⟨L, List.replicate L []⟩

/-- `term[op] = term.get(op, 0) + strength` -/
def add [Add α] [Zero α] (ot : OnsiteTerms α) (s : α) (i : Nat) (op : String) : OnsiteTerms α :=
  let f : Dict String α → Dict String α := fun d => Dict.upsert d op (addTo s)
  { ot with terms := ot.terms.modify i f }

def toTermListS (ot : OnsiteTerms α) : STermList α :=
  (ot.terms.zipIdx).flatMap (fun (d, i) =>
    (Dict.sortedItems strLt d).map (fun (op, s) => ([⟨op, i, ""⟩], s)))

def toTermList (ot : OnsiteTerms α) : TermList α := ot.toTermListS.erase

/-- formal sum represented by the container -/
def denote (ot : OnsiteTerms α) : Sym α :=
  (ot.terms.zipIdx).flatMap (fun (d, i) => d.map (fun (op, s) => (onsiteStr ot.L i op, s)))

/-- `remove_zeros` with an exact zero test -/
def removeZeros [DecidableEq α] [Zero α] (ot : OnsiteTerms α) : OnsiteTerms α :=
  { ot with terms := ot.terms.map (fun d => d.filter (fun p => p.2 ≠ 0)) }

/-- `self += other` -/
def iadd [Add α] [Zero α] (a b : OnsiteTerms α) : OnsiteTerms α :=
  { a with terms := (a.terms.zip b.terms).map (fun (da, db) =>
      db.foldl (fun d (k, v) => Dict.upsert d k (addTo v)) da) }
end OnsiteTerms

/-! ## CouplingTerms -/

abbrev CDict (α : Type) := Dict Int (Dict (String × String) (Dict Int (Dict String α)))

structure CouplingTerms (α : Type) where
  L : Nat
  terms : CDict α

namespace CouplingTerms
variable {α : Type}

def empty (L : Nat) : CouplingTerms α := ⟨L, []⟩

/-- `add_coupling_term(strength, i, j, op_i, op_j, op_string)`:
`setdefault` three levels, then `d3[op_j] = d3.get(op_j, 0) + strength` -/
def add [Add α] [Zero α] (ct : CouplingTerms α) (s : α) (i j : Int) (opi opj str : String) :
    CouplingTerms α :=
  { ct with terms :=
      Dict.upsert ct.terms i (fun d1 =>
        Dict.upsert (d1.getD []) (opi, str) (fun d2 =>
          Dict.upsert (d2.getD []) j (fun d3 =>
            Dict.upsert (d3.getD []) opj (addTo s)))) }

/-- python raises `ValueError` unless `0 <= i < L` and `i < j` -/
def addValid (ct : CouplingTerms α) (i j : Int) : Bool := 0 ≤ i && i < ct.L && i < j

/-- all entries `(i, op_i, op_str, j, op_j, strength)` in dict iteration order -/
def entries (ct : CouplingTerms α) : List (Int × String × String × Int × String × α) :=
  ct.terms.flatMap (fun (i, d1) => d1.flatMap (fun ((opi, str), d2) =>
    d2.flatMap (fun (j, d3) => d3.map (fun (opj, s) => (i, opi, str, j, opj, s)))))

/-- `to_TermList` (all four levels in sorted key order), keeping the string as annotation -/
def toTermListS (ct : CouplingTerms α) : STermList α :=
  (Dict.sortedItems intLt ct.terms).flatMap (fun (i, d1) =>
    (Dict.sortedItems pairLt d1).flatMap (fun ((opi, str), d2) =>
      (Dict.sortedItems intLt d2).flatMap (fun (j, d3) =>
        (Dict.sortedItems strLt d3).map (fun (opj, s) => ([⟨opi, i, str⟩, ⟨opj, j, ""⟩], s)))))

def toTermList (ct : CouplingTerms α) : TermList α := ct.toTermListS.erase

/-- `max_range`: max over `i`, `(op_i, str)` of `max(d2.keys()) - i` -/
def maxRange (ct : CouplingTerms α) : Int :=
  ct.terms.foldl (fun m (i, d1) => d1.foldl (fun m (_, d2) =>
    match d2.keys with
    | [] => m
    | j :: js => max m (js.foldl max j - i)) m) 0

/-- formal sum represented by a finite container (`0 ≤ i < j < L`) -/
def denote (ct : CouplingTerms α) : Sym α :=
  ct.entries.map (fun (i, opi, str, j, opj, s) => (couplingStr ct.L i.toNat j.toNat opi str opj, s))

def removeZeros [DecidableEq α] [Zero α] (ct : CouplingTerms α) : CouplingTerms α :=
  { ct with terms := (ct.terms.map (fun (i, d1) =>
      (i, (d1.map (fun (k, d2) =>
        (k, (d2.map (fun (j, d3) => (j, d3.filter (fun p => p.2 ≠ 0)))).filter (fun p => !p.2.isEmpty)))).filter
          (fun p => !p.2.isEmpty)))) }

def iadd [Add α] [Zero α] (a b : CouplingTerms α) : CouplingTerms α :=
  b.entries.foldl (fun c (i, opi, str, j, opj, s) => c.add s i j opi opj str) a
end CouplingTerms

/-! ## MultiCouplingTerms -/

/-- one level `(i, op_i, op_string right of i)` of the nested dictionaries -/
abbrev MKey := Int × String × String

/-- a root-to-counter path of `terms_left` / `terms_right` with the counters stored at its end -/
structure MPath where
  path : List MKey
  counters : List Nat
deriving DecidableEq, Repr

/-- `(switchLR, op_switch, shift, strength)` -/
structure Conn (α : Type) where
  switchLR : Int
  opSwitch : String
  shift : Int
  strength : α

structure MultiCouplingTerms (α : Type) where
  L : Nat
  left : List MPath
  right : List MPath
  /-- `connections`, entry 0 is `None` -/
  conns : List (Option (Conn α))
  maxRange : Int

namespace MultiCouplingTerms
variable {α : Type}

def empty (L : Nat) : MultiCouplingTerms α := ⟨L, [], [], [none], 0⟩

def pymod (a : Int) (m : Nat) : Int := a.emod m

/-- counters stored at the end of `path` (`d0.setdefault(connect, [])`) -/
def countersAt (ps : List MPath) (path : List MKey) : List Nat :=
  match ps.find? (fun p => p.path = path) with
  | some p => p.counters
  | none => []

def pushCounter (ps : List MPath) (path : List MKey) (c : Nat) : List MPath :=
  if ps.any (fun p => p.path = path) then
    ps.map (fun p => if p.path = path then { p with counters := p.counters ++ [c] } else p)
  else ps ++ [⟨path, [c]⟩]

/-- make sure the (possibly empty) counter list exists (`setdefault`) -/
def touch (ps : List MPath) (path : List MKey) : List MPath :=
  if ps.any (fun p => p.path = path) then ps else ps ++ [⟨path, []⟩]

/-- `switchLR` given as int or one of the two heuristics -/
inductive Switch where
  | at (i : Int)
  | middleI
  | middleOp
deriving DecidableEq, Repr

def resolveSwitch (ijkl : List Int) : Switch → Int
  | .at i => i
  | .middleI => (ijkl.headD 0 + ijkl.getLastD 0 + 1) / 2
  | .middleOp => ijkl.getD (ijkl.length / 2) 0

/-- `op_switch`: the operator on site `switchLR`, or the string passing over it -/
def opSwitchOf (sw : Int) : List Int → List String → List String → Nat → String
  | [], _, _, _ => ""
  | i :: is, ops, strs, n =>
    if sw = i then ops.getD n ""
    else if sw < i then strs.getD (n - 1) ""
    else opSwitchOf sw is ops strs (n + 1)

/-- `_insert_connection(counters_left, counters_right, new_connection)` for the counter lists at
the ends of `leftPath` / `rightPath` (created by `setdefault` if missing) -/
def insertConnection [Add α] (mt : MultiCouplingTerms α) (leftPath rightPath : List MKey)
    (k : Conn α) : MultiCouplingTerms α :=
  let cl := countersAt mt.left leftPath
  let cr := countersAt mt.right rightPath
  let same (c : Nat) : Bool :=
    match mt.conns.getD c none with
    | some k' => k'.switchLR = k.switchLR && k'.opSwitch = k.opSwitch && k'.shift = k.shift
                 && cr.contains c
    | none => false
  match cl.find? same with
  | some c =>
    { mt with
      left := touch mt.left leftPath, right := touch mt.right rightPath,
      conns := mt.conns.modify c
        (fun o => o.map (fun k' => { k with strength := k'.strength + k.strength })) }
  | none =>
    let c := mt.conns.length
    { mt with
      left := pushCounter mt.left leftPath c, right := pushCounter mt.right rightPath c,
      conns := mt.conns ++ [some k] }

/-- `add_multi_coupling_term(strength, ijkl, ops_ijkl, op_string, switchLR)` -/
def add [Add α] (mt : MultiCouplingTerms α) (s : α) (ijkl : List Int) (ops : List String)
    (strs : List String) (sw : Switch) : MultiCouplingTerms α :=
  let swi := resolveSwitch ijkl sw
  let opSw := opSwitchOf swi ijkl ops strs 0
  let trip : List MKey := (ijkl.zip (ops.zip strs))
  let leftPath := trip.takeWhile (fun t => t.1 < swi)
  let last := ijkl.getLastD 0
  let shift := last - pymod last mt.L
  -- zip(reversed(ijkl), reversed(ops), reversed(op_string)): the string is the one LEFT of the operator
  let rtrip : List MKey := (ijkl.reverse.zip (ops.reverse.zip strs.reverse))
  let rightPath := (rtrip.takeWhile (fun t => swi < t.1)).map (fun t => (t.1 - shift, t.2))
  let mt' := mt.insertConnection leftPath rightPath ⟨swi, opSw, shift, s⟩
  { mt' with maxRange := max (last - ijkl.headD 0) mt.maxRange }

/-- python raises unless `len(ijkl) ≥ 2`, strictly ascending, `0 ≤ ijkl[0] ≤ switchLR ≤ ijkl[-1]`,
`ijkl[0] < L` -/
def addValid (mt : MultiCouplingTerms α) (ijkl : List Int) (ops strs : List String) (sw : Switch) : Bool :=
  let swi := resolveSwitch ijkl sw
  decide (2 ≤ ijkl.length) && ops.length == ijkl.length && strs.length + 1 == ijkl.length
  && (ijkl.zip (ijkl.drop 1)).all (fun p => p.1 < p.2)
  && 0 ≤ ijkl.headD 0 && ijkl.headD 0 ≤ swi && swi ≤ ijkl.getLastD 0 && ijkl.headD 0 < mt.L

/-- path whose counter list contains `c` (`_fill_term_list`) -/
def pathOf (ps : List MPath) (c : Nat) : Option (List MKey) :=
  (ps.find? (fun p => p.counters.contains c)).map (·.path)

/-- `to_TermList`, with the strings kept.  The last left string is the one reaching `switchLR`;
on the right the stored string is the one to the *left* of the operator. -/
def toTermListS (mt : MultiCouplingTerms α) : STermList α :=
  (mt.conns.zipIdx).filterMap (fun (oc, c) =>
    match oc with
    | none => none
    | some k =>
      let tL := (pathOf mt.left c).getD []
      let tR := ((pathOf mt.right c).getD []).reverse
      let lastStr := match tL.getLast? with | some t => t.2.2 | none => ""
      -- string right of the switch site = string left of the first right operator
      let nextStr := match tR.head? with | some t => t.2.2 | none => lastStr
      let leftOps : List SOp := tL.map (fun t => ⟨t.2.1, t.1, t.2.2⟩)
      let mid : List SOp := if k.opSwitch ≠ lastStr then [⟨k.opSwitch, k.switchLR, nextStr⟩] else []
      -- right operators: own string annotation = string to the left of the NEXT operator
      let rs := tR.map (fun t => (t.1 + k.shift, t.2.1))
      let strsR := (tR.drop 1).map (fun t => t.2.2) ++ [""]
      let rightOps : List SOp := (rs.zip strsR).map (fun (p, st) => ⟨p.2, p.1, st⟩)
      -- when the switch site carries only the string, the left part's last string continues
      -- up to the first right operator
      some (leftOps ++ mid ++ rightOps, k.strength))

def toTermList (mt : MultiCouplingTerms α) : TermList α := mt.toTermListS.erase

/-- `TermList.max_range` -/
def termListMaxRange (t : TermList α) : Int :=
  t.foldl (fun m p =>
    match p.1.map (·.2) with
    | [] => m
    | i :: is => max m (is.foldl max i - is.foldl min i)) 0

/-- `self += other` for a plain `CouplingTerms` `other`: every entry is re-added with
`add_multi_coupling_term(strength, [i, j], [op_i, op_j], op_str)` -/
def iaddCoupling [Add α] (mt : MultiCouplingTerms α) (ct : CouplingTerms α) : MultiCouplingTerms α :=
  ct.entries.foldl (fun m (i, opi, str, j, opj, s) => m.add s [i, j] [opi, opj] [str] .middleI) mt

/-- `_iadd_multi_coupling` + max of the two `_max_range` -/
def iaddMulti [Add α] (mt other : MultiCouplingTerms α) : MultiCouplingTerms α :=
  let m := (other.conns.zipIdx).foldl (fun (m : MultiCouplingTerms α) (oc, c) =>
    match oc with
    | none => m
    | some k => m.insertConnection ((pathOf other.left c).getD []) ((pathOf other.right c).getD []) k) mt
  { m with maxRange := max mt.maxRange other.maxRange }

/-- `remove_zeros` with an exact zero test -/
def removeZeros [DecidableEq α] [Zero α] (mt : MultiCouplingTerms α) : MultiCouplingTerms α :=
  let dead (c : Nat) : Bool :=
    match mt.conns.getD c none with
    | some k => decide (k.strength = 0)
    | none => true
  if (mt.conns.zipIdx).all (fun p => match p.1 with | none => true | some k => decide (k.strength ≠ 0)) then mt
  else
    let prune (ps : List MPath) : List MPath :=
      (ps.map (fun p => { p with counters := p.counters.filter (fun c => !dead c) })).filter
        (fun p => !p.counters.isEmpty)
    let m : MultiCouplingTerms α :=
      { mt with
        conns := mt.conns.map (fun o => match o with
          | some k => if k.strength = 0 then none else some k
          | none => none),
        left := prune mt.left, right := prune mt.right }
    { m with maxRange := termListMaxRange m.toTermList }
end MultiCouplingTerms

/-! ## ExponentiallyDecayingTerms -/

structure ExpTerm (α : Type) where
  strength : α
  lam : List α          -- one decay factor per site (a scalar is broadcast by the caller)
  opi : String
  opj : String
  subsites : List Nat
  subsitesStart : List Nat
  str : String

structure CenteredTerm (α : Type) where
  strength : α
  lam : List α
  opi : String
  opj : String
  i : Nat
  subsites : List Nat
  str : String

structure ExpDecayTerms (α : Type) where
  L : Nat
  terms : List (ExpTerm α)
  centered : List (CenteredTerm α)

namespace ExpDecayTerms
variable {α : Type}

def empty (L : Nat) : ExpDecayTerms α := ⟨L, [], []⟩

def prodL [Mul α] [One α] (l : List α) : α := l.foldl (· * ·) 1

/-- `to_TermList(cutoff, bc='finite')`; `small p` is the test `abs(p) < cutoff` -/
def toTermListFinite [Mul α] [One α] [Inhabited α] (small : α → Bool) (e : ExpDecayTerms α) :
    STermList α :=
  let part1 := e.terms.flatMap (fun t =>
    t.subsitesStart.flatMap (fun i =>
      let later := t.subsites.filter (fun j => i < j)
      -- `for d, j in enumerate(subsites[i3:])`, `break` at the first small prefactor
      let prefs := (List.range later.length).map (fun d =>
        t.strength * prodL (t.lam.getD i default :: (later.take d).map (fun n => t.lam.getD n default)))
      let keep := ((later.zip prefs).takeWhile (fun p => !small p.2))
      keep.map (fun (j, pref) => ([⟨t.opi, i, t.str⟩, ⟨t.opj, j, ""⟩], pref))))
  let part2 := e.centered.flatMap (fun t =>
    (t.subsites.filter (fun j => j ≠ t.i)).filterMap (fun j =>
      let ps := if j < t.i then t.subsites.filter (fun n => j < n ∧ n ≤ t.i)
                else t.subsites.filter (fun n => t.i ≤ n ∧ n < j)
      let pref := t.strength * prodL (ps.map (fun n => t.lam.getD n default))
      if small pref then none
      else some ([⟨t.opi, t.i, t.str⟩, ⟨t.opj, j, t.str⟩], pref)))
  part1 ++ part2

/-- `to_TermList(cutoff, bc='infinite')`: `d` runs over `range(1000)` until the prefactor is small
(`fuel` = 1000 in python) -/
def toTermListInfinite [Mul α] [One α] [Inhabited α] (small : α → Bool) (fuel : Nat)
    (e : ExpDecayTerms α) : STermList α :=
  e.terms.flatMap (fun t =>
    let N1 := t.subsites.length
    t.subsitesStart.flatMap (fun i =>
      let i3 := match (t.subsites.zipIdx).find? (fun p => i < p.1) with
        | some p => p.2
        | none => N1
      let cand := (List.range fuel).map (fun d =>
        let j2 := i3 + d
        let j : Int := (t.subsites.getD (j2 % N1) 0 : Nat) + ((j2 / N1) * e.L : Nat)
        let between := (List.range d).map (fun x => t.subsites.getD ((i3 + x) % N1) 0)
        (j, t.strength * prodL (t.lam.getD i default :: between.map (fun n => t.lam.getD n default))))
      (cand.takeWhile (fun p => !small p.2)).map
        (fun (j, pref) => ([⟨t.opi, i, t.str⟩, ⟨t.opj, j, ""⟩], pref))))
end ExpDecayTerms

end TenpyModel.Ops
