import TenpyModel.Ops.Sym
/-!
# Ops model, part 6: evaluation of a formal sum with site matrices (executable cross-check)

Every name of a site is assigned a `d × d` complex matrix (exported from the implementation);
names joined by blanks are matrix products (`Site.get_op`).  `evalSym` is the dense matrix
`Σ c · (M₀ ⊗ M₁ ⊗ …)` in the Kronecker basis.  Floats: tolerance-compared by the harness.
-/
namespace TenpyModel.Ops

structure CF where
  re : Float
  im : Float

namespace CF
def add (a b : CF) : CF := ⟨a.re + b.re, a.im + b.im⟩
def mul (a b : CF) : CF := ⟨a.re * b.re - a.im * b.im, a.re * b.im + a.im * b.re⟩
def zero : CF := ⟨0, 0⟩
def isZero (a : CF) : Bool := a.re == 0 && a.im == 0
end CF

/-- sparse local matrix: `(row, col, value)` -/
abbrev LocalMat := List (Nat × Nat × CF)

def LocalMat.mul (a b : LocalMat) : LocalMat :=
  a.flatMap (fun (r, k, x) => b.filterMap (fun (k', c, y) => if k = k' then some (r, c, CF.mul x y) else none))

structure SiteMats where
  d : Nat
  ops : List (String × LocalMat)

def SiteMats.get (s : SiteMats) (name : String) : LocalMat :=
  let parts := (name.splitOn " ").filter (fun x => x ≠ "")
  let look (n : String) : LocalMat := match s.ops.find? (fun p => p.1 = n) with
    | some p => p.2
    | none => []
  match parts with
  | [] => []
  | n :: rest => rest.foldl (fun acc m => acc.mul (look m)) (look n)

/-- entries of `c · (M₀ ⊗ M₁ ⊗ …)` -/
def kronEntries (sites : List SiteMats) (t : OpStr) (c : CF) : List (Nat × Nat × CF) :=
  (sites.zip t).foldl (fun acc (s, name) =>
    let m := s.get name
    acc.flatMap (fun (r, q, v) => m.map (fun (a, b, w) => (r * s.d + a, q * s.d + b, CF.mul v w))))
    [(0, 0, c)]

/-- dense matrix (row major, dimension `D = Π dᵢ`) of a formal sum -/
def evalSym (sites : List SiteMats) (s : List (OpStr × CF)) : Nat × Array CF :=
  let D := sites.foldl (fun a st => a * st.d) 1
  let arr := s.foldl (fun (arr : Array CF) (t, c) =>
    (kronEntries sites t c).foldl (fun (arr : Array CF) (r, q, v) =>
      let k := r * D + q
      arr.set! k (CF.add (arr.getD k CF.zero) v)) arr) (Array.replicate (D * D) CF.zero)
  (D, arr)

end TenpyModel.Ops
