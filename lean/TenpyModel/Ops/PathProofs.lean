import TenpyModel.Ops.SymProofs
import TenpyModel.Ops.Graph
/-!
# Lemmas on path sums of layered weighted automata (`pathsFrom`)
-/
namespace TenpyModel.Ops

variable {κ α : Type} [DecidableEq κ] [Semiring α]

@[simp] theorem pathsFrom_nil (fin k : κ) :
    pathsFrom (α := α) fin [] k = if k = fin then [([], 1)] else [] := rfl

theorem pathsFrom_cons (fin : κ) (layer : List (Edge κ α)) (rest : List (List (Edge κ α))) (k : κ) :
    pathsFrom fin (layer :: rest) k =
      layer.flatMap (fun e => if e.kL = k then Sym.consOp e.op e.c (pathsFrom fin rest e.kR) else []) := rfl

/-- coefficient recursion: the first letter selects the edges leaving `k` with that operator name -/
theorem coeff_pathsFrom_cons (fin : κ) (layer : List (Edge κ α)) (rest : List (List (Edge κ α))) (k : κ)
    (op : String) (t : OpStr) :
    coeff (pathsFrom fin (layer :: rest) k) (op :: t) =
      (layer.map (fun e => if e.kL = k ∧ e.op = op then e.c * coeff (pathsFrom fin rest e.kR) t else 0)).sum := by
  rw [pathsFrom_cons, coeff_flatMap]
  congr 1
  apply List.map_congr_left
  intro e _
  by_cases h : e.kL = k
  · simp only [h, if_true, true_and, coeff_consOp_cons]
  · simp [h]

theorem coeff_pathsFrom_cons_nil (fin : κ) (layer : List (Edge κ α)) (rest : List (List (Edge κ α))) (k : κ) :
    coeff (pathsFrom fin (layer :: rest) k) [] = 0 := by
  rw [pathsFrom_cons, coeff_flatMap]
  apply List.sum_eq_zero
  intro x hx
  obtain ⟨e, _, rfl⟩ := List.mem_map.1 hx
  split
  · exact coeff_consOp_nil _ _ _
  · rfl

/-- appending edges to the first layer adds their path sums -/
theorem pathsFrom_append_layer (fin : κ) (l1 l2 : List (Edge κ α)) (rest : List (List (Edge κ α))) (k : κ) :
    pathsFrom fin ((l1 ++ l2) :: rest) k = pathsFrom fin (l1 :: rest) k ++ pathsFrom fin (l2 :: rest) k := by
  simp [pathsFrom_cons, List.flatMap_append]

/-- the path sum only depends on the multiset of edges of the first layer -/
theorem pathsFrom_perm_layer (fin : κ) {l1 l2 : List (Edge κ α)} (h : l1.Perm l2)
    (rest : List (List (Edge κ α))) (k : κ) :
    (pathsFrom fin (l1 :: rest) k).Perm (pathsFrom fin (l2 :: rest) k) := by
  rw [pathsFrom_cons, pathsFrom_cons]
  exact h.flatMap_right _

/-- strings of the wrong length do not occur -/
theorem coeff_pathsFrom_length (fin : κ) (layers : List (List (Edge κ α))) (k : κ) (t : OpStr)
    (h : t.length ≠ layers.length) : coeff (pathsFrom fin layers k) t = 0 := by
  induction layers generalizing k t with
  | nil =>
    cases t with
    | nil => simp at h
    | cons a t => rw [pathsFrom_nil]; split <;> simp [coeff_cons]
  | cons layer rest ih =>
    cases t with
    | nil => exact coeff_pathsFrom_cons_nil _ _ _ _
    | cons op t =>
      rw [coeff_pathsFrom_cons]
      apply List.sum_eq_zero
      intro x hx
      obtain ⟨e, _, rfl⟩ := List.mem_map.1 hx
      split
      · rw [ih e.kR t (by simpa using h), mul_zero]
      · rfl

end TenpyModel.Ops
