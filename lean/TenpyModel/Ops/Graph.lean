import TenpyModel.Ops.Terms
/-!
# Ops model, part 3: `MPOGraph` as a weighted automaton (tenpy/networks/mpo.py)

* `Edge`, `pathsFrom`     an automaton layer = list of edges `(keyL, keyR, opname, strength)`;
                          `pathsFrom fin layers k` = Σ over paths `k → fin` through the layers of
                          (product of strengths)·(operator string).  Generic in the key type: the
                          same function is the denotation of an `MPO` (keys = indices, part 4).
* `Graph`                 `MPOGraph`: `add` (incl. `skip_existing`), `has_edge`,
                          `add_string_left_to_right`, `add_string_right_to_left` (key extension when
                          the string wraps around an infinite unit cell), `add_missing_IdL_IdR`,
                          `_set_ordered_states` / `_mpo_graph_state_order`.
* `addToGraph`            of the four term containers; `fromTerms`.
* `denoteGraph`           finite chain: `pathsFrom IdR layers IdL`.
-/
namespace TenpyModel.Ops

/-! ## weighted automata -/

structure Edge (κ α : Type) where
  kL : κ
  kR : κ
  op : String
  c : α
deriving DecidableEq, Repr

/-- Σ over paths from `k` through `layers` ending in `fin` -/
def pathsFrom {κ α : Type} [DecidableEq κ] [Mul α] [One α] (fin : κ) :
    List (List (Edge κ α)) → κ → Sym α
  | [], k => if k = fin then [([], 1)] else []
  | layer :: rest, k =>
    layer.flatMap (fun e => if e.kL = k then Sym.consOp e.op e.c (pathsFrom fin rest e.kR) else [])

/-! ## keys of the MPO graph -/

inductive Atom where
  | s (v : String)
  | n (v : Int)
deriving DecidableEq, Repr

inductive Key where
  | str (v : String)
  | tup (l : List Atom)
deriving DecidableEq, Repr

def Key.IdL : Key := .str "IdL"
def Key.IdR : Key := .str "IdR"

/-- `key + (k, opname, opname)` / `key + (j, op_j, op_str)` -/
def Key.ext (k : Key) (i : Int) (a b : String) : Key :=
  match k with
  | .tup l => .tup (l ++ [.n i, .s a, .s b])
  | .str v => .tup [.s v, .n i, .s a, .s b]   -- python would raise TypeError; never reached

inductive MaxRange where
  | unknown
  | fin (r : Int)
  | inf
deriving DecidableEq, Repr

def MaxRange.max' : MaxRange → MaxRange → MaxRange
  | .unknown, _ => .unknown
  | m, .unknown => m          -- `if graph.max_range is not None` guards every update
  | .inf, _ => .inf
  | _, .inf => .inf
  | .fin a, .fin b => .fin (max a b)

structure Graph (α : Type) where
  L : Nat
  infinite : Bool
  layers : List (List (Edge Key α))
  states : List (List Key)
  maxRange : MaxRange

namespace Graph
variable {α : Type}

def empty (L : Nat) (infinite : Bool) : Graph α :=
  ⟨L, infinite, List.replicate L [], List.replicate (L + 1) [], .fin 0⟩

def siteOf (g : Graph α) (i : Int) : Nat := (i.emod g.L).toNat

def addState (l : List Key) (k : Key) : List Key := if l.contains k then l else l ++ [k]

/-- `has_edge(i, keyL, keyR)` for `0 ≤ i < L` -/
def hasEdge (g : Graph α) (i : Nat) (kL kR : Key) : Bool :=
  (g.layers.getD i []).any (fun e => e.kL = kL && e.kR = kR)

/-- `add(i, keyL, keyR, opname, strength, skip_existing)` -/
def add (g : Graph α) (i : Int) (kL kR : Key) (op : String) (c : α) (skip : Bool := false) : Graph α :=
  let k := g.siteOf i
  let layer := g.layers.getD k []
  let ex := layer.filter (fun e => e.kL = kL && e.kR = kR)
  let push := ex.isEmpty || !skip || !(ex.any (fun e => e.op = op))
  { g with
    layers := if push then g.layers.set k (layer ++ [⟨kL, kR, op, c⟩]) else g.layers,
    states := (g.states.modify k (fun s => addState s kL)).modify (k + 1) (fun s => addState s kR) }

/-- `add_string_left_to_right(i, j, key, opname)`; returns the graph and the key at the bond left
of site `j` -/
def addStringLR [One α] (g : Graph α) (i j : Int) (key : Key) (op : String) : Graph α × Key :=
  let ks := (List.range (j - i - 1).toNat).map (fun (d : Nat) => i + 1 + (d : Int))
  ks.foldl (fun (acc : Graph α × Key) k =>
    let g := acc.1
    let keyL := acc.2
    let keyR := if (k - i).emod g.L = 0 then keyL.ext k op op else keyL
    let g' := if g.hasEdge (g.siteOf k) keyL keyR then g else g.add k keyL keyR op 1 true
    (g', keyR)) (g, key)

/-- `add_string_right_to_left(j, i, key, opname)`; returns the key at the bond right of site `i` -/
def addStringRL [One α] (g : Graph α) (j i : Int) (key : Key) (op : String) : Graph α × Key :=
  let ks := (List.range (j - i - 1).toNat).map (fun (d : Nat) => j - 1 - (d : Int))
  ks.foldl (fun (acc : Graph α × Key) k =>
    let g := acc.1
    let keyR := acc.2
    let keyL := if (j - k).emod g.L = 0 then keyR.ext k op op else keyR
    let g' := if g.hasEdge (g.siteOf k) keyL keyR then g else g.add k keyL keyR op 1 true
    (g', keyL)) (g, key)

/-- `add_missing_IdL_IdR(insert_all_id)` -/
def addMissingIdLIdR [One α] (g : Graph α) (insertAll : Bool := true) : Graph α :=
  let bonds := (g.states.take g.L).zipIdx
  let maxIdL := if g.infinite || insertAll then g.L
    else (bonds.filter (fun p => p.1.contains Key.IdL)).foldl (fun m p => max m p.2) 0
  let minIdR := if g.infinite || insertAll then 0
    else (bonds.filter (fun p => p.1.contains Key.IdR)).foldl (fun m p => min m p.2) g.L
  let g1 := (List.range maxIdL).foldl (fun (g : Graph α) k =>
    if g.hasEdge k Key.IdL Key.IdL then g else g.add k Key.IdL Key.IdL "Id" 1) g
  ((List.range (g.L - minIdR)).map (· + minIdR)).foldl (fun (g : Graph α) k =>
    if g.hasEdge k Key.IdR Key.IdR then g else g.add k Key.IdR Key.IdR "Id" 1) g1

/-! ### `_mpo_graph_state_order` -/

/-- python tuple order on sort keys (ints before … only same-typed entries meet in practice;
`n < s` is an arbitrary total completion) -/
def atomLt : Atom → Atom → Bool
  | .n a, .n b => a < b
  | .s a, .s b => a < b
  | .n _, .s _ => true
  | .s _, .n _ => false

def atomsLt : List Atom → List Atom → Bool
  | [], [] => false
  | [], _ :: _ => true
  | _ :: _, [] => false
  | a :: as, b :: bs => if atomLt a b then true else if atomLt b a then false else atomsLt as bs

def stateOrder : Key → List Atom
  | .str "IdL" => [.n (-2)]
  | .str "IdR" => [.n 2]
  | .str v => [.n 0, .s v]
  | .tup (.s "left" :: rest) => .n (-1) :: .n (rest.length + 1) :: rest
  | .tup (.s "right" :: rest) => .n 1 :: .n (-(rest.length + 1 : Int)) :: rest
  | .tup l => l

def orderedStates (g : Graph α) : List (List Key) :=
  g.states.map (fun s => sortBy (fun a b => atomsLt (stateOrder a) (stateOrder b)) s)

end Graph

/-! ## `add_to_graph` of the term containers -/

def bumpRange {α : Type} (g : Graph α) (r : MaxRange) : Graph α :=
  match g.maxRange with
  | .unknown => g
  | m => { g with maxRange := MaxRange.max' m r }

def OnsiteTerms.addToGraph {α : Type} (ot : OnsiteTerms α) (g : Graph α) : Graph α :=
  let g' := (ot.terms.zipIdx).foldl (fun (g : Graph α) (d, i) =>
    d.foldl (fun (g : Graph α) (op, s) => g.add i Key.IdL Key.IdR op s) g) g
  bumpRange g' (.fin 1)

def leftLabel (i : Int) (op str : String) : Key := .tup [.s "left", .n i, .s op, .s str]
def rightLabel (i : Int) (op str : String) : Key := .tup [.s "right", .n i, .s op, .s str]

def CouplingTerms.addToGraph {α : Type} [One α] (ct : CouplingTerms α) (g : Graph α) : Graph α :=
  let g' := ct.terms.foldl (fun (g : Graph α) (i, d1) =>
    d1.foldl (fun (g : Graph α) ((opi, str), d2) =>
      let label := leftLabel i opi str
      let g := g.add i Key.IdL label opi 1 true
      d2.foldl (fun (g : Graph α) (j, d3) =>
        let r := g.addStringLR i j label str
        d3.foldl (fun (g : Graph α) (opj, s) => g.add j r.2 Key.IdR opj s) r.1) g) g) g
  bumpRange g' (.fin ct.maxRange)

namespace MultiCouplingTerms
variable {α : Type}

/-- walk one root-to-counter path of `terms_left`; returns the key reached at `switchLR` for
each counter stored at its end -/
def insertLeft [One α] (mt : MultiCouplingTerms α) (g : Graph α) (p : MPath) :
    Graph α × List (Nat × Key) :=
  match p.path with
  | [] => (g, p.counters.map (fun c => (c, Key.IdL)))
  | (i0, op0, s0) :: rest =>
    let key0 := leftLabel i0 op0 s0
    let g := g.add i0 Key.IdL key0 op0 1 true
    let st := rest.foldl (fun (acc : Graph α × Key × Int × String) (j, opj, sj) =>
      let (g, key, i, s) := acc
      let r := g.addStringLR i j key s
      let keyJ := r.2.ext j opj sj
      (r.1.add j r.2 keyJ opj 1 true, keyJ, j, sj)) (g, key0, i0, s0)
    p.counters.foldl (fun (acc : Graph α × List (Nat × Key)) c =>
      match mt.conns.getD c none with
      | some k =>
        let r := acc.1.addStringLR st.2.2.1 k.switchLR st.2.1 st.2.2.2
        (r.1, acc.2 ++ [(c, r.2)])
      | none => acc) (st.1, [])

def insertRight [One α] (mt : MultiCouplingTerms α) (g : Graph α) (p : MPath) :
    Graph α × List (Nat × Key) :=
  match p.path with
  | [] => (g, p.counters.map (fun c => (c, Key.IdR)))
  | (i0, op0, s0) :: rest =>
    let key0 := rightLabel i0 op0 s0
    let g := g.add i0 key0 Key.IdR op0 1 true
    let st := rest.foldl (fun (acc : Graph α × Key × Int × String) (j, opj, sj) =>
      let (g, key, i, s) := acc
      let r := g.addStringRL i j key s
      let keyJ := r.2.ext j opj sj
      (r.1.add j keyJ r.2 opj 1 true, keyJ, j, sj)) (g, key0, i0, s0)
    p.counters.foldl (fun (acc : Graph α × List (Nat × Key)) c =>
      match mt.conns.getD c none with
      | some k =>
        let r := acc.1.addStringRL st.2.2.1 (k.switchLR - k.shift) st.2.1 st.2.2.2
        (r.1, acc.2 ++ [(c, r.2)])
      | none => acc) (st.1, [])

def addToGraph [One α] (mt : MultiCouplingTerms α) (g : Graph α) : Graph α :=
  let (g1, kl) := mt.left.foldl (fun (acc : Graph α × List (Nat × Key)) p =>
    let r := mt.insertLeft acc.1 p
    (r.1, acc.2 ++ r.2)) (g, [])
  let (g2, kr) := mt.right.foldl (fun (acc : Graph α × List (Nat × Key)) p =>
    let r := mt.insertRight acc.1 p
    (r.1, acc.2 ++ r.2)) (g1, [])
  let g3 := (mt.conns.zipIdx).foldl (fun (g : Graph α) (oc, c) =>
    match oc, (kl.find? (·.1 = c)), (kr.find? (·.1 = c)) with
    | some k, some a, some b => g.add k.switchLR a.2 b.2 k.opSwitch k.strength
    | _, _, _ => g) g2
  bumpRange g3 (.fin mt.maxRange)
end MultiCouplingTerms

namespace ExpDecayTerms
variable {α : Type}

def expLabel (nr : Nat) : Key := .tup [.n nr, .s "exp-decay"]

def addToGraph [One α] [Inhabited α] (e : ExpDecayTerms α) (g : Graph α) : Graph α :=
  let finite := !g.infinite
  let lamAt (lam : List α) (i : Nat) : α := lam.getD i default
  let step1 := e.terms.foldl (fun (acc : Graph α × Nat) t =>
    let (g, nr) := acc
    let label := expLabel nr
    let inS (i : Nat) : Bool := t.subsites.contains i
    let inStart (i : Nat) : Bool := t.subsitesStart.contains i
    let first : Nat := t.subsitesStart.headD 0
    let last : Nat := t.subsites.getLastD 0
    let body (g : Graph α) (i : Nat) : Graph α :=
      let g := if inS i then
          (g.add i label label t.str (lamAt t.lam i)).add i label Key.IdR t.opj t.strength
        else g
      let g := if inStart i then g.add i Key.IdL label t.opi (lamAt t.lam i) else g
      if !inS i then g.add i label label t.str 1 else g
    let g' :=
      if !finite then (List.range e.L).foldl body g
      else if first < last then
        let g := g.add first Key.IdL label t.opi (lamAt t.lam first)
        let g := ((List.range (last - first - 1)).map (· + first + 1)).foldl body g
        g.add last label Key.IdR t.opj t.strength
      else g
    (g', nr + 1)) (g, 1000)
  let step2 := e.centered.foldl (fun (acc : Graph α × Nat) t =>
    let (g, nr) := acc
    let label := expLabel nr
    let inS (j : Nat) : Bool := t.subsites.contains j
    let first : Nat := t.subsites.headD 0
    let last : Nat := t.subsites.getLastD 0
    let g :=
      if t.i ≠ first then
        let g := g.add first Key.IdL label t.opj t.strength
        let g := ((List.range (t.i - first - 1)).map (· + first + 1)).foldl (fun (g : Graph α) j =>
          if inS j then (g.add j Key.IdL label t.opj t.strength).add j label label t.str (lamAt t.lam j)
          else g.add j label label t.str 1) g
        g.add t.i label Key.IdR t.opi (lamAt t.lam t.i)
      else g
    let g :=
      if t.i ≠ last then
        let g := g.add t.i Key.IdL label t.opi (lamAt t.lam t.i)
        let g := ((List.range (last - t.i - 1)).map (· + t.i + 1)).foldl (fun (g : Graph α) j =>
          if inS j then (g.add j label label t.str (lamAt t.lam j)).add j label Key.IdR t.opj t.strength
          else g.add j label label t.str 1) g
        g.add last label Key.IdR t.opj t.strength
      else g
    (g, nr + 1)) step1
  bumpRange step2.1 .inf
end ExpDecayTerms

/-! ## `MPOGraph.from_terms` and the denotation -/

inductive AnyTerms (α : Type) where
  | onsite (t : OnsiteTerms α)
  | coupling (t : CouplingTerms α)
  | multi (t : MultiCouplingTerms α)
  | expdecay (t : ExpDecayTerms α)

def AnyTerms.addToGraph {α : Type} [One α] [Inhabited α] : AnyTerms α → Graph α → Graph α
  | .onsite t, g => t.addToGraph g
  | .coupling t, g => t.addToGraph g
  | .multi t, g => t.addToGraph g
  | .expdecay t, g => t.addToGraph g

/-- `MPOGraph.from_terms(terms, sites, bc, insert_all_id)` -/
def Graph.fromTerms {α : Type} [One α] [Inhabited α] (L : Nat) (infinite : Bool)
    (terms : List (AnyTerms α)) (insertAll : Bool := true) : Graph α :=
  (terms.foldl (fun g t => t.addToGraph g) (Graph.empty L infinite)).addMissingIdLIdR insertAll

/-- operator denoted by a finite graph: Σ over `IdL → IdR` paths -/
def denoteGraph {α : Type} [Mul α] [One α] (g : Graph α) : Sym α :=
  pathsFrom Key.IdR g.layers Key.IdL

/-- an infinite graph unrolled over `n` unit cells; only terms leaving `IdL` inside the first
unit cell are kept (`IdL → IdL` edges of later cells are removed; the first cell is entered in
`IdL`): the terms "starting in the first unit cell" of `to_TermList(bc='infinite')` -/
def denoteGraphWindow {α : Type} [Mul α] [One α] (g : Graph α) (n : Nat) : Sym α :=
  let later := g.layers.map (fun l => l.filter (fun e => !(e.kL = Key.IdL)))
  let layers := g.layers ++ (List.replicate (n - 1) later).flatten
  pathsFrom Key.IdR layers Key.IdL

end TenpyModel.Ops
