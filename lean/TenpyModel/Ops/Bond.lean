import TenpyModel.Ops.Terms
/-!
# Ops model, part 4a: nearest-neighbour bond form (`to_nn_bond_Arrays`, `add_to_nn_bond_Arrays`,
`CouplingModel.calc_H_bond`) at the level of formal sums

`H_bond[j]` acts on sites `(j-1, j)`; it is kept as a formal sum of two-site strings `[opL, opR]`.
-/
namespace TenpyModel.Ops

abbrev Bonds (α : Type) := List (Sym α)

/-- `H_bond[j] += x` -/
def Bonds.addAt {α : Type} (b : Bonds α) (j : Nat) (x : Sym α) : Bonds α := b.modify j (· ++ x)

/-- `CouplingTerms.to_nn_bond_Arrays`: every entry must have `j = i + 1`, it goes to bond `j % L`
(`none` = python raises `ValueError('not nearest neighbor')`) -/
def CouplingTerms.toNNBonds {α : Type} (ct : CouplingTerms α) : Option (Bonds α) :=
  ct.toTermListS.foldl (fun ob t =>
    match ob, t.1 with
    | some b, [o1, o2] =>
      if o1.site + 1 = o2.site then some (b.addAt (o2.site.emod ct.L).toNat [([o1.op, o2.op], t.2)])
      else none
    | _, _ => none) (some (List.replicate ct.L []))

/-- `OnsiteTerms.add_to_nn_bond_Arrays(H_bond, sites, finite, distribute=(1/2, 1/2))` -/
def OnsiteTerms.addToNNBonds {α : Type} [Mul α] [One α] [Zero α] [DecidableEq α]
    (ot : OnsiteTerms α) (half : α) (finite : Bool) (b : Bonds α) : Bonds α :=
  let N := ot.L
  (ot.terms.zipIdx).foldl (fun b (d, j) =>
    if d.isEmpty then b else
    let (dL, dR) : α × α :=
      if finite && j = 0 then (0, 1) else if finite && j = N - 1 then (1, 0) else (half, half)
    let b := if dL ≠ 0 then b.addAt j (d.map (fun (op, s) => (["Id", op], dL * s))) else b
    if dR ≠ 0 then b.addAt ((j + 1) % N) (d.map (fun (op, s) => ([op, "Id"], dR * s))) else b) b

/-- a two-site string of bond `j` (sites `j-1, j`) embedded in the finite chain of length `L` -/
def embedBond (L j : Nat) (s : Sym α) : Sym α :=
  s.map (fun p => (idStr (j - 1) ++ p.1 ++ idStr (L - j - 1), p.2))

/-- Σ_j `H_bond[j]` on a finite chain (bond 0 is unused) -/
def Bonds.denote {α : Type} (L : Nat) (b : Bonds α) : Sym α :=
  ((b.zipIdx).drop 1).flatMap (fun (s, j) => embedBond L j s)

end TenpyModel.Ops
