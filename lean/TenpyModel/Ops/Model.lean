import TenpyModel.Ops.Graph
/-!
# Ops model, part 5: the adders of `CouplingModel` (tenpy/models/model.py)

`add_onsite`, `add_coupling`, `add_multi_coupling`, `add_local_term`, `add_onsite_term`,
`add_coupling_term`, `add_multi_coupling_term`, `add_exponentially_decaying_coupling`,
`add_exponentially_decaying_centered_terms` with their `plus_hc` argument and the model flag
`explicit_plus_hc`; `all_onsite_terms`, `all_coupling_terms`; the pipeline of `calc_H_MPO`.

Given (not modelled here, owned by other properties):
* the lattice enumeration (`Lattice.possible_couplings`, `possible_multi_couplings`,
  `mps_lat_idx_fix_u`, C19): the calls carry the enumerated `(i, j, strength)` lists;
* `order_combine_term` / `multi_coupling_term_handle_JW` (C12): `add_multi_coupling` and
  `add_local_term` carry the ordered, Jordan–Wigner-transformed term and its sign.
-/
namespace TenpyModel.Ops

structure SiteSpec where
  njw : List String
  hc : List (String × String)
deriving Repr

def splitNames (s : String) : List String := (s.splitOn " ").filter (fun x => x ≠ "")

/-- `Site.op_needs_JW` -/
def SiteSpec.needsJW (st : SiteSpec) (name : String) : Bool :=
  (splitNames name).foldl (fun acc n => if st.njw.contains n then !acc else acc) false

/-- `Site.get_hc_op_name` (unknown names are kept with a marker; python raises) -/
def hcName (hc : List (String × String)) (name : String) : String :=
  " ".intercalate ((splitNames name).reverse.map (fun n =>
    match hc.find? (fun p => p.1 = n) with
    | some p => p.2
    | none => "?hc(" ++ n ++ ")"))

/-- `Site.multiply_op_names` -/
def multiplyOpNames (names : List String) : String :=
  if names.isEmpty then "Id" else " ".intercalate names

inductive CT (α : Type) where
  | plain (c : CouplingTerms α)
  | multi (m : MultiCouplingTerms α)

structure Model (α : Type) where
  L : Nat
  explicitPlusHc : Bool
  onsite : Dict String (OnsiteTerms α)
  coupling : Dict String (CT α)
  exp : ExpDecayTerms α

namespace Model
variable {α : Type}

def empty (L : Nat) (explicit : Bool) : Model α := ⟨L, explicit, [], [], ExpDecayTerms.empty L⟩

/-- `self.onsite_terms.setdefault(category, OnsiteTerms(N))` then `f` -/
def withOnsite (m : Model α) (cat : String) (f : OnsiteTerms α → OnsiteTerms α) : Model α :=
  { m with onsite := Dict.upsert m.onsite cat (fun o => f (o.getD (OnsiteTerms.empty m.L))) }

/-- two-site adders use `ct.add_coupling_term`: on a `MultiCouplingTerms` category this is
`add_multi_coupling_term(…, [i, j], [op_i, op_j], op_string, switchLR=None → 'middle_i')` -/
def addCouplingTermRaw [Add α] [Zero α] (m : Model α) (cat : String) (s : α) (i j : Int)
    (opi opj str : String) : Model α :=
  { m with coupling := Dict.upsert m.coupling cat (fun o =>
      match o.getD (.plain (CouplingTerms.empty m.L)) with
      | .plain c => .plain (c.add s i j opi opj str)
      | .multi mt => .multi (mt.add s [i, j] [opi, opj] [str] .middleI)) }

/-- multi-site adders convert a plain category first (`new_ct += ct`) -/
def addMultiTermRaw [Add α] (m : Model α) (cat : String) (s : α) (ijkl : List Int)
    (ops strs : List String) (sw : MultiCouplingTerms.Switch) : Model α :=
  { m with coupling := Dict.upsert m.coupling cat (fun o =>
      let mt := match o.getD (.multi (MultiCouplingTerms.empty m.L)) with
        | .plain c => (MultiCouplingTerms.empty m.L).iaddCoupling c
        | .multi mt => mt
      .multi (mt.add s ijkl ops strs sw)) }

/-- the common prologue of all adders:
`if explicit_plus_hc: (plus_hc := False) if plus_hc else (strength /= 2)` -/
def prologue [Mul α] (m : Model α) (half : α) (plusHc : Bool) (s : α) : Bool × α :=
  if m.explicitPlusHc then (if plusHc then (false, s) else (false, s * half)) else (plusHc, s)

/-! ### single-term adders -/

def addOnsiteTerm [Add α] [Zero α] [Mul α] (m : Model α) (half : α) (cj : α → α) (site : SiteSpec)
    (s : α) (i : Nat) (op : String) (cat : Option String) (plusHc : Bool) : Model α :=
  let (ph, s) := m.prologue half plusHc s
  let cat := cat.getD op
  let m := m.withOnsite cat (fun ot => ot.add s i op)
  if ph then m.withOnsite cat (fun ot => ot.add (cj s) i (hcName site.hc op)) else m

def addCouplingTerm [Add α] [Zero α] [Mul α] (m : Model α) (half : α) (cj : α → α)
    (sitei sitej : SiteSpec) (s : α) (i j : Int) (opi opj str : String) (cat : Option String)
    (plusHc : Bool) : Model α :=
  let (ph, s) := m.prologue half plusHc s
  let cat := cat.getD (opi ++ "_i " ++ opj ++ "_j")
  let m := m.addCouplingTermRaw cat s i j opi opj str
  if ph then
    m.addCouplingTermRaw cat (cj s) i j (hcName sitei.hc opi) (hcName sitej.hc opj) (hcName sitei.hc str)
  else m

def multiCategory (ops : List String) : String :=
  " ".intercalate ((ops.zipIdx).map (fun (op, n) => op ++ "_" ++ String.singleton (Char.ofNat (105 + n))))

def addMultiCouplingTerm [Add α] [Mul α] (m : Model α) (half : α) (cj : α → α)
    (sites : List SiteSpec) (s : α) (ijkl : List Int) (ops strs : List String)
    (cat : Option String) (plusHc : Bool) (sw : MultiCouplingTerms.Switch) : Model α :=
  let (ph, s) := m.prologue half plusHc s
  let cat := cat.getD (multiCategory ops)
  let m := m.addMultiTermRaw cat s ijkl ops strs sw
  if ph then
    let hcOps := (sites.zip ops).map (fun (st, o) => hcName st.hc o)
    let hcStrs := (sites.zip strs).map (fun (st, o) => hcName st.hc o)
    m.addMultiTermRaw cat (cj s) ijkl hcOps hcStrs sw
  else m

/-! ### adders summing over the lattice -/

/-- `add_onsite(strength, u, opname, category, plus_hc)`; `vals` = `(i, strength[i_lat])` over
`mps_lat_idx_fix_u(u)` after tiling -/
def addOnsite [Add α] [Zero α] [Mul α] [DecidableEq α] (m : Model α) (half : α) (cj : α → α)
    (site : SiteSpec) (vals : List (Nat × α)) (op : String) (cat : Option String) (plusHc : Bool) :
    Model α :=
  if vals.all (fun p => p.2 = 0) then m else
  let ph := if m.explicitPlusHc then false else plusHc
  let vals := if m.explicitPlusHc && !plusHc then vals.map (fun p => (p.1, p.2 * half)) else vals
  let cat := cat.getD op
  let m := m.withOnsite cat (fun ot => vals.foldl (fun ot p => ot.add p.2 p.1 op) ot)
  if ph then
    -- recursive call with `np.conj(strength)`, `hc_op`, same category, `plus_hc=False`
    let hcOp := hcName site.hc op
    m.withOnsite cat (fun ot => vals.foldl (fun ot p => ot.add (cj p.2) p.1 hcOp) ot)
  else m

/-- the body of `add_coupling` after the enumeration: op-string decision, `i > j` swap,
Jordan–Wigner factor on the left operator -/
def addCouplingCore [Add α] [Zero α] (m : Model α) (cat : String)
    (pairs : List (Int × Int × α)) (op1 op2 str : String) : Model α :=
  let strOnFirst := str = "JW"
  pairs.foldl (fun m (i, j, s) =>
    if i < j then
      let o1 := if strOnFirst && str ≠ "Id" then multiplyOpNames [op1, str] else op1
      m.addCouplingTermRaw cat s i j o1 op2 str
    else
      let o1 := if strOnFirst && str ≠ "Id" then multiplyOpNames [str, op2] else op2
      m.addCouplingTermRaw cat s j i o1 op1 str) m

/-- `op_string=None`: `'JW'` if both operators need a string, `'Id'` if none, else ValueError -/
def autoString (s1 s2 : SiteSpec) (op1 op2 : String) : Option String :=
  match s1.needsJW op1, s2.needsJW op2 with
  | true, true => some "JW"
  | false, false => some "Id"
  | _, _ => none

/-- `add_coupling(strength, u1, op1, u2, op2, dx, op_string, category, plus_hc)`.
`pairs` = `possible_couplings(u1, u2, dx, strength)`, `pairsHc` =
`possible_couplings(u2, u1, -dx, conj(strength))` (used only for `plus_hc`). -/
def addCoupling [Add α] [Zero α] [Mul α] [DecidableEq α] (m : Model α) (half : α)
    (site1 site2 : SiteSpec) (allZero : Bool) (pairs pairsHc : List (Int × Int × α))
    (op1 op2 : String) (opString : Option String) (cat : Option String) (plusHc : Bool) :
    Option (Model α) :=
  if allZero then some m else
  match (match opString with | some s => some s | none => autoString site1 site2 op1 op2) with
  | none => none
  | some str =>
    let ph := if m.explicitPlusHc then false else plusHc
    let pairs := if m.explicitPlusHc && !plusHc then pairs.map (fun (i, j, s) => (i, j, s * half)) else pairs
    let cat := cat.getD (op1 ++ "_i " ++ op2 ++ "_j")
    let m := m.addCouplingCore cat pairs op1 op2 str
    if ph then
      -- `add_coupling(conj(strength), u2, hc_op2, u1, hc_op1, -dx, hc_opstr, category, False)`
      some (m.addCouplingCore cat pairsHc (hcName site2.hc op2) (hcName site1.hc op1) (hcName site2.hc str))
    else some m

/-- `add_multi_coupling` / `add_local_term` after enumeration, ordering and Jordan–Wigner
handling: `terms` = `(strength_vals[n], sign, ijkl, ops, op_strings)`; for `plus_hc` the second
list is the same data of the recursive call (strengths already conjugated by the caller of
`possible_multi_couplings`). -/
def addMultiCoupling [Add α] [Mul α] [Zero α] (m : Model α) (half : α) (ofSign : Int → α)
    (terms termsHc : List (α × Int × List Int × List String × List String))
    (cat : String) (plusHc : Bool) (sw : MultiCouplingTerms.Switch) : Model α :=
  let ph := if m.explicitPlusHc then false else plusHc
  let scale (s : α) : α := if m.explicitPlusHc && !plusHc then s * half else s
  let go (m : Model α) (ts : List (α × Int × List Int × List String × List String)) : Model α :=
    ts.foldl (fun m (s, sign, ijkl, ops, strs) => m.addMultiTermRaw cat (s * ofSign sign) ijkl ops strs sw) m
  let m := go m (terms.map (fun (s, r) => (scale s, r)))
  if ph then go m termsHc else m

/-- `add_exponentially_decaying_coupling` (the operator string already decided: python uses
`'JW'` and `op_i ← op_i JW` when both operators need a string) -/
def addExpDecay [Mul α] (m : Model α) (half : α) (cj : α → α) (sitei sitej : SiteSpec)
    (s : α) (lam : List α) (opi opj : String) (subsites subsitesStart : List Nat)
    (opString : Option String) (plusHc : Bool) : Option (Model α) :=
  let (ph, s) := m.prologue half plusHc s
  let dec : Option (String × String) := match opString with
    | some st => some (st, opi)
    | none =>
      match sitei.needsJW opi, sitej.needsJW opj with
      | true, true => some ("JW", multiplyOpNames [opi, "JW"])
      | false, false => some ("Id", opi)
      | _, _ => none
  match dec with
  | none => none
  | some (str, opi) =>
    let e := { m.exp with terms := m.exp.terms ++ [⟨s, lam, opi, opj, subsites, subsitesStart, str⟩] }
    let e := if ph then
        { e with terms := e.terms ++
            [⟨cj s, lam.map cj, hcName sitei.hc opi, hcName sitej.hc opj, subsites, subsitesStart,
              hcName sitej.hc str⟩] }
      else e
    some { m with exp := e }

/-- `add_exponentially_decaying_centered_terms` (bosonic operators; `op_string=None` → `'Id'`) -/
def addCentered [Mul α] (m : Model α) (half : α) (cj : α → α) (sitei sitej : SiteSpec)
    (s : α) (lam : List α) (opi opj : String) (i : Nat) (subsites : List Nat)
    (opString : Option String) (plusHc : Bool) : Model α :=
  let (ph, s) := m.prologue half plusHc s
  let str := opString.getD "Id"
  let e := { m.exp with centered := m.exp.centered ++ [⟨s, lam, opi, opj, i, subsites, str⟩] }
  let e := if ph then
      { e with centered := e.centered ++
          [⟨cj s, lam.map cj, hcName sitei.hc opi, hcName sitej.hc opj, i, subsites, str⟩] }
    else e
  { m with exp := e }

/-! ### `all_onsite_terms`, `all_coupling_terms`, `calc_H_MPO` -/

def allOnsiteTerms [Add α] [Zero α] (m : Model α) : OnsiteTerms α :=
  m.onsite.foldl (fun acc p => acc.iadd p.2) (OnsiteTerms.empty m.L)

def allCouplingTerms [Add α] [Zero α] (m : Model α) : CT α :=
  if m.coupling.any (fun p => match p.2 with | .multi _ => true | .plain _ => false) then
    .multi (m.coupling.foldl (fun acc p =>
      match p.2 with
      | .plain c => acc.iaddCoupling c
      | .multi mt => acc.iaddMulti mt) (MultiCouplingTerms.empty m.L))
  else
    .plain (m.coupling.foldl (fun acc p =>
      match p.2 with
      | .plain c => acc.iadd c
      | .multi _ => acc) (CouplingTerms.empty m.L))

/-- the three containers handed to `MPOGraph.from_terms` by `calc_H_MPO` -/
def hTerms [Add α] [Zero α] [DecidableEq α] (m : Model α) : List (AnyTerms α) :=
  [.onsite m.allOnsiteTerms.removeZeros,
   (match m.allCouplingTerms with
    | .plain c => .coupling c.removeZeros
    | .multi mt => .multi mt.removeZeros),
   .expdecay m.exp]

def calcHGraph [Add α] [Zero α] [One α] [Inhabited α] [DecidableEq α] (m : Model α) (infinite : Bool) :
    Graph α :=
  Graph.fromTerms m.L infinite m.hTerms

end Model
end TenpyModel.Ops
