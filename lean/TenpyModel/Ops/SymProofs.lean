import Mathlib.Algebra.Ring.Defs
import Mathlib.Algebra.BigOperators.Group.List.Basic
import Mathlib.Tactic.Ring
import TenpyModel.Ops.Sym
/-!
# Lemmas on formal sums (`coeff`), used by the C10 / C11 property theorems
-/
namespace TenpyModel.Ops

section monoid
variable {α : Type} [AddCommMonoid α]

@[simp] theorem coeff_nil (t : OpStr) : coeff ([] : Sym α) t = 0 := rfl

theorem coeff_cons (u : OpStr) (c : α) (s : Sym α) (t : OpStr) :
    coeff ((u, c) :: s) t = if u = t then c + coeff s t else coeff s t := rfl

theorem coeff_append (a b : Sym α) (t : OpStr) : coeff (a ++ b) t = coeff a t + coeff b t := by
  induction a with
  | nil => simp
  | cons p a ih =>
    obtain ⟨u, c⟩ := p
    simp only [List.cons_append, coeff_cons, ih]
    split
    · rw [add_assoc]
    · rfl

theorem coeff_perm {a b : Sym α} (h : a.Perm b) (t : OpStr) : coeff a t = coeff b t := by
  induction h with
  | nil => rfl
  | cons x _ ih => obtain ⟨u, c⟩ := x; simp only [coeff_cons, ih]
  | swap x y l =>
    obtain ⟨u, c⟩ := x; obtain ⟨v, d⟩ := y
    simp only [coeff_cons]
    split <;> split <;> first | rfl | (rw [← add_assoc, ← add_assoc, add_comm d c])
  | trans _ _ ih1 ih2 => rw [ih1, ih2]

theorem coeff_flatten (l : List (Sym α)) (t : OpStr) :
    coeff l.flatten t = (l.map (fun s => coeff s t)).sum := by
  induction l with
  | nil => rfl
  | cons s l ih => simp [coeff_append, ih]

theorem coeff_flatMap {β : Type} (l : List β) (f : β → Sym α) (t : OpStr) :
    coeff (l.flatMap f) t = (l.map (fun x => coeff (f x) t)).sum := by
  rw [List.flatMap_def, coeff_flatten, List.map_map]; rfl

theorem coeff_singleton (u : OpStr) (c : α) (t : OpStr) :
    coeff [(u, c)] t = if u = t then c else 0 := by
  simp [coeff_cons]

/-- `Sym.Equiv` is an equivalence relation compatible with `++` -/
theorem Sym.Equiv.refl (a : Sym α) : Sym.Equiv a a := fun _ => rfl
theorem Sym.Equiv.symm {a b : Sym α} (h : Sym.Equiv a b) : Sym.Equiv b a := fun t => (h t).symm
theorem Sym.Equiv.trans {a b c : Sym α} (h : Sym.Equiv a b) (h' : Sym.Equiv b c) : Sym.Equiv a c :=
  fun t => (h t).trans (h' t)
theorem Sym.Equiv.append {a b c d : Sym α} (h : Sym.Equiv a b) (h' : Sym.Equiv c d) :
    Sym.Equiv (a ++ c) (b ++ d) := fun t => by rw [coeff_append, coeff_append, h t, h' t]
theorem Sym.Equiv.of_perm {a b : Sym α} (h : a.Perm b) : Sym.Equiv a b := fun t => coeff_perm h t
theorem Sym.Equiv.append_comm (a b : Sym α) : Sym.Equiv (a ++ b) (b ++ a) :=
  Sym.Equiv.of_perm List.perm_append_comm

/-- strings are mapped injectively, coefficients additively -/
theorem coeff_map_inj (f : OpStr → OpStr) (hf : Function.Injective f) (g : α →+ α) (s : Sym α)
    (t : OpStr) : coeff (s.map (fun p => (f p.1, g p.2))) (f t) = g (coeff s t) := by
  induction s with
  | nil => simp
  | cons p s ih =>
    obtain ⟨u, c⟩ := p
    simp only [List.map_cons, coeff_cons, ih, hf.eq_iff]
    split <;> simp

/-- a string outside the image of `f` has coefficient 0 -/
theorem coeff_map_not_range (f : OpStr → OpStr) (g : α → α) (s : Sym α) (t : OpStr)
    (ht : ∀ u, f u ≠ t) : coeff (s.map (fun p => (f p.1, g p.2))) t = 0 := by
  induction s with
  | nil => rfl
  | cons p s ih => simp [coeff_cons, ih, ht]

end monoid

section semiring
variable {α : Type} [Semiring α]

theorem coeff_smul (c : α) (s : Sym α) (t : OpStr) : coeff (Sym.smul c s) t = c * coeff s t := by
  induction s with
  | nil => simp [Sym.smul]
  | cons p s ih =>
    obtain ⟨u, d⟩ := p
    simp only [Sym.smul, List.map_cons, coeff_cons] at ih ⊢
    rw [ih]
    split
    · rw [mul_add]
    · rfl

theorem coeff_consOp_cons (op : String) (c : α) (s : Sym α) (op' : String) (t : OpStr) :
    coeff (Sym.consOp op c s) (op' :: t) = if op = op' then c * coeff s t else 0 := by
  induction s with
  | nil => simp [Sym.consOp]
  | cons p s ih =>
    obtain ⟨u, d⟩ := p
    simp only [Sym.consOp, List.map_cons, coeff_cons, List.cons.injEq] at ih ⊢
    rw [ih]
    by_cases h : op = op'
    · simp only [h, true_and, if_true]
      split
      · rw [mul_add]
      · rfl
    · simp [h]

theorem coeff_consOp_nil (op : String) (c : α) (s : Sym α) :
    coeff (Sym.consOp op c s) [] = 0 := by
  induction s with
  | nil => rfl
  | cons p s ih =>
    simp only [Sym.consOp, List.map_cons, coeff_cons] at ih ⊢
    simp [ih]

end semiring
end TenpyModel.Ops
