/-!
# Ops model, part 1: formal sums of operator strings (import-free, coefficient-polymorphic)

Shared by C10 ("all representations of a model Hamiltonian are the same operator") and
C11 ("MPO algebra equals operator algebra").

* `OpStr`  = one operator *name* per site of a finite chain, site = position in the list
  (the name `"Id"` is an ordinary name here; dropping it is part of `canon` only).
* `Sym α`  = formal sum `Σ c · (name₀ ⊗ name₁ ⊗ …)`, a list of `(string, coefficient)`.
  The *meaning* of a formal sum is its coefficient function `coeff`; two formal sums are
  the same sum iff `coeff` agrees on every string (`Sym.Equiv`).  All theorems are stated
  through `coeff`, so they are insensitive to the order and to the splitting of summands.
* `SitedStr`/`canon` = the canonical, decidable normal form used on the wire: `(site, name)`
  pairs sorted by site, `"Id"` dropped, equal strings merged, zero coefficients dropped.
* `GQ` = Gaussian rationals `ℚ[i]`, the coefficient type of the executable driver.

Operator names are opaque: the formal level knows no linear relation between `"N"` and
`"Id","JW"`.  Equality of formal sums therefore *implies* equality of operators (for every
assignment of matrices to names, see `Ops/Dense.lean`), not conversely.
-/
namespace TenpyModel.Ops

abbrev OpStr := List String
abbrev Sym (α : Type) := List (OpStr × α)

/-- coefficient of the string `t` in the formal sum `s` -/
def coeff {α : Type} [Add α] [Zero α] (s : Sym α) (t : OpStr) : α :=
  s.foldr (fun p acc => if p.1 = t then p.2 + acc else acc) 0

/-- two formal sums denote the same sum -/
def Sym.Equiv {α : Type} [Add α] [Zero α] (a b : Sym α) : Prop := ∀ t, coeff a t = coeff b t

/-- scalar multiple -/
def Sym.smul {α : Type} [Mul α] (c : α) (s : Sym α) : Sym α := s.map (fun p => (p.1, c * p.2))

/-- put the local operator `c · op` on a new first site -/
def Sym.consOp {α : Type} [Mul α] (op : String) (c : α) (s : Sym α) : Sym α :=
  s.map (fun p => (op :: p.1, c * p.2))

/-- Hermitian conjugate: name-wise `hc`, coefficient-wise `cj` (strings are tensor products of
single-site operators, Jordan–Wigner strings are explicit names) -/
def Sym.dagger {α : Type} (hc : String → String) (cj : α → α) (s : Sym α) : Sym α :=
  s.map (fun p => (p.1.map hc, cj p.2))

/-- sum of a list of formal sums -/
def Sym.sum {α : Type} (l : List (Sym α)) : Sym α := l.flatten

/-- the string acting with `Id` on `n` sites -/
def idStr (n : Nat) : OpStr := List.replicate n "Id"

/-- the string `Id^i ⊗ op ⊗ Id^(L-i-1)` (for `i < L`) -/
def onsiteStr (L i : Nat) (op : String) : OpStr := idStr i ++ op :: idStr (L - i - 1)

/-- the string `Id^i ⊗ opᵢ ⊗ str^(j-i-1) ⊗ opⱼ ⊗ Id^(L-j-1)` (for `i < j < L`) -/
def couplingStr (L i j : Nat) (opi str opj : String) : OpStr :=
  idStr i ++ opi :: (List.replicate (j - i - 1) str ++ opj :: idStr (L - j - 1))

/-! ## canonical form (wire format, decidable equality of sums) -/

abbrev SitedStr := List (Int × String)

/-- positional string → `(site, name)` list from site `i0`, identities dropped -/
def toSited (i0 : Int) : OpStr → SitedStr
  | [] => []
  | op :: rest => if op = "Id" then toSited (i0 + 1) rest else (i0, op) :: toSited (i0 + 1) rest

def sitedLt : SitedStr → SitedStr → Bool
  | [], [] => false
  | [], _ :: _ => true
  | _ :: _, [] => false
  | (i, a) :: r, (j, b) :: s =>
    if i < j then true else if j < i then false
    else if a < b then true else if b < a then false else sitedLt r s

/-- insert `(t, c)` into a list sorted by `sitedLt`, merging equal strings -/
def insertMerge {α : Type} [Add α] (t : SitedStr) (c : α) : List (SitedStr × α) → List (SitedStr × α)
  | [] => [(t, c)]
  | (u, d) :: rest =>
    if t = u then (u, d + c) :: rest
    else if sitedLt t u then (t, c) :: (u, d) :: rest
    else (u, d) :: insertMerge t c rest

/-- canonical form of a formal sum given with explicit sites -/
def canonSited {α : Type} [Add α] [Zero α] [DecidableEq α] (s : List (SitedStr × α)) :
    List (SitedStr × α) :=
  (s.foldl (fun acc p => insertMerge p.1 p.2 acc) []).filter (fun p => p.2 ≠ 0)

/-- sort a sited string by site (stable insertion; sites of a string are distinct in all uses) -/
def sortSited : SitedStr → SitedStr
  | [] => []
  | p :: rest =>
    let r := sortSited rest
    let rec ins (p : Int × String) : SitedStr → SitedStr
      | [] => [p]
      | q :: qs => if p.1 < q.1 then p :: q :: qs else q :: ins p qs
    ins p r

/-- canonical form of a positional formal sum whose first position is site `i0` -/
def canon {α : Type} [Add α] [Zero α] [DecidableEq α] (i0 : Int) (s : Sym α) : List (SitedStr × α) :=
  canonSited (s.map (fun p => (toSited i0 p.1, p.2)))

/-! ## Gaussian rationals -/

structure GQ where
  re : Rat
  im : Rat
deriving DecidableEq, Repr

namespace GQ
instance : Zero GQ := ⟨⟨0, 0⟩⟩
instance : One GQ := ⟨⟨1, 0⟩⟩
instance : Add GQ := ⟨fun a b => ⟨a.re + b.re, a.im + b.im⟩⟩
instance : Neg GQ := ⟨fun a => ⟨-a.re, -a.im⟩⟩
instance : Sub GQ := ⟨fun a b => ⟨a.re - b.re, a.im - b.im⟩⟩
instance : Mul GQ := ⟨fun a b => ⟨a.re * b.re - a.im * b.im, a.re * b.im + a.im * b.re⟩⟩
def conj (a : GQ) : GQ := ⟨a.re, -a.im⟩
def ofRat (r : Rat) : GQ := ⟨r, 0⟩
def half : GQ := ⟨1 / 2, 0⟩
/-- `|a|²` -/
def normSq (a : GQ) : Rat := a.re * a.re + a.im * a.im
def isZero (a : GQ) : Bool := a.re == 0 && a.im == 0
end GQ

end TenpyModel.Ops
