import TenpyModel.Ops.Graph
/-!
# Ops model, part 3b: closed form of the MPO graph of onsite and two-site coupling terms (finite chain)

`specLayer ot ct k` lists the edges that `MPOGraph.from_terms((ot, ct), …)` ends up with on site `k`:

* `IdL → IdR` with `(op, strength)` for every onsite entry of site `k`;
* per *block* `(i, op_i, op_str) ↦ {j: {op_j: strength}}` of the coupling dictionary, with the state
  `label = ('left', i, op_i, op_str)` shared by all couplings of the block:
  - `IdL → label` with `(op_i, 1)` on site `i`,
  - `label → label` with `(op_str, 1)` on the sites `i < k < max j` (inserted once, however many `j` use it),
  - `label → IdR` with `(op_j, strength)` on site `j` for every entry of the block;
* `IdL → IdL` and `IdR → IdR` with `('Id', 1)` (`add_missing_IdL_IdR`).

The driver compares this closed form with the imperative model (`Graph.fromTerms`) as multisets of
edges on every case; the path theorem `C10_graph_paths` is proved for the closed form.
-/
namespace TenpyModel.Ops

structure Block (α : Type) where
  i : Int
  opi : String
  str : String
  d2 : Dict Int (Dict String α)

def CouplingTerms.blocks {α : Type} (ct : CouplingTerms α) : List (Block α) :=
  ct.terms.flatMap (fun p => p.2.map (fun q => ⟨p.1, q.1.1, q.1.2, q.2⟩))

namespace Block
variable {α : Type}

def label (b : Block α) : Key := leftLabel b.i b.opi b.str

/-- one past the last site carrying the string of the block: `max j` -/
def jmax (b : Block α) : Int := (Dict.keys b.d2).foldl max (b.i + 1)

def edgesAt [One α] (b : Block α) (k : Nat) : List (Edge Key α) :=
  (if b.i = (k : Int) then [⟨Key.IdL, b.label, b.opi, 1⟩] else []) ++
  ((if b.i < (k : Int) ∧ (k : Int) < b.jmax then [⟨b.label, b.label, b.str, 1⟩] else []) ++
  b.d2.flatMap (fun p => if p.1 = (k : Int) then p.2.map (fun q => ⟨b.label, Key.IdR, q.1, q.2⟩) else []))

end Block

def specLayer {α : Type} [One α] (ot : OnsiteTerms α) (ct : CouplingTerms α) (k : Nat) : List (Edge Key α) :=
  (ot.terms.getD k []).map (fun q => ⟨Key.IdL, Key.IdR, q.1, q.2⟩) ++
  (ct.blocks.flatMap (fun b => b.edgesAt k) ++
  [⟨Key.IdL, Key.IdL, "Id", 1⟩, ⟨Key.IdR, Key.IdR, "Id", 1⟩])

/-- layers `k, k+1, …, k+n-1` -/
def specFrom {α : Type} [One α] (ot : OnsiteTerms α) (ct : CouplingTerms α) : Nat → Nat → List (List (Edge Key α))
  | _, 0 => []
  | k, n + 1 => specLayer ot ct k :: specFrom ot ct (k + 1) n

def specLayers {α : Type} [One α] (ot : OnsiteTerms α) (ct : CouplingTerms α) (L : Nat) :
    List (List (Edge Key α)) := specFrom ot ct 0 L

end TenpyModel.Ops
