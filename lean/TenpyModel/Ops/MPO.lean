import TenpyModel.Ops.Graph
/-!
# Ops model, part 4: `MPO` and its algebra (tenpy/networks/mpo.py)

An MPO is a list of operator-valued matrices `W_i`.  An entry `W_i[l, r]` is a formal local
operator `Σ c · name`; it is stored as edges `(l, r, name, c)` of the same weighted automaton as
the MPO graph, with virtual indices as keys.  The denotation is `pathsFrom` from `IdL[0]` to
`IdR[L]` (finite chain, or a window of an infinite one).

With the matrix units `E_ab` as names every local operator has a unique expansion, the formal sum
*is* the dense operator, and the model can be compared exactly with the tensors of the
implementation.

* `add`            `MPO.__add__` with `_get_block_projections` (block grid, dropped empty rows/columns)
* `dagger`         `MPO.dagger`
* `plusIdentity`   `MPO.plus_identity(alpha, beta, sites)` via `_partition_W`
* `prefactor`      `MPO.prefactor(i, ops)` for an orthogonal local basis
* `overlapTM`      `MPO._overlap_no_hc` (transfer-matrix contraction of two MPOs), `frob` its specification
* `makeUI`         `MPO.make_U_I(dt)`
-/
namespace TenpyModel.Ops

structure MPOM (α : Type) where
  L : Nat
  layers : List (List (Edge Nat α))
  /-- bond dimensions, `L + 1` entries -/
  chi : List Nat
  idL : List (Option Nat)
  idR : List (Option Nat)

namespace MPOM
variable {α : Type}

/-- `W_i[l, r]` as a local formal operator -/
def entry (m : MPOM α) (i l r : Nat) : List (String × α) :=
  ((m.layers.getD i []).filter (fun e => e.kL = l && e.kR = r)).map (fun e => (e.op, e.c))

/-- operator denoted by a finite MPO (also: the part of an infinite MPO inside its unit cell) -/
def denote [Mul α] [One α] (m : MPOM α) : Sym α :=
  match m.idL.head?, m.idR.getLast? with
  | some (some l), some (some r) => pathsFrom r m.layers l
  | _, _ => []

/-- an infinite MPO on a window of `n` unit cells: `IdL` on the left, `IdR` on the right -/
def denoteWindow [Mul α] [One α] (m : MPOM α) (n : Nat) : Sym α :=
  match m.idL.head?, m.idR.getLast? with
  | some (some l), some (some r) => pathsFrom r (List.replicate n m.layers).flatten l
  | _, _ => []

/-! ### dagger -/

/-- `MPO.dagger`: every entry is conjugated and transposed in the physical legs -/
def dagger (hc : String → String) (cj : α → α) (m : MPOM α) : MPOM α :=
  { m with layers := m.layers.map (fun l => l.map (fun e => { e with op := hc e.op, c := cj e.c })) }

/-! ### addition -/

/-- `_get_block_projections(i)`: which of the three blocks (IdL, other, IdR) exist on bond `i` and the
list of "other" indices in increasing order -/
structure Blocks where
  idL : Option Nat
  idR : Option Nat
  other : List Nat
deriving Repr

def blocks (m : MPOM α) (b : Nat) : Blocks :=
  let n := m.chi.getD b 0
  let l := (m.idL.getD b none)
  let r := (m.idR.getD b none)
  ⟨l, r, (List.range n).filter (fun k => some k ≠ l && some k ≠ r)⟩

/-- `MPO.__add__`.  Per site the grid
```
[[s00|o00, s01, o01, s02+o02],
 [  -    , s11,  - , s12    ],
 [  -    ,  - , o11, o12    ],
 [  -    ,  - ,  - , s22|o22]]
```
of blocks (`x|y` = `x` if that block exists else `y`); rows and columns in which every block is
`None` (non-existent, not merely zero) are dropped; `IdL[i+1] = 0` iff the `[0,0]` block exists,
`IdR[i] = -1` iff the `[3,3]` block exists; `IdL[0] = 0`, `IdR[L] = -1`. -/
def add [DecidableEq α] (a b : MPOM α) : MPOM α :=
  let L := a.L
  -- existence of the row/column groups on every bond, as computed from `w_is_None` on the two
  -- neighbouring sites: a row group of site i and the column group of site i-1 describe the same bond
  let rowExists (i : Nat) : Bool × Bool × Bool × Bool :=
    let sa := a.blocks i; let sa' := a.blocks (i + 1)
    let sb := b.blocks i; let sb' := b.blocks (i + 1)
    let ex (x : Option Nat) := x.isSome
    let nz (l : List Nat) := !l.isEmpty
    -- a block (of `s`) is not None iff its left and right projections exist
    let s00 := ex sa.idL && ex sa'.idL; let o00 := ex sb.idL && ex sb'.idL
    let s01 := ex sa.idL && nz sa'.other; let o01 := ex sb.idL && nz sb'.other
    let s02 := ex sa.idL && ex sa'.idR; let o02 := ex sb.idL && ex sb'.idR
    let s11 := nz sa.other && nz sa'.other; let s12 := nz sa.other && ex sa'.idR
    let o11 := nz sb.other && nz sb'.other; let o12 := nz sb.other && ex sb'.idR
    let s22 := ex sa.idR && ex sa'.idR; let o22 := ex sb.idR && ex sb'.idR
    (s00 || o00 || s01 || o01 || s02 || o02, s11 || s12, o11 || o12, s22 || o22)
  let colExists (i : Nat) : Bool × Bool × Bool × Bool :=
    let sa := a.blocks i; let sa' := a.blocks (i + 1)
    let sb := b.blocks i; let sb' := b.blocks (i + 1)
    let ex (x : Option Nat) := x.isSome
    let nz (l : List Nat) := !l.isEmpty
    let s00 := ex sa.idL && ex sa'.idL; let o00 := ex sb.idL && ex sb'.idL
    let s01 := ex sa.idL && nz sa'.other; let o01 := ex sb.idL && nz sb'.other
    let s02 := ex sa.idL && ex sa'.idR; let o02 := ex sb.idL && ex sb'.idR
    let s11 := nz sa.other && nz sa'.other; let s12 := nz sa.other && ex sa'.idR
    let o11 := nz sb.other && nz sb'.other; let o12 := nz sb.other && ex sb'.idR
    let s22 := ex sa.idR && ex sa'.idR; let o22 := ex sb.idR && ex sb'.idR
    (s00 || o00, s01 || s11, o01 || o11, s02 || o02 || s12 || o12 || s22 || o22)
  -- index maps of the left bond (rows of site i) and right bond (columns of site i)
  let mapIdx (groups : Bool × Bool × Bool × Bool) (ba bb : Blocks) :
      (Nat → Option Nat) × (Nat → Option Nat) × Nat :=
    let (gL, gA, gB, gR) := groups
    let nA := if gA then ba.other.length else 0
    let nB := if gB then bb.other.length else 0
    let nR := (if gL then 1 else 0) + nA + nB
    let fa (k : Nat) : Option Nat :=
      if some k = ba.idL then (if gL then some 0 else none)
      else if some k = ba.idR then (if gR then some nR else none)
      else if gA then (ba.other.idxOf? k).map (fun p => (if gL then 1 else 0) + p) else none
    let fb (k : Nat) : Option Nat :=
      if some k = bb.idL then (if gL then some 0 else none)
      else if some k = bb.idR then (if gR then some nR else none)
      else if gB then (bb.other.idxOf? k).map (fun p => (if gL then 1 else 0) + nA + p) else none
    (fa, fb, nR + (if gR then 1 else 0))
  let sites := List.range L
  let layers := sites.map (fun i =>
    let (ra, rb, _) := mapIdx (rowExists i) (a.blocks i) (b.blocks i)
    let (ca, cb, _) := mapIdx (colExists i) (a.blocks (i + 1)) (b.blocks (i + 1))
    let sa := a.blocks i; let sa' := a.blocks (i + 1)
    let sb := b.blocks i; let sb' := b.blocks (i + 1)
    let s00 := sa.idL.isSome && sa'.idL.isSome
    let s22 := sa.idR.isSome && sa'.idR.isSome
    -- which block an edge of `a` / `b` lies in, and whether the grid contains that block
    let keepA (e : Edge Nat α) : Bool :=
      let l := if some e.kL = sa.idL then 0 else if some e.kL = sa.idR then 2 else 1
      let r := if some e.kR = sa'.idL then 0 else if some e.kR = sa'.idR then 2 else 1
      (l, r) = (0, 0) || (l, r) = (0, 1) || (l, r) = (0, 2) || (l, r) = (1, 1) || (l, r) = (1, 2)
        || (l, r) = (2, 2)
    let keepB (e : Edge Nat α) : Bool :=
      let l := if some e.kL = sb.idL then 0 else if some e.kL = sb.idR then 2 else 1
      let r := if some e.kR = sb'.idL then 0 else if some e.kR = sb'.idR then 2 else 1
      ((l, r) = (0, 0) && !s00) || (l, r) = (0, 1) || (l, r) = (0, 2) || (l, r) = (1, 1)
        || (l, r) = (1, 2) || ((l, r) = (2, 2) && !s22)
    let ea := ((a.layers.getD i []).filter keepA).filterMap (fun e =>
      match ra e.kL, ca e.kR with
      | some l, some r => some (⟨l, r, e.op, e.c⟩ : Edge Nat α)
      | _, _ => none)
    let eb := ((b.layers.getD i []).filter keepB).filterMap (fun e =>
      match rb e.kL, cb e.kR with
      | some l, some r => some (⟨l, r, e.op, e.c⟩ : Edge Nat α)
      | _, _ => none)
    ea ++ eb)
  let chi := (List.range (L + 1)).map (fun bnd =>
    if bnd < L then (mapIdx (rowExists bnd) (a.blocks bnd) (b.blocks bnd)).2.2
    else (mapIdx (colExists (L - 1)) (a.blocks L) (b.blocks L)).2.2)
  let idL := (List.range (L + 1)).map (fun bnd =>
    if bnd = 0 then some 0
    else
      let sa := a.blocks (bnd - 1); let sa' := a.blocks bnd
      let sb := b.blocks (bnd - 1); let sb' := b.blocks bnd
      if (sa.idL.isSome && sa'.idL.isSome) || (sb.idL.isSome && sb'.idL.isSome) then some 0 else none)
  let idR := (List.range (L + 1)).map (fun bnd =>
    if bnd = L then some (chi.getD bnd 1 - 1)
    else
      let sa := a.blocks bnd; let sa' := a.blocks (bnd + 1)
      let sb := b.blocks bnd; let sb' := b.blocks (bnd + 1)
      if (sa.idR.isSome && sa'.idR.isSome) || (sb.idR.isSome && sb'.idR.isSome)
      then some (chi.getD bnd 1 - 1) else none)
  ⟨L, layers, chi, idL, idR⟩

/-! ### plus_identity -/

/-- `MPO.plus_identity(alpha, beta, sites)` for a contiguous `sites` list; `tb` = `beta ** (1/N)`,
`ta` = `alpha / N`, `idName` the name(s) of the identity as a local formal operator.
Output bonds are laid out `[IdL, other…, IdR]` (`_partition_W`). -/
def plusIdentity [Mul α] [Add α] [One α] [Zero α] (m : MPOM α) (beta tb ta : α) (sites : List Nat)
    (idOp : Nat → List (String × α)) : MPOM α :=
  let N := sites.length
  let pow (x : α) (n : Nat) : α := (List.replicate n x).foldl (· * ·) 1
  -- `counter` after processing site k
  let counterAfter (k : Nat) : Nat := (sites.filter (· ≤ k)).length
  let layers := (List.range m.L).map (fun k =>
    let bl := m.blocks k
    let br := m.blocks (k + 1)
    let inS := sites.contains k
    let cAfter := counterAfter k
    let cBefore := if inS then cAfter - 1 else cAfter
    let bb : α := if inS then tb else 1
    let aa : α := if inS then ta else 0
    let g : α := if inS then (if cBefore ≠ 0 then 1 else beta) else 1
    let dd : α := if inS then (if cBefore ≠ N - 1 then 1 else beta) else 1
    let DR := m.chi.getD (k + 1) 0
    let DL := m.chi.getD k 0
    let idEdges (l r : Nat) (c : α) : List (Edge Nat α) := (idOp k).map (fun p => ⟨l, r, p.1, c * p.2⟩)
    let scaled (l r : Nat) (c : α) (src : List (String × α)) : List (Edge Nat α) :=
      src.map (fun p => ⟨l, r, p.1, c * p.2⟩)
    let idLl := bl.idL.getD 0; let idRl := bl.idR.getD 0
    let idLr := br.idL.getD 0; let idRr := br.idR.getD 0
    let cExp := if inS then cAfter else cAfter  -- `b ** counter` uses the counter *after* the increment
    -- first row
    let row0 := idEdges 0 0 dd
      ++ ((br.other.zipIdx).flatMap (fun (r, p) => scaled 0 (p + 1) (pow bb cExp) (m.entry k idLl r)))
      ++ scaled 0 (DR - 1) (pow bb N) (m.entry k idLl idRr) ++ idEdges 0 (DR - 1) aa
    -- middle rows
    let mid := (bl.other.zipIdx).flatMap (fun (l, q) =>
      ((br.other.zipIdx).flatMap (fun (r, p) => scaled (q + 1) (p + 1) bb (m.entry k l r)))
      ++ scaled (q + 1) (DR - 1) (pow bb (N - cAfter + 1)) (m.entry k l idRr))
    let last := idEdges (DL - 1) (DR - 1) g
    let _ := idRl; let _ := idLr
    row0 ++ mid ++ last)
  -- `MPO.from_grids(..., bc='finite', legs=None)`: the first grid is cut down to its `IdL` row, the last
  -- one to its `IdR` column
  let chi0 := m.chi.getD 0 1
  let chiL := m.chi.getD m.L 1
  let layers := if chi0 > 1 then layers.modify 0 (fun l => l.filter (fun e => e.kL = 0)) else layers
  let layers := if chiL > 1 then
      layers.modify (m.L - 1) (fun l => (l.filter (fun e => e.kR = chiL - 1)).map (fun e => { e with kR := 0 }))
    else layers
  let chi := (m.chi.set 0 1).set m.L 1
  let idL := (List.range (m.L + 1)).map (fun b => if b = m.L ∧ chiL > 1 then none else some 0)
  let idR := (List.range (m.L + 1)).map (fun b =>
    if b = 0 ∧ chi0 > 1 then none else some (chi.getD b 1 - 1))
  ⟨m.L, layers, chi, idL, idR⟩

/-! ### overlap -/

/-- one step of the transfer matrix `Σ_{p,p'} conj(W_A)[a,a'] ⊗ W_B[b,b']` applied to a row vector
indexed by pairs `(a, b)`; `gram x y` = `tr(x† y)` of the local operators named `x`, `y` -/
def tmStep [Mul α] [Add α] [Zero α] (gram : String → String → α) (cj : α → α)
    (la lb : List (Edge Nat α)) (v : List ((Nat × Nat) × α)) : List ((Nat × Nat) × α) :=
  v.flatMap (fun (ab, x) =>
    (la.filter (fun e => e.kL = ab.1)).flatMap (fun ea =>
      (lb.filter (fun e => e.kL = ab.2)).map (fun eb =>
        ((ea.kR, eb.kR), x * (cj ea.c * eb.c * gram ea.op eb.op)))))

def vecAt [Add α] [Zero α] (v : List ((Nat × Nat) × α)) (k : Nat × Nat) : α :=
  v.foldr (fun p acc => if p.1 = k then p.2 + acc else acc) 0

/-- `MPO._overlap_no_hc(other, num_sites)` for finite MPOs (`num_sites = L`) -/
def overlapTM [Mul α] [Add α] [Zero α] [One α] (gram : String → String → α) (cj : α → α)
    (a b : MPOM α) : α :=
  match a.idL.head?, b.idL.head?, a.idR.getLast?, b.idR.getLast? with
  | some (some la), some (some lb), some (some ra), some (some rb) =>
    let v := (a.layers.zip b.layers).foldl (fun v (x, y) => tmStep gram cj x y v) [((la, lb), 1)]
    vecAt v (ra, rb)
  | _, _, _, _ => 0

/-- Frobenius inner product of two formal sums, sesquilinear extension of `Π_k gram` -/
def frob [Mul α] [Add α] [Zero α] [One α] (gram : String → String → α) (cj : α → α)
    (s t : Sym α) : α :=
  (s.flatMap (fun p => t.map (fun q =>
    cj p.2 * q.2 * ((p.1.zip q.1).foldr (fun xy acc => gram xy.1 xy.2 * acc) 1)))).foldr (· + ·) 0

/-! ### prefactor -/

/-- `MPO.prefactor(i, ops)` for local names that are orthogonal w.r.t. the trace form
(`tr(op† W)/tr(op† op)` is then the coefficient of `op` in `W`): Σ over paths that leave `IdL[i]`
at site `i`, avoid `IdL`/`IdR` on the inner bonds and reach `IdR` right of site `i + len - 1` -/
def prefactor [Mul α] [Add α] [Zero α] [One α] (m : MPOM α) (i : Nat) (ops : List String) : α :=
  match m.idL.getD (i % m.L) none, m.idR.getD ((i + ops.length - 1) % m.L + 1) none with
  | some l0, some rF =>
    let step (acc : List (Nat × α)) (ko : Nat × String) : List (Nat × α) :=
      let j := i + ko.1
      let layer := m.layers.getD (j % m.L) []
      let accP := if ko.1 = 0 then acc else
        acc.filter (fun p => some p.1 ≠ m.idL.getD (j % m.L) none
                             && some p.1 ≠ m.idR.getD (j % m.L) none)
      accP.flatMap (fun (l, x) =>
        (layer.filter (fun e => e.kL = l && e.op = ko.2)).map (fun e => (e.kR, x * e.c)))
    let fin := ((ops.zipIdx).map (fun (o, k) => (k, o))).foldl step [(l0, 1)]
    (fin.filter (fun p => p.1 = rF)).foldr (fun p acc => p.2 + acc) 0
  | _, _ => 0

/-! ### make_U_I -/

/-- `MPO.make_U_I(dt)`: on every bond the column `IdL` becomes `IdL + dt·IdR`, the `IdR` column of
site `i` and the `IdR` row of site `i+1` are removed (the first row of a finite MPO: `IdR[0]`);
indices above the removed one shift down; `IdL = IdR = IdLR` afterwards -/
def makeUI [Mul α] (m : MPOM α) (dt : α) (finite : Bool) : MPOM α :=
  let L := m.L
  let shift (removed : Nat) (k : Nat) : Nat := if k > removed then k - 1 else k
  let idRof (b : Nat) : Nat := (m.idR.getD b none).getD 0
  let idLof (b : Nat) : Nat := (m.idL.getD b none).getD 0
  let layers := (List.range L).map (fun i =>
    let lay := m.layers.getD i []
    let rL := idRof i          -- row to remove: IdR on the left bond
    let rR := idRof (i + 1)    -- column to remove
    let lR := idLof (i + 1)
    let _ := finite
    -- column IdL += dt * column IdR
    let extra := (lay.filter (fun e => e.kR = rR)).map (fun e => ({ e with kR := lR, c := dt * e.c } : Edge Nat α))
    let kept := (lay ++ extra).filter (fun e => e.kR ≠ rR && e.kL ≠ rL)
    kept.map (fun e => ({ e with kL := shift rL e.kL, kR := shift rR e.kR } : Edge Nat α)))
  let idLR := (List.range (L + 1)).map (fun b =>
    let l := idLof b; let r := idRof b
    some (if l > r then l - 1 else l))
  ⟨L, layers, m.chi.map (· - 1), idLR, idLR⟩

end MPOM
end TenpyModel.Ops
