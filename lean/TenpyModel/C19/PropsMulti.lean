import TenpyModel.C19.MultiProofs
/-!
# C19 — multi-site couplings: property theorems

`possible_multi_couplings(ops)` enumerates box positions `lat_indices` inside
`multi_coupling_shape` and keeps a position iff every operator lands on an existing site without
crossing an open boundary.

* `OpSpec l X u raw` (MultiProofs.lean): the site `(y, u)` exists where `y` is the image of the
  unwrapped position `X` under the boundary conditions (`Target`), and `raw` is its MPS index
  (`+ k0 N` for the copy `k0` unit cells away in an infinite system).
* `C19_multi_couplings_exact_box`: a row `(mps_ijkl, lat_indices)` is returned **iff** the shape is
  positive, `lat_indices` lies in the box and every operator satisfies `OpSpec`; the row is the
  list of raw indices, translated for infinite MPS such that `0 ≤ min < N`.

Partial (documented, known finding): that the box `multi_coupling_shape` contains exactly one
representative of every admissible placement is NOT claimed here — it fails for a shifted boundary
with an open x-direction (corpus/C19/shifted-bc-open-x-multi-missing.json); for all other boundary
combinations it is covered by the exhaustive correspondence + brute-force oracle.
-/
open TenpyModel.C19

/-- **Exactness per box position** for `possible_multi_couplings`, any dimension, sizes, order,
boundary conditions, finite or infinite MPS. -/
theorem C19_multi_couplings_exact_box (l : Lat) (ok : CoupOK l) (ops : List (List Int × Nat))
    (hops : ∀ op ∈ ops, op.1.length = l.Ls.length ∧ op.2 < l.Lu) (mps li : List Int) :
    let cs := multiCouplingShape l (ops.map (·.1))
    (mps, li) ∈ (possibleMultiCouplings l ops).rows ↔
      (∀ c ∈ cs.1, 0 < c) ∧ InGrid (cs.1.map Int.toNat) li ∧
      ∃ raws : List Int,
        List.Forall₂ (fun op raw => OpSpec l (vadd li (vsub op.1 cs.2)) op.2 raw) ops raws ∧
        mps = normalizeRow l raws := by
  intro cs
  have hlens := multiCouplingShape_lengths l (ops.map (·.1))
  unfold possibleMultiCouplings
  simp only
  by_cases h0 : cs.1.any (· == 0) = true
  · rw [if_pos h0]
    simp only [List.not_mem_nil, false_iff, not_and]
    intro hpos
    obtain ⟨c, hc, hc0⟩ := List.any_eq_true.1 h0
    have := hpos c hc
    simp at hc0; omega
  · rw [if_neg h0]
    by_cases h1 : cs.1.any (· < 0) = true
    · rw [if_pos h1]
      simp only [List.not_mem_nil, false_iff, not_and]
      intro hpos
      obtain ⟨c, hc, hc0⟩ := List.any_eq_true.1 h1
      have := hpos c hc
      simp at hc0; omega
    · rw [if_neg h1]
      have hpos : ∀ c ∈ cs.1, 0 < c := by
        intro c hc
        have a0 : ¬ c = 0 := fun e => h0 (List.any_eq_true.2 ⟨c, hc, by simp [e]⟩)
        have a1 : ¬ c < 0 := fun e => h1 (List.any_eq_true.2 ⟨c, hc, by simpa using e⟩)
        omega
      simp only [List.mem_filterMap, Option.map_eq_some_iff, Prod.mk.injEq]
      constructor
      · rintro ⟨li', hli', m, hm, rfl, rfl⟩
        have hin := mem_castRows_cstyle.1 hli'
        have hlen : li'.length = l.Ls.length := by
          rw [inGrid_length hin, List.length_map]; exact hlens.1
        exact ⟨hpos, hin, (ok.multiAt_spec ops cs.2 li' hops hlens.2 hlen m).1 hm⟩
      · rintro ⟨_, hin, hspec⟩
        have hlen : li.length = l.Ls.length := by
          rw [inGrid_length hin, List.length_map]; exact hlens.1
        exact ⟨li, mem_castRows_cstyle.2 hin, mps, (ok.multiAt_spec ops cs.2 li hops hlens.2 hlen mps).2 hspec,
          rfl, rfl⟩

/-- Non-vacuity: a plaquette term on a 2x2 Kagome-like lattice (3 sites per cell), periodic, with a
reversed order: the hypotheses hold and the theorem characterises its rows. -/
example :
    let order : List (List Int) := castRows ((cstyle [2, 2, 3]).reverse)
    let l := Lat.mk' [2, 2] 3 [false, false] none true order
    let ops : List (List Int × Nat) := [([0, 0], 0), ([1, 0], 1), ([0, 1], 2)]
    ∀ mps li, (mps, li) ∈ (possibleMultiCouplings l ops).rows →
      ∃ raws, List.Forall₂ (fun op raw =>
        OpSpec l (vadd li (vsub op.1 (multiCouplingShape l (ops.map (·.1))).2)) op.2 raw) ops raws ∧
        mps = normalizeRow l raws := by
  intro order l ops mps li h
  have hg : GridOrder ([2, 2] ++ [3]) order := gridOrder_of_perm (List.reverse_perm _)
  have ok : CoupOK l := coupOK_mk' [2, 2] 3 _ _ true order (by decide) (by decide) (by decide) hg rfl
  exact ((C19_multi_couplings_exact_box l ok ops (by decide) mps li).1 h).2.2
