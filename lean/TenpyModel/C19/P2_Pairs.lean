import TenpyModel.C19.PropsPairsOutside
/-!
Neighbour lists over all of `ℤ^dim`: generic combination of the box statement (`PairsMatch`) with the
outside-box bound.
-/
open TenpyModel.C19.Pairs

namespace TenpyModel.C19.Pairs

/-! ### the few order facts about `a + b√3` that are needed -/

theorem Z3.pos_zero : Z3.pos ⟨0, 0⟩ = false := by decide

theorem Z3.lt_irrefl (x : Z3) : Z3.lt x x = false := by
  simp [Z3.lt, Z3.sub, Z3.pos]

/-- `pos` is monotone in the rational part -/
theorem Z3.pos_mono (a b e : Int) (he : 0 ≤ e) (h : Z3.pos ⟨a, b⟩ = true) : Z3.pos ⟨a + e, b⟩ = true := by
  simp only [Z3.pos, Bool.or_eq_true, Bool.and_eq_true, decide_eq_true_eq, bne_iff_ne, ne_eq] at h ⊢
  rcases h with (⟨⟨h1, h2⟩, h3⟩ | ⟨⟨h1, h2⟩, h3⟩) | ⟨⟨h1, h2⟩, h3⟩
  · left; left; exact ⟨⟨by omega, h2⟩, by omega⟩
  · left; right; exact ⟨⟨by omega, h2⟩, by nlinarith⟩
  · by_cases hae : 0 ≤ a + e
    · left; left; exact ⟨⟨hae, by omega⟩, Or.inr (by omega)⟩
    · right; exact ⟨⟨by omega, h2⟩, by nlinarith⟩

/-- not both `x > 0` and `-x > 0` -/
theorem Z3.pos_asymm (a b : Int) (h : Z3.pos ⟨a, b⟩ = true) : Z3.pos ⟨-a, -b⟩ = false := by
  rw [Bool.eq_false_iff]
  intro h'
  simp only [Z3.pos, Bool.or_eq_true, Bool.and_eq_true, decide_eq_true_eq, bne_iff_ne, ne_eq] at h h'
  rcases h with (⟨⟨h1, h2⟩, h3⟩ | ⟨⟨h1, h2⟩, h3⟩) | ⟨⟨h1, h2⟩, h3⟩ <;>
  rcases h' with (⟨⟨g1, g2⟩, g3⟩ | ⟨⟨g1, g2⟩, g3⟩) | ⟨⟨g1, g2⟩, g3⟩ <;>
  first | omega | nlinarith

theorem Z3.lt_asymm (x y : Z3) (h : Z3.lt x y = true) : Z3.lt y x = false := by
  have := Z3.pos_asymm (y.a - x.a) (y.b - x.b) (by simpa [Z3.lt, Z3.sub] using h)
  simp only [Z3.lt, Z3.sub]
  have e1 : x.a - y.a = -(y.a - x.a) := by omega
  have e2 : x.b - y.b = -(y.b - x.b) := by omega
  rw [e1, e2]; exact this

/-- `⟨d,0⟩ ≤ ⟨M,0⟩ < q` gives `⟨d,0⟩ < q` -/
theorem Z3.lt_of_le_of_lt (d M : Int) (q : Z3) (hle : d ≤ M) (h : Z3.lt ⟨M, 0⟩ q = true) : Z3.lt ⟨d, 0⟩ q = true := by
  simp only [Z3.lt, Z3.sub] at h ⊢
  have := Z3.pos_mono (q.a - M) (q.b - 0) (M - d) (by omega) h
  have e : q.a - M + (M - d) = q.a - d := by omega
  rwa [e] at this


/-! ### all couplings of the infinite lattice -/

/-- a coupling `(u1, u2, dx)` of the infinite lattice: any `dx ∈ ℤ^dim`, except the trivial one -/
def Coup (t : Table) (c : Coupling) : Prop :=
  c.1 < t.pos.length ∧ c.2.1 < t.pos.length ∧ c.2.2.length = t.dim ∧ ¬ (c.1 = c.2.1 ∧ ∀ d ∈ c.2.2, d = 0)

def InBox (B : Nat) (c : Coupling) : Prop := ∀ d ∈ c.2.2, -(B : Int) ≤ d ∧ d ≤ (B : Int)

instance (t : Table) (c : Coupling) : Decidable (Coup t c) := by unfold Coup; infer_instance
instance (B : Nat) (c : Coupling) : Decidable (InBox B c) := by unfold InBox; infer_instance

theorem mem_dxBox (B : Nat) (n : Nat) (dx : List Int) :
    dx ∈ dxBox B n ↔ dx.length = n ∧ ∀ d ∈ dx, -(B : Int) ≤ d ∧ d ≤ (B : Int) := by
  induction n generalizing dx with
  | zero => cases dx <;> simp [dxBox]
  | succ n ih =>
    simp only [dxBox, List.mem_flatMap, List.mem_map, List.mem_range]
    constructor
    · rintro ⟨x, ⟨k, hk, rfl⟩, r, hr, rfl⟩
      obtain ⟨h1, h2⟩ := (ih r).1 hr
      refine ⟨by simp [h1], ?_⟩
      intro d hd
      rcases List.mem_cons.1 hd with rfl | hd
      · simp only [Int.ofNat_eq_natCast]; omega
      · exact h2 d hd
    · rintro ⟨h1, h2⟩
      cases dx with
      | nil => simp at h1
      | cons x r =>
        obtain ⟨a1, a2⟩ := h2 x (by simp)
        refine ⟨x, ⟨(x + B).toNat, by omega, by simp only [Int.ofNat_eq_natCast]; omega⟩, r,
          (ih r).2 ⟨by simpa using h1, fun d hd => h2 d (List.mem_cons_of_mem _ hd)⟩, rfl⟩

theorem mem_candidates (t : Table) (B : Nat) (c : Coupling) :
    c ∈ candidates t B ↔ Coup t c ∧ InBox B c := by
  obtain ⟨u1, u2, dx⟩ := c
  simp only [candidates, List.mem_filter, List.mem_flatMap, List.mem_map, List.mem_range, Prod.mk.injEq,
    Bool.not_eq_true', Bool.and_eq_false_iff, beq_eq_false_iff_ne, ne_eq, Coup, InBox]
  constructor
  · rintro ⟨⟨a, ha, b, hb, d, hd, rfl, rfl, rfl⟩, hnt⟩
    obtain ⟨h1, h2⟩ := (mem_dxBox B t.dim d).1 hd
    refine ⟨⟨ha, hb, h1, ?_⟩, h2⟩
    rintro ⟨e, hz⟩
    rcases hnt with h | h
    · exact h e
    · rw [Bool.eq_false_iff] at h
      apply h
      rw [List.all_eq_true]
      intro x hx
      simpa using hz x hx
  · rintro ⟨⟨h1, h2, h3, h4⟩, h5⟩
    refine ⟨⟨u1, h1, u2, h2, dx, (mem_dxBox B t.dim dx).2 ⟨h3, h5⟩, rfl, rfl, rfl⟩, ?_⟩
    by_cases e : u1 = u2
    · right
      rw [Bool.eq_false_iff]
      intro hall
      rw [List.all_eq_true] at hall
      exact h4 ⟨e, fun d hd => by simpa using hall d hd⟩
    · left; exact e

/-- the squared distance `x` occurs between two sites of the infinite lattice -/
def Attained (t : Table) (x : Z3) : Prop := ∃ c, Coup t c ∧ sqDist t c = x

/-- **`D` is the `k`-th (0-based) smallest squared distance of the infinite lattice**: it occurs,
and exactly `k` distinct occurring values (`smaller`, strictly ascending) are smaller — every
coupling `(u1, u2, dx)`, `dx ∈ ℤ^dim`, that is closer than `D` has one of these values. -/
def IsKthShell (t : Table) (k : Nat) (D : Z3) : Prop :=
  Attained t D ∧ ∃ smaller : List Z3, smaller.length = k ∧
    smaller.Pairwise (fun x y => Z3.lt x y = true) ∧
    (∀ x ∈ smaller, Attained t x ∧ Z3.lt x D = true) ∧
    ∀ c, Coup t c → Z3.lt (sqDist t c) D = true → sqDist t c ∈ smaller

/-- **The neighbour list `key` is exactly the `k`-th distance shell of the infinite lattice**
(all `dx ∈ ℤ^dim`): nothing is listed twice (not even reversed), every listed coupling has the
`k`-th smallest distance, and EVERY coupling at that distance is listed in one of its two forms. -/
def PairsExact (t : Table) (k : Nat) (key : String) : Prop :=
  ∃ D, IsKthShell t k D ∧
    ((lookup t key).map canon).Nodup ∧
    (∀ c ∈ lookup t key, Coup t c ∧ sqDist t c = D) ∧
    (∀ c, Coup t c → sqDist t c = D → canon c ∈ (lookup t key).map canon)

/-- what is checked by evaluation inside the box: the first `k+1` distinct distances are strictly
ascending, each occurs, every candidate has one of them or is farther than the `k`-th; the `k`-th
is rational and not larger than `⟨M, 0⟩` -/
def shellB (t : Table) (B k : Nat) (M : Int) : Bool :=
  let cands := candidates t B
  let ds := (distinctSorted (cands.map (sqDist t))).take (k + 1)
  match kthDistance t B k with
  | none => false
  | some D =>
    decide (ds.Pairwise (fun x y => Z3.lt x y = true)) && (ds.getLast? == some D) && decide (ds.length = k + 1) &&
    ds.all (fun x => cands.any (fun c => sqDist t c == x)) &&
    cands.all (fun c => ds.contains (sqDist t c) || Z3.lt D (sqDist t c)) &&
    (D.b == 0) && decide (D.a ≤ M)

theorem pairsExact_of_box (t : Table) (B k : Nat) (key : String) (M : Int)
    (hbox : PairsMatch t B k key) (hshell : shellB t B k M = true)
    (hout : ∀ c, Coup t c → ¬ InBox B c → Z3.lt ⟨M, 0⟩ (sqDist t c) = true) :
    PairsExact t k key := by
  obtain ⟨D, hD, hnd, hsound, hcompl⟩ := hbox
  unfold shellB at hshell
  rw [hD] at hshell
  simp only [Bool.and_eq_true, decide_eq_true_eq, beq_iff_eq, List.all_eq_true, List.any_eq_true,
    Bool.or_eq_true, List.contains_eq_mem] at hshell
  obtain ⟨⟨⟨⟨⟨⟨hpw, hlast⟩, hlen⟩, hatt⟩, hall⟩, hb0⟩, hle⟩ := hshell
  generalize hds : (distinctSorted ((candidates t B).map (sqDist t))).take (k + 1) = ds at *
  -- `ds = smaller ++ [D]`
  have hdsne : ds ≠ [] := by intro e; simp [e] at hlen
  have hsplit : ds = ds.dropLast ++ [D] := by
    have h1 := List.dropLast_concat_getLast hdsne
    have h2 : ds.getLast hdsne = D := by
      have := List.getLast?_eq_some_getLast hdsne
      rw [this] at hlast
      exact Option.some.inj hlast
    rw [h2] at h1; exact h1.symm
  have hDform : D = ⟨D.a, 0⟩ := by
    cases D with
    | mk a b => simp only at hb0; rw [hb0]
  have hfar : ∀ c, Coup t c → ¬ InBox B c → Z3.lt D (sqDist t c) = true := by
    intro c hc hnb
    rw [hDform]; exact Z3.lt_of_le_of_lt _ M _ hle (hout c hc hnb)
  have hattained : ∀ x ∈ ds, Attained t x := by
    intro x hx
    obtain ⟨c, hc, hcx⟩ := hatt x hx
    exact ⟨c, ((mem_candidates t B c).1 hc).1, by simpa using hcx⟩
  have hpw' := hpw
  rw [hsplit, List.pairwise_append] at hpw'
  obtain ⟨hpw1, _, hpw3⟩ := hpw'
  refine ⟨D, ⟨hattained D (by rw [hsplit]; simp), ds.dropLast, by simp [hlen], hpw1, ?_, ?_⟩, hnd, ?_, ?_⟩
  · intro x hx
    exact ⟨hattained x (List.dropLast_subset _ hx), hpw3 x hx D (by simp)⟩
  · intro c hc hlt
    by_cases hb : InBox B c
    · have hmem := (mem_candidates t B c).2 ⟨hc, hb⟩
      rcases hall c hmem with h | h
      · rw [hsplit, List.mem_append] at h
        rcases h with h | h
        · exact h
        · simp only [List.mem_singleton] at h
          rw [h, Z3.lt_irrefl] at hlt; cases hlt
      · rw [Z3.lt_asymm _ _ h] at hlt; cases hlt
    · rw [Z3.lt_asymm _ _ (hfar c hc hb)] at hlt; cases hlt
  · intro c hc
    obtain ⟨h1, h2⟩ := hsound c hc
    exact ⟨((mem_candidates t B c).1 h1).1, h2⟩
  · intro c hc hd
    by_cases hb : InBox B c
    · exact hcompl c ((mem_candidates t B c).2 ⟨hc, hb⟩) hd
    · have := hfar c hc hb
      rw [hd, Z3.lt_irrefl] at this; cases this

end TenpyModel.C19.Pairs
