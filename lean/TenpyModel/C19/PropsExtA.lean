import TenpyModel.C19.ExtProofsA
/-
C19 extension round, part A: `MultiSpeciesLattice` unit-cell bookkeeping and `_generate_new_pairs`
(`tenpy/models/lattice.py`), `Lattice.count_neighbors`.  Model: `TenpyModel/C19/Ext.lean`.
-/
open TenpyModel.C19.Ext

/-- `self_u ↦ (self_u_to_simple_u, self_u_to_species_idx)` and `simple_u_to_species_u` are mutually inverse bijections
between `[0, simple_Lu * N_species)` and `[0, simple_Lu) × [0, N_species)`. -/
theorem C19_multispecies_u_bijection (nsp : Nat) (h : 0 < nsp) :
    (∀ u, simpleUToSpeciesU nsp (selfUToSimpleU nsp u) (selfUToSpeciesIdx nsp u) = u ∧ selfUToSpeciesIdx nsp u < nsp) ∧
    (∀ su sp, sp < nsp → selfUToSimpleU nsp (simpleUToSpeciesU nsp su sp) = su ∧
      selfUToSpeciesIdx nsp (simpleUToSpeciesU nsp su sp) = sp) ∧
    (∀ u simpleLu, u < simpleLu * nsp ↔ selfUToSimpleU nsp u < simpleLu) := by
  refine ⟨fun u => ⟨u_recombine nsp u, species_lt nsp u h⟩,
    fun su sp hsp => ⟨u_simple_of nsp su sp hsp, u_species_of nsp su sp hsp⟩, fun u simpleLu => ?_⟩
  unfold selfUToSimpleU
  exact (Nat.div_lt_iff_lt_mul h).symm

example : simpleUToSpeciesU 3 (selfUToSimpleU 3 7) (selfUToSpeciesIdx 3 7) = 7 ∧ selfUToSimpleU 3 7 = 2 ∧
    selfUToSpeciesIdx 3 7 = 1 := by decide

/-- The unit cell `list(species_sites) * simple_Lu` has `simple_Lu * N_species` sites and site `u` is the species
`self_u_to_species_idx(u)`; `np.repeat(positions, N_species, axis=0)` gives site `u` the position of the simple
site `self_u_to_simple_u(u)` (so all species of one simple site sit at the same point). -/
theorem C19_multispecies_unit_cell {α β : Type} (species : List α) (pos : List β) (simpleLu : Nat) :
    (tileList species simpleLu).length = simpleLu * species.length ∧
    (repeatRows pos species.length).length = pos.length * species.length ∧
    (∀ u, u < simpleLu * species.length →
      (tileList species simpleLu)[u]? = species[selfUToSpeciesIdx species.length u]?) ∧
    (∀ u, 0 < species.length → (repeatRows pos species.length)[u]? = pos[selfUToSimpleU species.length u]?) :=
  ⟨tileList_length _ _, repeatRows_length _ _, fun u hu => tileList_get _ _ u hu,
    fun u h => repeatRows_get _ _ u h⟩

example : tileList ["up", "down"] 3 = ["up", "down", "up", "down", "up", "down"] ∧
    repeatRows [[0, 0], [1, 2]] 2 = [[0, 0], [0, 0], [1, 2], [1, 2]] := by decide

/-- `pairs['K_a-b']`: a coupling `(v1, v2, dx)` is listed exactly as often as the simple coupling
`(v1 // N, v2 // N, dx)` is listed in `K`, if `v1` is species `a` and `v2` is species `b`; otherwise not at all. -/
theorem C19_multispecies_pairs_sp (nsp s1 s2 : Nat) (h1 : s1 < nsp) (h2 : s2 < nsp) (val : List Coup) (c : Coup) :
    (liftPairs nsp s1 s2 val).count c =
      if selfUToSpeciesIdx nsp c.1 = s1 ∧ selfUToSpeciesIdx nsp c.2.1 = s2
      then val.count (selfUToSimpleU nsp c.1, selfUToSimpleU nsp c.2.1, c.2.2) else 0 :=
  count_liftPairs nsp s1 s2 h1 h2 val c

example : liftPairs 2 0 1 [(0, 1, [1, 0]), (1, 0, [0, 1])] = [(0, 3, [1, 0]), (2, 1, [0, 1])] := by decide

/-- `pairs['K_all-all']`: EVERY coupling `(v1, v2, dx)` of the multi-species lattice is listed exactly as often as
its simple coupling `(v1 // N, v2 // N, dx)` is listed in `K` (each species combination once, none twice). -/
theorem C19_multispecies_pairs_all (nsp : Nat) (h : 0 < nsp) (val : List Coup) (c : Coup) :
    (pairsAll nsp val).count c = val.count (selfUToSimpleU nsp c.1, selfUToSimpleU nsp c.2.1, c.2.2) :=
  count_pairsAll nsp h val c

/-- consequence: a duplicate-free simple list gives a duplicate-free `K_all-all` of `N^2` times the length -/
theorem C19_multispecies_pairs_all_nodup (nsp : Nat) (h : 0 < nsp) (val : List Coup) (hv : val.Nodup) :
    (pairsAll nsp val).Nodup ∧
    ∀ c, c ∈ pairsAll nsp val ↔ (selfUToSimpleU nsp c.1, selfUToSimpleU nsp c.2.1, c.2.2) ∈ val := by
  constructor
  · rw [List.nodup_iff_count_le_one]
    intro c
    rw [C19_multispecies_pairs_all nsp h]
    exact List.nodup_iff_count_le_one.mp hv _
  · intro c
    rw [← List.count_pos_iff, ← List.count_pos_iff, C19_multispecies_pairs_all nsp h]

example : pairsAll 2 [(0, 0, [1])] = [(0, 0, [1]), (0, 1, [1]), (1, 0, [1]), (1, 1, [1])] := by decide

/-- `pairs['K_diag']`: the couplings of `K_all-all` between equal species, with the same multiplicities. -/
theorem C19_multispecies_pairs_diag (nsp : Nat) (h : 0 < nsp) (val : List Coup) (c : Coup) :
    (pairsDiag nsp val).count c =
      if selfUToSpeciesIdx nsp c.1 = selfUToSpeciesIdx nsp c.2.1
      then (pairsAll nsp val).count c else 0 := by
  rw [count_pairsDiag nsp h, count_pairsAll nsp h]

example : pairsDiag 2 [(0, 0, [1])] = [(0, 0, [1]), (1, 1, [1])] := by decide

/-- `pairs['onsite_a-b']` (`a < b`): exactly the pairs (species `a`, species `b`) of one simple site in the same
unit cell (`dx = 0`), one per simple site, none twice. -/
theorem C19_multispecies_onsite (nsp simpleLu dim s1 s2 : Nat) (h1 : s1 < s2) (h2 : s2 < nsp) :
    (onsitePairs nsp simpleLu dim s1 s2).Nodup ∧
    ∀ c : Coup, c ∈ onsitePairs nsp simpleLu dim s1 s2 ↔
      (selfUToSimpleU nsp c.1 = selfUToSimpleU nsp c.2.1 ∧ selfUToSimpleU nsp c.1 < simpleLu ∧
        selfUToSpeciesIdx nsp c.1 = s1 ∧ selfUToSpeciesIdx nsp c.2.1 = s2 ∧ c.2.2 = List.replicate dim 0) := by
  have hs1 : s1 < nsp := by omega
  constructor
  · unfold onsitePairs
    apply List.Nodup.map _ List.nodup_range
    intro a b hab
    have := congrArg (fun c : Coup => selfUToSimpleU nsp c.1) hab
    have e : selfUToSimpleU nsp (simpleUToSpeciesU nsp a s1) = selfUToSimpleU nsp (simpleUToSpeciesU nsp b s1) := this
    rwa [u_simple_of nsp _ s1 hs1, u_simple_of nsp _ s1 hs1] at e
  · intro c
    unfold onsitePairs
    rw [List.mem_map]
    constructor
    · rintro ⟨u, hu, rfl⟩
      have hu' := List.mem_range.mp hu
      have e1 := u_simple_of nsp u s1 hs1
      have e2 := u_simple_of nsp u s2 h2
      have e3 := u_species_of nsp u s1 hs1
      have e4 := u_species_of nsp u s2 h2
      unfold simpleUToSpeciesU at e1 e2 e3 e4
      simp only [e1, e2, e3, e4]
      simp [hu']
    · rintro ⟨e, hlt, hs1', hs2', hdx⟩
      refine ⟨selfUToSimpleU nsp c.1, List.mem_range.mpr hlt, ?_⟩
      obtain ⟨a, b, dx⟩ := c
      simp only at e hlt hs1' hs2' hdx ⊢
      have ra := u_recombine nsp a
      have rb := u_recombine nsp b
      unfold simpleUToSpeciesU at ra rb
      rw [hs1'] at ra
      rw [hs2', ← e] at rb
      rw [ra, rb, hdx]

example : onsitePairs 2 2 2 0 1 = [(0, 1, [0, 0]), (2, 3, [0, 0])] := by decide

/-- `_generate_new_pairs` raises the duplicate-key `ValueError` exactly when two of the generated keys coincide;
otherwise the returned dict is the list of generated entries, so EVERY generated key maps to its own list
(`K_a-b ↦ liftPairs`, `K_all-all ↦ pairsAll`, `K_diag ↦ pairsDiag`, `onsite_a-b ↦ onsitePairs`): no entry is
overwritten by another one. -/
theorem C19_multispecies_new_pairs (names : List String) (simplePairs : PairsDict) (simpleLu dim : Nat) :
    (((newPairEntries names simplePairs simpleLu dim).map (·.1)).Nodup →
      genNewPairs names simplePairs simpleLu dim = some (newPairEntries names simplePairs simpleLu dim)) ∧
    (¬ ((newPairEntries names simplePairs simpleLu dim).map (·.1)).Nodup →
      genNewPairs names simplePairs simpleLu dim = none) ∧
    (∀ d, genNewPairs names simplePairs simpleLu dim = some d →
      ∀ kv ∈ newPairEntries names simplePairs simpleLu dim, d.lookup kv.1 = some kv.2) := by
  have spec := insertAll_spec [] (newPairEntries names simplePairs simpleLu dim) (by simp)
  simp only [List.nil_append] at spec
  refine ⟨spec.1, spec.2, ?_⟩
  intro d hd kv hkv
  by_cases hn : ((newPairEntries names simplePairs simpleLu dim).map (·.1)).Nodup
  · have := spec.1 hn
    unfold genNewPairs at hd
    rw [this] at hd
    cases hd
    exact lookup_of_nodup _ hn kv hkv
  · have := spec.2 hn
    unfold genNewPairs at hd
    rw [this] at hd
    cases hd

example : (genNewPairs ["a", "b"] [("nn", [(0, 0, [1])])] 1 1).map (fun d => d.map (·.1)) =
    some ["nn_a-a", "nn_a-b", "nn_b-a", "nn_b-b", "nn_all-all", "nn_diag", "onsite_a-b"] := by decide
example : genNewPairs ["a", "a"] [("nn", [(0, 0, [1])])] 1 1 = none := by decide
example : genNewPairs ["all", "b"] [("nn", [(0, 0, [1])])] 1 1 = none := by decide

/-- `count_neighbors(u, key)` is the number of coupling ends at `u`; in `K_all-all` every site has `N_species` times
as many neighbours of kind `K` as its simple site has in the simple lattice — stated here for the two ends
separately via the multiplicity theorem: the count is the number of listed couplings starting at `u` plus the number
ending at `u`. -/
theorem C19_count_neighbors (pairs : List Coup) (u : Nat) :
    countNeighbors pairs u = (pairs.filter (fun c => c.1 == u)).length + (pairs.filter (fun c => c.2.1 == u)).length := by
  unfold countNeighbors
  rw [countNeighbors_foldl]
  simp [List.count_eq_length_filter, List.filter_map, Function.comp_def]

example : countNeighbors [(0, 1, [0, 0]), (1, 0, [1, 0]), (1, 0, [0, 1])] 0 = 3 := by decide

/-- `count_neighbors(u, 'K_all-all')` of the multi-species lattice is `N_species` times `count_neighbors(u // N, 'K')`
of the simple lattice: every species sees every species of each simple neighbour. -/
theorem C19_multispecies_count_neighbors (nsp : Nat) (h : 0 < nsp) (val : List Coup) (u : Nat) :
    countNeighbors (pairsAll nsp val) u = nsp * countNeighbors val (selfUToSimpleU nsp u) :=
  countNeighbors_pairsAll nsp h val u

example : countNeighbors (pairsAll 2 [(0, 1, [0]), (1, 0, [1])]) 3 = 4 ∧
    countNeighbors [(0, 1, [0]), (1, 0, [1])] (selfUToSimpleU 2 3) = 2 := by decide
