import TenpyModel.C19.Ext
import Mathlib.Data.List.Count
import Mathlib.Data.List.Nodup
import Mathlib.Tactic.Ring
/-
Helper lemmas for `PropsExtA.lean` (MultiSpeciesLattice bookkeeping, `_generate_new_pairs`).
-/
namespace TenpyModel.C19.Ext

theorem u_recombine (nsp u : Nat) : simpleUToSpeciesU nsp (selfUToSimpleU nsp u) (selfUToSpeciesIdx nsp u) = u := by
  unfold simpleUToSpeciesU selfUToSimpleU selfUToSpeciesIdx
  rw [Nat.mul_comm]; exact Nat.div_add_mod u nsp

theorem u_simple_of (nsp su sp : Nat) (h : sp < nsp) : selfUToSimpleU nsp (simpleUToSpeciesU nsp su sp) = su := by
  unfold simpleUToSpeciesU selfUToSimpleU
  rw [Nat.add_comm, Nat.add_mul_div_right _ _ (by omega : 0 < nsp), Nat.div_eq_of_lt h]; omega

theorem u_species_of (nsp su sp : Nat) (h : sp < nsp) : selfUToSpeciesIdx nsp (simpleUToSpeciesU nsp su sp) = sp := by
  unfold simpleUToSpeciesU selfUToSpeciesIdx
  rw [Nat.add_comm, Nat.add_mul_mod_self_right, Nat.mod_eq_of_lt h]

/-- the simple coupling a lifted coupling comes from -/
def proj (nsp : Nat) (c : Coup) : Coup := (selfUToSimpleU nsp c.1, selfUToSimpleU nsp c.2.1, c.2.2)

def liftC (nsp s1 s2 : Nat) (c : Coup) : Coup :=
  (simpleUToSpeciesU nsp c.1 s1, simpleUToSpeciesU nsp c.2.1 s2, c.2.2)

theorem liftPairs_eq (nsp s1 s2 : Nat) (val : List Coup) : liftPairs nsp s1 s2 val = val.map (liftC nsp s1 s2) := rfl

theorem proj_liftC (nsp s1 s2 : Nat) (h1 : s1 < nsp) (h2 : s2 < nsp) (c : Coup) : proj nsp (liftC nsp s1 s2 c) = c := by
  obtain ⟨a, b, dx⟩ := c
  simp [proj, liftC, u_simple_of, h1, h2]

theorem liftC_injective (nsp s1 s2 : Nat) (h1 : s1 < nsp) (h2 : s2 < nsp) : Function.Injective (liftC nsp s1 s2) := by
  intro a b hab
  have := congrArg (proj nsp) hab
  rwa [proj_liftC _ _ _ h1 h2, proj_liftC _ _ _ h1 h2] at this

theorem liftC_proj (nsp : Nat) (c : Coup) :
    liftC nsp (selfUToSpeciesIdx nsp c.1) (selfUToSpeciesIdx nsp c.2.1) (proj nsp c) = c := by
  obtain ⟨a, b, dx⟩ := c
  simp [proj, liftC, u_recombine]

theorem species_liftC (nsp s1 s2 : Nat) (h1 : s1 < nsp) (h2 : s2 < nsp) (c : Coup) :
    selfUToSpeciesIdx nsp (liftC nsp s1 s2 c).1 = s1 ∧ selfUToSpeciesIdx nsp (liftC nsp s1 s2 c).2.1 = s2 := by
  obtain ⟨a, b, dx⟩ := c
  simp [liftC, u_species_of, h1, h2]

theorem count_liftPairs (nsp s1 s2 : Nat) (h1 : s1 < nsp) (h2 : s2 < nsp) (val : List Coup) (c : Coup) :
    (liftPairs nsp s1 s2 val).count c =
      if selfUToSpeciesIdx nsp c.1 = s1 ∧ selfUToSpeciesIdx nsp c.2.1 = s2 then val.count (proj nsp c) else 0 := by
  rw [liftPairs_eq]
  split
  · next h =>
    have hc : c = liftC nsp s1 s2 (proj nsp c) := by
      have := liftC_proj nsp c
      rw [h.1, h.2] at this; exact this.symm
    conv_lhs => rw [hc]
    exact List.count_map_of_injective _ _ (liftC_injective nsp s1 s2 h1 h2) _
  · next h =>
    apply List.count_eq_zero.mpr
    intro hm
    obtain ⟨a, _, rfl⟩ := List.mem_map.mp hm
    exact h (species_liftC nsp s1 s2 h1 h2 a)

theorem count_flatMap_range_zero {α : Type} [BEq α] [LawfulBEq α] (n : Nat) (f : Nat → List α) (c : α)
    (hz : ∀ s, s < n → (f s).count c = 0) : ((List.range n).flatMap f).count c = 0 := by
  induction n with
  | zero => simp
  | succ n ih =>
    rw [List.range_succ, List.flatMap_append, List.count_append, ih (fun s hs => hz s (by omega))]
    simp [hz n (by omega)]

theorem count_flatMap_range_single {α : Type} [BEq α] [LawfulBEq α] (n : Nat) (f : Nat → List α) (c : α) (s0 : Nat) (hs0 : s0 < n)
    (hz : ∀ s, s < n → s ≠ s0 → (f s).count c = 0) : ((List.range n).flatMap f).count c = (f s0).count c := by
  induction n with
  | zero => omega
  | succ n ih =>
    rw [List.range_succ, List.flatMap_append, List.count_append]
    by_cases h : s0 = n
    · subst h
      rw [count_flatMap_range_zero s0 f c (fun s hs => hz s (by omega) (by omega))]
      simp
    · rw [ih (by omega) (fun s hs hne => hz s (by omega) hne)]
      simp [hz n (by omega) (fun e => h e.symm)]

theorem species_lt (nsp u : Nat) (h : 0 < nsp) : selfUToSpeciesIdx nsp u < nsp := Nat.mod_lt _ h

theorem count_pairsAll (nsp : Nat) (h : 0 < nsp) (val : List Coup) (c : Coup) :
    (pairsAll nsp val).count c = val.count (proj nsp c) := by
  unfold pairsAll
  rw [count_flatMap_range_single nsp _ c (selfUToSpeciesIdx nsp c.1) (species_lt _ _ h)]
  · rw [count_flatMap_range_single nsp _ c (selfUToSpeciesIdx nsp c.2.1) (species_lt _ _ h)]
    · rw [count_liftPairs _ _ _ (species_lt _ _ h) (species_lt _ _ h)]; simp
    · intro s hs hne
      rw [count_liftPairs _ _ _ (species_lt _ _ h) hs]
      exact if_neg (fun hh => hne hh.2.symm)
  · intro s hs hne
    apply count_flatMap_range_zero
    intro s2 hs2
    rw [count_liftPairs _ _ _ hs hs2]
    exact if_neg (fun hh => hne hh.1.symm)

theorem count_pairsDiag (nsp : Nat) (h : 0 < nsp) (val : List Coup) (c : Coup) :
    (pairsDiag nsp val).count c =
      if selfUToSpeciesIdx nsp c.1 = selfUToSpeciesIdx nsp c.2.1 then val.count (proj nsp c) else 0 := by
  unfold pairsDiag
  rw [count_flatMap_range_single nsp _ c (selfUToSpeciesIdx nsp c.1) (species_lt _ _ h)]
  · rw [count_flatMap_range_single nsp _ c (selfUToSpeciesIdx nsp c.1) (species_lt _ _ h)]
    · simp only [beq_self_eq_true, if_true]
      rw [count_liftPairs _ _ _ (species_lt _ _ h) (species_lt _ _ h)]
      by_cases e : selfUToSpeciesIdx nsp c.1 = selfUToSpeciesIdx nsp c.2.1
      · simp [e]
      · rw [if_neg e]; exact if_neg (fun hh => e hh.2.symm)
    · intro s hs hne
      by_cases e : selfUToSpeciesIdx nsp c.1 = s
      · exact absurd e.symm hne
      · simp [e]
  · intro s hs hne
    apply count_flatMap_range_zero
    intro s2 hs2
    by_cases e : s = s2
    · subst e
      simp only [beq_self_eq_true, if_true]
      rw [count_liftPairs _ _ _ hs hs]
      exact if_neg (fun hh => hne hh.1.symm)
    · simp [e]

/-! unit cell / positions -/

theorem tileList_succ {α : Type} (l : List α) (n : Nat) : tileList l (n + 1) = l ++ tileList l n := by
  simp [tileList, List.replicate_succ]

theorem tileList_length {α : Type} (l : List α) (n : Nat) : (tileList l n).length = n * l.length := by
  induction n with
  | zero => simp [tileList]
  | succ n ih => rw [tileList_succ, List.length_append, ih]; ring

theorem tileList_get {α : Type} (l : List α) (n u : Nat) (h : u < n * l.length) :
    (tileList l n)[u]? = l[u % l.length]? := by
  induction n generalizing u with
  | zero => simp at h
  | succ n ih =>
    rw [tileList_succ]
    by_cases hu : u < l.length
    · rw [List.getElem?_append_left hu, Nat.mod_eq_of_lt hu]
    · have hu' : l.length ≤ u := by omega
      rw [List.getElem?_append_right hu', ih (u - l.length) (by
        have : (n + 1) * l.length = n * l.length + l.length := by ring
        omega)]
      congr 1
      conv_rhs => rw [← Nat.sub_add_cancel hu', Nat.add_mod_right]

theorem repeatRows_cons {α : Type} (r : α) (rs : List α) (n : Nat) :
    repeatRows (r :: rs) n = List.replicate n r ++ repeatRows rs n := by
  simp [repeatRows]

theorem repeatRows_length {α : Type} (rows : List α) (n : Nat) : (repeatRows rows n).length = rows.length * n := by
  induction rows with
  | nil => simp [repeatRows]
  | cons r rs ih => rw [repeatRows_cons, List.length_append, ih]; simp; ring

theorem repeatRows_get {α : Type} (rows : List α) (n u : Nat) (h : 0 < n) :
    (repeatRows rows n)[u]? = rows[u / n]? := by
  induction rows generalizing u with
  | nil => simp [repeatRows]
  | cons r rs ih =>
    rw [repeatRows_cons]
    by_cases hu : u < n
    · rw [List.getElem?_append_left (by simpa using hu), Nat.div_eq_of_lt hu]
      simp [hu]
    · have hu' : n ≤ u := by omega
      rw [List.getElem?_append_right (by simpa using hu'), ih]
      have : u / n = (u - n) / n + 1 := by
        conv_lhs => rw [← Nat.sub_add_cancel hu', Nat.add_div_right _ h]
      simp [this]

/-! the dict -/

theorem any_key (d : PairsDict) (k : String) : d.any (fun e => e.1 == k) = true ↔ k ∈ d.map (·.1) := by
  rw [List.any_eq_true]
  constructor
  · rintro ⟨e, he, hk⟩
    have : e.1 = k := by simpa using hk
    exact this ▸ List.mem_map_of_mem (f := (·.1)) he
  · intro h
    obtain ⟨e, he, rfl⟩ := List.mem_map.mp h
    exact ⟨e, he, by simp⟩

theorem insertAll_spec (d es : PairsDict) (hd : (d.map (·.1)).Nodup) :
    (((d ++ es).map (·.1)).Nodup → insertAll d es = some (d ++ es)) ∧
    (¬ ((d ++ es).map (·.1)).Nodup → insertAll d es = none) := by
  induction es generalizing d with
  | nil => simp [insertAll, hd]
  | cons e es ih =>
    obtain ⟨k, v⟩ := e
    unfold insertAll insertNew
    by_cases hk : k ∈ d.map (·.1)
    · have hany := (any_key d k).mpr hk
      simp only [hany, if_true]
      constructor
      · intro hnd
        exfalso
        rw [List.map_append, List.nodup_append] at hnd
        exact hnd.2.2 k hk k (by simp) rfl
      · intro _; trivial
    · have hany : d.any (fun e => e.1 == k) = false := by
        cases h : d.any (fun e => e.1 == k) with
        | false => rfl
        | true => exact absurd ((any_key d k).mp h) hk
      simp only [hany, Bool.false_eq_true, if_false]
      have hd' : ((d ++ [(k, v)]).map (·.1)).Nodup := by
        rw [List.map_append, List.nodup_append]
        refine ⟨hd, by simp, ?_⟩
        intro a ha b hb
        simp at hb; subst hb
        intro e; subst e; exact hk ha
      have := ih (d ++ [(k, v)]) hd'
      simpa [List.append_assoc] using this

theorem lookup_of_nodup (d : PairsDict) (hd : (d.map (·.1)).Nodup) (kv : String × List Coup) (h : kv ∈ d) :
    d.lookup kv.1 = some kv.2 := by
  induction d with
  | nil => simp at h
  | cons e d ih =>
    obtain ⟨k, v⟩ := e
    simp only [List.map_cons, List.nodup_cons] at hd
    rcases List.mem_cons.mp h with rfl | h'
    · simp [List.lookup]
    · have hne : kv.1 ≠ k := by
        intro e; apply hd.1; rw [← e]; exact List.mem_map_of_mem (f := (·.1)) h'
      rw [List.lookup_cons]
      have : (kv.1 == k) = false := by simpa using hne
      rw [this]
      exact ih hd.2 h'

/-! count_neighbors -/

theorem countNeighbors_foldl (ps : List Coup) (u n0 : Nat) :
    ps.foldl (fun cnt c => cnt + (if c.1 == u then 1 else 0) + (if c.2.1 == u then 1 else 0)) n0
      = n0 + (ps.map (·.1)).count u + (ps.map (·.2.1)).count u := by
  induction ps generalizing n0 with
  | nil => simp
  | cons c cs ih =>
    rw [List.foldl_cons, ih]
    simp only [List.map_cons, List.count_cons]
    omega

theorem count_flatMap_range_const {α : Type} [BEq α] [LawfulBEq α] (n : Nat) (f : Nat → List α) (c : α) (x : Nat)
    (h : ∀ s, s < n → (f s).count c = x) : ((List.range n).flatMap f).count c = n * x := by
  induction n with
  | zero => simp
  | succ n ih =>
    rw [List.range_succ, List.flatMap_append, List.count_append, ih (fun s hs => h s (by omega))]
    simp [h n (by omega)]
    ring

/-- multiplicity of `u` among `a * nsp + s` -/
theorem count_map_lift (nsp s u : Nat) (hs : s < nsp) (l : List Nat) :
    (l.map (fun a => a * nsp + s)).count u = if u % nsp = s then l.count (u / nsp) else 0 := by
  split
  · next h =>
    have hu : u = (fun a => a * nsp + s) (u / nsp) := by
      simp only []
      rw [← h, Nat.mul_comm]; exact (Nat.div_add_mod u nsp).symm
    have hinj : Function.Injective (fun a => a * nsp + s) := by
      intro a b hab
      simp only [] at hab
      have := u_simple_of nsp a s hs
      have h2 := u_simple_of nsp b s hs
      unfold simpleUToSpeciesU at this h2
      rw [← this, ← h2, hab]
    conv_lhs => rw [hu]
    exact List.count_map_of_injective l (fun a => a * nsp + s) hinj (u / nsp)
  · next h =>
    apply List.count_eq_zero.mpr
    intro hm
    obtain ⟨a, _, rfl⟩ := List.mem_map.mp hm
    apply h
    have := u_species_of nsp a s hs
    unfold simpleUToSpeciesU selfUToSpeciesIdx at this
    exact this

theorem countNeighbors_eq (ps : List Coup) (u : Nat) :
    countNeighbors ps u = (ps.map (·.1)).count u + (ps.map (·.2.1)).count u := by
  unfold countNeighbors
  rw [countNeighbors_foldl]; omega

theorem countNeighbors_pairsAll (nsp : Nat) (h : 0 < nsp) (val : List Coup) (u : Nat) :
    countNeighbors (pairsAll nsp val) u = nsp * countNeighbors val (u / nsp) := by
  rw [countNeighbors_eq, countNeighbors_eq]
  have hf : ((pairsAll nsp val).map (·.1)).count u = nsp * (val.map (·.1)).count (u / nsp) := by
    unfold pairsAll
    rw [List.map_flatMap, count_flatMap_range_single nsp _ u (u % nsp) (Nat.mod_lt _ h)]
    · rw [List.map_flatMap]
      apply count_flatMap_range_const
      intro s2 hs2
      have : (liftPairs nsp (u % nsp) s2 val).map (·.1) = (val.map (·.1)).map (fun a => a * nsp + u % nsp) := by
        simp [liftPairs, simpleUToSpeciesU, List.map_map, Function.comp_def]
      rw [this, count_map_lift nsp (u % nsp) u (Nat.mod_lt _ h)]
      simp
    · intro s hs hne
      rw [List.map_flatMap]
      apply count_flatMap_range_zero
      intro s2 hs2
      have : (liftPairs nsp s s2 val).map (·.1) = (val.map (·.1)).map (fun a => a * nsp + s) := by
        simp [liftPairs, simpleUToSpeciesU, List.map_map, Function.comp_def]
      rw [this, count_map_lift nsp s u hs]
      exact if_neg (fun e => hne e.symm)
  have hg : ((pairsAll nsp val).map (·.2.1)).count u = nsp * (val.map (·.2.1)).count (u / nsp) := by
    unfold pairsAll
    rw [List.map_flatMap]
    apply count_flatMap_range_const
    intro s1 hs1
    rw [List.map_flatMap, count_flatMap_range_single nsp _ u (u % nsp) (Nat.mod_lt _ h)]
    · have : (liftPairs nsp s1 (u % nsp) val).map (·.2.1) = (val.map (·.2.1)).map (fun a => a * nsp + u % nsp) := by
        simp [liftPairs, simpleUToSpeciesU, List.map_map, Function.comp_def]
      rw [this, count_map_lift nsp (u % nsp) u (Nat.mod_lt _ h)]
      simp
    · intro s hs hne
      have : (liftPairs nsp s1 s val).map (·.2.1) = (val.map (·.2.1)).map (fun a => a * nsp + s) := by
        simp [liftPairs, simpleUToSpeciesU, List.map_map, Function.comp_def]
      rw [this, count_map_lift nsp s u hs]
      exact if_neg (fun e => hne e.symm)
  rw [hf, hg]; ring

end TenpyModel.C19.Ext
