import TenpyModel.C19.Variants
import Mathlib.Tactic.Linarith
import Mathlib.Tactic.Ring
/-! Mixed-radix lemmas behind `Lattice._strides`, `np.lexsort(order.T)` and `lat2mps_idx`. -/
namespace TenpyModel.C19

/-- the index tuple lies in the box `0 ≤ x_a < shape_a` (and has the right length) -/
def InGrid : List Nat → List Int → Prop
  | [], [] => True
  | L :: Ls, x :: xs => 0 ≤ x ∧ x < (L : Int) ∧ InGrid Ls xs
  | _, _ => False

/-- F-style (first index fastest) flat index of `(x_0, ..., x_{D-1}, u)` for sizes `Ls`;
the last entry `u` has no size attached. -/
def horner : List Int → List Nat → Int
  | x :: xs, L :: Ls => x + (L : Int) * horner xs Ls
  | x :: _, [] => x
  | [], _ => 0

theorem dot_nil_right (a : List Int) : dot a [] = 0 := by
  cases a <;> rfl

theorem dot_stridesFrom (idx : List Int) (s : Int) (Ls : List Nat) :
    dot idx (stridesFrom s Ls) = s * horner idx Ls := by
  induction Ls generalizing idx s with
  | nil =>
    cases idx with
    | nil => simp [dot, horner]
    | cons x xs => simp [stridesFrom, dot, horner, dot_nil_right]; ring
  | cons L Ls ih =>
    cases idx with
    | nil => simp [dot, horner]
    | cons x xs => simp only [stridesFrom, dot, horner, ih]; ring

theorem inGrid_length {shape : List Nat} {r : List Int} (h : InGrid shape r) : r.length = shape.length := by
  induction shape generalizing r with
  | nil => cases r <;> simp_all [InGrid]
  | cons L Ls ih =>
    cases r with
    | nil => simp [InGrid] at h
    | cons x xs => simp [ih h.2.2]

theorem prodNat_append_singleton (Ls : List Nat) (Lu : Nat) : prodNat (Ls ++ [Lu]) = prodNat Ls * Lu := by
  induction Ls with
  | nil => simp [prodNat]
  | cons L Ls ih => simp [prodNat, ih, Nat.mul_assoc]

theorem horner_bounds (Ls : List Nat) (Lu : Nat) (r : List Int) (h : InGrid (Ls ++ [Lu]) r) :
    0 ≤ horner r Ls ∧ horner r Ls < (prodNat (Ls ++ [Lu]) : Nat) := by
  induction Ls generalizing r with
  | nil =>
    match r, h with
    | [u], h => simp [InGrid] at h; simp [horner, prodNat]; omega
    | _ :: _ :: _, h => simp [InGrid] at h
  | cons L Ls ih =>
    match r, h with
    | x :: xs, h =>
      obtain ⟨h0, h1, h2⟩ := h
      obtain ⟨i0, i1⟩ := ih xs h2
      simp only [horner, List.cons_append, prodNat]
      push_cast
      constructor
      · nlinarith
      · nlinarith

theorem horner_inj (Ls : List Nat) (Lu : Nat) (r s : List Int) (hr : InGrid (Ls ++ [Lu]) r)
    (hs : InGrid (Ls ++ [Lu]) s) (h : horner r Ls = horner s Ls) : r = s := by
  induction Ls generalizing r s with
  | nil =>
    match r, s, hr, hs with
    | [u], [v], _, _ => simp [horner] at h; simp [h]
    | _ :: _ :: _, _, hr, _ => simp [InGrid] at hr
    | [_], _ :: _ :: _, _, hs => simp [InGrid] at hs
  | cons L Ls ih =>
    match r, s, hr, hs with
    | x :: xs, y :: ys, hr, hs =>
      obtain ⟨x0, x1, hx⟩ := hr
      obtain ⟨y0, y1, hy⟩ := hs
      simp only [horner] at h
      have hxy : x = y ∧ horner xs Ls = horner ys Ls := by
        have e1 : (x + (L : Int) * horner xs Ls) % (L : Int) = x := by
          rw [Int.add_mul_emod_self_left]; exact Int.emod_eq_of_lt x0 x1
        have e2 : (y + (L : Int) * horner ys Ls) % (L : Int) = y := by
          rw [Int.add_mul_emod_self_left]; exact Int.emod_eq_of_lt y0 y1
        have hxy : x = y := by rw [← e1, ← e2, h]
        refine ⟨hxy, ?_⟩
        subst hxy
        have hL : (L : Int) ≠ 0 := by omega
        have : (L : Int) * horner xs Ls = (L : Int) * horner ys Ls := by omega
        exact Int.eq_of_mul_eq_mul_left hL this
      rw [hxy.1, ih xs ys hx hy hxy.2]

/-- the comparison used by `np.lexsort(order.T)` agrees with the flat F-style index inside the grid -/
theorem revLt_iff_horner (Ls : List Nat) (Lu : Nat) (r s : List Int) (hr : InGrid (Ls ++ [Lu]) r)
    (hs : InGrid (Ls ++ [Lu]) s) : revLt r s = true ↔ horner r Ls < horner s Ls := by
  induction Ls generalizing r s with
  | nil =>
    match r, s, hr, hs with
    | [u], [v], _, _ => simp [revLt, horner]
    | _ :: _ :: _, _, hr, _ => simp [InGrid] at hr
    | [_], _ :: _ :: _, _, hs => simp [InGrid] at hs
  | cons L Ls ih =>
    match r, s, hr, hs with
    | x :: xs, y :: ys, hr, hs =>
      obtain ⟨x0, x1, hx⟩ := hr
      obtain ⟨y0, y1, hy⟩ := hs
      have ih' := ih xs ys hx hy
      have inj := horner_inj Ls Lu xs ys hx hy
      simp only [revLt, horner, Bool.or_eq_true, Bool.and_eq_true, beq_iff_eq, decide_eq_true_eq]
      constructor
      · rintro (h | ⟨h1, h2⟩)
        · have := ih'.1 h
          nlinarith
        · subst h1; omega
      · intro h
        by_cases hlt : horner xs Ls < horner ys Ls
        · exact Or.inl (ih'.2 hlt)
        · by_cases heq : horner xs Ls = horner ys Ls
          · right
            refine ⟨inj heq, ?_⟩
            rw [heq] at h; omega
          · exfalso
            have : horner ys Ls + 1 ≤ horner xs Ls := by omega
            nlinarith

theorem modShape_of_inGrid (shape : List Nat) (r : List Int) (h : InGrid shape r) : modShape r shape = r := by
  induction shape generalizing r with
  | nil => cases r <;> simp_all [InGrid, modShape]
  | cons L Ls ih =>
    match r, h with
    | x :: xs, h =>
      obtain ⟨h0, h1, h2⟩ := h
      simp [modShape, ih xs h2, Int.emod_eq_of_lt h0 h1]

end TenpyModel.C19
