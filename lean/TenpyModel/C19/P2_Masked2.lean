import TenpyModel.C19.P2_Masked
namespace TenpyModel.C19

theorem masked_main {α : Type} (l : Lat) (ok : LatOK l) (A : List α) (mpsInds : List Int)
    (hv : ∀ i ∈ mpsInds, ValidMps l i) (hnd : mpsInds.Nodup) (hlen : A.length = mpsInds.length) :
    let rows := mpsInds.map (mps2latIdx l)
    let xs := rows.map (·.headD 0)
    let maxX := xs.foldl max (xs.headD 0)
    let minX := xs.foldl min (xs.headD 0)
    let s0 : Int := max (l.Ls.headD 0 : Int) (maxX + 1) + (if minX < 0 then -minX else 0)
    let shape := (s0.toNat :: l.Ls.tail) ++ [l.Lu]
    ∃ data, mps2latValuesMasked l A mpsInds true true = some (shape, data) ∧ data.length = prodNat shape ∧
      (∀ n (hn : n < mpsInds.length), InGrid shape (wrapRow s0 (mps2latIdx l mpsInds[n])) ∧
        data[(flatC shape (wrapRow s0 (mps2latIdx l mpsInds[n]))).toNat]? = (A[n]?).map some) ∧
      (∀ p, p < prodNat shape →
        (∀ n (hn : n < mpsInds.length), p ≠ (flatC shape (wrapRow s0 (mps2latIdx l mpsInds[n]))).toNat) →
        data[p]? = some none) := by
  intro rows xs maxX minX s0 shape
  have hmodel : mps2latValuesMasked l A mpsInds true true =
      if rows.any (fun r => decide (r.headD 0 ≥ s0) || decide (r.headD 0 < -s0)) then none
      else some (shape, scatter (List.replicate (prodNat shape) none)
        (rows.map (fun r => (flatC shape (wrapRow s0 r)).toNat)) (A.map some)) := by
    rfl
  have hLpos : (0 : Int) < (l.Ls.headD 0 : Nat) := by
    have := ok.rpos
    have hr := ok.rings
    cases hL : l.Ls with
    | nil => simp [hL] at hr
    | cons L Lt => simp [hL] at hr ⊢; omega
  -- every row: head within [minX, maxX], tail in the grid
  have hrow : ∀ i ∈ mpsInds, ∃ x rest, mps2latIdx l i = x :: rest ∧ InGrid (l.Ls.tail ++ [l.Lu]) rest ∧
      minX ≤ x ∧ x ≤ maxX := by
    intro i hi
    obtain ⟨x, rest, e, hin⟩ := ok.masked_row (hv i hi)
    have hx : x ∈ xs := by
      refine List.mem_map.2 ⟨mps2latIdx l i, List.mem_map.2 ⟨i, hi, rfl⟩, by rw [e]; rfl⟩
    exact ⟨x, rest, e, hin, foldl_min_bounds xs x hx, foldl_max_bounds xs x hx⟩
  have hs0pos : 0 < s0 := by
    simp only [s0]; split <;> omega
  have hcast : ((s0.toNat : Nat) : Int) = s0 := by omega
  have hany : rows.any (fun r => decide (r.headD 0 ≥ s0) || decide (r.headD 0 < -s0)) = false := by
    rw [Bool.eq_false_iff]
    intro h
    obtain ⟨r, hr, hc⟩ := List.any_eq_true.1 h
    obtain ⟨i, hi, rfl⟩ := List.mem_map.1 hr
    obtain ⟨x, rest, e, _, h1, h2⟩ := hrow i hi
    obtain ⟨_, _, n1, n2, _⟩ := wrap_head_facts (l.Ls.headD 0 : Nat) maxX minX x hLpos h1 h2
    rw [e] at hc
    simp only [List.headD_cons, Bool.or_eq_true, decide_eq_true_eq] at hc
    rcases hc with hc | hc
    · exact n1 (of_decide_eq_true hc)
    · exact n2 (of_decide_eq_true hc)
  have hgrid : ∀ i ∈ mpsInds, InGrid shape (wrapRow s0 (mps2latIdx l i)) := by
    intro i hi
    obtain ⟨x, rest, e, hin, h1, h2⟩ := hrow i hi
    obtain ⟨w0, w1, _⟩ := wrap_head_facts (l.Ls.headD 0 : Nat) maxX minX x hLpos h1 h2
    rw [e]
    show InGrid (s0.toNat :: (l.Ls.tail ++ [l.Lu])) ((if x < 0 then x + s0 else x) :: rest)
    exact ⟨w0, by rw [hcast]; exact w1, hin⟩
  have hwinj : ∀ i ∈ mpsInds, ∀ j ∈ mpsInds,
      wrapRow s0 (mps2latIdx l i) = wrapRow s0 (mps2latIdx l j) → i = j := by
    intro i hi j hj he
    obtain ⟨x, rest, e, _, h1, h2⟩ := hrow i hi
    obtain ⟨y, rest', e', _, g1, g2⟩ := hrow j hj
    obtain ⟨_, _, _, _, winj⟩ := wrap_head_facts (l.Ls.headD 0 : Nat) maxX minX x hLpos h1 h2
    rw [e, e'] at he
    simp only [wrapRow, List.cons.injEq] at he
    have hxy := winj y g1 g2 he.1
    apply ok.mps2lat_inj (hv i hi) (hv j hj)
    rw [e, e', hxy, he.2]
  set pos := rows.map (fun r => (flatC shape (wrapRow s0 r)).toNat) with hpos
  have hposeq : pos = mpsInds.map (fun i => (flatC shape (wrapRow s0 (mps2latIdx l i))).toNat) := by
    rw [hpos, List.map_map]; rfl
  have hposnd : pos.Nodup := by
    rw [hposeq]
    apply List.Nodup.map_on _ hnd
    intro i hi j hj h
    have gi := hgrid i hi
    have gj := hgrid j hj
    have b1 := cIndex_bounds shape _ gi
    have b2 := cIndex_bounds shape _ gj
    simp only [flatC_eq] at h
    exact hwinj i hi j hj (cIndex_inj shape _ _ gi gj (by omega))
  have hb : ∀ p ∈ pos, p < (List.replicate (prodNat shape) (none : Option α)).length := by
    intro p hp
    rw [hposeq] at hp
    obtain ⟨i, hi, rfl⟩ := List.mem_map.1 hp
    have b1 := cIndex_bounds shape _ (hgrid i hi)
    simp only [flatC_eq, List.length_replicate]
    omega
  refine ⟨scatter (List.replicate (prodNat shape) none) pos (A.map some), ?_, ?_, ?_, ?_⟩
  · rw [hmodel, hany]; rfl
  · rw [scatter_length]; simp
  · intro n hn
    refine ⟨hgrid _ (List.getElem_mem hn), ?_⟩
    have hn' : n < pos.length := by simp [hpos, rows, hn]
    have := scatter_getElem? (List.replicate (prodNat shape) none) pos (A.map some) hposnd
      (by simp [hpos, rows, hlen]) hb n hn'
    have hposn : pos[n] = (flatC shape (wrapRow s0 (mps2latIdx l mpsInds[n]))).toNat := by
      simp [hposeq]
    rw [hposn] at this
    rw [this]; simp
  · intro p hp hne
    have hnot : p ∉ pos := by
      intro hmem
      rw [hposeq] at hmem
      obtain ⟨n, hn, e⟩ := List.mem_iff_getElem.1 hmem
      simp only [List.length_map] at hn
      exact hne n hn (by simpa using e.symm)
    rw [scatter_getElem?_not_mem _ _ _ _ hnot]
    simp [hp]

end TenpyModel.C19
