import TenpyModel.C19.ValuesProofs
/-!
# C19 — index maps: property theorems

"For every ordering and boundary condition, the maps between MPS index and lattice coordinates are
mutually inverse bijections (extended periodically for infinite systems) ... and reshaping per-site
data to lattice shape puts each value at the coordinates of its site."

All statements are for **any dimension** `Ls.length ≥ 1`, **any sizes** `Ls`, `Lu ≥ 1` and **any
order that lists every grid point once** (`GridOrder`, i.e. any permutation of the grid).  The
lattice object is the one built by the model of `Lattice.__init__` / the `order` setter (`Lat.mk'`):
`_perm` really is the merge-sorted `lexsort`, `_strides` the F-style strides.
-/
open TenpyModel.C19

/-- **Round trip, finite MPS.** `lat2mps_idx(mps2lat_idx(i)) = i` for `0 ≤ i < N_sites`, and
`mps2lat_idx(lat2mps_idx(x)) = x` for every lattice index `x` of the grid. -/
theorem C19_roundtrip_finite (Ls : List Nat) (Lu : Nat) (bc : List Bool) (sh : Option (List Int))
    (order : List (List Int)) (hne : Ls ≠ []) (hpos : ∀ L ∈ Ls, 0 < L) (hu : 0 < Lu)
    (hg : GridOrder (Ls ++ [Lu]) order) :
    let l := Lat.mk' Ls Lu bc sh true order
    (∀ i : Int, 0 ≤ i → i < (prodNat (Ls ++ [Lu]) : Nat) → lat2mpsIdx l (mps2latIdx l i) = i) ∧
    (∀ x, InGrid (Ls ++ [Lu]) x → mps2latIdx l (lat2mpsIdx l x) = x) := by
  intro l
  have ok : LatOK l := latOK_mk' Ls Lu bc sh true order hne hpos hu hg
  refine ⟨fun i h0 h1 => ok.roundtrip_mps_finite rfl i h0 ?_, fun x hx => ok.roundtrip_lat_finite rfl x ?_⟩
  · show i < (order.length : Int); rw [hg.length_eq]; exact h1
  · exact hg.mem_iff.2 hx

/-- **Round trip, infinite / segment MPS, all integers.**  With the periodic extension
(`x_0 ↦ x_0 + N_rings` ⇔ `i ↦ i + N_sites`):
`lat2mps_idx(mps2lat_idx(i)) = i` for **every** integer `i`, and
`mps2lat_idx(lat2mps_idx(x)) = x` for every lattice index with arbitrary integer `x_0` and the
other entries inside the grid.  Both maps commute with the translation by one MPS unit cell. -/
theorem C19_roundtrip_infinite (L0 : Nat) (Lt : List Nat) (Lu : Nat) (bc : List Bool)
    (sh : Option (List Int)) (order : List (List Int)) (hpos : ∀ L ∈ L0 :: Lt, 0 < L) (hu : 0 < Lu)
    (hg : GridOrder (L0 :: Lt ++ [Lu]) order) :
    let l := Lat.mk' (L0 :: Lt) Lu bc sh false order
    let N : Int := (prodNat (L0 :: Lt ++ [Lu]) : Nat)
    (∀ i : Int, lat2mpsIdx l (mps2latIdx l i) = i) ∧
    (∀ (x0 : Int) (xt : List Int), InGrid (Lt ++ [Lu]) xt →
      mps2latIdx l (lat2mpsIdx l (x0 :: xt)) = x0 :: xt) ∧
    (∀ i : Int, mps2latIdx l (i + N) = addHead (mps2latIdx l i) L0) ∧
    (∀ (x0 : Int) (xt : List Int), InGrid (Lt ++ [Lu]) xt →
      lat2mpsIdx l ((x0 + L0) :: xt) = lat2mpsIdx l (x0 :: xt) + N) := by
  intro l N
  have ok : LatOK l := latOK_mk' (L0 :: Lt) Lu bc sh false order (by simp) hpos hu hg
  have hL0 : 0 < L0 := hpos L0 (by simp)
  have hN : (l.nSites : Int) = N := rfl
  have hR : l.nRings = L0 := rfl
  -- every extended lattice index is a cell site translated by whole unit cells
  have decomp : ∀ (x0 : Int) (xt : List Int), InGrid (Lt ++ [Lu]) xt →
      ((x0 % (L0 : Int)) :: xt) ∈ l.order ∧
      (x0 :: xt) = addHead ((x0 % (L0 : Int)) :: xt) ((x0 / (L0 : Int)) * l.nRings) := by
    intro x0 xt hxt
    constructor
    · apply hg.mem_iff.2
      exact ⟨Int.emod_nonneg _ (by omega), Int.emod_lt_of_pos _ (by omega), hxt⟩
    · simp only [addHead, hR, List.cons.injEq, and_true]
      have := Int.emod_add_mul_ediv x0 (L0 : Int)
      have e : x0 / (L0 : Int) * (L0 : Int) = (L0 : Int) * (x0 / (L0 : Int)) := by ring
      omega
  refine ⟨ok.roundtrip_mps_infinite rfl, ?_, ?_, ?_⟩
  · intro x0 xt hxt
    obtain ⟨hmem, heq⟩ := decomp x0 xt hxt
    rw [heq]; exact ok.roundtrip_lat_infinite rfl _ hmem _
  · intro i
    have := ok.mps2lat_periodic rfl i
    rw [hN, hR] at this; exact this
  · intro x0 xt hxt
    obtain ⟨hmem, heq⟩ := decomp x0 xt hxt
    have e1 : ((x0 + (L0 : Int)) :: xt) = addHead ((x0 % (L0 : Int)) :: xt) ((x0 / (L0 : Int) + 1) * l.nRings) := by
      simp only [addHead, hR, List.cons.injEq, and_true]
      have := Int.emod_add_mul_ediv x0 (L0 : Int)
      have e : (x0 / (L0 : Int) + 1) * (L0 : Int) = (L0 : Int) * (x0 / (L0 : Int)) + L0 := by ring
      omega
    rw [e1, heq, ok.lat2mps_periodic rfl _ hmem, ok.lat2mps_periodic rfl _ hmem, hN]
    ring

/-- **Irregular lattices** (`IrregularLattice`: any duplicate-free, non-empty set of sites inside
the enlarged grid — removed sites simply do not occur in `order`, added sites do): the index maps
are mutually inverse on the existing sites, for finite MPS and (all integers) for infinite MPS. -/
theorem C19_irregular_roundtrip (Ls : List Nat) (Lu : Nat) (bc : List Bool) (sh : Option (List Int))
    (fin : Bool) (order : List (List Int)) (hne : Ls ≠ []) (hpos : ∀ L ∈ Ls, 0 < L)
    (hnd : order.Nodup) (hin : ∀ r ∈ order, InGrid (Ls ++ [Lu]) r) (hN : 0 < order.length) :
    let l := Lat.mkIrregular Ls Lu bc sh fin order
    (fin = true →
      (∀ i : Int, 0 ≤ i → i < order.length → lat2mpsIdx l (mps2latIdx l i) = i) ∧
      (∀ x ∈ order, mps2latIdx l (lat2mpsIdx l x) = x)) ∧
    (fin = false →
      (∀ i : Int, lat2mpsIdx l (mps2latIdx l i) = i) ∧
      (∀ x ∈ order, ∀ m : Int, mps2latIdx l (lat2mpsIdx l (addHead x (m * (Ls.headD 0 : Nat))))
        = addHead x (m * (Ls.headD 0 : Nat))) ∧
      (∀ i : Int, mps2latIdx l (i + order.length) = addHead (mps2latIdx l i) (Ls.headD 0 : Nat))) := by
  intro l
  have ok : LatOK l := latOK_mkIrregular Ls Lu bc sh fin order hne hpos hnd hin hN
  constructor
  · intro hf
    exact ⟨fun i h0 h1 => ok.roundtrip_mps_finite hf i h0 h1, fun x hx => ok.roundtrip_lat_finite hf x hx⟩
  · intro hf
    exact ⟨ok.roundtrip_mps_infinite hf, fun x hx m => ok.roundtrip_lat_infinite hf x hx m,
      fun i => ok.mps2lat_periodic hf i⟩

/-- **`mps_idx_fix_u(u)`** lists exactly the MPS indices whose site has unit-cell index `u`,
in ascending order. -/
theorem C19_mps_idx_fix_u (Ls : List Nat) (Lu : Nat) (bc : List Bool) (sh : Option (List Int))
    (fin : Bool) (order : List (List Int)) (u : Nat) (hu : u < Lu) :
    let l := Lat.mk' Ls Lu bc sh fin order
    (∀ i : Int, i ∈ mpsIdxFixU l (some u) ↔
      ∃ k : Nat, i = k ∧ ∃ h : k < order.length, (order[k]).getLastD 0 = (u : Int)) ∧
    (mpsIdxFixU l (some u)).Pairwise (· < ·) := by
  intro l
  have hfix : mpsIdxFixU l (some u) = nonzeroU order u := by
    show ((List.range Lu).map (nonzeroU order)).getD u [] = nonzeroU order u
    rw [List.getD_eq_getElem?_getD]; simp [hu]
  rw [hfix]
  constructor
  · intro i
    simp only [nonzeroU, List.mem_map, List.mem_filter, List.mem_zipIdx_iff_getElem?, beq_iff_eq]
    constructor
    · rintro ⟨⟨r, k⟩, ⟨hget, hlast⟩, rfl⟩
      simp only at hget hlast
      obtain ⟨hk, hrk⟩ := List.getElem?_eq_some_iff.1 hget
      exact ⟨k, rfl, hk, by rw [hrk]; exact hlast⟩
    · rintro ⟨k, rfl, hk, hlast⟩
      exact ⟨(order[k], k), ⟨by simp [hk], hlast⟩, rfl⟩
  · unfold nonzeroU
    have h1 : ((order.zipIdx.filter (fun ri => ri.1.getLastD 0 == (u : Int))).map Prod.snd).Pairwise (· < ·) := by
      apply List.Pairwise.sublist (List.Sublist.map _ List.filter_sublist)
      rw [List.zipIdx_map_snd]
      exact List.pairwise_lt_range' 1
    have h2 := List.Pairwise.map (fun (k : Nat) => (k : Int)) (R := (· < ·)) (S := (· < ·))
      (fun a b h => by omega) h1
    simpa only [List.map_map, Function.comp_def] using h2

/-- **`mps2lat_values` places `A[i]` at `mps2lat_idx(i)`** (1D array `A`, `u=None`): the result has
`prod(shape)` entries and the entry at the C-order position of the lattice index of site `i` is
`A[i]` (`A[i]? = some A[i]` for an `A` of the required length `N_sites`). -/
theorem C19_values {α : Type} (Ls : List Nat) (Lu : Nat) (bc : List Bool) (sh : Option (List Int))
    (fin : Bool) (order : List (List Int)) (hg : GridOrder (Ls ++ [Lu]) order)
    (A : List α) (i : Nat) (hi : i < prodNat (Ls ++ [Lu])) :
    let l := Lat.mk' Ls Lu bc sh fin order
    (mps2latValues l A none).length = prodNat (Ls ++ [Lu]) ∧
    (mps2latValues l A none)[(flatC (Ls ++ [Lu]) (order.getD i [])).toNat]? = some A[i]? := by
  intro l
  have hlen := hg.length_eq
  set shape := Ls ++ [Lu] with hshape
  set N := prodNat shape with hNdef
  set pos := order.map (fun r => (flatC shape r).toNat) with hpos
  set vals : List (Option Int) := (List.range N).map (fun k => some (Int.ofNat k)) with hvals
  have hv : l.valsIdx = scatter (List.replicate N none) pos vals := rfl
  have hnd : pos.Nodup := by
    rw [hpos]
    apply List.Nodup.map_on _ hg.nodup
    intro r hr s hs h
    have hr' := hg.mem_iff.1 hr
    have hs' := hg.mem_iff.1 hs
    have b1 := cIndex_bounds shape r hr'
    have b2 := cIndex_bounds shape s hs'
    simp only [flatC_eq] at h
    exact cIndex_inj shape r s hr' hs' (by omega)
  have hb : ∀ p ∈ pos, p < (List.replicate N (none : Option Int)).length := by
    intro p hp
    rw [hpos] at hp
    obtain ⟨r, hr, rfl⟩ := List.mem_map.1 hp
    have b1 := cIndex_bounds shape r (hg.mem_iff.1 hr)
    simp only [flatC_eq, List.length_replicate]
    omega
  have hio : i < order.length := by omega
  have hposi : pos[i]'(by simpa [hpos] using hio) = (flatC shape (order.getD i [])).toNat := by
    rw [getD_eq_getElem' _ _ hio]; simp [hpos]
  constructor
  · simp [mps2latValues, hv, scatter_length]
  · have := scatter_getElem? (List.replicate N none) pos vals hnd (by simp [hpos, hvals, hlen]) hb i
      (by simpa [hpos] using hio)
    rw [hposi] at this
    simp only [mps2latValues, hv, List.getElem?_map, this]
    simp [hvals, hi]

/-- Non-vacuity: a 2x2 grid with one site per cell in a scrambled order is a `GridOrder`; the
theorems then give concrete facts about the (merge-sorted) `_perm` of that lattice, e.g. the round
trip of MPS index `-3` of the infinite system and the placement of `A[2]`. -/
example : GridOrder ([2, 2] ++ [1]) [[1, 0, 0], [0, 1, 0], [0, 0, 0], [1, 1, 0]] := by
  unfold GridOrder; decide

example :
    let l := Lat.mk' [2, 2] 1 [false, false] none false [[1, 0, 0], [0, 1, 0], [0, 0, 0], [1, 1, 0]]
    lat2mpsIdx l (mps2latIdx l (-3)) = -3 ∧ mps2latIdx l (-3) = [-2, 1, 0] :=
  ⟨(C19_roundtrip_infinite 2 [2] 1 [false, false] none _ (by decide) (by decide)
      (by unfold GridOrder; decide)).1 (-3), by decide⟩

example :
    (mps2latValues (Lat.mk' [2, 2] 1 [false, false] none false [[1, 0, 0], [0, 1, 0], [0, 0, 0], [1, 1, 0]])
      [10, 11, 12, 13] none)[0]? = some (some 12) :=
  (C19_values [2, 2] 1 [false, false] none false _ (by unfold GridOrder; decide) [10, 11, 12, 13] 2
    (by decide)).2
