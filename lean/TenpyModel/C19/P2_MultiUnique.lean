import TenpyModel.C19.P2_MultiExact
/-! `possible_multi_couplings`: no placement is returned twice. -/
namespace TenpyModel.C19

theorem mul_small {t L d : Int} (hL : 0 < L) (h : d = t * L) (h1 : -L < d) (h2 : d < L) : t = 0 := by
  by_contra hne
  rcases Int.lt_or_gt_of_ne hne with ht | ht
  · have : t * L ≤ (-1) * L := Int.mul_le_mul_of_nonneg_right (by omega) (by omega)
    omega
  · have : 1 * L ≤ t * L := Int.mul_le_mul_of_nonneg_right (by omega) (by omega)
    omega

theorem list_ext_getD (a b : List Int) (hl : a.length = b.length) (h : ∀ i, i < a.length → a.getD i 0 = b.getD i 0) :
    a = b := by
  apply List.ext_getElem hl
  intro i h1 h2
  have := h i h1
  rwa [getD_eq_getElem' _ _ h1, getD_eq_getElem' _ _ h2] at this

/-- two box positions from which one operator reaches the same site coincide -/
theorem target_base_inj (l : Lat) (hne : l.Ls ≠ []) (hbc : l.bc.length = l.Ls.length) (hpos : ∀ L ∈ l.Ls, 0 < L)
    (li li' e y : List Int) (k0 k0' : Int) (he : e.length = l.Ls.length)
    (h1 : InGrid l.Ls li) (h2 : InGrid l.Ls li')
    (t1 : Target l (vadd li e) y k0) (t2 : Target l (vadd li' e) y k0') : li = li' := by
  obtain ⟨ks, a1, a2, a3, a4, a5, a6, a7, a8⟩ := (target_iff_idx l hne hbc _ _ _).1 t1
  obtain ⟨ks', b1, b2, b3, b4, b5, b6, b7, b8⟩ := (target_iff_idx l hne hbc _ _ _).1 t2
  obtain ⟨g1, g2⟩ := (inGrid_iff_getD _ _).1 h1
  obtain ⟨g1', g2'⟩ := (inGrid_iff_getD _ _).1 h2
  have hD : 0 < l.Ls.length := List.length_pos_iff.2 hne
  have hLpos : ∀ a, a < l.Ls.length → (0 : Int) < (l.Ls.getD a 0 : Nat) := by
    intro a ha
    have := hpos _ (getD_mem_of_lt l.Ls 0 a ha)
    omega
  have htail : ∀ a, a + 1 < l.Ls.length → ks.getD a 0 = ks'.getD a 0 ∧ li.getD (a + 1) 0 = li'.getD (a + 1) 0 := by
    intro a ha
    obtain ⟨c1, _, _, _⟩ := a4 a ha
    obtain ⟨d1, _, _, _⟩ := b4 a ha
    rw [vadd_getD _ _ (by rw [g1, he])] at c1
    rw [vadd_getD _ _ (by rw [g1', he])] at d1
    have hL := hLpos (a + 1) ha
    obtain ⟨p1, p2⟩ := g2 (a + 1) ha
    obtain ⟨q1, q2⟩ := g2' (a + 1) ha
    have hd : li.getD (a + 1) 0 - li'.getD (a + 1) 0 = (ks.getD a 0 - ks'.getD a 0) * (l.Ls.getD (a + 1) 0 : Nat) := by
      rw [Int.sub_mul]; omega
    have := mul_small hL hd (by omega) (by omega)
    constructor
    · omega
    · rw [this] at hd; omega
  have hks : ks = ks' := by
    apply list_ext_getD _ _ (by omega)
    intro i hi
    exact (htail i (by omega)).1
  subst hks
  apply list_ext_getD _ _ (by rw [g1, g1'])
  intro a ha
  rw [g1] at ha
  cases a with
  | succ a => exact (htail a ha).2
  | zero =>
    rw [vadd_getD _ _ (by rw [g1, he])] at a5
    rw [vadd_getD _ _ (by rw [g1', he])] at b5
    have hL := hLpos 0 hD
    obtain ⟨p1, p2⟩ := g2 0 hD
    obtain ⟨q1, q2⟩ := g2' 0 hD
    have hd : li.getD 0 0 - li'.getD 0 0 = (k0 - k0') * (l.Ls.getD 0 0 : Nat) := by
      rw [Int.sub_mul]; omega
    have := mul_small hL hd (by omega) (by omega)
    rw [this] at hd; omega

end TenpyModel.C19
