import TenpyModel.C19.P2_MultiExact
/-! `possible_multi_couplings`: no placement is returned twice. -/
namespace TenpyModel.C19

theorem mul_small {t L d : Int} (hL : 0 < L) (h : d = t * L) (h1 : -L < d) (h2 : d < L) : t = 0 := by
  by_contra hne
  rcases Int.lt_or_gt_of_ne hne with ht | ht
  · have : t * L ≤ (-1) * L := Int.mul_le_mul_of_nonneg_right (by omega) (by omega)
    omega
  · have : 1 * L ≤ t * L := Int.mul_le_mul_of_nonneg_right (by omega) (by omega)
    omega

theorem p2_list_ext_getD (a b : List Int) (hl : a.length = b.length) (h : ∀ i, i < a.length → a.getD i 0 = b.getD i 0) :
    a = b := by
  apply List.ext_getElem hl
  intro i h1 h2
  have := h i h1
  rwa [getD_eq_getElem' _ _ h1, getD_eq_getElem' _ _ h2] at this

/-- two box positions from which one operator reaches the same site coincide -/
theorem target_base_inj (l : Lat) (hne : l.Ls ≠ []) (hbc : l.bc.length = l.Ls.length) (hpos : ∀ L ∈ l.Ls, 0 < L)
    (li li' e y : List Int) (k0 k0' : Int) (he : e.length = l.Ls.length)
    (h1 : InGrid l.Ls li) (h2 : InGrid l.Ls li')
    (t1 : Target l (vadd li e) y k0) (t2 : Target l (vadd li' e) y k0') : li = li' := by
  obtain ⟨ks, a1, a2, a3, a4, a5, a6, a7, a8⟩ := (target_iff_idx l hne hbc _ _ _).1 t1
  obtain ⟨ks', b1, b2, b3, b4, b5, b6, b7, b8⟩ := (target_iff_idx l hne hbc _ _ _).1 t2
  obtain ⟨g1, g2⟩ := (inGrid_iff_getD _ _).1 h1
  obtain ⟨g1', g2'⟩ := (inGrid_iff_getD _ _).1 h2
  have hD : 0 < l.Ls.length := List.length_pos_iff.2 hne
  have hLpos : ∀ a, a < l.Ls.length → (0 : Int) < (l.Ls.getD a 0 : Nat) := by
    intro a ha
    have := hpos _ (getD_mem_of_lt l.Ls 0 a ha)
    omega
  have htail : ∀ a, a + 1 < l.Ls.length → ks.getD a 0 = ks'.getD a 0 ∧ li.getD (a + 1) 0 = li'.getD (a + 1) 0 := by
    intro a ha
    obtain ⟨c1, _, _, _⟩ := a4 a ha
    obtain ⟨d1, _, _, _⟩ := b4 a ha
    rw [vadd_getD _ _ (by rw [g1, he])] at c1
    rw [vadd_getD _ _ (by rw [g1', he])] at d1
    have hL := hLpos (a + 1) ha
    obtain ⟨p1, p2⟩ := g2 (a + 1) ha
    obtain ⟨q1, q2⟩ := g2' (a + 1) ha
    have hd : li.getD (a + 1) 0 - li'.getD (a + 1) 0 = (ks.getD a 0 - ks'.getD a 0) * (l.Ls.getD (a + 1) 0 : Nat) := by
      rw [Int.sub_mul]; omega
    have := mul_small hL hd (by omega) (by omega)
    constructor
    · omega
    · rw [this] at hd; omega
  have hks : ks = ks' := by
    apply p2_list_ext_getD _ _ (by omega)
    intro i hi
    exact (htail i (by omega)).1
  subst hks
  apply p2_list_ext_getD _ _ (by rw [g1, g1'])
  intro a ha
  rw [g1] at ha
  cases a with
  | succ a => exact (htail a ha).2
  | zero =>
    rw [vadd_getD _ _ (by rw [g1, he])] at a5
    rw [vadd_getD _ _ (by rw [g1', he])] at b5
    have hL := hLpos 0 hD
    obtain ⟨p1, p2⟩ := g2 0 hD
    obtain ⟨q1, q2⟩ := g2' 0 hD
    have hd : li.getD 0 0 - li'.getD 0 0 = (k0 - k0') * (l.Ls.getD 0 0 : Nat) := by
      rw [Int.sub_mul]; omega
    have := mul_small hL hd (by omega) (by omega)
    rw [this] at hd; omega


/-- the box of `multi_coupling_shape` lies inside the lattice of unit cells -/
theorem box_sub_grid (l : Lat) (dxs : List (List Int)) (hdne : dxs ≠ []) (li : List Int)
    (h : InGrid ((multiCouplingShape l dxs).1.map Int.toNat) li) : InGrid l.Ls li := by
  obtain ⟨hsl, _⟩ := multiCouplingShape_lengths l dxs
  rw [inGrid_iff_getD] at h ⊢
  obtain ⟨h1, h2⟩ := h
  rw [List.length_map, hsl] at h1 h2
  refine ⟨h1, fun a ha => ?_⟩
  obtain ⟨p1, p2⟩ := h2 a ha
  refine ⟨p1, ?_⟩
  have e1 : ((multiCouplingShape l dxs).1.map Int.toNat).getD a 0 = ((multiCouplingShape l dxs).1.getD a 0).toNat := by
    rw [List.getD_eq_getElem?_getD, List.getD_eq_getElem?_getD, List.getElem?_map]
    cases (multiCouplingShape l dxs).1[a]? <;> simp
  rw [e1, mcs_shape_getD l dxs a ha] at p2
  obtain ⟨d, hd, _⟩ := (colMin_spec dxs hdne a).2
  have m1 := (colMin_spec dxs hdne a).1 d hd
  have m2 := (colMax_spec dxs hdne a).1 d hd
  split at p2
  · simp only [Int.mul_one] at p2; omega
  · simp only [Int.mul_zero, Int.sub_zero] at p2; omega

/-- equal normalised rows: the raw indices differ by a common multiple of `N` (not at all for finite MPS) -/
theorem normalizeRow_head (l : Lat) (r r' : Int) (rs rs' : List Int)
    (h : normalizeRow l (r :: rs) = normalizeRow l (r' :: rs')) :
    ∃ t : Int, r' = r + t * (if l.finite then 0 else (l.nSites : Int)) := by
  unfold normalizeRow at h
  cases hf : l.finite with
  | true =>
    simp only [hf, if_true] at h
    exact ⟨0, by have := (List.cons.inj h).1; omega⟩
  | false =>
    simp only [hf, Bool.false_eq_true, if_false, List.map_cons] at h
    have h0 := (List.cons.inj h).1
    generalize (r :: rs).foldl min ((r :: rs).headD 0) = m at h0
    generalize (r' :: rs').foldl min ((r' :: rs').headD 0) = m' at h0
    refine ⟨m' / (l.nSites : Int) - m / (l.nSites : Int), ?_⟩
    have e1 := Int.emod_def m (l.nSites : Int)
    have e2 := Int.emod_def m' (l.nSites : Int)
    rw [Int.sub_mul, Int.mul_comm (m' / _), Int.mul_comm (m / _)]
    simp only [Bool.false_eq_true, if_false]
    omega

namespace CoupOK
variable {l : Lat} (ok : CoupOK l)
include ok

omit ok in
theorem siteAt_cell_unique {j : Int} {y y' : List Int} {u : Nat} (h1 : SiteAt l j y u) (h2 : SiteAt l j y' u) :
    y = y' := by
  obtain ⟨k, rfl, hk, hrow⟩ := h1
  obtain ⟨k', e, hk', hrow'⟩ := h2
  have : k = k' := by omega
  subst this
  have := hrow.symm.trans hrow'
  exact List.append_cancel_right this

/-- distinct box positions give distinct rows -/
theorem multiAt_inj (ops : List (List Int × Nat)) (hops : ∀ op ∈ ops, op.1.length = l.Ls.length ∧ op.2 < l.Lu)
    (hone : ops ≠ []) (li li' m : List Int)
    (h1 : InGrid ((multiCouplingShape l (ops.map (·.1))).1.map Int.toNat) li)
    (h2 : InGrid ((multiCouplingShape l (ops.map (·.1))).1.map Int.toNat) li')
    (e1 : multiAt l ops (multiCouplingShape l (ops.map (·.1))).2 li = some m)
    (e2 : multiAt l ops (multiCouplingShape l (ops.map (·.1))).2 li' = some m) : li = li' := by
  have hdne : ops.map (·.1) ≠ [] := by simpa using hone
  have g1 := box_sub_grid l _ hdne li h1
  have g2 := box_sub_grid l _ hdne li' h2
  obtain ⟨hsl, hml⟩ := multiCouplingShape_lengths l (ops.map (·.1))
  generalize (multiCouplingShape l (ops.map (·.1))).2 = mins at *
  obtain ⟨raws, f1, rfl⟩ := (ok.multiAt_spec ops mins li hops hml (inGrid_length g1) m).1 e1
  obtain ⟨raws', f2, hm⟩ := (ok.multiAt_spec ops mins li' hops hml (inGrid_length g2) _).1 e2
  cases f1 with
  | nil => exact absurd rfl hone
  | @cons op r ops' rs hop _ =>
    cases f2 with
    | @cons _ r' _ rs' hop' _ =>
      obtain ⟨t, ht⟩ := normalizeRow_head l r r' rs rs' hm
      obtain ⟨y, k0, j0, t1, s1, rfl⟩ := hop
      obtain ⟨y', k0', j0', t2, s2, rfl⟩ := hop'
      have hN := ok.toLatOK.nsites_pos
      obtain ⟨a0, a1⟩ := ok.siteAt_range s1
      obtain ⟨b0, b1⟩ := ok.siteAt_range s2
      have hj : j0 = j0' := by
        cases hf : l.finite with
        | true => simp only [hf, if_true, Int.mul_zero, Int.add_zero] at ht; exact ht.symm
        | false =>
          simp only [hf, Bool.false_eq_true, if_false] at ht
          have hd : j0' - j0 = (t + k0 - k0') * (l.nSites : Int) := by
            rw [Int.sub_mul, Int.add_mul]; omega
          have := mul_small hN hd (by omega) (by omega)
          rw [this] at hd; omega
      subst hj
      have hy := CoupOK.siteAt_cell_unique s1 s2
      subst hy
      have hel := (hops op (by simp)).1
      exact target_base_inj l ok.lsne ok.bclen ok.lpos li li' (vsub op.1 mins) y k0 k0'
        (by rw [vsub_length _ _ (by rw [hel, hml])]; exact hel) g1 g2 t1 t2

end CoupOK

theorem multi_rows_fst (l : Lat) (ops : List (List Int × Nat)) :
    (possibleMultiCouplings l ops).rows.map (·.1) =
      if (multiCouplingShape l (ops.map (·.1))).1.any (· == 0) then []
      else if (multiCouplingShape l (ops.map (·.1))).1.any (· < 0) then []
      else (castRows (cstyle ((multiCouplingShape l (ops.map (·.1))).1.map Int.toNat))).filterMap
        (multiAt l ops (multiCouplingShape l (ops.map (·.1))).2) := by
  unfold possibleMultiCouplings
  simp only
  split
  · rfl
  · split
    · rfl
    · simp only [List.map_filterMap, Option.map_map]
      congr 1
      funext li
      cases multiAt l ops (multiCouplingShape l (ops.map (·.1))).2 li <;> rfl

/-- **Uniqueness**: no row of MPS indices is returned twice. -/
theorem multi_nodup (l : Lat) (ok : CoupOK l) (ops : List (List Int × Nat))
    (hops : ∀ op ∈ ops, op.1.length = l.Ls.length ∧ op.2 < l.Lu) (hone : ops ≠ []) :
    ((possibleMultiCouplings l ops).rows.map (·.1)).Nodup := by
  rw [multi_rows_fst]
  split
  · exact List.nodup_nil
  · split
    · exact List.nodup_nil
    · rw [List.nodup_iff_pairwise_ne]
      have hnd := castRows_cstyle_nodup ((multiCouplingShape l (ops.map (·.1))).1.map Int.toNat)
      rw [List.nodup_iff_pairwise_ne] at hnd
      refine List.Pairwise.filterMap _ ?_ (List.Pairwise.and_mem.1 hnd)
      rintro a a' ⟨ha, ha', hne⟩ b hb b' hb' rfl
      exact hne (ok.multiAt_inj ops hops hone a a' b (mem_castRows_cstyle.1 ha) (mem_castRows_cstyle.1 ha') hb hb')

end TenpyModel.C19
