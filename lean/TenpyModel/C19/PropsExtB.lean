/-
Properties of `Lattice.find_coupling_pairs` (section B of `TenpyModel/C19/Ext.lean`).
-/
import TenpyModel.C19.ExtProofsB

open TenpyModel.C19.Ext

/-- keys strictly ascending; every listed coupling is a candidate at exactly that squared distance, inside the
cutoff; no empty group. -/
theorem C19_find_pairs_groups (d2 : Coup → Int) (cut2 : Int) (cands : List Coup) :
    ((sortKeys (fcpLoop d2 cut2 cands)).map (·.1)).Pairwise (· < ·) ∧
    ∀ k ps, (k, ps) ∈ sortKeys (fcpLoop d2 cut2 cands) →
      ps ≠ [] ∧ ∀ c ∈ ps, c ∈ cands ∧ d2 c = k ∧ 0 < k ∧ k ≤ cut2 := by
  have h := fcpLoop_inv d2 cut2 cands
  refine ⟨sortKeys_strict _ h.keys, ?_⟩
  intro k ps hm
  exact h.grp k ps (mem_sortKeys.1 hm)

/-- the raw loop on a 1d chain with one site, `max_dx = 1`: `(0,0,[-1])` is skipped as the reverse of `(0,0,[1])`,
`(0,0,[0])` has distance 0. -/
example : fcpLoop (fun c => c.2.2.headD 0 * c.2.2.headD 0) 2 (candidates 1 1 1) = [(1, [(0, 0, [1])])] := by
  decide

example : ∀ k ps, (k, ps) ∈ sortKeys (fcpLoop (sqDistInt [[1]] [[0]]) 3 (candidates 1 1 2)) →
    ps ≠ [] ∧ ∀ c ∈ ps, c ∈ candidates 1 1 2 ∧ sqDistInt [[1]] [[0]] c = k ∧ 0 < k ∧ k ≤ 3 :=
  (C19_find_pairs_groups _ _ _).2

/-- every candidate inside the cutoff is listed in the group of its distance as itself or reversed, never both,
nothing twice. -/
theorem C19_find_pairs_exact (d2 : Coup → Int) (cut2 : Int) (cands : List Coup)
    (hnd : cands.Nodup) :
    ∀ c ∈ cands, 0 < d2 c → d2 c ≤ cut2 →
      ∃ ps, (d2 c, ps) ∈ sortKeys (fcpLoop d2 cut2 cands) ∧ ps.Nodup ∧ (c ∈ ps ∨ rev c ∈ ps) ∧
        (c ≠ rev c → ¬ (c ∈ ps ∧ rev c ∈ ps)) := by
  have h2 := fcpLoop_inv2 d2 cut2 cands hnd
  intro c hc h0 h1
  obtain ⟨ps, hps, hor⟩ := h2.ex c hc h0 h1
  obtain ⟨n1, n2⟩ := h2.nd _ ps hps
  exact ⟨ps, mem_sortKeys.2 hps, n1, hor, fun hne hboth => n2 c hboth.1 hne hboth.2⟩

/-- squared distance is symmetric under reversing a coupling -/
theorem C19_sqDist_symm (basis pos : List (List Int)) (c : Coup) :
    sqDistInt basis pos (rev c) = sqDistInt basis pos c :=
  sqDistInt_rev basis pos c

example : sqDistInt [[2, 0], [1, 3]] [[0, 0], [1, 1]] (rev (0, 1, [1, -2])) = 26 ∧
    sqDistInt [[2, 0], [1, 3]] [[0, 0], [1, 1]] (0, 1, [1, -2]) = 26 := by decide

/-- the candidates are exactly the `(u1, u2, dx)` with `u1, u2 < Lu`, `dx` of length `dim` with entries in
`[-m, m]`, each once. -/
theorem C19_find_pairs_candidates (Lu dim m : Nat) :
    (candidates Lu dim m).Nodup ∧
    ∀ c : Coup, c ∈ candidates Lu dim m ↔
      c.1 < Lu ∧ c.2.1 < Lu ∧ c.2.2.length = dim ∧ ∀ x ∈ c.2.2, -(m : Int) ≤ x ∧ x ≤ m :=
  ⟨candidates_nodup Lu dim m, mem_candidates Lu dim m⟩

example : candidates 2 1 1 =
    [(0, 0, [1]), (0, 0, [0]), (0, 0, [-1]), (0, 1, [1]), (0, 1, [0]), (0, 1, [-1]),
     (1, 0, [1]), (1, 0, [0]), (1, 0, [-1]), (1, 1, [1]), (1, 1, [0]), (1, 1, [-1])] := by decide

/-- the candidates are closed under reversal -/
theorem C19_find_pairs_candidates_rev (Lu dim m : Nat) (c : Coup) (h : c ∈ candidates Lu dim m) :
    rev c ∈ candidates Lu dim m :=
  candidates_rev h

example : rev (0, 1, [1, -1]) ∈ candidates 2 2 1 :=
  C19_find_pairs_candidates_rev 2 2 1 (0, 1, [1, -1]) ((mem_candidates 2 2 1 _).2 (by decide))

example : ∃ ps, ((1 : Int), ps) ∈ sortKeys (fcpLoop (sqDistInt [[1]] [[0]]) 3 (candidates 1 1 2)) ∧ ps.Nodup ∧
    ((0, 0, [-1]) ∈ ps ∨ rev (0, 0, [-1]) ∈ ps) ∧
    (((0, 0, [-1]) : Coup) ≠ rev (0, 0, [-1]) → ¬ ((0, 0, [-1]) ∈ ps ∧ rev (0, 0, [-1]) ∈ ps)) := by
  have e : sqDistInt [[1]] [[0]] (0, 0, [-1]) = 1 := by decide
  rw [← e]
  exact C19_find_pairs_exact (sqDistInt [[1]] [[0]]) 3 (candidates 1 1 2)
    (C19_find_pairs_candidates 1 1 2).1 (0, 0, [-1]) ((mem_candidates 1 1 2 _).2 (by decide))
    (by decide) (by decide)

/-- `find_coupling_pairs` (exact arithmetic): whenever the assertion on the cutoff passes, the result has strictly
ascending keys, every group is non-empty and lists candidates at exactly that squared distance inside the cutoff, and
every candidate inside the cutoff is listed once, as itself or reversed, never both. -/
theorem C19_find_coupling_pairs (basis pos : List (List Int)) (m : Nat) (cutoff2 : Option Int)
    (res : List (Int × List Coup)) (h : findCouplingPairs basis pos m cutoff2 = some res) :
    (res.map (·.1)).Pairwise (· < ·) ∧
    (∀ k ps, (k, ps) ∈ res →
      ps ≠ [] ∧ ∀ c ∈ ps, c ∈ candidates pos.length basis.length m ∧ sqDistInt basis pos c = k ∧ 0 < k ∧
        k ≤ cutoff2.getD ((m : Int) * m - 1)) ∧
    (∀ c ∈ candidates pos.length basis.length m, 0 < sqDistInt basis pos c →
      sqDistInt basis pos c ≤ cutoff2.getD ((m : Int) * m - 1) →
      ∃ ps, (sqDistInt basis pos c, ps) ∈ res ∧ ps.Nodup ∧ (c ∈ ps ∨ rev c ∈ ps) ∧
        (c ≠ rev c → ¬ (c ∈ ps ∧ rev c ∈ ps))) := by
  unfold findCouplingPairs at h
  simp only at h
  split at h
  · injection h with h
    subst h
    have h1 := C19_find_pairs_groups (sqDistInt basis pos) (cutoff2.getD ((m : Int) * m - 1))
      (candidates pos.length basis.length m)
    exact ⟨h1.1, h1.2, C19_find_pairs_exact _ _ _
      (C19_find_pairs_candidates _ _ _).1⟩
  · cases h

/-- the hypothesis is satisfiable: 1d chain, `max_dx = 2`, `cutoff = None` -/
example : (findCouplingPairs [[1]] [[0]] 2 none).isSome = true := by decide

example : ∃ res, findCouplingPairs [[1]] [[0]] 2 none = some res ∧ (res.map (·.1)).Pairwise (· < ·) ∧
    ∃ ps, ((1 : Int), ps) ∈ res ∧ ((0, 0, [1]) ∈ ps ∨ rev (0, 0, [1]) ∈ ps) := by
  cases hres : findCouplingPairs [[1]] [[0]] 2 none with
  | none => exact absurd hres (by decide)
  | some res =>
    have h := C19_find_coupling_pairs [[1]] [[0]] 2 none res hres
    obtain ⟨ps, h1, _, h3, _⟩ := h.2.2 (0, 0, [1]) ((mem_candidates 1 1 2 _).2 (by decide))
      (by decide) (by decide)
    exact ⟨res, rfl, h.1, ps, h1, h3⟩
