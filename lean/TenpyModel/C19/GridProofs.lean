import TenpyModel.C19.IndexProofs
import Mathlib.Data.List.Basic
/-! The C-style grid `cstyle shape` (`np.mgrid`): membership, length, no duplicates; orders that are
permutations of the grid. -/
namespace TenpyModel.C19

/-- natural-number version of `InGrid` -/
def InGridN : List Nat → List Nat → Prop
  | [], [] => True
  | L :: Ls, x :: xs => x < L ∧ InGridN Ls xs
  | _, _ => False

theorem inGridN_length {shape r : List Nat} (h : InGridN shape r) : r.length = shape.length := by
  induction shape generalizing r with
  | nil => cases r <;> simp_all [InGridN]
  | cons L Ls ih =>
    cases r with
    | nil => simp [InGridN] at h
    | cons x xs => simp [ih h.2]

theorem mem_cstyle {shape r : List Nat} : r ∈ cstyle shape ↔ InGridN shape r := by
  induction shape generalizing r with
  | nil => cases r <;> simp [cstyle, InGridN]
  | cons L Ls ih =>
    simp only [cstyle, List.mem_flatMap, List.mem_range, List.mem_map]
    constructor
    · rintro ⟨x, hx, t, ht, rfl⟩
      exact ⟨hx, ih.1 ht⟩
    · intro h
      match r, h with
      | x :: xs, h => exact ⟨x, h.1, xs, ih.2 h.2, rfl⟩

theorem length_flatMap_const {α β : Type} (l : List α) (f : α → List β) (c : Nat)
    (h : ∀ x ∈ l, (f x).length = c) : (l.flatMap f).length = l.length * c := by
  induction l with
  | nil => simp
  | cons a l ih =>
    simp only [List.flatMap_cons, List.length_append, List.length_cons]
    rw [h a (by simp), ih (fun x hx => h x (by simp [hx]))]
    ring

theorem cstyle_length (shape : List Nat) : (cstyle shape).length = prodNat shape := by
  induction shape with
  | nil => simp [cstyle, prodNat]
  | cons L Ls ih =>
    simp only [cstyle, prodNat]
    rw [length_flatMap_const _ _ (prodNat Ls) (by intro x _; simp [ih])]
    simp

theorem cstyle_nodup (shape : List Nat) : (cstyle shape).Nodup := by
  induction shape with
  | nil => simp [cstyle]
  | cons L Ls ih =>
    simp only [cstyle]
    rw [List.nodup_flatMap]
    constructor
    · intro x _
      exact ih.map (fun a b h => by simpa using h)
    · apply List.Pairwise.imp _ List.nodup_range
      intro a b hab
      simp only [Function.onFun, List.disjoint_left, List.mem_map]
      rintro r ⟨t, _, rfl⟩ ⟨t', _, h⟩
      simp at h
      exact hab h.1.symm

theorem inGrid_cast {shape r : List Nat} : InGrid shape (r.map Int.ofNat) ↔ InGridN shape r := by
  induction shape generalizing r with
  | nil => cases r <;> simp [InGrid, InGridN]
  | cons L Ls ih =>
    cases r with
    | nil => simp [InGrid, InGridN]
    | cons x xs =>
      simp only [List.map_cons, InGrid, InGridN, ih, Int.ofNat_eq_natCast]
      constructor
      · rintro ⟨_, h1, h2⟩; exact ⟨by omega, h2⟩
      · rintro ⟨h1, h2⟩; exact ⟨by omega, by omega, h2⟩

theorem inGrid_toNat {shape : List Nat} {r : List Int} (h : InGrid shape r) :
    (r.map Int.toNat).map Int.ofNat = r := by
  induction shape generalizing r with
  | nil => cases r <;> simp_all [InGrid]
  | cons L Ls ih =>
    match r, h with
    | x :: xs, h =>
      simp only [List.map_cons, ih h.2.2, Int.ofNat_eq_natCast, List.cons.injEq, and_true]
      have := h.1
      omega

theorem castRows_injective : Function.Injective (fun (r : List Nat) => r.map Int.ofNat) := by
  apply List.map_injective_iff.2
  intro a b h
  simpa using h

/-- `order` (integer rows) lists every point of the grid `shape` exactly once -/
def GridOrder (shape : List Nat) (order : List (List Int)) : Prop :=
  order.Perm (castRows (cstyle shape))

theorem castRows_cstyle_nodup (shape : List Nat) : (castRows (cstyle shape)).Nodup :=
  (cstyle_nodup shape).map castRows_injective

theorem mem_castRows_cstyle {shape : List Nat} {r : List Int} :
    r ∈ castRows (cstyle shape) ↔ InGrid shape r := by
  simp only [castRows, List.mem_map]
  constructor
  · rintro ⟨rn, hrn, rfl⟩
    exact inGrid_cast.2 (mem_cstyle.1 hrn)
  · intro h
    refine ⟨r.map Int.toNat, mem_cstyle.2 (inGrid_cast.1 ?_), inGrid_toNat h⟩
    rw [inGrid_toNat h]; exact h

namespace GridOrder
variable {shape : List Nat} {order : List (List Int)} (h : GridOrder shape order)
include h

theorem nodup : order.Nodup := (List.Perm.nodup_iff h).2 (castRows_cstyle_nodup shape)
theorem mem_iff {r : List Int} : r ∈ order ↔ InGrid shape r := (List.Perm.mem_iff h).trans mem_castRows_cstyle
theorem length_eq : order.length = prodNat shape := by
  rw [List.Perm.length_eq h]; simp [castRows, cstyle_length]

end GridOrder

theorem gridOrder_of_perm {shape : List Nat} {o : List (List Nat)} (h : o.Perm (cstyle shape)) :
    GridOrder shape (castRows o) := h.map _

theorem prodNat_pos (shape : List Nat) (h : ∀ L ∈ shape, 0 < L) : 0 < prodNat shape := by
  induction shape with
  | nil => simp [prodNat]
  | cons L Ls ih =>
    simp only [prodNat]
    exact Nat.mul_pos (h L (by simp)) (ih (fun x hx => h x (by simp [hx])))

/-- A regular lattice built by `Lattice.__init__` / the `order` setter from a grid order is well formed. -/
theorem latOK_mk' (Ls : List Nat) (Lu : Nat) (bc : List Bool) (sh : Option (List Int)) (fin : Bool)
    (order : List (List Int)) (hne : Ls ≠ []) (hpos : ∀ L ∈ Ls, 0 < L) (hu : 0 < Lu)
    (hg : GridOrder (Ls ++ [Lu]) order) : LatOK (Lat.mk' Ls Lu bc sh fin order) := by
  have hlen := hg.length_eq
  refine ⟨hpos, rfl, ?_, ?_, ?_, ?_, hg.nodup, ?_⟩
  · cases Ls with
    | nil => exact absurd rfl hne
    | cons L Ls => simp [Lat.mk']
  · simp [Lat.mk', hlen]
  · show 0 < order.length
    rw [hlen]; apply prodNat_pos
    intro L hL
    rcases List.mem_append.1 hL with h | h
    · exact hpos L h
    · simp at h; omega
  · intro r hr; exact hg.mem_iff.1 hr
  · intro k hk
    show (lexsortPerm order).getD (horner (order.getD k []) Ls).toNat 0 = k
    exact lexsortPerm_spec Ls Lu order hg.nodup (fun r hr => hg.mem_iff.1 hr) hlen k hk

end TenpyModel.C19
