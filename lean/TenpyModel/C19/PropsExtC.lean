import TenpyModel.C19.ExtProofsC
/-
C19 extension round, part C: the boundary-condition argument (`boundary_conditions` setter / getter, the `bc` checks
of `test_sanity`).  Model: `TenpyModel/C19/ExtBC.lean`.  `Accepted l` = every entry is `'open'`, `'periodic'` or an
int, and the first entry is not an int; `stateOf l` = (`bc[a] = (l[a] == 'open')`, `bc_shift = ints of l[1:]`, `None`
when all are zero).
-/
open TenpyModel.C19.Ext

/-- The setter, for a list with one entry per direction: it raises exactly for the lists that are not `Accepted`
(unknown string anywhere / an int in the first place), and otherwise stores `bc[a] = (entry a is 'open')`,
`bc_shift[a-1] = (the int of entry a, 0 for strings)`, with `bc_shift = None` iff all shifts are zero. -/
theorem C19_bc_setter (dim : Nat) (l : List BCEntry) (hl : l.length = dim) (hd : 0 < dim) :
    (Accepted l → bcSetter dim (.list l) = some (stateOf l)) ∧
    (¬ Accepted l → bcSetter dim (.list l) = none) :=
  ⟨bcSetter_accepted dim l hl hd, bcSetter_rejected dim l⟩

example : bcSetter 3 (.list [.str "periodic", .shift (-1), .str "open"]) = some ⟨[false, false, true], some [-1, 0]⟩ := by
  decide
example : bcSetter 2 (.list [.shift 1, .str "open"]) = none ∧ bcSetter 2 (.list [.str "open", .str "closed"]) = none ∧
    bcSetter 2 (.list [.str "periodic", .shift 0]) = some ⟨[false, false], none⟩ := by decide

/-- One string: every direction gets it, no shift; anything but `'open'` / `'periodic'` (and the empty string, which
`test_sanity` rejects afterwards) raises. -/
theorem C19_bc_setter_single (dim : Nat) (s : String) :
    (s = "open" → bcSetter dim (.single s) = some ⟨List.replicate dim true, none⟩) ∧
    (s = "periodic" → bcSetter dim (.single s) = some ⟨List.replicate dim false, none⟩) ∧
    (s ≠ "open" → s ≠ "periodic" → s ≠ "" → bcSetter dim (.single s) = none) := by
  refine ⟨?_, ?_, ?_⟩
  · rintro rfl; rfl
  · rintro rfl; rfl
  · intro h1 h2 h3
    have : bcChoice s = none := by simp [bcChoice, h1, h2]
    simp [bcSetter, this, h3]

example : bcSetter 2 (.single "periodic") = some ⟨[false, false], none⟩ ∧ bcSetter 2 (.single "cylinder") = none := by
  decide

/-- getter ∘ setter: reading `boundary_conditions` back gives the list that was set, with zero shifts shown as
`'periodic'` (the getter's assertion never fires on a state made by the setter). -/
theorem C19_bc_getter_setter (dim : Nat) (l : List BCEntry) (hl : l.length = dim) (hd : 0 < dim) (ha : Accepted l)
    (st : BCState) (h : bcSetter dim (.list l) = some st) : bcGetter st = some (l.map normE) := by
  rw [bcSetter_accepted dim l hl hd ha] at h
  cases h
  exact bcGetter_stateOf l ha

example : (bcSetter 3 (.list [.str "periodic", .shift 2, .shift 0])).bind bcGetter
    = some [.str "periodic", .shift 2, .str "periodic"] := by decide

/-- setter ∘ getter = identity on every state the setter can produce: passing `lat.boundary_conditions` to a new
lattice (`MultiSpeciesLattice.__init__`, `extract_segment`, `IrregularLattice`) reproduces `bc` and `bc_shift`. -/
theorem C19_bc_setter_getter (dim : Nat) (l : List BCEntry) (hl : l.length = dim) (hd : 0 < dim) (ha : Accepted l)
    (st : BCState) (h : bcSetter dim (.list l) = some st) :
    ∃ l', bcGetter st = some l' ∧ bcSetter dim (.list l') = some st := by
  refine ⟨l.map normE, C19_bc_getter_setter dim l hl hd ha st h, ?_⟩
  rw [bcSetter_accepted dim l hl hd ha] at h
  cases h
  rw [bcSetter_accepted dim (l.map normE) (by simpa using hl) hd (accepted_norm l ha), stateOf_norm l ha]

example : ∃ l', bcGetter ⟨[false, false, true], some [-1, 0]⟩ = some l' ∧
    bcSetter 3 (.list l') = some ⟨[false, false, true], some [-1, 0]⟩ :=
  C19_bc_setter_getter 3 [.str "periodic", .shift (-1), .str "open"] rfl (by decide)
    ⟨by intro e he; simp at he; rcases he with rfl | rfl | rfl <;> simp [validE], by intro n; simp⟩ _ (by decide)

/-- Whatever `Lattice.__init__` accepts as `bc` (any argument, any length) yields a well-formed pair: one `bc` flag
per direction, an open x-direction only with a finite MPS, and `bc_shift` is `None` or has `dim - 1` entries not all
zero — the shape the coupling theorems take as input. -/
theorem C19_bc_init_wellformed (dim : Nat) (arg : BCArg) (finiteMPS : Bool) (st : BCState)
    (h : initBC dim arg finiteMPS = some st) :
    st.bc.length = dim ∧ (st.bc.headD false = true → finiteMPS = true) ∧
    ∀ sh, st.bcShift = some sh → sh.length = dim - 1 ∧ ∃ x ∈ sh, x ≠ 0 := by
  unfold initBC at h
  cases hs : bcSetter dim arg with
  | none => rw [hs] at h; cases h
  | some st' =>
    rw [hs] at h
    simp only [] at h
    split at h
    · cases h
    · next hlen =>
      split at h
      · cases h
      · next hopen =>
        cases h
        refine ⟨by simpa using hlen, ?_, ?_⟩
        · intro ho
          cases finiteMPS with
          | true => rfl
          | false => rw [ho] at hopen; simp at hopen
        · intro sh hsh
          cases arg with
          | single s =>
            simp only [bcSetter] at hs
            cases hb : bcChoice s with
            | some b => rw [hb] at hs; cases hs; cases hsh
            | none =>
              rw [hb] at hs
              simp only [] at hs
              split at hs
              · cases hs; cases hsh
              · cases hs
          | list l =>
            simp only [bcSetter] at hs
            cases hr : setLoop 0 l (List.replicate (dim - 1) 0) with
            | none => rw [hr] at hs; cases hs
            | some r =>
              rw [hr] at hs
              simp only [Option.some.injEq] at hs
              subst hs
              simp only at hsh
              split at hsh
              · next hany =>
                cases hsh
                refine ⟨by simpa using (setLoop_lengths l 0 _ r hr).2, ?_⟩
                rw [List.any_eq_true] at hany
                obtain ⟨x, hx, hne⟩ := hany
                exact ⟨x, hx, by simpa using hne⟩
              · cases hsh

example : initBC 2 (.list [.str "periodic", .shift 1]) false = some ⟨[false, false], some [1]⟩ ∧
    initBC 2 (.list [.str "open", .shift 1]) false = none ∧
    initBC 2 (.list [.str "open", .str "open", .str "open"]) true = none := by decide
