/-
Extension round (import-free, executable): code of `tenpy/models/lattice.py` that the first rounds did not model.

A. `MultiSpeciesLattice`: `self_u_to_simple_u`, `self_u_to_species_idx`, `simple_u_to_species_u`, the unit cell
   `list(species_sites) * simple_Lu`, `np.repeat(unit_cell_positions, N_species, axis=0)`, `_generate_new_pairs`
   (keys `K_a-b`, `K_all-all`, `K_diag`, `onsite_a-b`, the duplicate-key `ValueError`), `Lattice.count_neighbors`.
B. `Lattice.find_coupling_pairs` in exact arithmetic (integer basis / positions, squared distances): iteration order
   `itertools.product(range(Lu), repeat=2)` x `itertools.product(range(max_dx, -max_dx-1, -1), repeat=dim)`, the
   `dist > cutoff or dist < eps` filter, `get_close` grouping (first-seen insertion order), the reversed-duplicate
   skip, the final `sorted(keys)`, the `assert cutoff < max_dx * min |basis|`.
-/
namespace TenpyModel.C19.Ext

/-- a coupling `(u1, u2, dx)` as stored in `Lattice.pairs` -/
abbrev Coup := Nat × Nat × List Int

/-! ## A. MultiSpeciesLattice -/

/-- `self_u // N_species` -/
def selfUToSimpleU (nsp u : Nat) : Nat := u / nsp
/-- `self_u % N_species` -/
def selfUToSpeciesIdx (nsp u : Nat) : Nat := u % nsp
/-- `simple_u * N_species + species_idx` -/
def simpleUToSpeciesU (nsp su sp : Nat) : Nat := su * nsp + sp

/-- `list(species_sites) * simple_Lu` -/
def tileList {α : Type} (l : List α) (n : Nat) : List α := (List.replicate n l).flatten
/-- `np.repeat(rows, n, axis=0)` -/
def repeatRows {α : Type} (rows : List α) (n : Nat) : List α := rows.flatMap (fun r => List.replicate n r)

/-- `[(u1 * N_sp + sp_idx1, u2 * N_sp + sp_idx2, dx) for u1, u2, dx in pair_val]` -/
def liftPairs (nsp s1 s2 : Nat) (val : List Coup) : List Coup :=
  val.map (fun c => (simpleUToSpeciesU nsp c.1 s1, simpleUToSpeciesU nsp c.2.1 s2, c.2.2))

/-- `pair_val_all` after the two species loops -/
def pairsAll (nsp : Nat) (val : List Coup) : List Coup :=
  (List.range nsp).flatMap (fun s1 => (List.range nsp).flatMap (fun s2 => liftPairs nsp s1 s2 val))

/-- `pair_val_diag` after the two species loops (`if sp_idx1 == sp_idx2: extend`) -/
def pairsDiag (nsp : Nat) (val : List Coup) : List Coup :=
  (List.range nsp).flatMap (fun s1 => (List.range nsp).flatMap (fun s2 =>
    if s1 == s2 then liftPairs nsp s1 s2 val else []))

/-- `[(u * N_sp + sp_idx1, u * N_sp + sp_idx2, [0]*dim) for u in range(simple_Lu)]` -/
def onsitePairs (nsp simpleLu dim s1 s2 : Nat) : List Coup :=
  (List.range simpleLu).map (fun u => (u * nsp + s1, u * nsp + s2, List.replicate dim (0 : Int)))

abbrev PairsDict := List (String × List Coup)

/-- `if key in new_pairs: raise ValueError; new_pairs[key] = val` (insertion-ordered dict) -/
def insertNew (d : PairsDict) (k : String) (v : List Coup) : Option PairsDict :=
  if d.any (fun e => e.1 == k) then none else some (d ++ [(k, v)])

def insertAll : PairsDict → PairsDict → Option PairsDict
  | d, [] => some d
  | d, (k, v) :: rest =>
    match insertNew d k v with
    | none => none
    | some d' => insertAll d' rest

/-- `enumerate(names)` -/
def enumNames (names : List String) : List (Nat × String) := (List.range names.length).zip names

/-- the `(key, value)` assignments of `_generate_new_pairs` in the order of the code -/
def newPairEntries (names : List String) (simplePairs : PairsDict) (simpleLu dim : Nat) : PairsDict :=
  let nsp := names.length
  let en := enumNames names
  simplePairs.flatMap (fun kv =>
      en.flatMap (fun a => en.map (fun b =>
        (kv.1 ++ "_" ++ a.2 ++ "-" ++ b.2, liftPairs nsp a.1 b.1 kv.2)))
      ++ [(kv.1 ++ "_all-all", pairsAll nsp kv.2), (kv.1 ++ "_diag", pairsDiag nsp kv.2)])
    ++ en.flatMap (fun a => (en.filter (fun b => a.1 < b.1)).map (fun b =>
        ("onsite_" ++ a.2 ++ "-" ++ b.2, onsitePairs nsp simpleLu dim a.1 b.1)))

/-- `MultiSpeciesLattice._generate_new_pairs`; `none` = the duplicate-key `ValueError` -/
def genNewPairs (names : List String) (simplePairs : PairsDict) (simpleLu dim : Nat) : Option PairsDict :=
  insertAll [] (newPairEntries names simplePairs simpleLu dim)

/-- `Lattice.count_neighbors(u, key)` on the list `pairs[key]` -/
def countNeighbors (pairs : List Coup) (u : Nat) : Nat :=
  pairs.foldl (fun cnt c => cnt + (if c.1 == u then 1 else 0) + (if c.2.1 == u then 1 else 0)) 0

/-! ## B. find_coupling_pairs -/

/-- `range(max_dx, -max_dx - 1, -1)` -/
def dxRange (m : Nat) : List Int := (List.range (2 * m + 1)).map (fun (k : Nat) => (m : Int) - (k : Int))

/-- `itertools.product(range(max_dx, -max_dx - 1, -1), repeat=dim)` (first coordinate slowest) -/
def dxProduct : Nat → Nat → List (List Int)
  | 0, _ => [[]]
  | dim + 1, m => (dxRange m).flatMap (fun d => (dxProduct dim m).map (fun r => d :: r))

/-- all `(u1, u2, dx)` in the order of the two nested `for` loops -/
def candidates (Lu dim m : Nat) : List Coup :=
  (List.range Lu).flatMap (fun u1 => (List.range Lu).flatMap (fun u2 =>
    (dxProduct dim m).map (fun dx => (u1, u2, dx))))

def negDx (dx : List Int) : List Int := dx.map (fun x => -x)

/-- `(u2, u1, tuple(-i for i in dx))` -/
def rev (c : Coup) : Coup := (c.2.1, c.1, negDx c.2.2)

/-- `d0 = get_close(dist_pairs.keys(), dist)`; new key appended if there is none; `pairs.append((u1, u2, dx))`
unless the reversed coupling is listed already -/
def addTo : List (Int × List Coup) → Int → Coup → List (Int × List Coup)
  | [], d, c => [(d, [c])]
  | (k, ps) :: rest, d, c =>
    if k == d then (k, if ps.contains (rev c) then ps else ps ++ [c]) :: rest
    else (k, ps) :: addTo rest d c

/-- body of the loop: `if dist > cutoff or dist < eps: continue` (squared distances, exact) -/
def fcpStep (d2 : Coup → Int) (cut2 : Int) (acc : List (Int × List Coup)) (c : Coup) : List (Int × List Coup) :=
  if d2 c > cut2 || d2 c ≤ 0 then acc else addTo acc (d2 c) c

def fcpLoop (d2 : Coup → Int) (cut2 : Int) (cands : List Coup) : List (Int × List Coup) :=
  cands.foldl (fcpStep d2 cut2) []

/-- `for key in sorted(dist_pairs.keys())` -/
def sortKeys (acc : List (Int × List Coup)) : List (Int × List Coup) :=
  acc.mergeSort (fun a b => decide (a.1 ≤ b.1))

/-- component `k` of `sum_a dx[a] * basis[a]` -/
def dotDx (dx : List Int) (basis : List (List Int)) (k : Nat) : Int :=
  ((List.range basis.length).map (fun a => dx.getD a 0 * (basis.getD a []).getD k 0)).sum

/-- component `k` of `unit_cell_positions[u2] - unit_cell_positions[u1] + sum_a dx[a] * basis[a]` -/
def distComp (basis pos : List (List Int)) (c : Coup) (k : Nat) : Int :=
  (pos.getD c.2.1 []).getD k 0 - (pos.getD c.1 []).getD k 0 + dotDx c.2.2 basis k

/-- `Lattice.distance(u1, u2, dx) ** 2` for integer basis and positions (no position disorder) -/
def sqDistInt (basis pos : List (List Int)) (c : Coup) : Int :=
  ((List.range (basis.headD []).length).map (fun k => distComp basis pos c k * distComp basis pos c k)).sum

def norm2 (v : List Int) : Int := (v.map (fun x => x * x)).sum

/-- `Lattice.find_coupling_pairs(max_dx, cutoff)`: `cutoff2 = none` is `cutoff=None` (`max_dx - eps`, i.e. squared
distance `< max_dx^2`); `some c` stands for a cutoff with `cutoff^2` strictly between `c` and `c + 1`.
`none` = the `assert cutoff < max_dx * min(norm(basis))` fails. Keys are squared distances. -/
def findCouplingPairs (basis pos : List (List Int)) (m : Nat) (cutoff2 : Option Int) :
    Option (List (Int × List Coup)) :=
  let cut2 : Int := cutoff2.getD ((m : Int) * m - 1)
  let minB2 : Int := (basis.map norm2).foldl min (norm2 (basis.headD []))
  if cut2 < (m : Int) * m * minB2 then
    some (sortKeys (fcpLoop (sqDistInt basis pos) cut2 (candidates pos.length basis.length m)))
  else none

end TenpyModel.C19.Ext
