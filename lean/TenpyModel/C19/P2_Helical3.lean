import TenpyModel.C19.P2_Helical2
import TenpyModel.C19.PropsCouplings
import TenpyModel.C19.PropsVariants
/-! `HelicalLattice`: couplings of the infinite system and their translation invariance. -/
namespace TenpyModel.C19

/-- `(i, j)` is a coupling `(u1, u2, dx)` of the infinite system: a translate by whole MPS unit cells
of an admissible coupling that starts in the unit cell (right-hand side of `C19_couplings_exact_infinite`
without the unit-cell restriction) -/
def InfCoupling (l : Lat) (u1 u2 : Nat) (dx : List Int) (i j : Int) : Prop :=
  ∃ i0 j0 k0 m : Int, Admissible l u1 u2 dx i0 j0 k0 ∧ i = i0 + m * l.nSites ∧ j = j0 + (k0 + m) * l.nSites

namespace HelicalReg
variable {l : Lat} {Lx Ly : Nat} (H : HelicalReg l Lx Ly)
include H

theorem site_cell {i0 : Int} {x : List Int} {u : Nat} (h : SiteAt l i0 x u) :
    ∃ x0 x1 : Int, x = [x0, x1] ∧ 0 ≤ x0 ∧ x0 < Lx ∧ 0 ≤ x1 ∧ x1 < Ly := by
  obtain ⟨hin, _, _, _⟩ := H.ok.siteAt_inGrid h
  rw [H.hLs] at hin
  match x, hin with
  | [x0, x1], hin =>
    obtain ⟨a, b, c, d, _⟩ := hin
    exact ⟨x0, x1, rfl, a, b, c, d⟩

/-- couplings of the infinite system in terms of unwrapped positions -/
theorem infCoupling_iff (u1 u2 : Nat) (d0 d1 : Int) (i j : Int) :
    InfCoupling l u1 u2 [d0, d1] i j ↔
      ∃ X0 X1 : Int, OpSpec l [X0, X1] u1 i ∧ OpSpec l [X0 + d0, X1 + d1] u2 j := by
  constructor
  · rintro ⟨i0, j0, k0, m, ⟨x, y, s1, s2, ht⟩, rfl, rfl⟩
    obtain ⟨x0, x1, rfl, a0, a1, a2, a3⟩ := H.site_cell s1
    simp only [vadd] at ht
    obtain ⟨y0, y1, k1, rfl, b1, b2, b3, b4, b5, b6⟩ := (H.target_iff _ _ y k0).1 ht
    refine ⟨x0 + m * Lx, x1, ⟨[x0, x1], m, i0, ?_, s1, by simp [H.hf]⟩, ⟨[y0, y1], k0 + m, j0, ?_, s2, by simp [H.hf]⟩⟩
    · exact (H.target_iff _ _ _ m).2 ⟨x0, x1, 0, rfl, by omega, a2, a3, by omega, a0, a1⟩
    · refine (H.target_iff _ _ _ (k0 + m)).2 ⟨y0, y1, k1, rfl, b1, b2, b3, ?_, b5, b6⟩
      rw [Int.add_mul]; omega
  · rintro ⟨X0, X1, ⟨x, kx, i0, t1, s1, rfl⟩, ⟨y, ky, j0, t2, s2, rfl⟩⟩
    obtain ⟨x0, x1, kx1, rfl, a1, a2, a3, a4, a5, a6⟩ := (H.target_iff _ _ x kx).1 t1
    obtain ⟨y0, y1, ky1, rfl, b1, b2, b3, b4, b5, b6⟩ := (H.target_iff _ _ y ky).1 t2
    refine ⟨i0, j0, ky - kx, kx, ⟨[x0, x1], [y0, y1], s1, s2, ?_⟩, by simp [H.hf], by simp [H.hf]⟩
    simp only [vadd]
    refine (H.target_iff _ _ _ (ky - kx)).2 ⟨y0, y1, ky1 - kx1, rfl, ?_, b2, b3, ?_, b5, b6⟩
    · rw [Int.sub_mul]; omega
    · rw [Int.sub_mul]; omega

/-- **Translation invariance**: shifting both ends of a coupling of the infinite system by one
lattice unit cell (`Lu` MPS sites) along the helix gives a coupling again. -/
theorem translate_one (u1 u2 : Nat) (d0 d1 : Int) (i j : Int) (e : Int) (he : e = 1 ∨ e = -1)
    (h : InfCoupling l u1 u2 [d0, d1] i j) :
    InfCoupling l u1 u2 [d0, d1] (i + e * l.Lu) (j + e * l.Lu) := by
  rw [H.infCoupling_iff] at h ⊢
  obtain ⟨X0, X1, h1, h2⟩ := h
  obtain ⟨w1, a1, a2, rfl⟩ := (H.opSpec_linear X0 X1 u1 i).1 h1
  obtain ⟨w2, b1, b2, rfl⟩ := (H.opSpec_linear _ _ u2 j).1 h2
  refine ⟨X0, X1 + e, (H.opSpec_linear _ _ u1 _).2 ⟨w1, a1, a2, ?_⟩, ?_⟩
  · rcases he with rfl | rfl <;> ring
  · have : X1 + e + d1 = (X1 + d1) + e := by ring
    rw [this]
    refine (H.opSpec_linear _ _ u2 _).2 ⟨w2, b1, b2, ?_⟩
    rcases he with rfl | rfl <;> ring

theorem translate (u1 u2 : Nat) (d0 d1 : Int) (i j : Int) (t : Int)
    (h : InfCoupling l u1 u2 [d0, d1] i j) :
    InfCoupling l u1 u2 [d0, d1] (i + t * l.Lu) (j + t * l.Lu) := by
  induction t using Int.induction_on with
  | zero => simpa using h
  | succ n ih =>
    have := H.translate_one u1 u2 d0 d1 _ _ 1 (Or.inl rfl) ih
    have e1 : i + (n : Int) * l.Lu + 1 * l.Lu = i + ((n : Int) + 1) * l.Lu := by ring
    have e2 : j + (n : Int) * l.Lu + 1 * l.Lu = j + ((n : Int) + 1) * l.Lu := by ring
    rwa [e1, e2] at this
  | pred n ih =>
    have := H.translate_one u1 u2 d0 d1 _ _ (-1) (Or.inr rfl) ih
    have e1 : i + (-(n : Int)) * l.Lu + -1 * l.Lu = i + (-(n : Int) - 1) * l.Lu := by ring
    have e2 : j + (-(n : Int)) * l.Lu + -1 * l.Lu = j + (-(n : Int) - 1) * l.Lu := by ring
    rwa [e1, e2] at this

end HelicalReg

end TenpyModel.C19
