import TenpyModel.C19.Pairs
import TenpyModel.Gen.C19Pairs
/-!
# C19 — predefined neighbour lists: property theorems

"Predefined neighbour lists match the Euclidean distances of the site positions."

The tables (`basis`, unit-cell positions, `pairs`) are **regenerated from the source** by
`tools/gen_C19.py` on every run (`TenpyModel/Gen/C19Pairs.lean`, exact arithmetic in `ℤ[√3]/den`),
and the theorems below are re-checked against what the code says now: for every lattice class and
every key, the list is exactly the `k`-th distance shell modulo `(u1,u2,dx) ~ (u2,u1,-dx)`, with no
coupling listed twice (`PairsMatch`, candidates: all `dx` with `|dx_a| ≤ 4`).

Full-strength statement (NOT proved, hence the `_partial` names): "for ALL `dx ∈ ℤ^dim` the list
`pairs[key]` is the `k`-th distance shell".  What is proved is the same statement with the
candidates restricted to the box `|dx_a| ≤ 4` (`decide +kernel` on the regenerated tables).  The
complement — every `(u1,u2,dx)` outside the box is farther away than the largest listed shell — is
proved in `PropsPairsOutside.lean` (`C19_pairs_*_outside_box`); only the (routine) combination of
the two into one statement quantified over all of `ℤ^dim` is not formalised.  The harness oracle
checks the box against the real `Lattice.distance` and `find_coupling_pairs`.
-/
open TenpyModel.C19.Pairs
open TenpyModel.Gen.C19Pairs

namespace TenpyModel.C19.Pairs

theorem pairsMatchB_sound (t : Table) (B k : Nat) (key : String) (h : pairsMatchB t B k key = true) :
    PairsMatch t B k key := by
  unfold pairsMatchB at h
  split at h
  · cases h
  · next D hD =>
    simp only [Bool.and_eq_true, decide_eq_true_eq, List.all_eq_true, List.contains_eq_mem,
      beq_iff_eq, Bool.or_eq_true, Bool.not_eq_true', beq_eq_false_iff_ne] at h
    obtain ⟨⟨h1, h2⟩, h3⟩ := h
    refine ⟨D, hD, h1, ?_, ?_⟩
    · intro c hc
      have := h2 c hc
      exact ⟨by simpa using this.1, this.2⟩
    · intro c hc hd
      rcases h3 c hc with h | h
      · exact absurd hd h
      · simpa using h

end TenpyModel.C19.Pairs

/-- **Chain**: `nearest / next_nearest / next_next_nearest_neighbors` = 1st / 2nd / 3rd distance shell -/
theorem C19_pairs_Chain_partial :
    PairsMatch chain 4 0 "nearest_neighbors" ∧ PairsMatch chain 4 1 "next_nearest_neighbors" ∧
    PairsMatch chain 4 2 "next_next_nearest_neighbors" :=
  ⟨pairsMatchB_sound _ _ _ _ (by decide +kernel), pairsMatchB_sound _ _ _ _ (by decide +kernel),
   pairsMatchB_sound _ _ _ _ (by decide +kernel)⟩

/-- **Ladder** (`diagonal` is the 2nd shell as well) -/
theorem C19_pairs_Ladder_partial :
    PairsMatch ladder 4 0 "nearest_neighbors" ∧ PairsMatch ladder 4 1 "next_nearest_neighbors" ∧
    PairsMatch ladder 4 2 "next_next_nearest_neighbors" ∧ PairsMatch ladder 4 1 "diagonal" :=
  ⟨pairsMatchB_sound _ _ _ _ (by decide +kernel), pairsMatchB_sound _ _ _ _ (by decide +kernel),
   pairsMatchB_sound _ _ _ _ (by decide +kernel), pairsMatchB_sound _ _ _ _ (by decide +kernel)⟩

/-- **Square** -/
theorem C19_pairs_Square_partial :
    PairsMatch square 4 0 "nearest_neighbors" ∧ PairsMatch square 4 1 "next_nearest_neighbors" ∧
    PairsMatch square 4 2 "next_next_nearest_neighbors" :=
  ⟨pairsMatchB_sound _ _ _ _ (by decide +kernel), pairsMatchB_sound _ _ _ _ (by decide +kernel),
   pairsMatchB_sound _ _ _ _ (by decide +kernel)⟩

/-- **Triangular** (basis `(√3/2, 1/2), (0, 1)`) -/
theorem C19_pairs_Triangular_partial :
    PairsMatch triangular 4 0 "nearest_neighbors" ∧ PairsMatch triangular 4 1 "next_nearest_neighbors" ∧
    PairsMatch triangular 4 2 "next_next_nearest_neighbors" :=
  ⟨pairsMatchB_sound _ _ _ _ (by decide +kernel), pairsMatchB_sound _ _ _ _ (by decide +kernel),
   pairsMatchB_sound _ _ _ _ (by decide +kernel)⟩

/-- **Honeycomb**: five shells -/
theorem C19_pairs_Honeycomb_partial :
    PairsMatch honeycomb 4 0 "nearest_neighbors" ∧ PairsMatch honeycomb 4 1 "next_nearest_neighbors" ∧
    PairsMatch honeycomb 4 2 "next_next_nearest_neighbors" ∧
    PairsMatch honeycomb 4 3 "fourth_nearest_neighbors" ∧ PairsMatch honeycomb 4 4 "fifth_nearest_neighbors" :=
  ⟨pairsMatchB_sound _ _ _ _ (by decide +kernel), pairsMatchB_sound _ _ _ _ (by decide +kernel),
   pairsMatchB_sound _ _ _ _ (by decide +kernel), pairsMatchB_sound _ _ _ _ (by decide +kernel),
   pairsMatchB_sound _ _ _ _ (by decide +kernel)⟩

/-- **Kagome** -/
theorem C19_pairs_Kagome_partial :
    PairsMatch kagome 4 0 "nearest_neighbors" ∧ PairsMatch kagome 4 1 "next_nearest_neighbors" ∧
    PairsMatch kagome 4 2 "next_next_nearest_neighbors" :=
  ⟨pairsMatchB_sound _ _ _ _ (by decide +kernel), pairsMatchB_sound _ _ _ _ (by decide +kernel),
   pairsMatchB_sound _ _ _ _ (by decide +kernel)⟩

/-- Non-vacuity: the Honeycomb nearest-neighbour shell has squared distance `(12·(1/√3))² = 48`
(in units of `1/12`), three couplings, and the checker rejects a wrong table. -/
example : kthDistance honeycomb 4 0 = some ⟨48, 0⟩ ∧ (lookup honeycomb "nearest_neighbors").length = 3 ∧
    pairsMatchB honeycomb 4 1 "nearest_neighbors" = false := by decide +kernel
