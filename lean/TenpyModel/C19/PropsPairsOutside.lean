import TenpyModel.C19.PropsPairs
import Mathlib.Tactic.Linarith
import Mathlib.Tactic.Ring
/-!
# C19 — predefined neighbour lists: nothing outside the box comes closer

Complement of `C19_pairs_*_partial` (which treat all `dx` with `|dx_a| ≤ 4`): for every lattice
class, every pair of unit-cell sites and **every** integer displacement with some `|dx_a| > 4`, the
squared distance is strictly larger than the largest listed shell (`kthDistance … = some D`).  Hence
the k-th smallest distances over all of `ℤ^dim` are the ones found in the box, and the listed shells
are the true distance shells.  The proofs evaluate `sqDist` of the regenerated tables symbolically
(`a + b√3` arithmetic with `b = 0` after squaring) and finish with `nlinarith`.
-/
open TenpyModel.C19.Pairs
open TenpyModel.Gen.C19Pairs

namespace TenpyModel.C19.Pairs

theorem shell_pos (D Q : Int) (h : D < Q) : D ≤ Q ∧ ¬ Q - D = 0 := ⟨by omega, by omega⟩

/-- `3X² + Y²` is large when `X` is large or `Y - X` is large -/
theorem shell_bound3 (D X Y : Int) (h : D < 3 * X * X ∨ 2 * D < (Y - X) * (Y - X)) :
    D < 3 * X * X + Y * Y := by
  rcases h with h | h
  · nlinarith [sq_nonneg Y]
  · nlinarith [sq_nonneg (X + Y), sq_nonneg X]

/-- `X² + 3Y²` is large when `Y` is large or `X - Y` is large -/
theorem shell_bound3' (D X Y : Int) (h : D < 3 * Y * Y ∨ 2 * D < (X - Y) * (X - Y)) :
    D < X * X + 3 * Y * Y := by
  rcases h with h | h
  · nlinarith [sq_nonneg X]
  · nlinarith [sq_nonneg (X + Y), sq_nonneg Y]

end TenpyModel.C19.Pairs

/-- **Chain**: beyond `|dx| = 4` every site is farther than the third shell (`d² = 9`). -/
theorem C19_pairs_Chain_outside_box (d : Int) (h : d < -4 ∨ 4 < d) :
    kthDistance chain 4 2 = some ⟨9, 0⟩ ∧ Z3.lt ⟨9, 0⟩ (sqDist chain (0, 0, [d])) = true := by
  refine ⟨by decide +kernel, ?_⟩
  simp only [sqDist, chain, addBasis, vsubZ, vaddZ, List.getD_cons_zero, List.map, Z3.smul, Z3.sub, Z3.add,
    List.foldl, Z3.mul, Z3.zero, Z3.lt, Z3.pos]
  simp
  apply shell_pos
  rcases h with h | h <;> nlinarith

/-- **Ladder** -/
theorem C19_pairs_Ladder_outside_box (u1 u2 : Nat) (hu1 : u1 < 2) (hu2 : u2 < 2) (d : Int) (h : d < -4 ∨ 4 < d) :
    kthDistance ladder 4 2 = some ⟨4, 0⟩ ∧ Z3.lt ⟨4, 0⟩ (sqDist ladder (u1, u2, [d])) = true := by
  refine ⟨by decide +kernel, ?_⟩
  have e1 : u1 = 0 ∨ u1 = 1 := by omega
  have e2 : u2 = 0 ∨ u2 = 1 := by omega
  rcases e1 with rfl | rfl <;> rcases e2 with rfl | rfl <;>
  · simp only [sqDist, ladder, addBasis, vsubZ, vaddZ, List.getD_cons_zero, List.getD_cons_succ, List.map,
      Z3.smul, Z3.sub, Z3.add, List.foldl, Z3.mul, Z3.zero, Z3.lt, Z3.pos]
    simp
    apply shell_pos
    rcases h with h | h <;> nlinarith

/-- **Square** -/
theorem C19_pairs_Square_outside_box (d0 d1 : Int) (h : d0 < -4 ∨ 4 < d0 ∨ d1 < -4 ∨ 4 < d1) :
    kthDistance square 4 2 = some ⟨4, 0⟩ ∧ Z3.lt ⟨4, 0⟩ (sqDist square (0, 0, [d0, d1])) = true := by
  refine ⟨by decide +kernel, ?_⟩
  simp only [sqDist, square, addBasis, vsubZ, vaddZ, List.getD_cons_zero, List.map, Z3.smul, Z3.sub, Z3.add,
    List.foldl, Z3.mul, Z3.zero, Z3.lt, Z3.pos]
  simp
  apply shell_pos
  rcases h with h | h | h | h <;> nlinarith [sq_nonneg d0, sq_nonneg d1]

/-- **Triangular** -/
theorem C19_pairs_Triangular_outside_box (d0 d1 : Int) (h : d0 < -4 ∨ 4 < d0 ∨ d1 < -4 ∨ 4 < d1) :
    kthDistance triangular 4 2 = some ⟨16, 0⟩ ∧ Z3.lt ⟨16, 0⟩ (sqDist triangular (0, 0, [d0, d1])) = true := by
  refine ⟨by decide +kernel, ?_⟩
  simp only [sqDist, triangular, addBasis, vsubZ, vaddZ, List.getD_cons_zero, List.map, Z3.smul, Z3.sub, Z3.add,
    List.foldl, Z3.mul, Z3.zero, Z3.lt, Z3.pos]
  simp
  apply shell_pos
  apply shell_bound3
  rcases h with h | h | h | h
  · left; nlinarith
  · left; nlinarith
  · right; nlinarith
  · right; nlinarith

/-- **Honeycomb** (fifth shell: `d² = 3`, i.e. `432/144`) -/
theorem C19_pairs_Honeycomb_outside_box (u1 u2 : Nat) (hu1 : u1 < 2) (hu2 : u2 < 2) (d0 d1 : Int)
    (h : d0 < -4 ∨ 4 < d0 ∨ d1 < -4 ∨ 4 < d1) :
    kthDistance honeycomb 4 4 = some ⟨432, 0⟩ ∧
      Z3.lt ⟨432, 0⟩ (sqDist honeycomb (u1, u2, [d0, d1])) = true := by
  refine ⟨by decide +kernel, ?_⟩
  have e1 : u1 = 0 ∨ u1 = 1 := by omega
  have e2 : u2 = 0 ∨ u2 = 1 := by omega
  rcases e1 with rfl | rfl <;> rcases e2 with rfl | rfl <;>
  · simp only [sqDist, honeycomb, addBasis, vsubZ, vaddZ, List.getD_cons_zero, List.getD_cons_succ, List.map,
      Z3.smul, Z3.sub, Z3.add, List.foldl, Z3.mul, Z3.zero, Z3.lt, Z3.pos]
    simp
    apply shell_pos
    apply shell_bound3
    rcases h with h | h | h | h
    · left; nlinarith
    · left; nlinarith
    · right; nlinarith
    · right; nlinarith

/-- **Kagome** -/
theorem C19_pairs_Kagome_outside_box (u1 u2 : Nat) (hu1 : u1 < 3) (hu2 : u2 < 3) (d0 d1 : Int)
    (h : d0 < -4 ∨ 4 < d0 ∨ d1 < -4 ∨ 4 < d1) :
    kthDistance kagome 4 2 = some ⟨16, 0⟩ ∧ Z3.lt ⟨16, 0⟩ (sqDist kagome (u1, u2, [d0, d1])) = true := by
  refine ⟨by decide +kernel, ?_⟩
  have e1 : u1 = 0 ∨ u1 = 1 ∨ u1 = 2 := by omega
  have e2 : u2 = 0 ∨ u2 = 1 ∨ u2 = 2 := by omega
  rcases e1 with rfl | rfl | rfl <;> rcases e2 with rfl | rfl | rfl <;>
  · simp only [sqDist, kagome, addBasis, vsubZ, vaddZ, List.getD_cons_zero, List.getD_cons_succ, List.map,
      Z3.smul, Z3.sub, Z3.add, List.foldl, Z3.mul, Z3.zero, Z3.lt, Z3.pos]
    simp
    apply shell_pos
    apply shell_bound3'
    rcases h with h | h | h | h
    · right; nlinarith
    · right; nlinarith
    · left; nlinarith
    · left; nlinarith

/-- Non-vacuity: `dx = (5, -7)` on the Honeycomb lattice lies outside the box. -/
example : Z3.lt ⟨432, 0⟩ (sqDist honeycomb (0, 1, [5, -7])) = true :=
  (C19_pairs_Honeycomb_outside_box 0 1 (by decide) (by decide) 5 (-7) (by decide)).2
