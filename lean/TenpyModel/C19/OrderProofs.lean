import TenpyModel.C19.GridProofs
import Mathlib.Data.List.Perm.Basic
/-! `get_order` (snake winding, priority), `get_order_grouped`, folded orders: permutations of the grid. -/
namespace TenpyModel.C19

/-- the rows of `cstyle (L :: rest)`, as blocks along the first index -/
theorem cstyle_cons (L : Nat) (rest : List Nat) :
    cstyle (L :: rest) = (List.range' 0 L).flatMap (fun x => (cstyle rest).map (x :: ·)) := by
  simp [cstyle, List.range_eq_range']

/-- blocks that are permutations of `inner`, numbered consecutively, give a permutation of the
product grid -/
theorem zipIdx_flatMap_perm (blocks : List (List (List Nat))) (inner : List (List Nat)) (n : Nat)
    (h : ∀ b ∈ blocks, b.Perm inner) :
    ((blocks.zipIdx n).flatMap (fun bx => bx.1.map (bx.2 :: ·))).Perm
      ((List.range' n blocks.length).flatMap (fun x => inner.map (x :: ·))) := by
  induction blocks generalizing n with
  | nil => simp
  | cons b bs ih =>
    simp only [List.zipIdx_cons, List.flatMap_cons, List.length_cons, List.range'_succ]
    exact List.Perm.append ((h b (by simp)).map _) (ih (n + 1) (fun b' hb' => h b' (by simp [hb'])))

theorem prependIdx_perm (blocks : List (List (List Nat))) (rest : List Nat)
    (h : ∀ b ∈ blocks, b.Perm (cstyle rest)) :
    (prependIdx blocks).Perm (cstyle (blocks.length :: rest)) := by
  rw [cstyle_cons]
  exact zipIdx_flatMap_perm blocks (cstyle rest) 0 h

theorem length_flatten_replicate_pair {α : Type} (n : Nat) (a b : List α) :
    (List.replicate n [a, b]).flatten.length = 2 * n := by
  induction n with
  | zero => simp
  | succ n ih => simp [List.replicate_succ, ih]; omega

theorem snakeBlocks_length {α : Type} (L : Nat) (o : List α) (hL : 0 < L) : (snakeBlocks L o).length = L := by
  unfold snakeBlocks
  simp only [List.length_append, List.length_cons, List.length_nil]
  split <;> split <;> (try split) <;> simp <;> omega

theorem mem_snakeBlocks {α : Type} (L : Nat) (o b : List α) (h : b ∈ snakeBlocks L o) : b = o ∨ b = o.reverse := by
  unfold snakeBlocks at h
  simp only [List.mem_append, List.mem_cons, List.not_mem_nil, or_false] at h
  rcases h with (h | h) | h
  · exact Or.inl h
  · split at h
    · simp at h; exact Or.inr h
    · simp at h
  · split at h
    · rcases List.mem_append.1 h with h | h
      · obtain ⟨l, hl, hb⟩ := List.mem_flatten.1 h
        have := List.eq_of_mem_replicate hl
        subst this
        simp at hb
        exact hb
      · split at h
        · simp at h; exact Or.inl h
        · simp at h
    · simp at h

/-- the snake loop of `get_order` yields a permutation of the grid -/
theorem getOrderSnake_perm (shape : List Nat) (snake : List Bool) (hpos : ∀ L ∈ shape, 0 < L) :
    (getOrderSnake shape snake).Perm (cstyle shape) := by
  induction shape generalizing snake with
  | nil => simp [getOrderSnake, cstyle]
  | cons L rest ih =>
    have hL : 0 < L := hpos L (by simp)
    have hin := ih snake.tail (fun x hx => hpos x (by simp [hx]))
    simp only [getOrderSnake]
    split
    · have hlen := snakeBlocks_length L (getOrderSnake rest snake.tail) hL
      have := prependIdx_perm (snakeBlocks L (getOrderSnake rest snake.tail)) rest (by
        intro b hb
        rcases mem_snakeBlocks L _ b hb with rfl | rfl
        · exact hin
        · exact (List.reverse_perm _).trans hin)
      rwa [hlen] at this
    · have := prependIdx_perm (List.replicate L (getOrderSnake rest snake.tail)) rest (by
        intro b hb
        rw [List.eq_of_mem_replicate hb]; exact hin)
      rwa [List.length_replicate] at this

theorem getOrderC_perm (shape : List Nat) (snake : List Bool) (hpos : ∀ L ∈ shape, 0 < L) :
    (getOrderC shape snake).Perm (cstyle shape) := by
  unfold getOrderC
  split
  · exact getOrderSnake_perm shape snake hpos
  · exact List.Perm.refl _


/-! ### priority: transposing the grid -/

theorem inGridN_iff_getD (shape r : List Nat) :
    InGridN shape r ↔ r.length = shape.length ∧ ∀ k, k < shape.length → r.getD k 0 < shape.getD k 0 := by
  induction shape generalizing r with
  | nil => cases r <;> simp [InGridN]
  | cons L Ls ih =>
    cases r with
    | nil => simp [InGridN]
    | cons x xs =>
      simp only [InGridN, ih, List.length_cons, Nat.add_right_cancel_iff]
      constructor
      · rintro ⟨h0, h1, h2⟩
        refine ⟨h1, ?_⟩
        intro k hk
        cases k with
        | zero => simpa using h0
        | succ k => simpa using h2 k (by omega)
      · rintro ⟨h1, h2⟩
        refine ⟨by simpa using h2 0 (by omega), h1, ?_⟩
        intro k hk
        simpa using h2 (k + 1) (by omega)

theorem gather_length {α : Type} (d : α) (a : List α) (idx : List Nat) : (gather d a idx).length = idx.length := by
  simp [gather]

theorem gather_getD {α : Type} (d : α) (a : List α) (idx : List Nat) (k : Nat) (hk : k < idx.length) :
    (gather d a idx).getD k d = a.getD (idx.getD k 0) d := by
  simp [gather, List.getD_eq_getElem?_getD, hk]

/-- facts about a permutation `σ` of `range n` and its inverse `inversePermutation σ` -/
structure IsPermOfRange (σ : List Nat) (n : Nat) : Prop where
  perm : σ.Perm (List.range n)

namespace IsPermOfRange
variable {σ : List Nat} {n : Nat} (h : IsPermOfRange σ n)
include h

theorem length_eq : σ.length = n := by simpa using h.perm.length_eq
theorem nodup : σ.Nodup := (List.Perm.nodup_iff h.perm).2 List.nodup_range
theorem mem_iff {k : Nat} : k ∈ σ ↔ k < n := by rw [h.perm.mem_iff]; simp
theorem getD_lt {m : Nat} (hm : m < n) : σ.getD m 0 < n := by
  have hm' : m < σ.length := by rw [h.length_eq]; exact hm
  rw [getD_eq_getElem' _ _ hm']
  exact h.mem_iff.1 (List.getElem_mem hm')

theorem inv_length : (inversePermutation σ).length = n := by simp [inversePermutation, h.length_eq]

theorem inv_getD {k : Nat} (hk : k < n) : (inversePermutation σ).getD k 0 = σ.idxOf k := by
  simp [inversePermutation, List.getD_eq_getElem?_getD, h.length_eq, hk]

theorem inv_lt {k : Nat} (hk : k < n) : (inversePermutation σ).getD k 0 < n := by
  rw [h.inv_getD hk, ← h.length_eq]
  exact List.idxOf_lt_length_iff.2 (h.mem_iff.2 hk)

/-- `σ[inv[k]] = k` -/
theorem getD_inv {k : Nat} (hk : k < n) : σ.getD ((inversePermutation σ).getD k 0) 0 = k := by
  rw [h.inv_getD hk]
  have hlt : σ.idxOf k < σ.length := List.idxOf_lt_length_iff.2 (h.mem_iff.2 hk)
  rw [getD_eq_getElem' _ _ hlt]
  exact List.getElem_idxOf hlt

/-- `inv[σ[m]] = m` -/
theorem inv_getD_self {m : Nat} (hm : m < n) : (inversePermutation σ).getD (σ.getD m 0) 0 = m := by
  have hm' : m < σ.length := by rw [h.length_eq]; exact hm
  rw [h.inv_getD (h.getD_lt hm), getD_eq_getElem' _ _ hm']
  exact List.Nodup.idxOf_getElem h.nodup m hm'

end IsPermOfRange

theorem list_ext_getD {a b : List Nat} (hl : a.length = b.length)
    (h : ∀ k, k < a.length → a.getD k 0 = b.getD k 0) : a = b := by
  apply List.ext_getElem hl
  intro k h1 h2
  have := h k h1
  rwa [getD_eq_getElem' _ _ h1, getD_eq_getElem' _ _ h2] at this

/-- **Transposition lemma**: an order of the transposed grid `shape[σ]`, with the columns permuted
back by `inverse_permutation(σ)`, is an order of the grid `shape`. -/
theorem map_gather_perm (shape : List Nat) (σ : List Nat) (hσ : IsPermOfRange σ shape.length)
    (o : List (List Nat)) (ho : o.Perm (cstyle (gather 0 shape σ))) :
    (o.map (fun row => gather 0 row (inversePermutation σ))).Perm (cstyle shape) := by
  set n := shape.length with hn
  have hmem_o : ∀ row, row ∈ o ↔ InGridN (gather 0 shape σ) row := fun row => (ho.mem_iff).trans mem_cstyle
  have hrow_len : ∀ row ∈ o, row.length = n := by
    intro row hrow
    have := inGridN_length ((hmem_o row).1 hrow)
    rw [this, gather_length, hσ.length_eq]
  apply (List.perm_ext_iff_of_nodup ?_ (cstyle_nodup shape)).2
  · intro r
    rw [mem_cstyle, List.mem_map]
    constructor
    · rintro ⟨row, hrow, rfl⟩
      have hin := (inGridN_iff_getD _ _).1 ((hmem_o row).1 hrow)
      rw [inGridN_iff_getD]
      refine ⟨by rw [gather_length, hσ.inv_length], ?_⟩
      intro k hk
      rw [gather_getD _ _ _ _ (by rw [hσ.inv_length]; exact hk)]
      have h1 := hin.2 ((inversePermutation σ).getD k 0) (by
        rw [gather_length, hσ.length_eq]; exact hσ.inv_lt hk)
      rw [gather_getD _ _ _ _ (by rw [hσ.length_eq]; exact hσ.inv_lt hk), hσ.getD_inv hk] at h1
      exact h1
    · intro hr
      have hin := (inGridN_iff_getD _ _).1 hr
      refine ⟨gather 0 r σ, ?_, ?_⟩
      · rw [hmem_o, inGridN_iff_getD]
        refine ⟨by simp [gather_length], ?_⟩
        intro m hm
        rw [gather_length, hσ.length_eq] at hm
        rw [gather_getD _ _ _ _ (by rw [hσ.length_eq]; exact hm),
          gather_getD _ _ _ _ (by rw [hσ.length_eq]; exact hm)]
        exact hin.2 _ (hσ.getD_lt hm)
      · apply list_ext_getD
        · rw [gather_length, hσ.inv_length, hin.1]
        · intro k hk
          rw [gather_length, hσ.inv_length] at hk
          rw [gather_getD _ _ _ _ (by rw [hσ.inv_length]; exact hk),
            gather_getD _ _ _ _ (by rw [hσ.length_eq]; exact hσ.inv_lt hk), hσ.getD_inv hk]
  · apply List.Nodup.map_on _ ((List.Perm.nodup_iff ho).2 (cstyle_nodup _))
    intro a ha b hb hab
    apply list_ext_getD (by rw [hrow_len a ha, hrow_len b hb])
    intro m hm
    rw [hrow_len a ha] at hm
    have := congrArg (fun l => l.getD (σ.getD m 0) 0) hab
    rwa [gather_getD _ _ _ _ (by rw [hσ.inv_length]; exact hσ.getD_lt hm),
      gather_getD _ _ _ _ (by rw [hσ.inv_length]; exact hσ.getD_lt hm), hσ.inv_getD_self hm] at this

theorem argsort_isPerm (p : List Int) : IsPermOfRange (argsort p) p.length :=
  ⟨List.mergeSort_perm _ _⟩

theorem gather_pos (shape : List Nat) (σ : List Nat) (hσ : IsPermOfRange σ shape.length)
    (hpos : ∀ L ∈ shape, 0 < L) : ∀ L ∈ gather 0 shape σ, 0 < L := by
  intro L hL
  obtain ⟨k, hk, rfl⟩ := List.mem_map.1 hL
  have hk' := hσ.mem_iff.1 hk
  rw [getD_eq_getElem' _ _ hk']
  exact hpos _ (List.getElem_mem hk')

/-- `get_order(shape, snake_winding, priority)` is a permutation of the grid -/
theorem getOrder_perm (shape : List Nat) (snake : List Bool) (prio : Option (List Int))
    (hpos : ∀ L ∈ shape, 0 < L) (hp : ∀ p, prio = some p → p.length = shape.length) :
    (getOrder shape snake prio).Perm (cstyle shape) := by
  cases prio with
  | none => exact getOrderC_perm shape snake hpos
  | some p =>
    have hσ : IsPermOfRange (argsort p) shape.length := by
      rw [← hp p rfl]; exact argsort_isPerm p
    simp only [getOrder]
    exact map_gather_perm shape _ hσ _ (getOrderC_perm _ _ (gather_pos shape _ hσ hpos))


/-! ### grouped and folded orders -/

theorem flatMap_comm_perm {α β γ : Type} (l : List α) (m : List β) (f : α → β → List γ) :
    (l.flatMap (fun a => m.flatMap (fun b => f a b))).Perm (m.flatMap (fun b => l.flatMap (fun a => f a b))) := by
  induction l with
  | nil => simp
  | cons a l ih =>
    simp only [List.flatMap_cons]
    exact (List.Perm.append_left _ ih).trans (List.flatMap_append_perm m _ _)

theorem cstyle_append (A B : List Nat) :
    cstyle (A ++ B) = (cstyle A).flatMap (fun o => (cstyle B).map (o ++ ·)) := by
  induction A with
  | nil => simp [cstyle]
  | cons L A ih =>
    simp only [List.cons_append, cstyle, ih, List.flatMap_assoc, List.map_flatMap, List.flatMap_map,
      List.map_map, Function.comp_def, List.cons_append]

theorem cstyle_two (Ly Lu : Nat) :
    cstyle [Ly, Lu] = (List.range Ly).flatMap (fun y => (List.range Lu).map (fun g => [y, g])) := by
  simp only [cstyle, List.map_flatMap, List.map_cons, List.map_nil]
  congr 1
  funext x
  rw [List.map_eq_flatMap]

theorem preOrder_perm (Ly Lu : Nat) (groups : List (List Nat)) (hg : groups.flatten.Perm (List.range Lu)) :
    (preOrder Ly groups).Perm (cstyle [Ly, Lu]) := by
  rw [cstyle_two]
  unfold preOrder
  refine (flatMap_comm_perm groups (List.range Ly) (fun gr y => gr.map (fun g => [y, g]))).trans ?_
  apply List.Perm.flatMap_left
  intro y _
  have : groups.flatMap (fun gr => gr.map (fun g => [y, g])) = groups.flatten.map (fun g => [y, g]) := by
    rw [List.map_flatten, List.flatMap_def]
  rw [this]
  exact hg.map _

theorem shape_split (shape : List Nat) (h : 2 ≤ shape.length) :
    shape = shape.take (shape.length - 2) ++
      [shape.getD (shape.length - 2) 0, shape.getD (shape.length - 1) 0] := by
  have hlen : (shape.drop (shape.length - 2)).length = 2 := by simp; omega
  have key : shape.drop (shape.length - 2) =
      [shape.getD (shape.length - 2) 0, shape.getD (shape.length - 1) 0] := by
    match hd : shape.drop (shape.length - 2), hlen with
    | [a, b], _ =>
      have h0 := congrArg (fun l => l[0]?) hd
      have h1 := congrArg (fun l => l[1]?) hd
      simp only [List.getElem?_drop, List.getElem?_cons_zero, List.getElem?_cons_succ] at h0 h1
      have e : shape.length - 2 + 1 = shape.length - 1 := by omega
      rw [Nat.add_zero] at h0
      rw [e] at h1
      simp [List.getD_eq_getElem?_getD, h0, h1]
  conv_lhs => rw [← List.take_append_drop (shape.length - 2) shape, key]

/-- `get_order_grouped(shape, groups, None)` for `len(shape) ≥ 2`, `groups` a partition (in any order)
of `range(shape[-1])` -/
theorem getOrderGroupedC_perm (shape : List Nat) (groups : List (List Nat)) (h2 : 2 ≤ shape.length)
    (hg : groups.flatten.Perm (List.range (shape.getD (shape.length - 1) 0))) :
    (getOrderGroupedC shape groups).Perm (cstyle shape) := by
  unfold getOrderGroupedC
  simp only
  conv_rhs => rw [shape_split shape h2, cstyle_append]
  apply List.Perm.flatMap_left
  intro o _
  exact (preOrder_perm _ _ groups hg).map _

/-- `get_order_grouped(shape, groups, priority)` -/
theorem getOrderGrouped_perm (shape : List Nat) (groups : List (List Nat)) (prio : Option (List Int))
    (h2 : 2 ≤ shape.length) (hp : ∀ p, prio = some p → p.length = shape.length)
    (hg : groups.flatten.Perm (List.range
      ((match prio with
        | none => shape
        | some p => gather 0 shape (argsort p)).getD (shape.length - 1) 0))) :
    (getOrderGrouped shape groups prio).Perm (cstyle shape) := by
  cases prio with
  | none => exact getOrderGroupedC_perm shape groups h2 hg
  | some p =>
    have hσ : IsPermOfRange (argsort p) shape.length := by
      rw [← hp p rfl]; exact argsort_isPerm p
    simp only [getOrderGrouped]
    apply map_gather_perm shape _ hσ
    have hl : (gather 0 shape (argsort p)).length = shape.length := by rw [gather_length, hσ.length_eq]
    apply getOrderGroupedC_perm _ groups (by omega)
    rw [hl]; exact hg

theorem foldedIdx_perm (L : Nat) : (foldedIdx L).Perm (List.range L) := by
  have hlen : (foldedIdx L).length = L := by
    unfold foldedIdx
    rw [List.length_append, length_flatMap_const _ _ 2 (by intro x _; rfl)]
    split <;> simp <;> omega
  apply List.Perm.symm
  apply List.Subperm.perm_of_length_le
  · apply List.subperm_of_subset List.nodup_range
    intro x hx
    have hx' := List.mem_range.1 hx
    unfold foldedIdx
    simp only [List.mem_append, List.mem_flatMap, List.mem_range, List.mem_cons, List.not_mem_nil, or_false]
    by_cases h1 : x < L / 2
    · exact Or.inl ⟨x, h1, Or.inl rfl⟩
    · by_cases h2 : L - 1 - x < L / 2
      · exact Or.inl ⟨L - 1 - x, h2, Or.inr (by omega)⟩
      · right
        have : L % 2 = 1 := by omega
        simp only [this, if_true, List.mem_singleton]
        omega
  · simp [hlen]

theorem rowsAlong_perm (xs : List Nat) (L Lu : Nat) (h : xs.Perm (List.range L)) :
    (rowsAlong xs Lu).Perm (cstyle [L, Lu]) := by
  rw [cstyle_two]
  exact List.Perm.flatMap_right _ h

end TenpyModel.C19
