import TenpyModel.C19.Couplings
/-
Executable model of the derived lattices of `tenpy/models/lattice.py` (import-free):
`Lattice.enlarge_mps_unit_cell`, `IrregularLattice` (`_ordering_irreg`, `order` setter),
`HelicalLattice` (`_ordering_helical`, `order` setter, `possible_couplings`,
`possible_multi_couplings`, `enlarge_mps_unit_cell`), `MultiSpeciesLattice`.
-/
namespace TenpyModel.C19

/-- `Lattice.enlarge_mps_unit_cell(factor)` (regular lattice, infinite MPS) -/
def enlargeMpsUnitCell (l : Lat) (factor : Nat) : Lat :=
  let oldLx := l.Ls.headD 0
  let newOrder := (List.range factor).flatMap (fun i =>
    l.order.map (fun r => addHead r ((i * oldLx : Nat) : Int)))
  Lat.mk' ((oldLx * factor) :: l.Ls.tail) l.Lu l.bc l.bcShift l.finite newOrder

/-- `MultiSpeciesLattice(simple_lattice, species_sites)`: `simpleOrder` is
`simple_lattice.ordering('default')`. -/
def mkMultiSpecies (Ls : List Nat) (simpleLu nsp : Nat) (bc : List Bool) (bcShift : Option (List Int))
    (finite : Bool) (simpleOrder : List (List Nat)) : Lat :=
  Lat.mk' Ls (simpleLu * nsp) bc bcShift finite (castRows (simpleOrderToSelfOrder nsp simpleOrder))

/-- `perm = np.full(prod(shape), _REMOVED); perm[sum(order * strides)] = arange(len(order))` -/
def scatterPerm (shape : List Nat) (strides : List Int) (order : List (List Int)) : List Int :=
  scatter (List.replicate (prodNat shape) REMOVED) (order.map (fun r => (dot r strides).toNat))
    ((List.range order.length).map Int.ofNat)

/-- `IrregularLattice.order` setter after `_set_Ls`: `Lu` already includes the added unit-cell
sites; `N_sites = len(order)`; `_mps2lat_vals_idx*` are not set by this class. -/
def Lat.mkIrregular (Ls : List Nat) (Lu : Nat) (bc : List Bool) (bcShift : Option (List Int))
    (finite : Bool) (order : List (List Int)) : Lat :=
  let strides := stridesFrom 1 Ls
  { Ls := Ls, Lu := Lu, bc := bc, bcShift := bcShift, finite := finite, kind := .irregular,
    nSites := order.length, nRings := Ls.headD 0, nCells := prodNat Ls,
    strides := strides, order := order,
    perm := scatterPerm (Ls ++ [Lu]) strides order,
    mpsFixU := (List.range Lu).map (nonzeroU order),
    valsIdx := [], valsIdxFixU := [] }

/-- `np.argsort(keys, kind='stable')` for rational keys -/
def argsortStable (keys : List Rat) : List Nat :=
  (List.range keys.length).mergeSort (fun i j => decide (keys.getD i 0 ≤ keys.getD j 0))

/-- `IrregularLattice._ordering_irreg(order)`.  `self` provides what `self.lat2mps_idx` reads
(`finite`, `nRings`, `nSites`, `shape`, `strides`); `reg` is `regular_lattice`. -/
def orderingIrreg (self reg : Lat) (remove : Option (List (List Int)))
    (add : Option (List (List Int) × List (Option Rat))) (order : List (List Int)) : List (List Int) :=
  let mpsReg : List Int := (List.range order.length).map Int.ofNat
  let (order, mpsReg) := match remove with
    | none => (order, mpsReg)
    | some rem =>
      let self' := { self with perm := lexsortPerm order }
      let gone := rem.map (lat2mpsIdx self')
      let keep : List Bool := (List.range order.length).map (fun (k : Nat) => !gone.contains (Int.ofNat k))
      (((order.zip keep).filter (fun (p : List Int × Bool) => p.2)).map (fun (p : List Int × Bool) => p.1),
        ((mpsReg.zip keep).filter (fun (p : Int × Bool) => p.2)).map (fun (p : Int × Bool) => p.1))
  match add with
  | none => order
  | some (latIdx, mpsAdd) =>
    let mpsAdd : List Rat := (latIdx.zip mpsAdd).map (fun (lm : List Int × Option Rat) =>
      match lm.2 with
      | some v => v
      | none => ((lat2mpsIdx reg (lm.1.dropLast ++ [(reg.Lu : Int) - 1]) : Int) : Rat))
    let keys := mpsReg.map (fun (i : Int) => (i : Rat)) ++ mpsAdd
    let all := order ++ latIdx
    (argsortStable keys).map (fun k => all.getD k [])

/-- `IrregularLattice(regular_lattice, remove, add, add_unit_cell)` -/
def mkIrregularLattice (reg : Lat) (remove : Option (List (List Int)))
    (add : Option (List (List Int) × List (Option Rat))) (nAddUnitCell : Nat) : Lat :=
  let Lu := reg.Lu + nAddUnitCell
  let self0 := Lat.mkIrregular reg.Ls Lu reg.bc reg.bcShift reg.finite []
  let self0 := { self0 with nSites := prodNat (reg.Ls ++ [Lu]) }
  Lat.mkIrregular reg.Ls Lu reg.bc reg.bcShift reg.finite (orderingIrreg self0 reg remove add reg.order)

/-- `HelicalLattice`: the regular lattice plus the number of lattice unit cells per MPS unit cell. -/
structure Helical where
  reg : Lat
  nCells : Nat
  order : List (List Int)
  nSites : Nat
  perm : List Int
  mpsFixU : List (List Int)
deriving Repr

/-- the assertions of `HelicalLattice._ordering_helical` -/
def helicalOrderOk (reg : Lat) : Bool :=
  let Lu := reg.Lu
  let within := (reg.order.take Lu).map (·.getLastD 0)
  ((reg.order.take Lu).all (fun r => r.dropLast.all (· == 0)))
    && (reg.order.map (·.getLastD 0) == (List.replicate (prodNat reg.Ls) within).flatten)
    && (reg.order.map (·.dropLast)
        == (castRows (cstyle reg.Ls)).flatMap (fun r => List.replicate Lu r))

/-- `HelicalLattice(regular_lattice, N_unit_cells)`: `_ordering_helical` + `order` setter -/
def mkHelical (reg : Lat) (nCells : Nat) : Helical :=
  let order := reg.order.take (nCells * reg.Lu)
  { reg := reg, nCells := nCells, order := order, nSites := nCells * reg.Lu,
    perm := scatterPerm reg.shape reg.strides order,
    mpsFixU := (List.range reg.Lu).map (nonzeroU order) }

/-- `HelicalLattice.possible_couplings` (strength `None`) -/
def Helical.possibleCouplings (h : Helical) (u1 u2 : Nat) (dx : List Int) : Couplings :=
  let c := TenpyModel.C19.possibleCouplings h.reg u1 u2 dx
  ⟨c.rows.filter (fun r => decide (min r.1 r.2.1 < (h.nSites : Int))), c.shape⟩

/-- `HelicalLattice.possible_multi_couplings` (strength `None`) -/
def Helical.possibleMultiCouplings (h : Helical) (ops : List (List Int × Nat)) : MultiCouplings :=
  let c := TenpyModel.C19.possibleMultiCouplings h.reg ops
  ⟨c.rows.filter (fun r => decide (r.1.foldl min (r.1.headD 0) < (h.nSites : Int))), c.shape, c.error⟩

/-- `HelicalLattice.enlarge_mps_unit_cell(factor)` -/
def Helical.enlarge (h : Helical) (factor : Nat) : Helical :=
  let regCells := prodNat h.reg.Ls
  let reg := if h.nCells * factor > regCells || regCells % (h.nCells * factor) != 0
    then enlargeMpsUnitCell h.reg factor else h.reg
  mkHelical reg (factor * h.nCells)

end TenpyModel.C19
