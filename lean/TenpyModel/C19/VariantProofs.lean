import TenpyModel.C19.OrderProofs
/-! `MultiSpeciesLattice._simple_order_to_self_order` and `enlarge_mps_unit_cell` produce grid orders. -/
namespace TenpyModel.C19

theorem range_mul_flatMap (a b : Nat) :
    (List.range a).flatMap (fun i => (List.range b).map (fun j => i * b + j)) = List.range (a * b) := by
  induction a with
  | zero => simp
  | succ a ih =>
    rw [List.range_succ, List.flatMap_append, ih, Nat.succ_mul, List.range_add]
    simp

theorem cstyle_one (L : Nat) : cstyle [L] = (List.range L).map (fun u => [u]) := by
  simp only [cstyle, List.map_cons, List.map_nil]
  rw [List.map_eq_flatMap]

/-- `MultiSpeciesLattice`: from an order of the simple lattice to an order of the multi-species
lattice (`Lu ↦ Lu * N_species`) -/
theorem simpleOrderToSelfOrder_perm (Ls : List Nat) (Lu nsp : Nat) (o : List (List Nat))
    (ho : o.Perm (cstyle (Ls ++ [Lu]))) :
    (simpleOrderToSelfOrder nsp o).Perm (cstyle (Ls ++ [Lu * nsp])) := by
  unfold simpleOrderToSelfOrder
  refine (List.Perm.flatMap_right _ ho).trans ?_
  rw [cstyle_append, cstyle_append, cstyle_one, cstyle_one, ← range_mul_flatMap]
  simp only [List.flatMap_assoc, List.flatMap_map, List.map_map, List.map_flatMap, Function.comp_def]
  apply List.Perm.of_eq
  congr 1
  funext a
  simp only [List.map_eq_flatMap]
  congr 1
  funext u
  congr 1
  funext sp
  simp

theorem castRows_cstyle_cons (L : Nat) (S : List Nat) :
    castRows (cstyle (L :: S)) =
      (List.range L).flatMap (fun (x : Nat) => (castRows (cstyle S)).map (fun t => (x : Int) :: t)) := by
  simp only [castRows, cstyle, List.map_flatMap, List.map_map]
  rfl

/-- `enlarge_mps_unit_cell(factor)`: the repeated and shifted order is an order of the enlarged grid -/
theorem enlarge_gridOrder (L0 : Nat) (S : List Nat) (f : Nat) (order : List (List Int))
    (hg : GridOrder (L0 :: S) order) :
    GridOrder ((L0 * f) :: S)
      ((List.range f).flatMap (fun i => order.map (fun r => addHead r ((i * L0 : Nat) : Int)))) := by
  unfold GridOrder at hg ⊢
  refine (List.Perm.flatMap_left _ (fun i _ => hg.map _)).trans ?_
  apply List.Perm.of_eq
  rw [castRows_cstyle_cons, castRows_cstyle_cons, Nat.mul_comm L0 f, ← range_mul_flatMap, List.flatMap_assoc]
  congr 1
  funext i
  rw [List.map_flatMap, List.flatMap_map]
  congr 1
  funext x
  rw [List.map_map]
  apply List.map_congr_left
  intro t _
  simp only [Function.comp_def, addHead, List.cons.injEq, and_true]
  push_cast
  ring

end TenpyModel.C19
