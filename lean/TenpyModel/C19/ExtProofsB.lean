/-
Helper lemmas for section B (`find_coupling_pairs`) of `TenpyModel/C19/Ext.lean`.
-/
import Mathlib.Tactic.Ring
import Mathlib.Tactic.Linarith
import Mathlib.Data.List.Nodup
import Mathlib.Data.List.Perm.Basic
import TenpyModel.C19.Ext

namespace TenpyModel.C19.Ext

theorem negDx_negDx (dx : List Int) : negDx (negDx dx) = dx := by
  induction dx with
  | nil => rfl
  | cons a t ih =>
    simp only [negDx, List.map_cons, Int.neg_neg] at ih ⊢
    rw [ih]

theorem rev_rev (c : Coup) : rev (rev c) = c := by
  obtain ⟨a, b, dx⟩ := c
  simp [rev, negDx_negDx]

/-- the update of one group -/
def upd (ps : List Coup) (c : Coup) : List Coup := if ps.contains (rev c) then ps else ps ++ [c]

theorem addTo_cons (k : Int) (ps : List Coup) (rest : List (Int × List Coup)) (d : Int) (c : Coup) :
    addTo ((k, ps) :: rest) d c =
      if k = d then (k, upd ps c) :: rest else (k, ps) :: addTo rest d c := by
  simp only [addTo, upd]
  by_cases h : k = d <;> simp [h]

theorem addTo_mem {acc : List (Int × List Coup)} {d : Int} {c : Coup} {k : Int} {ps : List Coup}
    (h : (k, ps) ∈ addTo acc d c) :
    (k, ps) ∈ acc ∨ (k = d ∧ (ps = [c] ∨ ∃ ps0, (d, ps0) ∈ acc ∧ ps = upd ps0 c)) := by
  induction acc with
  | nil =>
    simp only [addTo, List.mem_singleton, Prod.mk.injEq] at h
    exact Or.inr ⟨h.1, Or.inl h.2⟩
  | cons hd tl ih =>
    obtain ⟨k0, ps0⟩ := hd
    rw [addTo_cons] at h
    split at h
    · rename_i hk
      subst hk
      rcases List.mem_cons.1 h with h | h
      · simp only [Prod.mk.injEq] at h
        exact Or.inr ⟨h.1, Or.inr ⟨ps0, List.mem_cons_self, h.2⟩⟩
      · exact Or.inl (List.mem_cons_of_mem _ h)
    · rcases List.mem_cons.1 h with h | h
      · exact Or.inl (h ▸ List.mem_cons_self)
      · rcases ih h with h' | ⟨hk, h'⟩
        · exact Or.inl (List.mem_cons_of_mem _ h')
        · refine Or.inr ⟨hk, ?_⟩
          rcases h' with h' | ⟨q, hq, hq'⟩
          · exact Or.inl h'
          · exact Or.inr ⟨q, List.mem_cons_of_mem _ hq, hq'⟩

theorem subset_upd (ps : List Coup) (c : Coup) : ∀ x ∈ ps, x ∈ upd ps c := by
  intro x hx
  unfold upd
  split
  · exact hx
  · exact List.mem_append_left _ hx

theorem addTo_grow {acc : List (Int × List Coup)} {d : Int} {c : Coup} {k : Int} {ps : List Coup}
    (h : (k, ps) ∈ acc) : ∃ ps', (k, ps') ∈ addTo acc d c ∧ ∀ x ∈ ps, x ∈ ps' := by
  induction acc with
  | nil => cases h
  | cons hd tl ih =>
    obtain ⟨k0, ps0⟩ := hd
    rw [addTo_cons]
    rcases List.mem_cons.1 h with h | h
    · simp only [Prod.mk.injEq] at h
      obtain ⟨rfl, rfl⟩ := h
      split
      · exact ⟨upd ps c, List.mem_cons_self, subset_upd ps c⟩
      · exact ⟨ps, List.mem_cons_self, fun x hx => hx⟩
    · split
      · exact ⟨ps, List.mem_cons_of_mem _ h, fun x hx => hx⟩
      · obtain ⟨ps', h1, h2⟩ := ih h
        exact ⟨ps', List.mem_cons_of_mem _ h1, h2⟩

theorem upd_has (ps : List Coup) (c : Coup) : c ∈ upd ps c ∨ rev c ∈ upd ps c := by
  unfold upd
  split
  · rename_i h
    exact Or.inr (by simpa using h)
  · exact Or.inl (by simp)

theorem addTo_has (acc : List (Int × List Coup)) (d : Int) (c : Coup) :
    ∃ ps, (d, ps) ∈ addTo acc d c ∧ (c ∈ ps ∨ rev c ∈ ps) := by
  induction acc with
  | nil => exact ⟨[c], by simp [addTo], Or.inl (by simp)⟩
  | cons hd tl ih =>
    obtain ⟨k0, ps0⟩ := hd
    rw [addTo_cons]
    split
    · rename_i hk
      subst hk
      exact ⟨upd ps0 c, List.mem_cons_self, upd_has ps0 c⟩
    · obtain ⟨ps, h1, h2⟩ := ih
      exact ⟨ps, List.mem_cons_of_mem _ h1, h2⟩

theorem addTo_keys (acc : List (Int × List Coup)) (d : Int) (c : Coup) :
    (addTo acc d c).map (·.1) =
      if d ∈ acc.map (·.1) then acc.map (·.1) else acc.map (·.1) ++ [d] := by
  induction acc with
  | nil => simp [addTo]
  | cons hd tl ih =>
    obtain ⟨k0, ps0⟩ := hd
    rw [addTo_cons]
    by_cases hk : k0 = d
    · simp [hk]
    · have hk' : ¬ d = k0 := fun h => hk h.symm
      simp only [hk, if_false, List.map_cons, ih, List.mem_cons, hk', false_or]
      split <;> simp

theorem addTo_keys_nodup {acc : List (Int × List Coup)} (d : Int) (c : Coup)
    (h : (acc.map (·.1)).Nodup) : ((addTo acc d c).map (·.1)).Nodup := by
  rw [addTo_keys]
  split
  · exact h
  · rename_i hd
    refine List.Nodup.append h (by simp) ?_
    intro x hx hx'
    simp only [List.mem_singleton] at hx'
    exact hd (hx' ▸ hx)

/-- first invariant (grouping) -/
structure Inv (d2 : Coup → Int) (cut2 : Int) (P : List Coup) (acc : List (Int × List Coup)) : Prop where
  keys : (acc.map (·.1)).Nodup
  grp : ∀ k ps, (k, ps) ∈ acc → ps ≠ [] ∧ ∀ c ∈ ps, c ∈ P ∧ d2 c = k ∧ 0 < k ∧ k ≤ cut2

/-- second invariant (exactness) -/
structure Inv2 (d2 : Coup → Int) (cut2 : Int) (P : List Coup) (acc : List (Int × List Coup)) : Prop where
  nd : ∀ k ps, (k, ps) ∈ acc → ps.Nodup ∧ ∀ c ∈ ps, c ≠ rev c → rev c ∉ ps
  ex : ∀ c ∈ P, 0 < d2 c → d2 c ≤ cut2 → ∃ ps, (d2 c, ps) ∈ acc ∧ (c ∈ ps ∨ rev c ∈ ps)

theorem fcpStep_eq (d2 : Coup → Int) (cut2 : Int) (acc : List (Int × List Coup)) (c : Coup) :
    fcpStep d2 cut2 acc c = if 0 < d2 c ∧ d2 c ≤ cut2 then addTo acc (d2 c) c else acc := by
  unfold fcpStep
  by_cases h1 : 0 < d2 c <;> by_cases h2 : d2 c ≤ cut2
  · have : ¬ d2 c > cut2 := by omega
    have h3 : ¬ d2 c ≤ 0 := by omega
    simp [h1, h2, this, h3]
  · have : d2 c > cut2 := by omega
    simp [h2, this]
  · have : d2 c ≤ 0 := by omega
    simp [h1, this]
  · have : d2 c ≤ 0 := by omega
    simp [h1, this]

theorem upd_ne_nil (ps : List Coup) (c : Coup) (h : ps ≠ []) : upd ps c ≠ [] := by
  unfold upd
  split
  · exact h
  · simp

theorem mem_upd {ps : List Coup} {c x : Coup} (h : x ∈ upd ps c) : x ∈ ps ∨ x = c := by
  unfold upd at h
  split at h
  · exact Or.inl h
  · simpa using h

theorem Inv.step {d2 : Coup → Int} {cut2 : Int} {P : List Coup} {acc : List (Int × List Coup)}
    (h : Inv d2 cut2 P acc) (c : Coup) : Inv d2 cut2 (P ++ [c]) (fcpStep d2 cut2 acc c) := by
  rw [fcpStep_eq]
  split
  · rename_i hv
    refine ⟨addTo_keys_nodup _ _ h.keys, ?_⟩
    intro k ps hm
    rcases addTo_mem hm with hm1 | ⟨hk, hm2⟩
    · obtain ⟨h1, h2⟩ := h.grp k ps hm1
      exact ⟨h1, fun x hx => ⟨List.mem_append_left _ (h2 x hx).1, (h2 x hx).2⟩⟩
    · subst hk
      rcases hm2 with rfl | ⟨ps0, hm0, rfl⟩
      · refine ⟨by simp, ?_⟩
        intro x hx
        simp only [List.mem_singleton] at hx
        subst hx
        exact ⟨by simp, rfl, hv.1, hv.2⟩
      · obtain ⟨h1, h2⟩ := h.grp _ ps0 hm0
        refine ⟨upd_ne_nil _ _ h1, ?_⟩
        intro x hx
        rcases mem_upd hx with hx | rfl
        · exact ⟨List.mem_append_left _ (h2 x hx).1, (h2 x hx).2⟩
        · exact ⟨by simp, rfl, hv.1, hv.2⟩
  · refine ⟨h.keys, ?_⟩
    intro k ps hm
    obtain ⟨h1, h2⟩ := h.grp k ps hm
    exact ⟨h1, fun x hx => ⟨List.mem_append_left _ (h2 x hx).1, (h2 x hx).2⟩⟩

theorem Inv2.step {d2 : Coup → Int} {cut2 : Int} {P : List Coup} {acc : List (Int × List Coup)}
    (h : Inv d2 cut2 P acc) (h' : Inv2 d2 cut2 P acc) (c : Coup) (hc : c ∉ P) :
    Inv2 d2 cut2 (P ++ [c]) (fcpStep d2 cut2 acc c) := by
  rw [fcpStep_eq]
  split
  · rename_i hv
    constructor
    · intro k ps hm
      rcases addTo_mem hm with hm1 | ⟨hk, hm2⟩
      · exact h'.nd k ps hm1
      · subst hk
        rcases hm2 with rfl | ⟨ps0, hm0, rfl⟩
        · refine ⟨by simp, ?_⟩
          intro x hx hne
          simp only [List.mem_singleton] at hx ⊢
          subst hx
          exact fun e => hne e.symm
        · obtain ⟨n1, n2⟩ := h'.nd _ ps0 hm0
          obtain ⟨_, g2⟩ := h.grp _ ps0 hm0
          unfold upd
          split
          · exact ⟨n1, n2⟩
          · rename_i hcon
            have hrc : rev c ∉ ps0 := by simpa using hcon
            have hcps : c ∉ ps0 := fun hx => hc (g2 c hx).1
            refine ⟨?_, ?_⟩
            · refine List.Nodup.append n1 (by simp) ?_
              intro x hx hx'
              simp only [List.mem_singleton] at hx'
              exact hcps (hx' ▸ hx)
            · intro x hx hne hr
              rcases List.mem_append.1 hx with hx | hx
              · rcases List.mem_append.1 hr with hr | hr
                · exact n2 x hx hne hr
                · simp only [List.mem_singleton] at hr
                  apply hrc
                  rw [← hr, rev_rev]
                  exact hx
              · simp only [List.mem_singleton] at hx
                subst hx
                rcases List.mem_append.1 hr with hr | hr
                · exact hrc hr
                · simp only [List.mem_singleton] at hr
                  exact hne hr.symm
    · intro x hx h0 h1
      rcases List.mem_append.1 hx with hx | hx
      · obtain ⟨ps, hps, hor⟩ := h'.ex x hx h0 h1
        obtain ⟨ps', hps', hsub⟩ := addTo_grow (d := d2 c) (c := c) hps
        exact ⟨ps', hps', hor.imp (hsub _) (hsub _)⟩
      · simp only [List.mem_singleton] at hx
        subst hx
        exact addTo_has acc (d2 x) x
  · rename_i hv
    constructor
    · exact h'.nd
    · intro x hx h0 h1
      rcases List.mem_append.1 hx with hx | hx
      · exact h'.ex x hx h0 h1
      · simp only [List.mem_singleton] at hx
        subst hx
        exact absurd ⟨h0, h1⟩ hv

theorem Inv.fold {d2 : Coup → Int} {cut2 : Int} (rest : List Coup) :
    ∀ (P : List Coup) (acc : List (Int × List Coup)), Inv d2 cut2 P acc →
      Inv d2 cut2 (P ++ rest) (rest.foldl (fcpStep d2 cut2) acc) := by
  induction rest with
  | nil => intro P acc h; simpa using h
  | cons c rest ih =>
    intro P acc h
    have := ih (P ++ [c]) _ (h.step c)
    simpa [List.append_assoc] using this

theorem Inv2.fold {d2 : Coup → Int} {cut2 : Int} (rest : List Coup) :
    ∀ (P : List Coup) (acc : List (Int × List Coup)), (P ++ rest).Nodup → Inv d2 cut2 P acc →
      Inv2 d2 cut2 P acc →
      Inv2 d2 cut2 (P ++ rest) (rest.foldl (fcpStep d2 cut2) acc) := by
  induction rest with
  | nil => intro P acc _ _ h; simpa using h
  | cons c rest ih =>
    intro P acc hnd h h'
    have hc : c ∉ P := by
      have := (List.nodup_cons.1 (List.nodup_middle.1 hnd)).1
      exact fun hx => this (List.mem_append_left _ hx)
    have hnd' : ((P ++ [c]) ++ rest).Nodup := by simpa [List.append_assoc] using hnd
    have := ih (P ++ [c]) _ hnd' (h.step c) (h'.step h c hc)
    simpa [List.append_assoc] using this

theorem fcpLoop_inv (d2 : Coup → Int) (cut2 : Int) (cands : List Coup) :
    Inv d2 cut2 cands (fcpLoop d2 cut2 cands) := by
  have h0 : Inv d2 cut2 [] [] := ⟨by simp, fun k ps h => absurd h List.not_mem_nil⟩
  simpa [fcpLoop] using Inv.fold (d2 := d2) (cut2 := cut2) cands [] [] h0

theorem fcpLoop_inv2 (d2 : Coup → Int) (cut2 : Int) (cands : List Coup) (hnd : cands.Nodup) :
    Inv2 d2 cut2 cands (fcpLoop d2 cut2 cands) := by
  have h0 : Inv d2 cut2 [] [] := ⟨by simp, fun k ps h => absurd h List.not_mem_nil⟩
  have h0' : Inv2 d2 cut2 [] [] := ⟨fun k ps h => absurd h List.not_mem_nil, fun c h => absurd h List.not_mem_nil⟩
  simpa [fcpLoop] using Inv2.fold (d2 := d2) (cut2 := cut2) cands [] [] (by simpa using hnd) h0 h0'

theorem sortKeys_perm (acc : List (Int × List Coup)) : (sortKeys acc).Perm acc :=
  List.mergeSort_perm _ _

theorem mem_sortKeys {acc : List (Int × List Coup)} {x : Int × List Coup} :
    x ∈ sortKeys acc ↔ x ∈ acc := (sortKeys_perm acc).mem_iff

theorem sortKeys_sorted (acc : List (Int × List Coup)) :
    (sortKeys acc).Pairwise (fun a b => a.1 ≤ b.1) := by
  have := List.pairwise_mergeSort (le := fun (a b : Int × List Coup) => decide (a.1 ≤ b.1))
    (by intro a b c h1 h2; simp only [decide_eq_true_eq] at *; omega)
    (by intro a b; simp only [Bool.or_eq_true, decide_eq_true_eq]; omega) acc
  simpa [sortKeys] using this

theorem sortKeys_strict (acc : List (Int × List Coup)) (h : (acc.map (·.1)).Nodup) :
    ((sortKeys acc).map (·.1)).Pairwise (· < ·) := by
  have hn : ((sortKeys acc).map (·.1)).Nodup := ((sortKeys_perm acc).map _).nodup_iff.2 h
  have hs := sortKeys_sorted acc
  rw [List.pairwise_map]
  have hn' : (sortKeys acc).Pairwise (fun a b => a.1 ≠ b.1) := by
    simpa [List.Nodup, List.pairwise_map] using hn
  exact (hs.and hn').imp (fun ⟨h1, h2⟩ => by omega)

/-! ### squared distance symmetry -/

theorem sum_map_neg {α : Type} (l : List α) (f : α → Int) :
    (l.map (fun a => - f a)).sum = - (l.map f).sum := by
  induction l with
  | nil => simp
  | cons a t ih => simp only [List.map_cons, List.sum_cons, ih]; omega

theorem getD_negDx (dx : List Int) (a : Nat) : (negDx dx).getD a 0 = -(dx.getD a 0) := by
  induction dx generalizing a with
  | nil => simp [negDx]
  | cons x t ih =>
    cases a with
    | zero => simp [negDx]
    | succ a => simpa [negDx] using ih a

theorem dotDx_negDx (dx : List Int) (basis : List (List Int)) (k : Nat) :
    dotDx (negDx dx) basis k = - dotDx dx basis k := by
  unfold dotDx
  rw [← sum_map_neg]
  congr 1
  apply List.map_congr_left
  intro a _
  rw [getD_negDx]
  ring

theorem distComp_rev (basis pos : List (List Int)) (c : Coup) (k : Nat) :
    distComp basis pos (rev c) k = - distComp basis pos c k := by
  obtain ⟨u1, u2, dx⟩ := c
  simp only [distComp, rev, dotDx_negDx]
  ring

theorem sqDistInt_rev (basis pos : List (List Int)) (c : Coup) :
    sqDistInt basis pos (rev c) = sqDistInt basis pos c := by
  unfold sqDistInt
  congr 1
  apply List.map_congr_left
  intro k _
  rw [distComp_rev]
  ring

/-! ### candidates -/


theorem mem_dxRange (m : Nat) (x : Int) : x ∈ dxRange m ↔ -(m:Int) ≤ x ∧ x ≤ m := by
  unfold dxRange
  rw [List.mem_map]
  constructor
  · rintro ⟨k, hk, rfl⟩
    rw [List.mem_range] at hk
    constructor <;> omega
  · rintro ⟨h1, h2⟩
    refine ⟨((m : Int) - x).toNat, ?_, ?_⟩
    · rw [List.mem_range]; omega
    · omega

theorem dxRange_nodup (m : Nat) : (dxRange m).Nodup := by
  unfold dxRange
  refine List.Nodup.map ?_ List.nodup_range
  intro a b h
  simp only at h
  omega

theorem mem_dxProduct (dim m : Nat) (r : List Int) :
    r ∈ dxProduct dim m ↔ r.length = dim ∧ ∀ x ∈ r, -(m:Int) ≤ x ∧ x ≤ m := by
  induction dim generalizing r with
  | zero =>
    unfold dxProduct
    rw [List.mem_singleton]
    constructor
    · rintro rfl
      exact ⟨rfl, fun x hx => absurd hx List.not_mem_nil⟩
    · rintro ⟨h, _⟩
      exact List.length_eq_zero_iff.mp h
  | succ dim ih =>
    unfold dxProduct
    rw [List.mem_flatMap]
    constructor
    · rintro ⟨d, hd, hr⟩
      rw [List.mem_map] at hr
      obtain ⟨r', hr', rfl⟩ := hr
      obtain ⟨hl, hb⟩ := (ih r').mp hr'
      refine ⟨by rw [List.length_cons, hl], ?_⟩
      intro x hx
      rw [List.mem_cons] at hx
      rcases hx with rfl | hx
      · exact (mem_dxRange m _).mp hd
      · exact hb x hx
    · rintro ⟨hl, hb⟩
      cases r with
      | nil => simp at hl
      | cons d r' =>
        refine ⟨d, (mem_dxRange m d).mpr (hb d List.mem_cons_self), ?_⟩
        rw [List.mem_map]
        refine ⟨r', (ih r').mpr ⟨?_, fun x hx => hb x (List.mem_cons_of_mem _ hx)⟩, rfl⟩
        rw [List.length_cons] at hl
        omega

theorem dxProduct_nodup (dim m : Nat) : (dxProduct dim m).Nodup := by
  induction dim with
  | zero => unfold dxProduct; exact List.nodup_singleton _
  | succ dim ih =>
    unfold dxProduct
    rw [List.nodup_flatMap]
    refine ⟨fun d _ => List.Nodup.map (fun a b h => (List.cons.inj h).2) ih, ?_⟩
    refine (dxRange_nodup m).pairwise_of_forall_ne ?_
    intro a _ b _ hab
    show List.Disjoint _ _
    intro r h1 h2
    rw [List.mem_map] at h1 h2
    obtain ⟨r1, _, rfl⟩ := h1
    obtain ⟨r2, _, h⟩ := h2
    exact hab (List.cons.inj h).1.symm

theorem mem_candidates (Lu dim m : Nat) (c : Coup) :
    c ∈ candidates Lu dim m ↔
      c.1 < Lu ∧ c.2.1 < Lu ∧ c.2.2.length = dim ∧ ∀ x ∈ c.2.2, -(m : Int) ≤ x ∧ x ≤ m := by
  obtain ⟨u1, u2, dx⟩ := c
  unfold candidates
  simp only [List.mem_flatMap, List.mem_map, List.mem_range, Prod.mk.injEq]
  constructor
  · rintro ⟨a, ha, b, hb, r, hr, rfl, rfl, rfl⟩
    exact ⟨ha, hb, (mem_dxProduct dim m r).mp hr⟩
  · rintro ⟨h1, h2, h3⟩
    exact ⟨u1, h1, u2, h2, dx, (mem_dxProduct dim m dx).mpr h3, rfl, rfl, rfl⟩

theorem candidates_nodup (Lu dim m : Nat) : (candidates Lu dim m).Nodup := by
  unfold candidates
  rw [List.nodup_flatMap]
  constructor
  · intro u1 _
    rw [List.nodup_flatMap]
    constructor
    · intro u2 _
      refine List.Nodup.map ?_ (dxProduct_nodup dim m)
      intro a b h
      exact (Prod.mk.inj (Prod.mk.inj h).2).2
    · refine List.nodup_range.pairwise_of_forall_ne ?_
      intro a _ b _ hab
      show List.Disjoint _ _
      intro c h1 h2
      rw [List.mem_map] at h1 h2
      obtain ⟨r1, _, rfl⟩ := h1
      obtain ⟨r2, _, h⟩ := h2
      exact hab (Prod.mk.inj (Prod.mk.inj h).2).1.symm
  · refine List.nodup_range.pairwise_of_forall_ne ?_
    intro a _ b _ hab
    show List.Disjoint _ _
    intro c h1 h2
    simp only [List.mem_flatMap, List.mem_map] at h1 h2
    obtain ⟨_, _, _, _, rfl⟩ := h1
    obtain ⟨_, _, _, _, h⟩ := h2
    exact hab (Prod.mk.inj h).1.symm

theorem candidates_rev {Lu dim m : Nat} {c : Coup} (h : c ∈ candidates Lu dim m) :
    rev c ∈ candidates Lu dim m := by
  rw [mem_candidates] at h ⊢
  obtain ⟨h1, h2, h3, h4⟩ := h
  refine ⟨h2, h1, ?_, ?_⟩
  · show (negDx c.2.2).length = dim
    unfold negDx
    rw [List.length_map]; exact h3
  · intro x hx
    have hx' : x ∈ negDx c.2.2 := hx
    unfold negDx at hx'
    rw [List.mem_map] at hx'
    obtain ⟨y, hy, rfl⟩ := hx'
    have := h4 y hy
    constructor <;> omega


end TenpyModel.C19.Ext
