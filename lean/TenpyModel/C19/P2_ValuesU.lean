import TenpyModel.C19.CouplingProofs
/-! `mps2lat_values(A, u=u)`: helper lemmas. -/
namespace TenpyModel.C19

theorem dropLast_append_singleton' (x : List Int) (u : Int) : (x ++ [u]).dropLast = x := by simp

/-- the sites with unit-cell index `u`, as cells: a duplicate-free enumeration of the whole cell grid -/
theorem fixU_cells (Ls : List Nat) (Lu : Nat) (order : List (List Int)) (hg : GridOrder (Ls ++ [Lu]) order)
    (u : Nat) (hu : u < Lu) :
    let cells := (nonzeroU order u).map (fun i => (order.getD i.toNat []).dropLast)
    cells.Nodup ∧ (∀ x, x ∈ cells ↔ InGrid Ls x) ∧ cells.length = prodNat Ls := by
  intro cells
  have hmem : ∀ i, i ∈ nonzeroU order u ↔ ∃ k : Nat, i = k ∧ ∃ h : k < order.length, (order[k]).getLastD 0 = (u : Int) :=
    mem_nonzeroU order u
  have hrow : ∀ k : Nat, ∀ h : k < order.length, (order[k]).getLastD 0 = (u : Int) →
      order[k] = (order[k]).dropLast ++ [(u : Int)] ∧ InGrid Ls (order[k]).dropLast := by
    intro k hk hl
    have hin := hg.mem_iff.1 (List.getElem_mem hk)
    obtain ⟨e, h1, _, _⟩ := inGrid_dropLast hin
    rw [hl] at e
    exact ⟨e, h1⟩
  have hpw : (nonzeroU order u).Pairwise (· ≠ ·) := by
    unfold nonzeroU
    have h1 : ((order.zipIdx.filter (fun ri => ri.1.getLastD 0 == (u : Int))).map Prod.snd).Pairwise (· < ·) := by
      apply List.Pairwise.sublist (List.Sublist.map _ List.filter_sublist)
      rw [List.zipIdx_map_snd]
      exact List.pairwise_lt_range' 1
    have h2 := List.Pairwise.map (fun (k : Nat) => (k : Int)) (R := (· < ·)) (S := (· ≠ ·))
      (fun a b h => by omega) h1
    simpa only [List.map_map, Function.comp_def] using h2
  have hnd : cells.Nodup := by
    rw [List.nodup_iff_pairwise_ne]
    apply List.Pairwise.map _ _ (List.Pairwise.and_mem.1 hpw)
    rintro i j ⟨hi, hj, hne⟩ heq
    obtain ⟨k, rfl, hk, hl⟩ := (hmem i).1 hi
    obtain ⟨k', rfl, hk', hl'⟩ := (hmem j).1 hj
    simp only [Int.toNat_natCast, getD_eq_getElem' _ _ hk, getD_eq_getElem' _ _ hk'] at heq
    have e1 := (hrow k hk hl).1
    have e2 := (hrow k' hk' hl').1
    have : order[k] = order[k'] := by rw [e1, e2, heq]
    have := (List.Nodup.getElem_inj_iff hg.nodup).1 this
    exact hne (by omega)
  have hiff : ∀ x, x ∈ cells ↔ InGrid Ls x := by
    intro x
    constructor
    · intro hx
      obtain ⟨i, hi, rfl⟩ := List.mem_map.1 hx
      obtain ⟨k, rfl, hk, hl⟩ := (hmem i).1 hi
      simp only [Int.toNat_natCast, getD_eq_getElem' _ _ hk]
      exact (hrow k hk hl).2
    · intro hx
      have hxu : InGrid (Ls ++ [Lu]) (x ++ [(u : Int)]) := inGrid_append.2 ⟨hx, by omega, by omega⟩
      obtain ⟨k, hk, e⟩ := List.mem_iff_getElem.1 (hg.mem_iff.2 hxu)
      refine List.mem_map.2 ⟨(k : Int), (hmem _).2 ⟨k, rfl, hk, by rw [e]; simp⟩, ?_⟩
      simp only [Int.toNat_natCast, getD_eq_getElem' _ _ hk, e, dropLast_append_singleton']
  refine ⟨hnd, hiff, ?_⟩
  have hnd2 := castRows_cstyle_nodup Ls
  have s1 : cells ⊆ castRows (cstyle Ls) := fun x hx => mem_castRows_cstyle.2 ((hiff x).1 hx)
  have s2 : castRows (cstyle Ls) ⊆ cells := fun x hx => (hiff x).2 (mem_castRows_cstyle.1 hx)
  have l1 := (List.subperm_of_subset hnd s1).length_le
  have l2 := (List.subperm_of_subset hnd2 s2).length_le
  have : (castRows (cstyle Ls)).length = prodNat Ls := by simp [castRows, cstyle_length]
  omega

end TenpyModel.C19
