import TenpyModel.C19.OrderProofs
/-!
# C19 — orderings: property theorems

"Every named ordering is a permutation of the grid": for any dimension and any (positive) sizes,
the rows produced by `get_order` (any snake winding, any priority), `get_order_grouped` (any
partition of the unit cell into groups, any priority), the `'folded'` orders of Chain / Ladder /
NLegLadder, and every string accepted by the `ordering` methods of the lattice classes list every
grid point `(x_0, ..., x_{D-1}, u)` exactly once (`List.Perm _ (cstyle shape)`, `cstyle` being
`np.mgrid`).  `C19_order_gridOrder` feeds this into the index-map and coupling theorems.
-/
open TenpyModel.C19

/-- **`get_order(shape, snake_winding, priority)`** is a permutation of the grid, for every snake
winding and every priority vector of the right length (`np.argsort(priority)` is modelled by the
stable sort; any result that is a permutation of `range(len(shape))` would do). -/
theorem C19_order_perm (shape : List Nat) (snake : List Bool) (prio : Option (List Int))
    (hpos : ∀ L ∈ shape, 0 < L) (hp : ∀ p, prio = some p → p.length = shape.length) :
    (getOrder shape snake prio).Perm (cstyle shape) :=
  getOrder_perm shape snake prio hpos hp

/-- **`get_order_grouped(shape, groups, priority)`** is a permutation of the grid whenever `groups`
is a partition (in any order) of the index range of the direction with the highest priority
(the unit cell, for `priority=None`). -/
theorem C19_order_grouped_perm (shape : List Nat) (groups : List (List Nat)) (prio : Option (List Int))
    (h2 : 2 ≤ shape.length) (hp : ∀ p, prio = some p → p.length = shape.length)
    (hg : groups.flatten.Perm (List.range
      ((match prio with
        | none => shape
        | some p => gather 0 shape (argsort p)).getD (shape.length - 1) 0))) :
    (getOrderGrouped shape groups prio).Perm (cstyle shape) :=
  getOrderGrouped_perm shape groups prio h2 hp hg

namespace TenpyModel.C19

theorem intRangeDown_length (n : Nat) : (intRangeDown n).length = n + 1 := by simp [intRangeDown]

theorem baseOrdering_name_perm (shape : List Nat) (s : String) (o : List (List Nat))
    (hne : shape ≠ []) (hpos : ∀ L ∈ shape, 0 < L) (h : baseOrdering shape (.name s) = some o) :
    o.Perm (cstyle shape) := by
  have hlen : 0 < shape.length := List.length_pos_iff.2 hne
  have hp : ∀ p, some (intRangeDown (shape.length - 1)) = some p → p.length = shape.length := by
    intro p hp'; cases hp'; rw [intRangeDown_length]; omega
  simp only [baseOrdering] at h
  split at h
  · cases h; exact getOrder_perm shape _ none hpos (by intro p hp'; cases hp')
  · split at h
    · cases h; exact getOrder_perm shape _ _ hpos hp
    · split at h
      · cases h; exact getOrder_perm shape _ none hpos (by intro p hp'; cases hp')
      · split at h
        · cases h; exact getOrder_perm shape _ _ hpos hp
        · cases h

/-- the shapes `Ls + (Lu,)` a lattice class can have -/
def ShapeFor : Cls → List Nat → Prop
  | .chain, s => ∃ L, s = [L, 1]
  | .ladder, s => ∃ L, s = [L, 2]
  | .nleg, s => ∃ L Lu, s = [L, Lu]
  | .square, s => ∃ Lx Ly, s = [Lx, Ly, 1]
  | .triangular, s => ∃ Lx Ly, s = [Lx, Ly, 1]
  | .honeycomb, s => ∃ Lx Ly, s = [Lx, Ly, 2]
  | .kagome, s => ∃ Lx Ly, s = [Lx, Ly, 3]
  | .lattice, s => s ≠ []
  | .simple, s => s ≠ []

theorem shapeFor_ne {cls : Cls} {shape : List Nat} (h : ShapeFor cls shape) : shape ≠ [] := by
  cases cls <;> simp only [ShapeFor] at h
  all_goals first
    | exact h
    | (obtain ⟨a, rfl⟩ := h; simp)
    | (obtain ⟨a, b, rfl⟩ := h; simp)

end TenpyModel.C19

/-- **Every named ordering of every lattice class is a permutation of the grid**: whatever string
`cls.ordering(name)` accepts (`default`, `Cstyle`, `Fstyle`, `snake`, `snakeCstyle`, `snakeFstyle`,
`folded` for Chain/Ladder/NLegLadder, `rings`/`snake`/`snake_rings` for Honeycomb, `rings` for
Kagome), for any sizes. -/
theorem C19_named_order_perm (cls : Cls) (shape : List Nat) (s : String) (o : List (List Nat))
    (hs : ShapeFor cls shape) (hpos : ∀ L ∈ shape, 0 < L)
    (h : clsOrdering cls shape (.name s) = some o) : o.Perm (cstyle shape) := by
  have hne := shapeFor_ne hs
  have base := fun h' => baseOrdering_name_perm shape s o hne hpos h'
  cases cls
  case lattice => exact base h
  case simple => exact base h
  case square => exact base h
  case triangular => exact base h
  case chain =>
    obtain ⟨L, rfl⟩ := hs
    simp only [clsOrdering, List.headD_cons] at h
    split at h
    · cases h; exact rowsAlong_perm _ L 1 (List.Perm.refl _)
    · split at h
      · cases h; exact rowsAlong_perm _ L 1 (foldedIdx_perm L)
      · exact base h
  case ladder =>
    obtain ⟨L, rfl⟩ := hs
    simp only [clsOrdering, List.headD_cons] at h
    split at h
    · cases h; exact rowsAlong_perm _ L 2 (List.Perm.refl _)
    · split at h
      · cases h; exact rowsAlong_perm _ L 2 (foldedIdx_perm L)
      · split at h
        · cases h
        · exact base h
  case nleg =>
    obtain ⟨L, Lu, rfl⟩ := hs
    simp only [clsOrdering, List.headD_cons] at h
    have hLu : [L, Lu].getD 1 0 = Lu := rfl
    rw [hLu] at h
    split at h
    · cases h; exact rowsAlong_perm _ L Lu (List.Perm.refl _)
    · split at h
      · cases h; exact rowsAlong_perm _ L Lu (foldedIdx_perm L)
      · exact base h
  case honeycomb =>
    obtain ⟨Lx, Ly, rfl⟩ := hs
    simp only [clsOrdering] at h
    split at h
    · cases h; exact getOrder_perm _ _ _ hpos (by intro p hp; cases hp; rfl)
    · split at h
      · cases h; exact getOrder_perm _ _ _ hpos (by intro p hp; cases hp; rfl)
      · exact base h
  case kagome =>
    obtain ⟨Lx, Ly, rfl⟩ := hs
    simp only [clsOrdering] at h
    split at h
    · cases h
      refine getOrderGrouped_perm _ _ none (by simp) (by intro p hp; cases hp) ?_
      show [[0, 2], [1]].flatten.Perm (List.range 3)
      decide
    · exact base h

/-- **Bridge**: an order that is a permutation of the grid (natural-number rows, as produced by the
ordering functions) is, after the cast to `intp` done by the `order` setter, a `GridOrder` — the
hypothesis of the index-map and coupling theorems (`C19_roundtrip_*`, `C19_coupOK_regular`). -/
theorem C19_order_gridOrder (shape : List Nat) (o : List (List Nat)) (h : o.Perm (cstyle shape)) :
    GridOrder shape (castRows o) :=
  gridOrder_of_perm h

/-- Non-vacuity / concrete instances: a snake order with F-style priority on a 3x2 grid with two
sites per cell, the Honeycomb `snake` order and the Kagome `rings` order are permutations of their
grids, hence `GridOrder`s. -/
example : (getOrder [3, 2, 2] [true, true, true] (some [2, 1, 0])).Perm (cstyle [3, 2, 2]) :=
  C19_order_perm _ _ _ (by decide) (by intro p hp; cases hp; rfl)

example : ∀ o, clsOrdering .honeycomb [2, 3, 2] (.name "snake") = some o → GridOrder [2, 3, 2] (castRows o) :=
  fun o h => C19_order_gridOrder _ o (C19_named_order_perm .honeycomb _ "snake" o ⟨2, 3, rfl⟩ (by decide) h)

example : ∀ o, clsOrdering .kagome [2, 2, 3] (.name "rings") = some o → o.Perm (cstyle [2, 2, 3]) :=
  fun o h => C19_named_order_perm .kagome _ "rings" o ⟨2, 2, rfl⟩ (by decide) h
