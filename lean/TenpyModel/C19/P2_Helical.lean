import TenpyModel.C19.VariantProofs
import TenpyModel.C19.P2_MultiIdx
/-! `HelicalLattice`: the MPS index of the regular lattice (shift `-1`, helical order) is a linear
function of the unwrapped cell position; hence the couplings are invariant under translation by one
lattice unit cell. -/
namespace TenpyModel.C19

/-- indexing a list whose entries are repeated `n` times -/
theorem flatMap_replicate_getElem? {β : Type} (l : List β) (n : Nat) (hn : 0 < n) (k : Nat) :
    (l.flatMap (fun r => List.replicate n r))[k]? = l[k / n]? := by
  induction l generalizing k with
  | nil => simp
  | cons a l ih =>
    simp only [List.flatMap_cons]
    by_cases hk : k < n
    · rw [List.getElem?_append_left (by simpa using hk), Nat.div_eq_of_lt hk]
      simp [hk]
    · rw [List.getElem?_append_right (by simpa using Nat.le_of_not_lt hk)]
      simp only [List.length_replicate]
      rw [ih (k - n)]
      have : k / n = (k - n) / n + 1 := by
        have h1 : k = (k - n) + n := by omega
        conv_lhs => rw [h1]
        rw [Nat.add_div_right _ hn]
      rw [this]; simp

theorem grid2_getElem? {β : Type} (g : Nat → Nat → β) (Lx Ly : Nat) (c : Nat) (hc : c < Lx * Ly) :
    ((List.range Lx).flatMap (fun x => (List.range Ly).map (g x)))[c]? = some (g (c / Ly) (c % Ly)) := by
  have hLy : 0 < Ly := by
    rcases Nat.eq_zero_or_pos Ly with h | h
    · subst h; simp at hc
    · exact h
  induction Lx generalizing c with
  | zero => simp at hc
  | succ n ih =>
    rw [List.range_succ, List.flatMap_append]
    have hlen : ((List.range n).flatMap (fun x => (List.range Ly).map (g x))).length = n * Ly := by
      rw [length_flatMap_const _ _ Ly (by intro x _; simp)]; simp
    have hc' : c < n * Ly + Ly := by rw [Nat.succ_mul] at hc; exact hc
    by_cases hlt : c < n * Ly
    · rw [List.getElem?_append_left (by rw [hlen]; exact hlt)]
      exact ih c hlt
    · have hge : n * Ly ≤ c := Nat.le_of_not_lt hlt
      rw [List.getElem?_append_right (by rw [hlen]; exact hge), hlen]
      have hd : c / Ly = n := by
        apply Nat.div_eq_of_lt_le
        · exact hge
        · rw [Nat.succ_mul]; exact hc'
      have hm : c % Ly = c - n * Ly := by
        have := Nat.div_add_mod c Ly
        rw [hd, Nat.mul_comm] at this; omega
      simp only [List.flatMap_cons, List.flatMap_nil, List.append_nil, List.getElem?_map]
      rw [List.getElem?_range (by omega)]
      simp [hd, hm]

theorem flatMap_singleton_eq_map {β γ : Type} (l : List β) (f : β → γ) : l.flatMap (fun x => [f x]) = l.map f := by
  induction l with
  | nil => rfl
  | cons a l ih => simp [ih]

/-- C-order enumeration of a 2D grid -/
theorem cstyle2_getElem? (Lx Ly : Nat) (c : Nat) (hc : c < Lx * Ly) :
    (cstyle [Lx, Ly])[c]? = some [c / Ly, c % Ly] := by
  have h1 : cstyle [Lx, Ly] = (List.range Lx).flatMap (fun x => (List.range Ly).map (fun y => [x, y])) := by
    simp only [cstyle, List.map_cons, List.map_nil]
    congr 1
    funext x
    rw [flatMap_singleton_eq_map, List.map_map]
    rfl
  rw [h1]
  exact grid2_getElem? (fun x y => [x, y]) Lx Ly c hc


theorem flatten_replicate_getElem? {β : Type} (w : List β) (n k : Nat) (hk : k < n * w.length) :
    ((List.replicate n w).flatten)[k]? = w[k % w.length]? := by
  induction n generalizing k with
  | zero => simp at hk
  | succ n ih =>
    rw [List.replicate_succ, List.flatten_cons]
    by_cases h : k < w.length
    · rw [List.getElem?_append_left h, Nat.mod_eq_of_lt h]
    · have hge : w.length ≤ k := Nat.le_of_not_lt h
      rw [List.getElem?_append_right hge, ih (k - w.length) (by rw [Nat.succ_mul] at hk; omega)]
      have : k % w.length = (k - w.length) % w.length := by
        conv_lhs => rw [show k = (k - w.length) + w.length by omega]
        exact Nat.add_mod_right _ _
      rw [this]

/-- the regular lattice handed to `HelicalLattice`: 2D, infinite, periodic, `bc_shift = -1`, helical order -/
structure HelicalReg (l : Lat) (Lx Ly : Nat) : Prop where
  ok : CoupOK l
  hf : l.finite = false
  hLs : l.Ls = [Lx, Ly]
  hbc : l.bc = [false, false]
  hsh : l.bcShift = some [-1]
  hh : helicalOrderOk l = true

/-- the unit-cell indices in the order in which they occur inside a cell -/
def withinU (l : Lat) : List Int := (l.order.take l.Lu).map (·.getLastD 0)

namespace HelicalReg
variable {l : Lat} {Lx Ly : Nat} (H : HelicalReg l Lx Ly)
include H

theorem decode : l.order.map (·.getLastD 0) = (List.replicate (Lx * Ly) (withinU l)).flatten ∧
    l.order.map (·.dropLast) = (castRows (cstyle [Lx, Ly])).flatMap (fun r => List.replicate l.Lu r) := by
  have h := H.hh
  unfold helicalOrderOk at h
  simp only [Bool.and_eq_true, beq_iff_eq, H.hLs] at h
  refine ⟨?_, h.2⟩
  have : prodNat [Lx, Ly] = Lx * Ly := by simp [prodNat]
  rw [← this]; exact h.1.2

theorem order_length : l.order.length = Lx * Ly * l.Lu := by
  have h := congrArg List.length H.decode.2
  rw [List.length_map, length_flatMap_const _ _ l.Lu (by intro x _; simp)] at h
  rw [h]; simp [castRows, cstyle_length, prodNat]

theorem lu_pos : 0 < l.Lu := by
  have := H.ok.toLatOK.npos
  rw [H.order_length] at this
  rcases Nat.eq_zero_or_pos l.Lu with h | h
  · rw [h] at this; simp at this
  · exact h

theorem withinU_length : (withinU l).length = l.Lu := by
  simp only [withinU, List.length_map, List.length_take]
  have := H.order_length
  have h1 := H.lu_pos
  have h2 : 0 < Lx * Ly := by
    rcases Nat.eq_zero_or_pos (Lx * Ly) with h | h
    · have := H.ok.toLatOK.npos; rw [H.order_length, h] at this; simp at this
    · exact h
  have : l.Lu ≤ Lx * Ly * l.Lu := Nat.le_mul_of_pos_left _ h2
  omega

/-- **the rows of a helical order**: site `k` is site `k mod Lu` of cell `k / Lu` in C order -/
theorem row (k : Nat) (hk : k < l.order.length) :
    l.order.getD k [] =
      [((k / l.Lu / Ly : Nat) : Int), ((k / l.Lu % Ly : Nat) : Int)] ++ [(withinU l).getD (k % l.Lu) 0] := by
  have hin := H.ok.toLatOK.row_inGrid hk
  obtain ⟨e, _, _, _⟩ := inGrid_dropLast hin
  have hLu := H.lu_pos
  have hlen := H.order_length
  have hc : k / l.Lu < Lx * Ly := by
    apply Nat.div_lt_of_lt_mul
    rw [Nat.mul_comm]; omega
  -- the cell
  have h1 : (l.order.getD k []).dropLast = [((k / l.Lu / Ly : Nat) : Int), ((k / l.Lu % Ly : Nat) : Int)] := by
    have := congrArg (fun L => L[k]?) H.decode.2
    simp only [List.getElem?_map] at this
    rw [flatMap_replicate_getElem? _ _ hLu, List.getElem?_eq_getElem hk] at this
    simp only [castRows, List.getElem?_map, cstyle2_getElem? Lx Ly _ hc, Option.map_some, List.map_cons,
      List.map_nil, Option.some.injEq] at this
    rw [getD_eq_getElem' _ _ hk, this]
    rfl
  -- the unit-cell index
  have h2 : (l.order.getD k []).getLastD 0 = (withinU l).getD (k % l.Lu) 0 := by
    have := congrArg (fun L => L[k]?) H.decode.1
    simp only [List.getElem?_map] at this
    rw [flatten_replicate_getElem? _ _ _ (by rw [H.withinU_length]; omega), H.withinU_length,
      List.getElem?_eq_getElem hk] at this
    rw [getD_eq_getElem' _ _ hk, List.getD_eq_getElem?_getD, ← this]
    rfl
  rw [e, h1, h2]

end HelicalReg

end TenpyModel.C19
