import TenpyModel.C19.P2_Helical
import TenpyModel.C19.MultiProofs
/-! `HelicalLattice`: linear MPS index of the regular lattice. -/
namespace TenpyModel.C19

namespace HelicalReg
variable {l : Lat} {Lx Ly : Nat} (H : HelicalReg l Lx Ly)
include H

theorem lx_pos : 0 < Lx := H.ok.lpos Lx (by rw [H.hLs]; simp)
theorem ly_pos : 0 < Ly := H.ok.lpos Ly (by rw [H.hLs]; simp)

theorem nsites : (l.nSites : Int) = (Lx : Int) * Ly * l.Lu := by
  rw [H.ok.toLatOK.sites, H.order_length]; push_cast; rfl

/-- `Target` for the helical regular lattice, written out -/
theorem target_iff (X0 X1 : Int) (y : List Int) (k0 : Int) :
    Target l [X0, X1] y k0 ↔ ∃ y0 y1 k1 : Int, y = [y0, y1] ∧ X1 = y1 + k1 * Ly ∧ 0 ≤ y1 ∧ y1 < Ly ∧
      X0 + k1 = y0 + k0 * Lx ∧ 0 ≤ y0 ∧ y0 < Lx := by
  rw [target_iff_idx l H.ok.lsne H.ok.bclen]
  unfold TargetIdx
  simp only [H.hLs, H.hbc, H.hsh, List.length_cons, List.length_nil, Option.getD_some]
  constructor
  · rintro ⟨ks, _, hy, hks, htail, hhead, h0, h1, _⟩
    match y, hy, ks, hks with
    | [y0, y1], _, [k1], _ =>
      have := htail 0 (by omega)
      simp only [List.getD_cons_succ, List.getD_cons_zero] at this hhead h0 h1
      refine ⟨y0, y1, k1, rfl, this.1, this.2.1, this.2.2.1, ?_, h0, h1⟩
      simp only [dot, Int.add_zero] at hhead
      omega
  · rintro ⟨y0, y1, k1, rfl, a1, a2, a3, a4, a5, a6⟩
    refine ⟨[k1], trivial, rfl, rfl, ?_, ?_, by simpa using a5, by simpa using a6, by simp⟩
    · intro a ha
      have : a = 0 := by omega
      subst this
      simp only [List.getD_cons_succ, List.getD_cons_zero]
      exact ⟨a1, a2, a3, by simp⟩
    · simp only [List.getD_cons_zero, dot, Int.add_zero]
      omega


/-- **The MPS index is linear in the unwrapped position**: the site `u` of the (unwrapped) cell
`(X0, X1)` of the infinite system has MPS index `(X0 Ly + X1) Lu + w`, where `w` is the position of
`u` inside a cell. -/
theorem opSpec_linear (X0 X1 : Int) (u : Nat) (raw : Int) :
    OpSpec l [X0, X1] u raw ↔
      ∃ w : Nat, w < l.Lu ∧ (withinU l).getD w 0 = (u : Int) ∧ raw = (X0 * Ly + X1) * l.Lu + w := by
  have hLu := H.lu_pos
  have hLx := H.lx_pos
  have hLy := H.ly_pos
  constructor
  · rintro ⟨y, k0, j0, ht, ⟨k, rfl, hk, hrow⟩, rfl⟩
    obtain ⟨y0, y1, k1, rfl, a1, a2, a3, a4, a5, a6⟩ := (H.target_iff X0 X1 y k0).1 ht
    rw [H.row k hk] at hrow
    have e := List.append_inj hrow (by simp)
    have e1 := e.1
    have e2 := e.2
    simp only [List.cons.injEq, and_true] at e1 e2
    refine ⟨k % l.Lu, Nat.mod_lt _ hLu, e2, ?_⟩
    simp only [H.hf, Bool.false_eq_true, if_false, H.nsites]
    have d1 := Nat.div_add_mod k l.Lu
    have d2 := Nat.div_add_mod (k / l.Lu) Ly
    have c1 : (k : Int) = (l.Lu : Int) * ((k / l.Lu : Nat) : Int) + ((k % l.Lu : Nat) : Int) := by
      exact_mod_cast d1.symm
    have c2 : ((k / l.Lu : Nat) : Int) = (Ly : Int) * ((k / l.Lu / Ly : Nat) : Int) + ((k / l.Lu % Ly : Nat) : Int) := by
      exact_mod_cast d2.symm
    rw [c1, c2, e1.1, e1.2]
    have hX0 : X0 = y0 + k0 * Lx - k1 := by omega
    rw [hX0, a1]
    push_cast
    ring
  · rintro ⟨w, hw, hu, rfl⟩
    have hLyne : (Ly : Int) ≠ 0 := by omega
    have hLxne : (Lx : Int) ≠ 0 := by omega
    obtain ⟨y1, k1, hdm1, b1, b2⟩ : ∃ y1 k1 : Int, X1 = y1 + k1 * Ly ∧ 0 ≤ y1 ∧ y1 < Ly := by
      refine ⟨X1 % (Ly : Int), X1 / (Ly : Int), ?_, Int.emod_nonneg _ hLyne, Int.emod_lt_of_pos _ (by omega)⟩
      have := Int.emod_add_mul_ediv X1 (Ly : Int)
      rw [Int.mul_comm] at this; omega
    obtain ⟨y0, k0, hdm0, b3, b4⟩ : ∃ y0 k0 : Int, X0 + k1 = y0 + k0 * Lx ∧ 0 ≤ y0 ∧ y0 < Lx := by
      refine ⟨(X0 + k1) % (Lx : Int), (X0 + k1) / (Lx : Int), ?_, Int.emod_nonneg _ hLxne,
        Int.emod_lt_of_pos _ (by omega)⟩
      have := Int.emod_add_mul_ediv (X0 + k1) (Lx : Int)
      rw [Int.mul_comm] at this; omega
    let c : Nat := y0.toNat * Ly + y1.toNat
    let kN : Nat := c * l.Lu + w
    have hc : c < Lx * Ly := by
      have h1 : y0.toNat < Lx := by omega
      have h2 : y1.toNat < Ly := by omega
      calc c = y0.toNat * Ly + y1.toNat := rfl
        _ < y0.toNat * Ly + Ly := by omega
        _ = (y0.toNat + 1) * Ly := by rw [Nat.succ_mul]
        _ ≤ Lx * Ly := Nat.mul_le_mul_right _ h1
    have hkN : kN < l.order.length := by
      rw [H.order_length]
      calc kN = c * l.Lu + w := rfl
        _ < c * l.Lu + l.Lu := by omega
        _ = (c + 1) * l.Lu := by rw [Nat.succ_mul]
        _ ≤ Lx * Ly * l.Lu := Nat.mul_le_mul_right _ hc
    have q1 : kN / l.Lu = c := by
      show (c * l.Lu + w) / l.Lu = c
      rw [Nat.mul_comm, Nat.mul_add_div hLu, Nat.div_eq_of_lt hw]; rfl
    have q2 : kN % l.Lu = w := by
      show (c * l.Lu + w) % l.Lu = w
      rw [Nat.mul_comm, Nat.mul_add_mod, Nat.mod_eq_of_lt hw]
    have q3 : c / Ly = y0.toNat := by
      show (y0.toNat * Ly + y1.toNat) / Ly = y0.toNat
      rw [Nat.mul_comm, Nat.mul_add_div hLy, Nat.div_eq_of_lt (by omega)]; rfl
    have q4 : c % Ly = y1.toNat := by
      show (y0.toNat * Ly + y1.toNat) % Ly = y1.toNat
      rw [Nat.mul_comm, Nat.mul_add_mod, Nat.mod_eq_of_lt (by omega)]
    have hrow := H.row kN hkN
    rw [q1, q2, q3, q4, hu] at hrow
    have t0 : ((y0.toNat : Nat) : Int) = y0 := Int.toNat_of_nonneg b3
    have t1 : ((y1.toNat : Nat) : Int) = y1 := Int.toNat_of_nonneg b1
    rw [t0, t1] at hrow
    refine ⟨[y0, y1], k0, kN, (H.target_iff X0 X1 _ k0).2 ⟨y0, y1, k1, rfl, hdm1, b1, b2, hdm0, b3, b4⟩,
      ⟨kN, rfl, hkN, hrow⟩, ?_⟩
    simp only [H.hf, Bool.false_eq_true, if_false, H.nsites]
    have hX0 : X0 = y0 + k0 * Lx - k1 := by omega
    rw [hX0, hdm1]
    show _ = (((c * l.Lu + w : Nat) : Int)) + _
    push_cast
    simp only [c]
    push_cast
    rw [t0, t1]
    ring

end HelicalReg

end TenpyModel.C19
