import TenpyModel.C19.P2_MultiIdx
/-! `mps2lat_values_masked` (repaired shape, `include_u=True`): helper lemmas. -/
namespace TenpyModel.C19

/-- valid MPS indices: any integer for infinite/segment MPS, `0 ≤ i < N` for finite MPS -/
def ValidMps (l : Lat) (i : Int) : Prop := l.finite = true → 0 ≤ i ∧ i < (l.order.length : Int)

/-- numpy's wrap-around of a negative first index -/
def wrapRow (s0 : Int) : List Int → List Int
  | [] => []
  | x :: xs => (if x < 0 then x + s0 else x) :: xs

namespace LatOK
variable {l : Lat} (ok : LatOK l)
include ok

theorem masked_row {i : Int} (hv : ValidMps l i) :
    ∃ x rest, mps2latIdx l i = x :: rest ∧ InGrid (l.Ls.tail ++ [l.Lu]) rest := by
  have hform : ∃ (k : Nat) (c : Int), k < l.order.length ∧ mps2latIdx l i = addHead (l.order.getD k []) c := by
    cases hf : l.finite with
    | true =>
      obtain ⟨h0, h1⟩ := hv hf
      refine ⟨i.toNat, 0, by omega, ?_⟩
      simp [mps2latIdx, hf, addHead_zero]
    | false =>
      have hN := ok.nsites_pos
      have hk0 := Int.emod_nonneg i (show (l.nSites : Int) ≠ 0 by omega)
      have hk1 := Int.emod_lt_of_pos i hN
      exact ⟨(i % (l.nSites : Int)).toNat, _, by have := ok.sites; omega, ok.mps2lat_eq hf i⟩
  obtain ⟨k, c, hk, he⟩ := hform
  have hin := ok.row_inGrid hk
  have hr := ok.rings
  cases hL : l.Ls with
  | nil => simp [hL] at hr
  | cons L Lt =>
    rw [hL] at hin
    match hrow : l.order.getD k [], hin with
    | x :: xs, hin =>
      obtain ⟨_, _, h3⟩ := hin
      exact ⟨x + c, xs, by rw [he, hrow]; rfl, by simpa using h3⟩

theorem mps2lat_inj {i j : Int} (hi : ValidMps l i) (hj : ValidMps l j)
    (h : mps2latIdx l i = mps2latIdx l j) : i = j := by
  cases hf : l.finite with
  | true =>
    obtain ⟨a0, a1⟩ := hi hf
    obtain ⟨b0, b1⟩ := hj hf
    have e1 := ok.roundtrip_mps_finite hf i a0 a1
    have e2 := ok.roundtrip_mps_finite hf j b0 b1
    rw [← e1, ← e2, h]
  | false =>
    have e1 := ok.roundtrip_mps_infinite hf i
    have e2 := ok.roundtrip_mps_infinite hf j
    rw [← e1, ← e2, h]

end LatOK

/-- bounds of `foldl max/min` started at the head -/
theorem foldl_max_bounds (xs : List Int) : ∀ x ∈ xs, x ≤ xs.foldl max (xs.headD 0) :=
  (foldl_max_ge_init xs _).2

theorem foldl_min_bounds (xs : List Int) : ∀ x ∈ xs, xs.foldl min (xs.headD 0) ≤ x :=
  (foldl_min_le_init xs _).2

/-- the wrapped first index is in range and the wrapping is injective on `[minX, maxX]` -/
theorem wrap_head_facts (L0 maxX minX x : Int) (hL : 0 < L0) (h1 : minX ≤ x) (h2 : x ≤ maxX) :
    let s0 := max L0 (maxX + 1) + (if minX < 0 then -minX else 0)
    let w := fun x : Int => if x < 0 then x + s0 else x
    0 ≤ w x ∧ w x < s0 ∧ ¬ (x ≥ s0) ∧ ¬ (x < -s0) ∧
    ∀ y, minX ≤ y → y ≤ maxX → w x = w y → x = y := by
  intro s0 w
  have hs0 : s0 = max L0 (maxX + 1) + (if minX < 0 then -minX else 0) := rfl
  by_cases hm : minX < 0
  · simp only [hm, if_true] at hs0
    refine ⟨?_, ?_, by omega, by omega, ?_⟩
    · simp only [w]; split <;> omega
    · simp only [w]; split <;> omega
    · intro y hy1 hy2 he
      simp only [w] at he
      split at he <;> split at he <;> omega
  · simp only [hm, if_false, Int.add_zero] at hs0
    refine ⟨?_, ?_, by omega, by omega, ?_⟩
    · simp only [w]; split <;> omega
    · simp only [w]; split <;> omega
    · intro y hy1 hy2 he
      simp only [w] at he
      split at he <;> split at he <;> omega

end TenpyModel.C19
