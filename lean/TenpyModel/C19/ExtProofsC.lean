import TenpyModel.C19.ExtBC
import Mathlib.Data.List.Basic
/-
Helper lemmas for `PropsExtC.lean` (boundary-condition argument: setter / getter / test_sanity checks).
-/
namespace TenpyModel.C19.Ext

/-- `True` = open -/
def isOpenE : BCEntry → Bool
  | .str s => s == "open"
  | .shift _ => false

def shiftOf : BCEntry → Int
  | .shift n => n
  | .str _ => 0

/-- entries the setter accepts (anywhere but, for shifts, the first place) -/
def validE : BCEntry → Prop
  | .str s => s = "open" ∨ s = "periodic"
  | .shift _ => True

/-- what the getter shows for an entry: a zero shift is plain `'periodic'` -/
def normE : BCEntry → BCEntry
  | .shift n => if n = 0 then .str "periodic" else .shift n
  | .str s => .str s

theorem bcChoice_valid (s : String) (h : s = "open" ∨ s = "periodic") : bcChoice s = some (s == "open") := by
  rcases h with rfl | rfl <;> decide

theorem bcChoice_some (s : String) (b : Bool) (h : bcChoice s = some b) : s = "open" ∨ s = "periodic" := by
  unfold bcChoice at h
  by_cases h1 : s = "open"
  · exact Or.inl h1
  · by_cases h2 : s = "periodic"
    · exact Or.inr h2
    · simp [h1, h2] at h

theorem setLoop_spec (es : List BCEntry) (pre : List Int) (i : Nat) (hi : i = pre.length + 1)
    (hv : ∀ e ∈ es, validE e) :
    setLoop i es (pre ++ List.replicate es.length 0) = some (es.map isOpenE, pre ++ es.map shiftOf) := by
  induction es generalizing pre i with
  | nil => simp [setLoop]
  | cons e es ih =>
    have hv' : ∀ e ∈ es, validE e := fun x hx => hv x (List.mem_cons_of_mem _ hx)
    cases e with
    | shift n =>
      have h0 : (i == 0) = false := by simp [hi]
      have hlt : i - 1 < (pre ++ List.replicate (es.length + 1) (0 : Int)).length := by
        simp [hi]
      have hset : (pre ++ List.replicate (es.length + 1) (0 : Int)).set (i - 1) n
          = (pre ++ [n]) ++ List.replicate es.length 0 := by
        have : i - 1 = pre.length := by omega
        rw [this, List.replicate_succ, List.set_append_right _ _ (Nat.le_refl _)]
        simp
      simp only [List.length_cons, setLoop, h0, Bool.false_eq_true, if_false, hlt, if_true, hset]
      rw [ih (pre ++ [n]) (i + 1) (by simp [hi]) hv']
      simp [isOpenE, shiftOf]
    | str s =>
      have hs := bcChoice_valid s (hv (.str s) (List.mem_cons_self))
      have hsh : pre ++ List.replicate (es.length + 1) (0 : Int) = (pre ++ [0]) ++ List.replicate es.length 0 := by
        rw [List.replicate_succ]; simp
      simp only [List.length_cons, setLoop, hs, hsh]
      rw [ih (pre ++ [0]) (i + 1) (by simp [hi]) hv']
      simp [isOpenE, shiftOf]

theorem setLoop_invalid (es : List BCEntry) (i : Nat) (sh : List Int) (h : ∃ e ∈ es, ¬ validE e) :
    setLoop i es sh = none := by
  induction es generalizing i sh with
  | nil => obtain ⟨e, he, _⟩ := h; simp at he
  | cons e es ih =>
    obtain ⟨x, hx, hnx⟩ := h
    cases e with
    | shift n =>
      have hx' : x ∈ es := by
        rcases List.mem_cons.mp hx with rfl | h'
        · exact absurd trivial hnx
        · exact h'
      unfold setLoop
      split
      · rfl
      · split
        · rw [ih _ _ ⟨x, hx', hnx⟩]; rfl
        · rfl
    | str s =>
      unfold setLoop
      cases hb : bcChoice s with
      | none => rfl
      | some b =>
        have hx' : x ∈ es := by
          rcases List.mem_cons.mp hx with rfl | h'
          · exact absurd (bcChoice_some s b hb) hnx
          · exact h'
        simp only []
        rw [ih _ _ ⟨x, hx', hnx⟩]; rfl

theorem setLoop_lengths (es : List BCEntry) (i : Nat) (sh : List Int) (r : List Bool × List Int)
    (h : setLoop i es sh = some r) : r.1.length = es.length ∧ r.2.length = sh.length := by
  induction es generalizing i sh r with
  | nil => simp [setLoop] at h; subst h; simp
  | cons e es ih =>
    cases e with
    | shift n =>
      unfold setLoop at h
      split at h
      · cases h
      · split at h
        · cases hr : setLoop (i + 1) es (sh.set (i - 1) n) with
          | none => rw [hr] at h; cases h
          | some r' =>
            rw [hr] at h
            simp only [Option.map_some, Option.some.injEq] at h
            subst h
            have := ih _ _ _ hr
            simpa using this
        · cases h
    | str s =>
      unfold setLoop at h
      cases hb : bcChoice s with
      | none => rw [hb] at h; cases h
      | some b =>
        rw [hb] at h
        simp only [] at h
        cases hr : setLoop (i + 1) es sh with
        | none => rw [hr] at h; cases h
        | some r' =>
          rw [hr] at h
          simp only [Option.map_some, Option.some.injEq] at h
          subst h
          have := ih _ _ _ hr
          simpa using this

/-- the state the setter builds for an accepted list -/
def stateOf (l : List BCEntry) : BCState :=
  ⟨l.map isOpenE,
    if (l.tail.map shiftOf).any (fun x => x != 0) then some (l.tail.map shiftOf) else none⟩

/-- accepted lists: every entry valid and the first one a string -/
def Accepted (l : List BCEntry) : Prop := (∀ e ∈ l, validE e) ∧ ∀ n, l.head? ≠ some (.shift n)

theorem bcSetter_accepted (dim : Nat) (l : List BCEntry) (hl : l.length = dim) (hd : 0 < dim) (ha : Accepted l) :
    bcSetter dim (.list l) = some (stateOf l) := by
  cases l with
  | nil => simp at hl; omega
  | cons e es =>
    cases e with
    | shift n => exact absurd rfl (ha.2 n)
    | str s =>
      have hs := bcChoice_valid s (ha.1 (.str s) (List.mem_cons_self))
      have hdim : dim - 1 = es.length := by simp at hl; omega
      have hv' : ∀ e ∈ es, validE e := fun x hx => ha.1 x (List.mem_cons_of_mem _ hx)
      have := setLoop_spec es [] 1 (by simp) hv'
      simp only [List.nil_append] at this
      simp only [bcSetter, setLoop, hs, hdim, this, Option.map_some, stateOf, List.tail_cons, List.map_cons, isOpenE]
      rfl

theorem bcSetter_rejected (dim : Nat) (l : List BCEntry) (ha : ¬ Accepted l) : bcSetter dim (.list l) = none := by
  unfold Accepted at ha
  by_cases hv : ∀ e ∈ l, validE e
  · have : ¬ ∀ n, l.head? ≠ some (.shift n) := fun h => ha ⟨hv, h⟩
    cases l with
    | nil => exact absurd (by simp) this
    | cons e es =>
      cases e with
      | shift n => simp [bcSetter, setLoop]
      | str s => exact absurd (by simp) this
  · have hex : ∃ e ∈ l, ¬ validE e := by
      by_contra hc
      exact hv (fun e he => by_contra (fun hne => hc ⟨e, he, hne⟩))
    simp [bcSetter, setLoop_invalid l 0 _ hex]

theorem getLoop_spec (es : List BCEntry) (hv : ∀ e ∈ es, validE e) :
    getLoop (es.map isOpenE) (es.map shiftOf) = some (es.map normE) := by
  induction es with
  | nil => simp [getLoop]
  | cons e es ih =>
    have hv' : ∀ e ∈ es, validE e := fun x hx => hv x (List.mem_cons_of_mem _ hx)
    cases e with
    | shift n =>
      by_cases hn : n = 0
      · subst hn
        simp [getLoop, isOpenE, shiftOf, normE, nameOf, ih hv']
      · simp [getLoop, isOpenE, shiftOf, normE, hn, ih hv']
    | str s =>
      have := hv (.str s) (List.mem_cons_self)
      rcases this with rfl | rfl <;> simp [getLoop, isOpenE, shiftOf, normE, nameOf, ih hv']

theorem map_nameOf_isOpenE (es : List BCEntry) (hv : ∀ e ∈ es, validE e)
    (hz : ∀ e ∈ es, shiftOf e = 0) : (es.map isOpenE).map nameOf = es.map normE := by
  induction es with
  | nil => rfl
  | cons e es ih =>
    have hv' : ∀ e ∈ es, validE e := fun x hx => hv x (List.mem_cons_of_mem _ hx)
    have hz' : ∀ e ∈ es, shiftOf e = 0 := fun x hx => hz x (List.mem_cons_of_mem _ hx)
    cases e with
    | shift n =>
      have : n = 0 := hz (.shift n) (List.mem_cons_self)
      subst this
      simp [isOpenE, normE, nameOf, ih hv' hz']
    | str s =>
      have := hv (.str s) (List.mem_cons_self)
      rcases this with rfl | rfl <;> simp [isOpenE, normE, nameOf, ih hv' hz']

theorem bcGetter_stateOf (l : List BCEntry) (ha : Accepted l) : bcGetter (stateOf l) = some (l.map normE) := by
  cases l with
  | nil => simp [stateOf, bcGetter]
  | cons e es =>
    cases e with
    | shift n => exact absurd rfl (ha.2 n)
    | str s =>
      have hs := ha.1 (.str s) (List.mem_cons_self)
      have hv' : ∀ e ∈ es, validE e := fun x hx => ha.1 x (List.mem_cons_of_mem _ hx)
      have hname : nameOf (isOpenE (.str s)) = normE (.str s) := by
        rcases hs with rfl | rfl <;> simp [isOpenE, normE, nameOf]
      by_cases hany : (es.map shiftOf).any (fun x => x != 0) = true
      · simp only [stateOf, List.tail_cons, hany, if_true, List.map_cons, bcGetter]
        rw [getLoop_spec es hv', hname]; rfl
      · have hz : ∀ e ∈ es, shiftOf e = 0 := by
          intro e he
          by_contra hne
          apply hany
          rw [List.any_eq_true]
          exact ⟨shiftOf e, List.mem_map_of_mem he, by simpa using hne⟩
        simp only [stateOf, List.tail_cons, hany, Bool.false_eq_true, if_false, List.map_cons, bcGetter]
        rw [map_nameOf_isOpenE es hv' hz, hname]

theorem normE_props (e : BCEntry) (h : validE e) :
    validE (normE e) ∧ isOpenE (normE e) = isOpenE e ∧ shiftOf (normE e) = shiftOf e := by
  cases e with
  | shift n =>
    by_cases hn : n = 0
    · subst hn; simp [normE, validE, isOpenE, shiftOf]
    · simp [normE, hn, validE, isOpenE, shiftOf]
  | str s => exact ⟨h, rfl, rfl⟩

theorem accepted_norm (l : List BCEntry) (ha : Accepted l) : Accepted (l.map normE) := by
  constructor
  · intro e he
    obtain ⟨x, hx, rfl⟩ := List.mem_map.mp he
    exact (normE_props x (ha.1 x hx)).1
  · intro n
    cases l with
    | nil => simp
    | cons e es =>
      cases e with
      | shift m => exact absurd rfl (ha.2 m)
      | str s => simp [normE]

theorem stateOf_norm (l : List BCEntry) (ha : Accepted l) : stateOf (l.map normE) = stateOf l := by
  have h1 : (l.map normE).map isOpenE = l.map isOpenE := by
    rw [List.map_map]
    apply List.map_congr_left
    intro e he
    exact (normE_props e (ha.1 e he)).2.1
  have h2 : (l.map normE).tail.map shiftOf = l.tail.map shiftOf := by
    rw [← List.map_tail, List.map_map]
    apply List.map_congr_left
    intro e he
    exact (normE_props e (ha.1 e (List.mem_of_mem_tail he))).2.2
  simp only [stateOf, h1, h2]

end TenpyModel.C19.Ext
