import TenpyModel.C19.ValuesProofs
/-! Specification of "site `y` is the image of the unwrapped position `X` under the boundary
conditions" (`Target`) and its equivalence with what `possible_couplings` computes
(`shiftTarget` + `_keep_possible_couplings`). -/
namespace TenpyModel.C19

/-- Componentwise (directions `a ≥ 1`): `X_a = y_a + k_a L_a` with `0 ≤ y_a < L_a`, and no winding
(`k_a = 0`) in open directions. -/
def Wraps : List Nat → List Bool → List Int → List Int → List Int → Prop
  | [], [], [], [], [] => True
  | L :: Ls, b :: bs, X :: Xs, y :: ys, k :: ks =>
    X = y + k * (L : Int) ∧ 0 ≤ y ∧ y < (L : Int) ∧ (b = true → k = 0) ∧ Wraps Ls bs Xs ys ks
  | _, _, _, _, _ => False

/-- **Boundary conditions, declaratively.**  The unwrapped unit-cell position `X` is identified
with the cell `y` of the lattice, `k0` MPS unit cells further along `x`: there are winding numbers
`k_a` with `X = y + Σ_a k_a P_a`, where `P_0 = L_0 e_0` and `P_a = L_a e_a + shift_a e_0` for
`a ≥ 1` (going once around direction `a` shifts `x_0` by `-shift_a`), `y` lies in the cell grid,
and there is no winding in an open direction. -/
def Target (l : Lat) (X y : List Int) (k0 : Int) : Prop :=
  match l.Ls, l.bc, X, y with
  | L0 :: Lt, b0 :: bt, X0 :: Xt, y0 :: yt =>
    ∃ ks : List Int, Wraps Lt bt Xt yt ks ∧
      X0 - dot ks (l.bcShift.getD []) = y0 + k0 * (L0 : Int) ∧ 0 ≤ y0 ∧ y0 < (L0 : Int) ∧
      (b0 = true → k0 = 0)
  | _, _, _, _ => False

theorem divmod_unique {X y k : Int} {L : Nat} (hL : 0 < L) (h : X = y + k * (L : Int)) (h0 : 0 ≤ y)
    (h1 : y < (L : Int)) : X % (L : Int) = y ∧ X / (L : Int) = k := by
  subst h
  constructor
  · rw [Int.add_mul_emod_self_right]; exact Int.emod_eq_of_lt h0 h1
  · rw [Int.add_mul_ediv_right _ _ (by omega), Int.ediv_eq_zero_of_lt h0 h1]; omega

theorem sub_emod_ediv (X : Int) {L : Nat} (hL : 0 < L) : (X - X % (L : Int)) / (L : Int) = X / (L : Int) := by
  have : X - X % (L : Int) = (L : Int) * (X / (L : Int)) := by
    have := Int.emod_add_mul_ediv X (L : Int); omega
  rw [this, Int.mul_ediv_cancel_left _ (by omega)]

theorem eq_emod_iff (X : Int) {L : Nat} (hL : 0 < L) : X = X % (L : Int) ↔ X / (L : Int) = 0 := by
  have h := Int.emod_add_mul_ediv X (L : Int)
  have h0 := Int.emod_nonneg X (show (L : Int) ≠ 0 by omega)
  have h1 := Int.emod_lt_of_pos X (show (0 : Int) < L by omega)
  constructor
  · intro e
    rw [e]; exact Int.ediv_eq_zero_of_lt h0 (by omega)
  · intro e; rw [e] at h; omega

/-- the tail directions: what the code computes satisfies the specification iff the row is kept -/
theorem wraps_of_keep (Lt : List Nat) (bt : List Bool) (Xt : List Int) (hpos : ∀ L ∈ Lt, 0 < L)
    (hb : bt.length = Lt.length) (hX : Xt.length = Lt.length)
    (hk : keepBC Xt (modShape Xt Lt) bt = true) :
    Wraps Lt bt Xt (modShape Xt Lt) (wrapCount Xt (modShape Xt Lt) Lt) := by
  induction Lt generalizing bt Xt with
  | nil =>
    cases bt <;> cases Xt <;> simp_all [Wraps, modShape, wrapCount]
  | cons L Lt ih =>
    match bt, Xt, hb, hX with
    | b :: bt, X :: Xt, hb, hX =>
      have hL : 0 < L := hpos L (by simp)
      simp only [keepBC, modShape, Bool.and_eq_true, Bool.or_eq_true, beq_iff_eq,
        Bool.not_eq_true'] at hk
      simp only [modShape, wrapCount, Wraps]
      refine ⟨?_, Int.emod_nonneg _ (by omega), Int.emod_lt_of_pos _ (by omega), ?_, ?_⟩
      · rw [sub_emod_ediv X hL]
        have := Int.emod_add_mul_ediv X (L : Int)
        have e : X / (L : Int) * (L : Int) = (L : Int) * (X / (L : Int)) := by ring
        omega
      · intro hbt
        rw [sub_emod_ediv X hL]
        rcases hk.1 with h | h
        · exact (eq_emod_iff X hL).1 h
        · rw [hbt] at h; cases h
      · exact ih bt Xt (fun L hL => hpos L (by simp [hL])) (by simpa using hb) (by simpa using hX) hk.2

/-- the tail directions: the specification determines `y` and `k` and implies that the row is kept -/
theorem keep_of_wraps (Lt : List Nat) (bt : List Bool) (Xt yt ks : List Int) (hpos : ∀ L ∈ Lt, 0 < L)
    (h : Wraps Lt bt Xt yt ks) :
    yt = modShape Xt Lt ∧ ks = wrapCount Xt (modShape Xt Lt) Lt ∧ keepBC Xt (modShape Xt Lt) bt = true := by
  induction Lt generalizing bt Xt yt ks with
  | nil =>
    match bt, Xt, yt, ks, h with
    | [], [], [], [], _ => simp [modShape, wrapCount, keepBC]
  | cons L Lt ih =>
    match bt, Xt, yt, ks, h with
    | b :: bt, X :: Xt, y :: yt, k :: ks, h =>
      obtain ⟨h1, h2, h3, h4, h5⟩ := h
      have hL : 0 < L := hpos L (by simp)
      obtain ⟨e1, e2⟩ := divmod_unique hL h1 h2 h3
      obtain ⟨i1, i2, i3⟩ := ih bt Xt yt ks (fun L hL => hpos L (by simp [hL])) h5
      simp only [modShape, wrapCount, keepBC]
      refine ⟨by rw [e1, i1], by rw [sub_emod_ediv X hL, e2, ← i2], ?_⟩
      simp only [Bool.and_eq_true, Bool.or_eq_true, beq_iff_eq, Bool.not_eq_true']
      refine ⟨?_, i3⟩
      cases b with
      | false => right; rfl
      | true => left; rw [(eq_emod_iff X hL)]; rw [e2]; exact h4 rfl

theorem inGrid_modShape (Ls : List Nat) (X : List Int) (hpos : ∀ L ∈ Ls, 0 < L) (hX : X.length = Ls.length) :
    InGrid Ls (modShape X Ls) := by
  induction Ls generalizing X with
  | nil => cases X <;> simp_all [modShape, InGrid]
  | cons L Ls ih =>
    match X, hX with
    | x :: xs, hX =>
      have hL : 0 < L := hpos L (by simp)
      exact ⟨Int.emod_nonneg _ (by omega), Int.emod_lt_of_pos _ (by omega),
        ih xs (fun L hL => hpos L (by simp [hL])) (by simpa using hX)⟩

/-- `shiftTarget` written out for a lattice with at least one direction -/
theorem shiftTarget_cons (l : Lat) (L0 : Nat) (Lt : List Nat) (X0 : Int) (Xt : List Int)
    (hLs : l.Ls = L0 :: Lt) :
    let S := dot (wrapCount Xt (modShape Xt Lt) Lt) (l.bcShift.getD [])
    shiftTarget l (X0 :: Xt) = ((X0 - S) :: Xt, ((X0 - S) % (L0 : Int)) :: modShape Xt Lt) := by
  intro S
  unfold shiftTarget
  cases hsh : l.bcShift with
  | none =>
    have : S = 0 := by simp [S, hsh, dot_nil_right]
    simp [hLs, modShape, this]
  | some sh =>
    have : S = dot (wrapCount Xt (modShape Xt Lt) Lt) sh := by simp [S, hsh]
    simp only [hLs, modShape, wrapCount, List.tail_cons, addHead, List.headD_cons, setHead, this]
    rw [Int.sub_eq_add_neg]

/-- **Code ⇒ spec**: a kept row satisfies the boundary-condition specification. -/
theorem target_of_keep (l : Lat) (X : List Int) (hpos : ∀ L ∈ l.Ls, 0 < L) (hne : l.Ls ≠ [])
    (hb : l.bc.length = l.Ls.length) (hX : X.length = l.Ls.length)
    (hk : keepBC (shiftTarget l X).1 (shiftTarget l X).2 l.bc = true) :
    InGrid l.Ls (shiftTarget l X).2 ∧
    ∃ k0 : Int, Target l X (shiftTarget l X).2 k0 ∧
      (shiftTarget l X).1.headD 0 - (shiftTarget l X).2.headD 0 = k0 * (l.Ls.headD 0 : Nat) := by
  match hLs : l.Ls, hbc : l.bc, X, hb, hX with
  | [], _, _, _, _ => exact absurd hLs hne
  | L0 :: Lt, b0 :: bt, X0 :: Xt, hb, hX =>
    have hL0 : 0 < L0 := hpos L0 (by simp [hLs])
    have hpt : ∀ L ∈ Lt, 0 < L := fun L hL => hpos L (by simp [hLs, hL])
    have hst := shiftTarget_cons l L0 Lt X0 Xt hLs
    simp only at hst
    rw [hst, hbc] at hk
    rw [hst]
    simp only [keepBC, Bool.and_eq_true, Bool.or_eq_true, beq_iff_eq, Bool.not_eq_true'] at hk
    set S := dot (wrapCount Xt (modShape Xt Lt) Lt) (l.bcShift.getD []) with hS
    have hw := wraps_of_keep Lt bt Xt hpt (by simpa using hb) (by simpa using hX) hk.2
    refine ⟨⟨Int.emod_nonneg _ (by omega), Int.emod_lt_of_pos _ (by omega),
      inGrid_modShape Lt Xt hpt (by simpa using hX)⟩, (X0 - S) / (L0 : Int), ?_, ?_⟩
    · unfold Target
      rw [hLs, hbc]
      refine ⟨_, hw, ?_, Int.emod_nonneg _ (by omega), Int.emod_lt_of_pos _ (by omega), ?_⟩
      · have := Int.emod_add_mul_ediv (X0 - S) (L0 : Int)
        have e : (X0 - S) / (L0 : Int) * (L0 : Int) = (L0 : Int) * ((X0 - S) / (L0 : Int)) := by ring
        omega
      · intro hb0
        rcases hk.1 with h | h
        · exact (eq_emod_iff _ hL0).1 h
        · rw [hb0] at h; cases h
    · simp only [List.headD_cons]
      have := Int.emod_add_mul_ediv (X0 - S) (L0 : Int)
      have e : (X0 - S) / (L0 : Int) * (L0 : Int) = (L0 : Int) * ((X0 - S) / (L0 : Int)) := by ring
      omega

/-- **Spec ⇒ code**: the specification determines the image cell and the winding along `x`, and
the row is kept. -/
theorem keep_of_target (l : Lat) (X y : List Int) (k0 : Int) (hpos : ∀ L ∈ l.Ls, 0 < L)
    (h : Target l X y k0) :
    (shiftTarget l X).2 = y ∧ keepBC (shiftTarget l X).1 (shiftTarget l X).2 l.bc = true ∧
      (shiftTarget l X).1.headD 0 - (shiftTarget l X).2.headD 0 = k0 * (l.Ls.headD 0 : Nat) := by
  unfold Target at h
  match hLs : l.Ls, hbc : l.bc, X, y, h with
  | L0 :: Lt, b0 :: bt, X0 :: Xt, y0 :: yt, h =>
    obtain ⟨ks, hw, h1, h2, h3, h4⟩ := h
    have hL0 : 0 < L0 := hpos L0 (by simp [hLs])
    have hpt : ∀ L ∈ Lt, 0 < L := fun L hL => hpos L (by simp [hLs, hL])
    obtain ⟨i1, i2, i3⟩ := keep_of_wraps Lt bt Xt yt ks hpt hw
    have hst := shiftTarget_cons l L0 Lt X0 Xt hLs
    simp only at hst
    rw [hst]
    rw [← i2]
    obtain ⟨e1, e2⟩ := divmod_unique hL0 h1 h2 h3
    refine ⟨by rw [e1, i1], ?_, ?_⟩
    · simp only [keepBC, Bool.and_eq_true, Bool.or_eq_true, beq_iff_eq, Bool.not_eq_true']
      refine ⟨?_, i3⟩
      cases b0 with
      | false => right; rfl
      | true => left; rw [eq_emod_iff _ hL0, e2]; exact h4 rfl
    · simp only [List.headD_cons]
      rw [e1]; omega


/-! ### From rows to the list returned by `possible_couplings` -/

theorem inGrid_append {Ls : List Nat} {Lu : Nat} {x : List Int} {u : Int} :
    InGrid (Ls ++ [Lu]) (x ++ [u]) ↔ InGrid Ls x ∧ 0 ≤ u ∧ u < (Lu : Int) := by
  induction Ls generalizing x with
  | nil =>
    cases x with
    | nil => simp [InGrid]
    | cons a as => cases as <;> simp [InGrid]
  | cons L Ls ih =>
    cases x with
    | nil => cases Ls <;> simp [InGrid]
    | cons a as => simp [InGrid, ih, and_assoc]

theorem inGrid_dropLast {Ls : List Nat} {Lu : Nat} {r : List Int} (h : InGrid (Ls ++ [Lu]) r) :
    r = r.dropLast ++ [r.getLastD 0] ∧ InGrid Ls r.dropLast ∧ 0 ≤ r.getLastD 0 ∧ r.getLastD 0 < (Lu : Int) := by
  have hlen := inGrid_length h
  have hne : r ≠ [] := by intro e; simp [e] at hlen
  have e : r = r.dropLast ++ [r.getLastD 0] := by
    have := List.dropLast_append_getLast hne
    rw [List.getLastD_eq_getLast?, List.getLast?_eq_some_getLast hne]; simpa using this.symm
  refine ⟨e, ?_⟩
  rw [e] at h
  exact inGrid_append.1 h

/-- the site with MPS index `i` has lattice index `(x, u)` -/
def SiteAt (l : Lat) (i : Int) (x : List Int) (u : Nat) : Prop :=
  ∃ k : Nat, i = k ∧ k < l.order.length ∧ l.order.getD k [] = x ++ [(u : Int)]

theorem mem_nonzeroU (order : List (List Int)) (u : Nat) (i : Int) :
    i ∈ nonzeroU order u ↔ ∃ k : Nat, i = k ∧ ∃ h : k < order.length, (order[k]).getLastD 0 = (u : Int) := by
  simp only [nonzeroU, List.mem_map, List.mem_filter, List.mem_zipIdx_iff_getElem?, beq_iff_eq]
  constructor
  · rintro ⟨⟨r, k⟩, ⟨hget, hlast⟩, rfl⟩
    simp only at hget hlast
    obtain ⟨hk, hrk⟩ := List.getElem?_eq_some_iff.1 hget
    exact ⟨k, rfl, hk, by rw [hrk]; exact hlast⟩
  · rintro ⟨k, rfl, hk, hlast⟩
    exact ⟨(order[k], k), ⟨by simp [hk], hlast⟩, rfl⟩

/-- What `possible_couplings` needs in addition to `LatOK`. -/
structure CoupOK (l : Lat) : Prop extends LatOK l where
  bclen : l.bc.length = l.Ls.length
  fixu : ∀ u, u < l.Lu → l.mpsFixU.getD u [] = nonzeroU l.order u
  exists_iff : ∀ (y : List Int) (u : Nat), InGrid l.Ls y → u < l.Lu →
    ((l.kind != .irregular || siteExists l y u) = true ↔ (y ++ [(u : Int)]) ∈ l.order)

namespace CoupOK
variable {l : Lat} (ok : CoupOK l)
include ok

theorem lsne : l.Ls ≠ [] := by
  intro h; have := ok.rings; simp [h] at this

theorem headD_eq : l.Ls.headD 0 = l.nRings := by
  have := ok.rings
  cases h : l.Ls with
  | nil => simp [h] at this
  | cons L Ls => simp [h] at this; simp [this]

theorem mem_fixU {u : Nat} (hu : u < l.Lu) (i : Int) :
    i ∈ mpsIdxFixU l (some u) ↔ ∃ x, SiteAt l i x u := by
  show i ∈ l.mpsFixU.getD u [] ↔ _
  rw [ok.fixu u hu, mem_nonzeroU]
  constructor
  · rintro ⟨k, rfl, hk, hlast⟩
    have hin := ok.rows _ (List.getElem_mem hk)
    obtain ⟨e, _⟩ := inGrid_dropLast hin
    refine ⟨(l.order[k]).dropLast, k, rfl, hk, ?_⟩
    rw [getD_eq_getElem' _ _ hk, ← hlast]; exact e
  · rintro ⟨x, k, rfl, hk, hrow⟩
    refine ⟨k, rfl, hk, ?_⟩
    rw [getD_eq_getElem' _ _ hk] at hrow
    rw [hrow]; simp

theorem siteAt_inGrid {i : Int} {x : List Int} {u : Nat} (h : SiteAt l i x u) :
    InGrid l.Ls x ∧ u < l.Lu ∧ x.length = l.Ls.length ∧ (x ++ [(u : Int)]) ∈ l.order := by
  obtain ⟨k, rfl, hk, hrow⟩ := h
  have hin := ok.row_inGrid hk
  rw [hrow] at hin
  obtain ⟨h1, h2, h3⟩ := inGrid_append.1 hin
  refine ⟨h1, by omega, inGrid_length h1, ?_⟩
  rw [← hrow, getD_eq_getElem' _ _ hk]; exact List.getElem_mem hk

theorem siteAt_of_mem {y : List Int} {u : Nat} (h : (y ++ [(u : Int)]) ∈ l.order) :
    ∃ k : Nat, k < l.order.length ∧ l.order.getD k [] = y ++ [(u : Int)] ∧ SiteAt l k y u := by
  obtain ⟨k, hk, hrow⟩ := ok.toLatOK.mem_order_getD h
  exact ⟨k, hk, hrow, k, rfl, hk, hrow⟩

theorem siteAt_unique {i j : Int} {x : List Int} {u : Nat} (h1 : SiteAt l i x u) (h2 : SiteAt l j x u) : i = j := by
  obtain ⟨k, rfl, hk, hrow⟩ := h1
  obtain ⟨k', rfl, hk', hrow'⟩ := h2
  have := (List.getD_inj hk hk' ok.nodup).1 (hrow.trans hrow'.symm)
  omega

end CoupOK

theorem vadd_length (a b : List Int) (h : a.length = b.length) : (vadd a b).length = a.length := by
  induction a generalizing b with
  | nil => cases b <;> simp [vadd]
  | cons x xs ih =>
    cases b with
    | nil => simp at h
    | cons y ys => simp [vadd, ih ys (by simpa using h)]

/-- the `(mps_i, mps_j)` part of `couplingAt` does not depend on `coupling_shape` -/
def pairAt (l : Lat) (u2 : Nat) (dx : List Int) (i : Int) : Option (Int × Int) :=
  let x := (l.order.getD i.toNat []).dropLast
  let t := shiftTarget l (vadd x dx)
  if keepCoupling l t.2 t.1 u2 then
    let j := lat2mpsIdx l (t.2 ++ [(u2 : Int)])
    if l.finite then some (i, j)
    else
      let js := (t.1.headD 0 - t.2.headD 0) * (l.nSites : Int) / (l.nRings : Int)
      let s := if js < 0 then -js else 0
      some (i + s, j + js + s)
  else none

theorem pairAt_eq (l : Lat) (u2 : Nat) (dx cs sl : List Int) (i : Int) :
    (couplingAt l u2 dx cs sl i).map (fun r => (r.1, r.2.1)) = pairAt l u2 dx i := by
  unfold couplingAt pairAt
  simp only
  split
  · split <;> rfl
  · rfl

theorem couplingPairs_eq (l : Lat) (u1 u2 : Nat) (dx : List Int) :
    couplingPairs l u1 u2 dx =
      if (couplingShape l dx).1.any (· == 0) then []
      else (mpsIdxFixU l (some u1)).filterMap (pairAt l u2 dx) := by
  unfold couplingPairs possibleCouplings
  simp only
  split
  · rfl
  · simp only [List.map_filterMap]
    congr 1
    funext i
    exact pairAt_eq l u2 dx _ _ i

/-- tail directions: an admissible displacement leaves the coupling shape positive -/
theorem couplingShapeGo_pos_tail (Lt : List Nat) (bt : List Bool) (xt dt yt ks : List Int)
    (hx : InGrid Lt xt) (hw : Wraps Lt bt (vadd xt dt) yt ks) :
    ∀ c ∈ couplingShapeGo Lt dt bt, c ≠ 0 := by
  induction Lt generalizing bt xt dt yt ks with
  | nil => cases bt <;> cases dt <;> simp [couplingShapeGo]
  | cons L Lt ih =>
    match bt, xt, dt, yt, ks, hx, hw with
    | b :: bt, x :: xt, d :: dt, y :: yt, k :: ks, hx, hw =>
      simp only [vadd, Wraps] at hw
      obtain ⟨h1, h2, h3, h4, h5⟩ := hw
      obtain ⟨x0, x1, hx'⟩ := hx
      simp only [couplingShapeGo, List.mem_cons]
      rintro c (rfl | hc)
      · cases b with
        | false => simp; omega
        | true =>
          have := h4 rfl
          subst this
          simp only [if_true]; omega
      · exact ih bt xt dt yt ks hx' h5 c hc
    | [], _ :: _, _, _, _, _, _ => simp [couplingShapeGo]
    | _ :: _, _ :: _, [], _, _, _, _ => simp [couplingShapeGo]


/-- A shifted boundary (`bc_shift`) is only combined with a periodic `x`-direction.  (With an open
`x`-direction `coupling_shape` is not exact: known finding, see `C19_couplings_complete_counterexample`.) -/
def NoShiftOpenX (l : Lat) : Prop := l.bc.headD false = true → l.bcShift = none

/-- the translation applied by `possible_couplings` for non-finite MPS: `(i, j) ↦ (i + s, j + s)`
with `s = -k0 N` if the partner lies to the left -/
def cellShift (k0 N : Int) : Int := if k0 * N < 0 then -(k0 * N) else 0

namespace CoupOK
variable {l : Lat} (ok : CoupOK l)
include ok

theorem lat2mps_site {j0 : Int} {y : List Int} {u : Nat} (h : SiteAt l j0 y u) :
    lat2mpsIdx l (y ++ [(u : Int)]) = j0 := by
  obtain ⟨k, rfl, hk, hrow⟩ := h
  rw [← hrow]
  cases hf : l.finite with
  | true => exact ok.toLatOK.lat2mps_row_finite hf hk
  | false =>
    have := ok.toLatOK.lat2mps_row_shift hf hk 0
    simpa [addHead_zero] using this

theorem not_early {x dx y : List Int} {k0 : Int} (hx : InGrid l.Ls x) (ht : Target l (vadd x dx) y k0)
    (hns : NoShiftOpenX l) : (couplingShape l dx).1.any (· == 0) = false := by
  have _ := ok
  unfold Target at ht
  simp only [couplingShape]
  match hLs : l.Ls, hbc : l.bc, x, dx, y, hx, ht with
  | L0 :: Lt, b0 :: bt, x0 :: xt, d0 :: dt, y0 :: yt, hx, ht =>
    simp only [vadd] at ht
    obtain ⟨ks, hw, h1, h2, h3, h4⟩ := ht
    obtain ⟨x0', x1', hxt⟩ := hx
    have htail := couplingShapeGo_pos_tail Lt bt xt dt yt ks hxt hw
    simp only [couplingShapeGo, List.any_cons, Bool.or_eq_false_iff, beq_eq_false_iff_ne]
    constructor
    · cases hb0 : b0 with
      | false => simp; omega
      | true =>
        have hk0 := h4 hb0
        have hsh : l.bcShift = none := hns (by simp [hbc, hb0])
        rw [hsh] at h1
        simp only [Option.getD_none, dot_nil_right] at h1
        subst hk0
        simp only [if_true]; omega
    · rw [Bool.eq_false_iff]
      intro hany
      obtain ⟨c, hc, hc0⟩ := List.any_eq_true.1 hany
      exact htail c hc (by simpa using hc0)
  | L0 :: Lt, b0 :: bt, [], _, _, hx, _ => simp [InGrid] at hx
  | L0 :: Lt, b0 :: bt, _ :: _, [], _, _, ht => simp [vadd] at ht

/-- **Per site**: what `possible_couplings` emits for the site `(x, u1)` with MPS index `i0`. -/
theorem pairAt_spec {u1 u2 : Nat} (hu2 : u2 < l.Lu) {dx : List Int} (hdx : dx.length = l.Ls.length)
    {i0 : Int} {x : List Int} (hs : SiteAt l i0 x u1) (p : Int × Int) :
    pairAt l u2 dx i0 = some p ↔
      ∃ (y : List Int) (k0 j0 : Int), Target l (vadd x dx) y k0 ∧ SiteAt l j0 y u2 ∧
        p = if l.finite then (i0, j0)
            else (i0 + cellShift k0 l.nSites, j0 + k0 * l.nSites + cellShift k0 l.nSites) := by
  obtain ⟨hxin, _, hxlen, _⟩ := ok.siteAt_inGrid hs
  have hrowx : (l.order.getD i0.toNat []).dropLast = x := by
    obtain ⟨k, rfl, hk, hrow⟩ := hs
    rw [Int.toNat_natCast, hrow]; simp
  have hXlen : (vadd x dx).length = l.Ls.length := by rw [vadd_length _ _ (by omega)]; exact hxlen
  have hR : ((l.Ls.headD 0 : Nat) : Int) = l.nRings := by rw [ok.headD_eq]
  have hRpos := ok.toLatOK.rpos
  have hjs : ∀ k0 : Int, k0 * (l.nRings : Int) * (l.nSites : Int) / (l.nRings : Int) = k0 * l.nSites := by
    intro k0
    have : k0 * (l.nRings : Int) * (l.nSites : Int) = (l.nRings : Int) * (k0 * l.nSites) := by ring
    rw [this, Int.mul_ediv_cancel_left _ (by omega)]
  unfold pairAt
  simp only [hrowx]
  constructor
  · intro h
    split at h
    · next hkeep =>
      simp only [keepCoupling, Bool.and_eq_true] at hkeep
      obtain ⟨hin, k0, htar, hhead⟩ := target_of_keep l (vadd x dx) ok.lpos ok.lsne ok.bclen hXlen hkeep.1
      have hmem := (ok.exists_iff _ u2 hin hu2).1 hkeep.2
      obtain ⟨k', hk', hrow', hsite'⟩ := ok.siteAt_of_mem hmem
      have hj := ok.lat2mps_site hsite'
      refine ⟨_, k0, k', htar, hsite', ?_⟩
      rw [hR] at hhead
      rw [hj, hhead, hjs] at h
      cases hf : l.finite with
      | true => simp only [hf, if_true] at h ⊢; exact (Option.some.inj h).symm
      | false =>
        simp only [hf, Bool.false_eq_true, if_false] at h ⊢
        rw [← Option.some.inj h]; rfl
    · cases h
  · rintro ⟨y, k0, j0, htar, hsite, rfl⟩
    obtain ⟨hy, hkeep, hhead⟩ := keep_of_target l (vadd x dx) y k0 ok.lpos htar
    obtain ⟨hyin, _, _, hymem⟩ := ok.siteAt_inGrid hsite
    have hex := (ok.exists_iff y u2 hyin hu2).2 hymem
    have hkc : keepCoupling l (shiftTarget l (vadd x dx)).2 (shiftTarget l (vadd x dx)).1 u2 = true := by
      simp only [keepCoupling, Bool.and_eq_true]
      exact ⟨hkeep, by rw [hy]; exact hex⟩
    rw [if_pos hkc]
    rw [hR] at hhead
    rw [hhead, hjs, hy, ok.lat2mps_site hsite]
    cases hf : l.finite with
    | true => simp
    | false => simp [cellShift]

theorem mem_pairs {u1 u2 : Nat} (hu1 : u1 < l.Lu) (hu2 : u2 < l.Lu) {dx : List Int}
    (hdx : dx.length = l.Ls.length) (p : Int × Int) :
    p ∈ couplingPairs l u1 u2 dx ↔
      (couplingShape l dx).1.any (· == 0) = false ∧
      ∃ (i0 : Int) (x y : List Int) (k0 j0 : Int), SiteAt l i0 x u1 ∧ Target l (vadd x dx) y k0 ∧
        SiteAt l j0 y u2 ∧
        p = if l.finite then (i0, j0)
            else (i0 + cellShift k0 l.nSites, j0 + k0 * l.nSites + cellShift k0 l.nSites) := by
  rw [couplingPairs_eq]
  cases hearly : (couplingShape l dx).1.any (· == 0) with
  | true => simp
  | false =>
    simp only [Bool.false_eq_true, if_false, List.mem_filterMap, true_and]
    constructor
    · rintro ⟨i0, hi0, hp⟩
      obtain ⟨x, hs⟩ := (ok.mem_fixU hu1 i0).1 hi0
      obtain ⟨y, k0, j0, h1, h2, h3⟩ := (ok.pairAt_spec hu2 hdx hs p).1 hp
      exact ⟨i0, x, y, k0, j0, hs, h1, h2, h3⟩
    · rintro ⟨i0, x, y, k0, j0, hs, h1, h2, h3⟩
      exact ⟨i0, (ok.mem_fixU hu1 i0).2 ⟨x, hs⟩, (ok.pairAt_spec hu2 hdx hs p).2 ⟨y, k0, j0, h1, h2, h3⟩⟩

end CoupOK


/-! ### unit-cell assignment, no duplicates, instances -/

/-- Every orbit `{(i + m N, j + m N)}` of a coupling of the infinite system has exactly one
representative with `0 ≤ min(i, j) < N`. -/
theorem unique_cell_shift (i j N : Int) (hN : 0 < N) :
    ∃ m : Int, (0 ≤ min (i + m * N) (j + m * N) ∧ min (i + m * N) (j + m * N) < N) ∧
      ∀ m' : Int, (0 ≤ min (i + m' * N) (j + m' * N) ∧ min (i + m' * N) (j + m' * N) < N) → m' = m := by
  have key : ∀ m : Int, min (i + m * N) (j + m * N) = min i j + m * N := by intro m; omega
  refine ⟨-(min i j / N), ?_, ?_⟩
  · rw [key]
    have h1 := Int.emod_add_mul_ediv (min i j) N
    have h2 := Int.emod_nonneg (min i j) (show N ≠ 0 by omega)
    have h3 := Int.emod_lt_of_pos (min i j) hN
    have e : -(min i j / N) * N = -(N * (min i j / N)) := by ring
    rw [e]; omega
  · intro m' hm'
    rw [key] at hm'
    have h := Int.ediv_eq_zero_of_lt hm'.1 hm'.2
    rw [Int.add_mul_ediv_right _ _ (by omega)] at h
    omega

theorem cellShift_eq (k0 N : Int) (hN : 0 < N) : cellShift k0 N = (if k0 < 0 then -k0 else 0) * N := by
  unfold cellShift
  by_cases h : k0 < 0
  · have : k0 * N < 0 := Int.mul_neg_of_neg_of_pos h hN
    simp [h, this]
  · have : ¬ k0 * N < 0 := by
      have := Int.mul_nonneg (show 0 ≤ k0 by omega) (show 0 ≤ N by omega); omega
    simp [h, this]

namespace CoupOK
variable {l : Lat} (ok : CoupOK l)
include ok

theorem siteAt_range {i : Int} {x : List Int} {u : Nat} (h : SiteAt l i x u) : 0 ≤ i ∧ i < (l.nSites : Int) := by
  obtain ⟨k, rfl, hk, _⟩ := h
  have := ok.sites
  omega

/-- non-finite MPS: `0 ≤ min(i, j) < N_sites` for every listed coupling -/
theorem pairs_min_range (hf : l.finite = false) {u1 u2 : Nat} (hu1 : u1 < l.Lu) (hu2 : u2 < l.Lu)
    {dx : List Int} (hdx : dx.length = l.Ls.length) (p : Int × Int) (hp : p ∈ couplingPairs l u1 u2 dx) :
    0 ≤ min p.1 p.2 ∧ min p.1 p.2 < (l.nSites : Int) := by
  obtain ⟨_, i0, x, y, k0, j0, hs1, _, hs2, rfl⟩ := (ok.mem_pairs hu1 hu2 hdx p).1 hp
  obtain ⟨a0, a1⟩ := ok.siteAt_range hs1
  obtain ⟨b0, b1⟩ := ok.siteAt_range hs2
  simp only [hf, Bool.false_eq_true, if_false, cellShift]
  by_cases h : k0 * (l.nSites : Int) < 0
  · simp only [h, if_true]; omega
  · simp only [h, if_false]; omega

/-- each coupling is listed once -/
theorem pairs_nodup {u1 u2 : Nat} (hu1 : u1 < l.Lu) (hu2 : u2 < l.Lu) {dx : List Int}
    (hdx : dx.length = l.Ls.length) : (couplingPairs l u1 u2 dx).Nodup := by
  rw [couplingPairs_eq]
  split
  · exact List.nodup_nil
  · have hfix : (mpsIdxFixU l (some u1)).Pairwise (· ≠ ·) := by
      show (l.mpsFixU.getD u1 []).Pairwise (· ≠ ·)
      rw [ok.fixu u1 hu1]
      unfold nonzeroU
      have h1 : ((l.order.zipIdx.filter (fun ri => ri.1.getLastD 0 == (u1 : Int))).map Prod.snd).Pairwise (· < ·) := by
        apply List.Pairwise.sublist (List.Sublist.map _ List.filter_sublist)
        rw [List.zipIdx_map_snd]
        exact List.pairwise_lt_range' 1
      have h2 := List.Pairwise.map (fun (k : Nat) => (k : Int)) (R := (· < ·)) (S := (· ≠ ·))
        (fun a b h => by omega) h1
      simpa only [List.map_map, Function.comp_def] using h2
    rw [List.nodup_iff_pairwise_ne]
    refine List.Pairwise.filterMap _ ?_ (List.Pairwise.and_mem.1 hfix)
    rintro a a' ⟨ha, ha', hne⟩ b hb b' hb' rfl
    obtain ⟨x, hs⟩ := (ok.mem_fixU hu1 a).1 ha
    obtain ⟨x', hs'⟩ := (ok.mem_fixU hu1 a').1 ha'
    obtain ⟨y, k0, j0, _, _, e⟩ := (ok.pairAt_spec hu2 hdx hs b).1 hb
    obtain ⟨y', k0', j0', _, _, e'⟩ := (ok.pairAt_spec hu2 hdx hs' b).1 hb'
    obtain ⟨a0, a1⟩ := ok.siteAt_range hs
    obtain ⟨b0, b1⟩ := ok.siteAt_range hs'
    have hN := ok.toLatOK.nsites_pos
    apply hne
    cases hf : l.finite with
    | true =>
      simp only [hf, if_true] at e e'
      have := congrArg Prod.fst (e.symm.trans e')
      simpa using this
    | false =>
      simp only [hf, Bool.false_eq_true, if_false] at e e'
      have h := congrArg Prod.fst (e.symm.trans e')
      simp only [cellShift_eq _ _ hN] at h
      have h1 : (a + (if k0 < 0 then -k0 else 0) * (l.nSites : Int)) % (l.nSites : Int) = a := by
        rw [Int.add_mul_emod_self_right]; exact Int.emod_eq_of_lt a0 a1
      have h2 : (a' + (if k0' < 0 then -k0' else 0) * (l.nSites : Int)) % (l.nSites : Int) = a' := by
        rw [Int.add_mul_emod_self_right]; exact Int.emod_eq_of_lt b0 b1
      rw [← h1, ← h2, h]

end CoupOK

/-- regular lattices built from a grid order satisfy `CoupOK` -/
theorem coupOK_mk' (Ls : List Nat) (Lu : Nat) (bc : List Bool) (sh : Option (List Int)) (fin : Bool)
    (order : List (List Int)) (hne : Ls ≠ []) (hpos : ∀ L ∈ Ls, 0 < L) (hu : 0 < Lu)
    (hg : GridOrder (Ls ++ [Lu]) order) (hbc : bc.length = Ls.length) :
    CoupOK (Lat.mk' Ls Lu bc sh fin order) := by
  refine ⟨latOK_mk' Ls Lu bc sh fin order hne hpos hu hg, hbc, ?_, ?_⟩
  · intro u hu'
    show ((List.range Lu).map (nonzeroU order)).getD u [] = nonzeroU order u
    rw [List.getD_eq_getElem?_getD]
    have : u < Lu := hu'
    simp [this]
  · intro y u hy hu'
    have h1 : ((Lat.mk' Ls Lu bc sh fin order).kind != Kind.irregular) = true := rfl
    simp only [h1, Bool.true_or, true_iff]
    apply hg.mem_iff.2
    exact inGrid_append.2 ⟨hy, by omega, by have : u < Lu := hu'; omega⟩

/-- irregular lattices: `_perm` is `_REMOVED` exactly at the missing sites -/
theorem coupOK_mkIrregular (Ls : List Nat) (Lu : Nat) (bc : List Bool) (sh : Option (List Int)) (fin : Bool)
    (order : List (List Int)) (hne : Ls ≠ []) (hpos : ∀ L ∈ Ls, 0 < L)
    (hnd : order.Nodup) (hin : ∀ r ∈ order, InGrid (Ls ++ [Lu]) r) (hN : 0 < order.length)
    (hbc : bc.length = Ls.length) :
    CoupOK (Lat.mkIrregular Ls Lu bc sh fin order) := by
  refine ⟨latOK_mkIrregular Ls Lu bc sh fin order hne hpos hnd hin hN, hbc, ?_, ?_⟩
  · intro u hu'
    show ((List.range Lu).map (nonzeroU order)).getD u [] = nonzeroU order u
    rw [List.getD_eq_getElem?_getD]
    have : u < Lu := hu'
    simp [this]
  · intro y u hy hu'
    have hu'' : u < Lu := hu'
    have hyu : InGrid (Ls ++ [Lu]) (y ++ [(u : Int)]) := inGrid_append.2 ⟨hy, by omega, by omega⟩
    have h1 : ((Lat.mkIrregular Ls Lu bc sh fin order).kind != Kind.irregular) = false := rfl
    simp only [h1, Bool.false_or]
    show (scatterPerm (Ls ++ [Lu]) (stridesFrom 1 Ls) order).getD
      (dot (y ++ [(u : Int)]) (stridesFrom 1 Ls)).toNat REMOVED != REMOVED ↔ _
    constructor
    · intro h
      by_contra hnot
      apply (bne_iff_ne.1 h)
      unfold scatterPerm
      rw [List.getD_eq_getElem?_getD, scatter_getElem?_not_mem]
      · have hb := horner_bounds Ls Lu _ hyu
        simp only [dot_stridesFrom, Int.one_mul]
        rw [List.getElem?_replicate]
        split <;> rfl
      · intro hmem
        obtain ⟨r, hr, hreq⟩ := List.mem_map.1 hmem
        simp only [dot_stridesFrom, Int.one_mul] at hreq
        have b1 := horner_bounds Ls Lu r (hin r hr)
        have b2 := horner_bounds Ls Lu _ hyu
        have := horner_inj Ls Lu r _ (hin r hr) hyu (by omega)
        exact hnot (this ▸ hr)
    · intro hmem
      have hmem' : y ++ [(u : Int)] ∈ order := hmem
      obtain ⟨k, hk, hrow⟩ := List.mem_iff_getElem.1 hmem'
      have := scatterPerm_spec Ls Lu order hnd hin k hk REMOVED
      rw [getD_eq_getElem' _ _ hk, hrow] at this
      simp only [dot_stridesFrom, Int.one_mul]
      rw [this]
      apply bne_iff_ne.2
      unfold REMOVED; omega

end TenpyModel.C19
