import TenpyModel.C19.GridProofs
/-! `a[pos] = vals` (scatter) lemmas; C-order flat index; `_mps2lat_vals_idx`; `IrregularLattice._perm`. -/
namespace TenpyModel.C19

theorem scatter_cons {β : Type} (init : List β) (p : Nat) (ps : List Nat) (v : β) (vs : List β) :
    scatter init (p :: ps) (v :: vs) = scatter (init.set p v) ps vs := by
  simp [scatter]

theorem scatter_length {β : Type} (init : List β) (pos : List Nat) (vals : List β) :
    (scatter init pos vals).length = init.length := by
  induction pos generalizing init vals with
  | nil => simp [scatter]
  | cons p ps ih =>
    cases vals with
    | nil => simp [scatter]
    | cons v vs => rw [scatter_cons, ih]; simp

theorem scatter_getElem?_not_mem {β : Type} (init : List β) (pos : List Nat) (vals : List β) (q : Nat)
    (hq : q ∉ pos) : (scatter init pos vals)[q]? = init[q]? := by
  induction pos generalizing init vals with
  | nil => simp [scatter]
  | cons p ps ih =>
    cases vals with
    | nil => simp [scatter]
    | cons v vs =>
      rw [scatter_cons, ih _ _ (fun h => hq (List.mem_cons_of_mem _ h))]
      have : p ≠ q := fun h => hq (by simp [h])
      simp [this]

/-- with distinct in-range positions, entry `pos[k]` of the scattered array is `vals[k]` -/
theorem scatter_getElem? {β : Type} (init : List β) (pos : List Nat) (vals : List β)
    (hnd : pos.Nodup) (hlen : pos.length = vals.length) (hb : ∀ p ∈ pos, p < init.length)
    (k : Nat) (hk : k < pos.length) :
    (scatter init pos vals)[pos[k]]? = vals[k]? := by
  induction pos generalizing init vals k with
  | nil => simp at hk
  | cons p ps ih =>
    cases vals with
    | nil => simp at hlen
    | cons v vs =>
      rw [scatter_cons]
      rw [List.nodup_cons] at hnd
      cases k with
      | zero =>
        simp only [List.getElem_cons_zero, List.getElem?_cons_zero]
        rw [scatter_getElem?_not_mem _ _ _ _ hnd.1]
        simp [hb p (by simp)]
      | succ k =>
        simp only [List.getElem_cons_succ, List.getElem?_cons_succ]
        apply ih _ _ hnd.2 (by simpa using hlen)
        · intro q hq; simp; exact hb q (by simp [hq])

/-- C-order flat index (last index fastest) -/
def cIndex (shape : List Nat) (idx : List Int) : Int := flatC.go 0 shape idx

theorem flatC_eq (shape : List Nat) (idx : List Int) : flatC shape idx = cIndex shape idx := rfl

theorem flatC_go_acc (shape : List Nat) (idx : List Int) (acc : Int) (h : InGrid shape idx) :
    flatC.go acc shape idx = acc * (prodNat shape : Nat) + flatC.go 0 shape idx := by
  induction shape generalizing idx acc with
  | nil => cases idx <;> simp_all [InGrid, flatC.go, prodNat]
  | cons L Ls ih =>
    match idx, h with
    | x :: xs, h =>
      simp only [flatC.go, prodNat]
      rw [ih xs (acc * L + x) h.2.2, ih xs (0 * L + x) h.2.2]
      push_cast; ring

theorem cIndex_cons (L : Nat) (Ls : List Nat) (x : Int) (xs : List Int) (h : InGrid Ls xs) :
    cIndex (L :: Ls) (x :: xs) = x * (prodNat Ls : Nat) + cIndex Ls xs := by
  simp only [cIndex, flatC.go]
  rw [flatC_go_acc Ls xs _ h]; ring

theorem cIndex_bounds (shape : List Nat) (idx : List Int) (h : InGrid shape idx) :
    0 ≤ cIndex shape idx ∧ cIndex shape idx < (prodNat shape : Nat) := by
  induction shape generalizing idx with
  | nil => cases idx <;> simp_all [InGrid, cIndex, flatC.go, prodNat]
  | cons L Ls ih =>
    match idx, h with
    | x :: xs, h =>
      obtain ⟨h0, h1, h2⟩ := h
      obtain ⟨i0, i1⟩ := ih xs h2
      rw [cIndex_cons L Ls x xs h2]
      simp only [prodNat]; push_cast
      constructor <;> nlinarith

theorem cIndex_inj (shape : List Nat) (r s : List Int) (hr : InGrid shape r) (hs : InGrid shape s)
    (h : cIndex shape r = cIndex shape s) : r = s := by
  induction shape generalizing r s with
  | nil => cases r <;> cases s <;> simp_all [InGrid]
  | cons L Ls ih =>
    match r, s, hr, hs with
    | x :: xs, y :: ys, hr, hs =>
      obtain ⟨x0, x1, hx⟩ := hr
      obtain ⟨y0, y1, hy⟩ := hs
      rw [cIndex_cons L Ls x xs hx, cIndex_cons L Ls y ys hy] at h
      obtain ⟨a0, a1⟩ := cIndex_bounds Ls xs hx
      obtain ⟨b0, b1⟩ := cIndex_bounds Ls ys hy
      have hxy : x = y := by
        by_contra hne
        rcases Int.lt_or_gt_of_ne hne with hlt | hgt
        · have : x + 1 ≤ y := by omega
          nlinarith
        · have : y + 1 ≤ x := by omega
          nlinarith
      subst hxy
      have : cIndex Ls xs = cIndex Ls ys := by omega
      rw [ih xs ys hx hy this]

/-- `IrregularLattice._perm[flat(order[k])] = k` -/
theorem scatterPerm_spec (Ls : List Nat) (Lu : Nat) (order : List (List Int))
    (hnd : order.Nodup) (hin : ∀ r ∈ order, InGrid (Ls ++ [Lu]) r) (k : Nat) (hk : k < order.length) (d : Int) :
    (scatterPerm (Ls ++ [Lu]) (stridesFrom 1 Ls) order).getD (horner (order.getD k []) Ls).toNat d = k := by
  unfold scatterPerm
  set pos := order.map (fun r => (dot r (stridesFrom 1 Ls)).toNat) with hpos
  have hposk : pos[k]'(by simpa [hpos] using hk) = (horner (order.getD k []) Ls).toNat := by
    rw [getD_eq_getElem' _ _ hk]
    simp [hpos, dot_stridesFrom]
  have hnd' : pos.Nodup := by
    rw [hpos]
    apply List.Nodup.map_on _ hnd
    intro r hr s hs h
    simp only [dot_stridesFrom, Int.one_mul] at h
    have b1 := horner_bounds Ls Lu r (hin r hr)
    have b2 := horner_bounds Ls Lu s (hin s hs)
    exact horner_inj Ls Lu r s (hin r hr) (hin s hs) (by omega)
  have hb : ∀ p ∈ pos, p < (List.replicate (prodNat (Ls ++ [Lu])) REMOVED).length := by
    intro p hp
    rw [hpos] at hp
    obtain ⟨r, hr, rfl⟩ := List.mem_map.1 hp
    simp only [dot_stridesFrom, Int.one_mul, List.length_replicate]
    have b1 := horner_bounds Ls Lu r (hin r hr)
    omega
  have := scatter_getElem? (List.replicate (prodNat (Ls ++ [Lu])) REMOVED) pos
    ((List.range order.length).map Int.ofNat) hnd' (by simp [hpos]) hb k (by simpa [hpos] using hk)
  rw [hposk] at this
  rw [List.getD_eq_getElem?_getD, this]
  simp [hk]

/-- An irregular lattice (any duplicate-free non-empty set of sites inside the grid) is well formed. -/
theorem latOK_mkIrregular (Ls : List Nat) (Lu : Nat) (bc : List Bool) (sh : Option (List Int)) (fin : Bool)
    (order : List (List Int)) (hne : Ls ≠ []) (hpos : ∀ L ∈ Ls, 0 < L)
    (hnd : order.Nodup) (hin : ∀ r ∈ order, InGrid (Ls ++ [Lu]) r) (hN : 0 < order.length) :
    LatOK (Lat.mkIrregular Ls Lu bc sh fin order) := by
  refine ⟨hpos, rfl, ?_, rfl, hN, hin, hnd, ?_⟩
  · cases Ls with
    | nil => exact absurd rfl hne
    | cons L Ls => simp [Lat.mkIrregular]
  · intro k hk
    exact scatterPerm_spec Ls Lu order hnd hin k hk 0

end TenpyModel.C19
