import TenpyModel.C19.Variants
/-! placeholder, replaced below -/
theorem C19_placeholder_PropsCouplings : True := trivial
