import TenpyModel.C19.CouplingProofs
/-!
# C19 — couplings: property theorems

"The couplings enumerated for a displacement are exactly the pairs of existing sites separated by it
under the boundary conditions, each exactly once, with couplings across the boundary of an infinite
system assigned to exactly one unit cell."

* `Target l X y k0` (CouplingProofs.lean) is the declarative boundary-condition relation: the
  unwrapped cell position `X` equals the cell `y` plus an integer combination of the periods
  `P_0 = L_0 e_0`, `P_a = L_a e_a + shift_a e_0`, with no winding in open directions; `k0` is the
  winding number along `x`.
* `Admissible l u1 u2 dx i0 j0 k0`: site `i0` is `(x, u1)`, site `j0` is `(y, u2)`, both exist, and
  `y` is the image of `x + dx`.
* The theorems hold for every lattice object satisfying `CoupOK` — any dimension, sizes, order —
  and `C19_coupOK_regular` / `C19_coupOK_irregular` show that the regular lattices (any permutation of
  the grid as order) and the irregular lattices (any set of sites) built by the model are `CoupOK`.
-/
open TenpyModel.C19

namespace TenpyModel.C19
/-- sites `i0 = (x, u1)` and `j0 = (y, u2)` exist and `y` is the image of `x + dx` under the
boundary conditions, `k0` MPS unit cells further along `x` -/
def Admissible (l : Lat) (u1 u2 : Nat) (dx : List Int) (i0 j0 k0 : Int) : Prop :=
  ∃ x y : List Int, SiteAt l i0 x u1 ∧ SiteAt l j0 y u2 ∧ Target l (vadd x dx) y k0
end TenpyModel.C19

/-- Regular lattices (`Lattice.__init__` + `order` setter) with any permutation of the grid as
order are well formed for the coupling enumeration. -/
theorem C19_coupOK_regular (Ls : List Nat) (Lu : Nat) (bc : List Bool) (sh : Option (List Int)) (fin : Bool)
    (order : List (List Int)) (hne : Ls ≠ []) (hpos : ∀ L ∈ Ls, 0 < L) (hu : 0 < Lu)
    (hg : GridOrder (Ls ++ [Lu]) order) (hbc : bc.length = Ls.length) :
    CoupOK (Lat.mk' Ls Lu bc sh fin order) :=
  coupOK_mk' Ls Lu bc sh fin order hne hpos hu hg hbc

/-- Irregular lattices (`IrregularLattice`: removed sites are absent from `order`, added sites
present; `_perm` holds `_REMOVED` exactly at the missing sites) are well formed as well. -/
theorem C19_coupOK_irregular (Ls : List Nat) (Lu : Nat) (bc : List Bool) (sh : Option (List Int)) (fin : Bool)
    (order : List (List Int)) (hne : Ls ≠ []) (hpos : ∀ L ∈ Ls, 0 < L)
    (hnd : order.Nodup) (hin : ∀ r ∈ order, InGrid (Ls ++ [Lu]) r) (hN : 0 < order.length)
    (hbc : bc.length = Ls.length) :
    CoupOK (Lat.mkIrregular Ls Lu bc sh fin order) :=
  coupOK_mkIrregular Ls Lu bc sh fin order hne hpos hnd hin hN hbc

/-- **Soundness, finite MPS, every boundary combination** (also shifted + open): every listed pair
`(i, j)` is a pair of existing sites separated by `dx` under the boundary conditions. -/
theorem C19_couplings_sound_finite (l : Lat) (ok : CoupOK l) (hf : l.finite = true) (u1 u2 : Nat)
    (hu1 : u1 < l.Lu) (hu2 : u2 < l.Lu) (dx : List Int) (hdx : dx.length = l.Ls.length) (i j : Int)
    (h : (i, j) ∈ couplingPairs l u1 u2 dx) : ∃ k0, Admissible l u1 u2 dx i j k0 := by
  obtain ⟨_, i0, x, y, k0, j0, h1, h2, h3, h4⟩ := (ok.mem_pairs hu1 hu2 hdx (i, j)).1 h
  simp only [hf, if_true, Prod.mk.injEq] at h4
  obtain ⟨rfl, rfl⟩ := h4
  exact ⟨k0, x, y, h1, h3, h2⟩

/-
Full-strength statement (exactness for finite MPS and EVERY boundary combination):
  (i, j) ∈ couplingPairs l u1 u2 dx ↔ ∃ k0, Admissible l u1 u2 dx i j k0
It is FALSE of the code (hence of the faithful model) when a shifted boundary is combined with an
open x-direction: see `C19_couplings_complete_counterexample`.  Proved below under `NoShiftOpenX`.
-/

/-- **Exactness, finite MPS** (shifted boundaries only together with a periodic `x`-direction):
`(i, j)` is listed iff sites `i = (x, u1)` and `j = (y, u2)` exist and `y` is the image of `x + dx`
under the boundary conditions (open: inside the lattice; periodic: wrapped, with `bc_shift`). -/
theorem C19_couplings_exact_finite_partial (l : Lat) (ok : CoupOK l) (hf : l.finite = true)
    (hns : NoShiftOpenX l) (u1 u2 : Nat) (hu1 : u1 < l.Lu) (hu2 : u2 < l.Lu) (dx : List Int)
    (hdx : dx.length = l.Ls.length) (i j : Int) :
    (i, j) ∈ couplingPairs l u1 u2 dx ↔ ∃ k0, Admissible l u1 u2 dx i j k0 := by
  constructor
  · exact C19_couplings_sound_finite l ok hf u1 u2 hu1 hu2 dx hdx i j
  · rintro ⟨k0, x, y, h1, h2, h3⟩
    refine (ok.mem_pairs hu1 hu2 hdx (i, j)).2 ⟨?_, i, x, y, k0, j, h1, h3, h2, by simp [hf]⟩
    exact ok.not_early (ok.siteAt_inGrid h1).1 h3 hns

/-- **Counterexample to completeness with a shifted boundary and an open `x`-direction**
(known finding, replayed on the real code by corpus/C19/shifted-bc-open-x-coupling-shape-zero.json):
`Square(2, 2, bc=['open', 1])`, `dx = (2, 1)`: site `1 = (0,1)` is mapped onto site `2 = (1,0)`
(going around `y` shifts `x` by `-1`), but `coupling_shape = (0, 2)` makes `possible_couplings`
return nothing. -/
theorem C19_couplings_complete_counterexample :
    let l := Lat.mk' [2, 2] 1 [true, false] (some [1]) true (castRows (cstyle [2, 2, 1]))
    Admissible l 0 0 [2, 1] 1 2 0 ∧ couplingPairs l 0 0 [2, 1] = [] := by
  intro l
  refine ⟨⟨[0, 1], [1, 0], ⟨1, rfl, by decide, by decide⟩, ⟨2, rfl, by decide, by decide⟩, ?_⟩, by decide⟩
  show Target l [2, 2] [1, 0] 0
  exact ⟨[1], by simp [Wraps], by decide, by decide, by decide, by decide⟩

/-- **Exactness, infinite / segment MPS** (periodic along `x`, as `test_sanity` demands; any
boundary in the other directions, with or without shift): the listed pairs are exactly the
translates `(i0 + m N, j0 + (k0 + m) N)` by whole MPS unit cells of the admissible couplings
starting in the unit cell, restricted to `0 ≤ min(i, j) < N`. -/
theorem C19_couplings_exact_infinite (l : Lat) (ok : CoupOK l) (hf : l.finite = false)
    (hx : l.bc.headD false = false) (u1 u2 : Nat) (hu1 : u1 < l.Lu) (hu2 : u2 < l.Lu) (dx : List Int)
    (hdx : dx.length = l.Ls.length) (i j : Int) :
    (i, j) ∈ couplingPairs l u1 u2 dx ↔
      ∃ i0 j0 k0 m : Int, Admissible l u1 u2 dx i0 j0 k0 ∧
        i = i0 + m * l.nSites ∧ j = j0 + (k0 + m) * l.nSites ∧
        0 ≤ min i j ∧ min i j < (l.nSites : Int) := by
  have hN := ok.toLatOK.nsites_pos
  constructor
  · intro h
    have hmin := ok.pairs_min_range hf hu1 hu2 hdx (i, j) h
    obtain ⟨_, i0, x, y, k0, j0, h1, h2, h3, h4⟩ := (ok.mem_pairs hu1 hu2 hdx (i, j)).1 h
    simp only [hf, Bool.false_eq_true, if_false, Prod.mk.injEq, cellShift_eq _ _ hN] at h4
    obtain ⟨rfl, rfl⟩ := h4
    refine ⟨i0, j0, k0, if k0 < 0 then -k0 else 0, ⟨x, y, h1, h3, h2⟩, rfl, by ring, hmin⟩
  · rintro ⟨i0, j0, k0, m, ⟨x, y, h1, h2, h3⟩, rfl, rfl, hmin0, hmin1⟩
    have hns : NoShiftOpenX l := by intro h; rw [hx] at h; cases h
    refine (ok.mem_pairs hu1 hu2 hdx _).2 ⟨ok.not_early (ok.siteAt_inGrid h1).1 h3 hns,
      i0, x, y, k0, j0, h1, h3, h2, ?_⟩
    simp only [hf, Bool.false_eq_true, if_false, cellShift_eq _ _ hN]
    -- both `m` and `max(0, -k0)` put the minimum into `[0, N)`: they coincide
    obtain ⟨a0, a1⟩ := ok.siteAt_range h1
    obtain ⟨b0, b1⟩ := ok.siteAt_range h2
    obtain ⟨m1, _, huniq⟩ := unique_cell_shift i0 (j0 + k0 * l.nSites) l.nSites hN
    have e1 : m = m1 := by
      apply huniq
      have : j0 + k0 * (l.nSites : Int) + m * l.nSites = j0 + (k0 + m) * l.nSites := by ring
      rw [this]; exact ⟨hmin0, hmin1⟩
    have e2 : (if k0 < 0 then -k0 else 0) = m1 := by
      apply huniq
      by_cases hk : k0 < 0
      · simp only [hk, if_true]
        have : j0 + k0 * (l.nSites : Int) + -k0 * l.nSites = j0 := by ring
        rw [this]
        have : (-k0) * (l.nSites : Int) ≥ l.nSites := by nlinarith
        omega
      · simp only [hk, if_false, Int.zero_mul, Int.add_zero]
        have : 0 ≤ k0 * (l.nSites : Int) := Int.mul_nonneg (by omega) (by omega)
        omega
    rw [e2, ← e1]
    simp only [Prod.mk.injEq, true_and]; ring

/-- **Unit-cell assignment.** For infinite / segment MPS every listed coupling has
`0 ≤ min(i, j) < N_sites`; and every coupling of the infinite system — every orbit
`{(i + m N, j + m N)}` under translation by MPS unit cells — has exactly one representative in that
range.  With `C19_couplings_exact_infinite`: each boundary-crossing coupling is assigned to exactly
one unit cell. -/
theorem C19_unit_cell_assignment (l : Lat) (ok : CoupOK l) (hf : l.finite = false) (u1 u2 : Nat)
    (hu1 : u1 < l.Lu) (hu2 : u2 < l.Lu) (dx : List Int) (hdx : dx.length = l.Ls.length) :
    (∀ p ∈ couplingPairs l u1 u2 dx, 0 ≤ min p.1 p.2 ∧ min p.1 p.2 < (l.nSites : Int)) ∧
    (∀ i j : Int, ∃ m : Int,
      (0 ≤ min (i + m * l.nSites) (j + m * l.nSites) ∧ min (i + m * l.nSites) (j + m * l.nSites) < (l.nSites : Int)) ∧
      ∀ m' : Int, (0 ≤ min (i + m' * l.nSites) (j + m' * l.nSites) ∧
        min (i + m' * l.nSites) (j + m' * l.nSites) < (l.nSites : Int)) → m' = m) :=
  ⟨fun p hp => ok.pairs_min_range hf hu1 hu2 hdx p hp,
   fun i j => unique_cell_shift i j l.nSites ok.toLatOK.nsites_pos⟩

/-- **No duplicates**: every pair is listed at most once (any boundary combination, finite or not). -/
theorem C19_couplings_nodup (l : Lat) (ok : CoupOK l) (u1 u2 : Nat) (hu1 : u1 < l.Lu) (hu2 : u2 < l.Lu)
    (dx : List Int) (hdx : dx.length = l.Ls.length) : (couplingPairs l u1 u2 dx).Nodup :=
  ok.pairs_nodup hu1 hu2 hdx

/-- Non-vacuity: the hypotheses are met by a 2x3 lattice with two sites per cell, shifted boundary,
infinite MPS and a scrambled order; `C19_couplings_nodup` and the unit-cell assignment then hold for
its (merge-sorted `_perm`) coupling list. -/
example :
    let order : List (List Int) := castRows ((cstyle [2, 3, 2]).reverse)
    let l := Lat.mk' [2, 3] 2 [false, false] (some [-1]) false order
    (couplingPairs l 0 1 [1, -2]).Nodup ∧
      ∀ p ∈ couplingPairs l 0 1 [1, -2], 0 ≤ min p.1 p.2 ∧ min p.1 p.2 < 12 := by
  intro order l
  have hg : GridOrder ([2, 3] ++ [2]) order := gridOrder_of_perm (List.reverse_perm _)
  have ok : CoupOK l := C19_coupOK_regular [2, 3] 2 _ _ false order (by decide) (by decide) (by decide) hg rfl
  exact ⟨C19_couplings_nodup l ok 0 1 (by decide) (by decide) _ rfl,
    (C19_unit_cell_assignment l ok rfl 0 1 (by decide) (by decide) _ rfl).1⟩
