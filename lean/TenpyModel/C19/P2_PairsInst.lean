import TenpyModel.C19.P2_Pairs
/-! Outside-box bounds of the six lattice classes in the form needed by `pairsExact_of_box`. -/
open TenpyModel.C19.Pairs
open TenpyModel.Gen.C19Pairs

namespace TenpyModel.C19.Pairs

theorem dx_dim1 (dx : List Int) (h : dx.length = 1) (hb : ¬ ∀ d ∈ dx, -((4 : Nat) : Int) ≤ d ∧ d ≤ ((4 : Nat) : Int)) :
    ∃ d, dx = [d] ∧ (d < -4 ∨ 4 < d) := by
  match dx, h with
  | [d], _ =>
    refine ⟨d, rfl, ?_⟩
    simp only [List.mem_singleton, forall_eq] at hb
    omega

theorem dx_dim2 (dx : List Int) (h : dx.length = 2) (hb : ¬ ∀ d ∈ dx, -((4 : Nat) : Int) ≤ d ∧ d ≤ ((4 : Nat) : Int)) :
    ∃ d0 d1, dx = [d0, d1] ∧ (d0 < -4 ∨ 4 < d0 ∨ d1 < -4 ∨ 4 < d1) := by
  match dx, h with
  | [d0, d1], _ =>
    refine ⟨d0, d1, rfl, ?_⟩
    simp only [List.mem_cons, List.not_mem_nil, or_false, forall_eq_or_imp, forall_eq] at hb
    omega

theorem out_chain (c : Coupling) (hc : Coup chain c) (hb : ¬ InBox 4 c) : Z3.lt ⟨9, 0⟩ (sqDist chain c) = true := by
  obtain ⟨u1, u2, dx⟩ := c
  obtain ⟨h1, h2, h3, _⟩ := hc
  have e1 : u1 = 0 := by have : u1 < 1 := h1; omega
  have e2 : u2 = 0 := by have : u2 < 1 := h2; omega
  obtain ⟨d, rfl, hd⟩ := dx_dim1 dx h3 hb
  subst e1; subst e2
  exact (C19_pairs_Chain_outside_box d hd).2

theorem out_ladder (c : Coupling) (hc : Coup ladder c) (hb : ¬ InBox 4 c) : Z3.lt ⟨4, 0⟩ (sqDist ladder c) = true := by
  obtain ⟨u1, u2, dx⟩ := c
  obtain ⟨h1, h2, h3, _⟩ := hc
  obtain ⟨d, rfl, hd⟩ := dx_dim1 dx h3 hb
  exact (C19_pairs_Ladder_outside_box u1 u2 h1 h2 d hd).2

theorem out_square (c : Coupling) (hc : Coup square c) (hb : ¬ InBox 4 c) : Z3.lt ⟨4, 0⟩ (sqDist square c) = true := by
  obtain ⟨u1, u2, dx⟩ := c
  obtain ⟨h1, h2, h3, _⟩ := hc
  have e1 : u1 = 0 := by have : u1 < 1 := h1; omega
  have e2 : u2 = 0 := by have : u2 < 1 := h2; omega
  obtain ⟨d0, d1, rfl, hd⟩ := dx_dim2 dx h3 hb
  subst e1; subst e2
  exact (C19_pairs_Square_outside_box d0 d1 hd).2

theorem out_triangular (c : Coupling) (hc : Coup triangular c) (hb : ¬ InBox 4 c) :
    Z3.lt ⟨16, 0⟩ (sqDist triangular c) = true := by
  obtain ⟨u1, u2, dx⟩ := c
  obtain ⟨h1, h2, h3, _⟩ := hc
  have e1 : u1 = 0 := by have : u1 < 1 := h1; omega
  have e2 : u2 = 0 := by have : u2 < 1 := h2; omega
  obtain ⟨d0, d1, rfl, hd⟩ := dx_dim2 dx h3 hb
  subst e1; subst e2
  exact (C19_pairs_Triangular_outside_box d0 d1 hd).2

theorem out_honeycomb (c : Coupling) (hc : Coup honeycomb c) (hb : ¬ InBox 4 c) :
    Z3.lt ⟨432, 0⟩ (sqDist honeycomb c) = true := by
  obtain ⟨u1, u2, dx⟩ := c
  obtain ⟨h1, h2, h3, _⟩ := hc
  obtain ⟨d0, d1, rfl, hd⟩ := dx_dim2 dx h3 hb
  exact (C19_pairs_Honeycomb_outside_box u1 u2 h1 h2 d0 d1 hd).2

theorem out_kagome (c : Coupling) (hc : Coup kagome c) (hb : ¬ InBox 4 c) :
    Z3.lt ⟨16, 0⟩ (sqDist kagome c) = true := by
  obtain ⟨u1, u2, dx⟩ := c
  obtain ⟨h1, h2, h3, _⟩ := hc
  obtain ⟨d0, d1, rfl, hd⟩ := dx_dim2 dx h3 hb
  exact (C19_pairs_Kagome_outside_box u1 u2 h1 h2 d0 d1 hd).2

end TenpyModel.C19.Pairs
