import TenpyModel.C19.RadixProofs
import Mathlib.Data.List.Perm.Subperm
import Mathlib.Data.List.Nodup
/-! `_perm = np.lexsort(order.T)` inverts the flat index; round trips of `mps2lat_idx` / `lat2mps_idx`. -/
namespace TenpyModel.C19

theorem getD_eq_getElem' {α : Type} (l : List α) (d : α) {i : Nat} (h : i < l.length) : l.getD i d = l[i] := by
  simp [List.getD_eq_getElem?_getD, h]

def intRange (N : Nat) : List Int := (List.range N).map Int.ofNat

theorem intRange_pairwise (N : Nat) : (intRange N).Pairwise (fun a b => a ≤ b) := by
  unfold intRange
  apply List.Pairwise.map _ _ List.pairwise_lt_range
  intro a b h
  simp only [Int.ofNat_eq_natCast]
  omega

theorem mem_intRange {N : Nat} {a : Int} : a ∈ intRange N ↔ 0 ≤ a ∧ a < N := by
  unfold intRange
  simp only [List.mem_map, List.mem_range, Int.ofNat_eq_natCast]
  constructor
  · rintro ⟨k, hk, rfl⟩; omega
  · intro h; exact ⟨a.toNat, by omega, by omega⟩

/-- a duplicate-free list of `N` integers from `[0, N)`, sorted, is `[0, 1, ..., N-1]` -/
theorem sorted_eq_intRange (N : Nat) (Q : List Int) (hnd : Q.Nodup) (hlen : Q.length = N)
    (hmem : ∀ a ∈ Q, 0 ≤ a ∧ a < N) :
    Q.mergeSort (fun a b => decide (a ≤ b)) = intRange N := by
  have hperm : Q.Perm (intRange N) := by
    apply List.Subperm.perm_of_length_le
    · apply List.subperm_of_subset hnd
      intro a ha
      exact mem_intRange.2 (hmem a ha)
    · simp [intRange, hlen]
  have hsorted := List.pairwise_mergeSort (le := fun (a b : Int) => decide (a ≤ b))
    (by intro a b c; simp only [decide_eq_true_eq]; omega)
    (by intro a b; simp only [Bool.or_eq_true, decide_eq_true_eq]; omega) Q
  refine List.Perm.eq_of_pairwise (le := fun a b => a ≤ b) ?_ ?_ (intRange_pairwise N)
    ((List.mergeSort_perm Q _).trans hperm)
  · intro a b _ _ h1 h2; omega
  · exact hsorted.imp (by intro a b h; simpa using h)

/-- **`_perm` inverts the flat index.**  For an `order` that lists every grid point exactly once,
`np.lexsort(order.T)[flat(order[k])] = k`. -/
theorem lexsortPerm_spec (Ls : List Nat) (Lu : Nat) (order : List (List Int))
    (hnd : order.Nodup) (hin : ∀ r ∈ order, InGrid (Ls ++ [Lu]) r)
    (hlen : order.length = prodNat (Ls ++ [Lu])) (k : Nat) (hk : k < order.length) :
    (lexsortPerm order).getD (horner (order.getD k []) Ls).toNat 0 = k := by
  generalize hN : order.length = N at hk hlen
  let f : Nat → Int := fun i => horner (order.getD i []) Ls
  have hrow : ∀ i, i < N → InGrid (Ls ++ [Lu]) (order.getD i []) := by
    intro i hi
    have hi' : i < order.length := by omega
    rw [getD_eq_getElem' order [] hi']
    exact hin _ (List.getElem_mem hi')
  have hfb : ∀ i, i < N → 0 ≤ f i ∧ f i < N := by
    intro i hi
    have := horner_bounds Ls Lu _ (hrow i hi)
    rw [hlen]; exact this
  have hfinj : ∀ i j, i < N → j < N → f i = f j → i = j := by
    intro i j hi hj h
    have := horner_inj Ls Lu _ _ (hrow i hi) (hrow j hj) h
    exact (List.getD_inj (by omega) (by omega) hnd).1 this
  -- the comparison of `lexsort` is the comparison of the flat indices
  have hle : ∀ a ∈ List.range N, ∀ b ∈ List.range N,
      (!revLt (order.getD b []) (order.getD a [])) = decide (f a ≤ f b) := by
    intro a ha b hb
    have ha' := List.mem_range.1 ha
    have hb' := List.mem_range.1 hb
    have := revLt_iff_horner Ls Lu _ _ (hrow b hb') (hrow a ha')
    by_cases h : revLt (order.getD b []) (order.getD a []) = true
    · have h' := this.1 h
      simp only [h, Bool.not_true]
      symm; simp only [decide_eq_false_iff_not]; show ¬ (f a ≤ f b); show ¬ (horner _ Ls ≤ horner _ Ls); omega
    · have h' : ¬ (horner (order.getD b []) Ls < horner (order.getD a []) Ls) := fun hh => h (this.2 hh)
      simp only [Bool.not_eq_true] at h
      simp only [h, Bool.not_false]
      symm; simp only [decide_eq_true_eq]; show horner _ Ls ≤ horner _ Ls; omega
  set P := (List.range N).mergeSort (fun i j => !revLt (order.getD j []) (order.getD i [])) with hP
  have hmap : P.map f = intRange N := by
    rw [hP, List.map_mergeSort (s := fun (a b : Int) => decide (a ≤ b)) hle]
    apply sorted_eq_intRange
    · exact List.Nodup.map_on (fun x hx y hy h =>
        hfinj x y (List.mem_range.1 hx) (List.mem_range.1 hy) h) List.nodup_range
    · simp
    · intro a ha
      obtain ⟨i, hi, rfl⟩ := List.mem_map.1 ha
      exact hfb i (List.mem_range.1 hi)
  have hPlen : P.length = N := by simp [hP]
  have hPmem : ∀ m (hm : m < P.length), P[m] < N := by
    intro m hm
    have : P[m] ∈ List.range N := (List.mem_mergeSort).1 (List.getElem_mem hm)
    exact List.mem_range.1 this
  obtain ⟨hk0, hk1⟩ := hfb k hk
  set m := (f k).toNat with hm
  have hmN : m < N := by omega
  have hmP : m < P.length := by omega
  have hfm : f P[m] = m := by
    have h1 : (P.map f)[m]'(by simpa using hmP) = (intRange N)[m]'(by simp [intRange]; exact hmN) := by
      simp only [hmap]
    simpa [intRange] using h1
  have : P[m] = k := hfinj _ _ (hPmem m hmP) hk (by rw [hfm]; omega)
  show (lexsortPerm order).getD m 0 = k
  unfold lexsortPerm
  rw [hN, ← hP, getD_eq_getElem' _ _ (by simpa using hmP)]
  simp [this]


/-- What the index maps read from a lattice object, and what they need to be true of it.
`Lat.mk'` (regular lattices) and `Lat.mkIrregular` establish it (see `latOK_mk'`, `latOK_mkIrregular`). -/
structure LatOK (l : Lat) : Prop where
  lpos : ∀ L ∈ l.Ls, 0 < L
  strides : l.strides = stridesFrom 1 l.Ls
  rings : l.Ls.head? = some l.nRings
  sites : l.nSites = l.order.length
  npos : 0 < l.order.length
  rows : ∀ r ∈ l.order, InGrid (l.Ls ++ [l.Lu]) r
  nodup : l.order.Nodup
  perm : ∀ k, k < l.order.length → l.perm.getD (horner (l.order.getD k []) l.Ls).toNat 0 = k

theorem addHead_zero (r : List Int) : addHead r 0 = r := by
  cases r <;> simp [addHead]

theorem addHead_addHead (r : List Int) (a b : Int) : addHead (addHead r a) b = addHead r (a + b) := by
  cases r <;> simp [addHead, Int.add_assoc]

namespace LatOK
variable {l : Lat} (ok : LatOK l)
include ok

theorem rpos : 0 < l.nRings := by
  have h := ok.rings
  cases hL : l.Ls with
  | nil => simp [hL] at h
  | cons L Ls =>
    simp [hL] at h
    have := ok.lpos L (by simp [hL])
    omega

theorem row_inGrid {k : Nat} (hk : k < l.order.length) : InGrid (l.Ls ++ [l.Lu]) (l.order.getD k []) := by
  rw [getD_eq_getElem' _ _ hk]; exact ok.rows _ (List.getElem_mem hk)

/-- shape of a row: first coordinate within the first ring range -/
theorem row_head {k : Nat} (hk : k < l.order.length) :
    ∃ x0 rest, l.order.getD k [] = x0 :: rest ∧ 0 ≤ x0 ∧ x0 < (l.nRings : Int) := by
  have h := ok.row_inGrid hk
  have hr := ok.rings
  cases hL : l.Ls with
  | nil => simp [hL] at hr
  | cons L Ls =>
    rw [hL] at h hr
    simp at hr
    match hrow : l.order.getD k [], h with
    | x :: xs, h =>
      obtain ⟨h0, h1, _⟩ := h
      exact ⟨x, xs, rfl, h0, by omega⟩

/-- the finite part of `lat2mps_idx`: flat index through `_strides`, then `_perm` -/
theorem perm_lookup {k : Nat} (hk : k < l.order.length) :
    l.perm.getD (dot (modShape (l.order.getD k []) l.shape) l.strides).toNat 0 = k := by
  have h := ok.row_inGrid hk
  rw [Lat.shape, modShape_of_inGrid _ _ h, ok.strides, dot_stridesFrom, Int.one_mul]
  exact ok.perm k hk

theorem lat2mps_row_finite (hf : l.finite = true) {k : Nat} (hk : k < l.order.length) :
    lat2mpsIdx l (l.order.getD k []) = k := by
  simp only [lat2mpsIdx, hf, if_true]
  exact ok.perm_lookup hk

/-- `lat2mps_idx` on a translate of a site by `m` MPS unit cells (non-finite MPS) -/
theorem lat2mps_row_shift (hf : l.finite = false) {k : Nat} (hk : k < l.order.length) (m : Int) :
    lat2mpsIdx l (addHead (l.order.getD k []) (m * l.nRings)) = k + m * l.nSites := by
  obtain ⟨x0, rest, hrow, h0, h1⟩ := ok.row_head hk
  have hR := ok.rpos
  have hmod : (x0 + m * (l.nRings : Int)) % (l.nRings : Int) = x0 := by
    rw [Int.add_mul_emod_self_right]; exact Int.emod_eq_of_lt h0 h1
  simp only [lat2mpsIdx, hf, hrow, addHead, List.headD_cons, hmod]
  have e : x0 + m * (l.nRings : Int) + -(x0 + m * (l.nRings : Int) - x0) = x0 := by omega
  simp only [Bool.false_eq_true, if_false, e]
  rw [← hrow, ok.perm_lookup hk]
  have : (x0 + m * (l.nRings : Int) - x0) * (l.nSites : Int) / (l.nRings : Int) = m * l.nSites := by
    have : (x0 + m * (l.nRings : Int) - x0) * (l.nSites : Int) = (l.nRings : Int) * (m * l.nSites) := by ring
    rw [this, Int.mul_ediv_cancel_left _ (by omega)]
  rw [this]

/-- `mps2lat_idx` for non-finite MPS is the periodic extension of `order` -/
theorem mps2lat_eq (hf : l.finite = false) (i : Int) :
    mps2latIdx l i = addHead (l.order.getD (i % (l.nSites : Int)).toNat [])
      ((i / (l.nSites : Int)) * l.nRings) := by
  have hN : (0 : Int) < l.nSites := by have := ok.npos; have := ok.sites; omega
  simp only [mps2latIdx, hf, Bool.not_false, if_true]
  have hdiv : (i - i % (l.nSites : Int)) * (l.nRings : Int) / (l.nSites : Int)
      = i / (l.nSites : Int) * l.nRings := by
    have : i - i % (l.nSites : Int) = (l.nSites : Int) * (i / (l.nSites : Int)) := by
      have := Int.emod_add_mul_ediv i (l.nSites : Int); omega
    rw [this, Int.mul_assoc, Int.mul_ediv_cancel_left _ (by omega)]
  split
  · rw [hdiv]
  · next h =>
    have h' : i = i % (l.nSites : Int) := by simpa using h
    have : i / (l.nSites : Int) = 0 := by
      apply Int.ediv_eq_zero_of_lt
      · rw [h']; exact Int.emod_nonneg _ (by omega)
      · rw [h']; exact Int.emod_lt_of_pos _ hN
    rw [this, Int.zero_mul, addHead_zero]

theorem mem_order_getD {r : List Int} (hr : r ∈ l.order) : ∃ k, k < l.order.length ∧ l.order.getD k [] = r := by
  obtain ⟨k, hk, rfl⟩ := List.mem_iff_getElem.1 hr
  have _ := ok
  exact ⟨k, hk, getD_eq_getElem' _ _ hk⟩

theorem roundtrip_mps_finite (hf : l.finite = true) (i : Int) (h0 : 0 ≤ i) (h1 : i < l.order.length) :
    lat2mpsIdx l (mps2latIdx l i) = i := by
  have : mps2latIdx l i = l.order.getD i.toNat [] := by simp [mps2latIdx, hf]
  rw [this, ok.lat2mps_row_finite hf (by omega)]
  omega

theorem roundtrip_lat_finite (hf : l.finite = true) (r : List Int) (hr : r ∈ l.order) :
    mps2latIdx l (lat2mpsIdx l r) = r := by
  obtain ⟨k, hk, rfl⟩ := ok.mem_order_getD hr
  rw [ok.lat2mps_row_finite hf hk]
  simp [mps2latIdx, hf]

theorem nsites_pos : (0 : Int) < l.nSites := by
  have := ok.npos; have := ok.sites; omega

theorem roundtrip_mps_infinite (hf : l.finite = false) (i : Int) : lat2mpsIdx l (mps2latIdx l i) = i := by
  have hN := ok.nsites_pos
  have hk0 := Int.emod_nonneg i (show (l.nSites : Int) ≠ 0 by omega)
  have hk1 := Int.emod_lt_of_pos i hN
  have hk : (i % (l.nSites : Int)).toNat < l.order.length := by have := ok.sites; omega
  rw [ok.mps2lat_eq hf, ok.lat2mps_row_shift hf hk]
  have := Int.emod_add_mul_ediv i (l.nSites : Int)
  have e : ((i % (l.nSites : Int)).toNat : Int) = i % (l.nSites : Int) := by omega
  rw [e]
  have : i / (l.nSites : Int) * (l.nSites : Int) = (l.nSites : Int) * (i / (l.nSites : Int)) := by ring
  omega

theorem mps2lat_of_shift (hf : l.finite = false) {k : Nat} (hk : k < l.order.length) (m : Int) :
    mps2latIdx l ((k : Int) + m * l.nSites) = addHead (l.order.getD k []) (m * l.nRings) := by
  have hN := ok.nsites_pos
  have hkN : (k : Int) < l.nSites := by have := ok.sites; omega
  rw [ok.mps2lat_eq hf]
  have h1 : ((k : Int) + m * l.nSites) % (l.nSites : Int) = k := by
    rw [Int.add_mul_emod_self_right]; exact Int.emod_eq_of_lt (by omega) hkN
  have h2 : ((k : Int) + m * l.nSites) / (l.nSites : Int) = m := by
    rw [Int.add_mul_ediv_right _ _ (by omega), Int.ediv_eq_zero_of_lt (by omega) hkN]; omega
  rw [h1, h2]; simp

theorem roundtrip_lat_infinite (hf : l.finite = false) (r : List Int) (hr : r ∈ l.order) (m : Int) :
    mps2latIdx l (lat2mpsIdx l (addHead r (m * l.nRings))) = addHead r (m * l.nRings) := by
  obtain ⟨k, hk, rfl⟩ := ok.mem_order_getD hr
  rw [ok.lat2mps_row_shift hf hk, ok.mps2lat_of_shift hf hk]

/-- `mps2lat_idx(i + N_sites) = mps2lat_idx(i) + (N_rings, 0, ..., 0)` -/
theorem mps2lat_periodic (hf : l.finite = false) (i : Int) :
    mps2latIdx l (i + l.nSites) = addHead (mps2latIdx l i) l.nRings := by
  have hN := ok.nsites_pos
  rw [ok.mps2lat_eq hf, ok.mps2lat_eq hf, addHead_addHead]
  have h1 : (i + (l.nSites : Int)) % (l.nSites : Int) = i % (l.nSites : Int) := by
    rw [Int.add_emod_right]
  have h2 : (i + (l.nSites : Int)) / (l.nSites : Int) = i / (l.nSites : Int) + 1 := by
    rw [Int.add_ediv_of_dvd_right (Int.dvd_refl _), Int.ediv_self (by omega)]
  rw [h1, h2]; congr 1; ring

/-- `lat2mps_idx(x + m (N_rings, 0, ..., 0)) = lat2mps_idx(x) + m N_sites` for every site `x` of the cell -/
theorem lat2mps_periodic (hf : l.finite = false) (r : List Int) (hr : r ∈ l.order) (m : Int) :
    lat2mpsIdx l (addHead r (m * l.nRings)) = lat2mpsIdx l r + m * l.nSites := by
  obtain ⟨k, hk, rfl⟩ := ok.mem_order_getD hr
  have h0 := ok.lat2mps_row_shift hf hk 0
  simp only [Int.zero_mul, addHead_zero, Int.add_zero] at h0
  rw [ok.lat2mps_row_shift hf hk, h0]

end LatOK

end TenpyModel.C19
