import TenpyModel.C19.P2_MultiUnique
import TenpyModel.C19.P2_PairsInst
import TenpyModel.C19.P2_ValuesU
import TenpyModel.C19.P2_Masked2
import TenpyModel.C19.P2_Helical3
/-!
# C19 — property theorems, second part

* `C19_multi_couplings_exact` (+ `C19_multi_couplings_counterexample`): the box enumerated by
  `possible_multi_couplings` contains exactly one representative of every admissible placement of the
  operators (completes `C19_multi_couplings_exact_box`).
* `C19_values_u`, `C19_values_masked` (+ `C19_values_masked_unrepaired_counterexample`):
  `mps2lat_values(u=...)`, `mps2lat_values_masked` after the fix of the result shape.
* `C19_helical_translation`, `C19_helical_couplings_exact`: the translation invariance behind
  `HelicalLattice`.
* `C19_pairs_<Class>`: the predefined neighbour lists are exactly the `k`-th distance shells of the
  infinite lattice, over ALL `dx ∈ ℤ^dim` (combination of `C19_pairs_*_partial` with
  `C19_pairs_*_outside_box`; `PairsExact`, `IsKthShell` in `P2_Pairs.lean`).
-/
open TenpyModel.C19

namespace TenpyModel.C19

theorem forall₂_imp_mem {α β : Type} {R S : α → β → Prop} {as : List α} {bs : List β}
    (h : List.Forall₂ R as bs) (himp : ∀ a ∈ as, ∀ b, R a b → S a b) : List.Forall₂ S as bs := by
  induction h with
  | nil => exact List.Forall₂.nil
  | cons hab _ ih =>
    exact List.Forall₂.cons (himp _ (by simp) _ hab) (ih (fun a ha => himp a (List.mem_cons_of_mem _ ha)))

/-- **Admissible placement** of a multi-site term `ops = [(dx_m, u_m)]` at the base cell `b ∈ ℤ^D`
(any integer vector, not restricted to the lattice): every operator `m` lands on an existing site —
the image of the unwrapped position `b + dx_m` under the boundary conditions (`OpSpec`: `Target` +
the site exists) — and `raws` lists the MPS indices of these sites (for infinite MPS: of the copy
`k0` unit cells away). -/
def MultiPlacement (l : Lat) (ops : List (List Int × Nat)) (b raws : List Int) : Prop :=
  b.length = l.Ls.length ∧ List.Forall₂ (fun op raw => OpSpec l (vadd b op.1) op.2 raw) ops raws

end TenpyModel.C19

/-- **`possible_multi_couplings` is exact**: for every lattice (`CoupOK`: any dimension, sizes,
order, regular or irregular, finite or infinite MPS) whose shifted boundary, if any, comes with a
periodic `x`-direction (`NoShiftOpenX`; without it the statement is false of the code, known
finding), and every non-empty list of operators:

* a row of MPS indices is returned **iff** it is the (normalised: translated by whole MPS unit cells
  to `0 ≤ min < N` for infinite MPS) index tuple of an admissible placement at SOME base cell
  `b ∈ ℤ^D` — so the box `multi_coupling_shape` misses no placement, however far `b` is from it;
* no row is returned twice — the box contains exactly one representative of each placement. -/
theorem C19_multi_couplings_exact (l : Lat) (ok : CoupOK l) (hns : NoShiftOpenX l)
    (ops : List (List Int × Nat)) (hops : ∀ op ∈ ops, op.1.length = l.Ls.length ∧ op.2 < l.Lu)
    (hone : ops ≠ []) :
    (∀ mps : List Int, mps ∈ (possibleMultiCouplings l ops).rows.map (·.1) ↔
      ∃ b raws, MultiPlacement l ops b raws ∧ mps = normalizeRow l raws) ∧
    ((possibleMultiCouplings l ops).rows.map (·.1)).Nodup := by
  refine ⟨fun mps => ⟨?_, ?_⟩, multi_nodup l ok ops hops hone⟩
  · intro h
    obtain ⟨⟨mps', li⟩, hmem, rfl⟩ := List.mem_map.1 h
    obtain ⟨_, hin, raws, hf, hm⟩ := (C19_multi_couplings_exact_box l ok ops hops mps' li).1 hmem
    obtain ⟨hsl, hml⟩ := multiCouplingShape_lengths l (ops.map (·.1))
    have hlen : li.length = l.Ls.length := by rw [inGrid_length hin, List.length_map, hsl]
    refine ⟨vsub li (multiCouplingShape l (ops.map (·.1))).2, raws,
      ⟨by rw [vsub_length _ _ (by rw [hlen, hml])]; exact hlen, ?_⟩, hm⟩
    refine forall₂_imp_mem hf (fun op hop raw hr => ?_)
    rw [← vadd_vsub_comm li op.1 _ (by rw [hlen, (hops op hop).1]) (by rw [(hops op hop).1, hml])]
    exact hr
  · rintro ⟨b, raws, ⟨hb, hf⟩, rfl⟩
    obtain ⟨li, hli⟩ := multi_complete l ok hns ops hops hone b hb raws hf
    exact List.mem_map.2 ⟨_, hli, rfl⟩

/-- Non-vacuity: the plaquette term of `PropsMulti` on a 2x2 lattice with 3 sites per cell, periodic,
infinite MPS, reversed order.  The base cell `b = (5, -3)` lies far outside the box; its operators
land on the sites `2, 7, 3` of the unit cells `2, 3, 2` (raw indices `26, 43, 27`); the theorem says
that the normalised row `[2, 19, 3]` is returned (exactly once). -/
example :
    let order : List (List Int) := castRows ((cstyle [2, 2, 3]).reverse)
    let l := Lat.mk' [2, 2] 3 [false, false] none false order
    let ops : List (List Int × Nat) := [([0, 0], 0), ([1, 0], 1), ([0, 1], 2)]
    [2, 19, 3] ∈ (possibleMultiCouplings l ops).rows.map (·.1) ∧
      ((possibleMultiCouplings l ops).rows.map (·.1)).Nodup := by
  intro order l ops
  have hg : GridOrder ([2, 2] ++ [3]) order := gridOrder_of_perm (List.reverse_perm _)
  have ok : CoupOK l := coupOK_mk' [2, 2] 3 _ _ false order (by decide) (by decide) (by decide) hg rfl
  have hns : NoShiftOpenX l := fun _ => rfl
  obtain ⟨h1, h2⟩ := C19_multi_couplings_exact l ok hns ops (by decide) (by decide)
  refine ⟨(h1 _).2 ⟨[5, -3], [26, 43, 27], ⟨rfl, ?_⟩, by decide⟩, h2⟩
  refine List.Forall₂.cons ?_ (List.Forall₂.cons ?_ (List.Forall₂.cons ?_ List.Forall₂.nil))
  · refine ⟨[1, 1], 2, 2, ?_, ⟨2, rfl, by decide, by decide⟩, by decide⟩
    show Target l [5, -3] [1, 1] 2
    exact ⟨[-2], by simp [Wraps], by decide, by decide, by decide, by decide⟩
  · refine ⟨[0, 1], 3, 7, ?_, ⟨7, rfl, by decide, by decide⟩, by decide⟩
    show Target l [6, -3] [0, 1] 3
    exact ⟨[-2], by simp [Wraps], by decide, by decide, by decide, by decide⟩
  · refine ⟨[1, 0], 2, 3, ?_, ⟨3, rfl, by decide, by decide⟩, by decide⟩
    show Target l [5, -2] [1, 0] 2
    exact ⟨[-1], by simp [Wraps], by decide, by decide, by decide, by decide⟩


/-- **The hypothesis `NoShiftOpenX` of `C19_multi_couplings_exact` is needed** (known finding, corpus
case `shifted-bc-open-x-multi-missing`): `Square(2, 2, bc=['open', 1])`, operators at `dx = (0,0)` and
`(1,1)`: the placement with base cell `(1, 1)` is admissible (sites `3 = (1,1)` and `2 = (1,0)`: going
around `y` shifts `x` by `-1`), but no row `[3, 2]` is returned — the box has `x`-extent `2 - 1 = 1`. -/
theorem C19_multi_couplings_counterexample :
    let l := Lat.mk' [2, 2] 1 [true, false] (some [1]) true (castRows (cstyle [2, 2, 1]))
    let ops : List (List Int × Nat) := [([0, 0], 0), ([1, 1], 0)]
    MultiPlacement l ops [1, 1] [3, 2] ∧ [3, 2] ∉ (possibleMultiCouplings l ops).rows.map (·.1) := by
  intro l ops
  have hg : GridOrder ([2, 2] ++ [1]) (castRows (cstyle [2, 2, 1])) := gridOrder_of_perm (List.Perm.refl _)
  have ok : CoupOK l := coupOK_mk' [2, 2] 1 _ _ true _ (by decide) (by decide) (by decide) hg rfl
  constructor
  · refine ⟨rfl, List.Forall₂.cons ?_ (List.Forall₂.cons ?_ List.Forall₂.nil)⟩
    · refine ⟨[1, 1], 0, 3, ?_, ⟨3, rfl, by decide, by decide⟩, by decide⟩
      show Target l [1, 1] [1, 1] 0
      exact ⟨[0], by simp [Wraps], by decide, by decide, by decide, by decide⟩
    · refine ⟨[1, 0], 0, 2, ?_, ⟨2, rfl, by decide, by decide⟩, by decide⟩
      show Target l [2, 2] [1, 0] 0
      exact ⟨[1], by simp [Wraps], by decide, by decide, by decide, by decide⟩
  · intro hmem
    obtain ⟨⟨mps, li⟩, hrow, hmps⟩ := List.mem_map.1 hmem
    simp only at hmps
    subst hmps
    obtain ⟨_, hin, raws, hf, hm⟩ := (C19_multi_couplings_exact_box l ok ops (by decide) _ li).1 hrow
    have hcs : multiCouplingShape l (ops.map (·.1)) = ([1, 2], [0, 0]) := by decide
    rw [hcs] at hin hf
    have hf' : List.Forall₂ (fun (op : List Int × Nat) raw => OpSpec l (vadd li (vsub op.1 [0, 0])) op.2 raw)
        [([0, 0], 0), ([1, 1], 0)] raws := hf
    cases hf' with
    | @cons op raw ops' raws' hop htl =>
      have hfin : l.finite = true := rfl
      have hraw : raw = 3 := by
        have := congrArg (fun L => L.headD 0) hm
        simp [normalizeRow, hfin] at this
        exact this.symm
      subst hraw
      obtain ⟨y, k0, j0, ht, ⟨k, rfl, hk, hrowk⟩, hj⟩ := hop
      have hk3 : k = 3 := by
        simp only [hfin, if_true] at hj
        omega
      subst hk3
      match li, hin with
      | [a, b], hin =>
        obtain ⟨a0, a1, b0, b1, _⟩ := hin
        have ha : a = 0 := by omega
        subst ha
        have hy : y = [1, 1] := by
          have : l.order.getD 3 [] = [1, 1, 0] := by decide
          rw [this] at hrowk
          have h2 : y ++ [(0 : Int)] = [1, 1] ++ [0] := by simpa using hrowk.symm
          exact List.append_cancel_right h2
        subst hy
        have ht' : Target l [0, b] [1, 1] k0 := by simpa [vadd, vsub] using ht
        obtain ⟨ks, hw, h1, _, _, h4⟩ := ht'
        have hk0 : k0 = 0 := h4 rfl
        subst hk0
        match ks, hw with
        | [k1], hw =>
          obtain ⟨w1, _⟩ := hw
          have hsh : l.bcShift = some [1] := rfl
          rw [hsh] at h1
          simp only [dot, Option.getD_some] at h1
          omega

/-! ## `mps2lat_values` with `u` -/

/-- **`mps2lat_values(A, u=u)` places `A[n]` at the cell of the `n`-th site with unit-cell index
`u`** (1D array `A`): for every grid order, `mps_idx_fix_u(u)` has `prod(Ls)` entries, the result
has `prod(Ls)` entries, the entry at the C-order position of the cell `x` of site
`mps_idx_fix_u(u)[n]` is `A[n]`, these cells are pairwise different, and every cell of the lattice
is the cell of some `n` — each cell receives exactly one entry of `A`. -/
theorem C19_values_u {α : Type} (Ls : List Nat) (Lu : Nat) (bc : List Bool) (sh : Option (List Int))
    (fin : Bool) (order : List (List Int)) (hg : GridOrder (Ls ++ [Lu]) order)
    (A : List α) (u : Nat) (hu : u < Lu) :
    let l := Lat.mk' Ls Lu bc sh fin order
    let mps := mpsIdxFixU l (some u)
    let cell := fun n : Nat => (order.getD (mps.getD n 0).toNat []).dropLast
    mps.length = prodNat Ls ∧ (mps2latValues l A (some u)).length = prodNat Ls ∧
    (∀ n, n < prodNat Ls → InGrid Ls (cell n) ∧
      (mps2latValues l A (some u))[(flatC Ls (cell n)).toNat]? = some A[n]?) ∧
    (∀ n m, n < prodNat Ls → m < prodNat Ls → cell n = cell m → n = m) ∧
    (∀ x, InGrid Ls x → ∃ n, n < prodNat Ls ∧ cell n = x) := by
  intro l mps cell
  have hfix : mps = nonzeroU order u := by
    show ((List.range Lu).map (nonzeroU order)).getD u [] = nonzeroU order u
    rw [List.getD_eq_getElem?_getD]; simp [hu]
  obtain ⟨hnd, hiff, hlen⟩ := fixU_cells Ls Lu order hg u hu
  simp only [List.length_map] at hlen
  set N := prodNat Ls with hN
  set pos := mps.map (fun i => (flatC Ls (order.getD i.toNat []).dropLast).toNat) with hpos
  set vals : List (Option Int) := (List.range N).map (fun k => some (Int.ofNat k)) with hvals
  have hv : l.valsIdxFixU.getD u [] = scatter (List.replicate N none) pos vals := by
    show (((List.range Lu).map (nonzeroU order)).map _).getD u [] = _
    rw [List.getD_eq_getElem?_getD]
    simp only [List.getElem?_map, List.getElem?_range hu, Option.map_some, Option.getD_some]
    rw [hpos, hfix]
  have hmlen : mps.length = N := by rw [hfix]; exact hlen
  have hcelln : ∀ n, n < N → cell n ∈ (nonzeroU order u).map (fun i => (order.getD i.toNat []).dropLast) := by
    intro n hn
    have hn' : n < (nonzeroU order u).length := by omega
    refine List.mem_map.2 ⟨(nonzeroU order u)[n], List.getElem_mem hn', ?_⟩
    simp only [cell, hfix, getD_eq_getElem' _ _ hn']
  have hcellidx : ∀ n, (h : n < N) →
      ((nonzeroU order u).map (fun i => (order.getD i.toNat []).dropLast))[n]'(by simpa using (by omega : n < (nonzeroU order u).length)) = cell n := by
    intro n hn
    have hn' : n < (nonzeroU order u).length := by omega
    simp only [List.getElem_map, cell, hfix, getD_eq_getElem' _ _ hn']
  have hposnd : pos.Nodup := by
    have : pos = ((nonzeroU order u).map (fun i => (order.getD i.toNat []).dropLast)).map (fun x => (flatC Ls x).toNat) := by
      rw [hpos, hfix, List.map_map]; rfl
    rw [this]
    apply List.Nodup.map_on _ hnd
    intro r hr s hs h
    have hr' := (hiff r).1 hr
    have hs' := (hiff s).1 hs
    have b1 := cIndex_bounds Ls r hr'
    have b2 := cIndex_bounds Ls s hs'
    simp only [flatC_eq] at h
    exact cIndex_inj Ls r s hr' hs' (by omega)
  have hb : ∀ p ∈ pos, p < (List.replicate N (none : Option Int)).length := by
    intro p hp
    rw [hpos] at hp
    obtain ⟨i, hi, rfl⟩ := List.mem_map.1 hp
    have hc : (order.getD i.toNat []).dropLast ∈ (nonzeroU order u).map (fun i => (order.getD i.toNat []).dropLast) :=
      List.mem_map.2 ⟨i, hfix ▸ hi, rfl⟩
    have b1 := cIndex_bounds Ls _ ((hiff _).1 hc)
    simp only [flatC_eq, List.length_replicate]
    omega
  refine ⟨hmlen, by simp only [mps2latValues, List.length_map]; rw [hv, scatter_length]; simp, ?_, ?_, ?_⟩
  · intro n hn
    refine ⟨(hiff _).1 (hcelln n hn), ?_⟩
    have hn' : n < pos.length := by simp [hpos, hmlen, hn]
    have := scatter_getElem? (List.replicate N none) pos vals hposnd (by simp [hpos, hvals, hmlen]) hb n hn'
    have hposn : pos[n] = (flatC Ls (cell n)).toNat := by
      have hn'' : n < mps.length := by omega
      simp only [hpos, List.getElem_map, cell, getD_eq_getElem' _ _ hn'']
    rw [hposn] at this
    simp only [mps2latValues, hv, List.getElem?_map, this]
    simp [hvals, hn]
  · intro n m hn hm he
    have h1 := hcellidx n hn
    have h2 := hcellidx m hm
    rw [← h1, ← h2] at he
    exact (List.Nodup.getElem_inj_iff hnd).1 he
  · intro x hx
    obtain ⟨n, hn, e⟩ := List.mem_iff_getElem.1 ((hiff x).2 hx)
    have hn' : n < N := by simpa [hlen] using hn
    exact ⟨n, hn', by rw [← hcellidx n hn']; exact e⟩

/-- Non-vacuity: 2x2 cells with two sites per cell in a reversed order; the theorem places the four
entries of `A` for `u = 1`. -/
example :
    let order : List (List Int) := castRows ((cstyle [2, 2, 2]).reverse)
    let l := Lat.mk' [2, 2] 2 [false, false] none true order
    (mpsIdxFixU l (some 1)).length = 4 ∧ (mps2latValues l [10, 11, 12, 13] (some 1)).length = 4 := by
  intro order l
  have hg : GridOrder ([2, 2] ++ [2]) order := gridOrder_of_perm (List.reverse_perm _)
  have h := C19_values_u [2, 2] 2 [false, false] none true order hg [10, 11, 12, 13] 1 (by decide)
  exact ⟨h.1, h.2.1⟩

example :
    let order : List (List Int) := castRows ((cstyle [2, 2, 2]).reverse)
    mps2latValues (Lat.mk' [2, 2] 2 [false, false] none true order) [10, 11, 12, 13] (some 1)
      = [some 13, some 12, some 11, some 10] := by decide

/-! ## `mps2lat_values_masked` (after the committed fix of the result shape) -/

/-- **`mps2lat_values_masked(A, mps_inds, include_u=True)` puts every value at the coordinates of
its site** (repaired shape, fix 20bf1a0; any `LatOK` lattice: regular with any grid order, or
irregular; `mps_inds` pairwise different, any integers for infinite MPS, `0 ≤ i < N` for finite
MPS).  With `x_0` ranging over `[minX, maxX]` on the given sites the result has first dimension
`s0 = max(L_0, maxX + 1) + max(0, -minX)`; the call never raises; `A[n]` sits at the C-order position
of `mps2lat_idx(mps_inds[n])` (a negative `x_0` wrapped numpy-style by `+ s0`), which lies inside the
result shape; no two sites collide (the positions are pairwise different, used in the proof), and every
entry not hit is masked. -/
theorem C19_values_masked {α : Type} (l : Lat) (ok : LatOK l) (A : List α) (mpsInds : List Int)
    (hv : ∀ i ∈ mpsInds, ValidMps l i) (hnd : mpsInds.Nodup) (hlen : A.length = mpsInds.length) :
    let xs := (mpsInds.map (mps2latIdx l)).map (·.headD 0)
    let maxX := xs.foldl max (xs.headD 0)
    let minX := xs.foldl min (xs.headD 0)
    let s0 : Int := max (l.Ls.headD 0 : Int) (maxX + 1) + (if minX < 0 then -minX else 0)
    let shape := (s0.toNat :: l.Ls.tail) ++ [l.Lu]
    ∃ data, mps2latValuesMasked l A mpsInds true true = some (shape, data) ∧ data.length = prodNat shape ∧
      (∀ n (hn : n < mpsInds.length), InGrid shape (wrapRow s0 (mps2latIdx l mpsInds[n])) ∧
        data[(flatC shape (wrapRow s0 (mps2latIdx l mpsInds[n]))).toNat]? = (A[n]?).map some) ∧
      (∀ p, p < prodNat shape →
        (∀ n (hn : n < mpsInds.length), p ≠ (flatC shape (wrapRow s0 (mps2latIdx l mpsInds[n]))).toNat) →
        data[p]? = some none) :=
  masked_main l ok A mpsInds hv hnd hlen

/-- Non-vacuity and the reason for the fix: an infinite folded chain (`order = 0, 3, 1, 2`).  The
repaired function places both values; the shape computed from MPS-index arithmetic (as coded before
the fix) raises `IndexError` for `mps_inds = [1, 5]` and lets the two sites of `[-1, 1]` collide
(the value `10` is lost). -/
theorem C19_values_masked_unrepaired_counterexample :
    let l := Lat.mk' [4] 1 [false] none false [[0, 0], [3, 0], [1, 0], [2, 0]]
    mps2latValuesMasked l [10, 11] [1, 5] true true
      = some ([8, 1], [none, none, none, some 10, none, none, none, some 11]) ∧
    mps2latValuesMasked l [10, 11] [1, 5] true false = none ∧
    mps2latValuesMasked l [10, 11] [-1, 1] true false = some ([5, 1], [none, none, none, some 11, none]) ∧
    mps2latValuesMasked l [10, 11] [-1, 1] true true = some ([6, 1], [none, none, none, some 11, some 10, none]) := by
  decide

example :
    let l := Lat.mk' [4] 1 [false] none false [[0, 0], [3, 0], [1, 0], [2, 0]]
    ∃ data, mps2latValuesMasked l ([10, 11] : List Nat) [-1, 1] true true = some ([6, 1], data) ∧
      data[4]? = some (some 10) := by
  intro l
  have hg : GridOrder ([4] ++ [1]) [[0, 0], [3, 0], [1, 0], [2, 0]] := by unfold GridOrder; decide
  have ok : LatOK l := latOK_mk' [4] 1 _ _ false _ (by decide) (by decide) (by decide) hg
  obtain ⟨data, h1, _, h3, _⟩ := C19_values_masked l ok ([10, 11] : List Nat) [-1, 1]
    (fun i _ hf => by cases hf) (by decide) rfl
  exact ⟨data, h1, (h3 0 (by decide)).2⟩

/-! ## `HelicalLattice`: translation invariance -/

/-- **Translation invariance behind `HelicalLattice`.**  For the regular lattice that
`HelicalLattice.__init__` accepts (`HelicalReg`: 2D, `bc_MPS='infinite'`, periodic, `bc_shift = -1`,
an order passing the assertions of `_ordering_helical`; any `Lx, Ly`, any unit cell), the MPS index of
site `u` of the unwrapped cell `(X0, X1)` is the linear function `(X0 Ly + X1) Lu + w(u)`
(`HelicalReg.opSpec_linear`), hence the couplings of the infinite system (`InfCoupling`: all translates
by MPS unit cells of the admissible couplings, as in `C19_couplings_exact_infinite`) are invariant under
translation by ANY number `t` of lattice unit cells (`Lu` MPS sites each) along the helix. -/
theorem C19_helical_translation (l : Lat) (Lx Ly : Nat) (H : HelicalReg l Lx Ly) (u1 u2 : Nat) (d0 d1 : Int)
    (i j t : Int) (h : InfCoupling l u1 u2 [d0, d1] i j) :
    InfCoupling l u1 u2 [d0, d1] (i + t * l.Lu) (j + t * l.Lu) :=
  H.translate u1 u2 d0 d1 i j t h

/-- **`HelicalLattice.possible_couplings` is exact**: with `N_unit_cells = n ≤ Lx Ly` lattice cells
per MPS unit cell the listed pairs are exactly the couplings of the infinite system with
`0 ≤ min(i, j) < n Lu`; and every coupling of the infinite system has exactly one translate by whole
helical unit cells (`n Lu` sites) in that range — by `C19_helical_translation` that translate is a
coupling, so every orbit is listed exactly once. -/
theorem C19_helical_couplings_exact (l : Lat) (Lx Ly : Nat) (H : HelicalReg l Lx Ly) (n : Nat) (hn : 0 < n)
    (hnle : n ≤ Lx * Ly) (u1 u2 : Nat) (hu1 : u1 < l.Lu) (hu2 : u2 < l.Lu) (d0 d1 : Int) :
    (∀ i j : Int, (i, j) ∈ (((mkHelical l n).possibleCouplings u1 u2 [d0, d1]).rows.map (fun r => (r.1, r.2.1))) ↔
      InfCoupling l u1 u2 [d0, d1] i j ∧ 0 ≤ min i j ∧ min i j < ((n * l.Lu : Nat) : Int)) ∧
    (∀ i j : Int, InfCoupling l u1 u2 [d0, d1] i j → ∃ t : Int,
      (i + t * ((n * l.Lu : Nat) : Int), j + t * ((n * l.Lu : Nat) : Int)) ∈
        (((mkHelical l n).possibleCouplings u1 u2 [d0, d1]).rows.map (fun r => (r.1, r.2.1))) ∧
      ∀ t' : Int, (i + t' * ((n * l.Lu : Nat) : Int), j + t' * ((n * l.Lu : Nat) : Int)) ∈
        (((mkHelical l n).possibleCouplings u1 u2 [d0, d1]).rows.map (fun r => (r.1, r.2.1))) → t' = t) := by
  have hdx : ([d0, d1] : List Int).length = l.Ls.length := by rw [H.hLs]; rfl
  have hx : l.bc.headD false = false := by rw [H.hbc]; rfl
  have hLu := H.lu_pos
  have hNle : ((n * l.Lu : Nat) : Int) ≤ l.nSites := by
    rw [H.ok.toLatOK.sites, H.order_length]
    exact_mod_cast Nat.mul_le_mul_right _ hnle
  have hmem : ∀ i j : Int, (i, j) ∈ (((mkHelical l n).possibleCouplings u1 u2 [d0, d1]).rows.map (fun r => (r.1, r.2.1))) ↔
      InfCoupling l u1 u2 [d0, d1] i j ∧ 0 ≤ min i j ∧ min i j < ((n * l.Lu : Nat) : Int) := by
    intro i j
    constructor
    · intro h
      obtain ⟨r, hr, he⟩ := List.mem_map.1 h
      obtain ⟨h1, h2, h3⟩ := (C19_helical_couplings l H.ok H.hf n u1 u2 hu1 hu2 _ hdx r).1 hr
      have hp : (i, j) ∈ couplingPairs l u1 u2 [d0, d1] := List.mem_map.2 ⟨r, h1, he⟩
      obtain ⟨i0, j0, k0, m, ha, e1, e2, _, _⟩ :=
        (C19_couplings_exact_infinite l H.ok H.hf hx u1 u2 hu1 hu2 _ hdx i j).1 hp
      have hi : r.1 = i := congrArg Prod.fst he
      have hj : r.2.1 = j := congrArg Prod.snd he
      rw [hi, hj] at h2 h3
      exact ⟨⟨i0, j0, k0, m, ha, e1, e2⟩, h3, h2⟩
    · rintro ⟨⟨i0, j0, k0, m, ha, e1, e2⟩, h0, h1⟩
      have hp : (i, j) ∈ couplingPairs l u1 u2 [d0, d1] :=
        (C19_couplings_exact_infinite l H.ok H.hf hx u1 u2 hu1 hu2 _ hdx i j).2
          ⟨i0, j0, k0, m, ha, e1, e2, h0, by omega⟩
      obtain ⟨r, hr, he⟩ := List.mem_map.1 hp
      have hi : r.1 = i := congrArg Prod.fst he
      have hj : r.2.1 = j := congrArg Prod.snd he
      refine List.mem_map.2 ⟨r, (C19_helical_couplings l H.ok H.hf n u1 u2 hu1 hu2 _ hdx r).2 ⟨hr, ?_, ?_⟩, he⟩
      · rw [hi, hj]; exact h1
      · rw [hi, hj]; exact h0
  refine ⟨hmem, ?_⟩
  intro i j hij
  have hpos : (0 : Int) < ((n * l.Lu : Nat) : Int) := by
    have : 0 < n * l.Lu := Nat.mul_pos hn hLu
    exact_mod_cast this
  obtain ⟨t, ht, huniq⟩ := unique_cell_shift i j _ hpos
  refine ⟨t, (hmem _ _).2 ⟨?_, ht⟩, fun t' ht' => huniq t' ((hmem _ _).1 ht').2⟩
  have := C19_helical_translation l Lx Ly H u1 u2 d0 d1 i j (t * n) hij
  have e : t * (n : Int) * (l.Lu : Int) = t * ((n * l.Lu : Nat) : Int) := by push_cast; ring
  rwa [e] at this

/-- Non-vacuity: the 2x2 square lattice with `bc=['periodic', -1]`, C-style order, satisfies the
hypotheses; `(0, 1)` is a nearest-neighbour coupling along `y`; translated by one site it becomes
`(1, 2)` — the bond from `(0, 1)` around the cylinder to `(1, 0)`, which exists because of the shift. -/
example :
    let l := Lat.mk' [2, 2] 1 [false, false] (some [-1]) false (castRows (cstyle [2, 2, 1]))
    HelicalReg l 2 2 ∧ InfCoupling l 0 0 [0, 1] 0 1 ∧ InfCoupling l 0 0 [0, 1] 1 2 := by
  intro l
  have hg : GridOrder ([2, 2] ++ [1]) (castRows (cstyle [2, 2, 1])) := gridOrder_of_perm (List.Perm.refl _)
  have ok : CoupOK l := coupOK_mk' [2, 2] 1 _ _ false _ (by decide) (by decide) (by decide) hg rfl
  have H : HelicalReg l 2 2 := ⟨ok, rfl, rfl, rfl, rfl, by decide⟩
  have h01 : InfCoupling l 0 0 [0, 1] 0 1 := by
    refine ⟨0, 1, 0, 0, ⟨[0, 0], [0, 1], ⟨0, rfl, by decide, by decide⟩, ⟨1, rfl, by decide, by decide⟩, ?_⟩,
      by simp, by simp⟩
    show Target l [0, 1] [0, 1] 0
    exact ⟨[0], by simp [Wraps], by decide, by decide, by decide, by decide⟩
  have h12 := C19_helical_translation l 2 2 H 0 0 0 1 0 1 1 h01
  exact ⟨H, h01, h12⟩

/-! ## predefined neighbour lists over all of `ℤ^dim` -/
section PairsAll
open TenpyModel.C19.Pairs
open TenpyModel.Gen.C19Pairs

/-- **Chain**, all `dx ∈ ℤ`: `nearest / next_nearest / next_next_nearest_neighbors` are exactly the
1st / 2nd / 3rd smallest distances of the infinite chain (`PairsExact`: the listed couplings are
pairwise different modulo reversal, all have the `k`-th smallest distance `D` — `IsKthShell`:
`D` occurs and exactly `k` distinct occurring distances are smaller — and every `(u1, u2, dx)`,
`dx` arbitrary, at distance `D` is listed as itself or reversed). -/
theorem C19_pairs_Chain :
    PairsExact chain 0 "nearest_neighbors" ∧ PairsExact chain 1 "next_nearest_neighbors" ∧
    PairsExact chain 2 "next_next_nearest_neighbors" :=
  ⟨pairsExact_of_box _ 4 _ _ 9 C19_pairs_Chain_partial.1 (by decide +kernel) out_chain,
   pairsExact_of_box _ 4 _ _ 9 C19_pairs_Chain_partial.2.1 (by decide +kernel) out_chain,
   pairsExact_of_box _ 4 _ _ 9 C19_pairs_Chain_partial.2.2 (by decide +kernel) out_chain⟩

/-- **Ladder**, all `dx ∈ ℤ` (`diagonal` is the 2nd shell as well). -/
theorem C19_pairs_Ladder :
    PairsExact ladder 0 "nearest_neighbors" ∧ PairsExact ladder 1 "next_nearest_neighbors" ∧
    PairsExact ladder 2 "next_next_nearest_neighbors" ∧ PairsExact ladder 1 "diagonal" :=
  ⟨pairsExact_of_box _ 4 _ _ 4 C19_pairs_Ladder_partial.1 (by decide +kernel) out_ladder,
   pairsExact_of_box _ 4 _ _ 4 C19_pairs_Ladder_partial.2.1 (by decide +kernel) out_ladder,
   pairsExact_of_box _ 4 _ _ 4 C19_pairs_Ladder_partial.2.2.1 (by decide +kernel) out_ladder,
   pairsExact_of_box _ 4 _ _ 4 C19_pairs_Ladder_partial.2.2.2 (by decide +kernel) out_ladder⟩

/-- **Square**, all `dx ∈ ℤ²`. -/
theorem C19_pairs_Square :
    PairsExact square 0 "nearest_neighbors" ∧ PairsExact square 1 "next_nearest_neighbors" ∧
    PairsExact square 2 "next_next_nearest_neighbors" :=
  ⟨pairsExact_of_box _ 4 _ _ 4 C19_pairs_Square_partial.1 (by decide +kernel) out_square,
   pairsExact_of_box _ 4 _ _ 4 C19_pairs_Square_partial.2.1 (by decide +kernel) out_square,
   pairsExact_of_box _ 4 _ _ 4 C19_pairs_Square_partial.2.2 (by decide +kernel) out_square⟩

/-- **Triangular**, all `dx ∈ ℤ²`. -/
theorem C19_pairs_Triangular :
    PairsExact triangular 0 "nearest_neighbors" ∧ PairsExact triangular 1 "next_nearest_neighbors" ∧
    PairsExact triangular 2 "next_next_nearest_neighbors" :=
  ⟨pairsExact_of_box _ 4 _ _ 16 C19_pairs_Triangular_partial.1 (by decide +kernel) out_triangular,
   pairsExact_of_box _ 4 _ _ 16 C19_pairs_Triangular_partial.2.1 (by decide +kernel) out_triangular,
   pairsExact_of_box _ 4 _ _ 16 C19_pairs_Triangular_partial.2.2 (by decide +kernel) out_triangular⟩

/-- **Honeycomb**, all `dx ∈ ℤ²`: five shells. -/
theorem C19_pairs_Honeycomb :
    PairsExact honeycomb 0 "nearest_neighbors" ∧ PairsExact honeycomb 1 "next_nearest_neighbors" ∧
    PairsExact honeycomb 2 "next_next_nearest_neighbors" ∧
    PairsExact honeycomb 3 "fourth_nearest_neighbors" ∧ PairsExact honeycomb 4 "fifth_nearest_neighbors" :=
  ⟨pairsExact_of_box _ 4 _ _ 432 C19_pairs_Honeycomb_partial.1 (by decide +kernel) out_honeycomb,
   pairsExact_of_box _ 4 _ _ 432 C19_pairs_Honeycomb_partial.2.1 (by decide +kernel) out_honeycomb,
   pairsExact_of_box _ 4 _ _ 432 C19_pairs_Honeycomb_partial.2.2.1 (by decide +kernel) out_honeycomb,
   pairsExact_of_box _ 4 _ _ 432 C19_pairs_Honeycomb_partial.2.2.2.1 (by decide +kernel) out_honeycomb,
   pairsExact_of_box _ 4 _ _ 432 C19_pairs_Honeycomb_partial.2.2.2.2 (by decide +kernel) out_honeycomb⟩

/-- **Kagome**, all `dx ∈ ℤ²`. -/
theorem C19_pairs_Kagome :
    PairsExact kagome 0 "nearest_neighbors" ∧ PairsExact kagome 1 "next_nearest_neighbors" ∧
    PairsExact kagome 2 "next_next_nearest_neighbors" :=
  ⟨pairsExact_of_box _ 4 _ _ 16 C19_pairs_Kagome_partial.1 (by decide +kernel) out_kagome,
   pairsExact_of_box _ 4 _ _ 16 C19_pairs_Kagome_partial.2.1 (by decide +kernel) out_kagome,
   pairsExact_of_box _ 4 _ _ 16 C19_pairs_Kagome_partial.2.2 (by decide +kernel) out_kagome⟩

/-- Non-vacuity: `(0, 1, [7, -9])` is a coupling of the infinite Honeycomb lattice far outside the
box; it is not closer than the fifth shell; the fourth-neighbour distance is `7/3 = 336/144` and the
coupling `(1, 0, [2, 0])` (reverse of the listed `(0, 1, [-2, 0])`) at that distance is found. -/
example :
    Coup honeycomb (0, 1, [7, -9]) ∧ ¬ InBox 4 (0, 1, [7, -9]) ∧
    Z3.lt (sqDist honeycomb (0, 1, [7, -9])) ⟨432, 0⟩ = false ∧
    sqDist honeycomb (1, 0, [2, 0]) = ⟨336, 0⟩ ∧ Coup honeycomb (1, 0, [2, 0]) ∧
    canon (1, 0, [2, 0]) ∈ (lookup honeycomb "fourth_nearest_neighbors").map canon := by
  refine ⟨by decide, by decide, by decide +kernel, by decide +kernel, by decide, ?_⟩
  obtain ⟨D, ⟨⟨c, hc, hD⟩, _⟩, _, hs, hcompl⟩ := C19_pairs_Honeycomb.2.2.2.1
  have h1 := hs (0, 1, [0, 1]) (by decide +kernel)
  exact hcompl (1, 0, [2, 0]) (by decide) (by rw [← h1.2]; decide +kernel)

end PairsAll
