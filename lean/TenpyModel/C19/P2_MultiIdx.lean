import TenpyModel.C19.MultiProofs
/-! Index-based (`getD`) forms of the recursive predicates `InGrid`, `Wraps`, `Target`, and of the
vector operations, used for the completeness proof of `possible_multi_couplings`. -/
namespace TenpyModel.C19

theorem vadd_getD (a b : List Int) (h : a.length = b.length) (i : Nat) :
    (vadd a b).getD i 0 = a.getD i 0 + b.getD i 0 := by
  induction a generalizing b i with
  | nil => cases b <;> simp_all [vadd]
  | cons x xs ih =>
    cases b with
    | nil => simp at h
    | cons y ys =>
      cases i with
      | zero => simp [vadd]
      | succ i => simpa [vadd] using ih ys (by simpa using h) i

theorem vsub_getD (a b : List Int) (h : a.length = b.length) (i : Nat) :
    (vsub a b).getD i 0 = a.getD i 0 - b.getD i 0 := by
  induction a generalizing b i with
  | nil => cases b <;> simp_all [vsub]
  | cons x xs ih =>
    cases b with
    | nil => simp at h
    | cons y ys =>
      cases i with
      | zero => simp [vsub]
      | succ i => simpa [vsub] using ih ys (by simpa using h) i

theorem modShape_length (x : List Int) (Ls : List Nat) (h : x.length = Ls.length) :
    (modShape x Ls).length = Ls.length := by
  induction x generalizing Ls with
  | nil => cases Ls <;> simp_all [modShape]
  | cons a as ih =>
    cases Ls with
    | nil => simp at h
    | cons L Ls => simp [modShape, ih Ls (by simpa using h)]

theorem modShape_getD (x : List Int) (Ls : List Nat) (h : x.length = Ls.length) (i : Nat) :
    (modShape x Ls).getD i 0 = x.getD i 0 % (Ls.getD i 0 : Nat) := by
  induction x generalizing Ls i with
  | nil => cases Ls <;> simp_all [modShape]
  | cons a as ih =>
    cases Ls with
    | nil => simp at h
    | cons L Ls =>
      cases i with
      | zero => simp [modShape]
      | succ i => simpa [modShape] using ih Ls (by simpa using h) i

theorem wrapCount_length (a b : List Int) (Ls : List Nat) (h1 : a.length = Ls.length) (h2 : b.length = Ls.length) :
    (wrapCount a b Ls).length = Ls.length := by
  induction a generalizing b Ls with
  | nil => cases b <;> cases Ls <;> simp_all [wrapCount]
  | cons x xs ih =>
    cases b with
    | nil => cases Ls <;> simp_all
    | cons y ys =>
      cases Ls with
      | nil => simp at h1
      | cons L Ls => simp [wrapCount, ih ys Ls (by simpa using h1) (by simpa using h2)]

theorem wrapCount_getD (a b : List Int) (Ls : List Nat) (h1 : a.length = Ls.length) (h2 : b.length = Ls.length)
    (i : Nat) : (wrapCount a b Ls).getD i 0 = (a.getD i 0 - b.getD i 0) / (Ls.getD i 0 : Nat) := by
  induction a generalizing b Ls i with
  | nil => cases b <;> cases Ls <;> simp_all [wrapCount]
  | cons x xs ih =>
    cases b with
    | nil => cases Ls <;> simp_all
    | cons y ys =>
      cases Ls with
      | nil => simp at h1
      | cons L Ls =>
        cases i with
        | zero => simp [wrapCount]
        | succ i => simpa [wrapCount] using ih ys Ls (by simpa using h1) (by simpa using h2) i

theorem dot_vsub (a b c : List Int) (h : a.length = b.length) : dot (vsub a b) c = dot a c - dot b c := by
  induction a generalizing b c with
  | nil => cases b <;> simp_all [vsub, dot]
  | cons x xs ih =>
    cases b with
    | nil => simp at h
    | cons y ys =>
      cases c with
      | nil => simp [vsub, dot]
      | cons z zs =>
        simp only [vsub, dot, ih ys zs (by simpa using h)]
        rw [Int.sub_mul]; omega

theorem forall_lt_succ {P : Nat → Prop} (n : Nat) : (∀ a, a < n + 1 → P a) ↔ P 0 ∧ ∀ a, a < n → P (a + 1) := by
  constructor
  · intro h; exact ⟨h 0 (by omega), fun a ha => h (a + 1) (by omega)⟩
  · rintro ⟨h0, hs⟩ a ha
    cases a with
    | zero => exact h0
    | succ a => exact hs a (by omega)

theorem inGrid_iff_getD (Ls : List Nat) (x : List Int) :
    InGrid Ls x ↔ x.length = Ls.length ∧ ∀ a, a < Ls.length → 0 ≤ x.getD a 0 ∧ x.getD a 0 < (Ls.getD a 0 : Nat) := by
  induction Ls generalizing x with
  | nil => cases x <;> simp [InGrid]
  | cons L Ls ih =>
    cases x with
    | nil => simp [InGrid]
    | cons y ys =>
      simp only [InGrid, ih ys, List.length_cons, forall_lt_succ, List.getD_cons_zero, List.getD_cons_succ]
      constructor
      · rintro ⟨h1, h2, h3, h4⟩; exact ⟨by omega, ⟨h1, h2⟩, h4⟩
      · rintro ⟨h1, ⟨h2, h3⟩, h4⟩; exact ⟨h2, h3, by omega, h4⟩

theorem wraps_iff_getD (Lt : List Nat) (bt : List Bool) (Xt yt ks : List Int) :
    Wraps Lt bt Xt yt ks ↔
      bt.length = Lt.length ∧ Xt.length = Lt.length ∧ yt.length = Lt.length ∧ ks.length = Lt.length ∧
      ∀ a, a < Lt.length →
        Xt.getD a 0 = yt.getD a 0 + ks.getD a 0 * (Lt.getD a 0 : Nat) ∧ 0 ≤ yt.getD a 0 ∧
        yt.getD a 0 < (Lt.getD a 0 : Nat) ∧ (bt.getD a false = true → ks.getD a 0 = 0) := by
  induction Lt generalizing bt Xt yt ks with
  | nil =>
    cases bt <;> cases Xt <;> cases yt <;> cases ks <;> simp [Wraps]
  | cons L Lt ih =>
    match bt, Xt, yt, ks with
    | b :: bt, X :: Xt, y :: yt, k :: ks =>
      simp only [Wraps, ih, List.length_cons, forall_lt_succ, List.getD_cons_zero, List.getD_cons_succ]
      constructor
      · rintro ⟨h1, h2, h3, h4, h5, h6, h7, h8, h9⟩
        exact ⟨by omega, by omega, by omega, by omega, ⟨h1, h2, h3, h4⟩, h9⟩
      · rintro ⟨h1, h2, h3, h4, ⟨h5, h6, h7, h8⟩, h9⟩
        exact ⟨h5, h6, h7, h8, by omega, by omega, by omega, by omega, h9⟩
    | [], _, _, _ => simp [Wraps]
    | _ :: _, [], _, _ => simp [Wraps]
    | _ :: _, _ :: _, [], _ => simp [Wraps]
    | _ :: _, _ :: _, _ :: _, [] => simp [Wraps]

end TenpyModel.C19

namespace TenpyModel.C19

/-- `Target` with all components addressed by index -/
def TargetIdx (l : Lat) (X y : List Int) (k0 : Int) (ks : List Int) : Prop :=
  X.length = l.Ls.length ∧ y.length = l.Ls.length ∧ ks.length + 1 = l.Ls.length ∧
  (∀ a, a + 1 < l.Ls.length →
    X.getD (a + 1) 0 = y.getD (a + 1) 0 + ks.getD a 0 * (l.Ls.getD (a + 1) 0 : Nat) ∧ 0 ≤ y.getD (a + 1) 0 ∧
    y.getD (a + 1) 0 < (l.Ls.getD (a + 1) 0 : Nat) ∧ (l.bc.getD (a + 1) false = true → ks.getD a 0 = 0)) ∧
  X.getD 0 0 - dot ks (l.bcShift.getD []) = y.getD 0 0 + k0 * (l.Ls.getD 0 0 : Nat) ∧ 0 ≤ y.getD 0 0 ∧
  y.getD 0 0 < (l.Ls.getD 0 0 : Nat) ∧ (l.bc.getD 0 false = true → k0 = 0)

theorem target_iff_idx (l : Lat) (hne : l.Ls ≠ []) (hbc : l.bc.length = l.Ls.length) (X y : List Int) (k0 : Int) :
    Target l X y k0 ↔ ∃ ks, TargetIdx l X y k0 ks := by
  unfold Target TargetIdx
  match hLs : l.Ls, hb : l.bc, hne, hbc with
  | L0 :: Lt, b0 :: bt, _, hbc =>
    match X, y with
    | X0 :: Xt, y0 :: yt =>
      simp only [wraps_iff_getD, List.length_cons, List.getD_cons_zero, List.getD_cons_succ]
      constructor
      · rintro ⟨ks, ⟨h1, h2, h3, h4, h5⟩, h6, h7, h8, h9⟩
        exact ⟨ks, by omega, by omega, by omega, fun a ha => h5 a (by omega), h6, h7, h8, h9⟩
      · rintro ⟨ks, h1, h2, h3, h5, h6, h7, h8, h9⟩
        have hbl : bt.length = Lt.length := by simpa using hbc
        exact ⟨ks, ⟨hbl, by omega, by omega, by omega, fun a ha => h5 a (by omega)⟩, h6, h7, h8, h9⟩
    | [], _ => simp
    | _ :: _, [] => simp

end TenpyModel.C19

namespace TenpyModel.C19

theorem foldl_min_le_init (c : List Int) (i : Int) : c.foldl min i ≤ i ∧ ∀ x ∈ c, c.foldl min i ≤ x := by
  induction c generalizing i with
  | nil => simp
  | cons a as ih =>
    simp only [List.foldl_cons, List.mem_cons, forall_eq_or_imp]
    obtain ⟨h1, h2⟩ := ih (min i a)
    exact ⟨by omega, by omega, h2⟩

theorem foldl_min_mem (c : List Int) (i : Int) : c.foldl min i = i ∨ c.foldl min i ∈ c := by
  induction c generalizing i with
  | nil => simp
  | cons a as ih =>
    simp only [List.foldl_cons, List.mem_cons]
    rcases ih (min i a) with h | h
    · rw [h]; rcases Int.le_total i a with hia | hia
      · left; omega
      · right; left; omega
    · right; right; exact h

theorem foldl_max_ge_init (c : List Int) (i : Int) : i ≤ c.foldl max i ∧ ∀ x ∈ c, x ≤ c.foldl max i := by
  induction c generalizing i with
  | nil => simp
  | cons a as ih =>
    simp only [List.foldl_cons, List.mem_cons, forall_eq_or_imp]
    obtain ⟨h1, h2⟩ := ih (max i a)
    exact ⟨by omega, by omega, h2⟩

theorem foldl_max_mem (c : List Int) (i : Int) : c.foldl max i = i ∨ c.foldl max i ∈ c := by
  induction c generalizing i with
  | nil => simp
  | cons a as ih =>
    simp only [List.foldl_cons, List.mem_cons]
    rcases ih (max i a) with h | h
    · rw [h]; rcases Int.le_total i a with hia | hia
      · right; left; omega
      · left; omega
    · right; right; exact h

/-- minimum / maximum of the `a`-th components of the displacements -/
def colMin (dxs : List (List Int)) (a : Nat) : Int :=
  (dxs.map (·.getD a 0)).foldl min ((dxs.map (·.getD a 0)).headD 0)
def colMax (dxs : List (List Int)) (a : Nat) : Int :=
  (dxs.map (·.getD a 0)).foldl max ((dxs.map (·.getD a 0)).headD 0)

theorem colMin_spec (dxs : List (List Int)) (hne : dxs ≠ []) (a : Nat) :
    (∀ d ∈ dxs, colMin dxs a ≤ d.getD a 0) ∧ ∃ d ∈ dxs, d.getD a 0 = colMin dxs a := by
  unfold colMin
  cases dxs with
  | nil => exact absurd rfl hne
  | cons d0 ds =>
    constructor
    · intro d hd
      exact (foldl_min_le_init _ _).2 _ (List.mem_map.2 ⟨d, hd, rfl⟩)
    · rcases foldl_min_mem ((d0 :: ds).map (·.getD a 0)) (((d0 :: ds).map (·.getD a 0)).headD 0) with h | h
      · exact ⟨d0, by simp, by rw [h]; simp⟩
      · obtain ⟨d, hd, e⟩ := List.mem_map.1 h
        exact ⟨d, hd, e⟩

theorem colMax_spec (dxs : List (List Int)) (hne : dxs ≠ []) (a : Nat) :
    (∀ d ∈ dxs, d.getD a 0 ≤ colMax dxs a) ∧ ∃ d ∈ dxs, d.getD a 0 = colMax dxs a := by
  unfold colMax
  cases dxs with
  | nil => exact absurd rfl hne
  | cons d0 ds =>
    constructor
    · intro d hd
      exact (foldl_max_ge_init _ _).2 _ (List.mem_map.2 ⟨d, hd, rfl⟩)
    · rcases foldl_max_mem ((d0 :: ds).map (·.getD a 0)) (((d0 :: ds).map (·.getD a 0)).headD 0) with h | h
      · exact ⟨d0, by simp, by rw [h]; simp⟩
      · obtain ⟨d, hd, e⟩ := List.mem_map.1 h
        exact ⟨d, hd, e⟩

theorem mcs_mins_getD (l : Lat) (dxs : List (List Int)) (a : Nat) (ha : a < l.Ls.length) :
    (multiCouplingShape l dxs).2.getD a 0 = colMin dxs a := by
  simp [multiCouplingShape, colMin, List.getD_eq_getElem?_getD, ha]

theorem mcs_shape_getD (l : Lat) (dxs : List (List Int)) (a : Nat) (ha : a < l.Ls.length) :
    (multiCouplingShape l dxs).1.getD a 0 =
      (l.Ls.getD a 0 : Nat) - (colMax dxs a - colMin dxs a) * (if l.bc.getD a false then 1 else 0) := by
  simp [multiCouplingShape, colMin, colMax, List.getD_eq_getElem?_getD, ha]

end TenpyModel.C19
