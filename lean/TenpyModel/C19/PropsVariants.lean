import TenpyModel.C19.VariantProofs
import TenpyModel.C19.CouplingProofs
/-!
# C19 — derived lattices: property theorems

* `MultiSpeciesLattice`: the order derived from any order of the simple lattice is a permutation of
  the grid with `Lu * N_species` sites per cell; the lattice object is then a regular lattice, so
  all index-map and coupling theorems apply (`C19_multispecies_coupOK`).
* `enlarge_mps_unit_cell(factor)`: the repeated order is a grid order of the enlarged lattice
  `(Lx * factor, Ly, ..., Lu)`; the enlarged object is again well formed (`C19_enlarge_coupOK`).
* `IrregularLattice`: see `C19_irregular_roundtrip`, `C19_coupOK_irregular`.
* `HelicalLattice.possible_couplings` is by definition the sub-list `min(i, j) < N_sites` of the
  regular lattice's list (`C19_helical_couplings`); that the regular list is invariant under the
  shorter translation is checked by the harness oracle, not proved here.
-/
open TenpyModel.C19

/-- **MultiSpeciesLattice ordering** is a permutation of the multi-species grid. -/
theorem C19_multispecies_order_perm (Ls : List Nat) (Lu nsp : Nat) (o : List (List Nat))
    (ho : o.Perm (cstyle (Ls ++ [Lu]))) :
    (simpleOrderToSelfOrder nsp o).Perm (cstyle (Ls ++ [Lu * nsp])) :=
  simpleOrderToSelfOrder_perm Ls Lu nsp o ho

/-- The `MultiSpeciesLattice` object is a well-formed regular lattice. -/
theorem C19_multispecies_coupOK (Ls : List Nat) (Lu nsp : Nat) (bc : List Bool) (sh : Option (List Int))
    (fin : Bool) (o : List (List Nat)) (hne : Ls ≠ []) (hpos : ∀ L ∈ Ls, 0 < L) (hu : 0 < Lu) (hn : 0 < nsp)
    (ho : o.Perm (cstyle (Ls ++ [Lu]))) (hbc : bc.length = Ls.length) :
    CoupOK (mkMultiSpecies Ls Lu nsp bc sh fin o) :=
  coupOK_mk' Ls (Lu * nsp) bc sh fin _ hne hpos (Nat.mul_pos hu hn)
    (gridOrder_of_perm (simpleOrderToSelfOrder_perm Ls Lu nsp o ho)) hbc

/-- **`enlarge_mps_unit_cell`** keeps the lattice well formed: the new order lists every point of
the grid `(Lx * factor, ...)` exactly once. -/
theorem C19_enlarge_coupOK (L0 : Nat) (Lt : List Nat) (Lu : Nat) (bc : List Bool) (sh : Option (List Int))
    (fin : Bool) (order : List (List Int)) (f : Nat) (hpos : ∀ L ∈ L0 :: Lt, 0 < L) (hu : 0 < Lu) (hf : 0 < f)
    (hg : GridOrder (L0 :: Lt ++ [Lu]) order) (hbc : bc.length = (L0 :: Lt).length) :
    CoupOK (enlargeMpsUnitCell (Lat.mk' (L0 :: Lt) Lu bc sh fin order) f) := by
  have hg' := enlarge_gridOrder L0 (Lt ++ [Lu]) f order hg
  refine coupOK_mk' ((L0 * f) :: Lt) Lu bc sh fin _ (by simp) ?_ hu hg' (by simpa using hbc)
  intro L hL
  rcases List.mem_cons.1 hL with rfl | h
  · exact Nat.mul_pos (hpos L0 (by simp)) hf
  · exact hpos L (by simp [h])

/-- **`HelicalLattice.possible_couplings`** = the couplings of the regular lattice whose smaller MPS
index lies in the (shorter) helical unit cell; in particular `0 ≤ min(i, j) < N_sites`. -/
theorem C19_helical_couplings (reg : Lat) (ok : CoupOK reg) (hf : reg.finite = false) (n : Nat)
    (u1 u2 : Nat) (hu1 : u1 < reg.Lu) (hu2 : u2 < reg.Lu) (dx : List Int) (hdx : dx.length = reg.Ls.length)
    (r : Int × Int × List Int) :
    r ∈ ((mkHelical reg n).possibleCouplings u1 u2 dx).rows ↔
      r ∈ (possibleCouplings reg u1 u2 dx).rows ∧ min r.1 r.2.1 < ((mkHelical reg n).nSites : Int) ∧
        0 ≤ min r.1 r.2.1 := by
  simp only [Helical.possibleCouplings, List.mem_filter, decide_eq_true_eq]
  constructor
  · rintro ⟨h1, h2⟩
    refine ⟨h1, h2, ?_⟩
    have : (r.1, r.2.1) ∈ couplingPairs reg u1 u2 dx := List.mem_map.2 ⟨r, h1, rfl⟩
    exact (ok.pairs_min_range hf hu1 hu2 hdx _ this).1
  · rintro ⟨h1, h2, _⟩
    exact ⟨h1, h2⟩

/-- Non-vacuity: a Honeycomb-like 2x2 lattice with two species per site. -/
example : CoupOK (mkMultiSpecies [2, 2] 2 2 [false, true] none true (cstyle [2, 2, 2])) :=
  C19_multispecies_coupOK [2, 2] 2 2 _ none true _ (by decide) (by decide) (by decide) (by decide)
    (List.Perm.refl _) rfl
