import TenpyModel.C19.Lattice
/-
Executable model of `coupling_shape`, `possible_couplings`, `_keep_possible_couplings`,
`multi_coupling_shape`, `possible_multi_couplings`, `_keep_possible_multi_couplings`
(`Lattice` and the `IrregularLattice` overrides) of `tenpy/models/lattice.py` (import-free).
-/
namespace TenpyModel.C19

/-- numpy's `np.mod(a, b)` for any sign of `b` (result has the sign of `b`; `0` for `b = 0`). -/
def pymod (a b : Int) : Int :=
  if b = 0 then 0 else
    let r := a % b
    if b < 0 ∧ r ≠ 0 then r + b else r

def pymodV : List Int → List Int → List Int
  | a :: as, b :: bs => pymod a b :: pymodV as bs
  | _, _ => []

def vsub : List Int → List Int → List Int
  | a :: as, b :: bs => (a - b) :: vsub as bs
  | _, _ => []

/-- `[La - abs(dxa) * int(bca) for La, dxa, bca in zip(Ls, dx, bc)]` -/
def couplingShapeGo : List Nat → List Int → List Bool → List Int
  | L :: Ls, d :: ds, b :: bs =>
    ((L : Int) - (d.natAbs : Int) * (if b then 1 else 0)) :: couplingShapeGo Ls ds bs
  | _, _, _ => []

/-- `Lattice.coupling_shape(dx)` = `(shape, shift_lat_indices)` -/
def couplingShape (l : Lat) (dx : List Int) : List Int × List Int :=
  (couplingShapeGo l.Ls dx l.bc, dx.map (fun d => min 0 d))

/-- `(lat_j_shifted - lat_j) // Ls` -/
def wrapCount : List Int → List Int → List Nat → List Int
  | a :: as, b :: bs, L :: Ls => (a - b) / (L : Int) :: wrapCount as bs Ls
  | _, _, _ => []

def setHead : List Int → Int → List Int
  | [], _ => []
  | _ :: xs, v => v :: xs

/-- The boundary treatment shared by `possible_couplings` and `possible_multi_couplings`:
from `lat_j_shifted = lat_i + dx` compute `(lat_j_shifted, lat_j)` after wrapping (`np.mod`) and
after applying `bc_shift` to the first coordinate. -/
def shiftTarget (l : Lat) (xs : List Int) : List Int × List Int :=
  let xj := modShape xs l.Ls
  match l.bcShift with
  | none => (xs, xj)
  | some sh =>
    let shift := dot (wrapCount xs xj l.Ls).tail sh
    let xs' := addHead xs (-shift)
    (xs', setHead xj (xs'.headD 0 % (l.Ls.headD 1 : Int)))

/-- `np.all(np.logical_or(lat_j_shifted == lat_j, np.logical_not(self.bc)), axis=1)` -/
def keepBC : List Int → List Int → List Bool → Bool
  | a :: as, b :: bs, c :: cs => (a == b || !c) && keepBC as bs cs
  | _, _, _ => true

/-- `IrregularLattice`: `self._perm[sum(lat_j_u * strides)] != _REMOVED` -/
def siteExists (l : Lat) (xj : List Int) (u : Nat) : Bool :=
  l.perm.getD (dot (xj ++ [(u : Int)]) l.strides).toNat REMOVED != REMOVED

/-- `_keep_possible_couplings` (with the `IrregularLattice` override) for one row -/
def keepCoupling (l : Lat) (xj xs : List Int) (u2 : Nat) : Bool :=
  keepBC xs xj l.bc && (l.kind != .irregular || siteExists l xj u2)

/-- What `possible_couplings` computes for the site with MPS index `i` (of unit-cell index `u1`):
`none` if the row is filtered out, else `(mps_i, mps_j, lat_indices row)`. -/
def couplingAt (l : Lat) (u2 : Nat) (dx cshape shiftLat : List Int) (i : Int) :
    Option (Int × Int × List Int) :=
  let x := (l.order.getD i.toNat []).dropLast
  let t := shiftTarget l (vadd x dx)
  let xs := t.1
  let xj := t.2
  if keepCoupling l xj xs u2 then
    let latInd := pymodV (vadd x shiftLat) cshape
    let j := lat2mpsIdx l (xj ++ [(u2 : Int)])
    if l.finite then some (i, j, latInd)
    else
      let js := (xs.headD 0 - xj.headD 0) * (l.nSites : Int) / (l.nRings : Int)
      let s := if js < 0 then -js else 0
      some (i + s, j + js + s, latInd)
  else none

structure Couplings where
  rows : List (Int × Int × List Int)   -- `(mps_i, mps_j, lat_indices row)`
  shape : List Int
deriving Repr

/-- `Lattice.possible_couplings(u1, u2, dx)` (strength `None`) -/
def possibleCouplings (l : Lat) (u1 u2 : Nat) (dx : List Int) : Couplings :=
  let cs := couplingShape l dx
  if cs.1.any (· == 0) then ⟨[], cs.1⟩
  else ⟨(mpsIdxFixU l (some u1)).filterMap (couplingAt l u2 dx cs.1 cs.2), cs.1⟩

/-- the `(mps_i, mps_j)` pairs of `possible_couplings` -/
def couplingPairs (l : Lat) (u1 u2 : Nat) (dx : List Int) : List (Int × Int) :=
  (possibleCouplings l u1 u2 dx).rows.map (fun r => (r.1, r.2.1))

/-- `possible_couplings(u1, u2, dx, strength)` with `strength` an integer array of exactly the
coupling shape, given flattened in C order: `(mps_i, mps_j, strength_vals)` with zeros removed. -/
def possibleCouplingsStrength (l : Lat) (u1 u2 : Nat) (dx : List Int) (strength : List Int) :
    List (Int × Int × Int) :=
  let c := possibleCouplings l u1 u2 dx
  (c.rows.map (fun r => (r.1, r.2.1, strength.getD (flatC (c.shape.map Int.toNat) r.2.2).toNat 0))).filter
    (fun r => r.2.2 != 0)

/-- `Lattice.multi_coupling_shape(dx)` -/
def multiCouplingShape (l : Lat) (dxs : List (List Int)) : List Int × List Int :=
  let dims := List.range l.Ls.length
  let cols := dims.map (fun a => dxs.map (·.getD a 0))
  let mins := cols.map (fun c => c.foldl min (c.headD 0))
  let maxs := cols.map (fun c => c.foldl max (c.headD 0))
  (dims.map (fun a => (l.Ls.getD a 0 : Int)
      - (maxs.getD a 0 - mins.getD a 0) * (if l.bc.getD a false then 1 else 0)), mins)

/-- One row of `possible_multi_couplings`: the box at `lat_indices = li`. -/
def multiAt (l : Lat) (ops : List (List Int × Nat)) (shiftLat : List Int) (li : List Int) :
    Option (List Int) :=
  let ts := ops.map (fun op => (shiftTarget l (vadd li (vsub op.1 shiftLat)), op.2))
  if ts.all (fun t => keepCoupling l t.1.2 t.1.1 t.2) then
    let mps := ts.map (fun t =>
      lat2mpsIdx l (t.1.2 ++ [(t.2 : Int)]) +
        (if l.finite then 0
         else (t.1.1.headD 0 - t.1.2.headD 0) * (l.nSites : Int) / (l.nRings : Int)))
    if l.finite then some mps
    else
      let m := mps.foldl min (mps.headD 0)
      some (mps.map (· + (m % (l.nSites : Int) - m)))
  else none

structure MultiCouplings where
  rows : List (List Int × List Int)   -- `(mps_ijkl row, lat_indices row)`
  shape : List Int
  error : Bool                        -- `np.indices` raised (negative dimension)
deriving Repr

/-- `Lattice.possible_multi_couplings(ops)` (strength `None`); `ops = [(dx, u), ...]` -/
def possibleMultiCouplings (l : Lat) (ops : List (List Int × Nat)) : MultiCouplings :=
  let cs := multiCouplingShape l (ops.map (·.1))
  if cs.1.any (· == 0) then ⟨[], cs.1, false⟩
  else if cs.1.any (· < 0) then ⟨[], cs.1, true⟩
  else
    let latIndices := castRows (cstyle (cs.1.map Int.toNat))
    ⟨latIndices.filterMap (fun li => (multiAt l ops cs.2 li).map (fun m => (m, li))), cs.1, false⟩

end TenpyModel.C19
