import TenpyModel.C19.P2_MultiRep
import TenpyModel.C19.PropsMulti
/-! `possible_multi_couplings`: completeness and uniqueness of the representative. -/
namespace TenpyModel.C19

theorem vadd_vsub_comm (li d m : List Int) (h1 : li.length = d.length) (h2 : d.length = m.length) :
    vadd li (vsub d m) = vadd (vsub li m) d := by
  induction li generalizing d m with
  | nil => cases d <;> cases m <;> simp_all [vadd, vsub]
  | cons x xs ih =>
    cases d with
    | nil => simp at h1
    | cons y ys =>
      cases m with
      | nil => simp at h2
      | cons z zs =>
        simp only [vadd, vsub, ih ys zs (by simpa using h1) (by simpa using h2)]
        congr 1; omega

theorem foldl_min_shift (raws : List Int) (i c : Int) :
    (raws.map (· - c)).foldl min (i - c) = raws.foldl min i - c := by
  induction raws generalizing i with
  | nil => rfl
  | cons r rs ih =>
    simp only [List.map_cons, List.foldl_cons]
    have : min (i - c) (r - c) = min i r - c := by omega
    rw [this, ih]

/-- translating all raw indices by whole MPS unit cells does not change the normalised row -/
theorem normalizeRow_shift (l : Lat) (raws : List Int) (hne : raws ≠ []) (n0 : Int) :
    normalizeRow l (raws.map (· - (if l.finite then 0 else n0 * (l.nSites : Int)))) = normalizeRow l raws := by
  unfold normalizeRow
  cases hf : l.finite with
  | true => simp
  | false =>
    simp only [Bool.false_eq_true, if_false, List.map_map]
    have hh : (raws.map (· - n0 * (l.nSites : Int))).headD 0 = raws.headD 0 - n0 * (l.nSites : Int) := by
      cases raws with
      | nil => exact absurd rfl hne
      | cons r rs => simp
    rw [hh, foldl_min_shift]
    apply List.map_congr_left
    intro r _
    simp only [Function.comp]
    have : (raws.foldl min (raws.headD 0) - n0 * (l.nSites : Int)) % (l.nSites : Int) =
        raws.foldl min (raws.headD 0) % (l.nSites : Int) := by
      rw [Int.sub_eq_add_neg, ← Int.neg_mul, Int.add_mul_emod_self_right]
    rw [this]; omega

theorem opSpec_translate (l : Lat) (X X' : List Int) (u : Nat) (raw n0 : Int)
    (ht : ∀ y k0, Target l X y k0 → Target l X' y (k0 - n0)) (h : OpSpec l X u raw) :
    OpSpec l X' u (raw - (if l.finite then 0 else n0 * (l.nSites : Int))) := by
  obtain ⟨y, k0, j0, h1, h2, rfl⟩ := h
  refine ⟨y, k0 - n0, j0, ht y k0 h1, h2, ?_⟩
  cases l.finite
  · simp only [Bool.false_eq_true, if_false, Int.sub_mul]; omega
  · simp

theorem forall₂_opSpec_translate (l : Lat) (ops : List (List Int × Nat)) (raws : List Int) (n0 : Int)
    (f g : List Int → List Int)
    (ht : ∀ op ∈ ops, ∀ y k0, Target l (f op.1) y k0 → Target l (g op.1) y (k0 - n0))
    (h : List.Forall₂ (fun op raw => OpSpec l (f op.1) op.2 raw) ops raws) :
    List.Forall₂ (fun op raw => OpSpec l (g op.1) op.2 raw) ops
      (raws.map (· - (if l.finite then 0 else n0 * (l.nSites : Int)))) := by
  induction h with
  | nil => exact List.Forall₂.nil
  | @cons op raw ops' raws' hab _ ih =>
    refine List.Forall₂.cons ?_ (ih (fun o ho => ht o (List.mem_cons_of_mem _ ho)))
    exact opSpec_translate l _ _ _ _ _ (ht op (by simp)) hab


theorem forall₂_mem_left {α β : Type} {R : α → β → Prop} {as : List α} {bs : List β}
    (h : List.Forall₂ R as bs) {a : α} (ha : a ∈ as) : ∃ b, R a b := by
  induction h with
  | nil => cases ha
  | cons hab _ ih =>
    rcases List.mem_cons.1 ha with rfl | ha'
    · exact ⟨_, hab⟩
    · exact ih ha'

theorem forall₂_ne_nil {α β : Type} {R : α → β → Prop} {as : List α} {bs : List β}
    (h : List.Forall₂ R as bs) (hne : as ≠ []) : bs ≠ [] := by
  cases h with
  | nil => exact absurd rfl hne
  | cons _ _ => simp

/-- rows of `possible_multi_couplings` in terms of `multiAt` on the box (when the shape is positive) -/
theorem mem_multi_rows (l : Lat) (ops : List (List Int × Nat)) (mps li : List Int) :
    (mps, li) ∈ (possibleMultiCouplings l ops).rows →
      multiAt l ops (multiCouplingShape l (ops.map (·.1))).2 li = some mps := by
  unfold possibleMultiCouplings
  simp only
  split
  · simp
  · split
    · simp
    · simp only [List.mem_filterMap, Option.map_eq_some_iff, Prod.mk.injEq]
      rintro ⟨li', _, m, hm, rfl, rfl⟩
      exact hm

/-- **Completeness**: the row of every admissible placement `b ∈ ℤ^D` is returned. -/
theorem multi_complete (l : Lat) (ok : CoupOK l) (hns : NoShiftOpenX l) (ops : List (List Int × Nat))
    (hops : ∀ op ∈ ops, op.1.length = l.Ls.length ∧ op.2 < l.Lu) (hone : ops ≠ [])
    (b : List Int) (hb : b.length = l.Ls.length) (raws : List Int)
    (h : List.Forall₂ (fun op raw => OpSpec l (vadd b op.1) op.2 raw) ops raws) :
    ∃ li, (normalizeRow l raws, li) ∈ (possibleMultiCouplings l ops).rows := by
  have hdx : ∀ d ∈ ops.map (·.1), d.length = l.Ls.length := by
    intro d hd
    obtain ⟨op, hop, rfl⟩ := List.mem_map.1 hd
    exact (hops op hop).1
  have hadm : ∀ d ∈ ops.map (·.1), ∃ y k0, Target l (vadd b d) y k0 := by
    intro d hd
    obtain ⟨op, hop, rfl⟩ := List.mem_map.1 hd
    obtain ⟨raw, y, k0, j0, ht, _⟩ := forall₂_mem_left h hop
    exact ⟨y, k0, ht⟩
  obtain ⟨li, n0, hpos, hin, _, htr⟩ := exists_rep l ok.lsne ok.bclen ok.lpos hns (ops.map (·.1)) hdx
    (by simpa using hone) b hb hadm
  refine ⟨li, ?_⟩
  have h3 := (C19_multi_couplings_exact_box l ok ops hops
    (normalizeRow l (raws.map (· - (if l.finite then 0 else n0 * (l.nSites : Int))))) li).2
  generalize hcs : multiCouplingShape l (ops.map (·.1)) = cs at *
  have h2 : List.Forall₂ (fun op raw => OpSpec l (vadd li (vsub op.1 cs.2)) op.2 raw) ops
      (raws.map (· - (if l.finite then 0 else n0 * (l.nSites : Int)))) :=
    forall₂_opSpec_translate l ops raws n0 (fun d => vadd b d) (fun d => vadd li (vsub d cs.2))
      (fun op hop y k0 ht => htr op.1 (List.mem_map.2 ⟨op, hop, rfl⟩) y k0 ht) h
  have h4 := h3 ⟨hpos, hin, _, h2, rfl⟩
  rwa [normalizeRow_shift l raws (forall₂_ne_nil h hone) n0] at h4

end TenpyModel.C19
