import TenpyModel.C19.Order
/-
Executable model of `tenpy/models/lattice.py :: Lattice` (import-free): attributes set by `_set_Ls`
and by the `order` setter (`_perm`, `_strides`, `_mps2lat_vals_idx`, `_mps_fix_u`,
`_mps2lat_vals_idx_fix_u`), `mps2lat_idx`, `lat2mps_idx`, `mps_idx_fix_u`, `mps_lat_idx_fix_u`,
`mps2lat_values`, `mps2lat_values_masked`.

Lattice indices and MPS indices are `Int` (numpy `intp`); sizes are `Nat`.
`%` and `/` on `Int` are `Int.emod` / `Int.ediv`, which agree with numpy's `np.mod` and `//`
for positive divisors (all `Ls`, `N_sites`, `N_rings` are positive).
-/
namespace TenpyModel.C19

/-- `IrregularLattice._REMOVED` -/
def REMOVED : Int := -123456

def prodNat : List Nat → Nat
  | [] => 1
  | L :: Ls => L * prodNat Ls

/-- `strides = [1]; for L in Ls: strides.append(strides[-1] * L)` (started from `s`) -/
def stridesFrom (s : Int) : List Nat → List Int
  | [] => [s]
  | L :: Ls => s :: stridesFrom (s * L) Ls

/-- `np.sum(a * b, axis=-1)` -/
def dot : List Int → List Int → Int
  | a :: as, b :: bs => a * b + dot as bs
  | _, _ => 0

/-- `np.mod(idx, shape)` elementwise -/
def modShape : List Int → List Nat → List Int
  | x :: xs, L :: Ls => x % (L : Int) :: modShape xs Ls
  | _, _ => []

/-- `a + b` elementwise (numpy broadcasting of equal-length vectors) -/
def vadd : List Int → List Int → List Int
  | a :: as, b :: bs => (a + b) :: vadd as bs
  | _, _ => []

/-- `lat[..., 0] += d` -/
def addHead : List Int → Int → List Int
  | [], _ => []
  | x :: xs, d => (x + d) :: xs

/-- comparison of two rows as `np.lexsort(order.T)` does it: the last column is the primary key,
the first column the least significant one. `revLt r s` = "`r` sorts strictly before `s`". -/
def revLt : List Int → List Int → Bool
  | x :: xs, y :: ys => revLt xs ys || (xs == ys && decide (x < y))
  | _, _ => false

/-- `np.lexsort(order.T)` (stable) -/
def lexsortPerm (order : List (List Int)) : List Int :=
  ((List.range order.length).mergeSort
    (fun i j => !revLt (order.getD j []) (order.getD i []))).map Int.ofNat

/-- C-order (row-major) flat position of an index tuple in an array of the given shape -/
def flatC : List Nat → List Int → Int
  | shape, idx => go 0 shape idx
where
  go (acc : Int) : List Nat → List Int → Int
    | L :: Ls, x :: xs => go (acc * L + x) Ls xs
    | _, _ => acc

/-- `a[pos] = vals` on a 1D array `a = init` (later writes win) -/
def scatter {β : Type} (init : List β) (pos : List Nat) (vals : List β) : List β :=
  (pos.zip vals).foldl (fun acc pv => acc.set pv.1 pv.2) init

/-- `np.nonzero(order[:, -1] == u)[0]` -/
def nonzeroU (order : List (List Int)) (u : Nat) : List Int :=
  (order.zipIdx.filter (fun ri => ri.1.getLastD 0 == (u : Int))).map (fun ri => (ri.2 : Int))

inductive Kind where
  | regular | irregular | helical
deriving Repr, DecidableEq

/-- The attributes of a `Lattice` object that the index maps and coupling enumeration read. -/
structure Lat where
  Ls : List Nat
  Lu : Nat                      -- `len(self.unit_cell)`
  bc : List Bool                -- `True` = open, `False` = periodic (`bc_choices`)
  bcShift : Option (List Int)   -- `None` or shifts for directions 1..dim-1
  finite : Bool                 -- `bc_MPS == 'finite'` ('segment' and 'infinite' take the same branches)
  kind : Kind
  nSites : Nat
  nRings : Nat
  nCells : Nat
  strides : List Int
  order : List (List Int)
  perm : List Int
  mpsFixU : List (List Int)
  valsIdx : List (Option Int)             -- `_mps2lat_vals_idx`, flattened in C order
  valsIdxFixU : List (List (Option Int))  -- `_mps2lat_vals_idx_fix_u[u]`, flattened in C order
deriving Repr

def Lat.shape (l : Lat) : List Nat := l.Ls ++ [l.Lu]

def castRows (rows : List (List Nat)) : List (List Int) := rows.map (·.map Int.ofNat)

/-- `Lattice._set_Ls` followed by the `Lattice.order` setter (regular lattice). -/
def Lat.mk' (Ls : List Nat) (Lu : Nat) (bc : List Bool) (bcShift : Option (List Int)) (finite : Bool)
    (order : List (List Int)) : Lat :=
  let shape := Ls ++ [Lu]
  let nSites := prodNat shape
  let nCells := prodNat Ls
  let fixU := (List.range Lu).map (nonzeroU order)
  { Ls := Ls, Lu := Lu, bc := bc, bcShift := bcShift, finite := finite, kind := .regular,
    nSites := nSites, nRings := Ls.headD 0, nCells := nCells,
    strides := stridesFrom 1 Ls,
    order := order,
    perm := lexsortPerm order,
    mpsFixU := fixU,
    valsIdx := scatter (List.replicate nSites none) (order.map (fun r => (flatC shape r).toNat))
      ((List.range nSites).map (fun k => some (Int.ofNat k))),
    valsIdxFixU := fixU.map (fun mps =>
      scatter (List.replicate nCells none)
        (mps.map (fun i => (flatC Ls (order.getD i.toNat []).dropLast).toNat))
        ((List.range nCells).map (fun k => some (Int.ofNat k)))) }

/-- `Lattice.mps2lat_idx(i)` for a scalar `i`.  (For an index array the branch `np.any(i0 != i)`
is taken jointly, which gives the same rows since the shift is 0 where `i0 == i`.) -/
def mps2latIdx (l : Lat) (i : Int) : List Int :=
  if !l.finite then
    let i0 := i
    let i := i0 % (l.nSites : Int)
    if i0 != i then
      addHead (l.order.getD i.toNat []) ((i0 - i) * (l.nRings : Int) / (l.nSites : Int))
    else l.order.getD i.toNat []
  else l.order.getD i.toNat []

/-- `Lattice.lat2mps_idx(lat_idx)` for one lattice index. -/
def lat2mpsIdx (l : Lat) (idx : List Int) : Int :=
  let x0 := idx.headD 0
  let iShift := if l.finite then 0 else x0 - x0 % (l.nRings : Int)
  let idx' := if l.finite then idx else addHead idx (-iShift)
  let i := dot (modShape idx' l.shape) l.strides
  let i := l.perm.getD i.toNat 0
  if l.finite then i else i + iShift * (l.nSites : Int) / (l.nRings : Int)

/-- `Lattice.mps_idx_fix_u(u)`; `IrregularLattice` drops the removed entries of `_perm`. -/
def mpsIdxFixU (l : Lat) : Option Nat → List Int
  | some u => l.mpsFixU.getD u []
  | none => if l.kind == .irregular then l.perm.filter (· != REMOVED) else l.perm

/-- `Lattice.mps_lat_idx_fix_u(u)` -/
def mpsLatIdxFixU (l : Lat) (u : Option Nat) : List (Int × List Int) :=
  (mpsIdxFixU l u).map (fun i => (i, (l.order.getD i.toNat []).dropLast))

/-- `Lattice.mps2lat_values(A, axes=0, u)` for a 1D array `A`: the result flattened in C order.
`none` stands for an entry read through an unset (`np.empty`) index. -/
def mps2latValues {α : Type} (l : Lat) (A : List α) (u : Option Nat) : List (Option α) :=
  let idx := match u with
    | none => l.valsIdx
    | some u => l.valsIdxFixU.getD u []
  idx.map (fun o => o.bind (fun i => A[i.toNat]?))

/-- `Lattice.mps2lat_values_masked(A, axes=0, mps_inds, include_u)` for a 1D array `A`; the result
(shape, flattened C-order data with `none` = masked). Negative `x_0` wrap around numpy-style;
`none` = numpy raises `IndexError` (an `x_0` outside the enlarged shape, known finding). -/
def mps2latValuesMasked {α : Type} (l : Lat) (A : List α) (mpsInds : List Int) (includeU : Bool)
    (repaired : Bool := false) : Option (List Nat × List (Option α)) :=
  let latInds := mpsInds.map (mps2latIdx l)
  let maxI := mpsInds.foldl max (mpsInds.headD 0)
  let minI := mpsInds.foldl min (mpsInds.headD 0)
  let N : Int := l.nSites
  let R : Int := l.nRings
  let s0 : Int := (l.Ls.headD 0 : Int)
    + (if maxI ≥ N then (maxI - N) * R / N + 1 else 0)
    + (if minI < 0 then ((-minI) - 1) * R / N + 1 else 0)
  -- `repaired = true`: the shape proposed in pending_fixes/C19-masked-shape.diff (from the lattice
  -- indices themselves instead of from MPS-index arithmetic)
  let xs := latInds.map (·.headD 0)
  let maxX := xs.foldl max (xs.headD 0)
  let minX := xs.foldl min (xs.headD 0)
  let s0 : Int := if repaired then
      max (l.Ls.headD 0 : Int) (maxX + 1) + (if minX < 0 then -minX else 0)
    else s0
  let shape := (s0.toNat :: l.Ls.tail) ++ (if includeU then [l.Lu] else [])
  let latInds := if includeU then latInds else latInds.map (·.dropLast)
  if latInds.any (fun r => decide (r.headD 0 ≥ s0) || decide (r.headD 0 < -s0)) then none
  else
    let pos := latInds.map (fun r =>
      let r' := match r with
        | [] => []
        | x :: xs => (if x < 0 then x + s0 else x) :: xs
      (flatC shape r').toNat)
    some (shape, scatter (List.replicate (prodNat shape) none) pos (A.map some))

end TenpyModel.C19
