/-
Extension round, part C (import-free, executable): the boundary-condition argument of `Lattice.__init__`
(`tenpy/models/lattice.py`): `boundary_conditions` setter (`bc`, `bc_shift`), the `boundary_conditions` getter and the
`bc` checks of `test_sanity` (`Wrong len of bc`, open x-direction with an infinite / segment MPS).
The pair `(bc, bc_shift)` produced here is what `Lat.mk'` of the main model takes as input.
-/
namespace TenpyModel.C19.Ext

/-- one entry of the `bc` list: a string or an `int` (periodic with that shift) -/
inductive BCEntry where
  | str (s : String)
  | shift (n : Int)
deriving DecidableEq, Repr

/-- the `bc` argument: one string or a list/tuple of entries -/
inductive BCArg where
  | single (s : String)
  | list (l : List BCEntry)
deriving Repr

/-- `bc_choices = {'open': True, 'periodic': False}` -/
def bcChoice (s : String) : Option Bool :=
  if s == "open" then some true else if s == "periodic" then some false else none

/-- `self.bc` (`True` = open), `self.bc_shift` -/
structure BCState where
  bc : List Bool
  bcShift : Option (List Int)
deriving DecidableEq, Repr

/-- `for i, bc_i in enumerate(bc)` of the setter; `sh` is `self.bc_shift` (preallocated zeros).  `none`:
`ValueError` (shift in the first entry), `IndexError` (`bc_shift[i - 1]` outside), `KeyError` (unknown string). -/
def setLoop : Nat → List BCEntry → List Int → Option (List Bool × List Int)
  | _, [], sh => some ([], sh)
  | i, .shift n :: es, sh =>
    if i == 0 then none
    else if i - 1 < sh.length then
      (setLoop (i + 1) es (sh.set (i - 1) n)).map (fun r => (false :: r.1, r.2))
    else none
  | i, .str s :: es, sh =>
    match bcChoice s with
    | none => none
    | some b => (setLoop (i + 1) es sh).map (fun r => (b :: r.1, r.2))

/-- `boundary_conditions` setter -/
def bcSetter (dim : Nat) : BCArg → Option BCState
  | .single s =>
    match bcChoice s with
    | some b => some ⟨List.replicate dim b, none⟩
    | none => if s == "" then some ⟨[], none⟩ else none   -- `list(bc)` of a string: its characters are no keys
  | .list l =>
    match setLoop 0 l (List.replicate (dim - 1) 0) with
    | none => none
    | some r => some ⟨r.1, if r.2.any (fun x => x != 0) then some r.2 else none⟩

def nameOf (b : Bool) : BCEntry := .str (if b then "open" else "periodic")

/-- `for i, shift in enumerate(self.bc_shift): if shift != 0: assert bc[i + 1] == 'periodic'; bc[i + 1] = int(shift)`
on `bc[1:]`; `none` = the assertion (or an `IndexError`) -/
def getLoop : List Bool → List Int → Option (List BCEntry)
  | bs, [] => some (bs.map nameOf)
  | [], s :: ss => if s != 0 then none else getLoop [] ss
  | b :: bs, s :: ss =>
    if s != 0 then (if b then none else (getLoop bs ss).map (fun r => .shift s :: r))
    else (getLoop bs ss).map (fun r => nameOf b :: r)

/-- `boundary_conditions` getter -/
def bcGetter (st : BCState) : Option (List BCEntry) :=
  match st.bc, st.bcShift with
  | bc, none => some (bc.map nameOf)
  | [], some sh => getLoop [] sh
  | b :: bs, some sh => (getLoop bs sh).map (fun r => nameOf b :: r)

/-- setter + the `bc` checks of `test_sanity` at the end of `Lattice.__init__` -/
def initBC (dim : Nat) (arg : BCArg) (finiteMPS : Bool) : Option BCState :=
  match bcSetter dim arg with
  | none => none
  | some st =>
    if st.bc.length != dim then none                   -- 'Wrong len of bc'
    else if st.bc.headD false && !finiteMPS then none  -- open x-direction needs a finite MPS
    else some st

end TenpyModel.C19.Ext
