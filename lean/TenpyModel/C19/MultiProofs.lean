import TenpyModel.C19.CouplingProofs
/-! `possible_multi_couplings`: every enumerated box position is listed iff all its operators land on
existing sites under the boundary conditions. -/
namespace TenpyModel.C19

/-- One operator of a multi-coupling at unwrapped cell position `X` with unit-cell index `u`:
its site `j0 = (y, u)` exists, `y` is the image of `X`, and `raw` is the MPS index of that copy of
the site (`j0` for finite MPS, `j0 + k0 N` for infinite MPS). -/
def OpSpec (l : Lat) (X : List Int) (u : Nat) (raw : Int) : Prop :=
  ∃ (y : List Int) (k0 j0 : Int), Target l X y k0 ∧ SiteAt l j0 y u ∧
    raw = if l.finite then j0 else j0 + k0 * l.nSites

/-- what `multiAt` computes for one operator -/
def opRaw (l : Lat) (X : List Int) (u : Nat) : Int :=
  lat2mpsIdx l ((shiftTarget l X).2 ++ [(u : Int)]) +
    (if l.finite then 0
     else ((shiftTarget l X).1.headD 0 - (shiftTarget l X).2.headD 0) * (l.nSites : Int) / (l.nRings : Int))

namespace CoupOK
variable {l : Lat} (ok : CoupOK l)
include ok

theorem op_of_keep {X : List Int} {u : Nat} (hX : X.length = l.Ls.length) (hu : u < l.Lu)
    (hk : keepCoupling l (shiftTarget l X).2 (shiftTarget l X).1 u = true) : OpSpec l X u (opRaw l X u) := by
  simp only [keepCoupling, Bool.and_eq_true] at hk
  obtain ⟨hin, k0, htar, hhead⟩ := target_of_keep l X ok.lpos ok.lsne ok.bclen hX hk.1
  have hmem := (ok.exists_iff _ u hin hu).1 hk.2
  obtain ⟨k', hk', hrow', hsite'⟩ := ok.siteAt_of_mem hmem
  have hj := ok.lat2mps_site hsite'
  have hR : ((l.Ls.headD 0 : Nat) : Int) = l.nRings := by rw [ok.headD_eq]
  have hRpos := ok.toLatOK.rpos
  refine ⟨_, k0, k', htar, hsite', ?_⟩
  unfold opRaw
  rw [hj, hhead, hR]
  have : k0 * (l.nRings : Int) * (l.nSites : Int) / (l.nRings : Int) = k0 * l.nSites := by
    have : k0 * (l.nRings : Int) * (l.nSites : Int) = (l.nRings : Int) * (k0 * l.nSites) := by ring
    rw [this, Int.mul_ediv_cancel_left _ (by omega)]
  rw [this]
  cases l.finite <;> simp

theorem keep_of_op {X : List Int} {u : Nat} (hu : u < l.Lu) {raw : Int} (h : OpSpec l X u raw) :
    keepCoupling l (shiftTarget l X).2 (shiftTarget l X).1 u = true ∧ raw = opRaw l X u := by
  obtain ⟨y, k0, j0, htar, hsite, rfl⟩ := h
  obtain ⟨hy, hkeep, hhead⟩ := keep_of_target l X y k0 ok.lpos htar
  obtain ⟨hyin, _, _, hymem⟩ := ok.siteAt_inGrid hsite
  have hex := (ok.exists_iff y u hyin hu).2 hymem
  have hR : ((l.Ls.headD 0 : Nat) : Int) = l.nRings := by rw [ok.headD_eq]
  have hRpos := ok.toLatOK.rpos
  constructor
  · simp only [keepCoupling, Bool.and_eq_true]
    exact ⟨hkeep, by rw [hy]; exact hex⟩
  · unfold opRaw
    rw [hhead, hy, ok.lat2mps_site hsite, hR]
    have : k0 * (l.nRings : Int) * (l.nSites : Int) / (l.nRings : Int) = k0 * l.nSites := by
      have : k0 * (l.nRings : Int) * (l.nSites : Int) = (l.nRings : Int) * (k0 * l.nSites) := by ring
      rw [this, Int.mul_ediv_cancel_left _ (by omega)]
    rw [this]
    cases l.finite <;> simp

end CoupOK

/-- the translation applied to a row of raw MPS indices for non-finite MPS -/
def normalizeRow (l : Lat) (raws : List Int) : List Int :=
  if l.finite then raws
  else
    let m := raws.foldl min (raws.headD 0)
    raws.map (· + (m % (l.nSites : Int) - m))

theorem multiAt_eq (l : Lat) (ops : List (List Int × Nat)) (sl li : List Int) :
    multiAt l ops sl li =
      if ops.all (fun op => keepCoupling l (shiftTarget l (vadd li (vsub op.1 sl))).2
          (shiftTarget l (vadd li (vsub op.1 sl))).1 op.2)
      then some (normalizeRow l (ops.map (fun op => opRaw l (vadd li (vsub op.1 sl)) op.2)))
      else none := by
  unfold multiAt normalizeRow opRaw
  simp only [List.all_map, List.map_map, Function.comp_def]
  split
  · split <;> rfl
  · rfl

theorem vsub_length (a b : List Int) (h : a.length = b.length) : (vsub a b).length = a.length := by
  induction a generalizing b with
  | nil => cases b <;> simp [vsub]
  | cons x xs ih =>
    cases b with
    | nil => simp at h
    | cons y ys => simp [vsub, ih ys (by simpa using h)]

theorem multiCouplingShape_lengths (l : Lat) (dxs : List (List Int)) :
    (multiCouplingShape l dxs).1.length = l.Ls.length ∧ (multiCouplingShape l dxs).2.length = l.Ls.length := by
  simp [multiCouplingShape]

namespace CoupOK
variable {l : Lat} (ok : CoupOK l)
include ok

/-- one box position `li`: `multiAt` returns the row iff every operator satisfies its specification -/
theorem multiAt_spec (ops : List (List Int × Nat)) (sl li : List Int)
    (hops : ∀ op ∈ ops, op.1.length = l.Ls.length ∧ op.2 < l.Lu)
    (hsl : sl.length = l.Ls.length) (hli : li.length = l.Ls.length) (mps : List Int) :
    multiAt l ops sl li = some mps ↔
      ∃ raws : List Int, List.Forall₂ (fun op raw => OpSpec l (vadd li (vsub op.1 sl)) op.2 raw) ops raws ∧
        mps = normalizeRow l raws := by
  have hXlen : ∀ op ∈ ops, (vadd li (vsub op.1 sl)).length = l.Ls.length := by
    intro op hop
    rw [vadd_length _ _ (by rw [vsub_length _ _ (by rw [(hops op hop).1, hsl]), (hops op hop).1, hli]), hli]
  rw [multiAt_eq]
  constructor
  · intro h
    split at h
    · next hall =>
      rw [List.all_eq_true] at hall
      refine ⟨_, ?_, (Option.some.inj h).symm⟩
      rw [List.forall₂_map_right_iff]
      apply List.forall₂_same.2
      intro op hop
      exact ok.op_of_keep (hXlen op hop) (hops op hop).2 (hall op hop)
    · cases h
  · rintro ⟨raws, hf, rfl⟩
    have key : (∀ op ∈ ops, keepCoupling l (shiftTarget l (vadd li (vsub op.1 sl))).2
          (shiftTarget l (vadd li (vsub op.1 sl))).1 op.2 = true) ∧
        raws = ops.map (fun op => opRaw l (vadd li (vsub op.1 sl)) op.2) := by
      clear hXlen
      induction hf with
      | nil => simp
      | @cons op raw ops' raws' hab _ ih =>
        have h1 := ok.keep_of_op (hops op (by simp)).2 hab
        obtain ⟨i1, i2⟩ := ih (fun o ho => hops o (List.mem_cons_of_mem _ ho))
        refine ⟨?_, by simp only [List.map_cons]; rw [← i2, ← h1.2]⟩
        intro o ho
        rcases List.mem_cons.1 ho with rfl | ho'
        · exact h1.1
        · exact i1 o ho'
    have hall : ops.all (fun op => keepCoupling l (shiftTarget l (vadd li (vsub op.1 sl))).2
        (shiftTarget l (vadd li (vsub op.1 sl))).1 op.2) = true := by
      rw [List.all_eq_true]; exact key.1
    rw [if_pos hall, ← key.2]

end CoupOK

end TenpyModel.C19
