import TenpyModel.C19.P2_MultiIdx
/-! Completeness of the box of `possible_multi_couplings`: every admissible placement (any base
position `b ∈ ℤ^D`) has a representative `lat_indices` row inside `multi_coupling_shape`. -/
namespace TenpyModel.C19

theorem range_map_getD (n : Nat) (f : Nat → Int) (a : Nat) (ha : a < n) :
    ((List.range n).map f).getD a 0 = f a := by
  simp [List.getD_eq_getElem?_getD, ha]

/-- translation of the unwrapped position by a lattice period (no winding in open directions) -/
theorem targetIdx_translate (l : Lat) (X y : List Int) (k0 : Int) (ks : List Int) (h : TargetIdx l X y k0 ks)
    (nt : List Int) (n0 : Int) (hnt : nt.length + 1 = l.Ls.length)
    (hopen : ∀ a, a + 1 < l.Ls.length → l.bc.getD (a + 1) false = true → nt.getD a 0 = 0)
    (hopen0 : l.bc.getD 0 false = true → n0 = 0)
    (X' : List Int) (hX' : X'.length = l.Ls.length)
    (h0 : X'.getD 0 0 = X.getD 0 0 - dot nt (l.bcShift.getD []) - n0 * (l.Ls.getD 0 0 : Nat))
    (ht : ∀ a, a + 1 < l.Ls.length → X'.getD (a + 1) 0 = X.getD (a + 1) 0 - nt.getD a 0 * (l.Ls.getD (a + 1) 0 : Nat)) :
    TargetIdx l X' y (k0 - n0) (vsub ks nt) := by
  obtain ⟨h1, h2, h3, h4, h5, h6, h7, h8⟩ := h
  have hlen : ks.length = nt.length := by omega
  refine ⟨hX', h2, by rw [vsub_length _ _ hlen]; exact h3, ?_, ?_, h6, h7, ?_⟩
  · intro a ha
    obtain ⟨a1, a2, a3, a4⟩ := h4 a ha
    refine ⟨?_, a2, a3, ?_⟩
    · rw [ht a ha, vsub_getD _ _ hlen, a1, Int.sub_mul]; omega
    · intro hb
      rw [vsub_getD _ _ hlen, a4 hb, hopen a ha hb]; rfl
  · rw [h0, dot_vsub _ _ _ hlen, Int.sub_mul]; omega
  · intro hb
    rw [h8 hb, hopen0 hb]; rfl


theorem getD_mem_of_lt {α : Type} (l : List α) (d : α) (a : Nat) (h : a < l.length) : l.getD a d ∈ l := by
  rw [getD_eq_getElem' _ _ h]; exact List.getElem_mem h

theorem headD_eq_getD_zero {α : Type} (l : List α) (d : α) : l.headD d = l.getD 0 d := by
  cases l <;> rfl

/-- open direction: every operator of an admissible placement lies inside the lattice -/
theorem open_dir_range (l : Lat) (hns : NoShiftOpenX l) (X y : List Int) (k0 : Int) (ks : List Int)
    (h : TargetIdx l X y k0 ks) (a : Nat) (ha : a < l.Ls.length) (hb : l.bc.getD a false = true) :
    0 ≤ X.getD a 0 ∧ X.getD a 0 < (l.Ls.getD a 0 : Nat) := by
  obtain ⟨h1, h2, h3, h4, h5, h6, h7, h8⟩ := h
  cases a with
  | zero =>
    have hsh : l.bcShift = none := hns (by rw [headD_eq_getD_zero]; exact hb)
    rw [hsh] at h5
    simp only [Option.getD_none, dot_nil_right] at h5
    rw [h8 hb] at h5
    omega
  | succ a =>
    obtain ⟨a1, a2, a3, a4⟩ := h4 a ha
    rw [a4 hb] at a1
    omega

/-- **Existence of the representative**: for an admissible base position `b` there is a row `li`
of the box such that every operator hits the same site from `li` as from `b` (with the winding
along `x` changed by the same `n0` for all operators). -/
theorem exists_rep (l : Lat) (hne : l.Ls ≠ []) (hbc : l.bc.length = l.Ls.length) (hpos : ∀ L ∈ l.Ls, 0 < L)
    (hns : NoShiftOpenX l) (dxs : List (List Int)) (hdx : ∀ d ∈ dxs, d.length = l.Ls.length) (hdne : dxs ≠ [])
    (b : List Int) (hb : b.length = l.Ls.length)
    (hadm : ∀ d ∈ dxs, ∃ y k0, Target l (vadd b d) y k0) :
    ∃ (li : List Int) (n0 : Int),
      (∀ c ∈ (multiCouplingShape l dxs).1, 0 < c) ∧
      InGrid ((multiCouplingShape l dxs).1.map Int.toNat) li ∧
      (l.bc.getD 0 false = true → n0 = 0) ∧
      ∀ d ∈ dxs, ∀ y k0, Target l (vadd b d) y k0 →
        Target l (vadd li (vsub d (multiCouplingShape l dxs).2)) y (k0 - n0) := by
  have hD : 0 < l.Ls.length := List.length_pos_iff.2 hne
  obtain ⟨hsl, hml⟩ := multiCouplingShape_lengths l dxs
  generalize hsh : (multiCouplingShape l dxs).1 = shape at *
  generalize hmi : (multiCouplingShape l dxs).2 = mins at *
  have hminsD : ∀ a, a < l.Ls.length → mins.getD a 0 = colMin dxs a := by
    intro a ha; rw [← hmi]; exact mcs_mins_getD l dxs a ha
  have hshapeD : ∀ a, a < l.Ls.length → shape.getD a 0 =
      (l.Ls.getD a 0 : Nat) - (colMax dxs a - colMin dxs a) * (if l.bc.getD a false then 1 else 0) := by
    intro a ha; rw [← hsh]; exact mcs_shape_getD l dxs a ha
  have hLpos : ∀ a, a < l.Ls.length → (0 : Int) < (l.Ls.getD a 0 : Nat) := by
    intro a ha
    have := hpos _ (getD_mem_of_lt l.Ls 0 a ha)
    omega
  -- the corner `z = b + mins`
  let z : Nat → Int := fun a => b.getD a 0 + mins.getD a 0
  -- open directions: the corner and the opposite corner lie inside
  have hopenz : ∀ a, a < l.Ls.length → l.bc.getD a false = true →
      0 ≤ z a ∧ z a + (colMax dxs a - colMin dxs a) < (l.Ls.getD a 0 : Nat) := by
    intro a ha hba
    obtain ⟨dmin, hdmin, emin⟩ := (colMin_spec dxs hdne a).2
    obtain ⟨dmax, hdmax, emax⟩ := (colMax_spec dxs hdne a).2
    obtain ⟨y1, k1, t1⟩ := hadm dmin hdmin
    obtain ⟨y2, k2, t2⟩ := hadm dmax hdmax
    obtain ⟨ks1, i1⟩ := (target_iff_idx l hne hbc _ _ _).1 t1
    obtain ⟨ks2, i2⟩ := (target_iff_idx l hne hbc _ _ _).1 t2
    have r1 := open_dir_range l hns _ _ _ _ i1 a ha hba
    have r2 := open_dir_range l hns _ _ _ _ i2 a ha hba
    rw [vadd_getD _ _ (by rw [hb, hdx dmin hdmin])] at r1
    rw [vadd_getD _ _ (by rw [hb, hdx dmax hdmax])] at r2
    simp only [z, hminsD a ha]
    omega
  let nt : List Int := (List.range (l.Ls.length - 1)).map (fun a => z (a + 1) / ((l.Ls.getD (a + 1) 0 : Nat) : Int))
  let lit : List Int := (List.range (l.Ls.length - 1)).map (fun a => z (a + 1) % ((l.Ls.getD (a + 1) 0 : Nat) : Int))
  let S : Int := dot nt (l.bcShift.getD [])
  let n0 : Int := (z 0 - S) / ((l.Ls.getD 0 0 : Nat) : Int)
  let li : List Int := ((z 0 - S) % ((l.Ls.getD 0 0 : Nat) : Int)) :: lit
  have hntlen : nt.length + 1 = l.Ls.length := by simp [nt]; omega
  have hlilen : li.length = l.Ls.length := by simp [li, lit]; omega
  have hntD : ∀ a, a + 1 < l.Ls.length → nt.getD a 0 = z (a + 1) / ((l.Ls.getD (a + 1) 0 : Nat) : Int) := by
    intro a ha; exact range_map_getD _ _ a (by omega)
  have hliD : ∀ a, a + 1 < l.Ls.length → li.getD (a + 1) 0 = z (a + 1) % ((l.Ls.getD (a + 1) 0 : Nat) : Int) := by
    intro a ha
    show lit.getD a 0 = _
    exact range_map_getD _ _ a (by omega)
  have hli0 : li.getD 0 0 = (z 0 - S) % ((l.Ls.getD 0 0 : Nat) : Int) := rfl
  have hS0 : l.bc.getD 0 false = true → S = 0 := by
    intro hb0
    have hshn : l.bcShift = none := hns (by rw [headD_eq_getD_zero]; exact hb0)
    simp only [S, hshn, Option.getD_none, dot_nil_right]
  have hopen : ∀ a, a + 1 < l.Ls.length → l.bc.getD (a + 1) false = true → nt.getD a 0 = 0 := by
    intro a ha hba
    rw [hntD a ha]
    obtain ⟨z0, z1⟩ := hopenz (a + 1) ha hba
    have := (colMax_spec dxs hdne (a + 1)).1
    obtain ⟨dmin, hdmin, emin⟩ := (colMin_spec dxs hdne (a + 1)).2
    have := this dmin hdmin
    exact Int.ediv_eq_zero_of_lt z0 (by omega)
  have hopen0 : l.bc.getD 0 false = true → n0 = 0 := by
    intro hb0
    obtain ⟨z0, z1⟩ := hopenz 0 hD hb0
    have := (colMax_spec dxs hdne 0).1
    obtain ⟨dmin, hdmin, emin⟩ := (colMin_spec dxs hdne 0).2
    have := this dmin hdmin
    simp only [n0, hS0 hb0, Int.sub_zero]
    exact Int.ediv_eq_zero_of_lt z0 (by omega)
  have hspos : ∀ a, a < l.Ls.length → 0 < shape.getD a 0 := by
    intro a ha
    rw [hshapeD a ha]
    have hL := hLpos a ha
    cases hba : l.bc.getD a false with
    | false => simp only [Bool.false_eq_true, if_false, Int.mul_zero, Int.sub_zero]; exact hL
    | true =>
      obtain ⟨z0, z1⟩ := hopenz a ha hba
      simp only [if_true, Int.mul_one]; omega
  refine ⟨li, n0, ?_, ?_, hopen0, ?_⟩
  · intro c hc
    obtain ⟨a, ha, rfl⟩ := List.mem_iff_getElem.1 hc
    have := hspos a (by omega)
    rwa [getD_eq_getElem' _ _ ha] at this
  · rw [inGrid_iff_getD]
    refine ⟨by rw [hlilen, List.length_map, hsl], ?_⟩
    intro a ha
    rw [List.length_map, hsl] at ha
    have hcast : (((shape.map Int.toNat).getD a 0 : Nat) : Int) = shape.getD a 0 := by
      have h1 : (shape.map Int.toNat).getD a 0 = (shape.getD a 0).toNat := by
        rw [List.getD_eq_getElem?_getD, List.getD_eq_getElem?_getD, List.getElem?_map]
        cases shape[a]? <;> simp
      rw [h1]
      have := hspos a ha
      omega
    rw [hcast, hshapeD a ha]
    have hL := hLpos a ha
    cases a with
    | zero =>
      rw [hli0]
      cases hba : l.bc.getD 0 false with
      | false =>
        simp only [Bool.false_eq_true, if_false, Int.mul_zero, Int.sub_zero]
        exact ⟨Int.emod_nonneg _ (by omega), Int.emod_lt_of_pos _ hL⟩
      | true =>
        obtain ⟨z0, z1⟩ := hopenz 0 ha hba
        have := (colMax_spec dxs hdne 0).1
        obtain ⟨dmin, hdmin, emin⟩ := (colMin_spec dxs hdne 0).2
        have := this dmin hdmin
        rw [hS0 hba, Int.sub_zero, Int.emod_eq_of_lt z0 (by omega)]
        simp only [if_true, Int.mul_one]; omega
    | succ a =>
      rw [hliD a ha]
      cases hba : l.bc.getD (a + 1) false with
      | false =>
        simp only [Bool.false_eq_true, if_false, Int.mul_zero, Int.sub_zero]
        exact ⟨Int.emod_nonneg _ (by omega), Int.emod_lt_of_pos _ hL⟩
      | true =>
        obtain ⟨z0, z1⟩ := hopenz (a + 1) ha hba
        have := (colMax_spec dxs hdne (a + 1)).1
        obtain ⟨dmin, hdmin, emin⟩ := (colMin_spec dxs hdne (a + 1)).2
        have := this dmin hdmin
        rw [Int.emod_eq_of_lt z0 (by omega)]
        simp only [if_true, Int.mul_one]; omega
  · intro d hd y k0 ht
    obtain ⟨ks, hi⟩ := (target_iff_idx l hne hbc _ _ _).1 ht
    refine (target_iff_idx l hne hbc _ _ _).2 ⟨vsub ks nt, ?_⟩
    have hdl := hdx d hd
    have hvl : (vsub d mins).length = l.Ls.length := by rw [vsub_length _ _ (by rw [hdl, hml])]; exact hdl
    apply targetIdx_translate l _ y k0 ks hi nt n0 hntlen hopen hopen0
    · rw [vadd_length _ _ (by rw [hlilen, hvl])]; exact hlilen
    · rw [vadd_getD _ _ (by rw [hlilen, hvl]), vsub_getD _ _ (by rw [hdl, hml]), vadd_getD _ _ (by rw [hb, hdl]), hli0]
      have := Int.emod_def (z 0 - S) ((l.Ls.getD 0 0 : Nat) : Int)
      have e : n0 * ((l.Ls.getD 0 0 : Nat) : Int) = ((l.Ls.getD 0 0 : Nat) : Int) * ((z 0 - S) / ((l.Ls.getD 0 0 : Nat) : Int)) := by
        simp only [n0]; rw [Int.mul_comm]
      rw [e, this]
      simp only [z, S]; omega
    · intro a ha
      rw [vadd_getD _ _ (by rw [hlilen, hvl]), vsub_getD _ _ (by rw [hdl, hml]), vadd_getD _ _ (by rw [hb, hdl]),
        hliD a ha, hntD a ha]
      have := Int.emod_def (z (a + 1)) ((l.Ls.getD (a + 1) 0 : Nat) : Int)
      rw [Int.mul_comm (z (a + 1) / _), this]
      simp only [z]; omega

end TenpyModel.C19
