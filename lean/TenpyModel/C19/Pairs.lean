/-
Model of the geometry behind the predefined `pairs` of the lattice classes (import-free):
`Lattice.position`/`distance` for regular lattices in exact arithmetic over `ℤ[√3]` (all entries
scaled by a common denominator `den`), candidates `(u1, u2, dx)` in a box, the distinct squared
distances in ascending order, and the canonical representative modulo `(u1,u2,dx) ~ (u2,u1,-dx)`.
The tables themselves are generated from the source (`TenpyModel/Gen/C19Pairs.lean`).
-/
namespace TenpyModel.C19.Pairs

/-- `a + b√3` with integer `a`, `b` -/
structure Z3 where
  a : Int
  b : Int
deriving DecidableEq, Repr

namespace Z3
def zero : Z3 := ⟨0, 0⟩
def add (x y : Z3) : Z3 := ⟨x.a + y.a, x.b + y.b⟩
def sub (x y : Z3) : Z3 := ⟨x.a - y.a, x.b - y.b⟩
def mul (x y : Z3) : Z3 := ⟨x.a * y.a + 3 * x.b * y.b, x.a * y.b + x.b * y.a⟩
def smul (n : Int) (x : Z3) : Z3 := ⟨n * x.a, n * x.b⟩
/-- `0 < a + b√3` decided in integers -/
def pos (x : Z3) : Bool :=
  (decide (0 ≤ x.a) && decide (0 ≤ x.b) && (x.a != 0 || x.b != 0))
  || (decide (0 ≤ x.a) && decide (x.b < 0) && decide (3 * x.b * x.b < x.a * x.a))
  || (decide (x.a < 0) && decide (0 < x.b) && decide (x.a * x.a < 3 * x.b * x.b))
def lt (x y : Z3) : Bool := (y.sub x).pos
end Z3

structure Table where
  dim : Nat
  den : Int
  basis : List (List Z3)
  pos : List (List Z3)
  pairs : List (String × List (Nat × Nat × List Int))
deriving Repr

abbrev Coupling := Nat × Nat × List Int

def vaddZ : List Z3 → List Z3 → List Z3
  | x :: xs, y :: ys => x.add y :: vaddZ xs ys
  | _, _ => []

def vsubZ : List Z3 → List Z3 → List Z3
  | x :: xs, y :: ys => x.sub y :: vsubZ xs ys
  | _, _ => []

/-- `sum_a dx[a] * basis[a]` started from `acc` -/
def addBasis (acc : List Z3) : List Int → List (List Z3) → List Z3
  | d :: ds, b :: bs => addBasis (vaddZ acc (b.map (Z3.smul d))) ds bs
  | _, _ => acc

/-- `den² · |pos[u2] - pos[u1] + Σ_a dx_a basis_a|²` (`Lattice.distance` squared) -/
def sqDist (t : Table) (c : Coupling) : Z3 :=
  let v := addBasis (vsubZ (t.pos.getD c.2.1 []) (t.pos.getD c.1 [])) c.2.2 t.basis
  v.foldl (fun s x => s.add (x.mul x)) Z3.zero

/-- all `dx` with `|dx_a| ≤ B` -/
def dxBox (B : Nat) : Nat → List (List Int)
  | 0 => [[]]
  | d + 1 => ((List.range (2 * B + 1)).map (fun (k : Nat) => Int.ofNat k - Int.ofNat B)).flatMap
      (fun x => (dxBox B d).map (x :: ·))

/-- every `(u1, u2, dx)` in the box except the trivial `u1 = u2, dx = 0` -/
def candidates (t : Table) (B : Nat) : List Coupling :=
  let us := List.range t.pos.length
  (us.flatMap (fun u1 => us.flatMap (fun u2 => (dxBox B t.dim).map (fun dx => (u1, u2, dx))))).filter
    (fun c => !(c.1 == c.2.1 && c.2.2.all (· == 0)))

def insertDistinct (x : Z3) : List Z3 → List Z3
  | [] => [x]
  | y :: ys => if x == y then y :: ys else if x.lt y then x :: y :: ys else y :: insertDistinct x ys

/-- the distinct values in ascending order -/
def distinctSorted : List Z3 → List Z3
  | [] => []
  | x :: xs => insertDistinct x (distinctSorted xs)

def negV (dx : List Int) : List Int := dx.map (fun d => -d)

def keyOf (c : Coupling) : List Int := (c.1 : Int) :: (c.2.1 : Int) :: c.2.2

def lexLe : List Int → List Int → Bool
  | [], _ => true
  | _ :: _, [] => false
  | x :: xs, y :: ys => decide (x < y) || (x == y && lexLe xs ys)

/-- representative of `{(u1,u2,dx), (u2,u1,-dx)}` -/
def canon (c : Coupling) : Coupling :=
  let c' : Coupling := (c.2.1, c.1, negV c.2.2)
  if lexLe (keyOf c) (keyOf c') then c else c'

def lookup (t : Table) (key : String) : List Coupling :=
  match t.pairs.find? (fun kv => kv.1 == key) with
  | some kv => kv.2
  | none => []

/-- the `k`-th (0-based) smallest distinct squared distance among the candidates of the box -/
def kthDistance (t : Table) (B k : Nat) : Option Z3 :=
  (distinctSorted ((candidates t B).map (sqDist t)))[k]?

/-- **The neighbour list `key` is the `k`-th distance shell** (within the box `|dx_a| ≤ B`):
no coupling is listed twice (not even in the reversed form), every listed coupling lies in the box
and has the `k`-th smallest squared distance, and every candidate at that distance is listed
(in one of its two forms). -/
def PairsMatch (t : Table) (B k : Nat) (key : String) : Prop :=
  ∃ D, kthDistance t B k = some D ∧
    ((lookup t key).map canon).Nodup ∧
    (∀ c ∈ lookup t key, c ∈ candidates t B ∧ sqDist t c = D) ∧
    (∀ c ∈ candidates t B, sqDist t c = D → canon c ∈ (lookup t key).map canon)

/-- Boolean form of `PairsMatch` (what `decide +kernel` evaluates) -/
def pairsMatchB (t : Table) (B k : Nat) (key : String) : Bool :=
  match kthDistance t B k with
  | none => false
  | some D =>
    let T := lookup t key
    let cands := candidates t B
    let Tc := T.map canon
    decide Tc.Nodup && T.all (fun c => cands.contains c && sqDist t c == D)
      && cands.all (fun c => !(sqDist t c == D) || Tc.contains (canon c))

end TenpyModel.C19.Pairs
