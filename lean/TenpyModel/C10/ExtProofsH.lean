import TenpyModel.C10.ExtProofsG
/-!
# C10 extension, proofs part H: `build_MPO` of an infinite graph — windows of `n` unit cells
-/
namespace TenpyModel.C10Ext
open TenpyModel.Ops
set_option linter.unusedSectionVars false

variable {α : Type}

theorem gridsOf_nil' (sts : List (List Key)) : gridsOf ([] : List (List (Edge Key α))) sts = [] := by
  cases sts <;> rfl

theorem gridsOk_nil' (sts : List (List Key)) : gridsOk ([] : List (List (Edge Key α))) sts = true := by
  cases sts <;> rfl

/-- grids of two stretches of sites glued at a common bond -/
theorem gridsOf_append : ∀ (layers : List (List (Edge Key α))) (sts : List (List Key))
    (layers' : List (List (Edge Key α))) (sts' : List (List Key)),
    sts.length = layers.length + 1 → sts.getLast? = sts'.head? →
    gridsOf (layers ++ layers') (sts.dropLast ++ sts') = gridsOf layers sts ++ gridsOf layers' sts' ∧
    gridsOk (layers ++ layers') (sts.dropLast ++ sts') = (gridsOk layers sts && gridsOk layers' sts') := by
  intro layers
  induction layers with
  | nil =>
    intro sts layers' sts' hlen _
    match sts, hlen with
    | [s], _ => simp [gridsOf_nil', gridsOk_nil']
  | cons l ls ih =>
    intro sts layers' sts' hlen hlast
    match sts, hlen with
    | a :: b :: rest, hlen =>
      have hlast' : (b :: rest).getLast? = sts'.head? := by
        rw [← hlast, List.getLast?_cons_cons]
      obtain ⟨X', hX⟩ : ∃ X', (b :: rest).dropLast ++ sts' = b :: X' := by
        cases rest with
        | nil =>
          cases sts' with
          | nil => simp at hlast'
          | cons c cs =>
            simp at hlast'
            subst hlast'
            exact ⟨cs, rfl⟩
        | cons c cs => exact ⟨(c :: cs).dropLast ++ sts', rfl⟩
      have ih' := ih (b :: rest) layers' sts' (by simpa using hlen) hlast'
      have hd : (a :: b :: rest).dropLast ++ sts' = a :: b :: X' := by
        rw [List.dropLast_cons_cons, List.cons_append, hX]
      rw [hd, List.cons_append, gridsOf, gridsOk, ← hX, ih'.1, ih'.2, gridsOf, gridsOk]
      simp [Bool.and_assoc]

/-- the states along `n` unit cells -/
def cyc (ost : List (List Key)) : Nat → List (List Key)
  | 0 => [ost.getLastD []]
  | n + 1 => ost.dropLast ++ cyc ost n

theorem cyc_ne_nil (ost : List (List Key)) (n : Nat) : cyc ost n ≠ [] := by
  induction n with
  | zero => simp [cyc]
  | succ n ih =>
    simp only [cyc]
    intro h
    exact ih (List.append_eq_nil_iff.1 h).2

theorem cyc_head? (ost : List (List Key)) (hne : ost ≠ []) (hcyc : ost.head? = ost.getLast?) (n : Nat) :
    (cyc ost n).head? = ost.getLast? := by
  induction n with
  | zero =>
    simp only [cyc, List.head?_cons]
    rw [List.getLastD_eq_getLast?]
    cases h : ost.getLast? with
    | none => rw [List.getLast?_eq_none_iff] at h; exact absurd h hne
    | some x => rfl
  | succ n ih =>
    simp only [cyc]
    cases hd : ost.dropLast with
    | nil => simpa using ih
    | cons x xs =>
      rw [List.cons_append, List.head?_cons, ← hcyc]
      cases ost with
      | nil => exact absurd rfl hne
      | cons y ys =>
        cases ys with
        | nil => simp at hd
        | cons z zs => simp [List.dropLast_cons_cons] at hd; simp [hd.1]

theorem cyc_getLastD (ost : List (List Key)) (n : Nat) : (cyc ost n).getLastD [] = ost.getLastD [] := by
  induction n with
  | zero => simp [cyc]
  | succ n ih =>
    simp only [cyc]
    rw [List.getLastD_eq_getLast?, List.getLast?_append]
    cases h : (cyc ost n).getLast? with
    | none =>
      rw [List.getLast?_eq_none_iff] at h
      exact absurd h (cyc_ne_nil ost n)
    | some x =>
      rw [List.getLastD_eq_getLast?, h] at ih
      simpa using ih

theorem cyc_length (ost : List (List Key)) (L n : Nat) (h : ost.length = L + 1) :
    (cyc ost n).length = n * L + 1 := by
  induction n with
  | zero => simp [cyc]
  | succ n ih =>
    simp only [cyc, List.length_append, List.length_dropLast, h, ih]
    rw [Nat.succ_mul]; omega

theorem cyc_mem (ost : List (List Key)) (hne : ost ≠ []) (n : Nat) : ∀ st ∈ cyc ost n, st ∈ ost := by
  induction n with
  | zero =>
    intro st hst
    simp only [cyc, List.mem_singleton] at hst
    subst hst
    rw [List.getLastD_eq_getLast?]
    cases h : ost.getLast? with
    | none => rw [List.getLast?_eq_none_iff] at h; exact absurd h hne
    | some x => exact List.mem_of_getLast? h
  | succ n ih =>
    intro st hst
    simp only [cyc, List.mem_append] at hst
    rcases hst with hst | hst
    · exact List.dropLast_subset _ hst
    · exact ih st hst

theorem gridsOf_cyc (layers : List (List (Edge Key α))) (ost : List (List Key))
    (hlen : ost.length = layers.length + 1) (hcyc : ost.head? = ost.getLast?) (n : Nat) :
    gridsOf (List.replicate n layers).flatten (cyc ost n) = (List.replicate n (gridsOf layers ost)).flatten ∧
    (gridsOk layers ost = true → gridsOk (List.replicate n layers).flatten (cyc ost n) = true) := by
  have hne : ost ≠ [] := by intro h; rw [h] at hlen; simp at hlen
  induction n with
  | zero => simp [cyc, gridsOf_nil', gridsOk_nil']
  | succ n ih =>
    have h := gridsOf_append layers ost (List.replicate n layers).flatten (cyc ost n) hlen
      (by rw [cyc_head? ost hne hcyc n])
    rw [List.replicate_succ, List.flatten_cons, List.replicate_succ, List.flatten_cons]
    simp only [cyc]
    rw [h.1, h.2, ih.1]
    refine ⟨rfl, fun hok => ?_⟩
    rw [hok, ih.2 hok]; rfl


/-- **`build_MPO` of an infinite graph**: `n` unit cells of the MPO denote the paths `IdL → IdR` through `n` copies of
the graph, when first and last bond carry the same ordered states -/
theorem buildMPO_denoteWindow {α Q : Type} [Semiring α] [Add Q] [Sub Q] [Zero Q] [DecidableEq Q] {g : Graph α}
    (h : GWF g) (cd : ChargeData Q) (ucw : Nat) (m : GMPO α Q) (hb : buildMPO g cd ucw = .ok m)
    (hcyc : g.orderedStates.head? = g.orderedStates.getLast?) (n : Nat) :
    Sym.Equiv (m.denoteWindow n) (pathsFrom Key.IdR (List.replicate n g.layers).flatten Key.IdL) := by
  obtain ⟨grids, legs, hgr, hleg, hg1, hg2, hg3, _, _, _, _⟩ := buildMPO_ok hb
  have hlen : g.orderedStates.length = g.layers.length + 1 := by
    rw [orderedStates_length, h.nStates, h.nLayers]
  have hne : g.orderedStates ≠ [] := by
    intro h0; rw [h0] at hlen; simp at hlen
  obtain ⟨st0, rest, hst⟩ := List.exists_cons_of_ne_nil hne
  obtain ⟨l0, hl0⟩ : ∃ l0, keyIdx (g.orderedStates.headD []) Key.IdL = some l0 := by
    unfold legcharges at hleg
    dsimp only at hleg
    split at hleg
    · cases hleg
    · next l0 hl0 => exact ⟨l0, by simpa [hst] using hl0⟩
  have hok : gridsOk g.layers g.orderedStates = true := by
    unfold buildGrids at hgr
    split at hgr
    · assumption
    · cases hgr
  have hgrids : grids = gridsOf g.layers g.orderedStates := by
    have h2 := hgr
    unfold buildGrids at h2
    rw [if_pos hok] at h2
    exact (Except.ok.inj h2).symm
  -- first and last bond carry the same states
  have hhl : g.orderedStates.headD [] = g.orderedStates.getLastD [] := by
    rw [List.getLastD_eq_getLast?, ← hcyc, hst]; rfl
  obtain ⟨hcg, hcok⟩ := gridsOf_cyc g.layers g.orderedStates hlen hcyc n
  have hclen : (cyc g.orderedStates n).length = (List.replicate n g.layers).flatten.length + 1 := by
    rw [cyc_length _ g.layers.length n hlen]
    simp [List.length_flatten]
  have hcnd : ∀ st ∈ cyc g.orderedStates n, st.Nodup :=
    fun st hst' => orderedStates_nodup h st (cyc_mem _ hne n st hst')
  have hchead : (cyc g.orderedStates n).headD [] = g.orderedStates.getLastD [] := by
    have := cyc_head? g.orderedStates hne hcyc n
    rw [List.getLastD_eq_getLast?, ← this]
    cases hc : cyc g.orderedStates n with
    | nil => exact absurd hc (cyc_ne_nil _ n)
    | cons x xs => rfl
  simp only [GMPO.denoteWindow, hg1, hg2, hg3, List.head?_map, List.getLast?_map]
  have hlast : g.orderedStates.getLast? = some (g.orderedStates.getLastD []) := by
    rw [List.getLastD_eq_getLast?]
    cases hq : g.orderedStates.getLast? with
    | none => rw [List.getLast?_eq_none_iff] at hq; exact absurd hq hne
    | some x => rfl
  have hhead : g.orderedStates.head? = some (g.orderedStates.headD []) := by rw [hst]; rfl
  rw [hhead, hlast]
  simp only [Option.map_some]
  rw [hl0]
  cases hr : keyIdx (g.orderedStates.getLastD []) Key.IdR with
  | some r =>
    simp only []
    intro t
    rw [hgrids, ← hcg]
    exact coeff_gridPaths_gridsOf Key.IdR r _ (cyc g.orderedStates n) hclen hcnd (hcok hok)
      (by rw [cyc_getLastD]; exact hr) Key.IdL l0 (by rw [hchead, ← hhl]; exact hl0) t
  | none =>
    simp only []
    intro t
    have hnot : Key.IdR ∉ (cyc g.orderedStates n).getLastD [] := by
      rw [cyc_getLastD]
      intro hm
      obtain ⟨a, ha⟩ := keyIdx_isSome_of_mem hm
      rw [ha] at hr
      cases hr
    have := coeff_pathsFrom_zero Key.IdR _ (cyc g.orderedStates n) hclen (hcok hok) hnot
      Key.IdL (by rw [hchead, ← hhl]; exact mem_of_keyIdx hl0) t
    simpa using this.symm

end TenpyModel.C10Ext
