import TenpyModel.C10.P2_Cross
/-!
# C10 / Props2: the declarative description `MNew` of the multi-coupling edges (plus the onsite edges and the
`IdL`/`IdR` loops) denotes the onsite terms plus the connections of the container
-/
namespace TenpyModel.Ops

section helpers
variable {α : Type}

theorem forall2_layersOf (L : Nat) (F F' : Nat → List (Edge Key α)) (h : ∀ k, k < L → (F k).Perm (F' k)) :
    List.Forall₂ List.Perm (layersOf L F) (layersOf L F') := by
  unfold layersOf
  rw [List.forall₂_map_left_iff, List.forall₂_map_right_iff]
  apply List.forall₂_same.2
  intro k hk
  exact h k (List.mem_range.1 hk)

theorem pathOf_some (ps : List MPath) (c : Nat) (q : List MKey)
    (h : MultiCouplingTerms.pathOf ps c = some q) : ∃ p ∈ ps, c ∈ p.counters ∧ p.path = q := by
  unfold MultiCouplingTerms.pathOf at h
  cases hf : ps.find? (fun p => p.counters.contains c) with
  | none => rw [hf] at h; cases h
  | some p =>
    rw [hf] at h
    simp only [Option.map_some, Option.some.injEq] at h
    refine ⟨p, List.mem_of_find?_eq_some hf, ?_, h⟩
    have := List.find?_some hf
    simpa using this

/-- the crossing edges of the onsite terms -/
def onsiteCross (ot : OnsiteTerms α) : List (Cross α) :=
  (ot.terms.zipIdx).flatMap (fun p => p.1.map (fun q => ⟨p.2, [], [], q.1, q.2⟩))

/-- the crossing edges of the connections -/
def connCross (mt : MultiCouplingTerms α) : List (Cross α) :=
  (mt.conns.zipIdx).filterMap (fun p =>
    match p.1 with
    | none => none
    | some kk => some ⟨kk.switchLR.toNat, (MultiCouplingTerms.pathOf mt.left p.2).getD [],
        (MultiCouplingTerms.pathOf mt.right p.2).getD [], kk.opSwitch, kk.strength⟩)

theorem mem_zipIdx_getD {β : Type} (l : List β) (d : β) (p : β × Nat) (hp : p ∈ l.zipIdx) :
    p.2 < l.length ∧ l.getD p.2 d = p.1 := by
  have := List.mem_zipIdx hp
  simp only [Nat.zero_add, Nat.sub_zero] at this
  refine ⟨this.2.1, ?_⟩
  rw [List.getD_eq_getElem?_getD, List.getElem?_eq_getElem this.2.1]
  simp [this.2.2]

theorem onsiteCross_filter (ot : OnsiteTerms α) (k : Nat) :
    ((onsiteCross ot).filter (fun x => x.site = k)).map Cross.edge = onsiteEdges (ot.terms.getD k []) := by
  unfold onsiteCross
  rw [zipIdx_flatMap_range' ot.terms [] 0 (fun d i => d.map (fun q => (⟨i, [], [], q.1, q.2⟩ : Cross α)))]
  simp only [Nat.sub_zero]
  rw [List.filter_flatMap, List.map_flatMap, ← List.range_eq_range']
  by_cases hk : k < ot.terms.length
  · rw [range_split ot.terms.length k hk, List.flatMap_append, List.flatMap_cons]
    have h1 : (List.range k).flatMap (fun i => List.map Cross.edge (List.filter (fun x => decide (x.site = k))
        (List.map (fun q => (⟨i, [], [], q.1, q.2⟩ : Cross α)) (ot.terms.getD i [])))) = [] := by
      rw [List.flatMap_eq_nil_iff]
      intro i hi
      have : i ≠ k := by have := List.mem_range.1 hi; omega
      simp [List.filter_map, Function.comp_def, this]
    have h2 : (List.range' (k + 1) (ot.terms.length - (k + 1))).flatMap (fun i => List.map Cross.edge
        (List.filter (fun x => decide (x.site = k))
        (List.map (fun q => (⟨i, [], [], q.1, q.2⟩ : Cross α)) (ot.terms.getD i [])))) = [] := by
      rw [List.flatMap_eq_nil_iff]
      intro i hi
      have : i ≠ k := by have := (List.mem_range'_1.1 hi).1; omega
      simp [List.filter_map, Function.comp_def, this]
    rw [h1, h2, List.nil_append, List.append_nil]
    simp [List.filter_map, Function.comp_def, onsiteEdges, dictEdges, Cross.edge, lkey, rkey]
  · have hnil : ot.terms.getD k [] = [] := by
      rw [List.getD_eq_getElem?_getD, List.getElem?_eq_none (by omega)]
      rfl
    rw [hnil]
    simp only [onsiteEdges, dictEdges, List.map_nil]
    rw [List.flatMap_eq_nil_iff]
    intro i hi
    have : i ≠ k := by have := List.mem_range.1 hi; omega
    simp [List.filter_map, Function.comp_def, this]

theorem connCross_filter (mt : MultiCouplingTerms α)
    (h0 : ∀ c kk, mt.conns.getD c none = some kk → 0 ≤ kk.switchLR) (k : Nat) :
    ((connCross mt).filter (fun x => x.site = k)).map Cross.edge = connEdges mt k := by
  unfold connCross connEdges
  rw [List.filter_filterMap, List.map_filterMap]
  apply List.filterMap_congr
  intro p hp
  obtain ⟨hlt, hget⟩ := mem_zipIdx_getD mt.conns none p hp
  obtain ⟨oc, c⟩ := p
  cases oc with
  | none => simp
  | some kk =>
    have hk0 := h0 c kk hget
    by_cases hs : kk.switchLR = (k : Int)
    · have : kk.switchLR.toNat = k := by omega
      simp [hs, Cross.edge]
    · have : ¬ kk.switchLR.toNat = k := by omega
      simp [hs, this]

theorem onsiteCross_denote (ot : OnsiteTerms α) :
    (onsiteCross ot).map (fun x => (connStrN ot.L x.pl x.site x.op x.pr, x.c)) = ot.denote := by
  unfold onsiteCross OnsiteTerms.denote
  rw [List.map_flatMap]
  apply List.flatMap_congr
  intro p _
  rw [List.map_map]
  apply List.map_congr_left
  intro q _
  simp only [Function.comp, connStrN, List.reverse_nil, leftStrRev, rightFrom, onsiteStr]
  rfl

theorem connCross_denote (mt : MultiCouplingTerms α) :
    (connCross mt).map (fun x => (connStrN mt.L x.pl x.site x.op x.pr, x.c)) = mt.connDenote := by
  unfold connCross MultiCouplingTerms.connDenote
  rw [List.map_filterMap]
  apply List.filterMap_congr
  intro p _
  obtain ⟨oc, c⟩ := p
  cases oc with
  | none => rfl
  | some kk => rfl

end helpers

section main
variable {α : Type} [CommSemiring α]

/-- the base graph: everything but the crossing edges -/
def baseOf (N : Nat → List (Edge Key α)) (k : Nat) : List (Edge Key α) :=
  (N k).filter (fun e => !(e.kL.isLeft && e.kR.isRight)) ++ idLoops

theorem baseOf_good (L : Nat) (mt : MultiCouplingTerms α) (N : Nat → List (Edge Key α)) (h : MNew L mt N) :
    Good L (baseOf N) := by
  refine ⟨?_, ?_, ?_, ?_⟩
  · intro k hk
    unfold InUniq baseOf idLoops
    rw [List.filter_append, List.map_append]
    have hloops : List.filter (fun e => e.kR.isLeft)
        [(⟨Key.IdL, Key.IdL, "Id", 1⟩ : Edge Key α), ⟨Key.IdR, Key.IdR, "Id", 1⟩] = [⟨Key.IdL, Key.IdL, "Id", 1⟩] := by
      simp [Key.isLeft, Key.IdL, Key.IdR]
    rw [hloops, List.map_cons, List.map_nil]
    rw [List.nodup_append]
    refine ⟨?_, by simp, ?_⟩
    · refine List.Nodup.sublist (List.Sublist.map _ (List.Sublist.filter _ List.filter_sublist)) (h.inUniq k hk)
    · intro a ha b hb
      simp only [List.mem_singleton] at hb
      subst hb
      obtain ⟨e, he, rfl⟩ := List.mem_map.1 ha
      have he' := (List.mem_filter.1 (List.mem_filter.1 he).1).1
      exact (h.ends k hk e he').1
  · intro k hk
    unfold OutUniq baseOf idLoops
    rw [List.filter_append, List.map_append]
    have hloops : List.filter (fun e => e.kL.isRight)
        [(⟨Key.IdL, Key.IdL, "Id", 1⟩ : Edge Key α), ⟨Key.IdR, Key.IdR, "Id", 1⟩] = [⟨Key.IdR, Key.IdR, "Id", 1⟩] := by
      simp [Key.isRight, Key.IdL, Key.IdR]
    rw [hloops, List.map_cons, List.map_nil]
    rw [List.nodup_append]
    refine ⟨?_, by simp, ?_⟩
    · refine List.Nodup.sublist (List.Sublist.map _ (List.Sublist.filter _ List.filter_sublist)) (h.outUniq k hk)
    · intro a ha b hb
      simp only [List.mem_singleton] at hb
      subst hb
      obtain ⟨e, he, rfl⟩ := List.mem_map.1 ha
      have he' := (List.mem_filter.1 (List.mem_filter.1 he).1).1
      exact (h.ends k hk e he').2
  · intro k _
    simp [baseOf, idLoops]
  · intro k _
    simp [baseOf, idLoops]

theorem baseOf_noCross (L : Nat) (mt : MultiCouplingTerms α) (N : Nat → List (Edge Key α)) (h : MNew L mt N) :
    ∀ k, k < L → ∀ e ∈ baseOf N k, e.kL.isLeft = true → e.kR.isLeft = true := by
  intro k hk e he hl
  unfold baseOf at he
  rcases List.mem_append.1 he with he | he
  · obtain ⟨he1, he2⟩ := List.mem_filter.1 he
    rcases h.classes k hk e he1 with ⟨_, h2 | h2⟩ | ⟨h1, _⟩
    · exact h2
    · simp [hl, h2] at he2
    · rw [Key.not_left_of_right _ h1] at hl
      cases hl
  · simp only [idLoops, List.mem_cons, List.mem_singleton, List.not_mem_nil, or_false] at he
    rcases he with rfl | rfl
    · rfl
    · cases hl

theorem leftChain_not_cross (pl : List MKey) (sw : Int) :
    ∀ y ∈ leftChain (α := α) pl sw, (y.2.kL.isLeft && y.2.kR.isRight) = false := by
  unfold leftChain
  suffices ∀ (rest q : List MKey), ∀ y ∈ leftChainFrom (α := α) q rest sw,
      (y.2.kL.isLeft && y.2.kR.isRight) = false from this pl []
  intro rest
  induction rest with
  | nil => intro q y hy; simp [leftChainFrom] at hy
  | cons t rest ih =>
    intro q y hy
    rw [leftChainFrom_cons] at hy
    simp only [List.mem_cons, List.mem_append, List.mem_map] at hy
    rcases hy with rfl | ⟨d, _, rfl⟩ | hy
    · simp [lkey_not_isRight]
    · simp [lkey_not_isRight]
    · exact ih _ y hy

theorem rightChain_not_cross (pr : List MKey) (sw : Int) :
    ∀ y ∈ rightChain (α := α) pr sw, (y.2.kL.isLeft && y.2.kR.isRight) = false := by
  unfold rightChain
  suffices ∀ (rest q : List MKey), ∀ y ∈ rightChainFrom (α := α) q rest sw,
      (y.2.kL.isLeft && y.2.kR.isRight) = false from this pr []
  intro rest
  induction rest with
  | nil => intro q y hy; simp [rightChainFrom] at hy
  | cons t rest ih =>
    intro q y hy
    rw [rightChainFrom_cons] at hy
    simp only [List.mem_cons, List.mem_append, List.mem_map] at hy
    rcases hy with rfl | ⟨d, _, rfl⟩ | hy
    · simp [rkey_not_isLeft]
    · simp [rkey_not_isLeft]
    · exact ih _ y hy

theorem connCross_ok (L : Nat) (mt : MultiCouplingTerms α) (hL : mt.L = L) (hwf : mt.GWF)
    (N : Nat → List (Edge Key α)) (h : MNew L mt N) : ∀ x ∈ connCross mt, CrossOK L (baseOf N) x := by
  intro x hx
  unfold connCross at hx
  obtain ⟨p, hp, hx⟩ := List.mem_filterMap.1 hx
  obtain ⟨hlt, hget⟩ := mem_zipIdx_getD mt.conns none p hp
  cases hoc : p.1 with
  | none => rw [hoc] at hx; cases hx
  | some kk =>
    rw [hoc] at hx
    simp only [Option.some.injEq] at hx
    have hconn : mt.conns.getD p.2 none = some kk := by rw [hget, hoc]
    obtain ⟨hs0, hsL, _⟩ := hwf.connOK p.2 kk hconn
    rw [hL] at hsL
    have hcast : ((kk.switchLR.toNat : Nat) : Int) = kk.switchLR := by omega
    subst hx
    refine ⟨by show kk.switchLR.toNat < L; omega, ?_, ?_, ?_, ?_, ?_, ?_⟩
    · show ((((MultiCouplingTerms.pathOf mt.left p.2).getD []).map (·.1))).Pairwise (· < ·)
      cases hq : MultiCouplingTerms.pathOf mt.left p.2 with
      | none => simp
      | some q =>
        obtain ⟨pp, hpp, _, rfl⟩ := pathOf_some _ _ _ hq
        exact (hwf.leftOK pp hpp).1
    · show ∀ t ∈ (MultiCouplingTerms.pathOf mt.left p.2).getD [], 0 ≤ t.1 ∧ t.1 < ((kk.switchLR.toNat : Nat) : Int)
      rw [hcast]
      cases hq : MultiCouplingTerms.pathOf mt.left p.2 with
      | none => simp
      | some q =>
        obtain ⟨pp, hpp, hc, rfl⟩ := pathOf_some _ _ _ hq
        intro t ht
        exact ⟨((hwf.leftOK pp hpp).2.1 t ht).1, (hwf.leftOK pp hpp).2.2 p.2 hc kk hconn t ht⟩
    · show ((((MultiCouplingTerms.pathOf mt.right p.2).getD []).map (·.1))).Pairwise (· > ·)
      cases hq : MultiCouplingTerms.pathOf mt.right p.2 with
      | none => simp
      | some q =>
        obtain ⟨pp, hpp, _, rfl⟩ := pathOf_some _ _ _ hq
        exact (hwf.rightOK pp hpp).1
    · show ∀ t ∈ (MultiCouplingTerms.pathOf mt.right p.2).getD [],
        ((kk.switchLR.toNat : Nat) : Int) < t.1 ∧ t.1 < (L : Int)
      rw [hcast]
      cases hq : MultiCouplingTerms.pathOf mt.right p.2 with
      | none => simp
      | some q =>
        obtain ⟨pp, hpp, hc, rfl⟩ := pathOf_some _ _ _ hq
        intro t ht
        refine ⟨(hwf.rightOK pp hpp).2.2 p.2 hc kk hconn t ht, ?_⟩
        have := ((hwf.rightOK pp hpp).2.1 t ht).2
        rw [hL] at this
        exact this
    · show ∀ y ∈ leftChain (α := α) ((MultiCouplingTerms.pathOf mt.left p.2).getD [])
        ((kk.switchLR.toNat : Nat) : Int), y.2 ∈ baseOf N y.1
      rw [hcast]
      intro y hy
      have := h.chainL p.2 kk hconn y hy
      unfold baseOf
      apply List.mem_append_left
      apply List.mem_filter.2
      refine ⟨this, ?_⟩
      rw [leftChain_not_cross _ _ y hy]
      rfl
    · show ∀ y ∈ rightChain (α := α) ((MultiCouplingTerms.pathOf mt.right p.2).getD [])
        ((kk.switchLR.toNat : Nat) : Int), y.2 ∈ baseOf N y.1
      rw [hcast]
      intro y hy
      have := h.chainR p.2 kk hconn y hy
      unfold baseOf
      apply List.mem_append_left
      apply List.mem_filter.2
      refine ⟨this, ?_⟩
      rw [rightChain_not_cross _ _ y hy]
      rfl

theorem onsiteCross_ok (L : Nat) (ot : OnsiteTerms α) (hot : ot.terms.length = L)
    (B : Nat → List (Edge Key α)) : ∀ x ∈ onsiteCross ot, CrossOK L B x := by
  intro x hx
  unfold onsiteCross at hx
  obtain ⟨p, hp, hx⟩ := List.mem_flatMap.1 hx
  obtain ⟨q, _, rfl⟩ := List.mem_map.1 hx
  have := (mem_zipIdx_getD ot.terms [] p hp).1
  refine ⟨by show p.2 < L; omega, ?_, ?_, ?_, ?_, ?_, ?_⟩ <;> simp [leftChain, rightChain, leftChainFrom, rightChainFrom]

/-- **closed form ⇒ path sum**: onsite edges, the new edges `N` of the multi-coupling terms and the two loops -/
theorem multi_paths (L : Nat) (ot : OnsiteTerms α) (mt : MultiCouplingTerms α) (hotL : ot.L = L)
    (hot : ot.terms.length = L) (hL : mt.L = L) (hwf : mt.GWF) (N : Nat → List (Edge Key α))
    (h : MNew L mt N) :
    Sym.Equiv (pathsFrom Key.IdR (layersOf L (fun k => onsiteEdges (ot.terms.getD k []) ++ N k ++ idLoops)) Key.IdL)
      (ot.denote ++ mt.connDenote) := by
  have hX : ∀ x ∈ onsiteCross ot ++ connCross mt, CrossOK L (baseOf N) x := by
    intro x hx
    rcases List.mem_append.1 hx with hx | hx
    · exact onsiteCross_ok L ot hot _ x hx
    · exact connCross_ok L mt hL hwf N h x hx
  have key := cross_paths L (baseOf N) (baseOf_good L mt N h) (baseOf_noCross L mt N h)
    (onsiteCross ot ++ connCross mt) hX
  rw [List.map_append, ← hL, connCross_denote, hL, ← hotL, onsiteCross_denote, hotL] at key
  refine Sym.Equiv.trans ?_ key
  apply pathsFrom_equiv_of_forall2
  apply forall2_layersOf
  intro k hk
  rw [addAll_apply, List.filter_append, List.map_append, onsiteCross_filter,
    connCross_filter mt (fun c kk hc => (hwf.connOK c kk hc).1)]
  unfold baseOf
  have hc := h.cross k hk
  have hsplit : (N k).Perm ((N k).filter (fun e => !(e.kL.isLeft && e.kR.isRight)) ++
      (N k).filter (fun e => e.kL.isLeft && e.kR.isRight)) := by
    have := List.filter_append_perm (fun e : Edge Key α => e.kL.isLeft && e.kR.isRight) (N k)
    exact (this.symm.trans List.perm_append_comm)
  -- onsite ++ N k ++ loops ~ (filter¬ ++ loops) ++ (onsite ++ conn)
  refine ((List.Perm.append_left _ hsplit).append_right idLoops).trans ?_
  refine ((List.Perm.append_left _ (List.Perm.append_left _ hc)).append_right idLoops).trans ?_
  generalize onsiteEdges (ot.terms.getD k []) = A
  generalize (N k).filter (fun e => !(e.kL.isLeft && e.kR.isRight)) = Bk
  generalize connEdges mt k = C
  generalize (idLoops : List (Edge Key α)) = I
  -- (A ++ (Bk ++ C)) ++ I ~ (Bk ++ I) ++ (A ++ C)
  have e1 : ((A ++ (Bk ++ C)) ++ I).Perm (Bk ++ (A ++ C) ++ I) := by
    apply List.Perm.append_right
    rw [← List.append_assoc, ← List.append_assoc]
    exact List.Perm.append_right _ List.perm_append_comm
  refine e1.trans ?_
  rw [List.append_assoc, List.append_assoc, List.append_assoc]
  apply List.Perm.append_left
  rw [← List.append_assoc]
  exact List.perm_append_comm

end main

end TenpyModel.Ops
