import TenpyModel.C10.ExtProofsG
import TenpyModel.C10.ExtProofsH
/-!
# C10 — property theorems of the extension round

From the `MPOGraph` to the `MPO` (`_build_grids`, `build_MPO`, charges of the virtual legs) and the methods that only
change the representation of the MPO (`group_sites`, `enlarge_mps_unit_cell`, `extract_segment`, `sort_legcharges`).
Models: `C10/ExtMPO.lean`, `C10/ExtOps.lean`; helper lemmas: `C10/ExtProofs*.lean`.
-/
open TenpyModel.Ops TenpyModel.C10Ext

/-- **Graphs assembled with `MPOGraph.add` are well formed.**  Whatever sequence of
`add(i, keyL, keyR, opname, strength, skip_existing)` calls is made on an empty graph (optionally followed by
`add_missing_IdL_IdR(insert_all_id)`): there are `L` edge dictionaries and `L + 1` state sets, the state sets have no
duplicates, and both keys of every edge are registered states of the two bonds of its site — the assertions of
`MPOGraph.test_sanity` on keys, and the reason why `stR[keyR]` in `_build_grids` / `_calc_legcharges` cannot raise. -/
theorem C10_graph_add_wf {α : Type} [One α] (L : Nat) (infinite : Bool)
    (calls : List (Int × Key × Key × String × α × Bool)) (addMissing : Option Bool) :
    GWF (match addMissing with
      | none => calls.foldl (fun g c => g.add c.1 c.2.1 c.2.2.1 c.2.2.2.1 c.2.2.2.2.1 c.2.2.2.2.2) (Graph.empty L infinite)
      | some b => (calls.foldl (fun g c => g.add c.1 c.2.1 c.2.2.1 c.2.2.2.1 c.2.2.2.2.1 c.2.2.2.2.2)
          (Graph.empty L infinite)).addMissingIdLIdR b) := by
  have h : GWF (calls.foldl (fun g c => g.add c.1 c.2.1 c.2.2.1 c.2.2.2.1 c.2.2.2.2.1 c.2.2.2.2.2)
      (Graph.empty L infinite : Graph α)) := by
    apply foldl_inv (fun g : Graph α => GWF g) _ _ _ _ (GWF.empty L infinite)
    intro g c hg
    exact hg.add _ _ _ _ _ _
  cases addMissing with
  | none => exact h
  | some b => exact h.addMissing b

/-- **The graph of every model is well formed.**  `MPOGraph.from_terms` of any onsite / coupling / multi-coupling /
exponentially decaying containers (any contents, finite or infinite, any `insert_all_id`) yields a well-formed graph. -/
theorem C10_graph_from_terms_wf {α : Type} [One α] [Inhabited α] (L : Nat) (infinite : Bool)
    (terms : List (AnyTerms α)) (insertAll : Bool) : GWF (Graph.fromTerms L infinite terms insertAll) :=
  GWF.fromTerms L infinite terms insertAll

/-- **`_build_grids` keeps the operator.**  If `_build_grids` succeeds on a well-formed graph (no `KeyError`), then
the `[IdL, IdR]` entry of the ordered product of the operator-valued matrices `W_0 ⋯ W_{L-1}` it returns — rows and
columns indexed by the states in the order of `_mpo_graph_state_order` — is the sum over the `IdL → IdR` paths of the
graph: the same formal sum, string by string. -/
theorem C10_build_grids_denote {α : Type} [Semiring α] {g : Graph α} (h : GWF g) (grids : List (Grid α))
    (hb : buildGrids g = .ok grids) (l r : Nat)
    (hl : keyIdx (g.orderedStates.headD []) Key.IdL = some l)
    (hr : keyIdx (g.orderedStates.getLastD []) Key.IdR = some r) :
    Sym.Equiv (gridPaths r grids l) (denoteGraph g) :=
  buildGrids_denote h grids hb l r hl hr

/-- **`build_MPO` keeps the operator (finite chain).**  Whenever `MPOGraph.build_MPO` succeeds on a well-formed finite
graph — `test_sanity`, `_build_grids`, `_calc_legcharges` and the charge check of `from_grids` all pass — the MPO it
returns (grids together with the index lists `IdL`, `IdR`) denotes exactly the path sum of the graph; in particular an
MPO without an `IdR` state on its last bond denotes 0, as does its graph. -/
theorem C10_build_MPO_denote {α Q : Type} [Semiring α] [Add Q] [Sub Q] [Zero Q] [DecidableEq Q] {g : Graph α}
    (h : GWF g) (cd : ChargeData Q) (ucw : Nat) (m : GMPO α Q) (hb : buildMPO g cd ucw = .ok m) :
    Sym.Equiv m.denote (denoteGraph g) := by
  obtain ⟨grids, legs, hgr, hleg, hg1, hg2, hg3, _, _, _, _⟩ := buildMPO_ok hb
  -- IdL is a state of the first bond: `_calc_legcharges` looked it up
  have hne : g.orderedStates ≠ [] := by
    intro h0
    have := orderedStates_length g
    rw [h0, h.nStates] at this
    simp at this
  obtain ⟨st0, rest, hst⟩ := List.exists_cons_of_ne_nil hne
  obtain ⟨l0, hl0⟩ : ∃ l0, keyIdx (g.orderedStates.headD []) Key.IdL = some l0 := by
    unfold legcharges at hleg
    dsimp only at hleg
    split at hleg
    · cases hleg
    · next l0 hl0 => exact ⟨l0, by simpa [hst] using hl0⟩
  have hlen : g.orderedStates.length = g.layers.length + 1 := by
    rw [orderedStates_length, h.nStates, h.nLayers]
  have hok : gridsOk g.layers g.orderedStates = true := by
    unfold buildGrids at hgr
    split at hgr
    · assumption
    · cases hgr
  simp only [GMPO.denote, hg1, hg2, hg3, List.head?_map, List.getLast?_map]
  rw [hst] at hl0 ⊢
  simp only [List.head?_cons, Option.map_some, List.headD_cons] at hl0 ⊢
  rw [hl0]
  have hlast : (st0 :: rest).getLast? = some ((st0 :: rest).getLastD []) := by
    simp [List.getLast?_cons, List.getLastD_cons]
  rw [hlast]
  simp only [Option.map_some]
  cases hr : keyIdx ((st0 :: rest).getLastD []) Key.IdR with
  | some r =>
    simp only []
    exact buildGrids_denote h grids hgr l0 r (by rw [hst]; simpa using hl0) (by rw [hst]; exact hr)
  | none =>
    simp only []
    intro t
    have hnot : Key.IdR ∉ (st0 :: rest).getLastD [] := by
      intro hm
      obtain ⟨a, ha⟩ := keyIdx_isSome_of_mem hm
      rw [ha] at hr
      cases hr
    have := coeff_pathsFrom_zero Key.IdR g.layers g.orderedStates hlen hok (by rw [hst]; exact hnot)
      Key.IdL (by rw [hst]; simpa using mem_of_keyIdx hl0) t
    simpa [denoteGraph] using this.symm

/-- **`build_MPO` keeps the operator (infinite unit cell).**  For an infinite graph whose first and last bond carry the
same ordered states (every state of the bond is entered and left), `n` unit cells of the built MPO — `IdL` on the left,
`IdR` on the right — denote exactly the `IdL → IdR` paths through `n` copies of the graph: all terms lying completely inside
the window. -/
theorem C10_build_MPO_denote_window {α Q : Type} [Semiring α] [Add Q] [Sub Q] [Zero Q] [DecidableEq Q] {g : Graph α}
    (h : GWF g) (cd : ChargeData Q) (ucw : Nat) (m : GMPO α Q) (hb : buildMPO g cd ucw = .ok m)
    (hcyc : g.orderedStates.head? = g.orderedStates.getLast?) (n : Nat) :
    Sym.Equiv (m.denoteWindow n) (pathsFrom Key.IdR (List.replicate n g.layers).flatten Key.IdL) :=
  buildMPO_denoteWindow h cd ucw m hb hcyc n

/-! ## the MPO methods that only change the representation -/

/-- **Shape of a built MPO.**  A successful `build_MPO` on a well-formed graph returns `L` rectangular grids and index
lists `IdL`, `IdR` with `L + 1` entries (what `MPO.test_sanity` demands). -/
theorem C10_build_MPO_wf {α Q : Type} [Monoid α] [Add Q] [Sub Q] [Zero Q] [DecidableEq Q] {g : Graph α}
    (h : GWF g) (cd : ChargeData Q) (ucw : Nat) (m : GMPO α Q) (hb : buildMPO g cd ucw = .ok m) : m.WF := by
  obtain ⟨grids, legs, hgr, _, hg1, hg2, hg3, _, _, _, _⟩ := buildMPO_ok hb
  have hgrids : grids = gridsOf g.layers g.orderedStates := by
    unfold buildGrids at hgr
    split at hgr
    · cases hgr; rfl
    · cases hgr
  have hlen : g.orderedStates.length = g.layers.length + 1 := by
    rw [orderedStates_length, h.nStates, h.nLayers]
  have hL : m.L = g.layers.length := by
    rw [GMPO.L, hg1, hgrids, gridsOf_length _ _ hlen]
  exact ⟨by rw [hg2, List.length_map, hL, hlen], by rw [hg3, List.length_map, hL, hlen],
    by rw [hg1, hgrids]; exact gridsOf_rect _ _⟩

/-- **`group_sites` keeps the operator.**  For every MPO (rectangular grids, `L + 1` entries in `IdL` / `IdR`) and
every `n ≥ 1`, the grouped MPO — per group the ordered product of its `W`s, `IdL` / `IdR` taken at the group
boundaries, a shorter last group when `n` does not divide `L` — denotes the same formal sum: the list of its summands
is a permutation of the original one (operator strings of a group concatenated). -/
theorem C10_group_sites_denote {α Q : Type} [Monoid α] (m m' : GMPO α Q) (hm : m.WF) (n : Nat)
    (h : groupSites m n = .ok m') : m'.denote.Perm m.denote :=
  groupSites_denote m m' hm n h

/-- `group_sites(0)` is rejected, every `n ≥ 1` is accepted. -/
theorem C10_group_sites_guard {α Q : Type} [Mul α] (m : GMPO α Q) (n : Nat) :
    (∃ m', groupSites m n = .ok m') ↔ n ≠ 0 := by
  unfold groupSites
  by_cases h : n = 0
  · simp [h]
  · simp [h]

/-- **Graph → MPO → grouped MPO.**  `build_MPO` followed by `group_sites(n)` still denotes the path sum of the
graph (finite chain). -/
theorem C10_build_group_denote {α Q : Type} [Semiring α] [Add Q] [Sub Q] [Zero Q] [DecidableEq Q] {g : Graph α}
    (h : GWF g) (cd : ChargeData Q) (ucw : Nat) (m m' : GMPO α Q) (hb : buildMPO g cd ucw = .ok m) (n : Nat)
    (hg : groupSites m n = .ok m') : Sym.Equiv m'.denote (denoteGraph g) :=
  (Sym.Equiv.of_perm (groupSites_denote m m' (C10_build_MPO_wf h cd ucw m hb) n hg)).trans
    (C10_build_MPO_denote h cd ucw m hb)

/-- **`enlarge_mps_unit_cell` keeps the operator.**  `k` unit cells of the enlarged MPO are `k · factor` unit cells of
the original one: identical lists of summands. -/
theorem C10_enlarge_denote {α Q : Type} [Mul α] [One α] (m m' : GMPO α Q) (hm : m.WF) (num : Int) (den : Nat)
    (h : enlargeUnitCell m num den = .ok m') (k : Nat) :
    m'.denoteWindow k = m.denoteWindow (k * num.toNat) :=
  enlarge_denoteWindow m m' hm num den h k

/-- `enlarge_mps_unit_cell(factor)` succeeds exactly for an integer `factor ≥ 2` on an infinite MPO (the three
`ValueError`s of the implementation). -/
theorem C10_enlarge_guard {α Q : Type} (m : GMPO α Q) (num : Int) (den : Nat) :
    (∃ m', enlargeUnitCell m num den = .ok m') ↔ (den = 1 ∧ 2 ≤ num ∧ m.bc = Bc.infinite) := by
  unfold enlargeUnitCell GMPO.isFinite
  by_cases h1 : den = 1
  · by_cases h2 : num ≤ 1
    · simp [h1, h2]; omega
    · by_cases h3 : m.bc = Bc.infinite
      · simp [h1, h2, h3]; omega
      · simp [h1, h2, h3]
  · simp [h1]

/-- **`extract_segment` of whole unit cells.**  The segment `[0, k·L - 1]` of an MPO, when `extract_segment` accepts
the bounds, denotes the window of `k` unit cells: all terms lying completely inside, with `IdL` on the left and `IdR` on
the right end. -/
theorem C10_extract_segment_window {α Q : Type} [Mul α] [One α] [DecidableEq Q] (m m' : GMPO α Q) (hm : m.WF) (k : Nat)
    (hk : 0 < k) (hL : 0 < m.L) (h : extractSegment m 0 ((k * m.L - 1 : Nat) : Int) = .ok m') :
    m'.denote = m.denoteWindow k :=
  extractSegment_window m m' hm k hk hL h

/-- **`sort_legcharges` keeps the operator.**  Sorting every virtual leg by charge (any order `lt`, the permutation is
the stable sort of the flat charge list), permuting rows and columns of every grid accordingly and moving the
`IdL` / `IdR` indices to their new positions leaves the list of summands unchanged up to a permutation. -/
theorem C10_sort_legcharges_denote {α Q : Type} [Monoid α] (m m' : GMPO α Q) (hm : m.Shaped) (lt : Q → Q → Bool)
    (h : sortLegcharges m lt = .ok m') : m'.denote.Perm m.denote :=
  sortLegcharges_denote m m' hm lt h

/-- the permutation used by `sort_legcharges` is a permutation of the indices of the leg -/
theorem C10_sort_perm {Q : Type} (lt : Q → Q → Bool) (leg : List Q) :
    (sortPerm lt leg).Perm (List.range leg.length) :=
  sortPerm_perm lt leg

/-! ## charges of the virtual legs -/

/-- **`_calc_legcharges` finds the consistent charges.**  Suppose the graph admits a consistent assignment `c` of
charges to its states at all: `IdL` on the first bond neutral, the charge rule
`c(i+1, keyR) = c(i, keyL) - Ws_qtotal[i] + qtotal(op)` on every edge and, for infinite boundary conditions, equal
states and charges on the first and the last bond.  Then whenever `_calc_legcharges` returns, the charge it gives to
*every* state of *every* bond — found by `travel_q_LR` from `IdL`, copied around the unit cell, or solved from the
right by `travel_q_RL` — is the one of `c` (compared through any map `π` respecting `+`, `-`, `0` and `make_valid`,
e.g. reduction modulo `N` for `Z_N` charges; without any conserved charge, `qnumber = 0`, the charge group is trivial).
In particular the result does not depend on the order in which the
stack visits the states. -/
theorem C10_legcharges_consistent {α Q Q' : Type} [Add Q] [Sub Q] [Zero Q] [AddCommGroup Q'] (g : Graph α)
    (cd : ChargeData Q) (π : Q → Q') (c : Nat → Key → Q') (hπ : ChargeHom π cd)
    (hc : Consistent π g.L g.infinite g.layers g.orderedStates cd c)
    (hnc : cd.noCharges = true → ∀ x y : Q', x = y) (legs : List (List Q))
    (h : legcharges g cd = .ok legs) :
    ∀ (b idx : Nat) (q : Q) (key : Key), (legs.getD b [])[idx]? = some q →
      (g.orderedStates.getD b [])[idx]? = some key → π q = c b key :=
  legcharges_agree g cd π c hπ hc hnc legs h

/-- **Charge rule of the built `W` tensors.**  Under the hypotheses of `C10_legcharges_consistent`, every edge
`(keyL, keyR, op)` of site `i` sits in a block of `W_i` that satisfies the charge rule
`q_left - q_right + qtotal(op) - Ws_qtotal[i] = 0` with the leg charges returned: what `npc.grid_outer` needs to accept
the grid. -/
theorem C10_legcharges_rule {α Q Q' : Type} [Add Q] [Sub Q] [Zero Q] [AddCommGroup Q'] (g : Graph α)
    (cd : ChargeData Q) (π : Q → Q') (c : Nat → Key → Q') (hπ : ChargeHom π cd)
    (hc : Consistent π g.L g.infinite g.layers g.orderedStates cd c)
    (hnc : cd.noCharges = true → ∀ x y : Q', x = y) (legs : List (List Q))
    (h : legcharges g cd = .ok legs) (i : Nat) (e : Edge Key α) (he : e ∈ g.layers.getD i []) (a b : Nat) (qa qb : Q)
    (ha : keyIdx (g.orderedStates.getD i []) e.kL = some a) (hb : keyIdx (g.orderedStates.getD (i + 1) []) e.kR = some b)
    (hqa : (legs.getD i [])[a]? = some qa) (hqb : (legs.getD (i + 1) [])[b]? = some qb) :
    π (qa - qb + cd.qop i e.op - cd.wq i) = 0 := by
  have h1 := legcharges_agree g cd π c hπ hc hnc legs h i a qa e.kL hqa (keyIdx_getElem? ha)
  have h2 := legcharges_agree g cd π c hπ hc hnc legs h (i + 1) b qb e.kR hqb (keyIdx_getElem? hb)
  rw [hπ.sub, hπ.add, hπ.sub, h1, h2, hc.edge i e he]
  abel

/-! ## non-vacuity: concrete instances of the hypotheses and conclusions -/
section examples

/-- finite chain of 3 sites: `2·Z₀ + 3·Sp₀ Sm₂ + 5·Sm₀ Sp₁` assembled with `add` (a repeated string edge is skipped) -/
def extCalls : List (Int × Key × Key × String × Int × Bool) :=
  [(0, Key.IdL, Key.IdR, "Z", 2, false),
   (0, Key.IdL, .tup [.n 0, .s "a"], "Sp", 1, false), (1, .tup [.n 0, .s "a"], .tup [.n 0, .s "a"], "Id", 1, true),
   (1, .tup [.n 0, .s "a"], .tup [.n 0, .s "a"], "Id", 1, true),
   (2, .tup [.n 0, .s "a"], Key.IdR, "Sm", 3, false),
   (0, Key.IdL, .tup [.n 1, .s "b"], "Sm", 1, false), (1, .tup [.n 1, .s "b"], Key.IdR, "Sp", 5, false)]

def extG : Graph Int :=
  (extCalls.foldl (fun g c => g.add c.1 c.2.1 c.2.2.1 c.2.2.2.1 c.2.2.2.2.1 c.2.2.2.2.2)
    (Graph.empty 3 false)).addMissingIdLIdR true

/-- one U(1) charge: `Sp` raises it, `Sm` lowers it -/
def extCd : ChargeData Int :=
  ⟨fun _ _ => true, fun _ n => if n = "Sp" then 1 else if n = "Sm" then -1 else 0, fun _ => 0, id, fun a b => a < b, false⟩

theorem extG_wf : GWF extG := C10_graph_add_wf 3 false extCalls (some true)

-- the graph has 4 states on the bond (0, 1), charges 0, +1, -1, 0 in the order IdL, (0,a), (1,b), IdR
example : extG.orderedStates.map List.length = [2, 4, 3, 2] := by decide
example : legcharges extG extCd = .ok [[0, 0], [0, 1, -1, 0], [0, 1, 0], [0, 0]] := by decide
example : (buildGrids extG).toOption.map (fun gr => gr.map (fun G => (G.length, (G.headD []).length))) =
    some [(2, 4), (4, 3), (3, 2)] := by decide

def extM : GMPO Int Int := (buildMPO extG extCd 3).toOption.getD ⟨.finite, [], [], [], [], .unknown, 1, 1⟩

example : (buildMPO extG extCd 3).toOption.isSome = true := by decide
example : (extM.idL, extM.idR) = ([some 0, some 0, some 0, some 0], [some 1, some 3, some 2, some 1]) := by decide
-- `C10_build_MPO_denote` on this instance: both sides are the three terms
example : canon 0 extM.denote = [([(0, "Sm"), (1, "Sp")], 5), ([(0, "Sp"), (2, "Sm")], 3), ([(0, "Z")], 2)] := by decide
example : canon 0 (denoteGraph extG) = [([(0, "Sm"), (1, "Sp")], 5), ([(0, "Sp"), (2, "Sm")], 3), ([(0, "Z")], 2)] := by
  decide

-- `group_sites(2)`: two grouped sites (2 + 1), same three terms
def extM2 : GMPO Int Int := (groupSites extM 2).toOption.getD extM
example : (groupSites extM 2).toOption.isSome = true := by decide
example : (extM2.L, extM2.idL, extM2.idR) = (2, [some 0, some 0, some 0], [some 1, some 2, some 1]) := by decide
example : canon 0 extM2.denote = [([(0, "Sm"), (1, "Sp")], 5), ([(0, "Sp"), (2, "Sm")], 3), ([(0, "Z")], 2)] := by decide
example : (groupSites extM 0).toOption.isNone = true := by decide

-- `sort_legcharges`: the leg with charges [0, 1, -1, 0] is permuted to [-1, 0, 0, 1], IdL moves from 0 to 1
example : sortPerm extCd.lt [0, 1, -1, 0] = [2, 0, 3, 1] := by decide
def extMs : GMPO Int Int := (sortLegcharges extM extCd.lt).toOption.getD extM
example : (sortLegcharges extM extCd.lt).toOption.isSome = true := by decide
example : (extMs.idL, extMs.idR, extMs.legs) =
    ([some 0, some 1, some 0, some 0], [some 1, some 2, some 1, some 1], [[0, 0], [-1, 0, 0, 1], [0, 0, 1], [0, 0]]) := by
  decide
example : canon 0 extMs.denote = [([(0, "Sm"), (1, "Sp")], 5), ([(0, "Sp"), (2, "Sm")], 3), ([(0, "Z")], 2)] := by decide

/-- infinite unit cell of 2 sites: `3·Sp₀ Sm₁ + 2·Z₁` -/
def extGi : Graph Int :=
  ([((0 : Int), Key.IdL, Key.tup [.n 0, .s "a"], "Sp", (1 : Int), false), (1, .tup [.n 0, .s "a"], Key.IdR, "Sm", 3, false),
    (1, Key.IdL, Key.IdR, "Z", 2, false)].foldl
    (fun g c => g.add c.1 c.2.1 c.2.2.1 c.2.2.2.1 c.2.2.2.2.1 c.2.2.2.2.2) (Graph.empty 2 true)).addMissingIdLIdR true

def extMi : GMPO Int Int := (buildMPO extGi extCd 2).toOption.getD ⟨.finite, [], [], [], [], .unknown, 1, 1⟩

example : (buildMPO extGi extCd 2).toOption.isSome = true := by decide
example : extMi.bc = Bc.infinite := by decide
example : extGi.orderedStates.head? = extGi.orderedStates.getLast? := by decide
example : canon 0 (extMi.denoteWindow 2) = canon 0 (pathsFrom Key.IdR (List.replicate 2 extGi.layers).flatten Key.IdL) := by
  decide
-- `enlarge_mps_unit_cell(2)`: one enlarged cell = two original cells; a finite MPO, factor 1 and factor 3/2 are rejected
def extMe : GMPO Int Int := (enlargeUnitCell extMi 2 1).toOption.getD extMi
example : (enlargeUnitCell extMi 2 1).toOption.isSome = true := by decide
example : (extMe.L, extMe.ucw) = (4, 4) := by decide
example : canon 0 (extMe.denoteWindow 1) = canon 0 (extMi.denoteWindow 2) := by decide
example : canon 0 (extMi.denoteWindow 2) =
    [([(0, "Sp"), (1, "Sm")], 3), ([(1, "Z")], 2), ([(2, "Sp"), (3, "Sm")], 3), ([(3, "Z")], 2)] := by decide
example : (enlargeUnitCell extM 2 1).toOption.isNone = true ∧ (enlargeUnitCell extMi 1 1).toOption.isNone = true ∧
    (enlargeUnitCell extMi 3 2).toOption.isNone = true := by decide
-- `extract_segment(0, 3)`: two unit cells, bc 'segment'
def extMseg : GMPO Int Int := (extractSegment extMi 0 ((2 * extMi.L - 1 : Nat) : Int)).toOption.getD extMi
example : (extractSegment extMi 0 ((2 * extMi.L - 1 : Nat) : Int)).toOption.isSome = true := by decide
example : (extMseg.bc, extMseg.L, extMseg.ucw) = (Bc.segment, 4, 4) := by decide
example : canon 0 extMseg.denote = canon 0 (extMi.denoteWindow 2) := by decide
-- sites_per_ring = L // unit_cell_width = 0 after group_sites: ZeroDivisionError (known finding)
example : ((groupSites extMi 2).toOption.map (fun m => (extractSegment m 0 0).toOption.isNone)) = some true := by decide

/-- the consistent charge assignment of `extG` -/
def extC : Nat → Key → Int
  | 1, .tup [.n 0, .s "a"] => 1
  | 2, .tup [.n 0, .s "a"] => 1
  | 1, .tup [.n 1, .s "b"] => -1
  | _, _ => 0

example : ChargeHom (id : Int → Int) extCd := ⟨fun _ _ => rfl, fun _ _ => rfl, rfl, fun _ => rfl⟩

example : Consistent (id : Int → Int) extG.L extG.infinite extG.layers extG.orderedStates extCd extC := by
  have hinf : extG.infinite = false := by decide
  refine ⟨rfl, ?_, fun h => by rw [hinf] at h; cases h⟩
  intro i e he
  match i with
  | 0 =>
    have : ∀ e ∈ extG.layers.getD 0 [], extC 1 e.kR = extC 0 e.kL - id (extCd.wq 0) + id (extCd.qop 0 e.op) := by decide
    exact this e he
  | 1 =>
    have : ∀ e ∈ extG.layers.getD 1 [], extC 2 e.kR = extC 1 e.kL - id (extCd.wq 1) + id (extCd.qop 1 e.op) := by decide
    exact this e he
  | 2 =>
    have : ∀ e ∈ extG.layers.getD 2 [], extC 3 e.kR = extC 2 e.kL - id (extCd.wq 2) + id (extCd.qop 2 e.op) := by decide
    exact this e he
  | n + 3 =>
    have : extG.layers.getD (n + 3) [] = [] := by
      have h3 : extG.layers.length = 3 := by decide
      rw [List.getD_eq_getElem?_getD, List.getElem?_eq_none (by omega)]; rfl
    rw [this] at he; cases he

end examples
