import TenpyModel.C10.ExtProofsB
/-!
# C10 — property theorems of the extension round

From the `MPOGraph` to the `MPO` (`_build_grids`, `build_MPO`, charges of the virtual legs) and the methods that only
change the representation of the MPO (`group_sites`, `enlarge_mps_unit_cell`, `extract_segment`, `sort_legcharges`).
Models: `C10/ExtMPO.lean`, `C10/ExtOps.lean`; helper lemmas: `C10/ExtProofs*.lean`.
-/
open TenpyModel.Ops TenpyModel.C10Ext

/-- **Graphs assembled with `MPOGraph.add` are well formed.**  Whatever sequence of
`add(i, keyL, keyR, opname, strength, skip_existing)` calls is made on an empty graph (optionally followed by
`add_missing_IdL_IdR(insert_all_id)`): there are `L` edge dictionaries and `L + 1` state sets, the state sets have no
duplicates, and both keys of every edge are registered states of the two bonds of its site — the assertions of
`MPOGraph.test_sanity` on keys, and the reason why `stR[keyR]` in `_build_grids` / `_calc_legcharges` cannot raise. -/
theorem C10_graph_add_wf {α : Type} [One α] (L : Nat) (infinite : Bool)
    (calls : List (Int × Key × Key × String × α × Bool)) (addMissing : Option Bool) :
    GWF (match addMissing with
      | none => calls.foldl (fun g c => g.add c.1 c.2.1 c.2.2.1 c.2.2.2.1 c.2.2.2.2.1 c.2.2.2.2.2) (Graph.empty L infinite)
      | some b => (calls.foldl (fun g c => g.add c.1 c.2.1 c.2.2.1 c.2.2.2.1 c.2.2.2.2.1 c.2.2.2.2.2)
          (Graph.empty L infinite)).addMissingIdLIdR b) := by
  have h : GWF (calls.foldl (fun g c => g.add c.1 c.2.1 c.2.2.1 c.2.2.2.1 c.2.2.2.2.1 c.2.2.2.2.2)
      (Graph.empty L infinite : Graph α)) := by
    apply foldl_inv (fun g : Graph α => GWF g) _ _ _ _ (GWF.empty L infinite)
    intro g c hg
    exact hg.add _ _ _ _ _ _
  cases addMissing with
  | none => exact h
  | some b => exact h.addMissing b

/-- **The graph of every model is well formed.**  `MPOGraph.from_terms` of any onsite / coupling / multi-coupling /
exponentially decaying containers (any contents, finite or infinite, any `insert_all_id`) yields a well-formed graph. -/
theorem C10_graph_from_terms_wf {α : Type} [One α] [Inhabited α] (L : Nat) (infinite : Bool)
    (terms : List (AnyTerms α)) (insertAll : Bool) : GWF (Graph.fromTerms L infinite terms insertAll) :=
  GWF.fromTerms L infinite terms insertAll

/-- **`_build_grids` keeps the operator.**  If `_build_grids` succeeds on a well-formed graph (no `KeyError`), then
the `[IdL, IdR]` entry of the ordered product of the operator-valued matrices `W_0 ⋯ W_{L-1}` it returns — rows and
columns indexed by the states in the order of `_mpo_graph_state_order` — is the sum over the `IdL → IdR` paths of the
graph: the same formal sum, string by string. -/
theorem C10_build_grids_denote {α : Type} [Semiring α] {g : Graph α} (h : GWF g) (grids : List (Grid α))
    (hb : buildGrids g = .ok grids) (l r : Nat)
    (hl : keyIdx (g.orderedStates.headD []) Key.IdL = some l)
    (hr : keyIdx (g.orderedStates.getLastD []) Key.IdR = some r) :
    Sym.Equiv (gridPaths r grids l) (denoteGraph g) :=
  buildGrids_denote h grids hb l r hl hr

/-- **`build_MPO` keeps the operator (finite chain).**  Whenever `MPOGraph.build_MPO` succeeds on a well-formed finite
graph — `test_sanity`, `_build_grids`, `_calc_legcharges` and the charge check of `from_grids` all pass — the MPO it
returns (grids together with the index lists `IdL`, `IdR`) denotes exactly the path sum of the graph; in particular an
MPO without an `IdR` state on its last bond denotes 0, as does its graph. -/
theorem C10_build_MPO_denote {α Q : Type} [Semiring α] [Add Q] [Sub Q] [Zero Q] [DecidableEq Q] {g : Graph α}
    (h : GWF g) (cd : ChargeData Q) (ucw : Nat) (m : GMPO α Q) (hb : buildMPO g cd ucw = .ok m) :
    Sym.Equiv m.denote (denoteGraph g) := by
  obtain ⟨grids, legs, hgr, hleg, hg1, hg2, hg3, _, _, _, _⟩ := buildMPO_ok hb
  -- IdL is a state of the first bond: `_calc_legcharges` looked it up
  have hne : g.orderedStates ≠ [] := by
    intro h0
    have := orderedStates_length g
    rw [h0, h.nStates] at this
    simp at this
  obtain ⟨st0, rest, hst⟩ := List.exists_cons_of_ne_nil hne
  obtain ⟨l0, hl0⟩ : ∃ l0, keyIdx (g.orderedStates.headD []) Key.IdL = some l0 := by
    unfold legcharges at hleg
    dsimp only at hleg
    split at hleg
    · cases hleg
    · next l0 hl0 => exact ⟨l0, by simpa [hst] using hl0⟩
  have hlen : g.orderedStates.length = g.layers.length + 1 := by
    rw [orderedStates_length, h.nStates, h.nLayers]
  have hok : gridsOk g.layers g.orderedStates = true := by
    unfold buildGrids at hgr
    split at hgr
    · assumption
    · cases hgr
  simp only [GMPO.denote, hg1, hg2, hg3, List.head?_map, List.getLast?_map]
  rw [hst] at hl0 ⊢
  simp only [List.head?_cons, Option.map_some, List.headD_cons] at hl0 ⊢
  rw [hl0]
  have hlast : (st0 :: rest).getLast? = some ((st0 :: rest).getLastD []) := by
    simp [List.getLast?_cons, List.getLastD_cons]
  rw [hlast]
  simp only [Option.map_some]
  cases hr : keyIdx ((st0 :: rest).getLastD []) Key.IdR with
  | some r =>
    simp only []
    exact buildGrids_denote h grids hgr l0 r (by rw [hst]; simpa using hl0) (by rw [hst]; exact hr)
  | none =>
    simp only []
    intro t
    have hnot : Key.IdR ∉ (st0 :: rest).getLastD [] := by
      intro hm
      obtain ⟨a, ha⟩ := keyIdx_isSome_of_mem hm
      rw [ha] at hr
      cases hr
    have := coeff_pathsFrom_zero Key.IdR g.layers g.orderedStates hlen hok (by rw [hst]; exact hnot)
      Key.IdL (by rw [hst]; simpa using mem_of_keyIdx hl0) t
    simpa [denoteGraph] using this.symm
