import TenpyModel.C10.P2_MT5
/-!
# C10 / Props2 (container level of `MultiCouplingTerms`), part 6: any sequence of valid calls
-/
namespace TenpyModel.Ops

open MultiCouplingTerms

section
variable {α : Type} [AddCommMonoid α]

/-- the calls of `add_multi_coupling_term` applied in order -/
def addCalls (mt : MultiCouplingTerms α) (calls : List (α × List Int × List String × List String × Switch)) :
    MultiCouplingTerms α :=
  calls.foldl (fun mt c => mt.add c.1 c.2.1 c.2.2.1 c.2.2.2.1 c.2.2.2.2) mt

theorem addCalls_inv (L : Nat) : ∀ (calls : List (α × List Int × List String × List String × Switch))
    (mt : MultiCouplingTerms α),
    (∀ c ∈ calls, MultiCallOK L c.2.1 c.2.2.1 c.2.2.2.1 c.2.2.2.2) → mt.L = L → MInv mt →
    (addCalls mt calls).L = L ∧ MInv (addCalls mt calls) ∧
    Sym.Equiv (addCalls mt calls).connDenote
      (mt.connDenote ++ calls.map (fun c => (multiStr L c.2.1 c.2.2.1 c.2.2.2.1, c.1))) := by
  intro calls
  induction calls with
  | nil =>
    intro mt _ hL hinv
    refine ⟨hL, hinv, ?_⟩
    simp only [addCalls, List.foldl_nil, List.map_nil, List.append_nil]
    exact Sym.Equiv.refl _
  | cons c calls ih =>
    intro mt h hL hinv
    have hc := h c List.mem_cons_self
    rw [← hL] at hc
    obtain ⟨hinv', hL'⟩ := hinv.add c.1 c.2.1 c.2.2.1 c.2.2.2.1 c.2.2.2.2 hc
    have hstep := connDenote_add hinv c.1 c.2.1 c.2.2.1 c.2.2.2.1 c.2.2.2.2 hc
    obtain ⟨r1, r2, r3⟩ := ih (mt.add c.1 c.2.1 c.2.2.1 c.2.2.2.1 c.2.2.2.2)
      (fun c' hc' => h c' (List.mem_cons_of_mem _ hc')) (hL'.trans hL) hinv'
    refine ⟨r1, r2, ?_⟩
    refine Sym.Equiv.trans r3 ?_
    rw [List.map_cons, ← List.singleton_append (l := List.map _ calls), ← List.append_assoc]
    rw [hL] at hstep
    exact Sym.Equiv.append hstep (Sym.Equiv.refl _)

end

end TenpyModel.Ops
