import TenpyModel.C10.P2_Exp8
/-!
# C10 / Props2: exponentially decaying terms, part 9: `to_TermList(bc='finite')` without cutoff, centred terms
-/
namespace TenpyModel.Ops

section sorted

theorem filter_le_step_gen (q : Nat → Bool) (l : List Nat) (h : l.Pairwise (· < ·)) (i : Nat) :
    l.filter (fun n => q n && decide (n ≤ i)) =
      l.filter (fun n => q n && decide (n < i)) ++ (if i ∈ l ∧ q i = true then [i] else []) := by
  induction l with
  | nil => simp
  | cons a l ih =>
    rw [List.pairwise_cons] at h
    have ih' := ih h.2
    rcases Nat.lt_trichotomy a i with hai | hai | hai
    · have hne : i ≠ a := by omega
      have e : (q a && decide (a ≤ i)) = (q a && decide (a < i)) := by
        have h1 : decide (a ≤ i) = true := by simp; omega
        have h2 : decide (a < i) = true := by simp; omega
        rw [h1, h2]
      have em : (i ∈ a :: l ∧ q i = true) ↔ (i ∈ l ∧ q i = true) := by simp [hne]
      rw [List.filter_cons, List.filter_cons, e, ih', if_congr em rfl rfl]
      split
      · rw [List.cons_append]
      · rfl
    · subst hai
      have hnil1 : l.filter (fun n => q n && decide (n ≤ a)) = [] := by
        rw [List.filter_eq_nil_iff]
        intro n hn
        have := h.1 n hn
        simp
        intro _
        omega
      have hnil2 : l.filter (fun n => q n && decide (n < a)) = [] := by
        rw [List.filter_eq_nil_iff]
        intro n hn
        have := h.1 n hn
        simp
        intro _
        omega
      rw [List.filter_cons, List.filter_cons, hnil1, hnil2]
      by_cases hq : q a = true
      · simp [hq]
      · simp [hq]
    · have hnot : i ∉ a :: l := by
        intro hm
        rcases List.mem_cons.1 hm with e | hm'
        · omega
        · have := h.1 i hm'; omega
      have hnot' : i ∉ l := fun hm => hnot (List.mem_cons_of_mem _ hm)
      rw [if_neg (fun hc => hnot hc.1), List.append_nil]
      rw [if_neg (fun hc => hnot' hc.1), List.append_nil] at ih'
      have e1 : (q a && decide (a ≤ i)) = false := by simp; intro _; omega
      have e2 : (q a && decide (a < i)) = false := by simp; intro _; omega
      rw [List.filter_cons, List.filter_cons, e1, e2]
      simpa using ih'

end sorted

section
variable {α : Type} [CommSemiring α] [Inhabited α]

theorem stermStr_pair' (L : Nat) (i j : Int) (hij : i < j) (opi str opj str' : String) :
    stermStr L 0 (sortSOps [⟨opi, i, str⟩, ⟨opj, j, str'⟩]) = couplingStr L i.toNat j.toNat opi str opj := by
  simp [sortSOps, sortSOps.ins, hij, stermStr, stermStr.stermStrTail, couplingStr]

theorem stermStr_pair_swap (L : Nat) (i j : Int) (hji : j < i) (opi str opj str' : String) :
    stermStr L 0 (sortSOps [⟨opi, i, str⟩, ⟨opj, j, str'⟩]) = couplingStr L j.toNat i.toNat opj str' opi := by
  have : ¬ (i < j) := by omega
  simp [sortSOps, sortSOps.ins, this, stermStr, stermStr.stermStrTail, couplingStr]

theorem CenteredTerm.termList_eq (t : CenteredTerm α) :
    t.termList = (t.subsites.filter (fun j => decide (j ≠ t.i))).map (fun j =>
      ([⟨t.opi, t.i, t.str⟩, ⟨t.opj, j, t.str⟩],
        t.strength * ExpDecayTerms.prodL
          ((if j < t.i then t.subsites.filter (fun n => decide (j < n ∧ n ≤ t.i))
            else t.subsites.filter (fun n => decide (t.i ≤ n ∧ n < j))).map (fun n => t.lam.getD n default)))) := by
  unfold CenteredTerm.termList
  simp only [Bool.false_eq_true, if_false]
  exact congrFun List.filterMap_eq_map' _

/-- prefactor of a left term: `Π_{j < n ≤ i}` -/
theorem CenteredTerm.prefL (t : CenteredTerm α) (L : Nat) (hok : t.OK L) (j : Nat) (hj : j < t.i) :
    ((t.subsites.filter (fun n => decide (j < n ∧ n ≤ t.i))).map (lamAt t.lam)).prod =
      t.w (j + 1) t.i * lamAt t.lam t.i := by
  have h1 : t.subsites.filter (fun n => decide (j < n ∧ n ≤ t.i)) =
      t.subsites.filter (fun n => decide (j < n) && decide (n ≤ t.i)) := by
    apply List.filter_congr; intro n _; simp
  rw [h1, filter_le_step_gen (fun n => decide (j < n)) _ hok.subs t.i, if_pos ⟨hok.mem, by simpa using hj⟩,
    List.map_append, List.prod_append]
  unfold CenteredTerm.w ExpTerm.w
  have h2 : t.rightTerm.subsites.filter (fun n => decide (j + 1 ≤ n ∧ n < t.i)) =
      t.subsites.filter (fun n => decide (j < n) && decide (n < t.i)) := by
    apply List.filter_congr; intro n _; simp [Nat.succ_le_iff]
  rw [h2]
  simp
  rfl

theorem CenteredTerm.termList_denote (t : CenteredTerm α) (L : Nat) (hok : t.OK L) :
    Sym.Equiv (STermList.denote L t.termList) (t.leftFrom L 0 ++ t.rightTerm.termsFrom L 0) := by
  rw [t.termList_eq]
  unfold STermList.denote
  rw [List.map_map]
  refine (Sym.Equiv.of_perm ((List.filter_append_perm (fun j => decide (j < t.i))
    (t.subsites.filter (fun j => decide (j ≠ t.i)))).map _).symm).trans ?_
  rw [List.map_append]
  apply Sym.Equiv.append
  · -- left terms
    apply Sym.Equiv.of_perm
    apply List.Perm.of_eq
    unfold CenteredTerm.leftFrom
    rw [List.filter_filter]
    have hf : t.subsites.filter (fun j => decide (j < t.i) && decide (j ≠ t.i)) =
        t.subsites.filter (fun j => decide (0 ≤ j) && decide (j < t.i)) := by
      apply List.filter_congr; intro n _; simp; omega
    rw [hf, map_eq_flatMap_singleton]
    apply List.flatMap_congr
    intro j hj
    have hji : j < t.i := by
      have := (List.mem_filter.1 hj).2
      simp at this
      exact this
    simp only [Function.comp_def, if_pos hji, CenteredTerm.tailL, List.map_cons, List.map_nil]
    rw [stermStr_pair_swap L (t.i : Int) (j : Int) (by omega), prodL_eq_prod]
    have := t.prefL L hok j hji
    unfold lamAt at this
    rw [this]
    have e1 : t.i - j - 1 = t.i - (j + 1) := by omega
    simp only [couplingStr, Int.toNat_natCast, Nat.sub_zero, e1, lamAt]
  · -- right terms
    apply Sym.Equiv.of_perm
    apply List.Perm.of_eq
    unfold ExpTerm.termsFrom ExpTerm.tail
    rw [List.filter_filter]
    have hf : t.subsites.filter (fun j => (!decide (j < t.i)) && decide (j ≠ t.i)) =
        t.subsites.filter (fun j => decide (t.i + 1 ≤ j)) := by
      apply List.filter_congr; intro n _
      by_cases h1 : n < t.i
      · simp [h1]; omega
      · by_cases h2 : n = t.i
        · simp [h2]
        · have h3 : t.i + 1 ≤ n := by omega
          simp [h1, h2, h3]
    have hst : t.rightTerm.subsitesStart.filter (fun i => decide (0 ≤ i)) = [t.i] := by
      simp [CenteredTerm.rightTerm]
    rw [hf, hst]
    simp only [List.flatMap_cons, List.flatMap_nil, List.append_nil, List.map_map]
    show _ = List.map _ (t.subsites.filter (fun j => decide (t.i + 1 ≤ j)))
    apply List.map_congr_left
    intro j hj
    have hij : t.i < j := by
      have := (List.mem_filter.1 hj).2
      simp at this
      omega
    simp only [Function.comp_def, if_neg (show ¬ j < t.i by omega)]
    rw [stermStr_pair' L (t.i : Int) (j : Int) (by omega), prodL_eq_prod]
    have hw := t.rightTerm.w_step hok.subs t.i j hij
    have hlc : t.rightTerm.lc t.i = lamAt t.lam t.i := by
      unfold ExpTerm.lc
      rw [if_pos (show t.i ∈ t.rightTerm.subsites from hok.mem)]
      rfl
    rw [hlc] at hw
    have e1 : j - t.i - 1 = j - (t.i + 1) := by omega
    refine Prod.ext ?_ ?_
    · simp only [couplingStr, Int.toNat_natCast, Nat.sub_zero, e1]
      rfl
    · show t.strength * _ = lamAt t.rightTerm.lam t.i * (t.rightTerm.w (t.i + 1) j * t.rightTerm.strength)
      have : ((t.subsites.filter (fun n => decide (t.i ≤ n ∧ n < j))).map (fun n => t.lam.getD n default)).prod =
          t.rightTerm.w t.i j := rfl
      rw [this, hw]
      show t.strength * (lamAt t.lam t.i * t.rightTerm.w (t.i + 1) j) =
        lamAt t.lam t.i * (t.rightTerm.w (t.i + 1) j * t.strength)
      ring

end

end TenpyModel.Ops
