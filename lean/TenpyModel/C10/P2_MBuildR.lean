import TenpyModel.C10.P2_MBuildL
/-!
# C10 / Props2: `MultiCouplingTerms._insert_to_graph` for `terms_right` as a sequence of "insert unless present"
operations (mirror image of `P2_MBuildL`)
-/
namespace TenpyModel.Ops

section
variable {α : Type} [DecidableEq α] [One α]

/-- loop body of `add_string_right_to_left` -/
def strStepRL (j : Int) (op : String) (acc : Graph α × Key) (k : Int) : Graph α × Key :=
  let keyL := if (j - k).emod acc.1.L = 0 then acc.2.ext k op op else acc.2
  (if acc.1.hasEdge (acc.1.siteOf k) keyL acc.2 then acc.1 else acc.1.add k keyL acc.2 op 1 true, keyL)

theorem addStringRL_eq (g : Graph α) (j i : Int) (key : Key) (op : String) :
    g.addStringRL j i key op =
      ((List.range (j - i - 1).toNat).map (fun (d : Nat) => j - 1 - (d : Int))).foldl (strStepRL j op) (g, key) := rfl

/-- the loop edges of the key `rkey (q ++ [t])` on the `n` sites left of `t` -/
def loopsR (q : List MKey) (t : MKey) (n : Nat) : List (Nat × Edge Key α) :=
  (List.range n).map (fun d => (t.1.toNat - 1 - d, (⟨rkey (q ++ [t]), rkey (q ++ [t]), t.2.2, 1⟩ : Edge Key α)))

omit [DecidableEq α] in
theorem loopsR_succ (q : List MKey) (t : MKey) (n : Nat) :
    loopsR (α := α) q t (n + 1) =
      loopsR q t n ++ [(t.1.toNat - 1 - n, ⟨rkey (q ++ [t]), rkey (q ++ [t]), t.2.2, 1⟩)] := by
  unfold loopsR
  rw [List.range_succ, List.map_append]
  rfl

omit [DecidableEq α] in
theorem canonR_loop (q : List MKey) (t : MKey) (k : Nat) (hk : (k : Int) < t.1) :
    CanonR k (⟨rkey (q ++ [t]), rkey (q ++ [t]), t.2.2, 1⟩ : Edge Key α) :=
  ⟨q, t, rfl, rfl, Or.inr ⟨hk, rfl, rfl⟩⟩

omit [DecidableEq α] in
theorem canonR_step (q : List MKey) (t : MKey) (k : Nat) (hk : t.1 = (k : Int)) :
    CanonR k (⟨rkey (q ++ [t]), rkey q, t.2.1, 1⟩ : Edge Key α) :=
  ⟨q, t, rfl, rfl, Or.inl ⟨hk, rfl, rfl⟩⟩

/-- `add_string_right_to_left` on a finite chain -/
theorem st_stringFoldR {L : Nat} (q : List MKey) (t : MKey) (hL : t.1 < (L : Int)) (g : Graph α)
    (S : Nat → List (Edge Key α)) (h : St L g S) :
    ∀ n : Nat, (n : Int) ≤ t.1 →
      (((List.range n).map (fun (d : Nat) => t.1 - 1 - (d : Int))).foldl (strStepRL t.1 t.2.2)
        (g, rkey (q ++ [t]))).2 = rkey (q ++ [t]) ∧
      St L (((List.range n).map (fun (d : Nat) => t.1 - 1 - (d : Int))).foldl (strStepRL t.1 t.2.2)
        (g, rkey (q ++ [t]))).1 (ensList S (loopsR q t n)) := by
  intro n
  induction n with
  | zero => intro _; exact ⟨rfl, h⟩
  | succ n ih =>
    intro hn
    obtain ⟨ih1, ih2⟩ := ih (by omega)
    rw [List.range_succ, List.map_append, List.foldl_append]
    simp only [List.map_cons, List.map_nil, List.foldl_cons, List.foldl_nil]
    generalize hr : ((List.range n).map (fun (d : Nat) => t.1 - 1 - (d : Int))).foldl (strStepRL t.1 t.2.2)
      (g, rkey (q ++ [t])) = r at ih1 ih2
    obtain ⟨g', key'⟩ := r
    simp only at ih1 ih2
    subst ih1
    have hne : ¬ ((t.1 - (t.1 - 1 - (n : Int))).emod g'.L = 0) := by
      rw [ih2.1.1]
      show ¬ ((t.1 - (t.1 - 1 - (n : Int))) % (L : Int) = 0)
      rw [Int.emod_eq_of_lt (by omega) (by omega)]
      omega
    unfold strStepRL
    simp only [if_neg hne]
    refine ⟨trivial, ?_⟩
    rw [loopsR_succ, ensList_append]
    have := ih2.ensure_guard (t.1 - 1 - (n : Int)) (by omega) (by omega)
      (⟨rkey (q ++ [t]), rkey (q ++ [t]), t.2.2, 1⟩ : Edge Key α)
      (Or.inr (canonR_loop q t _ (by omega)))
    have e : (t.1 - 1 - (n : Int)).toNat = t.1.toNat - 1 - n := by omega
    rw [e] at this
    exact this

theorem st_addStringRL {L : Nat} (q : List MKey) (t : MKey) (hL : t.1 < (L : Int)) (i : Int) (hij : i < t.1)
    (hi : -1 ≤ i) (g : Graph α) (S : Nat → List (Edge Key α)) (h : St L g S) :
    (g.addStringRL t.1 i (rkey (q ++ [t])) t.2.2).2 = rkey (q ++ [t]) ∧
    St L (g.addStringRL t.1 i (rkey (q ++ [t])) t.2.2).1 (ensList S (loopsR q t (t.1 - i - 1).toNat)) := by
  rw [addStringRL_eq]
  exact st_stringFoldR q t hL g S h (t.1 - i - 1).toNat (by omega)

/-- edges after the step of `t`: loops down to the next operator, its step, … -/
def tailChainR (q : List MKey) (t : MKey) : List MKey → List (Nat × Edge Key α)
  | [] => []
  | t' :: rest =>
    loopsR q t (t.1 - t'.1 - 1).toNat ++
      (t'.1.toNat, (⟨rkey (q ++ [t] ++ [t']), rkey (q ++ [t]), t'.2.1, 1⟩ : Edge Key α)) ::
        tailChainR (q ++ [t]) t' rest

/-- loop body of the walk along one path of `terms_right` -/
def pathStepR (acc : Graph α × Key × Int × String) (x : MKey) : Graph α × Key × Int × String :=
  let r := acc.1.addStringRL acc.2.2.1 x.1 acc.2.1 acc.2.2.2
  let keyJ := r.2.ext x.1 x.2.1 x.2.2
  (r.1.add x.1 keyJ r.2 x.2.1 1 true, keyJ, x.1, x.2.2)

theorem rkey_ext (q : List MKey) (t t' : MKey) :
    (rkey (q ++ [t])).ext t'.1 t'.2.1 t'.2.2 = rkey (q ++ [t] ++ [t']) := by
  rw [rkey_snoc, rkey_snoc]
  simp [Key.ext, keyAtoms]

theorem st_pathFoldR {L : Nat} :
    ∀ (rest : List MKey) (q : List MKey) (t : MKey) (g : Graph α) (S : Nat → List (Edge Key α)),
      St L g S → ((t :: rest).map (·.1)).Pairwise (· > ·) → (∀ x ∈ t :: rest, 0 ≤ x.1 ∧ x.1 < (L : Int)) →
      ∃ (qf : List MKey) (tf : MKey) (g' : Graph α), qf ++ [tf] = q ++ t :: rest ∧
        rest.foldl pathStepR (g, rkey (q ++ [t]), t.1, t.2.2) = (g', rkey (qf ++ [tf]), tf.1, tf.2.2) ∧
        St L g' (ensList S (tailChainR q t rest)) := by
  intro rest
  induction rest with
  | nil =>
    intro q t g S h _ _
    exact ⟨q, t, g, rfl, rfl, h⟩
  | cons t' rest ih =>
    intro q t g S h hdesc hb
    have ht := hb t List.mem_cons_self
    have ht' := hb t' (by simp)
    have hlt : t'.1 < t.1 := by
      simp only [List.map_cons, List.pairwise_cons] at hdesc
      exact hdesc.1 t'.1 (by simp)
    obtain ⟨s1, s2⟩ := st_addStringRL q t ht.2 t'.1 hlt (by omega) g S h
    have s3 := s2.ensure_add t'.1 ht'.1 ht'.2
      (⟨rkey (q ++ [t] ++ [t']), rkey (q ++ [t]), t'.2.1, 1⟩ : Edge Key α)
      (Or.inr (canonR_step (q ++ [t]) t' _ (by omega)))
    have hstep : pathStepR (g, rkey (q ++ [t]), t.1, t.2.2) t' =
        ((g.addStringRL t.1 t'.1 (rkey (q ++ [t])) t.2.2).1.add t'.1 (rkey (q ++ [t] ++ [t']))
          (rkey (q ++ [t])) t'.2.1 1 true, rkey (q ++ [t] ++ [t']), t'.1, t'.2.2) := by
      unfold pathStepR
      simp only [s1, rkey_ext]
    obtain ⟨qf, tf, g', e1, e2, e3⟩ := ih (q ++ [t]) t' _ _ s3
      (by simp only [List.map_cons, List.pairwise_cons] at hdesc ⊢; exact hdesc.2)
      (fun x hx => hb x (List.mem_cons_of_mem _ hx))
    refine ⟨qf, tf, g', by rw [e1]; simp, ?_, ?_⟩
    · rw [List.foldl_cons, hstep]
      exact e2
    · show St L g' (ensList S (loopsR q t (t.1 - t'.1 - 1).toNat ++ _ :: tailChainR (q ++ [t]) t' rest))
      rw [ensList_append, ensList_cons]
      exact e3

/-- the final strings down to the switch sites of the counters stored at the end of the path -/
def finalR (mt : MultiCouplingTerms α) (qf : List MKey) (tf : MKey) (cs : List Nat) : List (Nat × Edge Key α) :=
  cs.flatMap (fun c => match mt.conns.getD c none with
    | some k => loopsR qf tf (tf.1 - k.switchLR - 1).toNat
    | none => [])

def counterStepR (mt : MultiCouplingTerms α) (st : Graph α × Key × Int × String)
    (acc : Graph α × List (Nat × Key)) (c : Nat) : Graph α × List (Nat × Key) :=
  match mt.conns.getD c none with
  | some k =>
    let r := acc.1.addStringRL st.2.2.1 (k.switchLR - k.shift) st.2.1 st.2.2.2
    (r.1, acc.2 ++ [(c, r.2)])
  | none => acc

theorem st_counterFoldR {L : Nat} (mt : MultiCouplingTerms α) (qf : List MKey) (tf : MKey) (hL : tf.1 < (L : Int))
    (g0 : Graph α) :
    ∀ (cs : List Nat) (g : Graph α) (S : Nat → List (Edge Key α)) (acc : List (Nat × Key)), St L g S →
      (∀ c ∈ cs, ∀ k, mt.conns.getD c none = some k → k.switchLR < tf.1 ∧ 0 ≤ k.switchLR ∧ k.shift = 0) →
      (cs.foldl (counterStepR mt (g0, rkey (qf ++ [tf]), tf.1, tf.2.2)) (g, acc)).2 =
        acc ++ cs.filterMap (fun c => (mt.conns.getD c none).map (fun _ => (c, rkey (qf ++ [tf])))) ∧
      St L (cs.foldl (counterStepR mt (g0, rkey (qf ++ [tf]), tf.1, tf.2.2)) (g, acc)).1
        (ensList S (finalR mt qf tf cs)) := by
  intro cs
  induction cs with
  | nil => intro g S acc h _; exact ⟨by simp, h⟩
  | cons c cs ih =>
    intro g S acc h hb
    rw [List.foldl_cons]
    cases hc : mt.conns.getD c none with
    | none =>
      have hstep : counterStepR mt (g0, rkey (qf ++ [tf]), tf.1, tf.2.2) (g, acc) c = (g, acc) := by
        unfold counterStepR; rw [hc]
      rw [hstep]
      obtain ⟨i1, i2⟩ := ih g S acc h (fun c' hc' => hb c' (List.mem_cons_of_mem _ hc'))
      refine ⟨?_, ?_⟩
      · rw [i1, List.filterMap_cons, hc]; rfl
      · have : finalR mt qf tf (c :: cs) = finalR mt qf tf cs := by
          unfold finalR; rw [List.flatMap_cons, hc]; rfl
        rw [this]; exact i2
    | some k =>
      have hk := hb c List.mem_cons_self k hc
      obtain ⟨s1, s2⟩ := st_addStringRL qf tf hL k.switchLR hk.1 (by omega) g S h
      have hstep : counterStepR mt (g0, rkey (qf ++ [tf]), tf.1, tf.2.2) (g, acc) c =
          ((g.addStringRL tf.1 k.switchLR (rkey (qf ++ [tf])) tf.2.2).1, acc ++ [(c, rkey (qf ++ [tf]))]) := by
        unfold counterStepR; rw [hc]; simp only [hk.2.2, Int.sub_zero, s1]
      rw [hstep]
      obtain ⟨i1, i2⟩ := ih _ _ (acc ++ [(c, rkey (qf ++ [tf]))]) s2
        (fun c' hc' => hb c' (List.mem_cons_of_mem _ hc'))
      refine ⟨?_, ?_⟩
      · rw [i1, List.filterMap_cons, hc]; simp
      · have : finalR mt qf tf (c :: cs) =
            loopsR qf tf (tf.1 - k.switchLR - 1).toNat ++ finalR mt qf tf cs := by
          unfold finalR; rw [List.flatMap_cons, hc]
        rw [this, ensList_append]; exact i2

/-- all edges inserted for one root-to-counter path of `terms_right` -/
def edgesR (mt : MultiCouplingTerms α) (p : MPath) : List (Nat × Edge Key α) :=
  match p.path with
  | [] => []
  | t0 :: rest =>
    (t0.1.toNat, (⟨rkey [t0], Key.IdR, t0.2.1, 1⟩ : Edge Key α)) ::
      (tailChainR [] t0 rest ++
        finalR mt (t0 :: rest).dropLast ((t0 :: rest).getLast (by simp)) p.counters)

/-- the `(counter, key)` pairs returned for one path -/
def keysR (mt : MultiCouplingTerms α) (p : MPath) : List (Nat × Key) :=
  match p.path with
  | [] => p.counters.map (fun c => (c, Key.IdR))
  | _ :: _ => p.counters.filterMap (fun c => (mt.conns.getD c none).map (fun _ => (c, rkey p.path)))

omit [DecidableEq α] in
theorem insertRight_eq (mt : MultiCouplingTerms α) (g : Graph α) (p : MPath) (t0 : MKey) (rest : List MKey)
    (hp : p.path = t0 :: rest) :
    mt.insertRight g p =
      p.counters.foldl (counterStepR mt
        (rest.foldl pathStepR (g.add t0.1 (rkey [t0]) Key.IdR t0.2.1 1 true, rkey [t0], t0.1, t0.2.2)))
        ((rest.foldl pathStepR (g.add t0.1 (rkey [t0]) Key.IdR t0.2.1 1 true, rkey [t0], t0.1, t0.2.2)).1, []) := by
  unfold MultiCouplingTerms.insertRight
  rw [hp]
  rfl

theorem st_insertRight {L : Nat} (mt : MultiCouplingTerms α) (p : MPath) (g : Graph α)
    (S : Nat → List (Edge Key α)) (h : St L g S)
    (hdesc : (p.path.map (·.1)).Pairwise (· > ·)) (hb : ∀ x ∈ p.path, 0 ≤ x.1 ∧ x.1 < (L : Int))
    (hc : ∀ c ∈ p.counters, ∀ k, mt.conns.getD c none = some k →
      (∀ x ∈ p.path, k.switchLR < x.1) ∧ 0 ≤ k.switchLR ∧ k.shift = 0) :
    (mt.insertRight g p).2 = keysR mt p ∧ St L (mt.insertRight g p).1 (ensList S (edgesR mt p)) := by
  cases hp : p.path with
  | nil =>
    unfold MultiCouplingTerms.insertRight keysR edgesR
    rw [hp]
    exact ⟨rfl, h⟩
  | cons t0 rest =>
    rw [insertRight_eq mt g p t0 rest hp]
    rw [hp] at hdesc hb hc
    have ht0 := hb t0 List.mem_cons_self
    have s0 := h.ensure_add t0.1 ht0.1 ht0.2 (⟨rkey [t0], Key.IdR, t0.2.1, 1⟩ : Edge Key α)
      (Or.inr (canonR_step [] t0 _ (by omega)))
    obtain ⟨qf, tf, g', e1, e2, e3⟩ := st_pathFoldR rest [] t0 _ _ s0 hdesc hb
    have e2' : rest.foldl pathStepR (g.add t0.1 (rkey [t0]) Key.IdR t0.2.1 1 true, rkey [t0], t0.1, t0.2.2) =
        (g', rkey (qf ++ [tf]), tf.1, tf.2.2) := e2
    rw [e2']
    have htf : tf ∈ t0 :: rest := by
      have : tf ∈ qf ++ [tf] := by simp
      rw [e1] at this
      simpa using this
    have hdl : (t0 :: rest).dropLast = qf := by
      have : t0 :: rest = qf ++ [tf] := by rw [e1]; rfl
      rw [this, List.dropLast_concat]
    have hgl : (t0 :: rest).getLast (by simp) = tf := by
      have : t0 :: rest = qf ++ [tf] := by rw [e1]; rfl
      simp only [this, List.getLast_append_singleton]
    obtain ⟨f1, f2⟩ := st_counterFoldR (L := L) mt qf tf (hb tf htf).2 g' p.counters g' _ [] e3
      (fun c hcc k hk => ⟨(hc c hcc k hk).1 tf htf, (hc c hcc k hk).2⟩)
    refine ⟨?_, ?_⟩
    · rw [f1, List.nil_append]
      unfold keysR
      rw [hp]
      simp only
      have : rkey (qf ++ [tf]) = rkey (t0 :: rest) := by rw [e1]; rfl
      rw [this]
    · unfold edgesR
      rw [hp]
      simp only
      rw [ensList_cons, ensList_append, hdl, hgl]
      exact f2

end

end TenpyModel.Ops
