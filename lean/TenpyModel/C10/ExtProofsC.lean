import Mathlib.Algebra.Group.Defs
import Mathlib.Data.List.Perm.Basic
import Mathlib.Data.List.Perm.Lattice
import Mathlib.Data.List.Range
import TenpyModel.C10.ExtOps
/-!
# C10 extension, proofs part C: algebra of operator-valued matrices (`tensor`, `gridPaths`, `gridMul`)
All statements are permutations of the lists of summands: no cancellation, no commutativity of strengths needed.
-/
namespace TenpyModel.C10Ext
open TenpyModel.Ops
set_option linter.unusedSectionVars false

/-! ## lists -/

theorem flatMap_comm_perm {β γ δ : Type} (l1 : List β) (l2 : List γ) (f : β → γ → List δ) :
    (l1.flatMap fun a => l2.flatMap (f a)).Perm (l2.flatMap fun b => l1.flatMap fun a => f a b) := by
  induction l1 with
  | nil => simp
  | cons a l1 ih =>
    simp only [List.flatMap_cons]
    exact (List.Perm.append_left _ ih).trans (List.flatMap_append_perm l2 (f a) (fun b => l1.flatMap fun a => f a b))

theorem zipIdx_eq_range_map {β : Type} (l : List β) (d : β) :
    l.zipIdx = (List.range l.length).map (fun b => (l.getD b d, b)) := by
  apply List.ext_getElem?
  intro i
  by_cases h : i < l.length
  · simp [List.getElem?_zipIdx, List.getElem?_range, h, List.getD_eq_getElem?_getD]
  · have h' : l.length ≤ i := by omega
    simp [List.getElem?_zipIdx, h, h']

theorem zipIdx_flatMap {β γ : Type} (l : List β) (d : β) (f : β × Nat → List γ) :
    l.zipIdx.flatMap f = (List.range l.length).flatMap (fun b => f (l.getD b d, b)) := by
  rw [zipIdx_eq_range_map l d, List.flatMap_map]

variable {α : Type} [Monoid α]

/-! ## `tensor` -/

theorem tensor_nil_left' (s : Sym α) : tensor ([] : Sym α) s = [] := rfl

theorem tensor_nil_right (s : Sym α) : tensor s ([] : Sym α) = [] := by
  simp [tensor]

theorem tensor_flatMap_left {β : Type} (l : List β) (f : β → Sym α) (s : Sym α) :
    tensor (l.flatMap f) s = l.flatMap (fun x => tensor (f x) s) := by
  simp [tensor, List.flatMap_assoc]

theorem tensor_flatMap_right_perm {β : Type} (l : List β) (f : β → Sym α) (s : Sym α) :
    (tensor s (l.flatMap f)).Perm (l.flatMap (fun x => tensor s (f x))) := by
  unfold tensor
  simp only [List.map_flatMap]
  exact flatMap_comm_perm s l (fun p x => (f x).map (fun q => (p.1 ++ q.1, p.2 * q.2)))

theorem tensor_assoc (a b c : Sym α) : tensor (tensor a b) c = tensor a (tensor b c) := by
  simp [tensor, List.flatMap_assoc, List.map_flatMap, List.flatMap_map, List.map_map, mul_assoc, Function.comp_def]

theorem tensor_perm_right (s : Sym α) {x y : Sym α} (h : x.Perm y) : (tensor s x).Perm (tensor s y) := by
  unfold tensor
  exact List.Perm.flatMap_left _ (fun p _ => h.map _)

theorem ite_tensor (s x : Sym α) : (if s.isEmpty = true then [] else tensor s x) = tensor s x := by
  cases s <;> simp [tensor_nil_left']

/-! ## `gridPaths` -/

theorem gridPaths_nil (fin a : Nat) : gridPaths (α := α) fin [] a = if a = fin then [([], 1)] else [] := rfl

theorem gridPaths_cons (fin : Nat) (G : Grid α) (rest : List (Grid α)) (a : Nat) :
    gridPaths fin (G :: rest) a =
      (List.range (G.getD a []).length).flatMap (fun b => tensor ((G.getD a []).getD b []) (gridPaths fin rest b)) := by
  rw [gridPaths, zipIdx_flatMap _ ([] : Sym α)]
  simp only [ite_tensor]

/-- the path sum depends on the later grids only through their path sums -/
theorem gridPaths_congr (fin fin' : Nat) (G : Grid α) (r1 r2 : List (Grid α))
    (h : ∀ b, (gridPaths fin r1 b).Perm (gridPaths fin' r2 b)) (a : Nat) :
    (gridPaths fin (G :: r1) a).Perm (gridPaths fin' (G :: r2) a) := by
  rw [gridPaths_cons, gridPaths_cons]
  exact List.Perm.flatMap_left _ (fun b _ => tensor_perm_right _ (h b))

theorem gridPaths_congr_prefix (fin fin' : Nat) (pre : List (Grid α)) (r1 r2 : List (Grid α))
    (h : ∀ b, (gridPaths fin r1 b).Perm (gridPaths fin' r2 b)) (a : Nat) :
    (gridPaths fin (pre ++ r1) a).Perm (gridPaths fin' (pre ++ r2) a) := by
  induction pre generalizing a with
  | nil => exact h a
  | cons G pre ih => exact gridPaths_congr fin fin' G _ _ ih a

/-! ## `gridMul` -/

/-- all rows of a grid have the length of its first row -/
def Rect (G : Grid α) : Prop := ∀ row ∈ G, row.length = (G.headD []).length

theorem gridPaths_cons_rect (fin : Nat) (G : Grid α) (hG : Rect G) (rest : List (Grid α)) (b : Nat) :
    gridPaths fin (G :: rest) b =
      (List.range (G.headD []).length).flatMap (fun c => tensor ((G.getD b []).getD c []) (gridPaths fin rest c)) := by
  rw [gridPaths_cons]
  by_cases hb : b < G.length
  · have : (G.getD b []).length = (G.headD []).length := by
      apply hG
      rw [List.getD_eq_getElem?_getD, List.getElem?_eq_getElem hb]
      exact List.getElem_mem hb
    rw [this]
  · have hb' : G.getD b [] = [] := by
      rw [List.getD_eq_getElem?_getD, List.getElem?_eq_none (by omega)]; rfl
    rw [hb']
    simp [tensor_nil_left']

theorem gridMul_getD (G1 G2 : Grid α) (a : Nat) (ha : a < G1.length) :
    (gridMul G1 G2).getD a [] = (List.range (G2.headD []).length).map (fun c =>
      (List.range (G1.getD a []).length).flatMap (fun b =>
        tensor ((G1.getD a []).getD b []) ((G2.getD b []).getD c []))) := by
  unfold gridMul
  simp only [List.getD_eq_getElem?_getD, List.getElem?_map, List.getElem?_eq_getElem ha, Option.map_some,
    Option.getD_some]
  apply List.map_congr_left
  intro c _
  rw [zipIdx_flatMap _ ([] : Sym α)]
  simp [List.getD_eq_getElem?_getD]

theorem gridMul_length (G1 G2 : Grid α) : (gridMul G1 G2).length = G1.length := by
  simp [gridMul]

/-- `W₁·W₂` followed by the rest = `W₁` followed by `W₂` and the rest -/
theorem gridPaths_gridMul (fin : Nat) (G1 G2 : Grid α) (hG2 : Rect G2) (rest : List (Grid α)) (a : Nat) :
    (gridPaths fin (gridMul G1 G2 :: rest) a).Perm (gridPaths fin (G1 :: G2 :: rest) a) := by
  by_cases ha : a < G1.length
  · rw [gridPaths_cons, gridMul_getD G1 G2 a ha, gridPaths_cons]
    simp only [List.length_map, List.length_range]
    have h1 : ∀ c, c ∈ List.range (G2.headD []).length →
        (((List.range (G2.headD []).length).map (fun c =>
          (List.range (G1.getD a []).length).flatMap (fun b =>
            tensor ((G1.getD a []).getD b []) ((G2.getD b []).getD c [])))).getD c []) =
          (List.range (G1.getD a []).length).flatMap (fun b =>
            tensor ((G1.getD a []).getD b []) ((G2.getD b []).getD c [])) := by
      intro c hc
      have hc' : c < (G2.headD []).length := List.mem_range.1 hc
      rw [List.getD_eq_getElem?_getD, List.getElem?_map, List.getElem?_range hc']
      rfl
    rw [List.flatMap_congr (fun c hc => by rw [h1 c hc, tensor_flatMap_left])]
    simp only [tensor_assoc]
    refine (flatMap_comm_perm _ _ _).trans ?_
    apply List.Perm.flatMap_left
    intro b _
    rw [gridPaths_cons_rect fin G2 hG2 rest b]
    exact (tensor_flatMap_right_perm _ _ _).symm
  · have h1 : (gridMul G1 G2).getD a [] = [] := by
      rw [List.getD_eq_getElem?_getD, List.getElem?_eq_none (by rw [gridMul_length]; omega)]; rfl
    have h2 : G1.getD a [] = [] := by
      rw [List.getD_eq_getElem?_getD, List.getElem?_eq_none (by omega)]; rfl
    rw [gridPaths_cons, gridPaths_cons, h1, h2]
    simp

/-! ## `group_sites` -/

theorem gridPaths_foldl_gridMul (fin : Nat) (Gs : List (Grid α)) (hGs : ∀ G ∈ Gs, Rect G) (G : Grid α)
    (tail : List (Grid α)) (a : Nat) :
    (gridPaths fin (Gs.foldl gridMul G :: tail) a).Perm (gridPaths fin (G :: Gs ++ tail) a) := by
  induction Gs generalizing G with
  | nil => exact List.Perm.refl _
  | cons G2 Gs ih =>
    rw [List.foldl_cons]
    refine (ih (fun G' hG' => hGs G' (List.mem_cons_of_mem _ hG')) (gridMul G G2)).trans ?_
    exact gridPaths_gridMul fin G G2 (hGs G2 (List.mem_cons_self ..)) (Gs ++ tail) a

theorem gridPaths_groups (fin : Nat) (groups : List (List (Grid α))) (hne : ∀ grp ∈ groups, grp ≠ [])
    (hR : ∀ grp ∈ groups, ∀ G ∈ grp, Rect G) (a : Nat) :
    (gridPaths fin (groups.map groupGrids) a).Perm (gridPaths fin groups.flatten a) := by
  induction groups generalizing a with
  | nil => exact List.Perm.refl _
  | cons grp groups ih =>
    have ih' := fun b => ih (fun g hg => hne g (List.mem_cons_of_mem _ hg))
      (fun g hg => hR g (List.mem_cons_of_mem _ hg)) b
    match grp, hne grp (List.mem_cons_self ..), hR grp (List.mem_cons_self ..) with
    | G :: Gs, _, hRg =>
      simp only [List.map_cons, groupGrids, List.flatten_cons]
      refine (gridPaths_foldl_gridMul fin Gs (fun G' hG' => hRg G' (List.mem_cons_of_mem _ hG')) G _ a).trans ?_
      have := gridPaths_congr_prefix fin fin (G :: Gs) _ _ ih' a
      simpa using this

theorem chunksAux_flatten {β : Type} (n : Nat) (hn : 0 < n) (fuel : Nat) (l : List β) (h : l.length ≤ fuel) :
    (chunksAux n fuel l).flatten = l := by
  induction fuel generalizing l with
  | zero =>
    have : l = [] := List.eq_nil_of_length_eq_zero (by omega)
    subst this; rfl
  | succ fuel ih =>
    cases l with
    | nil => rfl
    | cons x l =>
      rw [chunksAux, List.flatten_cons, ih _ (by simp only [List.length_drop, List.length_cons] at h ⊢; omega),
        List.take_append_drop]

theorem chunksAux_ne_nil {β : Type} (n : Nat) (hn : 0 < n) (fuel : Nat) (l : List β) :
    ∀ grp ∈ chunksAux n fuel l, grp ≠ [] := by
  induction fuel generalizing l with
  | zero => intro grp h; simp [chunksAux] at h
  | succ fuel ih =>
    cases l with
    | nil => intro grp h; simp [chunksAux] at h
    | cons x l =>
      intro grp h
      rw [chunksAux, List.mem_cons] at h
      rcases h with h | h
      · subst h
        cases n with
        | zero => omega
        | succ n => simp
      · exact ih _ grp h

theorem chunksAux_mem {β : Type} (n : Nat) (fuel : Nat) (l : List β) :
    ∀ grp ∈ chunksAux n fuel l, ∀ x ∈ grp, x ∈ l := by
  induction fuel generalizing l with
  | zero => intro grp h; simp [chunksAux] at h
  | succ fuel ih =>
    cases l with
    | nil => intro grp h; simp [chunksAux] at h
    | cons y l =>
      intro grp h x hx
      rw [chunksAux, List.mem_cons] at h
      rcases h with h | h
      · subst h; exact List.mem_of_mem_take hx
      · exact List.mem_of_mem_drop (ih _ grp h x hx)

/-- the grids of the grouped MPO denote what the original grids denote -/
theorem gridPaths_chunks (fin : Nat) (n : Nat) (hn : 0 < n) (grids : List (Grid α)) (hR : ∀ G ∈ grids, Rect G)
    (a : Nat) :
    (gridPaths fin ((chunks n grids).map groupGrids) a).Perm (gridPaths fin grids a) := by
  have := gridPaths_groups fin (chunks n grids) (chunksAux_ne_nil n hn _ _)
    (fun grp hg G hG => hR G (chunksAux_mem n _ _ grp hg G hG)) a
  rwa [chunks, chunksAux_flatten n hn _ _ (Nat.le_refl _)] at this

end TenpyModel.C10Ext
