import TenpyModel.C10.P2_Exp1
/-!
# C10 / Props2: `ExponentiallyDecayingTerms.add_to_graph` on a finite chain, part 2: the `Rep` theorem
-/
namespace TenpyModel.Ops

section steps
variable {α : Type} [One α] [Inhabited α]

/-- loop body of a plain term -/
def termBody (t : ExpTerm α) (label : Key) (g : Graph α) (i : Nat) : Graph α :=
  let g := if t.subsites.contains i then
      (g.add i label label t.str (lamAt t.lam i)).add i label Key.IdR t.opj t.strength
    else g
  let g := if t.subsitesStart.contains i then g.add i Key.IdL label t.opi (lamAt t.lam i) else g
  if !t.subsites.contains i then g.add i label label t.str 1 else g

/-- finite branch for one plain term -/
def termFin (t : ExpTerm α) (label : Key) (g : Graph α) : Graph α :=
  if t.first < t.last then
    let g := g.add t.first Key.IdL label t.opi (lamAt t.lam t.first)
    let g := ((List.range (t.last - t.first - 1)).map (· + t.first + 1)).foldl (termBody t label) g
    g.add t.last label Key.IdR t.opj t.strength
  else g

def termStep (L : Nat) (finite : Bool) (acc : Graph α × Nat) (t : ExpTerm α) : Graph α × Nat :=
  (if !finite then (List.range L).foldl (termBody t (ExpDecayTerms.expLabel acc.2)) acc.1
   else termFin t (ExpDecayTerms.expLabel acc.2) acc.1, acc.2 + 1)

def centBodyL (t : CenteredTerm α) (label : Key) (g : Graph α) (j : Nat) : Graph α :=
  if t.subsites.contains j then
    (g.add j Key.IdL label t.opj t.strength).add j label label t.str (lamAt t.lam j)
  else g.add j label label t.str 1

def centBodyR (t : CenteredTerm α) (label : Key) (g : Graph α) (j : Nat) : Graph α :=
  if t.subsites.contains j then
    (g.add j label label t.str (lamAt t.lam j)).add j label Key.IdR t.opj t.strength
  else g.add j label label t.str 1

def centL (t : CenteredTerm α) (label : Key) (g : Graph α) : Graph α :=
  if t.i ≠ t.first then
    let g := g.add t.first Key.IdL label t.opj t.strength
    let g := ((List.range (t.i - t.first - 1)).map (· + t.first + 1)).foldl (centBodyL t label) g
    g.add t.i label Key.IdR t.opi (lamAt t.lam t.i)
  else g

def centR (t : CenteredTerm α) (label : Key) (g : Graph α) : Graph α :=
  if t.i ≠ t.last then
    let g := g.add t.i Key.IdL label t.opi (lamAt t.lam t.i)
    let g := ((List.range (t.last - t.i - 1)).map (· + t.i + 1)).foldl (centBodyR t label) g
    g.add t.last label Key.IdR t.opj t.strength
  else g

def centStep (acc : Graph α × Nat) (t : CenteredTerm α) : Graph α × Nat :=
  (centR t (ExpDecayTerms.expLabel acc.2) (centL t (ExpDecayTerms.expLabel acc.2) acc.1), acc.2 + 1)

theorem exp_addToGraph_eq (e : ExpDecayTerms α) (g : Graph α) :
    e.addToGraph g =
      bumpRange (e.centered.foldl centStep (e.terms.foldl (termStep e.L (!g.infinite)) (g, 1000))).1 .inf := rfl

end steps

section rep
variable {α : Type} [One α] [Inhabited α]

theorem repF_termBody {L : Nat} (t : ExpTerm α) (lab : Key) (g : Graph α) (S : Nat → List (Edge Key α)) (i : Nat)
    (hi : i < L) (h : RepF L g S) :
    RepF L (termBody t lab g i) (fun k => S k ++ if k = i then t.bodyEdges lab i else []) := by
  unfold termBody ExpTerm.bodyEdges
  by_cases h1 : t.subsites.contains i = true <;> by_cases h2 : t.subsitesStart.contains i = true
  · simp only [h1, h2, if_true, Bool.not_true, Bool.false_eq_true, if_false]
    refine ((((h.add i hi _ _ _ _).add i hi _ _ _ _).add i hi _ _ _ _)).congr_eq ?_
    intro k _
    by_cases e : k = i <;> simp [e]
  · simp only [h1, h2, if_true, Bool.not_true, Bool.false_eq_true, if_false]
    refine (((h.add i hi _ _ _ _).add i hi _ _ _ _)).congr_eq ?_
    intro k _
    by_cases e : k = i <;> simp [e]
  · simp only [h1, h2, if_true, Bool.false_eq_true, if_false, Bool.not_false]
    refine (((h.add i hi _ _ _ _).add i hi _ _ _ _)).congr_eq ?_
    intro k _
    by_cases e : k = i <;> simp [e]
  · simp only [h1, h2, if_true, Bool.false_eq_true, if_false, Bool.not_false]
    refine ((h.add i hi _ _ _ _)).congr_eq ?_
    intro k _
    by_cases e : k = i <;> simp [e]

theorem repF_centBodyL {L : Nat} (t : CenteredTerm α) (lab : Key) (g : Graph α) (S : Nat → List (Edge Key α))
    (i : Nat) (hi : i < L) (h : RepF L g S) :
    RepF L (centBodyL t lab g i) (fun k => S k ++ if k = i then t.bodyL lab i else []) := by
  unfold centBodyL CenteredTerm.bodyL
  by_cases h1 : t.subsites.contains i = true
  · simp only [h1, if_true]
    refine (((h.add i hi _ _ _ _).add i hi _ _ _ _)).congr_eq ?_
    intro k _
    by_cases e : k = i <;> simp [e]
  · simp only [h1, Bool.false_eq_true, if_false]
    exact h.add i hi _ _ _ _

theorem repF_centBodyR {L : Nat} (t : CenteredTerm α) (lab : Key) (g : Graph α) (S : Nat → List (Edge Key α))
    (i : Nat) (hi : i < L) (h : RepF L g S) :
    RepF L (centBodyR t lab g i) (fun k => S k ++ if k = i then t.bodyR lab i else []) := by
  unfold centBodyR CenteredTerm.bodyR
  by_cases h1 : t.subsites.contains i = true
  · simp only [h1, if_true]
    refine (((h.add i hi _ _ _ _).add i hi _ _ _ _)).congr_eq ?_
    intro k _
    by_cases e : k = i <;> simp [e]
  · simp only [h1, Bool.false_eq_true, if_false]
    exact h.add i hi _ _ _ _

theorem repF_termFin {L : Nat} (t : ExpTerm α) (lab : Key) (hlast : t.first < t.last → t.last < L)
    (g : Graph α) (S : Nat → List (Edge Key α)) (h : RepF L g S) :
    RepF L (termFin t lab g) (fun k => S k ++ t.edgesAt lab k) := by
  unfold termFin ExpTerm.edgesAt
  by_cases hfl : t.first < t.last
  · have hl := hlast hfl
    simp only [if_pos hfl]
    have h1 := h.add t.first (by omega) Key.IdL lab t.opi (lamAt t.lam t.first)
    have h2 := repF_rangeFold (termBody t lab) (t.bodyEdges lab) (fun g S i hi hh => repF_termBody t lab g S i hi hh)
      t.first (t.last - t.first - 1) _ _ (by omega) h1
    have h3 := h2.add t.last hl lab Key.IdR t.opj t.strength
    refine h3.congr_eq ?_
    intro k _
    simp only [List.append_assoc]
  · simp only [if_neg hfl]
    exact h.congr_eq (fun k _ => by simp)

theorem repF_centL {L : Nat} (t : CenteredTerm α) (lab : Key) (hi : t.i < L) (hfi : t.first ≤ t.i)
    (g : Graph α) (S : Nat → List (Edge Key α)) (h : RepF L g S) :
    RepF L (centL t lab g) (fun k => S k ++ t.edgesL lab k) := by
  unfold centL CenteredTerm.edgesL
  by_cases hfl : t.i ≠ t.first
  · simp only [if_pos hfl]
    have h1 := h.add t.first (by omega) Key.IdL lab t.opj t.strength
    have h2 := repF_rangeFold (centBodyL t lab) (t.bodyL lab) (fun g S i hi hh => repF_centBodyL t lab g S i hi hh)
      t.first (t.i - t.first - 1) _ _ (by omega) h1
    have h3 := h2.add t.i hi lab Key.IdR t.opi (lamAt t.lam t.i)
    refine h3.congr_eq ?_
    intro k _
    simp only [List.append_assoc]
  · simp only [if_neg hfl]
    exact h.congr_eq (fun k _ => by simp)

theorem repF_centR {L : Nat} (t : CenteredTerm α) (lab : Key) (hl : t.last < L) (hil : t.i ≤ t.last)
    (g : Graph α) (S : Nat → List (Edge Key α)) (h : RepF L g S) :
    RepF L (centR t lab g) (fun k => S k ++ t.edgesR lab k) := by
  unfold centR CenteredTerm.edgesR
  by_cases hfl : t.i ≠ t.last
  · simp only [if_pos hfl]
    have h1 := h.add t.i (by omega) Key.IdL lab t.opi (lamAt t.lam t.i)
    have h2 := repF_rangeFold (centBodyR t lab) (t.bodyR lab) (fun g S i hi hh => repF_centBodyR t lab g S i hi hh)
      t.i (t.last - t.i - 1) _ _ (by omega) h1
    have h3 := h2.add t.last hl lab Key.IdR t.opj t.strength
    refine h3.congr_eq ?_
    intro k _
    simp only [List.append_assoc]
  · simp only [if_neg hfl]
    exact h.congr_eq (fun k _ => by simp)

omit [One α] [Inhabited α] in
/-- a fold whose state carries a running number -/
theorem repF_foldNr {L : Nat} {τ : Type} (step : Graph α × Nat → τ → Graph α × Nat)
    (E : τ → Key → Nat → List (Edge Key α)) (P : τ → Prop)
    (hstep : ∀ g nr t S, P t → RepF L g S →
      RepF L (step (g, nr) t).1 (fun k => S k ++ E t (ExpDecayTerms.expLabel nr) k) ∧ (step (g, nr) t).2 = nr + 1) :
    ∀ (l : List τ) (g : Graph α) (nr : Nat) (S : Nat → List (Edge Key α)), (∀ t ∈ l, P t) → RepF L g S →
      RepF L (l.foldl step (g, nr)).1
        (fun k => S k ++ (l.zipIdx nr).flatMap (fun p => E p.1 (ExpDecayTerms.expLabel p.2) k)) ∧
      (l.foldl step (g, nr)).2 = nr + l.length := by
  intro l
  induction l with
  | nil =>
    intro g nr S _ h
    exact ⟨h.congr_eq (fun k _ => by simp), rfl⟩
  | cons t l ih =>
    intro g nr S hP h
    rw [List.foldl_cons]
    obtain ⟨s1, s2⟩ := hstep g nr t S (hP t List.mem_cons_self) h
    have e : step (g, nr) t = ((step (g, nr) t).1, nr + 1) := by rw [← s2]
    rw [e]
    obtain ⟨r1, r2⟩ := ih _ (nr + 1) _ (fun t' ht' => hP t' (List.mem_cons_of_mem _ ht')) s1
    refine ⟨r1.congr_eq ?_, ?_⟩
    · intro k _
      simp only [List.zipIdx_cons, List.flatMap_cons, List.append_assoc]
    · rw [r2, List.length_cons]; omega

end rep

/-! ## sorted lists of sites -/
section sorted

theorem getLastD_mem (l : List Nat) (d : Nat) (h : l ≠ []) : l.getLastD d ∈ l := by
  induction l generalizing d with
  | nil => exact absurd rfl h
  | cons a l ih =>
    rw [List.getLastD_cons]
    cases l with
    | nil => simp
    | cons b l => exact List.mem_cons_of_mem _ (ih a (by simp))

theorem le_getLastD_of_sorted (l : List Nat) (h : l.Pairwise (· < ·)) (d x : Nat) (hx : x ∈ l) :
    x ≤ l.getLastD d := by
  induction l generalizing d with
  | nil => simp at hx
  | cons a l ih =>
    rw [List.pairwise_cons] at h
    rw [List.getLastD_cons]
    rcases List.mem_cons.1 hx with e | hx'
    · subst e
      cases l with
      | nil => simp
      | cons b l => exact Nat.le_of_lt (h.1 _ (getLastD_mem (b :: l) x (by simp)))
    · exact ih h.2 a hx'

theorem headD_le_of_sorted (l : List Nat) (h : l.Pairwise (· < ·)) (d x : Nat) (hx : x ∈ l) :
    l.headD d ≤ x := by
  cases l with
  | nil => simp at hx
  | cons a l =>
    rw [List.pairwise_cons] at h
    rcases List.mem_cons.1 hx with e | hx'
    · subst e; simp
    · exact Nat.le_of_lt (h.1 x hx')

theorem headD_mem (l : List Nat) (d : Nat) (h : l ≠ []) : l.headD d ∈ l := by
  cases l with
  | nil => exact absurd rfl h
  | cons a l => simp

end sorted

section main
variable {α : Type} [One α] [Inhabited α]

omit [One α] [Inhabited α] in
theorem ExpTerm.last_lt {L : Nat} (t : ExpTerm α) (h : ∀ j ∈ t.subsites, j < L) (hfl : t.first < t.last) :
    t.last < L := by
  apply h
  unfold ExpTerm.last at hfl ⊢
  apply getLastD_mem
  intro e
  rw [e] at hfl
  simp at hfl

theorem exp_addToGraph_rep (L : Nat) (e : ExpDecayTerms α) (he : e.L = L) (hwf : e.FWF)
    (g : Graph α) (S : Nat → List (Edge Key α)) (h : Rep L g S) (hinf : g.infinite = false) :
    Rep L (e.addToGraph g) (fun k => S k ++ expNew e k) ∧ (e.addToGraph g).infinite = false := by
  rw [exp_addToGraph_eq, hinf, bumpRange_infinite]
  have h0 : RepF L g S := ⟨h, hinf⟩
  obtain ⟨r1, n1⟩ := repF_foldNr (L := L) (termStep e.L (!false)) (fun t lab k => t.edgesAt lab k)
    (fun t => ∀ j ∈ t.subsites, j < L)
    (fun g nr t S hP hh => ⟨repF_termFin t _ (t.last_lt hP) g S hh, rfl⟩) e.terms g 1000 S
    (fun t ht => he ▸ (hwf.subs t ht).2) h0
  generalize e.terms.foldl (termStep e.L (!false)) (g, 1000) = acc at r1 n1
  obtain ⟨g1, nr1⟩ := acc
  simp only at r1 n1
  subst n1
  obtain ⟨r2, _⟩ := repF_foldNr (L := L) centStep (fun t lab k => t.edgesAt lab k)
    (fun t => t.subsites.Pairwise (· < ·) ∧ (∀ j ∈ t.subsites, j < L) ∧ t.i ∈ t.subsites)
    (fun g nr t S hP hh => by
      have hne : t.subsites ≠ [] := List.ne_nil_of_mem hP.2.2
      have hi : t.i < L := hP.2.1 _ hP.2.2
      have hl : t.last < L := hP.2.1 _ (getLastD_mem _ _ hne)
      refine ⟨?_, rfl⟩
      have a := repF_centL t (ExpDecayTerms.expLabel nr) hi (headD_le_of_sorted _ hP.1 0 _ hP.2.2) g S hh
      have b := repF_centR t (ExpDecayTerms.expLabel nr) hl (le_getLastD_of_sorted _ hP.1 0 _ hP.2.2) _ _ a
      refine b.congr_eq ?_
      intro k _
      simp only [CenteredTerm.edgesAt, List.append_assoc])
    e.centered g1 (1000 + e.terms.length) _ (fun t ht => he ▸ hwf.csubs t ht) r1
  refine ⟨(r2.1.bump _).congr_eq ?_, r2.2⟩
  intro k _
  simp only [expNew, List.append_assoc]

end main

end TenpyModel.Ops
