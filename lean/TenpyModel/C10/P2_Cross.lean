import TenpyModel.C10.P2_Chain
/-!
# C10 / Props2: a layered automaton made of a left part, a right part and crossing edges

Every `IdL → IdR` path uses exactly one edge from the left class of keys to the right class.  With the
crossing edges added one at a time (`coeff_pathsFrom_add_edge`) the path sum is
`Σ_x (prefix into x.kL) ⊗ x ⊗ (suffix out of x.kR)`, and both factors are single strings (`P2_Chain`).
-/
namespace TenpyModel.Ops

section
variable {α : Type}

/-- a crossing edge together with the trie paths of its two ends -/
structure Cross (α : Type) where
  site : Nat
  pl : List MKey
  pr : List MKey
  op : String
  c : α

def Cross.edge (x : Cross α) : Edge Key α := ⟨lkey x.pl, rkey x.pr, x.op, x.c⟩

def addAt (G : Nat → List (Edge Key α)) (s : Nat) (e : Edge Key α) : Nat → List (Edge Key α) :=
  fun k => if k = s then G k ++ [e] else G k

def addAll (G : Nat → List (Edge Key α)) (X : List (Cross α)) : Nat → List (Edge Key α) :=
  X.foldl (fun G x => addAt G x.site x.edge) G

/-- positional string of a crossing edge with its two chains -/
def connStrN (L : Nat) (pl : List MKey) (s : Nat) (op : String) (pr : List MKey) : OpStr :=
  leftStrRev pl.reverse s ++ op :: rightFrom L (s + 1) pr.reverse

theorem connStr_eq (L : Nat) (pl : List MKey) (sw : Int) (op : String) (pr : List MKey) :
    connStr L pl sw op pr = connStrN L pl sw.toNat op pr := rfl

variable [One α]

/-- the uniqueness / loop part of what the chain lemmas need -/
structure Good (L : Nat) (G : Nat → List (Edge Key α)) : Prop where
  inU : ∀ k, k < L → InUniq (G k)
  outU : ∀ k, k < L → OutUniq (G k)
  loopL : ∀ k, k < L → (⟨Key.IdL, Key.IdL, "Id", 1⟩ : Edge Key α) ∈ G k
  loopR : ∀ k, k < L → (⟨Key.IdR, Key.IdR, "Id", 1⟩ : Edge Key α) ∈ G k

structure CrossOK (L : Nat) (G : Nat → List (Edge Key α)) (x : Cross α) : Prop where
  site : x.site < L
  asc : (x.pl.map (·.1)).Pairwise (· < ·)
  lb : ∀ t ∈ x.pl, 0 ≤ t.1 ∧ t.1 < (x.site : Int)
  desc : (x.pr.map (·.1)).Pairwise (· > ·)
  rb : ∀ t ∈ x.pr, (x.site : Int) < t.1 ∧ t.1 < (L : Int)
  chL : ∀ y ∈ leftChain (α := α) x.pl (x.site : Int), y.2 ∈ G y.1
  chR : ∀ y ∈ rightChain (α := α) x.pr (x.site : Int), y.2 ∈ G y.1

omit [One α] in
theorem addAt_mem (G : Nat → List (Edge Key α)) (s : Nat) (e e' : Edge Key α) (k : Nat) (h : e' ∈ G k) :
    e' ∈ addAt G s e k := by
  unfold addAt
  split
  · exact List.mem_append_left _ h
  · exact h

theorem Good.addAt {L : Nat} {G : Nat → List (Edge Key α)} (h : Good L G) (s : Nat) (e : Edge Key α)
    (hl : e.kR.isLeft = false) (hr : e.kL.isRight = false) : Good L (addAt G s e) := by
  refine ⟨?_, ?_, fun k hk => addAt_mem _ _ _ _ _ (h.loopL k hk), fun k hk => addAt_mem _ _ _ _ _ (h.loopR k hk)⟩
  · intro k hk
    unfold TenpyModel.Ops.addAt InUniq
    split
    · rw [List.filter_append, List.filter_cons_of_neg (by simp [hl]), List.filter_nil, List.append_nil]
      exact h.inU k hk
    · exact h.inU k hk
  · intro k hk
    unfold TenpyModel.Ops.addAt OutUniq
    split
    · rw [List.filter_append, List.filter_cons_of_neg (by simp [hr]), List.filter_nil, List.append_nil]
      exact h.outU k hk
    · exact h.outU k hk

theorem CrossOK.addAt {L : Nat} {G : Nat → List (Edge Key α)} {x : Cross α} (h : CrossOK L G x) (s : Nat)
    (e : Edge Key α) : CrossOK L (addAt G s e) x :=
  ⟨h.site, h.asc, h.lb, h.desc, h.rb, fun y hy => addAt_mem _ _ _ _ _ (h.chL y hy),
    fun y hy => addAt_mem _ _ _ _ _ (h.chR y hy)⟩

end

section lengths

theorem idStr_length (n : Nat) : (idStr n).length = n := by simp [idStr]

/-- the prefix string of a left path has one letter per site -/
theorem leftStrRev_length : ∀ (r : List MKey) (k : Nat),
    (r.map (·.1)).Pairwise (· > ·) → (∀ t ∈ r, 0 ≤ t.1 ∧ t.1 < (k : Int)) → (leftStrRev r k).length = k := by
  intro r
  induction r with
  | nil => intro k _ _; exact idStr_length k
  | cons t q ih =>
    intro k hd hb
    have ht := hb t List.mem_cons_self
    simp only [List.map_cons, List.pairwise_cons] at hd
    have hq := ih t.1.toNat hd.2 (by
      intro x hx
      have h1 := hb x (List.mem_cons_of_mem _ hx)
      have h2 := hd.1 x.1 (List.mem_map.2 ⟨x, hx, rfl⟩)
      omega)
    simp only [leftStrRev, List.length_append, List.length_cons, List.length_replicate, hq]
    omega

end lengths

section main
variable {α : Type} [CommSemiring α]

omit [CommSemiring α] in
theorem range_split (L s : Nat) (hs : s < L) :
    List.range L = List.range s ++ s :: List.range' (s + 1) (L - (s + 1)) := by
  have h1 : L = s + (L - s) := by omega
  conv_lhs => rw [h1, List.range_eq_range', ← List.range'_append_1 (s := 0) (m := s) (n := L - s)]
  rw [← List.range_eq_range', Nat.zero_add]
  congr 1
  have h2 : L - s = (L - (s + 1)) + 1 := by omega
  rw [h2, List.range'_succ]

omit [CommSemiring α] in
theorem layersOf_split (L s : Nat) (hs : s < L) (G : Nat → List (Edge Key α)) :
    layersOf L G = (List.range s).map G ++ G s :: (List.range' (s + 1) (L - (s + 1))).map G := by
  unfold layersOf
  rw [range_split L s hs, List.map_append, List.map_cons]

omit [CommSemiring α] in
theorem layersOf_addAt (L s : Nat) (hs : s < L) (G : Nat → List (Edge Key α)) (e : Edge Key α) :
    layersOf L (addAt G s e) =
      (List.range s).map G ++ (G s ++ [e]) :: (List.range' (s + 1) (L - (s + 1))).map G := by
  rw [layersOf_split L s hs]
  congr 1
  · apply List.map_congr_left
    intro k hk
    have : k ≠ s := by have := List.mem_range.1 hk; omega
    simp [addAt, this]
  · congr 1
    · simp [addAt]
    · apply List.map_congr_left
      intro k hk
      have : k ≠ s := by have := (List.mem_range'_1.1 hk).1; omega
      simp [addAt, this]

theorem coeff_split_single (u w t : OpStr) (c : α) (s : Nat) (hu : u.length = s) :
    coeff [(u, (1 : α))] (t.take s) * coeff [(w, c)] (t.drop s) = coeff [(u ++ w, c)] t := by
  rw [coeff_singleton, coeff_singleton, coeff_singleton]
  by_cases h1 : u = t.take s
  · by_cases h2 : w = t.drop s
    · have : u ++ w = t := by rw [h1, h2, List.take_append_drop]
      simp [h1, h2]
    · have : ¬ u ++ w = t := by
        intro hh
        apply h2
        have := congrArg (List.drop s) hh
        rwa [List.drop_left' hu] at this
      simp [h2, this]
  · have : ¬ u ++ w = t := by
      intro hh
      apply h1
      have := congrArg (List.take s) hh
      rwa [List.take_left' hu] at this
    simp [h1, this]

/-- adding one crossing edge adds its string -/
theorem coeff_addAt_cross (L : Nat) (G : Nat → List (Edge Key α)) (hG : Good L G) (x : Cross α)
    (hx : CrossOK L G x) (t : OpStr) :
    coeff (pathsFrom Key.IdR (layersOf L (addAt G x.site x.edge)) Key.IdL) t =
      coeff (pathsFrom Key.IdR (layersOf L G) Key.IdL) t +
        coeff [(connStrN L x.pl x.site x.op x.pr, x.c)] t := by
  rw [layersOf_addAt L x.site hx.site, layersOf_split L x.site hx.site G, coeff_pathsFrom_add_edge]
  congr 1
  have hp := prefix_conn G L hG.inU hG.loopL (x.site : Int) (by have := hx.site; omega) x.pl hx.asc hx.lb hx.chL
  have hs := suffix_conn L G hG.outU hG.loopR (x.site : Int) (by omega) (by have := hx.site; omega) x.pr
    hx.desc hx.rb hx.chR
  rw [Int.toNat_natCast] at hp hs
  unfold PrefixIs at hp
  unfold SuffixIs at hs
  have hlen : ((List.range x.site).map G).length = x.site := by simp
  rw [hlen]
  show coeff (pathsFrom (lkey x.pl) _ Key.IdL) _ * coeff (Sym.consOp x.op x.c (pathsFrom Key.IdR _ (rkey x.pr))) _ = _
  rw [hp, Sym.Equiv.consOp x.op x.c hs, consOp_singleton, mul_one]
  apply coeff_split_single
  apply leftStrRev_length
  · rw [List.map_reverse, List.pairwise_reverse]
    exact hx.asc.imp (fun h => h)
  · intro t ht
    exact hx.lb t (List.mem_reverse.1 ht)

/-- **crossing decomposition**: all crossing edges added to a graph `G` -/
theorem coeff_addAll_cross (L : Nat) :
    ∀ (X : List (Cross α)) (G : Nat → List (Edge Key α)), Good L G → (∀ x ∈ X, CrossOK L G x) → ∀ t,
      coeff (pathsFrom Key.IdR (layersOf L (addAll G X)) Key.IdL) t =
        coeff (pathsFrom Key.IdR (layersOf L G) Key.IdL) t +
          coeff (X.map (fun x => (connStrN L x.pl x.site x.op x.pr, x.c))) t := by
  intro X
  induction X with
  | nil => intro G _ _ t; simp [addAll]
  | cons x X ih =>
    intro G hG hX t
    have hx := hX x List.mem_cons_self
    have hG' : Good L (addAt G x.site x.edge) :=
      hG.addAt x.site x.edge (rkey_not_isLeft _) (lkey_not_isRight _)
    have := ih (addAt G x.site x.edge) hG'
      (fun y hy => (hX y (List.mem_cons_of_mem _ hy)).addAt _ _) t
    show coeff (pathsFrom Key.IdR (layersOf L (addAll (addAt G x.site x.edge) X)) Key.IdL) t = _
    rw [this, coeff_addAt_cross L G hG x hx t, List.map_cons, add_assoc, ← coeff_append]
    rfl

/-- a base graph without crossing edges has no `IdL → IdR` path -/
theorem base_paths_nil (L : Nat) (B : Nat → List (Edge Key α))
    (hno : ∀ k, k < L → ∀ e ∈ B k, e.kL.isLeft = true → e.kR.isLeft = true) :
    pathsFrom Key.IdR (layersOf L B) Key.IdL = [] := by
  apply pathsFrom_closed_nil Key.IdR (fun k => k.isLeft = true) (by decide)
  · intro l hl e he
    unfold layersOf at hl
    obtain ⟨k, hk, rfl⟩ := List.mem_map.1 hl
    exact hno k (List.mem_range.1 hk) e he
  · rfl

theorem cross_paths (L : Nat) (B : Nat → List (Edge Key α)) (hB : Good L B)
    (hno : ∀ k, k < L → ∀ e ∈ B k, e.kL.isLeft = true → e.kR.isLeft = true)
    (X : List (Cross α)) (hX : ∀ x ∈ X, CrossOK L B x) :
    Sym.Equiv (pathsFrom Key.IdR (layersOf L (addAll B X)) Key.IdL)
      (X.map (fun x => (connStrN L x.pl x.site x.op x.pr, x.c))) := by
  intro t
  rw [coeff_addAll_cross L X B hB hX t, base_paths_nil L B hno, coeff_nil, zero_add]

omit [CommSemiring α] in
/-- the layers of `addAll` -/
theorem addAll_apply (X : List (Cross α)) :
    ∀ (G : Nat → List (Edge Key α)) (k : Nat),
      addAll G X k = G k ++ (X.filter (fun x => x.site = k)).map Cross.edge := by
  induction X with
  | nil => intro G k; simp [addAll]
  | cons x X ih =>
    intro G k
    show addAll (addAt G x.site x.edge) X k = _
    rw [ih]
    unfold addAt
    by_cases h : k = x.site
    · subst h
      simp
    · have : ¬ x.site = k := fun hh => h hh.symm
      simp [h, this]

end main

end TenpyModel.Ops
