import TenpyModel.C10.P2_Exp3
/-!
# C10 / Props2: exponentially decaying terms, part 4: suffix sums of one plain term (definitions and
their recurrences)
-/
namespace TenpyModel.Ops

/-! ## filters of strictly ascending lists -/
section sorted

theorem filter_ge_step_gen (q : Nat → Bool) (l : List Nat) (h : l.Pairwise (· < ·)) (k : Nat) :
    l.filter (fun n => decide (k ≤ n) && q n) =
      (if k ∈ l ∧ q k = true then [k] else []) ++ l.filter (fun n => decide (k + 1 ≤ n) && q n) := by
  induction l with
  | nil => simp
  | cons a l ih =>
    rw [List.pairwise_cons] at h
    have ih' := ih h.2
    rcases Nat.lt_trichotomy a k with hak | hak | hak
    · have hne : k ≠ a := by omega
      have e1 : (decide (k ≤ a) && q a) = false := by simp; intro; omega
      have e2 : (decide (k + 1 ≤ a) && q a) = false := by simp; intro; omega
      rw [List.filter_cons, List.filter_cons, e1, e2]
      simp only [Bool.false_eq_true, if_false]
      rw [ih']
      congr 1
      apply if_congr _ rfl rfl
      simp [hne]
    · subst hak
      have hnot : a ∉ l := fun hm => Nat.lt_irrefl _ (h.1 a hm)
      have hl : l.filter (fun n => decide (a ≤ n) && q n) = l.filter (fun n => decide (a + 1 ≤ n) && q n) := by
        apply List.filter_congr
        intro n hn
        have := h.1 n hn
        have h1 : decide (a ≤ n) = true := by simp; omega
        have h2 : decide (a + 1 ≤ n) = true := by simp; omega
        rw [h1, h2]
      have e2 : (decide (a + 1 ≤ a) && q a) = false := by simp
      rw [List.filter_cons, List.filter_cons, e2, hl]
      by_cases hq : q a = true
      · simp [hq]
      · simp [hq]
    · have hnot : k ∉ a :: l := by
        intro hm
        rcases List.mem_cons.1 hm with e | hm'
        · omega
        · have := h.1 k hm'; omega
      have hnot' : k ∉ l := fun hm => hnot (List.mem_cons_of_mem _ hm)
      rw [if_neg (fun hc => hnot hc.1), List.nil_append]
      rw [if_neg (fun hc => hnot' hc.1), List.nil_append] at ih'
      have e : (decide (k ≤ a) && q a) = (decide (k + 1 ≤ a) && q a) := by
        have h1 : decide (k ≤ a) = true := by simp; omega
        have h2 : decide (k + 1 ≤ a) = true := by simp; omega
        rw [h1, h2]
      rw [List.filter_cons, List.filter_cons, e, ih']

theorem filter_ge_step (l : List Nat) (h : l.Pairwise (· < ·)) (k : Nat) :
    l.filter (fun n => decide (k ≤ n)) =
      (if k ∈ l then [k] else []) ++ l.filter (fun n => decide (k + 1 ≤ n)) := by
  have := filter_ge_step_gen (fun _ => true) l h k
  simpa using this

theorem filter_range_step (l : List Nat) (h : l.Pairwise (· < ·)) (k j : Nat) (hkj : k < j) :
    l.filter (fun n => decide (k ≤ n ∧ n < j)) =
      (if k ∈ l then [k] else []) ++ l.filter (fun n => decide (k + 1 ≤ n ∧ n < j)) := by
  have := filter_ge_step_gen (fun n => decide (n < j)) l h k
  simp only [decide_eq_true_eq, hkj, and_true] at this
  simpa [Bool.decide_and] using this

end sorted

section defs
variable {α : Type} [CommSemiring α] [Inhabited α]

/-- coefficient of the `label → label` edge on site `k` -/
def ExpTerm.lc (t : ExpTerm α) (k : Nat) : α := if k ∈ t.subsites then lamAt t.lam k else 1

/-- `Π_{n ∈ subsites, k ≤ n < j} lambda[n]` -/
def ExpTerm.w (t : ExpTerm α) (k j : Nat) : α :=
  ((t.subsites.filter (fun n => decide (k ≤ n ∧ n < j))).map (lamAt t.lam)).prod

/-- suffix sum from the private label at site `k`: all ways to close at a subsite `j ≥ k` -/
def ExpTerm.tail (t : ExpTerm α) (L k : Nat) : Sym α :=
  (t.subsites.filter (fun j => decide (k ≤ j))).map (fun j =>
    (List.replicate (j - k) t.str ++ t.opj :: idStr (L - j - 1), t.w k j * t.strength))

/-- suffix sum from `IdL` at site `k`: all terms starting at a site `≥ k` -/
def ExpTerm.termsFrom (t : ExpTerm α) (L k : Nat) : Sym α :=
  (t.subsitesStart.filter (fun i => decide (k ≤ i))).flatMap (fun i =>
    (t.tail L (i + 1)).map (fun p => (idStr (i - k) ++ t.opi :: p.1, lamAt t.lam i * p.2)))

theorem ExpTerm.w_self (t : ExpTerm α) (k : Nat) : t.w k k = 1 := by
  unfold ExpTerm.w
  have : t.subsites.filter (fun n => decide (k ≤ n ∧ n < k)) = [] := by
    rw [List.filter_eq_nil_iff]
    intro n _
    simp
  rw [this]
  rfl

theorem ExpTerm.w_step (t : ExpTerm α) (h : t.subsites.Pairwise (· < ·)) (k j : Nat) (hkj : k < j) :
    t.w k j = t.lc k * t.w (k + 1) j := by
  unfold ExpTerm.w ExpTerm.lc
  rw [filter_range_step _ h k j hkj, List.map_append, List.prod_append]
  by_cases hk : k ∈ t.subsites
  · simp [hk]
  · simp [hk]

theorem ExpTerm.tail_eq_nil (t : ExpTerm α) (L k : Nat) (h : ∀ j ∈ t.subsites, j < k) : t.tail L k = [] := by
  unfold ExpTerm.tail
  have : t.subsites.filter (fun j => decide (k ≤ j)) = [] := by
    rw [List.filter_eq_nil_iff]
    intro n hn
    have := h n hn
    simp
    omega
  rw [this]
  rfl

theorem ExpTerm.tail_step (t : ExpTerm α) (h : t.subsites.Pairwise (· < ·)) (L k : Nat) :
    Sym.Equiv (t.tail L k)
      ((if k ∈ t.subsites then [(t.opj :: idStr (L - k - 1), t.strength)] else []) ++
        Sym.consOp t.str (t.lc k) (t.tail L (k + 1))) := by
  unfold ExpTerm.tail
  rw [filter_ge_step _ h k, List.map_append]
  apply Sym.Equiv.append
  · by_cases hk : k ∈ t.subsites
    · rw [if_pos hk, if_pos hk]
      simp only [List.map_cons, List.map_nil, Nat.sub_self, List.replicate_zero, List.nil_append,
        t.w_self, one_mul]
      exact Sym.Equiv.refl _
    · rw [if_neg hk, if_neg hk]
      exact Sym.Equiv.refl _
  · apply Sym.Equiv.of_perm
    apply List.Perm.of_eq
    unfold Sym.consOp
    rw [List.map_map]
    apply List.map_congr_left
    intro j hj
    have hj' : k + 1 ≤ j := by simpa using (List.mem_filter.1 hj).2
    have e1 : j - k = (j - (k + 1)) + 1 := by omega
    simp only [Function.comp_def]
    rw [e1, List.replicate_succ, t.w_step h k j (by omega), mul_assoc]
    rfl

theorem ExpTerm.termsFrom_eq_nil (t : ExpTerm α) (L k : Nat) (h : ∀ j ∈ t.subsitesStart, j < k) :
    t.termsFrom L k = [] := by
  unfold ExpTerm.termsFrom
  have : t.subsitesStart.filter (fun j => decide (k ≤ j)) = [] := by
    rw [List.filter_eq_nil_iff]
    intro n hn
    have := h n hn
    simp
    omega
  rw [this]
  rfl

theorem ExpTerm.termsFrom_step (t : ExpTerm α) (h : t.subsitesStart.Pairwise (· < ·)) (L k : Nat) :
    Sym.Equiv (t.termsFrom L k)
      ((if k ∈ t.subsitesStart then Sym.consOp t.opi (lamAt t.lam k) (t.tail L (k + 1)) else []) ++
        Sym.consOp "Id" 1 (t.termsFrom L (k + 1))) := by
  unfold ExpTerm.termsFrom
  rw [filter_ge_step _ h k, List.flatMap_append]
  apply Sym.Equiv.append
  · by_cases hk : k ∈ t.subsitesStart
    · rw [if_pos hk, if_pos hk]
      simp only [List.flatMap_cons, List.flatMap_nil, List.append_nil, Nat.sub_self, idStr,
        List.replicate_zero, List.nil_append]
      exact Sym.Equiv.refl _
    · rw [if_neg hk, if_neg hk]
      exact Sym.Equiv.refl _
  · rw [consOp_flatMap]
    apply Sym.Equiv.of_perm
    apply List.Perm.of_eq
    apply List.flatMap_congr
    intro i hi
    have hi' : k + 1 ≤ i := by simpa using (List.mem_filter.1 hi).2
    have e1 : i - k = (i - (k + 1)) + 1 := by omega
    unfold Sym.consOp
    rw [List.map_map]
    apply List.map_congr_left
    intro p _
    simp only [Function.comp_def]
    rw [e1, idStr_succ, one_mul]
    rfl

end defs

end TenpyModel.Ops
