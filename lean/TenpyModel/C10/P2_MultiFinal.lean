import TenpyModel.C10.P2_MBuild3
/-!
# C10 / Props2: `MPOGraph.from_terms((onsite, multi))` on a finite chain denotes the onsite terms plus the
connections of the `MultiCouplingTerms` container
-/
namespace TenpyModel.Ops

section
variable {α : Type}

theorem foldl_preserve {β γ : Type} (P : β → Prop) (f : β → γ → β) (hf : ∀ b c, P b → P (f b c)) :
    ∀ (l : List γ) (b : β), P b → P (l.foldl f b) := by
  intro l
  induction l with
  | nil => intro b h; exact h
  | cons c l ih => intro b h; exact ih _ (hf b c h)

theorem onsite_addToGraph_infinite (ot : OnsiteTerms α) (g : Graph α) :
    (ot.addToGraph g).infinite = g.infinite := by
  unfold OnsiteTerms.addToGraph
  rw [bumpRange_infinite]
  apply foldl_preserve (fun g' : Graph α => g'.infinite = g.infinite)
  · intro b p hb
    apply foldl_preserve (fun g' : Graph α => g'.infinite = g.infinite)
    · intro b' q hb'
      exact hb'
    · exact hb
  · rfl

theorem rep_forall2_layersOf {L : Nat} {g : Graph α} {S : Nat → List (Edge Key α)} (h : Rep L g S) :
    List.Forall₂ List.Perm g.layers (layersOf L S) := by
  unfold layersOf
  rw [List.forall₂_iff_get]
  refine ⟨by simp [h.2.1], ?_⟩
  intro i h1 h2
  have hi : i < L := by rw [← h.2.1]; exact h1
  have := h.2.2 i hi
  rw [List.getD_eq_getElem?_getD, List.getElem?_eq_getElem h1] at this
  simpa using this

theorem trieFree_of_rep {L : Nat} {g : Graph α} {S : Nat → List (Edge Key α)} (h : Rep L g S)
    (hS : ∀ k, k < L → ∀ e ∈ S k, e.kL.isTrie = false ∧ e.kR.isTrie = false) : TrieFree g := by
  intro l hl e he
  obtain ⟨i, hi, rfl⟩ := List.getElem_of_mem hl
  have hiL : i < L := by rw [← h.2.1]; exact hi
  have := h.2.2 i hiL
  rw [List.getD_eq_getElem?_getD, List.getElem?_eq_getElem hi] at this
  exact hS i hiL e (this.mem_iff.1 (by simpa using he))

end

section main
variable {α : Type} [CommSemiring α] [Inhabited α]

/-- **MPO graph of onsite + multi-site terms (container level).** -/
theorem multi_fromTerms (L : Nat) (ot : OnsiteTerms α) (mt : MultiCouplingTerms α) (hotL : ot.L = L)
    (hot : ot.terms.length = L) (hL : mt.L = L) (hwf : mt.GWF) :
    Sym.Equiv (denoteGraph (Graph.fromTerms L false [.onsite ot, .multi mt])) (ot.denote ++ mt.connDenote) := by
  classical
  have e0 : Graph.fromTerms L false [.onsite ot, .multi mt] =
      (mt.addToGraph (ot.addToGraph (Graph.empty L false))).addMissingIdLIdR true := rfl
  rw [e0]
  have r1 := rep_onsite ot hot _ _ (Rep.empty (α := α) L false)
  have hinf1 : (ot.addToGraph (Graph.empty L false : Graph α)).infinite = false := by
    rw [onsite_addToGraph_infinite]; rfl
  have hfree : TrieFree (ot.addToGraph (Graph.empty L false : Graph α)) := by
    apply trieFree_of_rep r1
    intro k _ e he
    rw [List.nil_append] at he
    unfold onsiteEdges dictEdges at he
    obtain ⟨q, _, rfl⟩ := List.mem_map.1 he
    exact ⟨rfl, rfl⟩
  obtain ⟨N, hN, r2, _⟩ := multi_addToGraph_new L mt hL hwf _ r1.1 r1.2.1 hinf1 hfree
  have r2' : Rep L (mt.addToGraph (ot.addToGraph (Graph.empty L false)))
      (fun k => onsiteEdges (ot.terms.getD k []) ++ N k) := by
    refine r2.congr ?_
    intro k hk
    apply List.Perm.append_right
    have := r1.2.2 k hk
    simpa using this
  rw [addMissing_eq, r2'.1]
  have r3 := rep_idFold Key.IdL _ _ r2' (by
    intro k hk e he hc
    rcases List.mem_append.1 he with he | he
    · unfold onsiteEdges dictEdges at he
      obtain ⟨q, _, rfl⟩ := List.mem_map.1 he
      exact absurd hc.2 (by simp [Key.IdL, Key.IdR])
    · exact (hN.ends k hk e he).1 hc.2) L (le_refl _)
  have r4 := rep_idFold Key.IdR _ _ r3 (by
    intro k hk e he hc
    rcases List.mem_append.1 he with he | he
    · rcases List.mem_append.1 he with he | he
      · unfold onsiteEdges dictEdges at he
        obtain ⟨q, _, rfl⟩ := List.mem_map.1 he
        exact absurd hc.1 (by simp [Key.IdL, Key.IdR])
      · exact (hN.ends k hk e he).2 hc.1
    · by_cases c : k < L
      · rw [if_pos c, List.mem_singleton] at he
        subst he
        exact absurd hc.1 (by simp [Key.IdL, Key.IdR])
      · rw [if_neg c] at he
        simp at he) L (le_refl _)
  unfold denoteGraph
  refine (pathsFrom_equiv_of_forall2 Key.IdR (rep_forall2_layersOf r4) Key.IdL).trans ?_
  refine Sym.Equiv.trans ?_ (multi_paths L ot mt hotL hot hL hwf N hN)
  apply pathsFrom_equiv_of_forall2
  apply forall2_layersOf
  intro k hk
  simp only [if_pos hk]
  unfold idLoops
  rw [List.append_assoc]
  exact List.Perm.refl _

end main

end TenpyModel.Ops
