import TenpyModel.C10.ExtProofsC
/-!
# C10 extension, proofs part D: `group_sites`, `enlarge_mps_unit_cell`, `extract_segment` keep the operator
-/
namespace TenpyModel.C10Ext
open TenpyModel.Ops
set_option linter.unusedSectionVars false

/-! ## index lists of `group_sites` -/

def startsFrom : Nat → List Nat → List Nat
  | _, [] => []
  | off, s :: r => off :: startsFrom (off + s) r

theorem groupStarts_aux (sizes : List Nat) (acc : List Nat) (off : Nat) :
    (sizes.foldl (fun (acc : List Nat × Nat) s => (acc.1 ++ [acc.2], acc.2 + s)) (acc, off)).1 =
      acc ++ startsFrom off sizes := by
  induction sizes generalizing acc off with
  | nil => simp [startsFrom]
  | cons s r ih => rw [List.foldl_cons, ih]; simp [startsFrom]

theorem groupStarts_eq (sizes : List Nat) : groupStarts sizes = startsFrom 0 sizes := by
  unfold groupStarts; rw [groupStarts_aux]; rfl

theorem ends_getLast? (sizes : List Nat) (off : Nat) (h : sizes ≠ []) :
    (((startsFrom off sizes).zip sizes).map (fun p => p.1 + p.2)).getLast? = some (off + sizes.sum) := by
  induction sizes generalizing off with
  | nil => exact absurd rfl h
  | cons s r ih =>
    cases r with
    | nil => simp [startsFrom]
    | cons s' r' =>
      have := ih (off + s) (by simp)
      simp only [startsFrom, List.zip_cons_cons, List.map_cons, List.sum_cons] at this ⊢
      rw [List.getLast?_cons_cons, this]
      congr 1
      omega

variable {α Q : Type}

/-- shape invariants of an MPO given by grids -/
structure GMPO.WF (m : GMPO α Q) : Prop where
  nIdL : m.idL.length = m.L + 1
  nIdR : m.idR.length = m.L + 1
  rect : ∀ G ∈ m.grids, Rect G

theorem head?_eq_getD {β : Type} (l : List β) (d : β) (h : l ≠ []) : l.head? = some (l.getD 0 d) := by
  cases l with
  | nil => exact absurd rfl h
  | cons x l => rfl

theorem getLast?_eq_getD {β : Type} (l : List β) (d : β) (n : Nat) (h : l.length = n + 1) :
    l.getLast? = some (l.getD n d) := by
  rw [List.getLast?_eq_getElem?, List.getD_eq_getElem?_getD]
  have : l.length - 1 = n := by omega
  rw [this, List.getElem?_eq_getElem (by omega)]
  rfl

theorem getLastD_eq_getD {β : Type} (l : List β) (d : β) (n : Nat) (h : l.length = n + 1) :
    l.getLastD d = l.getD n d := by
  rw [List.getLastD_eq_getLast?, getLast?_eq_getD l d n h]; rfl

section group
variable [Monoid α]

theorem chunks_sizes_sum (n : Nat) (hn : 0 < n) (grids : List (Grid α)) :
    ((chunks n grids).map List.length).sum = grids.length := by
  have := chunksAux_flatten n hn grids.length grids (Nat.le_refl _)
  rw [← List.length_flatten]
  exact congrArg List.length this

theorem chunks_eq_nil_iff (n : Nat) (grids : List (Grid α)) : chunks n grids = [] ↔ grids = [] := by
  cases grids with
  | nil => simp [chunks, chunksAux]
  | cons G l => simp [chunks, chunksAux]

/-- **`group_sites` keeps the operator** -/
theorem groupSites_denote (m m' : GMPO α Q) (hm : m.WF) (n : Nat) (h : groupSites m n = .ok m') :
    m'.denote.Perm m.denote := by
  unfold groupSites at h
  split at h
  · cases h
  · next hn =>
    have hn' : 0 < n := Nat.pos_of_ne_zero hn
    cases h
    simp only [GMPO.denote]
    rw [groupStarts_eq]
    -- first entry of IdL, last entry of IdR
    have hL : m.idL ≠ [] := by
      intro h0; have := hm.nIdL; rw [h0] at this; simp at this
    have hR : m.idR ≠ [] := by
      intro h0; have := hm.nIdR; rw [h0] at this; simp at this
    have hhead : (List.map (fun i => m.idL.getD i none) (startsFrom 0 ((chunks n m.grids).map List.length)) ++
        [m.idL.getLastD none]).head? = m.idL.head? := by
      cases hc : chunks n m.grids with
      | nil =>
        have hg : m.grids = [] := (chunks_eq_nil_iff n m.grids).1 hc
        have h1 : m.idL.length = 0 + 1 := by rw [hm.nIdL, GMPO.L, hg]; rfl
        simp only [List.map_nil, startsFrom, List.nil_append, List.head?_cons]
        rw [getLastD_eq_getD _ none 0 h1, head?_eq_getD _ none hL]
      | cons c cs =>
        simp only [List.map_cons, startsFrom, List.cons_append, List.head?_cons]
        rw [head?_eq_getD _ none hL]
    have hlast : (m.idR.headD none :: List.map (fun i => m.idR.getD i none)
        (((startsFrom 0 ((chunks n m.grids).map List.length)).zip ((chunks n m.grids).map List.length)).map
          (fun p => p.1 + p.2))).getLast? = m.idR.getLast? := by
      cases hc : chunks n m.grids with
      | nil =>
        have hg : m.grids = [] := (chunks_eq_nil_iff n m.grids).1 hc
        have h1 : m.idR.length = 0 + 1 := by rw [hm.nIdR, GMPO.L, hg]; rfl
        simp only [List.map_nil, startsFrom, List.zip_nil_left, List.getLast?_singleton]
        rw [getLast?_eq_getD _ none 0 h1]
        cases hq : m.idR with
        | nil => exact absurd hq hR
        | cons x l => rfl
      | cons c cs =>
        have hne : (List.map List.length (c :: cs)) ≠ [] := by simp
        have hends := ends_getLast? (List.map List.length (c :: cs)) 0 hne
        have hsum : (List.map List.length (c :: cs)).sum = m.grids.length := by
          rw [← hc]; exact chunks_sizes_sum n hn' m.grids
        rw [List.getLast?_cons, List.getLast?_map, hends]
        simp only [Option.map_some, Option.getD_some, Nat.zero_add, hsum]
        rw [getLast?_eq_getD _ none m.grids.length hm.nIdR]
    rw [hhead, hlast]
    cases m.idL.head? with
    | none => exact List.Perm.refl _
    | some ol =>
      cases ol with
      | none => exact List.Perm.refl _
      | some l =>
        cases m.idR.getLast? with
        | none => exact List.Perm.refl _
        | some or =>
          cases or with
          | none => exact List.Perm.refl _
          | some r => exact gridPaths_chunks r n hn' m.grids hm.rect l

end group

/-! ## `enlarge_mps_unit_cell` -/

theorem flatten_replicate_mul {β : Type} (k f : Nat) (l : List β) :
    (List.replicate k (List.replicate f l).flatten).flatten = (List.replicate (k * f) l).flatten := by
  induction k with
  | zero => simp
  | succ k ih =>
    rw [List.replicate_succ, List.flatten_cons, ih, Nat.succ_mul, Nat.add_comm (k * f) f, List.replicate_add,
      List.flatten_append]

theorem enlarge_denoteWindow [Mul α] [One α] (m m' : GMPO α Q) (hm : m.WF) (num : Int) (den : Nat)
    (h : enlargeUnitCell m num den = .ok m') (k : Nat) :
    m'.denoteWindow k = m.denoteWindow (k * num.toNat) := by
  unfold enlargeUnitCell at h
  split_ifs at h with h1 h2 h3
  cases h
  have hf : 0 < num.toNat := by omega
  have hL : m.idL ≠ [] := by
    intro h0; have := hm.nIdL; rw [h0] at this; simp at this
  have hR : m.idR ≠ [] := by
    intro h0; have := hm.nIdR; rw [h0] at this; simp at this
  simp only [GMPO.denoteWindow]
  have hhead : ((List.replicate num.toNat m.idL.dropLast).flatten ++ [m.idL.getLastD none]).head? = m.idL.head? := by
    obtain ⟨f, hf'⟩ : ∃ f, num.toNat = f + 1 := ⟨num.toNat - 1, by omega⟩
    rw [hf', List.replicate_succ, List.flatten_cons]
    cases hq : m.idL with
    | nil => exact absurd hq hL
    | cons x l =>
      cases l with
      | nil => simp [List.getLastD]
      | cons y l' => simp [List.dropLast]
  have hlast : ((List.replicate num.toNat m.idR.dropLast).flatten ++ [m.idR.getLastD none]).getLast? =
      m.idR.getLast? := by
    rw [List.getLast?_append]
    simp only [List.getLast?_singleton, Option.or_some, Option.some_or]
    rw [List.getLastD_eq_getLast?]
    cases hq : m.idR.getLast? with
    | none => rw [List.getLast?_eq_none_iff] at hq; exact absurd hq hR
    | some x => rfl
  rw [hhead, hlast, flatten_replicate_mul]

/-! ## `extract_segment` -/

theorem range_map_mod_eq_flatten {β : Type} (d : β) (l : List β) (k : Nat) :
    (List.range (k * l.length)).map (fun i => l.getD (i % l.length) d) = (List.replicate k l).flatten := by
  induction k with
  | zero => simp
  | succ k ih =>
    rw [Nat.succ_mul, Nat.add_comm, List.range_add, List.map_append, List.replicate_succ, List.flatten_cons, ← ih]
    congr 1
    · apply List.ext_getElem
      · simp
      · intro i h1 h2
        simp only [List.length_map, List.length_range] at h1
        simp [Nat.mod_eq_of_lt h1, List.getD_eq_getElem?_getD, List.getElem?_eq_getElem h1]
    · rw [List.map_map]
      apply List.map_congr_left
      intro i _
      simp [Nat.add_mod_left]

theorem pmod_natCast (i L : Nat) : pmod (i : Int) L = i % L := by
  unfold pmod
  have : (i : Int).emod (L : Int) = ((i % L : Nat) : Int) := by
    show (i : Int) % (L : Int) = _
    exact Int.ofNat_mod_ofNat i L
  rw [this, Int.toNat_natCast]

theorem pmod_last (k L : Nat) (hk : 0 < k) (hL : 0 < L) : pmod ((k * L - 1 : Nat) : Int) L = L - 1 := by
  rw [pmod_natCast]
  obtain ⟨k', rfl⟩ : ∃ k', k = k' + 1 := ⟨k - 1, by omega⟩
  have : (k' + 1) * L - 1 = (L - 1) + k' * L := by rw [Nat.succ_mul]; omega
  rw [this, Nat.add_mul_mod_self_right, Nat.mod_eq_of_lt (by omega)]

/-- **`extract_segment` of `k` whole unit cells** is the window of `k` unit cells -/
theorem extractSegment_window [Mul α] [One α] [DecidableEq Q] (m m' : GMPO α Q) (hm : m.WF) (k : Nat) (hk : 0 < k) (hL : 0 < m.L)
    (h : extractSegment m 0 ((k * m.L - 1 : Nat) : Int) = .ok m') : m'.denote = m.denoteWindow k := by
  have hpos : 1 ≤ k * m.L := Nat.mul_pos hk hL
  have hlen : ((k * m.L - 1 : Nat) : Int) + 1 - 0 = ((k * m.L : Nat) : Int) := by omega
  unfold extractSegment at h
  simp only [hlen, Int.toNat_natCast] at h
  split_ifs at h
  cases h
  simp only [GMPO.denote, GMPO.denoteWindow]
  obtain ⟨n, hn⟩ : ∃ n, k * m.L = n + 1 := ⟨k * m.L - 1, by omega⟩
  have hLne : m.idL ≠ [] := by
    intro h0; have := hm.nIdL; rw [h0] at this; simp at this
  have hgr : List.map (fun i => m.grids.getD (pmod i m.L) [])
      (List.map (fun (d : Nat) => (0 : Int) + (d : Int)) (List.range (k * m.L))) = (List.replicate k m.grids).flatten := by
    rw [List.map_map, ← range_map_mod_eq_flatten [] m.grids k]
    apply List.map_congr_left
    intro i _
    simp only [Function.comp, Int.zero_add, pmod_natCast]
    rfl
  have hhead : (List.map (fun i => m.idL.getD (pmod i m.L) none)
      (List.map (fun (d : Nat) => (0 : Int) + (d : Int)) (List.range (k * m.L))) ++
        [m.idL.getD (pmod ((k * m.L - 1 : Nat) : Int) m.L + 1) none]).head? = m.idL.head? := by
    rw [hn, List.range_succ_eq_map]
    simp only [List.map_cons, List.cons_append, List.head?_cons, Int.zero_add]
    rw [head?_eq_getD _ none hLne]
    rfl
  have hlast : (List.map (fun i => m.idR.getD (pmod i m.L) none)
      (List.map (fun (d : Nat) => (0 : Int) + (d : Int)) (List.range (k * m.L))) ++
        [m.idR.getD (pmod ((k * m.L - 1 : Nat) : Int) m.L + 1) none]).getLast? = m.idR.getLast? := by
    rw [List.getLast?_append]
    simp only [List.getLast?_singleton, Option.some_or]
    rw [pmod_last k m.L hk hL, getLast?_eq_getD _ none m.L hm.nIdR]
    congr 2
    omega
  rw [hgr, hhead, hlast]

end TenpyModel.C10Ext
