import TenpyModel.C10.TermsProofs
import TenpyModel.C10.AlgProofs
namespace TenpyModel.Ops
variable {α : Type} [CommSemiring α]

theorem dagger_couplingStr (hc : String → String) (cj : α → α) (hid : hc "Id" = "Id") (L i j : Nat)
    (opi str opj : String) (s : α) :
    Sym.dagger hc cj [(couplingStr L i j opi str opj, s)]
      = [(couplingStr L i j (hc opi) (hc str) (hc opj), cj s)] := by
  simp [Sym.dagger, couplingStr, idStr, hid]

/-- `add_coupling_term(…, plus_hc=True)` without `explicit_plus_hc`: the term and its Hermitian conjugate
(names conjugated site by site, strength complex conjugated) are added -/
theorem coupling_add_plus_hc (hc : String → String) (cj : α → α) (hid : hc "Id" = "Id")
    (ct : CouplingTerms α) (s : α) (i j : Int) (opi opj str : String) :
    Sym.Equiv (((ct.add s i j opi opj str).add (cj s) i j (hc opi) (hc opj) (hc str)).denote)
      (ct.denote ++ ([(couplingStr ct.L i.toNat j.toNat opi str opj, s)]
        ++ Sym.dagger hc cj [(couplingStr ct.L i.toNat j.toNat opi str opj, s)])) := by
  rw [dagger_couplingStr hc cj hid]
  have h1 := CouplingTerms.add_denote ct s i j opi opj str
  have h2 := CouplingTerms.add_denote (ct.add s i j opi opj str) (cj s) i j (hc opi) (hc opj) (hc str)
  refine h2.trans ?_
  rw [← List.append_assoc]
  exact Sym.Equiv.append h1 (Sym.Equiv.refl _)

end TenpyModel.Ops
