import Mathlib.Algebra.BigOperators.Group.List.Basic
import Mathlib.Data.List.Nodup
import Mathlib.Tactic.Ring
import TenpyModel.Ops.PathProofs
import TenpyModel.C10.ExtMPO
/-!
# C10 extension, proofs part A: the grids of `_build_grids` denote the path sum of the graph
-/
namespace TenpyModel.C10Ext
open TenpyModel.Ops
set_option linter.unusedSectionVars false

/-! ## `keyIdx` -/

theorem keyIdx_getElem? {st : List Key} {k : Key} {a : Nat} (h : keyIdx st k = some a) : st[a]? = some k := by
  induction st generalizing a with
  | nil => simp [keyIdx] at h
  | cons k' st ih =>
    unfold keyIdx at h
    split at h
    · next hk => cases h; simp [hk]
    · cases hr : keyIdx st k with
      | none => simp [hr] at h
      | some j =>
        simp [hr] at h
        subst h
        simpa using ih hr

theorem keyIdx_inj {st : List Key} {k k' : Key} {a : Nat} (h : keyIdx st k = some a) (h' : keyIdx st k' = some a) :
    k = k' := by
  have := keyIdx_getElem? h
  have := keyIdx_getElem? h'
  simp_all

theorem keyIdx_isSome_of_mem {st : List Key} {k : Key} (h : k ∈ st) : ∃ a, keyIdx st k = some a := by
  induction st with
  | nil => simp at h
  | cons k' st ih =>
    unfold keyIdx
    by_cases hk : k' = k
    · exact ⟨0, by simp [hk]⟩
    · rcases List.mem_cons.1 h with h | h
      · exact absurd h.symm hk
      · obtain ⟨a, ha⟩ := ih h
        exact ⟨a + 1, by simp [hk, ha]⟩

theorem mem_of_keyIdx {st : List Key} {k : Key} {a : Nat} (h : keyIdx st k = some a) : k ∈ st :=
  List.mem_of_getElem? (keyIdx_getElem? h)

/-- on a duplicate-free list `zipIdx` pairs every key with its `keyIdx` -/
theorem zipIdx_eq_map_keyIdx (st : List Key) (hn : st.Nodup) (n : Nat) :
    st.zipIdx n = st.map (fun k => (k, n + (keyIdx st k).getD 0)) := by
  induction st generalizing n with
  | nil => rfl
  | cons k st ih =>
    rw [List.zipIdx_cons, List.map_cons]
    have hn' := List.nodup_cons.1 hn
    congr 1
    · simp [keyIdx]
    · rw [ih hn'.2 (n + 1)]
      apply List.map_congr_left
      intro k' hk'
      have hne : k ≠ k' := fun h => hn'.1 (h ▸ hk')
      obtain ⟨j, hj⟩ := keyIdx_isSome_of_mem hk'
      simp only [keyIdx, hne, if_false, hj, Option.map_some, Option.getD_some]
      congr 1
      omega

/-! ## sums over a partition by key -/

section sums
variable {M : Type} [AddCommMonoid M]

theorem sum_map_ite_eq_of_nodup {κ : Type} [DecidableEq κ] (ks : List κ) (hn : ks.Nodup) (k0 : κ) (hk : k0 ∈ ks)
    (x : M) : (ks.map (fun k => if k0 = k then x else 0)).sum = x := by
  induction ks with
  | nil => simp at hk
  | cons k ks ih =>
    have hn' := List.nodup_cons.1 hn
    rw [List.map_cons, List.sum_cons]
    by_cases h : k0 = k
    · subst h
      have : (ks.map (fun k => if k0 = k then x else 0)).sum = 0 := by
        apply List.sum_eq_zero
        intro y hy
        obtain ⟨k', hk', rfl⟩ := List.mem_map.1 hy
        have : k0 ≠ k' := fun h => hn'.1 (h ▸ hk')
        simp [this]
      simp [this]
    · have hk' : k0 ∈ ks := by
        rcases List.mem_cons.1 hk with h' | h'
        · exact absurd h' h
        · exact h'
      simp [h, ih hn'.2 hk']

/-- Σ_k Σ_{e ∈ l, key e = k} f e k = Σ_{e ∈ l} f e (key e) for duplicate-free `ks` covering all keys -/
theorem sum_partition {ε κ : Type} [DecidableEq κ] (l : List ε) (ks : List κ) (hn : ks.Nodup) (key : ε → κ)
    (hcov : ∀ e ∈ l, key e ∈ ks) (f : ε → κ → M) :
    (ks.map (fun k => ((l.filter (fun e => key e = k)).map (fun e => f e k)).sum)).sum =
      (l.map (fun e => f e (key e))).sum := by
  induction l with
  | nil => simp
  | cons e l ih =>
    have ih' := ih (fun e' he' => hcov e' (List.mem_cons_of_mem _ he'))
    rw [List.map_cons, List.sum_cons, ← ih']
    have : ∀ k, ((List.filter (fun e => key e = k) (e :: l)).map (fun e => f e k)).sum =
        (if key e = k then f e (key e) else 0) + ((l.filter (fun e => key e = k)).map (fun e => f e k)).sum := by
      intro k
      by_cases h : key e = k
      · subst h; simp
      · simp [h]
    simp only [this]
    rw [List.sum_map_add, sum_map_ite_eq_of_nodup ks hn (key e) (hcov e (List.mem_cons_self ..))]

end sums

variable {α : Type} [Semiring α]

/-! ## `tensor` with single-site entries -/

theorem tensor_nil_left (s : Sym α) : tensor ([] : Sym α) s = [] := rfl

theorem tensor_entries (es : List (Edge Key α)) (s : Sym α) :
    tensor (es.map (fun e => ([e.op], e.c))) s = es.flatMap (fun e => Sym.consOp e.op e.c s) := by
  simp [tensor, Sym.consOp, List.flatMap_map]

theorem coeff_consOp_congr (op : String) (c : α) {s s' : Sym α} (h : ∀ t, coeff s t = coeff s' t) (t : OpStr) :
    coeff (Sym.consOp op c s) t = coeff (Sym.consOp op c s') t := by
  cases t with
  | nil => rw [coeff_consOp_nil, coeff_consOp_nil]
  | cons o t => rw [coeff_consOp_cons, coeff_consOp_cons, h t]

/-! ## one site -/

theorem gridOf_getD (layer : List (Edge Key α)) (stL stR : List Key) (kL : Key) (a : Nat)
    (ha : keyIdx stL kL = some a) :
    (gridOf layer stL stR).getD a [] = stR.map (fun kR =>
      (layer.filter (fun e => e.kL = kL && e.kR = kR)).map (fun e => ([e.op], e.c))) := by
  have := keyIdx_getElem? ha
  simp [gridOf, List.getD_eq_getElem?_getD, List.getElem?_map, this]

theorem gridOk_mem (layer : List (Edge Key α)) (stL stR : List Key) (h : gridOk layer stL stR = true)
    (kL : Key) (hk : kL ∈ stL) (e : Edge Key α) (he : e ∈ layer) (hek : e.kL = kL) : e.kR ∈ stR := by
  unfold gridOk at h
  have := (List.all_eq_true.1 h) kL hk
  simp only [Bool.and_eq_true, List.all_eq_true] at this
  have h2 := this.2 e (by simp [List.mem_filter, he, hek])
  simpa using h2

theorem coeff_pathsFrom_filter (fin : Key) (layer : List (Edge Key α)) (layers : List (List (Edge Key α)))
    (kL : Key) (t : OpStr) :
    coeff (pathsFrom fin (layer :: layers) kL) t =
      ((layer.filter (fun e => e.kL = kL)).map (fun e =>
        coeff (Sym.consOp e.op e.c (pathsFrom fin layers e.kR)) t)).sum := by
  rw [pathsFrom_cons, coeff_flatMap]
  induction layer with
  | nil => rfl
  | cons e l ih =>
    by_cases h : e.kL = kL
    · simp [h, ih]
    · simp [h, ih]

/-- the coefficient recursion of `gridPaths` on the grid of one site equals that of `pathsFrom` -/
theorem coeff_gridPaths_site (fin : Key) (r : Nat) (layer : List (Edge Key α)) (layers : List (List (Edge Key α)))
    (stL stR : List Key) (grids : List (Grid α)) (hnR : stR.Nodup) (hok : gridOk layer stL stR = true)
    (ih : ∀ kR b, keyIdx stR kR = some b → ∀ t, coeff (gridPaths r grids b) t = coeff (pathsFrom fin layers kR) t)
    (kL : Key) (a : Nat) (ha : keyIdx stL kL = some a) (t : OpStr) :
    coeff (gridPaths r (gridOf layer stL stR :: grids) a) t = coeff (pathsFrom fin (layer :: layers) kL) t := by
  have hmem := mem_of_keyIdx ha
  -- left side as a double sum
  have hL : coeff (gridPaths r (gridOf layer stL stR :: grids) a) t =
      (stR.map (fun kR => ((layer.filter (fun e => e.kL = kL && e.kR = kR)).map (fun e =>
        coeff (Sym.consOp e.op e.c (pathsFrom fin layers kR)) t)).sum)).sum := by
    rw [gridPaths, gridOf_getD layer stL stR kL a ha, List.zipIdx_map, zipIdx_eq_map_keyIdx stR hnR 0,
      List.map_map, List.flatMap_map, coeff_flatMap]
    congr 1
    apply List.map_congr_left
    intro kR hkR
    obtain ⟨b, hb⟩ := keyIdx_isSome_of_mem hkR
    simp only [Function.comp, hb, Option.getD_some, Nat.zero_add, Prod.map_fst, Prod.map_snd, id]
    have : ∀ (s x : Sym α), (if s.isEmpty = true then [] else tensor s x) = tensor s x := by
      intro s x
      cases s <;> simp [tensor_nil_left]
    rw [this, tensor_entries, coeff_flatMap]
    congr 1
    apply List.map_congr_left
    intro e _
    exact coeff_consOp_congr e.op e.c (ih kR b hb) t
  rw [hL, coeff_pathsFrom_filter]
  have hcov : ∀ e ∈ layer.filter (fun e => e.kL = kL), e.kR ∈ stR := by
    intro e he
    rw [List.mem_filter] at he
    exact gridOk_mem layer stL stR hok kL hmem e he.1 (by simpa using he.2)
  rw [← sum_partition (layer.filter (fun e => e.kL = kL)) stR hnR (fun e => e.kR) hcov
    (fun e k => coeff (Sym.consOp e.op e.c (pathsFrom fin layers k)) t)]
  congr 1
  apply List.map_congr_left
  intro kR _
  rw [List.filter_filter]
  congr 2
  apply List.filter_congr
  intro e _
  simp [Bool.and_comm]

/-! ## all sites -/

theorem gridsOf_nil (sts : List (List Key)) : gridsOf ([] : List (List (Edge Key α))) sts = [] := by
  cases sts <;> rfl

theorem coeff_gridPaths_gridsOf (fin : Key) (r : Nat) :
    ∀ (layers : List (List (Edge Key α))) (sts : List (List Key)),
      sts.length = layers.length + 1 → (∀ st ∈ sts, st.Nodup) → gridsOk layers sts = true →
      keyIdx (sts.getLastD []) fin = some r →
      ∀ kL a, keyIdx (sts.headD []) kL = some a → ∀ t,
        coeff (gridPaths r (gridsOf layers sts) a) t = coeff (pathsFrom fin layers kL) t := by
  intro layers
  induction layers with
  | nil =>
    intro sts hlen _ _ hr kL a ha t
    match sts, hlen with
    | [st], _ =>
      simp only [List.getLastD_cons, List.getLastD_nil, List.headD_cons] at hr ha
      rw [gridsOf_nil, gridPaths, pathsFrom_nil]
      by_cases h : kL = fin
      · subst h
        have : a = r := by rw [ha] at hr; exact Option.some.inj hr
        simp [this]
      · have : a ≠ r := fun h' => h (keyIdx_inj ha (h' ▸ hr))
        simp [h, this]
  | cons layer layers ih =>
    intro sts hlen hnd hok hr kL a ha t
    match sts, hlen with
    | stL :: stR :: sts', hlen =>
      simp only [gridsOk, Bool.and_eq_true] at hok
      simp only [List.headD_cons] at ha
      have hr' : keyIdx ((stR :: sts').getLastD []) fin = some r := by
        simpa [List.getLastD_cons] using hr
      rw [gridsOf]
      apply coeff_gridPaths_site fin r layer layers stL stR (gridsOf layers (stR :: sts'))
        (hnd stR (by simp)) hok.1 _ kL a ha t
      intro kR b hb t'
      exact ih (stR :: sts') (by simpa using hlen) (fun st hst => hnd st (List.mem_cons_of_mem _ hst)) hok.2 hr'
        kR b (by simpa using hb) t'

end TenpyModel.C10Ext
