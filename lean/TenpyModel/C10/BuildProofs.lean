import Mathlib.Data.List.Perm.Basic
import Mathlib.Data.List.Induction
import TenpyModel.C10.GraphProofs
/-!
# C10: the imperative graph construction `Graph.fromTerms` (finite chain, onsite + coupling terms)
produces, site by site, a permutation of the closed form `GraphSpec.specLayers`

`Rep L g S` : the graph `g` has `L` layers and layer `k` is a permutation of `S k`.  Every stage of
the construction (`Graph.add`, the onsite loop, `add_string_left_to_right`, one block of the coupling
dictionary, all blocks, `add_missing_IdL_IdR`) is described by how it transforms `S`.

Main results: `fromTerms_layers_perm`, `pathsFrom_equiv_of_forall2`, `denoteGraph_fromTerms_equiv`.
-/

namespace TenpyModel.Ops

section basics
variable {α : Type}

/-- the graph `g` lives on `L` sites and its layers are, site by site, a permutation of `S` -/
def Rep (L : Nat) (g : Graph α) (S : Nat → List (Edge Key α)) : Prop :=
  g.L = L ∧ g.layers.length = L ∧ ∀ k, k < L → (g.layers.getD k []).Perm (S k)

/-- append one edge on site `k` -/
def upd (S : Nat → List (Edge Key α)) (k : Nat) (e : Edge Key α) : Nat → List (Edge Key α) :=
  fun k' => if k' = k then S k' ++ [e] else S k'

theorem Rep.congr {L : Nat} {g : Graph α} {S S' : Nat → List (Edge Key α)} (h : Rep L g S)
    (hS : ∀ k, k < L → (S k).Perm (S' k)) : Rep L g S' :=
  ⟨h.1, h.2.1, fun k hk => (h.2.2 k hk).trans (hS k hk)⟩

theorem Rep.congr_eq {L : Nat} {g : Graph α} {S S' : Nat → List (Edge Key α)} (h : Rep L g S)
    (hS : ∀ k, k < L → S k = S' k) : Rep L g S' :=
  h.congr (fun k hk => List.Perm.of_eq (hS k hk))

theorem hasEdge_iff {L : Nat} {g : Graph α} {S : Nat → List (Edge Key α)} (h : Rep L g S) (k : Nat)
    (hk : k < L) (kL kR : Key) :
    g.hasEdge k kL kR = true ↔ ∃ e ∈ S k, e.kL = kL ∧ e.kR = kR := by
  unfold Graph.hasEdge
  rw [List.any_eq_true]
  constructor
  · rintro ⟨e, he, hc⟩
    refine ⟨e, (h.2.2 k hk).mem_iff.1 he, ?_⟩
    simpa using hc
  · rintro ⟨e, he, hc⟩
    refine ⟨e, (h.2.2 k hk).mem_iff.2 he, ?_⟩
    simpa using hc

theorem siteOf_of {L : Nat} {g : Graph α} (hL : g.L = L) (i : Int) (h0 : 0 ≤ i) (h1 : i < (L : Int)) :
    g.siteOf i = i.toNat := by
  unfold Graph.siteOf
  rw [hL]
  show (i % (L : Int)).toNat = i.toNat
  rw [Int.emod_eq_of_lt h0 h1]

theorem add_layers (g : Graph α) (i : Int) (kL kR : Key) (op : String) (c : α) (skip : Bool) :
    (g.add i kL kR op c skip).layers =
      if (((g.layers.getD (g.siteOf i) []).filter (fun e => e.kL = kL && e.kR = kR)).isEmpty || !skip ||
          !(((g.layers.getD (g.siteOf i) []).filter (fun e => e.kL = kL && e.kR = kR)).any (fun e => e.op = op)))
      then g.layers.set (g.siteOf i) (g.layers.getD (g.siteOf i) [] ++ [⟨kL, kR, op, c⟩]) else g.layers := rfl

theorem add_L (g : Graph α) (i : Int) (kL kR : Key) (op : String) (c : α) (skip : Bool) :
    (g.add i kL kR op c skip).L = g.L := rfl

theorem Rep.add {L : Nat} {g : Graph α} {S : Nat → List (Edge Key α)} (h : Rep L g S) (i : Int)
    (h0 : 0 ≤ i) (h1 : i < (L : Int)) (kL kR : Key) (op : String) (c : α) (skip : Bool)
    (hskip : skip = false ∨ ∀ e ∈ S i.toNat, ¬ (e.kL = kL ∧ e.kR = kR)) :
    Rep L (g.add i kL kR op c skip) (upd S i.toNat ⟨kL, kR, op, c⟩) := by
  have hk : i.toNat < L := by omega
  have hpush : (((g.layers.getD (g.siteOf i) []).filter (fun e => e.kL = kL && e.kR = kR)).isEmpty || !skip ||
          !(((g.layers.getD (g.siteOf i) []).filter (fun e => e.kL = kL && e.kR = kR)).any (fun e => e.op = op)))
        = true := by
    rcases hskip with hs | hs
    · simp [hs]
    · have : (g.layers.getD (g.siteOf i) []).filter (fun e => e.kL = kL && e.kR = kR) = [] := by
        rw [List.filter_eq_nil_iff]
        intro e he
        rw [siteOf_of h.1 i h0 h1] at he
        have := hs e ((h.2.2 _ hk).mem_iff.1 he)
        simpa using this
      rw [this]
      simp
  refine ⟨h.1, ?_, ?_⟩
  · rw [add_layers, if_pos hpush, List.length_set]
    exact h.2.1
  · intro k' hk'
    rw [add_layers, if_pos hpush, siteOf_of h.1 i h0 h1]
    unfold upd
    by_cases e : k' = i.toNat
    · subst e
      rw [if_pos rfl]
      have : (g.layers.set i.toNat (g.layers.getD i.toNat [] ++ [⟨kL, kR, op, c⟩])).getD i.toNat [] =
          g.layers.getD i.toNat [] ++ [⟨kL, kR, op, c⟩] := by
        simp [List.getD_eq_getElem?_getD, h.2.1, hk]
      rw [this]
      exact (h.2.2 _ hk).append_right _
    · rw [if_neg e]
      have : (g.layers.set i.toNat (g.layers.getD i.toNat [] ++ [⟨kL, kR, op, c⟩])).getD k' [] =
          g.layers.getD k' [] := by
        simp [List.getD_eq_getElem?_getD, Ne.symm e]
      rw [this]
      exact h.2.2 _ hk'

theorem Rep.bump {L : Nat} {g : Graph α} {S : Nat → List (Edge Key α)} (h : Rep L g S) (r : MaxRange) :
    Rep L (bumpRange g r) S := by
  unfold bumpRange
  split
  · exact h
  · exact h

theorem Rep.empty (L : Nat) (inf : Bool) : Rep L (Graph.empty L inf : Graph α) (fun _ => []) := by
  refine ⟨rfl, by simp [Graph.empty], ?_⟩
  intro k hk
  simp [Graph.empty, List.getD_eq_getElem?_getD, hk]

end basics

/-! ## adding the entries of a `{op: strength}` dict on one site -/
section dictadd
variable {α : Type}

def dictEdges (kL kR : Key) (d : Dict String α) : List (Edge Key α) :=
  d.map (fun q => ⟨kL, kR, q.1, q.2⟩)

theorem rep_dict_add {L : Nat} (i : Int) (h0 : 0 ≤ i) (h1 : i < (L : Int)) (kL kR : Key) (d : Dict String α) :
    ∀ (g : Graph α) (S : Nat → List (Edge Key α)), Rep L g S →
      Rep L (d.foldl (fun (g : Graph α) (q : String × α) => g.add i kL kR q.1 q.2) g)
        (fun k => S k ++ if k = i.toNat then dictEdges kL kR d else []) := by
  induction d with
  | nil =>
    intro g S h
    exact h.congr_eq (fun k _ => by simp [dictEdges])
  | cons q d ih =>
    intro g S h
    rw [List.foldl_cons]
    have h1 := h.add i h0 h1 kL kR q.1 q.2 false (Or.inl rfl)
    refine (ih _ _ h1).congr_eq ?_
    intro k _
    unfold upd dictEdges
    by_cases e : k = i.toNat
    · simp [e]
    · simp [e]

end dictadd

/-! ## onsite terms -/
section onsite
variable {α : Type}

def onsiteEdges (d : Dict String α) : List (Edge Key α) := dictEdges Key.IdL Key.IdR d

theorem rep_onsite_list {L : Nat} (l : List (Dict String α)) :
    ∀ (g : Graph α) (S : Nat → List (Edge Key α)), l.length ≤ L → Rep L g S →
      Rep L (l.zipIdx.foldl (fun (g : Graph α) (p : Dict String α × Nat) =>
          p.1.foldl (fun (g : Graph α) (q : String × α) => g.add p.2 Key.IdL Key.IdR q.1 q.2) g) g)
        (fun k => S k ++ onsiteEdges (l.getD k [])) := by
  induction l using List.reverseRecOn with
  | nil =>
    intro g S _ h
    exact h.congr_eq (fun k _ => by simp [onsiteEdges, dictEdges])
  | append_singleton l d ih =>
    intro g S hl h
    rw [List.length_append, List.length_singleton] at hl
    rw [List.zipIdx_append, List.foldl_append]
    have h1 := ih g S (by omega) h
    have h2 := rep_dict_add (L := L) (l.length : Int) (by omega) (by omega) Key.IdL Key.IdR d _ _ h1
    simp only [List.zipIdx_cons, List.zipIdx_nil, List.foldl_cons, List.foldl_nil, Nat.zero_add]
    refine h2.congr_eq ?_
    intro k _
    rw [Int.toNat_natCast]
    by_cases e : k = l.length
    · subst e
      simp [onsiteEdges, dictEdges]
    · rw [if_neg e, List.append_nil]
      by_cases e2 : k < l.length
      · simp [List.getD_eq_getElem?_getD, List.getElem?_append_left e2]
      · have : l.length + 1 ≤ k := by omega
        simp [List.getD_eq_getElem?_getD, this, List.length_append,
          show l.length ≤ k by omega]

theorem rep_onsite {L : Nat} (ot : OnsiteTerms α) (hot : ot.terms.length = L) (g : Graph α)
    (S : Nat → List (Edge Key α)) (h : Rep L g S) :
    Rep L (ot.addToGraph g) (fun k => S k ++ onsiteEdges (ot.terms.getD k [])) := by
  have := (rep_onsite_list ot.terms g S (by omega) h).bump (.fin 1)
  exact this

end onsite

/-! ## the operator string of a coupling -/
section string
variable {α : Type} [One α]

def strEdge (lab : Key) (str : String) : Edge Key α := ⟨lab, lab, str, 1⟩

/-- loop body of `add_string_left_to_right` -/
def strStep (i : Int) (op : String) (acc : Graph α × Key) (k : Int) : Graph α × Key :=
  let keyR := if (k - i).emod acc.1.L = 0 then acc.2.ext k op op else acc.2
  (if acc.1.hasEdge (acc.1.siteOf k) acc.2 keyR then acc.1 else acc.1.add k acc.2 keyR op 1 true, keyR)

theorem addStringLR_eq (g : Graph α) (i j : Int) (key : Key) (op : String) :
    g.addStringLR i j key op =
      ((List.range (j - i - 1).toNat).map (fun (d : Nat) => i + 1 + (d : Int))).foldl (strStep i op) (g, key) := rfl

theorem strStep_spec {L : Nat} (i : Int) (h0 : 0 ≤ i) (lab : Key) (str : String) (g : Graph α)
    (T : Nat → List (Edge Key α)) (h : Rep L g T) (k : Int) (hik : i < k) (hkL : k < (L : Int)) :
    (strStep i str (g, lab) k).2 = lab ∧
    ((∃ e ∈ T k.toNat, e.kL = lab ∧ e.kR = lab) → (strStep i str (g, lab) k).1 = g) ∧
    ((¬ ∃ e ∈ T k.toNat, e.kL = lab ∧ e.kR = lab) →
      Rep L (strStep i str (g, lab) k).1 (upd T k.toNat (strEdge lab str))) := by
  have hne : ¬ ((k - i).emod g.L = 0) := by
    rw [h.1]
    show ¬ ((k - i) % (L : Int) = 0)
    rw [Int.emod_eq_of_lt (by omega) (by omega)]
    omega
  have hs : g.siteOf k = k.toNat := siteOf_of h.1 k (by omega) hkL
  have hk : k.toNat < L := by omega
  unfold strStep
  simp only [if_neg hne, hs]
  refine ⟨trivial, ?_, ?_⟩
  · intro hex
    rw [if_pos ((hasEdge_iff h k.toNat hk lab lab).2 hex)]
  · intro hex
    have : ¬ (g.hasEdge k.toNat lab lab = true) := fun hc => hex ((hasEdge_iff h k.toNat hk lab lab).1 hc)
    rw [if_neg this]
    exact h.add k (by omega) hkL lab lab str 1 true (Or.inr (fun e he hc => hex ⟨e, he, hc⟩))

theorem rep_stringFold {L : Nat} (i : Int) (h0 : 0 ≤ i) (lab : Key) (str : String) (m : Int) (hm : i + 1 ≤ m)
    (g : Graph α) (T : Nat → List (Edge Key α)) (h : Rep L g T)
    (hT : ∀ k : Nat, k < L → i < (k : Int) → ((∃ e ∈ T k, e.kL = lab ∧ e.kR = lab) ↔ (k : Int) < m)) :
    ∀ n : Nat, i + 1 + (n : Int) ≤ (L : Int) →
      (((List.range n).map (fun (d : Nat) => i + 1 + (d : Int))).foldl (strStep i str) (g, lab)).2 = lab ∧
      Rep L (((List.range n).map (fun (d : Nat) => i + 1 + (d : Int))).foldl (strStep i str) (g, lab)).1
        (fun k => T k ++ if m ≤ (k : Int) ∧ (k : Int) < i + 1 + (n : Int) then [strEdge lab str] else []) := by
  intro n
  induction n with
  | zero =>
    intro _
    refine ⟨rfl, h.congr_eq ?_⟩
    intro k _
    have : ¬ (m ≤ (k : Int) ∧ (k : Int) < i + 1 + ((0 : Nat) : Int)) := by omega
    rw [if_neg this, List.append_nil]
  | succ n ih =>
    intro hn
    obtain ⟨ih1, ih2⟩ := ih (by omega)
    rw [List.range_succ, List.map_append, List.foldl_append]
    simp only [List.map_cons, List.map_nil, List.foldl_cons, List.foldl_nil]
    generalize hr : ((List.range n).map (fun (d : Nat) => i + 1 + (d : Int))).foldl (strStep i str) (g, lab) = r at ih1 ih2
    obtain ⟨g', key'⟩ := r
    simp only at ih1 ih2
    subst ih1
    have hk0 : (i + 1 + (n : Int)).toNat < L := by omega
    obtain ⟨s1, s2, s3⟩ := strStep_spec i h0 key' str g' _ ih2 (i + 1 + (n : Int)) (by omega) (by omega)
    refine ⟨s1, ?_⟩
    have hiff : (∃ e ∈ (T (i + 1 + (n : Int)).toNat ++
        if m ≤ (((i + 1 + (n : Int)).toNat : Nat) : Int) ∧ (((i + 1 + (n : Int)).toNat : Nat) : Int) < i + 1 + (n : Int)
          then [strEdge key' str] else []), e.kL = key' ∧ e.kR = key') ↔ i + 1 + (n : Int) < m := by
      rw [if_neg (by omega), List.append_nil, hT _ hk0 (by omega)]
      omega
    by_cases hc : i + 1 + (n : Int) < m
    · rw [s2 (hiff.2 hc)]
      refine ih2.congr_eq ?_
      intro k _
      congr 1
      apply if_congr _ rfl rfl
      push_cast
      omega
    · refine (s3 (fun hx => hc (hiff.1 hx))).congr_eq ?_
      intro k _
      unfold upd
      beta_reduce
      by_cases e : k = (i + 1 + (n : Int)).toNat
      · rw [if_pos e, if_neg (by omega), if_pos (by push_cast; omega), List.append_nil]
      · rw [if_neg e]
        congr 1
        apply if_congr _ rfl rfl
        push_cast
        omega

theorem rep_addStringLR {L : Nat} (i j : Int) (h0 : 0 ≤ i) (hij : i < j) (hj : j ≤ (L : Int)) (lab : Key)
    (str : String) (m : Int) (hm : i + 1 ≤ m)
    (g : Graph α) (T : Nat → List (Edge Key α)) (h : Rep L g T)
    (hT : ∀ k : Nat, k < L → i < (k : Int) → ((∃ e ∈ T k, e.kL = lab ∧ e.kR = lab) ↔ (k : Int) < m)) :
    (g.addStringLR i j lab str).2 = lab ∧
    Rep L (g.addStringLR i j lab str).1
      (fun k => T k ++ if m ≤ (k : Int) ∧ (k : Int) < j then [strEdge lab str] else []) := by
  rw [addStringLR_eq]
  have hn : i + 1 + (((j - i - 1).toNat : Nat) : Int) = j := by omega
  have := rep_stringFold i h0 lab str m hm g T h hT (j - i - 1).toNat (by omega)
  rw [hn] at this
  exact this

end string

/-! ## one block `(i, op_i, op_str) ↦ {j: {op_j: strength}}` -/
section block
variable {α : Type} [One α]

theorem ite_append_ite {β : Type} (p q r : Prop) [Decidable p] [Decidable q] [Decidable r] (x : β)
    (h1 : ¬ (p ∧ q)) (h2 : r ↔ p ∨ q) :
    (if p then [x] else []) ++ (if q then [x] else []) = if r then [x] else [] := by
  by_cases hp : p
  · have hq : ¬ q := fun hq => h1 ⟨hp, hq⟩
    rw [if_pos hp, if_neg hq, if_pos (h2.2 (Or.inl hp)), List.append_nil]
  · by_cases hq : q
    · rw [if_neg hp, if_pos hq, if_pos (h2.2 (Or.inr hq)), List.nil_append]
    · rw [if_neg hp, if_neg hq, if_neg (fun hr => (h2.1 hr).elim hp hq), List.append_nil]

theorem foldl_max_ge' (l : List Int) (a : Int) : a ≤ l.foldl max a := by
  induction l generalizing a with
  | nil => exact le_refl _
  | cons y l ih => exact le_trans (le_max_left a y) (ih (max a y))

/-- loop body over `d2` in `CouplingTerms.add_to_graph` -/
def d2Step (i : Int) (lab : Key) (str : String) (g : Graph α) (p : Int × Dict String α) : Graph α :=
  p.2.foldl (fun (g' : Graph α) (q : String × α) => g'.add p.1 (g.addStringLR i p.1 lab str).2 Key.IdR q.1 q.2)
    (g.addStringLR i p.1 lab str).1

theorem rep_d2 {L : Nat} (i : Int) (h0 : 0 ≤ i) (lab : Key) (hlab : lab ≠ Key.IdR) (str : String)
    (d2 : Dict Int (Dict String α)) :
    ∀ (g : Graph α) (T : Nat → List (Edge Key α)) (m : Int), Rep L g T → i + 1 ≤ m →
      (∀ p ∈ d2, i < p.1 ∧ p.1 < (L : Int)) →
      (∀ k : Nat, k < L → i < (k : Int) → ((∃ e ∈ T k, e.kL = lab ∧ e.kR = lab) ↔ (k : Int) < m)) →
      Rep L (d2.foldl (d2Step i lab str) g)
        (fun k => T k ++ ((if m ≤ (k : Int) ∧ (k : Int) < (Dict.keys d2).foldl max m then [strEdge lab str] else []) ++
          d2.flatMap (fun p => if p.1 = (k : Int) then dictEdges lab Key.IdR p.2 else []))) := by
  induction d2 with
  | nil =>
    intro g T m h _ _ _
    refine h.congr_eq ?_
    intro k _
    have : ¬ (m ≤ (k : Int) ∧ (k : Int) < m) := by omega
    simp [Dict.keys, this]
  | cons p d2 ih =>
    intro g T m h hm hv hT
    have hp := hv p List.mem_cons_self
    rw [List.foldl_cons]
    obtain ⟨r2, r1⟩ := rep_addStringLR i p.1 h0 hp.1 (by omega) lab str m hm g T h hT
    have hd := rep_dict_add (L := L) p.1 (by omega) hp.2 lab Key.IdR p.2 _ _ r1
    have hstep : d2Step i lab str g p =
        p.2.foldl (fun (g' : Graph α) (q : String × α) => g'.add p.1 lab Key.IdR q.1 q.2)
          (g.addStringLR i p.1 lab str).1 := by
      unfold d2Step
      rw [r2]
    rw [hstep]
    have hT2 : ∀ k : Nat, k < L → i < (k : Int) →
        ((∃ e ∈ (T k ++ (if m ≤ (k : Int) ∧ (k : Int) < p.1 then [strEdge lab str] else [])) ++
            (if k = p.1.toNat then dictEdges lab Key.IdR p.2 else []), e.kL = lab ∧ e.kR = lab) ↔
          (k : Int) < max m p.1) := by
      intro k hk hik
      constructor
      · rintro ⟨e, he, hel, her⟩
        rcases List.mem_append.1 he with he | he
        · rcases List.mem_append.1 he with he | he
          · have := (hT k hk hik).1 ⟨e, he, hel, her⟩
            exact lt_of_lt_of_le this (le_max_left _ _)
          · by_cases c : m ≤ (k : Int) ∧ (k : Int) < p.1
            · exact lt_of_lt_of_le c.2 (le_max_right _ _)
            · rw [if_neg c] at he
              simp at he
        · exfalso
          by_cases c : k = p.1.toNat
          · rw [if_pos c] at he
            unfold dictEdges at he
            obtain ⟨q, _, rfl⟩ := List.mem_map.1 he
            exact hlab her.symm
          · rw [if_neg c] at he
            simp at he
      · intro hlt
        by_cases c : (k : Int) < m
        · obtain ⟨e, he, hc⟩ := (hT k hk hik).2 c
          exact ⟨e, List.mem_append_left _ (List.mem_append_left _ he), hc⟩
        · have c2 : m ≤ (k : Int) ∧ (k : Int) < p.1 := by
            refine ⟨by omega, ?_⟩
            rcases lt_max_iff.1 hlt with h' | h'
            · exact absurd h' c
            · exact h'
          refine ⟨strEdge lab str, ?_, rfl, rfl⟩
          apply List.mem_append_left
          apply List.mem_append_right
          rw [if_pos c2]
          exact List.mem_singleton_self _
    have hres := ih _ _ (max m p.1) hd (le_trans hm (le_max_left _ _))
      (fun p' hp' => hv p' (List.mem_cons_of_mem _ hp')) hT2
    refine hres.congr ?_
    intro k _
    have hkeys : Dict.keys (p :: d2) = p.1 :: Dict.keys d2 := rfl
    rw [hkeys, List.foldl_cons, List.flatMap_cons]
    have hM : max m p.1 ≤ (Dict.keys d2).foldl max (max m p.1) := foldl_max_ge' _ _
    generalize (Dict.keys d2).foldl max (max m p.1) = M at hM
    have hm1 : m ≤ M := le_trans (le_max_left _ _) hM
    have hm2 : p.1 ≤ M := le_trans (le_max_right _ _) hM
    have hAB := ite_append_ite (m ≤ (k : Int) ∧ (k : Int) < p.1) (max m p.1 ≤ (k : Int) ∧ (k : Int) < M)
      (m ≤ (k : Int) ∧ (k : Int) < M) (strEdge (α := α) lab str)
      (by
        rintro ⟨⟨_, a⟩, ⟨b, _⟩⟩
        have := le_trans (le_max_right m p.1) b
        omega)
      (by
        constructor
        · rintro ⟨a, b⟩
          by_cases c : (k : Int) < p.1
          · exact Or.inl ⟨a, c⟩
          · exact Or.inr ⟨max_le a (by omega), b⟩
        · rintro (⟨a, b⟩ | ⟨a, b⟩)
          · exact ⟨a, by omega⟩
          · exact ⟨le_trans (le_max_left _ _) a, b⟩)
    rw [← hAB]
    have hC : (if k = p.1.toNat then dictEdges lab Key.IdR p.2 else []) =
        (if p.1 = (k : Int) then dictEdges lab Key.IdR p.2 else []) := by
      apply if_congr _ rfl rfl
      omega
    rw [hC]
    simp only [List.append_assoc]
    apply List.Perm.append_left
    apply List.Perm.append_left
    rw [← List.append_assoc, ← List.append_assoc]
    exact List.Perm.append_right _ List.perm_append_comm

/-- loop body over the blocks in `CouplingTerms.add_to_graph` -/
def blockStep (g : Graph α) (b : Block α) : Graph α :=
  b.d2.foldl (d2Step b.i b.label b.str) (g.add b.i Key.IdL b.label b.opi 1 true)

omit [One α] in
theorem label_ne_IdL' (b : Block α) : b.label ≠ Key.IdL := by simp [Block.label, leftLabel, Key.IdL]
omit [One α] in
theorem label_ne_IdR' (b : Block α) : b.label ≠ Key.IdR := by simp [Block.label, leftLabel, Key.IdR]

theorem rep_block {L : Nat} (b : Block α) (h0 : 0 ≤ b.i) (h1 : b.i < (L : Int))
    (hv : ∀ p ∈ b.d2, b.i < p.1 ∧ p.1 < (L : Int)) (g : Graph α) (S : Nat → List (Edge Key α))
    (h : Rep L g S) (hfresh : ∀ k, k < L → ∀ e ∈ S k, e.kR ≠ b.label) :
    Rep L (blockStep g b) (fun k => S k ++ b.edgesAt k) := by
  unfold blockStep
  have ha := h.add b.i h0 h1 Key.IdL b.label b.opi 1 true
    (Or.inr (fun e he hc => hfresh _ (by omega) e he hc.2))
  have hT : ∀ k : Nat, k < L → b.i < (k : Int) →
      ((∃ e ∈ upd S b.i.toNat ⟨Key.IdL, b.label, b.opi, 1⟩ k, e.kL = b.label ∧ e.kR = b.label) ↔
        (k : Int) < b.i + 1) := by
    intro k hk hik
    constructor
    · rintro ⟨e, he, _, her⟩
      exfalso
      unfold upd at he
      rw [if_neg (by omega)] at he
      exact hfresh k hk e he her
    · intro hc
      omega
  have := rep_d2 b.i h0 b.label (label_ne_IdR' b) b.str b.d2 _ _ (b.i + 1) ha (le_refl _) hv hT
  refine this.congr_eq ?_
  intro k _
  unfold upd Block.edgesAt Block.jmax dictEdges strEdge
  have c1 : (b.i + 1 ≤ (k : Int) ∧ (k : Int) < (Dict.keys b.d2).foldl max (b.i + 1)) ↔
      (b.i < (k : Int) ∧ (k : Int) < (Dict.keys b.d2).foldl max (b.i + 1)) := by
    constructor
    · rintro ⟨a, c⟩; exact ⟨by omega, c⟩
    · rintro ⟨a, c⟩; exact ⟨by omega, c⟩
  rw [if_congr c1 rfl rfl]
  by_cases e : k = b.i.toNat
  · rw [if_pos e, if_pos (show b.i = (k : Int) by omega)]
    simp only [List.append_assoc]
  · rw [if_neg e, if_neg (show ¬ b.i = (k : Int) by omega), List.nil_append]

end block

/-! ## all blocks of the coupling dictionary -/
section blocks
variable {α : Type} [One α]

theorem addToGraph_blocks (ct : CouplingTerms α) (g : Graph α) :
    ct.addToGraph g = bumpRange (ct.blocks.foldl blockStep g) (.fin ct.maxRange) := by
  unfold CouplingTerms.addToGraph CouplingTerms.blocks
  rw [List.foldl_flatMap]
  simp only [List.foldl_map]
  rfl

theorem mem_edgesAt_kR (b : Block α) (k : Nat) (e : Edge Key α) (he : e ∈ b.edgesAt k) :
    e.kR = b.label ∨ e.kR = Key.IdR := by
  unfold Block.edgesAt at he
  rcases List.mem_append.1 he with he | he
  · by_cases c : b.i = (k : Int)
    · rw [if_pos c, List.mem_singleton] at he
      subst he
      exact Or.inl rfl
    · rw [if_neg c] at he
      simp at he
  · rcases List.mem_append.1 he with he | he
    · by_cases c : b.i < (k : Int) ∧ (k : Int) < b.jmax
      · rw [if_pos c, List.mem_singleton] at he
        subst he
        exact Or.inl rfl
      · rw [if_neg c] at he
        simp at he
    · obtain ⟨p, _, hp⟩ := List.mem_flatMap.1 he
      by_cases c : p.1 = (k : Int)
      · rw [if_pos c] at hp
        obtain ⟨q, _, rfl⟩ := List.mem_map.1 hp
        exact Or.inr rfl
      · rw [if_neg c] at hp
        simp at hp

theorem mem_edgesAt_kL (b : Block α) (k : Nat) (e : Edge Key α) (he : e ∈ b.edgesAt k) :
    e.kL = b.label ∨ e.kL = Key.IdL := by
  unfold Block.edgesAt at he
  rcases List.mem_append.1 he with he | he
  · by_cases c : b.i = (k : Int)
    · rw [if_pos c, List.mem_singleton] at he
      subst he
      exact Or.inr rfl
    · rw [if_neg c] at he
      simp at he
  · rcases List.mem_append.1 he with he | he
    · by_cases c : b.i < (k : Int) ∧ (k : Int) < b.jmax
      · rw [if_pos c, List.mem_singleton] at he
        subst he
        exact Or.inl rfl
      · rw [if_neg c] at he
        simp at he
    · obtain ⟨p, _, hp⟩ := List.mem_flatMap.1 he
      by_cases c : p.1 = (k : Int)
      · rw [if_pos c] at hp
        obtain ⟨q, _, rfl⟩ := List.mem_map.1 hp
        exact Or.inl rfl
      · rw [if_neg c] at hp
        simp at hp

theorem rep_blocks {L : Nat} (bs : List (Block α)) :
    ∀ (g : Graph α) (S : Nat → List (Edge Key α)), Rep L g S →
      bs.Pairwise (fun b b' => b.label ≠ b'.label) →
      (∀ b ∈ bs, 0 ≤ b.i ∧ b.i < (L : Int) ∧ ∀ p ∈ b.d2, b.i < p.1 ∧ p.1 < (L : Int)) →
      (∀ b ∈ bs, ∀ k, k < L → ∀ e ∈ S k, e.kR ≠ b.label) →
      Rep L (bs.foldl blockStep g) (fun k => S k ++ bs.flatMap (fun b => b.edgesAt k)) := by
  induction bs with
  | nil =>
    intro g S h _ _ _
    exact h.congr_eq (fun k _ => by simp)
  | cons b bs ih =>
    intro g S h hpw hv hfresh
    rw [List.pairwise_cons] at hpw
    rw [List.foldl_cons]
    have hb := hv b List.mem_cons_self
    have h1 := rep_block b hb.1 hb.2.1 hb.2.2 g S h (hfresh b List.mem_cons_self)
    have h2 := ih _ _ h1 hpw.2 (fun b' hb' => hv b' (List.mem_cons_of_mem _ hb')) (by
      intro b' hb' k hk e he
      rcases List.mem_append.1 he with he | he
      · exact hfresh b' (List.mem_cons_of_mem _ hb') k hk e he
      · rcases mem_edgesAt_kR b k e he with hr | hr
        · rw [hr]; exact hpw.1 b' hb'
        · rw [hr]; exact (label_ne_IdR' b').symm)
    refine h2.congr_eq ?_
    intro k _
    simp only [List.flatMap_cons, List.append_assoc]

omit [One α] in
theorem label_inj' (b b' : Block α) (h : b.label = b'.label) :
    b.i = b'.i ∧ b.opi = b'.opi ∧ b.str = b'.str := by
  simpa [Block.label, leftLabel] using h

omit [One α] in
theorem blocks_of_WFP (ct : CouplingTerms α) (L : Nat)
    (hct : ct.WFP (fun i j => 0 ≤ i ∧ i < j ∧ j < (L : Int))) :
    ct.blocks.Pairwise (fun b b' => b.label ≠ b'.label) ∧
    ∀ b ∈ ct.blocks, 0 ≤ b.i ∧ b.i < (L : Int) ∧ ∀ p ∈ b.d2, b.i < p.1 ∧ p.1 < (L : Int) := by
  refine ⟨?_, ?_⟩
  · unfold CouplingTerms.blocks
    rw [List.pairwise_flatMap]
    constructor
    · intro p hp
      rw [List.pairwise_map]
      have hk : (Dict.keys p.2).Nodup := (hct.2 p hp).1
      unfold Dict.keys at hk
      rw [List.Nodup, List.pairwise_map] at hk
      refine hk.imp ?_
      intro a b hab hl
      have := label_inj' _ _ hl
      exact hab (Prod.ext this.2.1 this.2.2)
    · have hk : (Dict.keys ct.terms).Nodup := hct.1
      unfold Dict.keys at hk
      rw [List.Nodup, List.pairwise_map] at hk
      refine hk.imp ?_
      intro a b hab x hx y hy hl
      obtain ⟨qa, _, rfl⟩ := List.mem_map.1 hx
      obtain ⟨qb, _, rfl⟩ := List.mem_map.1 hy
      exact hab (label_inj' _ _ hl).1
  · intro b hb
    unfold CouplingTerms.blocks at hb
    obtain ⟨p, hp, hb⟩ := List.mem_flatMap.1 hb
    obtain ⟨q, hq, rfl⟩ := List.mem_map.1 hb
    have hq2 := ((hct.2 p hp).2 q hq).2.2
    have hne := ((hct.2 p hp).2 q hq).1
    obtain ⟨r, hr⟩ := List.exists_mem_of_ne_nil _ hne
    have hr' := (hq2 r hr).1
    refine ⟨hr'.1, by have := hr'.2.1; have := hr'.2.2; show p.1 < (L : Int); omega, ?_⟩
    intro r' hr2
    exact ⟨(hq2 r' hr2).1.2.1, (hq2 r' hr2).1.2.2⟩

theorem rep_coupling {L : Nat} (ct : CouplingTerms α)
    (hct : ct.WFP (fun i j => 0 ≤ i ∧ i < j ∧ j < (L : Int))) (g : Graph α)
    (S : Nat → List (Edge Key α)) (h : Rep L g S)
    (hfresh : ∀ b ∈ ct.blocks, ∀ k, k < L → ∀ e ∈ S k, e.kR ≠ b.label) :
    Rep L (ct.addToGraph g) (fun k => S k ++ ct.blocks.flatMap (fun b => b.edgesAt k)) := by
  rw [addToGraph_blocks]
  obtain ⟨hpw, hv⟩ := blocks_of_WFP ct L hct
  exact (rep_blocks ct.blocks g S h hpw hv hfresh).bump _

end blocks

/-! ## `add_missing_IdL_IdR` -/
section ident
variable {α : Type} [One α]

def idStep (kk : Key) (g : Graph α) (k : Nat) : Graph α :=
  if g.hasEdge k kk kk then g else g.add k kk kk "Id" 1

theorem idStep_neg (kk : Key) (g : Graph α) (k : Nat) (h : ¬ (g.hasEdge k kk kk = true)) :
    idStep kk g k = g.add k kk kk "Id" 1 := by
  unfold idStep
  rw [if_neg h]

theorem addMissing_eq (g : Graph α) :
    g.addMissingIdLIdR true =
      (List.range g.L).foldl (idStep Key.IdR) ((List.range g.L).foldl (idStep Key.IdL) g) := by
  unfold Graph.addMissingIdLIdR
  simp only [Bool.or_true, if_true, Nat.sub_zero, Nat.add_zero, List.map_id']
  rfl

theorem rep_idFold {L : Nat} (kk : Key) (g : Graph α) (S : Nat → List (Edge Key α)) (h : Rep L g S)
    (hS : ∀ k, k < L → ∀ e ∈ S k, ¬ (e.kL = kk ∧ e.kR = kk)) :
    ∀ n, n ≤ L → Rep L ((List.range n).foldl (idStep kk) g)
      (fun k => S k ++ if k < n then [⟨kk, kk, "Id", 1⟩] else []) := by
  intro n
  induction n with
  | zero =>
    intro _
    exact h.congr_eq (fun k _ => by simp)
  | succ n ih =>
    intro hn
    have ih' := ih (by omega)
    rw [List.range_succ, List.foldl_append]
    simp only [List.foldl_cons, List.foldl_nil]
    have hno : ¬ ∃ e ∈ (S n ++ if n < n then [(⟨kk, kk, "Id", 1⟩ : Edge Key α)] else []), e.kL = kk ∧ e.kR = kk := by
      rw [if_neg (lt_irrefl n), List.append_nil]
      rintro ⟨e, he, hc⟩
      exact hS n (by omega) e he hc
    have hne : ¬ (((List.range n).foldl (idStep kk) g).hasEdge n kk kk = true) :=
      fun hc => hno ((hasEdge_iff ih' n (by omega) kk kk).1 hc)
    rw [idStep_neg kk _ n hne]
    have ha := ih'.add (n : Int) (by omega) (by omega) kk kk "Id" 1 false (Or.inl rfl)
    refine ha.congr_eq ?_
    intro k _
    unfold upd
    rw [Int.toNat_natCast]
    beta_reduce
    by_cases e : k = n
    · rw [if_pos e, if_neg (by omega), if_pos (by omega), List.append_nil]
    · rw [if_neg e]
      congr 1
      apply if_congr _ rfl rfl
      omega

end ident

/-! ## the theorem -/
section final
variable {α : Type} [One α]

theorem forall2_specFrom (ot : OnsiteTerms α) (ct : CouplingTerms α) :
    ∀ (n k : Nat) (l : List (List (Edge Key α))), l.length = n →
      (∀ j, j < n → (l.getD j []).Perm (specLayer ot ct (k + j))) →
      List.Forall₂ List.Perm l (specFrom ot ct k n) := by
  intro n
  induction n with
  | zero =>
    intro k l hl _
    rw [List.length_eq_zero_iff] at hl
    subst hl
    exact List.Forall₂.nil
  | succ n ih =>
    intro k l hl h
    cases l with
    | nil => simp at hl
    | cons x l =>
      show List.Forall₂ List.Perm (x :: l) (specLayer ot ct k :: specFrom ot ct (k + 1) n)
      refine List.Forall₂.cons ?_ (ih (k + 1) l (by simpa using hl) ?_)
      · have := h 0 (by omega)
        simpa using this
      · intro j hj
        have := h (j + 1) (by omega)
        rw [show k + (j + 1) = k + 1 + j by omega] at this
        simpa using this

theorem fromTerms_layers_perm [Inhabited α] (ot : OnsiteTerms α) (ct : CouplingTerms α) (L : Nat)
    (hot : ot.terms.length = L)
    (hct : ct.WFP (fun i j => 0 ≤ i ∧ i < j ∧ j < (L : Int))) :
    List.Forall₂ List.Perm (Graph.fromTerms L false [.onsite ot, .coupling ct]).layers (specLayers ot ct L) := by
  have e0 : Graph.fromTerms L false [.onsite ot, .coupling ct] =
      (ct.addToGraph (ot.addToGraph (Graph.empty L false))).addMissingIdLIdR true := rfl
  rw [e0]
  have r1 := rep_onsite ot hot _ _ (Rep.empty (α := α) L false)
  have r2 := rep_coupling ct hct _ _ r1 (by
    intro b _ k _ e he
    rw [List.nil_append] at he
    unfold onsiteEdges dictEdges at he
    obtain ⟨q, _, rfl⟩ := List.mem_map.1 he
    exact (label_ne_IdR' b).symm)
  rw [addMissing_eq, r2.1]
  have r3 := rep_idFold Key.IdL _ _ r2 (by
    intro k _ e he hc
    rcases List.mem_append.1 he with he | he
    · rw [List.nil_append] at he
      unfold onsiteEdges dictEdges at he
      obtain ⟨q, _, rfl⟩ := List.mem_map.1 he
      exact absurd hc.2 (by simp [Key.IdL, Key.IdR])
    · obtain ⟨b, _, hb⟩ := List.mem_flatMap.1 he
      rcases mem_edgesAt_kR b k e hb with hr | hr
      · exact label_ne_IdL' b (hr.symm.trans hc.2)
      · exact absurd (hr.symm.trans hc.2) (by simp [Key.IdL, Key.IdR])) L (le_refl _)
  have r4 := rep_idFold Key.IdR _ _ r3 (by
    intro k _ e he hc
    rcases List.mem_append.1 he with he | he
    · rcases List.mem_append.1 he with he | he
      · rw [List.nil_append] at he
        unfold onsiteEdges dictEdges at he
        obtain ⟨q, _, rfl⟩ := List.mem_map.1 he
        exact absurd hc.1 (by simp [Key.IdL, Key.IdR])
      · obtain ⟨b, _, hb⟩ := List.mem_flatMap.1 he
        rcases mem_edgesAt_kL b k e hb with hr | hr
        · exact label_ne_IdR' b (hr.symm.trans hc.1)
        · exact absurd (hr.symm.trans hc.1) (by simp [Key.IdL, Key.IdR])
    · by_cases c : k < L
      · rw [if_pos c, List.mem_singleton] at he
        subst he
        exact absurd hc.1 (by simp [Key.IdL, Key.IdR])
      · rw [if_neg c] at he
        simp at he) L (le_refl _)
  unfold specLayers
  apply forall2_specFrom ot ct L 0 _ r4.2.1
  intro j hj
  rw [Nat.zero_add]
  refine (r4.2.2 j hj).trans (List.Perm.of_eq ?_)
  beta_reduce
  simp only [if_pos hj]
  unfold specLayer onsiteEdges dictEdges
  simp only [List.nil_append, List.append_assoc, List.cons_append]

end final

section corollary
variable {α : Type} [Semiring α]

/-- path sums only depend on the multisets of edges of the layers -/
theorem pathsFrom_equiv_of_forall2 {κ : Type} [DecidableEq κ] (fin : κ) {l1 l2 : List (List (Edge κ α))}
    (h : List.Forall₂ List.Perm l1 l2) :
    ∀ k, Sym.Equiv (pathsFrom fin l1 k) (pathsFrom fin l2 k) := by
  induction h with
  | nil => intro k; exact Sym.Equiv.refl _
  | cons hp _ ih =>
    intro k
    refine (Sym.Equiv.of_perm (pathsFrom_perm_layer fin hp _ k)).trans ?_
    rw [pathsFrom_cons, pathsFrom_cons]
    apply Sym.Equiv.flatMap_congr
    intro e _
    split
    · exact Sym.Equiv.consOp _ _ (ih _)
    · exact Sym.Equiv.refl _

theorem denoteGraph_fromTerms_equiv [Inhabited α] (ot : OnsiteTerms α) (ct : CouplingTerms α) (L : Nat)
    (hot : ot.terms.length = L) (hct : ct.WFP (fun i j => 0 ≤ i ∧ i < j ∧ j < (L : Int))) :
    Sym.Equiv (denoteGraph (Graph.fromTerms L false [.onsite ot, .coupling ct]))
      (pathsFrom Key.IdR (specLayers ot ct L) Key.IdL) := by
  unfold denoteGraph
  exact pathsFrom_equiv_of_forall2 Key.IdR (fromTerms_layers_perm ot ct L hot hct) Key.IdL

end corollary

end TenpyModel.Ops
