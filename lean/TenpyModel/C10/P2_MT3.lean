import Mathlib.Data.List.TakeWhile
import TenpyModel.C10.P2_MT2
/-!
# C10 / Props2 (container level of `MultiCouplingTerms`), part 3: the invariant of the container

`MInv mt` (both tries `SideOK`, every live connection inside the chain with `shift = 0`) implies `GWF` and is
preserved by `_insert_connection` (both branches) and hence by `add_multi_coupling_term` for valid calls.
-/
namespace TenpyModel.Ops

open MultiCouplingTerms

section
variable {α : Type}

structure MInv (mt : MultiCouplingTerms α) : Prop where
  left : SideOK (· < ·) mt.L mt.left mt.conns
  right : SideOK (· > ·) mt.L mt.right mt.conns
  connOK : ∀ c kk, mt.conns.getD c none = some kk →
    0 ≤ kk.switchLR ∧ kk.switchLR < (mt.L : Int) ∧ kk.shift = 0

theorem MInv.gwf {mt : MultiCouplingTerms α} (h : MInv mt) : mt.GWF :=
  ⟨h.left.has, h.right.has, h.connOK, h.left.ok, h.right.ok, h.left.disj, h.right.disj⟩

theorem MInv.empty (L : Nat) : MInv (MultiCouplingTerms.empty L : MultiCouplingTerms α) := by
  have hno : ∀ c (kk : Conn α), ([none] : List (Option (Conn α))).getD c none = some kk → False := by
    intro c kk h
    cases c <;> cases h
  refine ⟨⟨?_, ?_, List.Pairwise.nil, ?_⟩, ⟨?_, ?_, List.Pairwise.nil, ?_⟩, ?_⟩
  · intro c kk h; exact (hno c kk h).elim
  · intro p hp; cases hp
  · intro p hp; cases hp
  · intro c kk h; exact (hno c kk h).elim
  · intro p hp; cases hp
  · intro p hp; cases hp
  · intro c kk h; exact (hno c kk h).elim

/-! ## `_insert_connection` -/

/-- the test of `_insert_connection`: same `(switchLR, op_switch, shift)` and also reachable from the right -/
def sameConn (mt : MultiCouplingTerms α) (rp : List MKey) (k : Conn α) (c : Nat) : Bool :=
  match mt.conns.getD c none with
  | some k' => k'.switchLR = k.switchLR && k'.opSwitch = k.opSwitch && k'.shift = k.shift
               && (countersAt mt.right rp).contains c
  | none => false

/-- the merged entry -/
def mergeConn [Add α] (k : Conn α) (o : Option (Conn α)) : Option (Conn α) :=
  o.map (fun k' => { k with strength := k'.strength + k.strength })

theorem insertConnection_eq [Add α] (mt : MultiCouplingTerms α) (lp rp : List MKey) (k : Conn α) :
    mt.insertConnection lp rp k =
      match (countersAt mt.left lp).find? (sameConn mt rp k) with
      | some c =>
        { mt with left := touch mt.left lp, right := touch mt.right rp,
                  conns := mt.conns.modify c (mergeConn k) }
      | none =>
        { mt with left := pushCounter mt.left lp mt.conns.length,
                  right := pushCounter mt.right rp mt.conns.length,
                  conns := mt.conns ++ [some k] } := rfl

theorem sameConn_spec (mt : MultiCouplingTerms α) (rp : List MKey) (k : Conn α) (c : Nat)
    (h : sameConn mt rp k c = true) :
    ∃ k', mt.conns.getD c none = some k' ∧ k'.switchLR = k.switchLR ∧ k'.opSwitch = k.opSwitch ∧
      k'.shift = k.shift ∧ c ∈ countersAt mt.right rp := by
  unfold sameConn at h
  split at h
  · rename_i k' hk'
    simp only [Bool.and_eq_true, decide_eq_true_eq, List.contains_iff_mem] at h
    exact ⟨k', hk', h.1.1.1, h.1.1.2, h.1.2, h.2⟩
  · cases h

theorem getD_modify_merge [Add α] (conns : List (Option (Conn α))) (c : Nat) (k k' : Conn α)
    (hc : conns.getD c none = some k') (c' : Nat) (kk : Conn α)
    (h : (conns.modify c (mergeConn k)).getD c' none = some kk) :
    (c' = c ∧ kk = { k with strength := k'.strength + k.strength }) ∨ (c' ≠ c ∧ conns.getD c' none = some kk) := by
  rw [getD_modify _ _ _ rfl] at h
  split at h
  · rename_i hcc
    subst hcc
    rw [hc] at h
    simp only [mergeConn, Option.map_some, Option.some.injEq] at h
    exact Or.inl ⟨rfl, h.symm⟩
  · rename_i hcc
    exact Or.inr ⟨fun hh => hcc hh.symm, h⟩

theorem MInv.insert [Add α] {mt : MultiCouplingTerms α} (h : MInv mt) (lp rp : List MKey) (k : Conn α)
    (hlp : PathOK (· < ·) mt.L lp) (hrp : PathOK (· > ·) mt.L rp)
    (hl : ∀ t ∈ lp, t.1 < k.switchLR) (hr : ∀ t ∈ rp, t.1 > k.switchLR)
    (hk : 0 ≤ k.switchLR ∧ k.switchLR < (mt.L : Int) ∧ k.shift = 0) :
    MInv (mt.insertConnection lp rp k) ∧ (mt.insertConnection lp rp k).L = mt.L := by
  rw [insertConnection_eq]
  cases hf : (countersAt mt.left lp).find? (sameConn mt rp k) with
  | some c =>
    obtain ⟨k', hk', hsw, _, _, _⟩ := sameConn_spec mt rp k c (by simpa using List.find?_some hf)
    have hcongr : ∀ c' kk, (mt.conns.modify c (mergeConn k)).getD c' none = some kk →
        ∃ kk', mt.conns.getD c' none = some kk' ∧ kk'.switchLR = kk.switchLR := by
      intro c' kk hkk
      rcases getD_modify_merge mt.conns c k k' hk' c' kk hkk with ⟨rfl, rfl⟩ | ⟨_, hh⟩
      · exact ⟨k', hk', hsw⟩
      · exact ⟨kk, hh, rfl⟩
    refine ⟨⟨?_, ?_, ?_⟩, rfl⟩
    · exact (h.left.touch lp hlp).congr (by simp) hcongr
    · exact (h.right.touch rp hrp).congr (by simp) hcongr
    · intro c' kk hkk
      rcases getD_modify_merge mt.conns c k k' hk' c' kk hkk with ⟨rfl, rfl⟩ | ⟨_, hh⟩
      · exact hk
      · exact h.connOK c' kk hh
  | none =>
    refine ⟨⟨h.left.push lp k hlp hl, h.right.push rp k hrp hr, ?_⟩, rfl⟩
    intro c' kk hkk
    have hkk' : (mt.conns ++ [some k]).getD c' none = some kk := hkk
    rw [getD_append_some] at hkk'
    split at hkk'
    · exact h.connOK c' kk hkk'
    · split at hkk'
      · simp only [Option.some.injEq] at hkk'
        subst hkk'
        exact hk
      · cases hkk'

/-! ## the paths of a valid call -/

theorem map_fst_zip_sublist {β γ : Type} : ∀ (l₁ : List β) (l₂ : List γ),
    ((l₁.zip l₂).map Prod.fst).Sublist l₁ := by
  intro l₁
  induction l₁ with
  | nil => intro l₂; simp
  | cons a l₁ ih =>
    intro l₂
    cases l₂ with
    | nil => simp
    | cons b l₂ =>
      simp only [List.zip_cons_cons, List.map_cons]
      exact (ih l₂).cons_cons a

theorem asc_bounds : ∀ (l : List Int), l.Pairwise (· < ·) → ∀ x ∈ l, l.headD 0 ≤ x ∧ x ≤ l.getLastD 0 := by
  intro l
  induction l with
  | nil => intro _ x hx; cases hx
  | cons a l ih =>
    intro h x hx
    rw [List.pairwise_cons] at h
    rw [List.headD_cons]
    cases l with
    | nil =>
      simp only [List.mem_singleton] at hx
      subst hx
      exact ⟨le_refl _, le_refl _⟩
    | cons b l =>
      have hl : (a :: b :: l).getLastD 0 = (b :: l).getLastD 0 := rfl
      rw [hl]
      have hab := h.1 b List.mem_cons_self
      have hb := ih h.2 b List.mem_cons_self
      simp only [List.headD_cons] at hb
      rcases List.mem_cons.1 hx with rfl | hx
      · exact ⟨le_refl _, by omega⟩
      · have := ih h.2 x hx
        have := h.1 x hx
        omega

theorem leftPathOf_ok (L : Nat) (ijkl : List Int) (ops strs : List String) (swi : Int)
    (hasc : ijkl.Pairwise (· < ·)) (h0 : 0 ≤ ijkl.headD 0) (hL : ijkl.getLastD 0 < (L : Int)) :
    PathOK (· < ·) L (leftPathOf ijkl ops strs swi) ∧ ∀ t ∈ leftPathOf ijkl ops strs swi, t.1 < swi := by
  refine ⟨⟨?_, ?_⟩, ?_⟩
  · refine hasc.sublist (List.Sublist.trans ?_ (map_fst_zip_sublist ijkl (ops.zip strs)))
    exact (List.takeWhile_sublist _).map _
  · intro t ht
    have hm : t.1 ∈ ijkl := (List.of_mem_zip ((List.takeWhile_sublist _).subset ht)).1
    have := asc_bounds ijkl hasc t.1 hm
    omega
  · intro t ht
    simpa using List.mem_takeWhile_imp ht

theorem rightPathOf_ok (L : Nat) (ijkl : List Int) (ops strs : List String) (swi : Int)
    (hasc : ijkl.Pairwise (· < ·)) (h0 : 0 ≤ ijkl.headD 0) (hL : ijkl.getLastD 0 < (L : Int)) :
    PathOK (· > ·) L (rightPathOf ijkl ops strs swi 0) ∧ ∀ t ∈ rightPathOf ijkl ops strs swi 0, t.1 > swi := by
  rw [rightPathOf_zero]
  refine ⟨⟨?_, ?_⟩, ?_⟩
  · have hd : ijkl.reverse.Pairwise (· > ·) := by
      rw [List.pairwise_reverse]
      exact hasc
    refine hd.sublist (List.Sublist.trans ?_ (map_fst_zip_sublist ijkl.reverse (ops.reverse.zip strs.reverse)))
    exact (List.takeWhile_sublist _).map _
  · intro t ht
    have hm : t.1 ∈ ijkl := List.mem_reverse.1 (List.of_mem_zip ((List.takeWhile_sublist _).subset ht)).1
    have := asc_bounds ijkl hasc t.1 hm
    omega
  · intro t ht
    simpa using List.mem_takeWhile_imp ht

/-- `add_multi_coupling_term` with a valid call keeps the invariant -/
theorem MInv.add [Add α] {mt : MultiCouplingTerms α} (h : MInv mt) (s : α) (ijkl : List Int)
    (ops strs : List String) (sw : Switch) (hc : MultiCallOK mt.L ijkl ops strs sw) :
    MInv (mt.add s ijkl ops strs sw) ∧ (mt.add s ijkl ops strs sw).L = mt.L := by
  obtain ⟨hlen, hops, hstrs, hasc, h0, hlo, hhi, hL⟩ := hc
  have h0' : 0 ≤ ijkl.getLastD 0 := by omega
  rw [add_eq, shift_zero mt.L _ h0' hL]
  obtain ⟨hl1, hl2⟩ := leftPathOf_ok mt.L ijkl ops strs (resolveSwitch ijkl sw) hasc h0 hL
  obtain ⟨hr1, hr2⟩ := rightPathOf_ok mt.L ijkl ops strs (resolveSwitch ijkl sw) hasc h0 hL
  obtain ⟨hi, hiL⟩ := h.insert (leftPathOf ijkl ops strs (resolveSwitch ijkl sw))
    (rightPathOf ijkl ops strs (resolveSwitch ijkl sw) 0)
    ⟨resolveSwitch ijkl sw, opSwitchOf (resolveSwitch ijkl sw) ijkl ops strs 0, 0, s⟩ hl1 hr1 hl2 hr2
    ⟨by show 0 ≤ resolveSwitch ijkl sw; omega, by show resolveSwitch ijkl sw < (mt.L : Int); omega, rfl⟩
  exact ⟨⟨hi.left, hi.right, hi.connOK⟩, hiL⟩

end

end TenpyModel.Ops
