import TenpyModel.C10.P2_MultiFinal
import TenpyModel.C10.P2_MTMain
/-!
# C10 / Props2: two-site `CouplingTerms` converted into a `MultiCouplingTerms` (`self += other` for a plain
`CouplingTerms`, what `CouplingModel` does as soon as a multi-site term is present) keep their meaning
-/
namespace TenpyModel.Ops
open MultiCouplingTerms

section
variable {α : Type}

/-- the call by which `__iadd__` re-adds one entry of a plain `CouplingTerms` -/
def convCall (x : Int × String × String × Int × String × α) :
    α × List Int × List String × List String × Switch :=
  (x.2.2.2.2.2, [x.1, x.2.2.2.1], [x.2.1, x.2.2.2.2.1], [x.2.2.1], .middleI)

theorem iaddCoupling_eq [Add α] (mt : MultiCouplingTerms α) (ct : CouplingTerms α) :
    mt.iaddCoupling ct =
      (ct.entries.map convCall).foldl (fun mt c => mt.add c.1 c.2.1 c.2.2.1 c.2.2.2.1 c.2.2.2.2) mt := by
  unfold MultiCouplingTerms.iaddCoupling
  rw [List.foldl_map]
  rfl

theorem multiStr_pair (L : Nat) (i j : Int) (opi opj str : String) :
    multiStr L [i, j] [opi, opj] [str] = couplingStr L i.toNat j.toNat opi str opj := rfl

theorem mem_entries_WFP [AddCommMonoid α] (Q : Int → Int → Prop) (ct : CouplingTerms α) (h : ct.WFP Q)
    (x : Int × String × String × Int × String × α) (hx : x ∈ ct.entries) : Q x.1 x.2.2.2.1 := by
  unfold CouplingTerms.entries at hx
  obtain ⟨p, hp, hx⟩ := List.mem_flatMap.1 hx
  obtain ⟨q, hq, hx⟩ := List.mem_flatMap.1 hx
  obtain ⟨r, hr, hx⟩ := List.mem_flatMap.1 hx
  obtain ⟨w, _, rfl⟩ := List.mem_map.1 hx
  exact (((h.2 p hp).2 q hq).2.2 r hr).1

theorem convCall_ok (L : Nat) (x : Int × String × String × Int × String × α)
    (h : 0 ≤ x.1 ∧ x.1 < x.2.2.2.1 ∧ x.2.2.2.1 < (L : Int)) :
    MultiCallOK L (convCall x).2.1 (convCall x).2.2.1 (convCall x).2.2.2.1 (convCall x).2.2.2.2 := by
  obtain ⟨i, opi, str, j, opj, s⟩ := x
  simp only at h
  refine ⟨by simp [convCall], by simp [convCall], by simp [convCall], ?_, ?_, ?_, ?_, ?_⟩
  · simp [convCall, h.2.1]
  · simp [convCall, h.1]
  · simp only [convCall, resolveSwitch, List.headD_cons, List.getLastD_cons, List.getLastD_nil]
    omega
  · simp only [convCall, resolveSwitch, List.headD_cons, List.getLastD_cons, List.getLastD_nil]
    omega
  · simp only [convCall, List.getLastD_cons, List.getLastD_nil]
    exact h.2.2

end

section main
variable {α : Type} [CommSemiring α] [Inhabited α]

/-- onsite calls, two-site coupling calls converted into a `MultiCouplingTerms`, then multi-site calls -/
theorem merged_fromTerms (L : Nat) (ocalls : List (α × Nat × String))
    (ccalls : List (α × Int × Int × String × String × String))
    (mcalls : List (α × List Int × List String × List String × Switch))
    (ho : ∀ c ∈ ocalls, c.2.1 < L) (hc : ∀ c ∈ ccalls, 0 ≤ c.2.1 ∧ c.2.1 < c.2.2.1 ∧ c.2.2.1 < (L : Int))
    (hm : ∀ c ∈ mcalls, MultiCallOK L c.2.1 c.2.2.1 c.2.2.2.1 c.2.2.2.2) :
    Sym.Equiv
      (denoteGraph (Graph.fromTerms L false
        [.onsite (ocalls.foldl (fun ot c => ot.add c.1 c.2.1 c.2.2) (OnsiteTerms.empty L)),
         .multi (mcalls.foldl (fun mt c => mt.add c.1 c.2.1 c.2.2.1 c.2.2.2.1 c.2.2.2.2)
           ((MultiCouplingTerms.empty L).iaddCoupling
             (ccalls.foldl (fun ct c => ct.add c.1 c.2.1 c.2.2.1 c.2.2.2.1 c.2.2.2.2.1 c.2.2.2.2.2)
               (CouplingTerms.empty L))))]))
      (ocalls.map (fun c => (onsiteStr L c.2.1 c.2.2, c.1)) ++
       (ccalls.map (fun c => (couplingStr L c.2.1.toNat c.2.2.1.toNat c.2.2.2.1 c.2.2.2.2.2 c.2.2.2.2.1, c.1)) ++
        mcalls.map (fun c => (multiStr L c.2.1 c.2.2.1 c.2.2.2.1, c.1)))) := by
  set ct := ccalls.foldl (fun ct c => ct.add c.1 c.2.1 c.2.2.1 c.2.2.2.1 c.2.2.2.2.1 c.2.2.2.2.2)
    (CouplingTerms.empty L) with hct
  obtain ⟨hctL, hcden⟩ := CouplingTerms.build_denote L ccalls
  have hwfp : ct.WFP (fun i j => 0 ≤ i ∧ i < j ∧ j < (L : Int)) := by
    suffices ∀ (l : List (α × Int × Int × String × String × String)) (ct0 : CouplingTerms α),
        (∀ c ∈ l, 0 ≤ c.2.1 ∧ c.2.1 < c.2.2.1 ∧ c.2.2.1 < (L : Int)) →
        ct0.WFP (fun i j => 0 ≤ i ∧ i < j ∧ j < (L : Int)) →
        (l.foldl (fun ct c => ct.add c.1 c.2.1 c.2.2.1 c.2.2.2.1 c.2.2.2.2.1 c.2.2.2.2.2) ct0).WFP
          (fun i j => 0 ≤ i ∧ i < j ∧ j < (L : Int)) from
      this ccalls _ hc (CouplingTerms.empty_WFP _ L)
    intro l
    induction l with
    | nil => intro ct0 _ h; exact h
    | cons c l ih =>
      intro ct0 hl h
      exact ih _ (fun c' hc' => hl c' (List.mem_cons_of_mem _ hc'))
        (CouplingTerms.add_WFP _ ct0 h c.1 c.2.1 c.2.2.1 (hl c List.mem_cons_self) _ _ _)
  have hfold : mcalls.foldl (fun mt c => mt.add c.1 c.2.1 c.2.2.1 c.2.2.2.1 c.2.2.2.2)
      ((MultiCouplingTerms.empty L).iaddCoupling ct) =
      (ct.entries.map convCall ++ mcalls).foldl (fun mt c => mt.add c.1 c.2.1 c.2.2.1 c.2.2.2.1 c.2.2.2.2)
        (MultiCouplingTerms.empty L) := by
    rw [List.foldl_append, iaddCoupling_eq]
  rw [hfold]
  obtain ⟨hwfo, hotL, hoden⟩ := OnsiteTerms.build_denote L ocalls ho
  have hall : ∀ c ∈ ct.entries.map convCall ++ mcalls, MultiCallOK L c.2.1 c.2.2.1 c.2.2.2.1 c.2.2.2.2 := by
    intro c hcm
    rcases List.mem_append.1 hcm with h | h
    · obtain ⟨x, hx, rfl⟩ := List.mem_map.1 h
      exact convCall_ok L x (mem_entries_WFP _ ct hwfp x hx)
    · exact hm c h
  obtain ⟨hmL, hgwf, hmden⟩ := multi_build L _ hall
  refine (multi_fromTerms L _ _ hotL (hwfo.len.trans hotL) hmL hgwf).trans ?_
  refine Sym.Equiv.append hoden (hmden.trans ?_)
  rw [List.map_append]
  refine Sym.Equiv.append ?_ (Sym.Equiv.refl _)
  have : (ct.entries.map convCall).map (fun c => (multiStr L c.2.1 c.2.2.1 c.2.2.2.1, c.1)) = ct.denote := by
    unfold CouplingTerms.denote
    rw [List.map_map, hctL]
    apply List.map_congr_left
    intro x _
    obtain ⟨i, opi, str, j, opj, s⟩ := x
    rfl
  rw [this]
  exact hcden

end main

end TenpyModel.Ops
