import TenpyModel.C10.P2_Auto
import TenpyModel.C10.P2_MultiDefs
/-!
# C10 / Props2: two sets of edges that share only `IdL` and `IdR` (disjoint inner keys) denote the sum of
their operators
-/
namespace TenpyModel.Ops

section
variable {α : Type} [CommSemiring α]

/-- layers `k, …, k+n-1` -/
def segOf (F : Nat → List (Edge Key α)) (k n : Nat) : List (List (Edge Key α)) := (List.range' k n).map F

omit [CommSemiring α] in
theorem segOf_succ (F : Nat → List (Edge Key α)) (k n : Nat) : segOf F k (n + 1) = F k :: segOf F (k + 1) n := by
  unfold segOf
  rw [List.range'_succ, List.map_cons]

omit [CommSemiring α] in
theorem layersOf_eq_segOf (L : Nat) (F : Nat → List (Edge Key α)) : layersOf L F = segOf F 0 L := by
  unfold layersOf segOf
  rw [List.range_eq_range']

/-- contribution of the edges `l` to the coefficient recursion from the key `κ` -/
def compStepSum (l : List (Edge Key α)) (κ : Key) (op : String) (f : Key → α) : α :=
  (l.map (fun e => if e.kL = κ ∧ e.op = op then e.c * f e.kR else 0)).sum

theorem compStepSum_append (l1 l2 : List (Edge Key α)) (κ : Key) (op : String) (f : Key → α) :
    compStepSum (l1 ++ l2) κ op f = compStepSum l1 κ op f + compStepSum l2 κ op f := by
  unfold compStepSum
  rw [List.map_append, List.sum_append]

theorem compStepSum_zero (l : List (Edge Key α)) (κ : Key) (op : String) (f : Key → α)
    (h : ∀ e ∈ l, e.kL ≠ κ) : compStepSum l κ op f = 0 := by
  unfold compStepSum
  apply List.sum_eq_zero
  intro x hx
  obtain ⟨e, he, rfl⟩ := List.mem_map.1 hx
  rw [if_neg (fun hc => h e he hc.1)]

theorem compStepSum_congr (l : List (Edge Key α)) (κ : Key) (op : String) (f f' : Key → α)
    (h : ∀ e ∈ l, e.kL = κ → f e.kR = f' e.kR) : compStepSum l κ op f = compStepSum l κ op f' := by
  unfold compStepSum
  apply sum_congr_map
  intro e he
  by_cases hc : e.kL = κ ∧ e.op = op
  · rw [if_pos hc, if_pos hc, h e he hc.1]
  · rw [if_neg hc, if_neg hc]

theorem coeff_paths_stepSum (l : List (Edge Key α)) (rest : List (List (Edge Key α))) (κ : Key) (op : String)
    (t : OpStr) :
    coeff (pathsFrom Key.IdR (l :: rest) κ) (op :: t) =
      compStepSum l κ op (fun x => coeff (pathsFrom Key.IdR rest x) t) := by
  rw [coeff_pathsFrom_cons]
  rfl

theorem compStepSum_loops_IdL (op : String) (f : Key → α) :
    compStepSum (idLoops : List (Edge Key α)) Key.IdL op f = if op = "Id" then f Key.IdL else 0 := by
  unfold compStepSum idLoops
  by_cases h : "Id" = op
  · subst h; simp [Key.IdL, Key.IdR]
  · have h' : ¬ op = "Id" := fun hh => h hh.symm
    simp [Key.IdL, Key.IdR, h, h']

theorem compStepSum_loops_IdR (op : String) (f : Key → α) :
    compStepSum (idLoops : List (Edge Key α)) Key.IdR op f = if op = "Id" then f Key.IdR else 0 := by
  unfold compStepSum idLoops
  by_cases h : "Id" = op
  · subst h; simp [Key.IdL, Key.IdR]
  · have h' : ¬ op = "Id" := fun hh => h hh.symm
    simp [Key.IdL, Key.IdR, h, h']

theorem compStepSum_loops_other (κ : Key) (h1 : κ ≠ Key.IdL) (h2 : κ ≠ Key.IdR) (op : String) (f : Key → α) :
    compStepSum (idLoops : List (Edge Key α)) κ op f = 0 := by
  apply compStepSum_zero
  intro e he
  simp only [idLoops, List.mem_cons, List.not_mem_nil, or_false] at he
  rcases he with rfl | rfl
  · exact fun h => h1 h.symm
  · exact fun h => h2 h.symm

/-- edges of a component: from `IdL` or an inner key to an inner key or `IdR` -/
def CompEdges (L : Nat) (inner : Key → Prop) (A : Nat → List (Edge Key α)) : Prop :=
  ∀ k, k < L → ∀ e ∈ A k, (e.kL = Key.IdL ∨ inner e.kL) ∧ (e.kR = Key.IdR ∨ inner e.kR)

theorem components_suffix (L : Nat) (A B : Nat → List (Edge Key α)) (inA inB : Key → Prop)
    (hA : CompEdges L inA A) (hB : CompEdges L inB B)
    (hAk : ∀ κ, inA κ → κ ≠ Key.IdL ∧ κ ≠ Key.IdR) (hBk : ∀ κ, inB κ → κ ≠ Key.IdL ∧ κ ≠ Key.IdR)
    (hdis : ∀ κ, inA κ → ¬ inB κ) :
    ∀ n k, k + n = L →
      (∀ t, coeff (pathsFrom Key.IdR (segOf (fun k => A k ++ B k ++ idLoops) k n) Key.IdR) t =
              coeff (pathsFrom Key.IdR (segOf (fun k => A k ++ idLoops) k n) Key.IdR) t ∧
            coeff (pathsFrom Key.IdR (segOf (fun k => A k ++ B k ++ idLoops) k n) Key.IdR) t =
              coeff (pathsFrom Key.IdR (segOf (fun k => B k ++ idLoops) k n) Key.IdR) t) ∧
      (∀ κ, inA κ → ∀ t, coeff (pathsFrom Key.IdR (segOf (fun k => A k ++ B k ++ idLoops) k n) κ) t =
              coeff (pathsFrom Key.IdR (segOf (fun k => A k ++ idLoops) k n) κ) t) ∧
      (∀ κ, inB κ → ∀ t, coeff (pathsFrom Key.IdR (segOf (fun k => A k ++ B k ++ idLoops) k n) κ) t =
              coeff (pathsFrom Key.IdR (segOf (fun k => B k ++ idLoops) k n) κ) t) ∧
      (∀ t, coeff (pathsFrom Key.IdR (segOf (fun k => A k ++ B k ++ idLoops) k n) Key.IdL) t =
              coeff (pathsFrom Key.IdR (segOf (fun k => A k ++ idLoops) k n) Key.IdL) t +
              coeff (pathsFrom Key.IdR (segOf (fun k => B k ++ idLoops) k n) Key.IdL) t) := by
  intro n
  induction n with
  | zero =>
    intro k _
    have hLR : Key.IdL ≠ Key.IdR := by simp [Key.IdL, Key.IdR]
    refine ⟨fun t => ⟨rfl, rfl⟩, ?_, ?_, ?_⟩
    · intro κ hκ t
      simp [segOf, (hAk κ hκ).2]
    · intro κ hκ t
      simp [segOf, (hBk κ hκ).2]
    · intro t
      simp [segOf, hLR]
  | succ n ih =>
    intro k hk
    have hkL : k < L := by omega
    obtain ⟨ihR, ihA, ihB, ihL⟩ := ih (k + 1) (by omega)
    have hAL : ∀ e ∈ A k, e.kL ≠ Key.IdR := by
      intro e he hc
      rcases (hA k hkL e he).1 with h | h
      · rw [h] at hc; exact absurd hc (by simp [Key.IdL, Key.IdR])
      · exact (hAk _ h).2 hc
    have hBL : ∀ e ∈ B k, e.kL ≠ Key.IdR := by
      intro e he hc
      rcases (hB k hkL e he).1 with h | h
      · rw [h] at hc; exact absurd hc (by simp [Key.IdL, Key.IdR])
      · exact (hBk _ h).2 hc
    -- the suffix functions agree on the targets of the component edges
    have hAcongr : ∀ (t : OpStr) (e : Edge Key α), e ∈ A k →
        coeff (pathsFrom Key.IdR (segOf (fun k => A k ++ B k ++ idLoops) (k + 1) n) e.kR) t =
        coeff (pathsFrom Key.IdR (segOf (fun k => A k ++ idLoops) (k + 1) n) e.kR) t := by
      intro t e he
      rcases (hA k hkL e he).2 with h | h
      · rw [h]; exact (ihR t).1
      · exact ihA _ h t
    have hBcongr : ∀ (t : OpStr) (e : Edge Key α), e ∈ B k →
        coeff (pathsFrom Key.IdR (segOf (fun k => A k ++ B k ++ idLoops) (k + 1) n) e.kR) t =
        coeff (pathsFrom Key.IdR (segOf (fun k => B k ++ idLoops) (k + 1) n) e.kR) t := by
      intro t e he
      rcases (hB k hkL e he).2 with h | h
      · rw [h]; exact (ihR t).2
      · exact ihB _ h t
    refine ⟨?_, ?_, ?_, ?_⟩
    · intro t
      cases t with
      | nil => simp only [segOf_succ, coeff_pathsFrom_cons_nil, and_self]
      | cons op t =>
        simp only [segOf_succ, coeff_paths_stepSum, compStepSum_append]
        rw [compStepSum_zero (A k) _ _ _ hAL, compStepSum_zero (B k) _ _ _ hBL,
          compStepSum_zero (A k) _ _ _ hAL, compStepSum_zero (B k) _ _ _ hBL]
        simp only [compStepSum_loops_IdR, zero_add]
        constructor
        · split
          · exact (ihR t).1
          · rfl
        · split
          · exact (ihR t).2
          · rfl
    · intro κ hκ t
      cases t with
      | nil => simp only [segOf_succ, coeff_pathsFrom_cons_nil]
      | cons op t =>
        simp only [segOf_succ, coeff_paths_stepSum, compStepSum_append]
        have hB0 : ∀ e ∈ B k, e.kL ≠ κ := by
          intro e he hc
          rcases (hB k hkL e he).1 with h | h
          · rw [h] at hc; exact (hAk κ hκ).1 hc.symm
          · rw [hc] at h; exact hdis κ hκ h
        rw [compStepSum_zero (B k) _ _ _ hB0, compStepSum_loops_other κ (hAk κ hκ).1 (hAk κ hκ).2,
          compStepSum_loops_other κ (hAk κ hκ).1 (hAk κ hκ).2, add_zero, add_zero, add_zero]
        exact compStepSum_congr _ _ _ _ _ (fun e he _ => hAcongr t e he)
    · intro κ hκ t
      cases t with
      | nil => simp only [segOf_succ, coeff_pathsFrom_cons_nil]
      | cons op t =>
        simp only [segOf_succ, coeff_paths_stepSum, compStepSum_append]
        have hA0 : ∀ e ∈ A k, e.kL ≠ κ := by
          intro e he hc
          rcases (hA k hkL e he).1 with h | h
          · rw [h] at hc; exact (hBk κ hκ).1 hc.symm
          · rw [hc] at h; exact hdis κ h hκ
        rw [compStepSum_zero (A k) _ _ _ hA0, compStepSum_loops_other κ (hBk κ hκ).1 (hBk κ hκ).2,
          compStepSum_loops_other κ (hBk κ hκ).1 (hBk κ hκ).2, zero_add, add_zero, add_zero]
        exact compStepSum_congr _ _ _ _ _ (fun e he _ => hBcongr t e he)
    · intro t
      cases t with
      | nil => simp only [segOf_succ, coeff_pathsFrom_cons_nil, add_zero]
      | cons op t =>
        simp only [segOf_succ, coeff_paths_stepSum, compStepSum_append, compStepSum_loops_IdL]
        rw [compStepSum_congr (A k) Key.IdL op _
            (fun x => coeff (pathsFrom Key.IdR (segOf (fun k => A k ++ idLoops) (k + 1) n) x) t)
            (fun e he _ => hAcongr t e he),
          compStepSum_congr (B k) Key.IdL op _
            (fun x => coeff (pathsFrom Key.IdR (segOf (fun k => B k ++ idLoops) (k + 1) n) x) t)
            (fun e he _ => hBcongr t e he)]
        split
        · rw [ihL t]
          ac_rfl
        · simp only [add_zero]

/-- **components**: the path sum of two key-disjoint sets of edges (plus the identity loops) is the sum of the
two path sums -/
theorem paths_components (L : Nat) (A B : Nat → List (Edge Key α)) (inA inB : Key → Prop)
    (hA : CompEdges L inA A) (hB : CompEdges L inB B)
    (hAk : ∀ κ, inA κ → κ ≠ Key.IdL ∧ κ ≠ Key.IdR) (hBk : ∀ κ, inB κ → κ ≠ Key.IdL ∧ κ ≠ Key.IdR)
    (hdis : ∀ κ, inA κ → ¬ inB κ) :
    Sym.Equiv (pathsFrom Key.IdR (layersOf L (fun k => A k ++ B k ++ idLoops)) Key.IdL)
      (pathsFrom Key.IdR (layersOf L (fun k => A k ++ idLoops)) Key.IdL ++
       pathsFrom Key.IdR (layersOf L (fun k => B k ++ idLoops)) Key.IdL) := by
  intro t
  rw [coeff_append, layersOf_eq_segOf, layersOf_eq_segOf, layersOf_eq_segOf]
  exact (components_suffix L A B inA inB hA hB hAk hBk hdis L 0 (by omega)).2.2.2 t

end

end TenpyModel.Ops
