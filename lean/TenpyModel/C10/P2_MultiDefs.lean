import TenpyModel.Ops.Graph
/-!
# C10 / Props2: shared definitions for the multi-site path theorem (interface between the helper files)

* `multiStr`      positional operator string of one `add_multi_coupling_term` call
* `connStr`, `MultiCouplingTerms.connDenote`
                  formal sum stored in a `MultiCouplingTerms` container, connection by connection
* `MultiCouplingTerms.GWF`
                  well-formedness of a container on a finite chain (what the graph construction needs)
* `lkey`, `rkey`, `leftChain`, `rightChain`, `connEdges`, `MNew`
                  declarative description of the edges that `MultiCouplingTerms.add_to_graph` appends
* `layersOf`, `idLoops`, `TrieFree`
-/
namespace TenpyModel.Ops

/-! ## strings -/

/-- sites `i+1 … L-1` of a multi-site term whose previous operator sits on site `i` -/
def multiTail (L : Nat) : Int → List Int → List String → List String → OpStr
  | i, [], _, _ => idStr (L - i.toNat - 1)
  | i, j :: js, op :: ops, s :: ss =>
    List.replicate (j.toNat - i.toNat - 1) s ++ op :: multiTail L j js ops ss
  | i, _ :: _, _, _ => idStr (L - i.toNat - 1)

/-- positional string `Id^i₀ ⊗ op₀ ⊗ str₀^… ⊗ op₁ ⊗ … ⊗ op_n ⊗ Id^…` of the call
`add_multi_coupling_term(strength, ijkl, ops_ijkl, op_string)` on the chain `0 … L-1` -/
def multiStr (L : Nat) : List Int → List String → List String → OpStr
  | i :: is, op :: ops, strs => idStr i.toNat ++ op :: multiTail L i is ops strs
  | _, _, _ => idStr L

/-- sites `0 … k-1` read along a root-to-counter path of `terms_left`, given in REVERSED order
(last operator first); the string of the last operator continues up to site `k-1` -/
def leftStrRev : List MKey → Nat → OpStr
  | [], k => idStr k
  | t :: q, k => leftStrRev q t.1.toNat ++ t.2.1 :: List.replicate (k - t.1.toNat - 1) t.2.2

/-- sites `k … L-1` read along a path of `terms_right` given in ASCENDING site order
(the stored string of an entry is the one to the LEFT of its operator) -/
def rightFrom (L : Nat) : Nat → List MKey → OpStr
  | k, [] => idStr (L - k)
  | k, t :: rest => List.replicate (t.1.toNat - k) t.2.2 ++ t.2.1 :: rightFrom L (t.1.toNat + 1) rest

/-- positional string of the connection `(switchLR, op_switch)` joining the left path `pl` (stored
order = ascending sites) and the right path `pr` (stored order = descending sites) -/
def connStr (L : Nat) (pl : List MKey) (sw : Int) (opSw : String) (pr : List MKey) : OpStr :=
  leftStrRev pl.reverse sw.toNat ++ opSw :: rightFrom L (sw.toNat + 1) pr.reverse

namespace MultiCouplingTerms
variable {α : Type}

/-- the formal sum stored in the container: one summand per live connection -/
def connDenote (mt : MultiCouplingTerms α) : Sym α :=
  (mt.conns.zipIdx).filterMap (fun (oc, c) =>
    match oc with
    | none => none
    | some k =>
      some (connStr mt.L ((pathOf mt.left c).getD []) k.switchLR k.opSwitch ((pathOf mt.right c).getD []),
        k.strength))

/-- well-formed container on the finite chain `0 … mt.L-1` -/
structure GWF (mt : MultiCouplingTerms α) : Prop where
  hasL : ∀ c kk, mt.conns.getD c none = some kk → ∃ p ∈ mt.left, c ∈ p.counters
  hasR : ∀ c kk, mt.conns.getD c none = some kk → ∃ p ∈ mt.right, c ∈ p.counters
  connOK : ∀ c kk, mt.conns.getD c none = some kk →
    0 ≤ kk.switchLR ∧ kk.switchLR < (mt.L : Int) ∧ kk.shift = 0
  leftOK : ∀ p ∈ mt.left, (p.path.map (·.1)).Pairwise (· < ·) ∧ (∀ t ∈ p.path, 0 ≤ t.1 ∧ t.1 < (mt.L : Int)) ∧
    ∀ c ∈ p.counters, ∀ kk, mt.conns.getD c none = some kk → ∀ t ∈ p.path, t.1 < kk.switchLR
  rightOK : ∀ p ∈ mt.right, (p.path.map (·.1)).Pairwise (· > ·) ∧ (∀ t ∈ p.path, 0 ≤ t.1 ∧ t.1 < (mt.L : Int)) ∧
    ∀ c ∈ p.counters, ∀ kk, mt.conns.getD c none = some kk → ∀ t ∈ p.path, kk.switchLR < t.1
  leftDisj : mt.left.Pairwise (fun p q => p.path ≠ q.path ∧ ∀ c ∈ p.counters, c ∉ q.counters)
  rightDisj : mt.right.Pairwise (fun p q => p.path ≠ q.path ∧ ∀ c ∈ p.counters, c ∉ q.counters)

end MultiCouplingTerms

/-! ## keys of the two tries -/

def keyAtoms (q : List MKey) : List Atom := q.flatMap (fun t => [.n t.1, .s t.2.1, .s t.2.2])

/-- key reached in `terms_left` after the path `q` (`IdL` at the root) -/
def lkey : List MKey → Key
  | [] => Key.IdL
  | t :: q => .tup (.s "left" :: keyAtoms (t :: q))

/-- key reached in `terms_right` after the path `q` (`IdR` at the root) -/
def rkey : List MKey → Key
  | [] => Key.IdR
  | t :: q => .tup (.s "right" :: keyAtoms (t :: q))

def Key.isLeft : Key → Bool
  | .str "IdL" => true
  | .tup (.s "left" :: _) => true
  | _ => false

def Key.isRight : Key → Bool
  | .str "IdR" => true
  | .tup (.s "right" :: _) => true
  | _ => false

/-- a proper key of one of the two tries -/
def Key.isTrie : Key → Bool
  | .tup (.s "left" :: _) => true
  | .tup (.s "right" :: _) => true
  | _ => false

section edges
variable {α : Type} [One α]

/-- edges `(site, edge)` of the left trie along `pl` (`q` = prefix already consumed); the string of the
last operator runs up to site `sw - 1` -/
def leftChainFrom (q : List MKey) : List MKey → Int → List (Nat × Edge Key α)
  | [], _ => []
  | t :: rest, sw =>
    let key := lkey (q ++ [t])
    let nxt : Int := match rest with | [] => sw | t' :: _ => t'.1
    (t.1.toNat, ⟨lkey q, key, t.2.1, 1⟩) ::
      ((List.range (nxt - t.1 - 1).toNat).map (fun d => (t.1.toNat + 1 + d, (⟨key, key, t.2.2, 1⟩ : Edge Key α)))
        ++ leftChainFrom (q ++ [t]) rest sw)

def leftChain (pl : List MKey) (sw : Int) : List (Nat × Edge Key α) := leftChainFrom [] pl sw

/-- edges of the right trie along `pr` (stored order: descending sites); the string of the last entry
runs down to site `sw + 1` -/
def rightChainFrom (q : List MKey) : List MKey → Int → List (Nat × Edge Key α)
  | [], _ => []
  | t :: rest, sw =>
    let key := rkey (q ++ [t])
    let nxt : Int := match rest with | [] => sw | t' :: _ => t'.1
    (t.1.toNat, ⟨key, rkey q, t.2.1, 1⟩) ::
      ((List.range (t.1 - nxt - 1).toNat).map (fun d => (nxt.toNat + 1 + d, (⟨key, key, t.2.2, 1⟩ : Edge Key α)))
        ++ rightChainFrom (q ++ [t]) rest sw)

def rightChain (pr : List MKey) (sw : Int) : List (Nat × Edge Key α) := rightChainFrom [] pr sw

/-- the connection edges on site `k` -/
def connEdges (mt : MultiCouplingTerms α) (k : Nat) : List (Edge Key α) :=
  (mt.conns.zipIdx).filterMap (fun (oc, c) =>
    match oc with
    | none => none
    | some kk =>
      if kk.switchLR = (k : Int) then
        some ⟨lkey ((MultiCouplingTerms.pathOf mt.left c).getD []),
              rkey ((MultiCouplingTerms.pathOf mt.right c).getD []), kk.opSwitch, kk.strength⟩
      else none)

/-- what `MultiCouplingTerms.add_to_graph` appends to the layers of a graph without trie keys:
`N k` = the new edges on site `k` -/
structure MNew (L : Nat) (mt : MultiCouplingTerms α) (N : Nat → List (Edge Key α)) : Prop where
  /-- every new edge is left → left, left → right or right → right -/
  classes : ∀ k, k < L → ∀ e ∈ N k,
    (e.kL.isLeft = true ∧ (e.kR.isLeft = true ∨ e.kR.isRight = true)) ∨
    (e.kL.isRight = true ∧ e.kR.isRight = true)
  /-- nothing enters `IdL`, nothing leaves `IdR` -/
  ends : ∀ k, k < L → ∀ e ∈ N k, e.kR ≠ Key.IdL ∧ e.kL ≠ Key.IdR
  /-- at most one edge enters a key of the left trie on every site -/
  inUniq : ∀ k, k < L → (((N k).filter (fun e => e.kR.isLeft)).map (·.kR)).Nodup
  /-- at most one edge leaves a key of the right trie on every site -/
  outUniq : ∀ k, k < L → (((N k).filter (fun e => e.kL.isRight)).map (·.kL)).Nodup
  /-- the edges from the left to the right trie are exactly the connections -/
  cross : ∀ k, k < L → ((N k).filter (fun e => e.kL.isLeft && e.kR.isRight)).Perm (connEdges mt k)
  chainL : ∀ c kk, mt.conns.getD c none = some kk →
    ∀ x ∈ leftChain (α := α) ((MultiCouplingTerms.pathOf mt.left c).getD []) kk.switchLR, x.2 ∈ N x.1
  chainR : ∀ c kk, mt.conns.getD c none = some kk →
    ∀ x ∈ rightChain (α := α) ((MultiCouplingTerms.pathOf mt.right c).getD []) kk.switchLR, x.2 ∈ N x.1

/-- the two edges of `add_missing_IdL_IdR` -/
def idLoops : List (Edge Key α) := [⟨Key.IdL, Key.IdL, "Id", 1⟩, ⟨Key.IdR, Key.IdR, "Id", 1⟩]

end edges

/-- layers `0 … L-1` given as a function of the site -/
def layersOf {α : Type} (L : Nat) (N : Nat → List (Edge Key α)) : List (List (Edge Key α)) :=
  (List.range L).map N

/-- no edge of the graph touches a proper key of the two tries -/
def TrieFree {α : Type} (g : Graph α) : Prop :=
  ∀ l ∈ g.layers, ∀ e ∈ l, e.kL.isTrie = false ∧ e.kR.isTrie = false

/-- hypotheses on one `add_multi_coupling_term` call on a finite chain of `L` sites: exactly what python
checks (`addValid`) plus "the last site is inside the chain" -/
def MultiCallOK (L : Nat) (ijkl : List Int) (ops strs : List String) (sw : MultiCouplingTerms.Switch) : Prop :=
  2 ≤ ijkl.length ∧ ops.length = ijkl.length ∧ strs.length + 1 = ijkl.length ∧
  ijkl.Pairwise (· < ·) ∧ 0 ≤ ijkl.headD 0 ∧
  ijkl.headD 0 ≤ MultiCouplingTerms.resolveSwitch ijkl sw ∧
  MultiCouplingTerms.resolveSwitch ijkl sw ≤ ijkl.getLastD 0 ∧ ijkl.getLastD 0 < (L : Int)

end TenpyModel.Ops
