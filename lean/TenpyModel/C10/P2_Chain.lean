import TenpyModel.C10.P2_Auto
import TenpyModel.C10.P2_MultiDefs
/-!
# C10 / Props2: the path sum into a key of the left trie / out of a key of the right trie is one string

`G : Nat → List (Edge Key α)` = edges per site.  `PrefixIs G κ b u`: the paths from `IdL` through the
sites `0 … b-1` into `κ` sum up to the single string `u` (coefficient 1); `SuffixIs L G κ b u`: the
paths from `κ` through the sites `b … L-1` into `IdR` sum up to `u`.
-/
namespace TenpyModel.Ops

section keys

theorem keyAtoms_append (q r : List MKey) : keyAtoms (q ++ r) = keyAtoms q ++ keyAtoms r := by
  simp [keyAtoms, List.flatMap_append]

theorem lkey_snoc (q : List MKey) (t : MKey) :
    lkey (q ++ [t]) = .tup (.s "left" :: keyAtoms (q ++ [t])) := by
  cases q <;> rfl

theorem rkey_snoc (q : List MKey) (t : MKey) :
    rkey (q ++ [t]) = .tup (.s "right" :: keyAtoms (q ++ [t])) := by
  cases q <;> rfl

theorem lkey_isLeft (q : List MKey) : (lkey q).isLeft = true := by
  cases q <;> rfl

theorem rkey_isRight (q : List MKey) : (rkey q).isRight = true := by
  cases q <;> rfl

theorem lkey_not_isRight (q : List MKey) : (lkey q).isRight = false := by
  cases q <;> rfl

theorem rkey_not_isLeft (q : List MKey) : (rkey q).isLeft = false := by
  cases q <;> rfl

theorem Key.not_left_of_right (k : Key) (h : k.isRight = true) : k.isLeft = false := by
  unfold Key.isRight at h
  split at h
  · rfl
  · rfl
  · cases h

end keys

section uniq
variable {α : Type}

/-- at most one edge enters every key of the left class -/
def InUniq (l : List (Edge Key α)) : Prop := ((l.filter (fun e => e.kR.isLeft)).map (·.kR)).Nodup
/-- at most one edge leaves every key of the right class -/
def OutUniq (l : List (Edge Key α)) : Prop := ((l.filter (fun e => e.kL.isRight)).map (·.kL)).Nodup

variable [CommSemiring α]

/-- a sum over a list in which only one element has the selected value of `f` -/
theorem sum_single_of_nodup {β γ : Type} [DecidableEq γ] (l : List β) (p : β → Bool) (f : β → γ) (c : γ)
    (g : β → α) (x : β) (hx : x ∈ l) (hfx : f x = c) (hpc : ∀ y ∈ l, f y = c → p y = true)
    (hn : ((l.filter p).map f).Nodup) :
    (l.map (fun y => if f y = c then g y else 0)).sum = g x := by
  induction l with
  | nil => simp at hx
  | cons y l ih =>
    have hzero : ∀ (l' : List β), (∀ z ∈ l', f z ≠ c) → (l'.map (fun y => if f y = c then g y else 0)).sum = 0 := by
      intro l' h
      apply List.sum_eq_zero
      intro v hv
      obtain ⟨z, hz, rfl⟩ := List.mem_map.1 hv
      rw [if_neg (h z hz)]
    rw [List.map_cons, List.sum_cons]
    by_cases hy : f y = c
    · have hpy : p y = true := hpc y List.mem_cons_self hy
      rw [List.filter_cons_of_pos hpy, List.map_cons, List.nodup_cons] at hn
      have htail : ∀ z ∈ l, f z ≠ c := by
        intro z hz hfz
        apply hn.1
        rw [hy, ← hfz]
        exact List.mem_map.2 ⟨z, List.mem_filter.2 ⟨hz, hpc z (List.mem_cons_of_mem _ hz) hfz⟩, rfl⟩
      rw [hzero l htail, add_zero, if_pos hy]
      rcases List.mem_cons.1 hx with e | hx'
      · rw [e]
      · exact absurd hfx (htail x hx')
    · rw [if_neg hy, zero_add]
      have hx' : x ∈ l := by
        rcases List.mem_cons.1 hx with e | h
        · exact absurd (e ▸ hfx) hy
        · exact h
      apply ih hx' (fun z hz => hpc z (List.mem_cons_of_mem _ hz))
      by_cases hpy : p y = true
      · rw [List.filter_cons_of_pos hpy, List.map_cons, List.nodup_cons] at hn
        exact hn.2
      · rw [List.filter_cons_of_neg hpy] at hn
        exact hn

end uniq

section pref
variable {α : Type} [CommSemiring α]

def PrefixIs (G : Nat → List (Edge Key α)) (κ : Key) (b : Nat) (u : OpStr) : Prop :=
  Sym.Equiv (pathsFrom κ ((List.range b).map G) Key.IdL) [(u, (1 : α))]

theorem prefixIs_zero (G : Nat → List (Edge Key α)) : PrefixIs G Key.IdL 0 [] := by
  intro t
  simp [pathsFrom_nil]

/-- one more site: the unique edge into `e.kR` -/
theorem prefix_step (G : Nat → List (Edge Key α)) (b : Nat) (e : Edge Key α) (u : OpStr)
    (hU : InUniq (G b)) (he : e ∈ G b) (hl : e.kR.isLeft = true) (hc : e.c = 1)
    (hp : PrefixIs G e.kL b u) : PrefixIs G e.kR (b + 1) (u ++ [e.op]) := by
  intro t
  rw [List.range_succ, List.map_append, List.map_cons, List.map_nil]
  rcases List.eq_nil_or_concat t with rfl | ⟨v, o, rfl⟩
  · rw [coeff_pathsFrom_snoc_nil, coeff_singleton, if_neg (by simp)]
  · rw [List.concat_eq_append, coeff_pathsFrom_snoc]
    have hsplit : ∀ e' : Edge Key α,
        (if e'.kR = e.kR ∧ e'.op = o then
          coeff (pathsFrom e'.kL ((List.range b).map G) Key.IdL) v * e'.c else 0) =
        (if e'.kR = e.kR then (if e'.op = o then
          coeff (pathsFrom e'.kL ((List.range b).map G) Key.IdL) v * e'.c else 0) else 0) := by
      intro e'
      by_cases h1 : e'.kR = e.kR <;> by_cases h2 : e'.op = o <;> simp [h1, h2]
    simp only [hsplit]
    rw [sum_single_of_nodup (G b) (fun e => e.kR.isLeft) (fun e => e.kR) e.kR _ e he rfl
      (fun y _ hy => by simpa [hy] using hl) hU]
    rw [hp v, hc, mul_one, coeff_singleton, coeff_singleton]
    by_cases h2 : e.op = o
    · subst h2
      by_cases h3 : u = v
      · subst h3; simp
      · have : ¬ (u ++ [e.op] = v ++ [e.op]) := fun h => h3 (List.append_singleton_inj.1 h).1
        simp [h3, this]
    · have : ¬ (u ++ [e.op] = v ++ [o]) := fun h => h2 (List.append_singleton_inj.1 h).2
      simp [h2, this]

theorem idStr_succ_right (n : Nat) : idStr (n + 1) = idStr n ++ ["Id"] := by
  simp [idStr, List.replicate_succ']

/-- the `IdL → IdL` loops -/
theorem prefix_IdL (G : Nat → List (Edge Key α)) (b : Nat)
    (hU : ∀ k, k < b → InUniq (G k))
    (hloop : ∀ k, k < b → (⟨Key.IdL, Key.IdL, "Id", 1⟩ : Edge Key α) ∈ G k) :
    PrefixIs G Key.IdL b (idStr b) := by
  induction b with
  | zero => exact prefixIs_zero G
  | succ b ih =>
    have ih' := ih (fun k hk => hU k (by omega)) (fun k hk => hloop k (by omega))
    have := prefix_step G b ⟨Key.IdL, Key.IdL, "Id", 1⟩ (idStr b) (hU b (by omega)) (hloop b (by omega))
      rfl rfl ih'
    rw [idStr_succ_right]
    exact this

/-- `n` loop edges `κ → κ` with the name `s` -/
theorem prefix_loops (G : Nat → List (Edge Key α)) (κ : Key) (hκ : κ.isLeft = true) (s : String)
    (b0 : Nat) (u : OpStr) (hp : PrefixIs G κ b0 u) :
    ∀ n, (∀ d, d < n → InUniq (G (b0 + d)) ∧ (⟨κ, κ, s, 1⟩ : Edge Key α) ∈ G (b0 + d)) →
      PrefixIs G κ (b0 + n) (u ++ List.replicate n s) := by
  intro n
  induction n with
  | zero => intro _; simpa using hp
  | succ n ih =>
    intro h
    have ih' := ih (fun d hd => h d (by omega))
    have hn := h n (by omega)
    have := prefix_step G (b0 + n) ⟨κ, κ, s, 1⟩ _ hn.1 hn.2 hκ rfl ih'
    rw [List.replicate_succ', ← List.append_assoc]
    exact this

theorem leftChainFrom_cons (q : List MKey) (t : MKey) (rest : List MKey) (sw : Int) :
    leftChainFrom (α := α) q (t :: rest) sw =
      (t.1.toNat, ⟨lkey q, lkey (q ++ [t]), t.2.1, 1⟩) ::
        ((List.range ((match rest with | [] => sw | t' :: _ => t'.1) - t.1 - 1).toNat).map
          (fun d => (t.1.toNat + 1 + d, (⟨lkey (q ++ [t]), lkey (q ++ [t]), t.2.2, 1⟩ : Edge Key α)))
          ++ leftChainFrom (q ++ [t]) rest sw) := rfl

theorem leftStrRev_snoc (q : List MKey) (t : MKey) (k : Nat) :
    leftStrRev (q ++ [t]).reverse k =
      leftStrRev q.reverse t.1.toNat ++ t.2.1 :: List.replicate (k - t.1.toNat - 1) t.2.2 := by
  rw [List.reverse_append, List.reverse_singleton, List.singleton_append]
  rfl

/-- along the left trie: from the bond left of the operator `t` to the bond left of site `sw` -/
theorem prefix_chain (G : Nat → List (Edge Key α)) (L : Nat) (hU : ∀ k, k < L → InUniq (G k)) (sw : Int)
    (hsw : sw ≤ (L : Int)) :
    ∀ (rest : List MKey) (t : MKey) (q : List MKey),
      (((t :: rest).map (·.1)).Pairwise (· < ·)) → (∀ x ∈ t :: rest, 0 ≤ x.1 ∧ x.1 < sw) →
      (∀ x ∈ leftChainFrom (α := α) q (t :: rest) sw, x.2 ∈ G x.1) →
      PrefixIs G (lkey q) t.1.toNat (leftStrRev q.reverse t.1.toNat) →
      PrefixIs G (lkey (q ++ t :: rest)) sw.toNat (leftStrRev (q ++ t :: rest).reverse sw.toNat) := by
  intro rest
  induction rest with
  | nil =>
    intro t q _ hb hmem hstart
    have ht := hb t List.mem_cons_self
    -- the step edge
    have hstep : (⟨lkey q, lkey (q ++ [t]), t.2.1, 1⟩ : Edge Key α) ∈ G t.1.toNat :=
      hmem (t.1.toNat, ⟨lkey q, lkey (q ++ [t]), t.2.1, 1⟩) (by simp [leftChainFrom])
    have h1 := prefix_step G t.1.toNat _ _ (hU _ (by omega)) hstep (lkey_isLeft _) rfl hstart
    -- the loops up to `sw`
    have h2 := prefix_loops G (lkey (q ++ [t])) (lkey_isLeft _) t.2.2 (t.1.toNat + 1) _ h1
      (sw - t.1 - 1).toNat (by
        intro d hd
        refine ⟨hU _ (by omega), ?_⟩
        exact hmem (t.1.toNat + 1 + d, ⟨lkey (q ++ [t]), lkey (q ++ [t]), t.2.2, 1⟩) (by
          simp only [leftChainFrom, List.mem_cons, List.mem_append, List.mem_map, List.mem_range]
          right; left
          exact ⟨d, hd, rfl⟩))
    have e1 : t.1.toNat + 1 + (sw - t.1 - 1).toNat = sw.toNat := by omega
    have e2 : (sw - t.1 - 1).toNat = sw.toNat - t.1.toNat - 1 := by omega
    rw [e1, e2, List.append_assoc, List.singleton_append] at h2
    rw [leftStrRev_snoc]
    exact h2
  | cons t' rest ih =>
    intro t q hasc hb hmem hstart
    have ht := hb t List.mem_cons_self
    have ht' := hb t' (by simp)
    have hlt : t.1 < t'.1 := by
      simp only [List.map_cons, List.pairwise_cons] at hasc
      exact hasc.1 t'.1 (by simp)
    have hstep : (⟨lkey q, lkey (q ++ [t]), t.2.1, 1⟩ : Edge Key α) ∈ G t.1.toNat :=
      hmem (t.1.toNat, ⟨lkey q, lkey (q ++ [t]), t.2.1, 1⟩) (by simp [leftChainFrom])
    have h1 := prefix_step G t.1.toNat _ _ (hU _ (by omega)) hstep (lkey_isLeft _) rfl hstart
    have h2 := prefix_loops G (lkey (q ++ [t])) (lkey_isLeft _) t.2.2 (t.1.toNat + 1) _ h1
      (t'.1 - t.1 - 1).toNat (by
        intro d hd
        refine ⟨hU _ (by omega), ?_⟩
        exact hmem (t.1.toNat + 1 + d, ⟨lkey (q ++ [t]), lkey (q ++ [t]), t.2.2, 1⟩) (by
          simp only [leftChainFrom, List.mem_cons, List.mem_append, List.mem_map, List.mem_range]
          right; left
          exact ⟨d, hd, rfl⟩))
    have e1 : t.1.toNat + 1 + (t'.1 - t.1 - 1).toNat = t'.1.toNat := by omega
    have e2 : (t'.1 - t.1 - 1).toNat = t'.1.toNat - t.1.toNat - 1 := by omega
    rw [e1, e2, List.append_assoc, List.singleton_append, ← leftStrRev_snoc] at h2
    have := ih t' (q ++ [t])
      (by simp only [List.map_cons, List.pairwise_cons] at hasc ⊢; exact hasc.2)
      (fun x hx => hb x (List.mem_cons_of_mem _ hx))
      (fun x hx => hmem x (by
        rw [leftChainFrom_cons]
        simp only [List.mem_cons, List.mem_append]
        right; right
        exact hx))
      h2
    rw [List.append_assoc, List.singleton_append] at this
    exact this

/-- **prefix of a connection**: the paths into the key of the left path `pl` at the switch site -/
theorem prefix_conn (G : Nat → List (Edge Key α)) (L : Nat) (hU : ∀ k, k < L → InUniq (G k))
    (hloop : ∀ k, k < L → (⟨Key.IdL, Key.IdL, "Id", 1⟩ : Edge Key α) ∈ G k)
    (sw : Int) (hsw : sw ≤ (L : Int)) (pl : List MKey)
    (hasc : (pl.map (·.1)).Pairwise (· < ·)) (hb : ∀ x ∈ pl, 0 ≤ x.1 ∧ x.1 < sw)
    (hmem : ∀ x ∈ leftChain (α := α) pl sw, x.2 ∈ G x.1) :
    PrefixIs G (lkey pl) sw.toNat (leftStrRev pl.reverse sw.toNat) := by
  cases pl with
  | nil =>
    exact prefix_IdL G sw.toNat (fun k hk => hU k (by omega)) (fun k hk => hloop k (by omega))
  | cons t rest =>
    have ht := hb t List.mem_cons_self
    have h0 : PrefixIs G (lkey []) t.1.toNat (leftStrRev ([] : List MKey).reverse t.1.toNat) :=
      prefix_IdL G t.1.toNat (fun k hk => hU k (by omega)) (fun k hk => hloop k (by omega))
    have := prefix_chain G L hU sw hsw rest t [] hasc hb hmem h0
    simpa using this

end pref

section suff
variable {α : Type} [CommSemiring α]

def SuffixIs (L : Nat) (G : Nat → List (Edge Key α)) (κ : Key) (b : Nat) (u : OpStr) : Prop :=
  Sym.Equiv (pathsFrom Key.IdR ((List.range' b (L - b)).map G) κ) [(u, (1 : α))]

theorem suffixIs_end (L : Nat) (G : Nat → List (Edge Key α)) : SuffixIs L G Key.IdR L [] := by
  intro t
  simp [pathsFrom_nil]

omit [CommSemiring α] in
theorem outUniq_filter (l : List (Edge Key α)) (k : Key) (hk : k.isRight = true) (h : OutUniq l) :
    ((l.filter (fun x => x.kL = k)).map (·.kL)).Nodup := by
  unfold OutUniq at h
  refine List.Nodup.sublist (List.Sublist.map _ (List.monotone_filter_right l ?_)) h
  intro a ha
  have : a.kL = k := by simpa using ha
  rw [this]; exact hk

/-- one more site to the left: the unique edge out of `e.kL` -/
theorem suffix_step (L : Nat) (G : Nat → List (Edge Key α)) (b : Nat) (hb : b < L) (e : Edge Key α) (u : OpStr)
    (hU : OutUniq (G b)) (he : e ∈ G b) (hr : e.kL.isRight = true) (hc : e.c = 1)
    (hp : SuffixIs L G e.kR (b + 1) u) : SuffixIs L G e.kL b (e.op :: u) := by
  unfold SuffixIs at hp ⊢
  have hL : L - b = (L - (b + 1)) + 1 := by omega
  rw [hL, List.range'_succ, List.map_cons]
  refine (pathsFrom_single_out Key.IdR (G b) _ e.kL e he rfl (outUniq_filter _ _ hr hU)).trans ?_
  refine (Sym.Equiv.consOp e.op e.c hp).trans ?_
  rw [consOp_singleton, hc, mul_one]
  exact Sym.Equiv.refl _

theorem suffix_IdR (L : Nat) (G : Nat → List (Edge Key α))
    (hU : ∀ k, k < L → OutUniq (G k))
    (hloop : ∀ k, k < L → (⟨Key.IdR, Key.IdR, "Id", 1⟩ : Edge Key α) ∈ G k) :
    ∀ n b, b + n = L → SuffixIs L G Key.IdR b (idStr n) := by
  intro n
  induction n with
  | zero =>
    intro b hb
    have : b = L := by omega
    subst this
    exact suffixIs_end b G
  | succ n ih =>
    intro b hb
    have := suffix_step L G b (by omega) ⟨Key.IdR, Key.IdR, "Id", 1⟩ (idStr n) (hU b (by omega))
      (hloop b (by omega)) rfl rfl (ih (b + 1) (by omega))
    rw [idStr_succ]
    exact this

/-- `n` loop edges `κ → κ` on the sites `b0 - n … b0 - 1` -/
theorem suffix_loops (L : Nat) (G : Nat → List (Edge Key α)) (κ : Key) (hκ : κ.isRight = true) (s : String)
    (b0 : Nat) (hb0 : b0 ≤ L) (u : OpStr) (hp : SuffixIs L G κ b0 u) :
    ∀ n, n ≤ b0 → (∀ d, d < n → OutUniq (G (b0 - 1 - d)) ∧ (⟨κ, κ, s, 1⟩ : Edge Key α) ∈ G (b0 - 1 - d)) →
      SuffixIs L G κ (b0 - n) (List.replicate n s ++ u) := by
  intro n
  induction n with
  | zero => intro _ _; simpa using hp
  | succ n ih =>
    intro hn h
    have ih' := ih (by omega) (fun d hd => h d (by omega))
    have hh := h n (by omega)
    have e : b0 - 1 - n = b0 - (n + 1) := by omega
    rw [e] at hh
    have e2 : b0 - (n + 1) + 1 = b0 - n := by omega
    have := suffix_step L G (b0 - (n + 1)) (by omega) ⟨κ, κ, s, 1⟩ _ hh.1 hh.2 hκ rfl (by rw [e2]; exact ih')
    rw [List.replicate_succ, List.cons_append]
    exact this

theorem rightChainFrom_cons (q : List MKey) (t : MKey) (rest : List MKey) (sw : Int) :
    rightChainFrom (α := α) q (t :: rest) sw =
      (t.1.toNat, ⟨rkey (q ++ [t]), rkey q, t.2.1, 1⟩) ::
        ((List.range (t.1 - (match rest with | [] => sw | t' :: _ => t'.1) - 1).toNat).map
          (fun d => ((match rest with | [] => sw | t' :: _ => t'.1).toNat + 1 + d,
            (⟨rkey (q ++ [t]), rkey (q ++ [t]), t.2.2, 1⟩ : Edge Key α)))
          ++ rightChainFrom (q ++ [t]) rest sw) := rfl

theorem rightFrom_snoc (L : Nat) (q : List MKey) (t : MKey) (b : Nat) :
    rightFrom L b (q ++ [t]).reverse =
      List.replicate (t.1.toNat - b) t.2.2 ++ t.2.1 :: rightFrom L (t.1.toNat + 1) q.reverse := by
  rw [List.reverse_append, List.reverse_singleton, List.singleton_append]
  rfl

/-- along the right trie: from the bond right of the operator `t` down to the bond right of site `sw` -/
theorem suffix_chain (L : Nat) (G : Nat → List (Edge Key α)) (hU : ∀ k, k < L → OutUniq (G k)) (sw : Int)
    (hsw : 0 ≤ sw) :
    ∀ (rest : List MKey) (t : MKey) (q : List MKey),
      (((t :: rest).map (·.1)).Pairwise (· > ·)) → (∀ x ∈ t :: rest, sw < x.1 ∧ x.1 < (L : Int)) →
      (∀ x ∈ rightChainFrom (α := α) q (t :: rest) sw, x.2 ∈ G x.1) →
      SuffixIs L G (rkey q) (t.1.toNat + 1) (rightFrom L (t.1.toNat + 1) q.reverse) →
      SuffixIs L G (rkey (q ++ t :: rest)) (sw.toNat + 1) (rightFrom L (sw.toNat + 1) (q ++ t :: rest).reverse) := by
  intro rest
  induction rest with
  | nil =>
    intro t q _ hb hmem hstart
    have ht := hb t List.mem_cons_self
    have hstep : (⟨rkey (q ++ [t]), rkey q, t.2.1, 1⟩ : Edge Key α) ∈ G t.1.toNat :=
      hmem (t.1.toNat, ⟨rkey (q ++ [t]), rkey q, t.2.1, 1⟩) (by simp [rightChainFrom])
    have h1 := suffix_step L G t.1.toNat (by omega) _ _ (hU _ (by omega)) hstep (rkey_isRight _) rfl hstart
    have h2 := suffix_loops L G (rkey (q ++ [t])) (rkey_isRight _) t.2.2 t.1.toNat (by omega) _ h1
      (t.1 - sw - 1).toNat (by omega) (by
        intro d hd
        refine ⟨hU _ (by omega), ?_⟩
        have hmem' := hmem (sw.toNat + 1 + ((t.1 - sw - 1).toNat - 1 - d),
          ⟨rkey (q ++ [t]), rkey (q ++ [t]), t.2.2, 1⟩) (by
          simp only [rightChainFrom, List.mem_cons, List.mem_append, List.mem_map, List.mem_range]
          right; left
          exact ⟨(t.1 - sw - 1).toNat - 1 - d, by omega, rfl⟩)
        have e : sw.toNat + 1 + ((t.1 - sw - 1).toNat - 1 - d) = t.1.toNat - 1 - d := by omega
        rw [e] at hmem'
        exact hmem')
    have e1 : t.1.toNat - (t.1 - sw - 1).toNat = sw.toNat + 1 := by omega
    have e2 : (t.1 - sw - 1).toNat = t.1.toNat - (sw.toNat + 1) := by omega
    rw [e1, e2] at h2
    rw [rightFrom_snoc]
    exact h2
  | cons t' rest ih =>
    intro t q hdesc hb hmem hstart
    have ht := hb t List.mem_cons_self
    have ht' := hb t' (by simp)
    have hlt : t'.1 < t.1 := by
      simp only [List.map_cons, List.pairwise_cons] at hdesc
      exact hdesc.1 t'.1 (by simp)
    have hstep : (⟨rkey (q ++ [t]), rkey q, t.2.1, 1⟩ : Edge Key α) ∈ G t.1.toNat :=
      hmem (t.1.toNat, ⟨rkey (q ++ [t]), rkey q, t.2.1, 1⟩) (by simp [rightChainFrom])
    have h1 := suffix_step L G t.1.toNat (by omega) _ _ (hU _ (by omega)) hstep (rkey_isRight _) rfl hstart
    have h2 := suffix_loops L G (rkey (q ++ [t])) (rkey_isRight _) t.2.2 t.1.toNat (by omega) _ h1
      (t.1 - t'.1 - 1).toNat (by omega) (by
        intro d hd
        refine ⟨hU _ (by omega), ?_⟩
        have hmem' := hmem (t'.1.toNat + 1 + ((t.1 - t'.1 - 1).toNat - 1 - d),
          ⟨rkey (q ++ [t]), rkey (q ++ [t]), t.2.2, 1⟩) (by
          simp only [rightChainFrom, List.mem_cons, List.mem_append, List.mem_map, List.mem_range]
          right; left
          exact ⟨(t.1 - t'.1 - 1).toNat - 1 - d, by omega, rfl⟩)
        have e : t'.1.toNat + 1 + ((t.1 - t'.1 - 1).toNat - 1 - d) = t.1.toNat - 1 - d := by omega
        rw [e] at hmem'
        exact hmem')
    have e1 : t.1.toNat - (t.1 - t'.1 - 1).toNat = t'.1.toNat + 1 := by omega
    have e2 : (t.1 - t'.1 - 1).toNat = t.1.toNat - (t'.1.toNat + 1) := by omega
    rw [e1, e2, ← rightFrom_snoc] at h2
    have := ih t' (q ++ [t])
      (by simp only [List.map_cons, List.pairwise_cons] at hdesc ⊢; exact hdesc.2)
      (fun x hx => hb x (List.mem_cons_of_mem _ hx))
      (fun x hx => hmem x (by
        rw [rightChainFrom_cons]
        simp only [List.mem_cons, List.mem_append]
        right; right
        exact hx))
      h2
    rw [List.append_assoc, List.singleton_append] at this
    exact this

/-- **suffix of a connection**: the paths out of the key of the right path `pr` right of the switch site -/
theorem suffix_conn (L : Nat) (G : Nat → List (Edge Key α)) (hU : ∀ k, k < L → OutUniq (G k))
    (hloop : ∀ k, k < L → (⟨Key.IdR, Key.IdR, "Id", 1⟩ : Edge Key α) ∈ G k)
    (sw : Int) (hsw0 : 0 ≤ sw) (hswL : sw < (L : Int)) (pr : List MKey)
    (hdesc : (pr.map (·.1)).Pairwise (· > ·)) (hb : ∀ x ∈ pr, sw < x.1 ∧ x.1 < (L : Int))
    (hmem : ∀ x ∈ rightChain (α := α) pr sw, x.2 ∈ G x.1) :
    SuffixIs L G (rkey pr) (sw.toNat + 1) (rightFrom L (sw.toNat + 1) pr.reverse) := by
  cases pr with
  | nil =>
    have := suffix_IdR L G hU hloop (L - (sw.toNat + 1)) (sw.toNat + 1) (by omega)
    simpa [rightFrom, rkey] using this
  | cons t rest =>
    have ht := hb t List.mem_cons_self
    have h0 : SuffixIs L G (rkey []) (t.1.toNat + 1) (rightFrom L (t.1.toNat + 1) ([] : List MKey).reverse) := by
      have := suffix_IdR L G hU hloop (L - (t.1.toNat + 1)) (t.1.toNat + 1) (by omega)
      simpa [rightFrom, rkey] using this
    have := suffix_chain L G hU sw hsw0 rest t [] hdesc hb hmem h0
    simpa using this

end suff

end TenpyModel.Ops
