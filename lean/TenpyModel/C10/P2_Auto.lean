import TenpyModel.C11.PlusIdProofs
import TenpyModel.C10.BuildProofs
/-!
# C10 / Props2: general lemmas on layered weighted automata

* `coeff_pathsFrom_snoc`   peeling the LAST layer (prefix sums)
* `pathsFrom_closed_nil`   a set of keys that is closed under the edges and misses `fin` has empty path sums
* `pathsFrom_single_out`   a key with exactly one outgoing edge
-/
namespace TenpyModel.Ops

section
variable {κ α : Type} [DecidableEq κ] [CommSemiring α]

theorem sum_sum_comm {β γ : Type} (l1 : List β) (l2 : List γ) (f : β → γ → α) :
    (l1.map (fun x => (l2.map (fun y => f x y)).sum)).sum =
      (l2.map (fun y => (l1.map (fun x => f x y)).sum)).sum := by
  induction l1 with
  | nil => simp
  | cons x l1 ih =>
    simp only [List.map_cons, List.sum_cons, ih]
    rw [← sum_map_add]

/-- peel the last layer: a path into `fin` ends with an edge `e` of the last layer with `e.kR = fin` -/
theorem coeff_pathsFrom_snoc (fin : κ) (l : List (Edge κ α)) :
    ∀ (pre : List (List (Edge κ α))) (k : κ) (u : OpStr) (op : String),
      coeff (pathsFrom fin (pre ++ [l]) k) (u ++ [op]) =
        (l.map (fun e => if e.kR = fin ∧ e.op = op then coeff (pathsFrom e.kL pre k) u * e.c else 0)).sum := by
  intro pre
  induction pre with
  | nil =>
    intro k u op
    cases u with
    | nil =>
      simp only [List.nil_append, coeff_pathsFrom_cons, pathsFrom_nil]
      apply sum_congr_map
      intro e _
      by_cases h1 : e.kL = k
      · by_cases h2 : e.op = op
        · by_cases h3 : e.kR = fin
          · simp [h1, h2, h3, coeff_singleton]
          · simp [h1, h2, h3]
        · simp [h2]
      · have h1' : ¬ k = e.kL := fun h => h1 h.symm
        simp [h1, h1']
    | cons a u =>
      simp only [List.nil_append, List.cons_append, coeff_pathsFrom_cons]
      have hz : ∀ x : κ, coeff (pathsFrom (α := α) fin [] x) (u ++ [op]) = 0 := by
        intro x
        apply coeff_pathsFrom_length
        simp
      have hz2 : ∀ x y : κ, coeff (pathsFrom (α := α) x [] y) (a :: u) = 0 := by
        intro x y
        apply coeff_pathsFrom_length
        simp
      simp only [hz, hz2, mul_zero, zero_mul, ite_self]
  | cons l0 pre ih =>
    intro k u op
    cases u with
    | nil =>
      have h1 : coeff (pathsFrom fin ((l0 :: pre) ++ [l]) k) ([] ++ [op]) = 0 := by
        apply coeff_pathsFrom_length
        simp
      rw [h1]
      symm
      apply List.sum_eq_zero
      intro x hx
      obtain ⟨e, _, rfl⟩ := List.mem_map.1 hx
      rw [coeff_pathsFrom_cons_nil, zero_mul, ite_self]
    | cons a u =>
      simp only [List.cons_append, coeff_pathsFrom_cons]
      have : ∀ e0 : Edge κ α,
          (if e0.kL = k ∧ e0.op = a then e0.c * coeff (pathsFrom fin (pre ++ [l]) e0.kR) (u ++ [op]) else 0) =
          (l.map (fun e => if e.kR = fin ∧ e.op = op then
            (if e0.kL = k ∧ e0.op = a then e0.c * coeff (pathsFrom e.kL pre e0.kR) u else 0) * e.c else 0)).sum := by
        intro e0
        by_cases h : e0.kL = k ∧ e0.op = a
        · rw [if_pos h, ih, ← sum_map_mul_left']
          apply sum_congr_map
          intro e _
          simp only [if_pos h]
          split
          · rw [mul_assoc]
          · rw [mul_zero]
        · rw [if_neg h]
          symm
          apply List.sum_eq_zero
          intro x hx
          obtain ⟨e, _, rfl⟩ := List.mem_map.1 hx
          simp [h]
      simp only [this]
      rw [sum_sum_comm]
      apply sum_congr_map
      intro e _
      by_cases h : e.kR = fin ∧ e.op = op
      · simp only [if_pos h]
        rw [sum_map_mul_right'']
      · simp only [if_neg h]
        exact sum_map_zero' l0

theorem coeff_pathsFrom_snoc_nil (fin : κ) (l : List (Edge κ α)) (pre : List (List (Edge κ α))) (k : κ) :
    coeff (pathsFrom fin (pre ++ [l]) k) [] = 0 := by
  apply coeff_pathsFrom_length
  simp

/-- a set of keys closed under the edges that does not contain `fin`: no path to `fin` -/
theorem pathsFrom_closed_nil (fin : κ) (S : κ → Prop) (hfin : ¬ S fin) :
    ∀ (layers : List (List (Edge κ α))), (∀ l ∈ layers, ∀ e ∈ l, S e.kL → S e.kR) →
      ∀ k, S k → pathsFrom fin layers k = [] := by
  intro layers
  induction layers with
  | nil =>
    intro _ k hk
    rw [pathsFrom_nil, if_neg (fun h : k = fin => hfin (h ▸ hk))]
  | cons l rest ih =>
    intro h k hk
    rw [pathsFrom_cons, List.flatMap_eq_nil_iff]
    intro e he
    split
    · next hkl =>
      have hS : S e.kL := by rw [hkl]; exact hk
      have := ih (fun l' hl' => h l' (List.mem_cons_of_mem _ hl')) e.kR
        (h l List.mem_cons_self e he hS)
      rw [this]
      rfl
    · rfl

/-- only one edge `e` leaves `k` in the first layer -/
theorem pathsFrom_single_out (fin : κ) (l : List (Edge κ α)) (rest : List (List (Edge κ α))) (k : κ)
    (e : Edge κ α) (he : e ∈ l) (hk : e.kL = k)
    (huniq : ((l.filter (fun x => x.kL = k)).map (·.kL)).Nodup) :
    Sym.Equiv (pathsFrom fin (l :: rest) k) (Sym.consOp e.op e.c (pathsFrom fin rest e.kR)) := by
  rw [pathsFrom_cons]
  have hfil : l.filter (fun x => x.kL = k) = [e] := by
    have hmem : e ∈ l.filter (fun x => x.kL = k) := List.mem_filter.2 ⟨he, by simpa using hk⟩
    match hf : l.filter (fun x => x.kL = k) with
    | [] => rw [hf] at hmem; simp at hmem
    | [x] => rw [hf] at hmem; simp at hmem; rw [hmem]; exact hf
    | x :: y :: r =>
      exfalso
      rw [hf] at huniq
      have hx : x.kL = k := by
        have : x ∈ l.filter (fun x => x.kL = k) := by rw [hf]; exact List.mem_cons_self
        simpa using (List.mem_filter.1 this).2
      have hy : y.kL = k := by
        have : y ∈ l.filter (fun x => x.kL = k) := by rw [hf]; simp
        simpa using (List.mem_filter.1 this).2
      simp [hx, hy] at huniq
  have : l.flatMap (fun e' => if e'.kL = k then Sym.consOp e'.op e'.c (pathsFrom fin rest e'.kR) else []) =
      (l.filter (fun x => x.kL = k)).flatMap (fun e' => Sym.consOp e'.op e'.c (pathsFrom fin rest e'.kR)) := by
    clear hfil huniq he
    induction l with
    | nil => rfl
    | cons x l ih =>
      by_cases hx : x.kL = k
      · simp [hx, ih]
      · simp [hx, ih]
  rw [this, hfil]
  simp only [List.flatMap_cons, List.flatMap_nil, List.append_nil]
  exact Sym.Equiv.refl _

end

end TenpyModel.Ops
