import TenpyModel.C10.P2_Exp5
/-!
# C10 / Props2: exponentially decaying terms, part 6: `to_TermList(bc='finite')` without cutoff, plain terms
-/
namespace TenpyModel.Ops

section lists

theorem takeWhile_true {β : Type} (l : List β) (p : β → Bool) (h : ∀ x, p x = true) : l.takeWhile p = l := by
  induction l with
  | nil => rfl
  | cons a l ih => rw [List.takeWhile_cons, h a, if_pos rfl, ih]

/-- `for d, j in enumerate(l)`: the prefix `l[:d]` of an ascending list is the set of entries `< j` -/
theorem zip_take_sorted {γ : Type} (l : List Nat) (h : l.Pairwise (· < ·)) (f : List Nat → γ) :
    l.zip ((List.range l.length).map (fun d => f (l.take d))) =
      l.map (fun j => (j, f (l.filter (fun n => decide (n < j))))) := by
  induction l generalizing f with
  | nil => rfl
  | cons a l ih =>
    rw [List.pairwise_cons] at h
    rw [List.length_cons, List.range_succ_eq_map, List.map_cons, List.map_map, List.zip_cons_cons,
      List.map_cons]
    have e0 : (a :: l).filter (fun n => decide (n < a)) = [] := by
      rw [List.filter_eq_nil_iff]
      intro n hn
      rcases List.mem_cons.1 hn with e | hn'
      · subst e; simp
      · have := h.1 n hn'; simp; omega
    rw [e0, List.take_zero]
    congr 1
    have := ih h.2 (fun p => f (a :: p))
    simp only [Function.comp_def, List.take_succ_cons]
    rw [this]
    apply List.map_congr_left
    intro j hj
    have haj : a < j := h.1 j hj
    rw [List.filter_cons, if_pos (by simpa using haj)]

end lists

section
variable {α : Type} [CommSemiring α] [Inhabited α]

/-- the terms emitted for one plain term (inner function of `toTermListFinite`, no cutoff) -/
def ExpTerm.termList (t : ExpTerm α) : STermList α :=
  t.subsitesStart.flatMap (fun i =>
    let later := t.subsites.filter (fun j => i < j)
    let prefs := (List.range later.length).map (fun d =>
      t.strength * ExpDecayTerms.prodL (t.lam.getD i default :: (later.take d).map (fun n => t.lam.getD n default)))
    let keep := ((later.zip prefs).takeWhile (fun p => !(fun (_ : α) => false) p.2))
    keep.map (fun (j, pref) => ([⟨t.opi, i, t.str⟩, ⟨t.opj, j, ""⟩], pref)))

/-- the terms emitted for one centred term -/
def CenteredTerm.termList (t : CenteredTerm α) : STermList α :=
  (t.subsites.filter (fun j => j ≠ t.i)).filterMap (fun j =>
    let ps := if j < t.i then t.subsites.filter (fun n => j < n ∧ n ≤ t.i)
              else t.subsites.filter (fun n => t.i ≤ n ∧ n < j)
    let pref := t.strength * ExpDecayTerms.prodL (ps.map (fun n => t.lam.getD n default))
    if (fun (_ : α) => false) pref then none
    else some ([⟨t.opi, t.i, t.str⟩, ⟨t.opj, j, t.str⟩], pref))

theorem toTermListFinite_eq (e : ExpDecayTerms α) :
    e.toTermListFinite (fun _ => false) =
      e.terms.flatMap ExpTerm.termList ++ e.centered.flatMap CenteredTerm.termList := rfl

omit [Inhabited α] in
theorem prodL_eq_prod (l : List α) : ExpDecayTerms.prodL l = l.prod := by
  unfold ExpDecayTerms.prodL
  rw [List.prod_eq_foldl]

theorem ExpTerm.termList_denote (t : ExpTerm α) (L : Nat) (hok : t.OK L) :
    STermList.denote L t.termList = t.termsFrom L 0 := by
  unfold ExpTerm.termList ExpTerm.termsFrom STermList.denote
  have h0 : t.subsitesStart.filter (fun i => decide (0 ≤ i)) = t.subsitesStart := by
    rw [List.filter_eq_self]; intro a _; simp
  rw [h0, List.map_flatMap]
  apply List.flatMap_congr
  intro i _
  have hs : (t.subsites.filter (fun j => decide (i < j))).Pairwise (· < ·) := hok.subs.filter _
  simp only []
  rw [takeWhile_true _ (fun (_ : Nat × α) => !false) (fun _ => rfl),
    zip_take_sorted _ hs (fun p => t.strength *
      ExpDecayTerms.prodL (t.lam.getD i default :: p.map (fun n => t.lam.getD n default)))]
  unfold ExpTerm.tail
  have hf : t.subsites.filter (fun j => decide (i + 1 ≤ j)) = t.subsites.filter (fun j => decide (i < j)) := by
    apply List.filter_congr
    intro j _
    simp [Nat.succ_le_iff]
  rw [hf, List.map_map, List.map_map, List.map_map]
  apply List.map_congr_left
  intro j hj
  have hij : i < j := by simpa using (List.mem_filter.1 hj).2
  simp only [Function.comp_def]
  rw [stermStr_pair L (i : Int) (j : Int) (by omega) t.opi t.str t.opj]
  have e1 : j - i - 1 = j - (i + 1) := by omega
  refine Prod.ext ?_ ?_
  · simp only [couplingStr, Int.toNat_natCast, Nat.sub_zero, e1]
  · simp only [prodL_eq_prod, List.filter_filter, List.prod_cons]
    unfold ExpTerm.w lamAt
    have hf2 : t.subsites.filter (fun n => decide (i + 1 ≤ n ∧ n < j)) =
        t.subsites.filter (fun n => decide (n < j) && decide (i < n)) := by
      apply List.filter_congr
      intro n _
      simp [Nat.succ_le_iff, Bool.and_comm]
    rw [hf2]
    ring

end

end TenpyModel.Ops
