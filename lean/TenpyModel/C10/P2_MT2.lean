import TenpyModel.C10.P2_MT1
/-!
# C10 / Props2 (container level of `MultiCouplingTerms`), part 2: the invariant of one trie

`SideOK lt L ps conns`: what `GWF` says about one of the two tries (`lt = (· < ·)` for `terms_left`,
`(· > ·)` for `terms_right`), plus "every stored counter is an index of `connections`".  It is preserved by
`pushCounter` with a fresh counter (a new connection) and by `touch` (`setdefault` of an empty counter list).
-/
namespace TenpyModel.Ops

open MultiCouplingTerms

section
variable {α : Type}

structure SideOK (lt : Int → Int → Prop) (L : Nat) (ps : List MPath) (conns : List (Option (Conn α))) : Prop where
  has : ∀ c kk, conns.getD c none = some kk → ∃ p ∈ ps, c ∈ p.counters
  ok : ∀ p ∈ ps, (p.path.map (·.1)).Pairwise lt ∧ (∀ t ∈ p.path, 0 ≤ t.1 ∧ t.1 < (L : Int)) ∧
    ∀ c ∈ p.counters, ∀ kk, conns.getD c none = some kk → ∀ t ∈ p.path, lt t.1 kk.switchLR
  disj : ps.Pairwise (fun p q => p.path ≠ q.path ∧ ∀ c ∈ p.counters, c ∉ q.counters)
  bound : ∀ p ∈ ps, ∀ c ∈ p.counters, c < conns.length

/-- the path of a new entry -/
structure PathOK (lt : Int → Int → Prop) (L : Nat) (path : List MKey) : Prop where
  asc : (path.map (·.1)).Pairwise lt
  inL : ∀ t ∈ path, 0 ≤ t.1 ∧ t.1 < (L : Int)

/-! ### `getD` of the two updates of `connections` -/

theorem getD_append_some (conns : List (Option (Conn α))) (k : Conn α) (c : Nat) :
    (conns ++ [some k]).getD c none =
      if c < conns.length then conns.getD c none else if c = conns.length then some k else none := by
  rw [List.getD_eq_getElem?_getD, List.getD_eq_getElem?_getD]
  split
  · rename_i h
    rw [List.getElem?_append_left h]
  · rename_i h
    rw [List.getElem?_append_right (by omega)]
    split
    · rename_i h2
      subst h2
      simp
    · have : 0 < c - conns.length := by omega
      rw [List.getElem?_eq_none (by simp; omega)]
      rfl

theorem getD_modify (conns : List (Option (Conn α))) (c : Nat) (f : Option (Conn α) → Option (Conn α))
    (hf : f none = none) (c' : Nat) :
    (conns.modify c f).getD c' none = if c = c' then f (conns.getD c' none) else conns.getD c' none := by
  rw [List.getD_eq_getElem?_getD, List.getD_eq_getElem?_getD, List.getElem?_modify]
  cases h : conns[c']? with
  | none => split <;> simp [hf]
  | some x => split <;> simp

/-! ### `pushCounter` and `touch` -/

theorem mem_pushCounter (ps : List MPath) (path : List MKey) (c : Nat) (q : MPath)
    (hq : q ∈ pushCounter ps path c) :
    (q ∈ ps ∧ q.path ≠ path) ∨
      ∃ cs, q = ⟨path, cs ++ [c]⟩ ∧ (⟨path, cs⟩ ∈ ps ∨ (cs = [] ∧ ∀ p ∈ ps, p.path ≠ path)) := by
  unfold pushCounter at hq
  split at hq
  · obtain ⟨p, hp, rfl⟩ := List.mem_map.1 hq
    by_cases h : p.path = path
    · right
      refine ⟨p.counters, by simp [h], Or.inl ?_⟩
      rw [← h]
      exact hp
    · left
      simp [h, hp]
  · rename_i hany
    rcases List.mem_append.1 hq with hq | hq
    · left
      refine ⟨hq, ?_⟩
      intro hh
      exact hany (List.any_eq_true.2 ⟨q, hq, by simpa using hh⟩)
    · right
      simp only [List.mem_singleton] at hq
      refine ⟨[], by simpa using hq, Or.inr ⟨rfl, ?_⟩⟩
      intro p hp hh
      exact hany (List.any_eq_true.2 ⟨p, hp, by simpa using hh⟩)

theorem pushCounter_mono (ps : List MPath) (path : List MKey) (c : Nat) (p : MPath) (hp : p ∈ ps) :
    ∃ q ∈ pushCounter ps path c, q.path = p.path ∧ ∀ c' ∈ p.counters, c' ∈ q.counters := by
  unfold pushCounter
  split
  · refine ⟨_, List.mem_map.2 ⟨p, hp, rfl⟩, ?_⟩
    split
    · exact ⟨rfl, fun c' hc' => List.mem_append_left _ hc'⟩
    · exact ⟨rfl, fun _ h => h⟩
  · exact ⟨p, List.mem_append_left _ hp, rfl, fun _ h => h⟩

theorem pushCounter_has (ps : List MPath) (path : List MKey) (c : Nat) :
    ∃ q ∈ pushCounter ps path c, q.path = path ∧ c ∈ q.counters := by
  unfold pushCounter
  split
  · rename_i hany
    obtain ⟨p, hp, hpp⟩ := List.any_eq_true.1 hany
    have hpp' : p.path = path := by simpa using hpp
    refine ⟨_, List.mem_map.2 ⟨p, hp, rfl⟩, ?_⟩
    simp [hpp']
  · exact ⟨⟨path, [c]⟩, by simp, rfl, by simp⟩

theorem pushCounter_disj (ps : List MPath) (path : List MKey) (c : Nat)
    (hd : ps.Pairwise (fun p q => p.path ≠ q.path ∧ ∀ c ∈ p.counters, c ∉ q.counters))
    (hfresh : ∀ p ∈ ps, c ∉ p.counters) :
    (pushCounter ps path c).Pairwise (fun p q => p.path ≠ q.path ∧ ∀ c ∈ p.counters, c ∉ q.counters) := by
  unfold pushCounter
  split
  · rw [List.pairwise_map]
    refine hd.imp_of_mem ?_
    intro p q hp hq hpq
    obtain ⟨hne, hdis⟩ := hpq
    by_cases h1 : p.path = path
    · have h2 : ¬ q.path = path := fun hh => hne (h1.trans hh.symm)
      simp only [h1, h2, if_true, if_false]
      refine ⟨by rw [← h1]; exact hne, ?_⟩
      intro x hx
      rcases List.mem_append.1 hx with hx | hx
      · exact hdis x hx
      · simp only [List.mem_singleton] at hx
        subst hx
        exact hfresh q hq
    · by_cases h2 : q.path = path
      · simp only [h1, h2, if_true, if_false]
        refine ⟨by rw [← h2]; exact hne, ?_⟩
        intro x hx hx'
        rcases List.mem_append.1 hx' with hx' | hx'
        · exact hdis x hx hx'
        · simp only [List.mem_singleton] at hx'
          subst hx'
          exact hfresh p hp hx
      · simp only [h1, h2, if_false]
        exact ⟨hne, hdis⟩
  · rename_i hany
    rw [List.pairwise_append]
    refine ⟨hd, List.pairwise_singleton _ _, ?_⟩
    intro p hp q hq
    simp only [List.mem_singleton] at hq
    subst hq
    refine ⟨?_, ?_⟩
    · intro hh
      exact hany (List.any_eq_true.2 ⟨p, hp, by simpa using hh⟩)
    · intro x hx hx'
      simp only [List.mem_singleton] at hx'
      subst hx'
      exact hfresh p hp hx

theorem mem_touch (ps : List MPath) (path : List MKey) (q : MPath) (hq : q ∈ touch ps path) :
    q ∈ ps ∨ (q = ⟨path, []⟩ ∧ ∀ p ∈ ps, p.path ≠ path) := by
  unfold touch at hq
  split at hq
  · exact Or.inl hq
  · rename_i hany
    rcases List.mem_append.1 hq with hq | hq
    · exact Or.inl hq
    · right
      simp only [List.mem_singleton] at hq
      refine ⟨hq, ?_⟩
      intro p hp hh
      exact hany (List.any_eq_true.2 ⟨p, hp, by simpa using hh⟩)

theorem touch_mono (ps : List MPath) (path : List MKey) (p : MPath) (hp : p ∈ ps) : p ∈ touch ps path := by
  unfold touch
  split
  · exact hp
  · exact List.mem_append_left _ hp

theorem touch_disj (ps : List MPath) (path : List MKey)
    (hd : ps.Pairwise (fun p q => p.path ≠ q.path ∧ ∀ c ∈ p.counters, c ∉ q.counters)) :
    (touch ps path).Pairwise (fun p q => p.path ≠ q.path ∧ ∀ c ∈ p.counters, c ∉ q.counters) := by
  unfold touch
  split
  · exact hd
  · rename_i hany
    rw [List.pairwise_append]
    refine ⟨hd, List.pairwise_singleton _ _, ?_⟩
    intro p hp q hq
    simp only [List.mem_singleton] at hq
    subst hq
    refine ⟨?_, by simp⟩
    intro hh
    exact hany (List.any_eq_true.2 ⟨p, hp, by simpa using hh⟩)

/-! ### preservation -/

/-- a new connection `k` with the fresh counter `conns.length` -/
theorem SideOK.push {lt : Int → Int → Prop} {L : Nat} {ps : List MPath} {conns : List (Option (Conn α))}
    (h : SideOK lt L ps conns) (path : List MKey) (k : Conn α) (hp : PathOK lt L path)
    (hk : ∀ t ∈ path, lt t.1 k.switchLR) :
    SideOK lt L (pushCounter ps path conns.length) (conns ++ [some k]) := by
  have hfresh : ∀ p ∈ ps, conns.length ∉ p.counters := by
    intro p hp hc
    have := h.bound p hp _ hc
    omega
  refine ⟨?_, ?_, pushCounter_disj ps path _ h.disj hfresh, ?_⟩
  · intro c kk hc
    rw [getD_append_some] at hc
    split at hc
    · obtain ⟨p, hp, hcp⟩ := h.has c kk hc
      obtain ⟨q, hq, _, hsub⟩ := pushCounter_mono ps path conns.length p hp
      exact ⟨q, hq, hsub c hcp⟩
    · split at hc
      · rename_i hc'
        subst hc'
        obtain ⟨q, hq, _, hcq⟩ := pushCounter_has ps path conns.length
        exact ⟨q, hq, hcq⟩
      · cases hc
  · intro q hq
    rcases mem_pushCounter ps path _ q hq with ⟨hq, _⟩ | ⟨cs, rfl, hcs⟩
    · obtain ⟨h1, h2, h3⟩ := h.ok q hq
      refine ⟨h1, h2, ?_⟩
      intro c hc kk hkk
      rw [getD_append_some, if_pos (h.bound q hq c hc)] at hkk
      exact h3 c hc kk hkk
    · refine ⟨hp.asc, hp.inL, ?_⟩
      intro c hc kk hkk
      rw [getD_append_some] at hkk
      rcases List.mem_append.1 hc with hc | hc
      · rcases hcs with hcs | ⟨rfl, _⟩
        · rw [if_pos (h.bound _ hcs c hc)] at hkk
          exact (h.ok _ hcs).2.2 c hc kk hkk
        · cases hc
      · simp only [List.mem_singleton] at hc
        subst hc
        simp only [lt_irrefl, if_false, if_true, Option.some.injEq] at hkk
        subst hkk
        exact hk
  · intro q hq c hc
    rw [List.length_append, List.length_singleton]
    rcases mem_pushCounter ps path _ q hq with ⟨hq, _⟩ | ⟨cs, rfl, hcs⟩
    · have := h.bound q hq c hc
      omega
    · rcases List.mem_append.1 hc with hc | hc
      · rcases hcs with hcs | ⟨rfl, _⟩
        · have := h.bound _ hcs c hc
          omega
        · cases hc
      · simp only [List.mem_singleton] at hc
        omega

/-- `setdefault` of a counter list -/
theorem SideOK.touch {lt : Int → Int → Prop} {L : Nat} {ps : List MPath} {conns : List (Option (Conn α))}
    (h : SideOK lt L ps conns) (path : List MKey) (hp : PathOK lt L path) :
    SideOK lt L (touch ps path) conns := by
  refine ⟨?_, ?_, touch_disj ps path h.disj, ?_⟩
  · intro c kk hc
    obtain ⟨p, hp, hcp⟩ := h.has c kk hc
    exact ⟨p, touch_mono ps path p hp, hcp⟩
  · intro q hq
    rcases mem_touch ps path q hq with hq | ⟨rfl, _⟩
    · exact h.ok q hq
    · exact ⟨hp.asc, hp.inL, by intro c hc; cases hc⟩
  · intro q hq c hc
    rcases mem_touch ps path q hq with hq | ⟨rfl, _⟩
    · exact h.bound q hq c hc
    · cases hc

/-- only the length of `connections` and the `switchLR` of its entries matter -/
theorem SideOK.congr {lt : Int → Int → Prop} {L : Nat} {ps : List MPath} {conns conns' : List (Option (Conn α))}
    (h : SideOK lt L ps conns) (hlen : conns'.length = conns.length)
    (hsw : ∀ c kk, conns'.getD c none = some kk → ∃ kk', conns.getD c none = some kk' ∧ kk'.switchLR = kk.switchLR) :
    SideOK lt L ps conns' := by
  refine ⟨?_, ?_, h.disj, ?_⟩
  · intro c kk hc
    obtain ⟨kk', hc', _⟩ := hsw c kk hc
    exact h.has c kk' hc'
  · intro p hp
    obtain ⟨h1, h2, h3⟩ := h.ok p hp
    refine ⟨h1, h2, ?_⟩
    intro c hc kk hkk
    obtain ⟨kk', hc', he⟩ := hsw c kk hkk
    rw [← he]
    exact h3 c hc kk' hc'
  · intro p hp c hc
    rw [hlen]
    exact h.bound p hp c hc

end

end TenpyModel.Ops
