import TenpyModel.C10.P2_MBuildR
/-!
# C10 / Props2: `MultiCouplingTerms.add_to_graph` on a finite chain appends edges described by `MNew`
-/
namespace TenpyModel.Ops

section folds
variable {α : Type} [DecidableEq α] [One α]

/-- hypotheses on one path of `terms_left` (from `GWF`) -/
def LeftPathOK (L : Nat) (mt : MultiCouplingTerms α) (p : MPath) : Prop :=
  (p.path.map (·.1)).Pairwise (· < ·) ∧ (∀ x ∈ p.path, 0 ≤ x.1 ∧ x.1 < (L : Int)) ∧
  ∀ c ∈ p.counters, ∀ k, mt.conns.getD c none = some k → (∀ x ∈ p.path, x.1 < k.switchLR) ∧ k.switchLR ≤ (L : Int)

def RightPathOK (L : Nat) (mt : MultiCouplingTerms α) (p : MPath) : Prop :=
  (p.path.map (·.1)).Pairwise (· > ·) ∧ (∀ x ∈ p.path, 0 ≤ x.1 ∧ x.1 < (L : Int)) ∧
  ∀ c ∈ p.counters, ∀ k, mt.conns.getD c none = some k →
    (∀ x ∈ p.path, k.switchLR < x.1) ∧ 0 ≤ k.switchLR ∧ k.shift = 0

theorem st_leftFold {L : Nat} (mt : MultiCouplingTerms α) :
    ∀ (ps : List MPath) (g : Graph α) (S : Nat → List (Edge Key α)) (acc : List (Nat × Key)), St L g S →
      (∀ p ∈ ps, LeftPathOK L mt p) →
      (ps.foldl (fun (acc : Graph α × List (Nat × Key)) p =>
        ((mt.insertLeft acc.1 p).1, acc.2 ++ (mt.insertLeft acc.1 p).2)) (g, acc)).2 = acc ++ ps.flatMap (keysL mt) ∧
      St L (ps.foldl (fun (acc : Graph α × List (Nat × Key)) p =>
        ((mt.insertLeft acc.1 p).1, acc.2 ++ (mt.insertLeft acc.1 p).2)) (g, acc)).1
        (ensList S (ps.flatMap (edgesL mt))) := by
  intro ps
  induction ps with
  | nil => intro g S acc h _; exact ⟨by simp, h⟩
  | cons p ps ih =>
    intro g S acc h hp
    obtain ⟨h1, h2, h3⟩ := hp p List.mem_cons_self
    obtain ⟨s1, s2⟩ := st_insertLeft mt p g S h h1 h2 h3
    rw [List.foldl_cons]
    obtain ⟨i1, i2⟩ := ih _ _ (acc ++ (mt.insertLeft g p).2) s2 (fun p' hp' => hp p' (List.mem_cons_of_mem _ hp'))
    refine ⟨?_, ?_⟩
    · rw [i1, s1, List.flatMap_cons, List.append_assoc]
    · rw [List.flatMap_cons, ensList_append]; exact i2

theorem st_rightFold {L : Nat} (mt : MultiCouplingTerms α) :
    ∀ (ps : List MPath) (g : Graph α) (S : Nat → List (Edge Key α)) (acc : List (Nat × Key)), St L g S →
      (∀ p ∈ ps, RightPathOK L mt p) →
      (ps.foldl (fun (acc : Graph α × List (Nat × Key)) p =>
        ((mt.insertRight acc.1 p).1, acc.2 ++ (mt.insertRight acc.1 p).2)) (g, acc)).2 = acc ++ ps.flatMap (keysR mt) ∧
      St L (ps.foldl (fun (acc : Graph α × List (Nat × Key)) p =>
        ((mt.insertRight acc.1 p).1, acc.2 ++ (mt.insertRight acc.1 p).2)) (g, acc)).1
        (ensList S (ps.flatMap (edgesR mt))) := by
  intro ps
  induction ps with
  | nil => intro g S acc h _; exact ⟨by simp, h⟩
  | cons p ps ih =>
    intro g S acc h hp
    obtain ⟨h1, h2, h3⟩ := hp p List.mem_cons_self
    obtain ⟨s1, s2⟩ := st_insertRight mt p g S h h1 h2 h3
    rw [List.foldl_cons]
    obtain ⟨i1, i2⟩ := ih _ _ (acc ++ (mt.insertRight g p).2) s2 (fun p' hp' => hp p' (List.mem_cons_of_mem _ hp'))
    refine ⟨?_, ?_⟩
    · rw [i1, s1, List.flatMap_cons, List.append_assoc]
    · rw [List.flatMap_cons, ensList_append]; exact i2

end folds

section lookup
variable {α : Type}

theorem find_filterMap_key (f : Nat → Option (Conn α)) (K : Key) (cs : List Nat) (c : Nat) :
    (cs.filterMap (fun c' => (f c').map (fun _ => (c', K)))).find? (fun x => x.1 = c) =
      if c ∈ cs ∧ (f c).isSome then some (c, K) else none := by
  induction cs with
  | nil => simp
  | cons c' cs ih =>
    rw [List.filterMap_cons]
    cases hf : f c' with
    | none =>
      simp only [Option.map_none]
      rw [ih]
      by_cases hc : c = c'
      · subst hc; simp [hf]
      · simp [hc]
    | some k =>
      simp only [Option.map_some]
      rw [List.find?_cons]
      by_cases hc : c' = c
      · subst hc; simp [hf]
      · have hc' : ¬ c = c' := fun h => hc h.symm
        simp only [hc, decide_false]
        rw [ih]
        simp [hc']

theorem find_map_key (K : Key) (cs : List Nat) (c : Nat) :
    (cs.map (fun c' => (c', K))).find? (fun x => x.1 = c) = if c ∈ cs then some (c, K) else none := by
  induction cs with
  | nil => simp
  | cons c' cs ih =>
    rw [List.map_cons, List.find?_cons]
    by_cases hc : c' = c
    · subst hc; simp
    · have hc' : ¬ c = c' := fun h => hc h.symm
      simp only [hc, decide_false]
      rw [ih]
      simp [hc']

theorem find_keysL (mt : MultiCouplingTerms α) (p : MPath) (c : Nat) (k : Conn α)
    (hk : mt.conns.getD c none = some k) :
    (keysL mt p).find? (fun x => x.1 = c) = if c ∈ p.counters then some (c, lkey p.path) else none := by
  unfold keysL
  cases hp : p.path with
  | nil => simp only; rw [find_map_key]; rfl
  | cons t rest =>
    simp only
    rw [find_filterMap_key (fun c => mt.conns.getD c none)]
    simp only [hk, Option.isSome_some, and_true]

theorem find_keysR (mt : MultiCouplingTerms α) (p : MPath) (c : Nat) (k : Conn α)
    (hk : mt.conns.getD c none = some k) :
    (keysR mt p).find? (fun x => x.1 = c) = if c ∈ p.counters then some (c, rkey p.path) else none := by
  unfold keysR
  cases hp : p.path with
  | nil => simp only; rw [find_map_key]; rfl
  | cons t rest =>
    simp only
    rw [find_filterMap_key (fun c => mt.conns.getD c none)]
    simp only [hk, Option.isSome_some, and_true]

/-- the key found for counter `c` is the key of the first path that contains `c` -/
theorem find_allKeys (keys : MPath → List (Nat × Key)) (kf : List MKey → Key)
    (c : Nat)
    (hkeys : ∀ p, (keys p).find? (fun x => x.1 = c) = if c ∈ p.counters then some (c, kf p.path) else none) :
    ∀ (ps : List MPath), (∃ p ∈ ps, c ∈ p.counters) →
      (ps.flatMap keys).find? (fun x => x.1 = c) = some (c, kf ((MultiCouplingTerms.pathOf ps c).getD [])) := by
  intro ps
  induction ps with
  | nil => intro h; obtain ⟨p, hp, _⟩ := h; simp at hp
  | cons p ps ih =>
    intro h
    rw [List.flatMap_cons, List.find?_append, hkeys]
    unfold MultiCouplingTerms.pathOf
    rw [List.find?_cons]
    by_cases hc : c ∈ p.counters
    · simp [hc]
    · have hc' : p.counters.contains c = false := by simpa using hc
      rw [if_neg hc, hc']
      simp only [Option.none_or]
      have : ∃ p ∈ ps, c ∈ p.counters := by
        obtain ⟨p', hp', hcp'⟩ := h
        rcases List.mem_cons.1 hp' with rfl | hp'
        · exact absurd hcp' hc
        · exact ⟨p', hp', hcp'⟩
      exact ih this

end lookup

section conns
variable {α : Type} [DecidableEq α] [One α]

/-- loop body of the third loop of `add_to_graph` -/
def connStep (kl kr : List (Nat × Key)) (g : Graph α) (x : Option (Conn α) × Nat) : Graph α :=
  match x.1, (kl.find? (·.1 = x.2)), (kr.find? (·.1 = x.2)) with
  | some k, some a, some b => g.add k.switchLR a.2 b.2 k.opSwitch k.strength
  | _, _, _ => g

def connEdgeOf (mt : MultiCouplingTerms α) (k : Nat) (x : Option (Conn α) × Nat) : Option (Edge Key α) :=
  match x.1 with
  | none => none
  | some kk =>
    if kk.switchLR = (k : Int) then
      some ⟨lkey ((MultiCouplingTerms.pathOf mt.left x.2).getD []),
            rkey ((MultiCouplingTerms.pathOf mt.right x.2).getD []), kk.opSwitch, kk.strength⟩
    else none

omit [DecidableEq α] [One α] in
theorem connEdges_eq (mt : MultiCouplingTerms α) (k : Nat) :
    connEdges mt k = (mt.conns.zipIdx).filterMap (connEdgeOf mt k) := by
  unfold connEdges
  apply List.filterMap_congr
  intro x _
  obtain ⟨oc, c⟩ := x
  cases oc <;> rfl

theorem rep_connFold {L : Nat} (mt : MultiCouplingTerms α) (hL : mt.L = L) (hwf : mt.GWF)
    (kl kr : List (Nat × Key))
    (hkl : kl = mt.left.flatMap (keysL mt)) (hkr : kr = mt.right.flatMap (keysR mt)) :
    ∀ (l : List (Option (Conn α) × Nat)), (∀ x ∈ l, mt.conns.getD x.2 none = x.1) →
      ∀ (g : Graph α) (S : Nat → List (Edge Key α)), Rep L g S →
        Rep L (l.foldl (connStep kl kr) g) (fun k => S k ++ l.filterMap (connEdgeOf mt k)) := by
  intro l
  induction l with
  | nil => intro _ g S h; exact h.congr_eq (fun k _ => by simp)
  | cons x l ih =>
    intro hx g S h
    rw [List.foldl_cons]
    have hx0 := hx x List.mem_cons_self
    obtain ⟨oc, c⟩ := x
    cases oc with
    | none =>
      have : connStep kl kr g (none, c) = g := rfl
      rw [this]
      refine (ih (fun y hy => hx y (List.mem_cons_of_mem _ hy)) g S h).congr_eq ?_
      intro k _
      rw [List.filterMap_cons]
      rfl
    | some kk =>
      simp only at hx0
      obtain ⟨hs0, hsL, _⟩ := hwf.connOK c kk hx0
      rw [hL] at hsL
      have hfl : kl.find? (·.1 = c) = some (c, lkey ((MultiCouplingTerms.pathOf mt.left c).getD [])) := by
        rw [hkl]
        exact find_allKeys (keysL mt) lkey c (fun p => find_keysL mt p c kk hx0) mt.left (hwf.hasL c kk hx0)
      have hfr : kr.find? (·.1 = c) = some (c, rkey ((MultiCouplingTerms.pathOf mt.right c).getD [])) := by
        rw [hkr]
        exact find_allKeys (keysR mt) rkey c (fun p => find_keysR mt p c kk hx0) mt.right (hwf.hasR c kk hx0)
      have hstep : connStep kl kr g (some kk, c) =
          g.add kk.switchLR (lkey ((MultiCouplingTerms.pathOf mt.left c).getD []))
            (rkey ((MultiCouplingTerms.pathOf mt.right c).getD [])) kk.opSwitch kk.strength := by
        unfold connStep
        simp only [hfl, hfr]
      rw [hstep]
      have ha := h.add kk.switchLR hs0 hsL (lkey ((MultiCouplingTerms.pathOf mt.left c).getD []))
        (rkey ((MultiCouplingTerms.pathOf mt.right c).getD [])) kk.opSwitch kk.strength false (Or.inl rfl)
      refine (ih (fun y hy => hx y (List.mem_cons_of_mem _ hy)) _ _ ha).congr_eq ?_
      intro k _
      rw [List.filterMap_cons]
      unfold upd
      by_cases hk : kk.switchLR = (k : Int)
      · have hk' : k = kk.switchLR.toNat := by omega
        have he : connEdgeOf mt k (some kk, c) = some ⟨lkey ((MultiCouplingTerms.pathOf mt.left c).getD []),
            rkey ((MultiCouplingTerms.pathOf mt.right c).getD []), kk.opSwitch, kk.strength⟩ := by
          unfold connEdgeOf
          simp only [if_pos hk]
        rw [he]
        simp only [if_pos hk', List.append_assoc, List.singleton_append]
      · have hk' : ¬ k = kk.switchLR.toNat := by omega
        have he : connEdgeOf mt k (some kk, c) = none := by
          unfold connEdgeOf
          simp only [if_neg hk]
        rw [he]
        simp only [if_neg hk']

end conns

end TenpyModel.Ops
