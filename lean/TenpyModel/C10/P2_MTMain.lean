import TenpyModel.C10.P2_MT11
/-!
# C10 / Props2: the container level of `MultiCouplingTerms` — deliverables

* `multi_build`: after any sequence of valid `add_multi_coupling_term` calls on a finite chain the container is
  well formed (`GWF`) and the sum over its live connections is the sum of the added terms.
* `multi_termlist` (target `C10_terms_termlist_multi`): if moreover no call triggers the `op_switch != op_str`
  heuristic of `to_TermList` wrongly (`SwitchOpOK`, defined in `P2_MT10`), the term list denotes the sum of the
  added terms; `multi_termlist_counterexample` shows that the hypothesis cannot be dropped.
-/
namespace TenpyModel.Ops

open TenpyModel.Ops TenpyModel.Ops.MultiCouplingTerms

theorem multi_build {α : Type} [AddCommMonoid α] (L : Nat)
    (calls : List (α × List Int × List String × List String × Switch))
    (h : ∀ c ∈ calls, MultiCallOK L c.2.1 c.2.2.1 c.2.2.2.1 c.2.2.2.2) :
    (calls.foldl (fun mt c => mt.add c.1 c.2.1 c.2.2.1 c.2.2.2.1 c.2.2.2.2) (MultiCouplingTerms.empty L)).L = L ∧
    (calls.foldl (fun mt c => mt.add c.1 c.2.1 c.2.2.1 c.2.2.2.1 c.2.2.2.2) (MultiCouplingTerms.empty L)).GWF ∧
    Sym.Equiv (calls.foldl (fun mt c => mt.add c.1 c.2.1 c.2.2.1 c.2.2.2.1 c.2.2.2.2) (MultiCouplingTerms.empty L)).connDenote
      (calls.map (fun c => (multiStr L c.2.1 c.2.2.1 c.2.2.2.1, c.1))) := by
  obtain ⟨h1, h2, h3⟩ := addCalls_inv L calls (MultiCouplingTerms.empty L) h rfl (MInv.empty L)
  exact ⟨h1, h2.gwf, h3⟩

theorem multi_termlist {α : Type} [AddCommMonoid α] (L : Nat)
    (calls : List (α × List Int × List String × List String × Switch))
    (h : ∀ c ∈ calls, MultiCallOK L c.2.1 c.2.2.1 c.2.2.2.1 c.2.2.2.2)
    (hsw : ∀ c ∈ calls, SwitchOpOK c.2.1 c.2.2.1 c.2.2.2.1 c.2.2.2.2) :
    Sym.Equiv (STermList.denote L
        (calls.foldl (fun mt c => mt.add c.1 c.2.1 c.2.2.1 c.2.2.2.1 c.2.2.2.2) (MultiCouplingTerms.empty L)).toTermListS)
      (calls.map (fun c => (multiStr L c.2.1 c.2.2.1 c.2.2.2.1, c.1))) := by
  obtain ⟨h1, h2, h3⟩ := addCalls_inv L calls (MultiCouplingTerms.empty L) h rfl (MInv.empty L)
  have h4 := addCalls_swInv L calls (MultiCouplingTerms.empty L) h hsw rfl (MInv.empty L) (SwInv.empty L)
  have h5 := termlist_denote _ h2 h4
  rw [h1] at h5
  show Sym.Equiv (STermList.denote L (addCalls (MultiCouplingTerms.empty L) calls).toTermListS) _
  rw [h5]
  exact h3

/-- the term list is exactly the list of connections (no `Sym.Equiv` needed) under the same hypotheses -/
theorem multi_termlist_connDenote {α : Type} [AddCommMonoid α] (L : Nat)
    (calls : List (α × List Int × List String × List String × Switch))
    (h : ∀ c ∈ calls, MultiCallOK L c.2.1 c.2.2.1 c.2.2.2.1 c.2.2.2.2)
    (hsw : ∀ c ∈ calls, SwitchOpOK c.2.1 c.2.2.1 c.2.2.2.1 c.2.2.2.2) :
    STermList.denote L
        (calls.foldl (fun mt c => mt.add c.1 c.2.1 c.2.2.1 c.2.2.2.1 c.2.2.2.2) (MultiCouplingTerms.empty L)).toTermListS =
      (calls.foldl (fun mt c => mt.add c.1 c.2.1 c.2.2.1 c.2.2.2.1 c.2.2.2.2) (MultiCouplingTerms.empty L)).connDenote := by
  obtain ⟨h1, h2, _⟩ := addCalls_inv L calls (MultiCouplingTerms.empty L) h rfl (MInv.empty L)
  have h4 := addCalls_swInv L calls (MultiCouplingTerms.empty L) h hsw rfl (MInv.empty L) (SwInv.empty L)
  have h5 := termlist_denote _ h2 h4
  rw [h1] at h5
  exact h5

/-- the call `add_multi_coupling_term(1, [0,1,3], ["A","N","B"], ["N","s"], switchLR=1)` on 5 sites -/
def badCalls : List (Int × List Int × List String × List String × Switch) :=
  [(1, [0,1,3], ["A","N","B"], ["N","s"], .at 1)]

/-- **`SwitchOpOK` is needed**: a valid call whose operator on the switch site has the name of the operator
string to its left.  `to_TermList` drops the operator on site 1, and the string `"N"` (instead of `"s"`) runs
up to site 3: the term list denotes `A₀ N₁ N₂ B₃` although `A₀ N₁ s₂ B₃` was added. -/
theorem multi_termlist_counterexample :
    (∀ c ∈ badCalls, MultiCallOK 5 c.2.1 c.2.2.1 c.2.2.2.1 c.2.2.2.2) ∧
    ¬ (∀ c ∈ badCalls, SwitchOpOK c.2.1 c.2.2.1 c.2.2.2.1 c.2.2.2.2) ∧
    canon 0 (STermList.denote 5
        (badCalls.foldl (fun mt c => mt.add c.1 c.2.1 c.2.2.1 c.2.2.2.1 c.2.2.2.2) (MultiCouplingTerms.empty 5)).toTermListS)
      = [([(0, "A"), (1, "N"), (2, "N"), (3, "B")], 1)] ∧
    canon 0 (badCalls.map (fun c => (multiStr 5 c.2.1 c.2.2.1 c.2.2.2.1, c.1)))
      = [([(0, "A"), (1, "N"), (2, "s"), (3, "B")], 1)] := by
  refine ⟨?_, by decide, by decide +kernel, by decide +kernel⟩
  intro c hc
  simp only [badCalls, List.mem_singleton] at hc
  subst hc
  refine ⟨by decide, by decide, by decide, by decide, by decide, by decide, by decide, by decide⟩

/-! ## non-vacuity -/

/-- shared prefixes, all kinds of switch positions, two merged pairs -/
def mtCalls : List (Int × List Int × List String × List String × Switch) :=
  [ (2, [0,2,4], ["A","B","C"], ["s","t"], .middleI),
    (3, [0,2,5], ["A","B","D"], ["s","t"], .middleI),
    (5, [0,3], ["A","E"], ["s"], .at 0),
    (7, [0,3], ["A","E"], ["s"], .at 2),
    (1, [1,2,3,5], ["P","Q","R","S"], ["u","v","w"], .middleOp),
    (4, [1,2,3,5], ["P","Q","R","S"], ["u","v","w"], .middleOp),
    (6, [1,2,3,5], ["P","Q","R","S"], ["u","v","w"], .at 5),
    (9, [0,2,4], ["A","B","C"], ["s","t"], .at 3),
    (8, [0,2,4], ["A","B","C"], ["s","t"], .middleI) ]

def mtEx : MultiCouplingTerms Int :=
  mtCalls.foldl (fun mt c => mt.add c.1 c.2.1 c.2.2.1 c.2.2.2.1 c.2.2.2.2) (MultiCouplingTerms.empty 6)

example : MultiCallOK 6 [1,2,3,5] ["P","Q","R","S"] ["u","v","w"] .middleOp := by
  refine ⟨by decide, by decide, by decide, by decide, by decide, by decide, by decide, by decide⟩

example : ∀ c ∈ mtCalls, MultiCallOK 6 c.2.1 c.2.2.1 c.2.2.2.1 c.2.2.2.2 := by
  intro c hc
  simp only [mtCalls, List.mem_cons, List.not_mem_nil, or_false] at hc
  rcases hc with rfl | rfl | rfl | rfl | rfl | rfl | rfl | rfl | rfl <;>
    refine ⟨by decide, by decide, by decide, by decide, by decide, by decide, by decide, by decide⟩

/-- 9 calls, two of them merged into earlier connections: 7 live connections + the `None` entry -/
example : mtEx.conns.length = 8 := by decide +kernel

example : canon 0 mtEx.connDenote = canon 0 (mtCalls.map (fun c => (multiStr 6 c.2.1 c.2.2.1 c.2.2.2.1, c.1))) := by
  decide +kernel

example : ∀ c ∈ mtCalls, SwitchOpOK c.2.1 c.2.2.1 c.2.2.2.1 c.2.2.2.2 := by decide

/-- call 4 (`switchLR = 2` between the sites 0 and 3) and call 8 (`switchLR = 3` between 2 and 4) have a switch
site that carries only the string: the term list has 2 resp. 3 operators there -/
example : mtEx.toTermListS.map (fun p => p.1.length) = [3, 3, 2, 2, 4, 4, 3] := by decide +kernel

example : canon 0 (STermList.denote 6 mtEx.toTermListS) =
    canon 0 (mtCalls.map (fun c => (multiStr 6 c.2.1 c.2.2.1 c.2.2.2.1, c.1))) := by
  decide +kernel

end TenpyModel.Ops
