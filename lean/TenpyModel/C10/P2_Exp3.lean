import TenpyModel.C10.P2_Exp2
/-!
# C10 / Props2: exponentially decaying terms, part 3: path sums are additive over components with
pairwise different private labels

A component `c` owns one inner key `c.lab`; all its edges go `IdL/lab → lab/IdR`.  For the automaton whose
layer `k` is `cs.flatMap (·.E k) ++ idLoops`, the path sum `IdL → IdR` is the sum over the components of the
path sums of the one-component automata `c.E k ++ idLoops`.
-/
namespace TenpyModel.Ops

section
variable {α : Type}

/-- layers `k … k+n-1` -/
def layersFrom (N : Nat → List (Edge Key α)) (k n : Nat) : List (List (Edge Key α)) :=
  (List.range' k n).map N

theorem layersFrom_zero (N : Nat → List (Edge Key α)) (k : Nat) : layersFrom N k 0 = [] := rfl

theorem layersFrom_succ (N : Nat → List (Edge Key α)) (k n : Nat) :
    layersFrom N k (n + 1) = N k :: layersFrom N (k + 1) n := by
  unfold layersFrom
  rw [List.range'_succ, List.map_cons]

theorem layersOf_eq_layersFrom (L : Nat) (N : Nat → List (Edge Key α)) : layersOf L N = layersFrom N 0 L := by
  unfold layersOf layersFrom
  rw [List.range_eq_range']

structure Comp (α : Type) where
  lab : Key
  E : Nat → List (Edge Key α)

structure Comp.OK (c : Comp α) : Prop where
  neL : c.lab ≠ Key.IdL
  neR : c.lab ≠ Key.IdR
  keys : ∀ k, ∀ e ∈ c.E k, (e.kL = Key.IdL ∨ e.kL = c.lab) ∧ (e.kR = Key.IdR ∨ e.kR = c.lab)

end

section
variable {α : Type} [Semiring α]

/-- the summand of `pathsFrom` belonging to one edge -/
def edgeTerm (P : Key → Sym α) (key : Key) (e : Edge Key α) : Sym α :=
  if e.kL = key then Sym.consOp e.op e.c (P e.kR) else []

theorem pathsFrom_cons' (layer : List (Edge Key α)) (rest : List (List (Edge Key α))) (key : Key) :
    pathsFrom Key.IdR (layer :: rest) key = layer.flatMap (edgeTerm (pathsFrom Key.IdR rest) key) := rfl

theorem edgeTerm_congr (P Q : Key → Sym α) (key : Key) (e : Edge Key α) (h : Sym.Equiv (P e.kR) (Q e.kR)) :
    Sym.Equiv (edgeTerm P key e) (edgeTerm Q key e) := by
  unfold edgeTerm
  split
  · exact Sym.Equiv.consOp _ _ h
  · exact Sym.Equiv.refl _

theorem idLoops_IdR (P : Key → Sym α) :
    (idLoops (α := α)).flatMap (edgeTerm P Key.IdR) = Sym.consOp "Id" 1 (P Key.IdR) := by
  simp [idLoops, edgeTerm, IdL_ne_IdR]

theorem idLoops_IdL (P : Key → Sym α) :
    (idLoops (α := α)).flatMap (edgeTerm P Key.IdL) = Sym.consOp "Id" 1 (P Key.IdL) := by
  simp [idLoops, edgeTerm, IdL_ne_IdR.symm]

theorem idLoops_other (P : Key → Sym α) (key : Key) (h1 : key ≠ Key.IdL) (h2 : key ≠ Key.IdR) :
    (idLoops (α := α)).flatMap (edgeTerm P key) = [] := by
  simp [idLoops, edgeTerm, h1.symm, h2.symm]

/-- from `IdR` only the identity loop continues -/
theorem paths_IdR (N : Nat → List (Edge Key α)) (hN : ∀ k, ∀ e ∈ N k, e.kL ≠ Key.IdR) :
    ∀ n k, Sym.Equiv (pathsFrom Key.IdR (layersFrom (fun k => N k ++ idLoops) k n) Key.IdR) [(idStr n, 1)] := by
  intro n
  induction n with
  | zero =>
    intro k
    rw [layersFrom_zero, pathsFrom_nil, if_pos rfl]
    exact Sym.Equiv.refl _
  | succ n ih =>
    intro k
    rw [layersFrom_succ, pathsFrom_cons', List.flatMap_append, idLoops_IdR]
    have : (N k).flatMap (edgeTerm (pathsFrom Key.IdR (layersFrom (fun k => N k ++ idLoops) (k + 1) n)) Key.IdR) = [] := by
      rw [List.flatMap_eq_nil_iff]
      intro e he
      unfold edgeTerm
      rw [if_neg (hN k e he)]
    rw [this, List.nil_append]
    refine (Sym.Equiv.consOp "Id" 1 (ih (k + 1))).trans ?_
    rw [consOp_singleton, one_mul, idStr_succ]
    exact Sym.Equiv.refl _

/-- the layer function of the union of the components -/
def compsLayer (cs : List (Comp α)) (k : Nat) : List (Edge Key α) := cs.flatMap (fun c => c.E k) ++ idLoops

def Comp.layer (c : Comp α) (k : Nat) : List (Edge Key α) := c.E k ++ idLoops

omit [Semiring α] in
theorem comps_kL_ne_IdR (cs : List (Comp α)) (hok : ∀ c ∈ cs, c.OK) (k : Nat) :
    ∀ e ∈ cs.flatMap (fun c => c.E k), e.kL ≠ Key.IdR := by
  intro e he
  obtain ⟨c, hc, hec⟩ := List.mem_flatMap.1 he
  rcases ((hok c hc).keys k e hec).1 with h | h
  · rw [h]; exact IdL_ne_IdR
  · rw [h]; exact (hok c hc).neR

omit [Semiring α] in
theorem comp_kL_ne_IdR (c : Comp α) (hok : c.OK) (k : Nat) : ∀ e ∈ c.E k, e.kL ≠ Key.IdR := by
  intro e he
  rcases (hok.keys k e he).1 with h | h
  · rw [h]; exact IdL_ne_IdR
  · rw [h]; exact hok.neR

/-- among components with pairwise distinct labels only `c` itself has edges leaving `c.lab` -/
theorem flatMap_single_comp (l : List (Comp α)) (c : Comp α) (f : Comp α → Sym α)
    (hc : c ∈ l) (hpw : l.Pairwise (fun x y => x.lab ≠ y.lab))
    (hf : ∀ x ∈ l, x.lab ≠ c.lab → f x = []) : Sym.Equiv (l.flatMap f) (f c) := by
  induction l with
  | nil => simp at hc
  | cons x l ih =>
    rw [List.pairwise_cons] at hpw
    intro t
    rw [List.flatMap_cons, coeff_append]
    rcases List.mem_cons.1 hc with e | hc'
    · subst e
      have : l.flatMap f = [] := by
        rw [List.flatMap_eq_nil_iff]
        intro y hy
        exact hf y (List.mem_cons_of_mem _ hy) (fun e => hpw.1 y hy e.symm)
      rw [this, coeff_nil, add_zero]
    · have hx : x.lab ≠ c.lab := hpw.1 c hc'
      rw [hf x List.mem_cons_self hx, coeff_nil, zero_add]
      exact ih hc' hpw.2 (fun y hy => hf y (List.mem_cons_of_mem _ hy)) t

theorem paths_additive (cs : List (Comp α)) (hok : ∀ c ∈ cs, c.OK)
    (hpw : cs.Pairwise (fun x y => x.lab ≠ y.lab)) :
    ∀ n k,
      (∀ c ∈ cs, Sym.Equiv (pathsFrom Key.IdR (layersFrom (compsLayer cs) k n) c.lab)
        (pathsFrom Key.IdR (layersFrom c.layer k n) c.lab)) ∧
      Sym.Equiv (pathsFrom Key.IdR (layersFrom (compsLayer cs) k n) Key.IdL)
        (cs.flatMap (fun c => pathsFrom Key.IdR (layersFrom c.layer k n) Key.IdL)) := by
  intro n
  induction n with
  | zero =>
    intro k
    refine ⟨fun c _ => ?_, ?_⟩
    · rw [layersFrom_zero, layersFrom_zero]; exact Sym.Equiv.refl _
    · simp only [layersFrom_zero, pathsFrom_nil, if_neg IdL_ne_IdR]
      have : cs.flatMap (fun _ => ([] : Sym α)) = [] := List.flatMap_eq_nil_iff.2 (fun _ _ => rfl)
      rw [this]
      exact Sym.Equiv.refl _
  | succ n ih =>
    intro k
    obtain ⟨ihLab, ihL⟩ := ih (k + 1)
    have ihR : ∀ c ∈ cs, Sym.Equiv (pathsFrom Key.IdR (layersFrom (compsLayer cs) (k + 1) n) Key.IdR)
        (pathsFrom Key.IdR (layersFrom c.layer (k + 1) n) Key.IdR) := by
      intro c hc
      exact (paths_IdR (fun k => cs.flatMap (fun c => c.E k)) (comps_kL_ne_IdR cs hok) n (k + 1)).trans
        (paths_IdR c.E (comp_kL_ne_IdR c (hok c hc)) n (k + 1)).symm
    -- the edges of one component see the same continuations in both automata
    have hedge : ∀ c ∈ cs, ∀ key, Sym.Equiv
        ((c.E k).flatMap (edgeTerm (pathsFrom Key.IdR (layersFrom (compsLayer cs) (k + 1) n)) key))
        ((c.E k).flatMap (edgeTerm (pathsFrom Key.IdR (layersFrom c.layer (k + 1) n)) key)) := by
      intro c hc key
      apply Sym.Equiv.flatMap_congr
      intro e he
      apply edgeTerm_congr
      rcases ((hok c hc).keys k e he).2 with h | h
      · rw [h]; exact ihR c hc
      · rw [h]; exact ihLab c hc
    refine ⟨?_, ?_⟩
    · intro c hc
      have hcL := (hok c hc).neL
      have hcR := (hok c hc).neR
      rw [layersFrom_succ, layersFrom_succ, pathsFrom_cons', pathsFrom_cons']
      unfold compsLayer Comp.layer
      rw [List.flatMap_append, List.flatMap_append, idLoops_other _ _ hcL hcR, idLoops_other _ _ hcL hcR,
        List.append_nil, List.append_nil, List.flatMap_assoc]
      refine Sym.Equiv.trans (flatMap_single_comp cs c _ hc hpw ?_) (hedge c hc c.lab)
      intro x hx hne
      rw [List.flatMap_eq_nil_iff]
      intro e he
      unfold edgeTerm
      rw [if_neg]
      rcases ((hok x hx).keys k e he).1 with h | h
      · rw [h]; exact hcL.symm
      · rw [h]; exact hne
    · rw [layersFrom_succ, pathsFrom_cons']
      show Sym.Equiv ((cs.flatMap (fun (c : Comp α) => c.E k) ++ idLoops).flatMap _) _
      rw [List.flatMap_append, idLoops_IdL, List.flatMap_assoc]
      have hR : Sym.Equiv (cs.flatMap (fun c => pathsFrom Key.IdR (layersFrom c.layer k (n + 1)) Key.IdL))
          (cs.flatMap (fun c => (c.E k).flatMap (edgeTerm (pathsFrom Key.IdR (layersFrom c.layer (k + 1) n)) Key.IdL)) ++
           cs.flatMap (fun c => Sym.consOp "Id" 1 (pathsFrom Key.IdR (layersFrom c.layer (k + 1) n) Key.IdL))) := by
        refine Sym.Equiv.trans ?_ (Sym.Equiv.flatMap_append cs _ _)
        apply Sym.Equiv.flatMap_congr
        intro c _
        rw [layersFrom_succ, pathsFrom_cons']
        show Sym.Equiv ((c.E k ++ idLoops).flatMap _) _
        rw [List.flatMap_append, idLoops_IdL]
        exact Sym.Equiv.refl _
      refine Sym.Equiv.trans ?_ hR.symm
      apply Sym.Equiv.append
      · apply Sym.Equiv.flatMap_congr
        intro c hc
        exact hedge c hc Key.IdL
      · rw [← consOp_flatMap]
        exact Sym.Equiv.consOp _ _ ihL

end

end TenpyModel.Ops
