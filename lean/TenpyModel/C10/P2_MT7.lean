import TenpyModel.C10.P2_MT6
/-!
# C10 / Props2 (`MultiCouplingTerms.to_TermList`), part 1: the string of the annotated term of one connection
-/
namespace TenpyModel.Ops

open MultiCouplingTerms

/-! ## `sortSOps` and `stermStr` -/

theorem sortSOps_sorted : ∀ (l : List SOp), (l.map (·.site)).Pairwise (· < ·) → sortSOps l = l := by
  intro l
  induction l with
  | nil => intro _; rfl
  | cons o l ih =>
    intro h
    rw [List.map_cons, List.pairwise_cons] at h
    rw [sortSOps, ih h.2]
    cases l with
    | nil => rfl
    | cons q qs =>
      have : o.site < q.site := h.1 q.site (by simp)
      simp [sortSOps.ins, this]

theorem stermStr_cons (L pos : Nat) (o : SOp) (rest : List SOp) :
    stermStr L pos (o :: rest) = idStr (o.site.toNat - pos) ++ stermStr.stermStrTail L o rest := by
  cases rest with
  | nil => rfl
  | cons o' rest => rfl

/-- sites `o.site+1 … k-1` after the operator `o`, further operators `rest` (the string of the last one
continues up to `k-1`) -/
def sChain : SOp → List SOp → Nat → OpStr
  | o, [], k => List.replicate (k - o.site.toNat - 1) o.str
  | o, o' :: rest, k => List.replicate (o'.site.toNat - o.site.toNat - 1) o.str ++ o'.op :: sChain o' rest k

theorem stermStrTail_append (L : Nat) : ∀ (A : List SOp) (o b : SOp) (B : List SOp),
    stermStr.stermStrTail L o (A ++ b :: B) =
      o.op :: (sChain o A b.site.toNat ++ stermStr.stermStrTail L b B) := by
  intro A
  induction A with
  | nil => intro o b B; rfl
  | cons a A ih =>
    intro o b B
    simp only [List.cons_append, stermStr.stermStrTail, sChain, ih, List.append_assoc, List.cons_append]

def sopL (t : MKey) : SOp := ⟨t.2.1, t.1, t.2.2⟩

theorem sChain_left : ∀ (rest : List MKey) (t : MKey) (k : Nat),
    sChain (sopL t) (rest.map sopL) k = leftTail t rest k := by
  intro rest
  induction rest with
  | nil => intro t k; rfl
  | cons u rest ih => intro t k; simp only [List.map_cons, sChain, leftTail, ih]; rfl

/-- the string of the last operator of `o :: A` -/
def lastStrS : SOp → List SOp → String
  | o, [] => o.str
  | _, o' :: rest => lastStrS o' rest

/-- the last string continues: reading up to `k' ≥ k` instead of `k` -/
theorem sChain_extend : ∀ (A : List SOp) (o : SOp) (k k' : Nat),
    (∀ a ∈ o :: A, a.site.toNat + 1 ≤ k) → k ≤ k' →
    sChain o A k' = sChain o A k ++ List.replicate (k' - k) (lastStrS o A) := by
  intro A
  induction A with
  | nil =>
    intro o k k' h hk
    have := h o List.mem_cons_self
    simp only [sChain, lastStrS, ← List.replicate_add]
    congr 1
    omega
  | cons a A ih =>
    intro o k k' h hk
    simp only [sChain, lastStrS, List.append_assoc, List.cons_append]
    rw [ih a k k' (fun x hx => h x (List.mem_cons_of_mem _ hx)) hk]

/-! ## the right operators -/

/-- `rightOps` of `to_TermList` for the ascending right path `tR` -/
def rightOpsOf (shift : Int) (tR : List MKey) : List SOp :=
  ((tR.map (fun t => (t.1 + shift, t.2.1))).zip ((tR.drop 1).map (fun t => t.2.2) ++ [""])).map
    (fun (p, st) => ⟨p.2, p.1, st⟩)

def headStr (tR : List MKey) (d : String) : String :=
  match tR.head? with | some t => t.2.2 | none => d

theorem rightOpsOf_cons (shift : Int) (r : MKey) (tR : List MKey) :
    rightOpsOf shift (r :: tR) = ⟨r.2.1, r.1 + shift, headStr tR ""⟩ :: rightOpsOf shift tR := by
  cases tR with
  | nil => rfl
  | cons r' tR => rfl

theorem stermStrTail_right (L : Nat) : ∀ (tR : List MKey) (b : SOp), b.str = headStr tR b.str →
    stermStr.stermStrTail L b (rightOpsOf 0 tR) = b.op :: rightFrom L (b.site.toNat + 1) tR := by
  intro tR
  induction tR with
  | nil => intro b _; simp [rightOpsOf, stermStr.stermStrTail, rightFrom, Nat.sub_sub]
  | cons r tR ih =>
    intro b hb
    have hb' : b.str = r.2.2 := hb
    rw [rightOpsOf_cons]
    simp only [stermStr.stermStrTail, rightFrom, Int.add_zero, hb']
    rw [ih _ (by cases tR <;> rfl)]
    simp [Nat.sub_sub]

theorem rightOpsOf_sites : ∀ (tR : List MKey), (rightOpsOf 0 tR).map (·.site) = tR.map (·.1) := by
  intro tR
  induction tR with
  | nil => rfl
  | cons r tR ih => rw [rightOpsOf_cons, List.map_cons, ih]; simp

/-! ## the term of one connection -/

/-- string of the last entry of a left path (`""` at the root) -/
def lastStrOf (tL : List MKey) : String :=
  match tL.getLast? with | some t => t.2.2 | none => ""

theorem lastStrS_left : ∀ (rest : List MKey) (t : MKey),
    lastStrS (sopL t) (rest.map sopL) = lastStrOf (t :: rest) := by
  intro rest
  induction rest with
  | nil => intro t; rfl
  | cons u rest ih =>
    intro t
    rw [List.map_cons, lastStrS, ih u]
    unfold lastStrOf
    rw [List.getLast?_cons_cons]

section
variable {α : Type}

/-- the operators of the term emitted by `to_TermList` for the connection `k` with left path `tL` and stored
(descending) right path `tRs` -/
def connSOps (tL tRs : List MKey) (k : Conn α) : List SOp :=
  tL.map sopL ++
    (if k.opSwitch ≠ lastStrOf tL then [⟨k.opSwitch, k.switchLR, headStr tRs.reverse (lastStrOf tL)⟩] else []) ++
    rightOpsOf k.shift tRs.reverse

theorem multi_toTermListS_eq (mt : MultiCouplingTerms α) :
    mt.toTermListS = (mt.conns.zipIdx).filterMap (fun p =>
      match p.1 with
      | none => none
      | some k => some (connSOps ((pathOf mt.left p.2).getD []) ((pathOf mt.right p.2).getD []) k, k.strength)) :=
  rfl

/-- the switch condition of a connection: if `op_switch` equals the last left string (so that `to_TermList`
leaves the switch site out), then that string really passes over the switch site: there is a left operator,
a right operator, and the string left of the first right operator is the same (or occupies no site) -/
def SwCond (tL tRs : List MKey) (k : Conn α) : Prop :=
  k.opSwitch = lastStrOf tL →
    tL ≠ [] ∧ ∃ r, tRs.getLast? = some r ∧ (r.2.2 = lastStrOf tL ∨ r.1 = k.switchLR + 1)

theorem connSOps_sorted (tL tRs : List MKey) (k : Conn α)
    (hLasc : (tL.map (·.1)).Pairwise (· < ·)) (hLb : ∀ t ∈ tL, t.1 < k.switchLR)
    (hRdesc : (tRs.map (·.1)).Pairwise (· > ·)) (hRb : ∀ t ∈ tRs, k.switchLR < t.1) (hsh : k.shift = 0) :
    ((connSOps tL tRs k).map (·.site)).Pairwise (· < ·) := by
  unfold connSOps
  rw [hsh, List.map_append, List.map_append, rightOpsOf_sites, List.map_map, List.map_reverse]
  have hR : (tRs.map (·.1)).reverse.Pairwise (· < ·) := by
    rw [List.pairwise_reverse]
    exact hRdesc
  have hLs : ((fun (x : SOp) => x.site) ∘ sopL) = (fun t : MKey => t.1) := rfl
  rw [hLs, List.pairwise_append, List.pairwise_append]
  refine ⟨⟨hLasc, ?_, ?_⟩, hR, ?_⟩
  · split <;> simp
  · intro a ha b hb
    obtain ⟨t, ht, rfl⟩ := List.mem_map.1 ha
    split at hb
    · simp only [List.map_cons, List.map_nil, List.mem_singleton] at hb
      subst hb
      exact hLb t ht
    · cases hb
  · intro a ha b hb
    obtain ⟨r, hr, rfl⟩ := List.mem_map.1 (List.mem_reverse.1 hb)
    have hrb := hRb r hr
    rcases List.mem_append.1 ha with ha | ha
    · obtain ⟨t, ht, rfl⟩ := List.mem_map.1 ha
      have := hLb t ht
      omega
    · split at ha
      · simp only [List.map_cons, List.map_nil, List.mem_singleton] at ha
        subst ha
        exact hrb
      · cases ha

end

end TenpyModel.Ops
