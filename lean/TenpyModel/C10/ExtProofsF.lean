import Mathlib.Algebra.Group.Basic
import Mathlib.Tactic.Abel
import TenpyModel.C10.ExtProofsB
/-!
# C10 extension, proofs part F: the charges of the virtual legs computed by `_calc_legcharges`

If the graph admits a consistent charge assignment `c` at all (charge rule on every edge, `IdL` of the first bond
neutral), every charge the algorithm assigns — in `travel_q_LR`, in the infinite wrap-around, in the sweeps of
`travel_q_RL` — is the one of `c`.  Charges are compared in an abelian group `Q'` through a map `π` that respects
`+`, `-`, `0` and `make_valid` (for `Z_N` charges: reduction modulo `N`).
-/
namespace TenpyModel.C10Ext
open TenpyModel.Ops
set_option linter.unusedSectionVars false

variable {α Q Q' : Type} [Add Q] [Sub Q] [Zero Q] [AddCommGroup Q']

structure ChargeHom (π : Q → Q') (cd : ChargeData Q) : Prop where
  add : ∀ a b, π (a + b) = π a + π b
  sub : ∀ a b, π (a - b) = π a - π b
  zero : π 0 = 0
  valid : ∀ a, π (cd.valid a) = π a

/-- a consistent assignment of charges to the states of all bonds -/
structure Consistent (π : Q → Q') (L : Nat) (infinite : Bool) (layers : List (List (Edge Key α)))
    (ost : List (List Key)) (cd : ChargeData Q) (c : Nat → Key → Q') : Prop where
  start : c 0 Key.IdL = 0
  edge : ∀ i, ∀ e ∈ layers.getD i [], c (i + 1) e.kR = c i e.kL - π (cd.wq i) + π (cd.qop i e.op)
  wrap : infinite = true → (∀ k, c L k = c 0 k) ∧ ost.getD 0 [] = ost.getD L []

/-- every charge known so far is the one of `c` -/
def Agree (π : Q → Q') (ost : List (List Key)) (c : Nat → Key → Q') (ch : Charges Q) : Prop :=
  ∀ b idx q key, getCh ch b idx = some q → (ost.getD b [])[idx]? = some key → π q = c b key

theorem getCh_setCh {ch : Charges Q} {b idx b' idx' : Nat} {q q' : Q}
    (h : getCh (setCh ch b idx q) b' idx' = some q') :
    (b' = b ∧ idx' = idx ∧ q' = q) ∨ getCh ch b' idx' = some q' := by
  unfold getCh setCh at *
  simp only [List.getD_eq_getElem?_getD, List.getElem?_modify] at h ⊢
  cases hcb : ch[b']? with
  | none => simp [hcb] at h
  | some l =>
    rw [hcb] at h
    simp only [Option.map_eq_map, Option.map_some, Option.getD_some] at h ⊢
    by_cases hb : b = b'
    · simp only [hb, if_true, List.getElem?_set] at h
      by_cases hi : idx = idx'
      · subst hi
        by_cases hlt : idx < l.length
        · simp only [hlt, if_true, Option.getD_some] at h
          left; exact ⟨hb.symm, rfl, (Option.some.inj h).symm⟩
        · have : l[idx]? = none := by simpa using hlt
          simp [hlt, this] at h
      · simp only [hi, if_false] at h
        right
        exact h
    · simp only [hb, if_false] at h
      right
      exact h

theorem Agree.set {π : Q → Q'} {ost : List (List Key)} {c : Nat → Key → Q'} {ch : Charges Q}
    (h : Agree π ost c ch) (b idx : Nat) (q : Q)
    (hq : ∀ key, (ost.getD b [])[idx]? = some key → π q = c b key) : Agree π ost c (setCh ch b idx q) := by
  intro b' idx' q' key hget hkey
  rcases getCh_setCh hget with ⟨rfl, rfl, rfl⟩ | hold
  · exact hq key hkey
  · exact h b' idx' q' key hold hkey

theorem mem_outDict (layer : List (Edge Key α)) (kL : Key) (p : Key × String) (h : p ∈ outDict layer kL) :
    ∃ e ∈ layer, e.kL = kL ∧ e.kR = p.1 ∧ e.op = p.2 := by
  unfold outDict at h
  have : ∀ (es : List (Edge Key α)) (acc : List (Key × String)),
      (∀ e ∈ es, e ∈ layer ∧ e.kL = kL) →
      (∀ p ∈ acc, ∃ e ∈ layer, e.kL = kL ∧ e.kR = p.1 ∧ e.op = p.2) →
      ∀ p ∈ es.foldl (fun acc e => if acc.any (fun p => p.1 = e.kR) then acc else acc ++ [(e.kR, e.op)]) acc,
        ∃ e ∈ layer, e.kL = kL ∧ e.kR = p.1 ∧ e.op = p.2 := by
    intro es
    induction es with
    | nil => intro acc _ hacc p hp; exact hacc p hp
    | cons e es ih =>
      intro acc hes hacc p hp
      rw [List.foldl_cons] at hp
      apply ih _ (fun e' he' => hes e' (List.mem_cons_of_mem _ he')) _ p hp
      intro p' hp'
      split at hp'
      · exact hacc p' hp'
      · rw [List.mem_append, List.mem_singleton] at hp'
        rcases hp' with hp' | rfl
        · exact hacc p' hp'
        · exact ⟨e, (hes e (List.mem_cons_self ..)).1, (hes e (List.mem_cons_self ..)).2, rfl, rfl⟩
  apply this _ [] _ (by simp) p h
  intro e he
  rw [List.mem_filter] at he
  exact ⟨he.1, by simpa using he.2⟩

section main
variable (π : Q → Q') (L : Nat) (infinite : Bool) (layers : List (List (Edge Key α))) (ost : List (List Key))
  (cd : ChargeData Q) (c : Nat → Key → Q') (hπ : ChargeHom π cd) (hc : Consistent π L infinite layers ost cd c)
  (hnc : cd.noCharges = true → ∀ x y : Q', x = y)
include hπ hc hnc

theorem lrEdges_agree (i : Nat) (keyL : Key) (qLW : Q) (hqLW : π qLW = c i keyL - π (cd.wq i)) :
    ∀ (out : List (Key × String)) (acc res : Charges Q × List (Nat × Key)),
      (∀ p ∈ out, ∃ e ∈ layers.getD i [], e.kL = keyL ∧ e.kR = p.1 ∧ e.op = p.2) →
      Agree π ost c acc.1 → lrEdges L infinite ost cd i qLW out acc = .ok res → Agree π ost c res.1 := by
  intro out
  induction out with
  | nil =>
    intro acc res _ hacc h
    rw [lrEdges] at h
    cases h; exact hacc
  | cons p rest ih =>
    intro acc res hout hacc h
    obtain ⟨kR, op⟩ := p
    have hrest : ∀ p ∈ rest, ∃ e ∈ layers.getD i [], e.kL = keyL ∧ e.kR = p.1 ∧ e.op = p.2 :=
      fun p hp => hout p (List.mem_cons_of_mem _ hp)
    obtain ⟨e, he, hekL, hekR, heop⟩ := hout (kR, op) (List.mem_cons_self ..)
    simp only at hekR heop
    rw [lrEdges] at h
    split at h
    · cases h
    · next r hr =>
      split at h
      · exact ih acc res hrest hacc h
      · split at h
        · cases h
        · have hq : π (qLW + cd.qop i op) = c (i + 1) kR := by
            rw [hπ.add, hqLW, ← hekR, hc.edge i e he, hekL, heop]
          have h1 : Agree π ost c (setCh acc.1 (i + 1) r (qLW + cd.qop i op)) := by
            apply hacc.set
            intro key hkey
            have := keyIdx_getElem? hr
            rw [this] at hkey
            cases hkey
            exact hq
          dsimp only at h
          split at h
          · next hw =>
            split at h
            · apply ih _ res hrest _ h
              apply h1.set
              intro key hkey
              simp only [Bool.and_eq_true, beq_iff_eq] at hw
              obtain ⟨hw1, hw2⟩ := hc.wrap hw.1
              rw [hw2, ← hw.2] at hkey
              have := keyIdx_getElem? hr
              rw [this] at hkey
              cases hkey
              rw [hq, ← hw1, hw.2]
            · cases h
          · exact ih _ res hrest h1 h

theorem lrVisit_agree (ch : Charges Q) (i : Nat) (keyL : Key) (res : Charges Q × List (Nat × Key))
    (hch : Agree π ost c ch) (h : lrVisit L infinite layers ost cd ch i keyL = .ok res) : Agree π ost c res.1 := by
  unfold lrVisit at h
  split at h
  · cases h
  · next l hl =>
    split at h
    · cases h
    · next qL hq =>
      dsimp only at h
      split at h
      · cases h
      · have hqL : π qL = c i keyL := by
          split at hq
          · next q0 hq0 => cases hq; exact hch i l qL keyL hq0 (keyIdx_getElem? hl)
          · split at hq
            · next hn => exact hnc hn _ _
            · cases hq
        exact lrEdges_agree π L infinite layers ost cd c hπ hc hnc i keyL (qL - cd.wq i) (by rw [hπ.sub, hqL])
          _ (ch, []) res (fun p hp => mem_outDict _ _ p hp) hch h

theorem lrLoop_agree : ∀ (fuel : Nat) (stack : List (Nat × Key)) (ch res : Charges Q),
    Agree π ost c ch → lrLoop L infinite layers ost cd fuel stack ch = .ok res → Agree π ost c res := by
  intro fuel
  induction fuel with
  | zero =>
    intro stack ch res hch h
    cases stack with
    | nil => rw [lrLoop] at h; cases h; exact hch
    | cons s st => rw [lrLoop] at h; cases h
  | succ fuel ih =>
    intro stack ch res hch h
    cases stack with
    | nil => rw [lrLoop] at h; cases h; exact hch
    | cons s st =>
      obtain ⟨i, keyL⟩ := s
      rw [lrLoop] at h
      split at h
      · cases h
      · next ch' es hv =>
        exact ih _ _ res (lrVisit_agree π L infinite layers ost cd c hπ hc hnc ch i keyL (ch', es) hch hv) h

theorem rlEdges_agree (ch : Charges Q) (i l : Nat) (keyL : Key) (hl : (ost.getD i [])[l]? = some keyL)
    (hch : Agree π ost c ch) :
    ∀ (out : List (Key × String)) (res : Charges Q × Bool),
      (∀ p ∈ out, ∃ e ∈ layers.getD i [], e.kL = keyL ∧ e.kR = p.1 ∧ e.op = p.2) →
      rlEdges ost cd ch i l out = .ok res → Agree π ost c res.1 := by
  intro out
  induction out with
  | nil => intro res _ h; rw [rlEdges] at h; cases h; exact hch
  | cons p rest ih =>
    intro res hout h
    obtain ⟨kR, op⟩ := p
    obtain ⟨e, he, hekL, hekR, heop⟩ := hout (kR, op) (List.mem_cons_self ..)
    simp only at hekR heop
    rw [rlEdges] at h
    split at h
    · cases h
    · next r hr =>
      split at h
      · next qR hg =>
        split at h
        · cases h
        · cases h
          apply hch.set
          intro key hkey
          rw [hl] at hkey
          cases hkey
          have hqR : π qR = c (i + 1) kR := hch (i + 1) r qR kR hg (keyIdx_getElem? hr)
          rw [hπ.sub, hπ.add, hqR, ← hekR, hc.edge i e he, hekL, heop]
          abel
      · exact ih res (fun p hp => hout p (List.mem_cons_of_mem _ hp)) h

theorem rlBond_agree (i : Nat) :
    ∀ (keys : List (Key × Nat)) (acc res : Charges Q × Bool × Bool),
      (∀ p ∈ keys, (ost.getD i [])[p.2]? = some p.1) → Agree π ost c acc.1 →
      rlBond layers ost cd i keys acc = .ok res → Agree π ost c res.1 := by
  intro keys
  induction keys with
  | nil => intro acc res _ hacc h; rw [rlBond] at h; cases h; exact hacc
  | cons p rest ih =>
    intro acc res hkeys hacc h
    obtain ⟨keyL, l⟩ := p
    obtain ⟨ch, rep, prog⟩ := acc
    have hrest : ∀ p ∈ rest, (ost.getD i [])[p.2]? = some p.1 := fun p hp => hkeys p (List.mem_cons_of_mem _ hp)
    rw [rlBond] at h
    split at h
    · exact ih _ res hrest hacc h
    · split at h
      · cases h
      · next ch' found hv =>
        apply ih _ res hrest _ h
        unfold rlVisit at hv
        dsimp only at hv
        split at hv
        · cases hv
        · exact rlEdges_agree π L infinite layers ost cd c hπ hc hnc ch i l keyL (hkeys (keyL, l) (List.mem_cons_self ..))
            hacc _ (ch', found) (fun p hp => mem_outDict _ _ p hp) hv

theorem rlSweep_agree : ∀ (is : List Nat) (acc res : Charges Q × Bool × Bool),
    Agree π ost c acc.1 → rlSweep layers ost cd is acc = .ok res → Agree π ost c res.1 := by
  intro is
  induction is with
  | nil => intro acc res hacc h; rw [rlSweep] at h; cases h; exact hacc
  | cons i is ih =>
    intro acc res hacc h
    rw [rlSweep] at h
    split at h
    · cases h
    · next r hb =>
      apply ih r res _ h
      apply rlBond_agree π L infinite layers ost cd c hπ hc hnc i _ acc r _ hacc hb
      intro p hp
      have := List.mem_zipIdx hp
      simp at this
      exact List.getElem?_eq_some_iff.2 ⟨this.1, this.2.symm⟩

theorem rlLoop_agree : ∀ (n : Nat) (ch res : Charges Q),
    Agree π ost c ch → rlLoop L layers ost cd n ch = .ok res → Agree π ost c res := by
  intro n
  induction n with
  | zero => intro ch res _ h; rw [rlLoop] at h; cases h
  | succ n ih =>
    intro ch res hch h
    rw [rlLoop] at h
    split at h
    · cases h
    · next ch' rep prog hs =>
      have h' := rlSweep_agree π L infinite layers ost cd c hπ hc hnc _ (ch, false, false) _ hch hs
      split_ifs at h
      · cases h; exact h'
      · exact ih ch' res h' h

end main

theorem filterMap_all_some {β γ : Type} (f : β → γ) :
    ∀ (l : List (Option β)) (idx : Nat) (q : γ), l.all (fun o => o.isSome) = true →
      (l.filterMap (fun o => o.map f))[idx]? = some q → ∃ q0, l[idx]? = some (some q0) ∧ q = f q0 := by
  intro l
  induction l with
  | nil => intro idx q _ h; simp at h
  | cons o l ih =>
    intro idx q hall h
    simp only [List.all_cons, Bool.and_eq_true] at hall
    cases o with
    | none => simp at hall
    | some q0 =>
      simp only [List.filterMap_cons, Option.map_some] at h
      cases idx with
      | zero => simp at h; exact ⟨q0, by simp, h.symm⟩
      | succ idx =>
        simp only [List.getElem?_cons_succ] at h ⊢
        exact ih idx q hall.2 h

theorem getCh_allNone (ost : List (List Key)) (b idx : Nat) :
    getCh (ost.map (fun st => st.map (fun _ => (none : Option Q)))) b idx = none := by
  unfold getCh
  simp only [List.getD_eq_getElem?_getD, List.getElem?_map]
  cases ost[b]? with
  | none => simp
  | some st =>
    simp only [Option.map_some, Option.getD_some, List.getElem?_map]
    cases st[idx]? <;> simp

/-- **`_calc_legcharges` finds the consistent charges** -/
theorem legcharges_agree (g : Graph α) (cd : ChargeData Q) (π : Q → Q') (c : Nat → Key → Q')
    (hπ : ChargeHom π cd) (hc : Consistent π g.L g.infinite g.layers g.orderedStates cd c)
    (hnc : cd.noCharges = true → ∀ x y : Q', x = y)
    (legs : List (List Q)) (h : legcharges g cd = .ok legs) :
    ∀ (b idx : Nat) (q : Q) (key : Key), (legs.getD b [])[idx]? = some q →
      (g.orderedStates.getD b [])[idx]? = some key → π q = c b key := by
  unfold legcharges at h
  dsimp only at h
  split at h
  · cases h
  · next l0 hl0 =>
    have h0 : Agree π g.orderedStates c
        (setCh (g.orderedStates.map (fun st => st.map (fun _ => (none : Option Q)))) 0 l0 (cd.valid 0)) := by
      apply Agree.set
      · intro b idx q key hget _
        rw [getCh_allNone] at hget
        cases hget
      · intro key hkey
        rw [keyIdx_getElem? hl0] at hkey
        cases hkey
        rw [hπ.valid, hπ.zero, hc.start]
    split at h
    · cases h
    · next ch1 h1 =>
      have hA1 := lrLoop_agree π g.L g.infinite g.layers g.orderedStates cd c hπ hc hnc _ _ _ ch1 h0 h1
      split at h
      · cases h
      · split at h
        · cases h
        · next ch2 h2 =>
          have hA2 := rlLoop_agree π g.L g.infinite g.layers g.orderedStates cd c hπ hc hnc _ ch1 ch2 hA1 h2
          unfold finishCharges at h
          split at h
          · next hall =>
            cases h
            intro b idx q key hq hkey
            simp only [List.getD_eq_getElem?_getD, List.getElem?_map] at hq
            cases hb : ch2[b]? with
            | none => simp [hb] at hq
            | some l =>
              simp only [hb, Option.map_some, Option.getD_some] at hq
              have hl : l.all (fun o => o.isSome) = true :=
                (List.all_eq_true.1 hall) l (List.mem_of_getElem? hb)
              obtain ⟨q0, hq0, rfl⟩ := filterMap_all_some cd.valid l idx q hl hq
              rw [hπ.valid]
              apply hA2 b idx q0 key _ hkey
              simp [getCh, List.getD_eq_getElem?_getD, hb, hq0]
          · split at h
            · split at h <;> cases h
            · cases h

end TenpyModel.C10Ext
