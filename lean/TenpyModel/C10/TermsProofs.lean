import Mathlib.Data.List.Perm.Basic
import TenpyModel.Ops.SymProofs
import TenpyModel.Ops.Terms
/-!
# C10: the term containers denote the sum of the terms that were added, and `to_TermList`
enumerates exactly the stored entries
-/
namespace TenpyModel.Ops

/-! ## python dict model -/
section dict
variable {κ ν : Type} [DecidableEq κ]

theorem sortBy_ins_perm (lt : κ → κ → Bool) (k : κ) (l : List κ) : (sortBy.ins lt k l).Perm (k :: l) := by
  induction l with
  | nil => exact List.Perm.refl _
  | cons q qs ih =>
    unfold sortBy.ins
    split
    · exact List.Perm.refl _
    · exact (List.Perm.cons q ih).trans (List.Perm.swap k q qs)

theorem sortBy_perm (lt : κ → κ → Bool) (l : List κ) : (sortBy lt l).Perm l := by
  induction l with
  | nil => exact List.Perm.refl _
  | cons k rest ih =>
    unfold sortBy
    exact (sortBy_ins_perm lt k _).trans (List.Perm.cons k ih)

theorem Dict.get?_cons_ne (k k' : κ) (v : ν) (d : Dict κ ν) (h : k ≠ k') :
    Dict.get? ((k, v) :: d) k' = Dict.get? d k' := by
  simp [Dict.get?, h]

theorem Dict.get?_cons_self (k : κ) (v : ν) (d : Dict κ ν) : Dict.get? ((k, v) :: d) k = some v := by
  simp [Dict.get?]

/-- looking every key up again gives the dict back (keys are distinct) -/
theorem Dict.filterMap_keys (d : Dict κ ν) (h : (Dict.keys d).Nodup) :
    (Dict.keys d).filterMap (fun k => (Dict.get? d k).map (fun v => (k, v))) = d := by
  induction d with
  | nil => rfl
  | cons p d ih =>
    obtain ⟨k, v⟩ := p
    have hk : k ∉ Dict.keys d := (List.nodup_cons.1 h).1
    have hd : (Dict.keys d).Nodup := (List.nodup_cons.1 h).2
    simp only [Dict.keys, List.map_cons, List.filterMap_cons, Dict.get?_cons_self, Option.map_some]
    congr 1
    conv_rhs => rw [← ih hd]
    apply List.filterMap_congr
    intro k' hk'
    have : k ≠ k' := fun e => hk (e ▸ hk')
    rw [Dict.get?_cons_ne k k' v d this]

theorem Dict.sortedItems_perm (lt : κ → κ → Bool) (d : Dict κ ν) (h : (Dict.keys d).Nodup) :
    (Dict.sortedItems lt d).Perm d := by
  unfold Dict.sortedItems
  have := (sortBy_perm lt (Dict.keys d)).filterMap (fun k => (Dict.get? d k).map (fun v => (k, v)))
  rwa [Dict.filterMap_keys d h] at this

theorem Dict.keys_upsert (d : Dict κ ν) (k : κ) (f : Option ν → ν) :
    Dict.keys (Dict.upsert d k f) = if k ∈ Dict.keys d then Dict.keys d else Dict.keys d ++ [k] := by
  induction d with
  | nil => simp [Dict.upsert, Dict.keys]
  | cons p d ih =>
    obtain ⟨k', v⟩ := p
    unfold Dict.upsert
    by_cases h : k' = k
    · simp [h, Dict.keys]
    · have hne : ¬ k = k' := fun e => h e.symm
      simp only [h, if_false, Dict.keys, List.map_cons, List.mem_cons, hne, false_or] at ih ⊢
      rw [ih]
      split
      · next hm => simp [hm]
      · next hm => simp [hm]

theorem Dict.nodup_upsert (d : Dict κ ν) (k : κ) (f : Option ν → ν) (h : (Dict.keys d).Nodup) :
    (Dict.keys (Dict.upsert d k f)).Nodup := by
  rw [Dict.keys_upsert]
  split
  · exact h
  · next hk =>
    rw [List.nodup_append]
    refine ⟨h, by simp, ?_⟩
    intro a ha b hb
    simp only [List.mem_singleton] at hb
    intro e
    exact hk (hb ▸ e ▸ ha)

end dict

/-! ## denotation of an upsert -/
section upsert
variable {κ ν α : Type} [DecidableEq κ] [AddCommMonoid α]

/-- if replacing the value under `k` adds `extra` to the denotation of that entry, the upsert adds
`extra` to the denotation of the dict -/
theorem upsert_denote (d : Dict κ ν) (k : κ) (f : Option ν → ν) (g : κ → ν → Sym α) (extra : Sym α)
    (hsome : ∀ v, Sym.Equiv (g k (f (some v))) (g k v ++ extra))
    (hnone : Sym.Equiv (g k (f none)) extra) :
    Sym.Equiv ((Dict.upsert d k f).flatMap (fun p => g p.1 p.2)) (d.flatMap (fun p => g p.1 p.2) ++ extra) := by
  induction d with
  | nil =>
    intro t
    simp only [Dict.upsert, List.flatMap_cons, List.flatMap_nil, List.append_nil, List.nil_append]
    exact hnone t
  | cons p d ih =>
    obtain ⟨k', v⟩ := p
    unfold Dict.upsert
    by_cases h : k' = k
    · subst h
      intro t
      simp only [if_true, List.flatMap_cons, coeff_append]
      rw [hsome v t, coeff_append]
      rw [add_assoc, add_assoc, add_comm (coeff extra t)]
    · intro t
      simp only [h, if_false, List.flatMap_cons, coeff_append]
      rw [ih t, coeff_append, add_assoc]

end upsert
end TenpyModel.Ops

/-! ## OnsiteTerms -/
namespace TenpyModel.Ops
section onsite
variable {α : Type} [AddCommMonoid α]

/-- well-formedness kept by `add`: one dict per site, distinct operator names in each dict -/
structure OnsiteTerms.WF (ot : OnsiteTerms α) : Prop where
  len : ot.terms.length = ot.L
  nodup : ∀ d ∈ ot.terms, (Dict.keys d).Nodup

theorem stermStr_single (L : Nat) (op : String) (i : Nat) :
    stermStr L 0 (sortSOps [⟨op, (i : Int), ""⟩]) = onsiteStr L i op := by
  simp [sortSOps, sortSOps.ins, stermStr, onsiteStr]

/-- `to_TermList` lists every stored entry exactly once -/
theorem OnsiteTerms.termlist_equiv (ot : OnsiteTerms α) (h : ot.WF) :
    Sym.Equiv (STermList.denote ot.L ot.toTermListS) ot.denote := by
  apply Sym.Equiv.of_perm
  unfold STermList.denote OnsiteTerms.toTermListS OnsiteTerms.denote
  rw [List.map_flatMap]
  apply List.Perm.flatMap_left
  intro p hp
  obtain ⟨d, i⟩ := p
  have hd : d ∈ ot.terms := (List.mem_zipIdx hp).2.2 ▸ List.getElem_mem _ |> fun _ => by
    have := List.mem_zipIdx hp
    exact this.2.2 ▸ List.getElem_mem _
  simp only [List.map_map]
  have hperm := (Dict.sortedItems_perm strLt d (h.nodup d hd)).map
    (fun (q : String × α) => (onsiteStr ot.L i q.1, q.2))
  refine List.Perm.trans (List.Perm.of_eq ?_) hperm
  apply List.map_congr_left
  intro q _
  obtain ⟨op, s⟩ := q
  simp only [Function.comp, stermStr_single]

end onsite
end TenpyModel.Ops

namespace TenpyModel.Ops
section onsite_add
variable {α : Type} [AddCommMonoid α]

/-- modifying one element of a list changes an indexed `flatMap` denotation by the change of that element -/
theorem modify_zipIdx_flatMap {β : Type} (l : List β) (i : Nat) (f : β → β) (g : β × Nat → Sym α)
    (extra : Sym α) (n : Nat) (hi : i < l.length)
    (hg : ∀ x, l[i]? = some x → Sym.Equiv (g (f x, n + i)) (g (x, n + i) ++ extra)) :
    Sym.Equiv (((l.modify i f).zipIdx n).flatMap g) ((l.zipIdx n).flatMap g ++ extra) := by
  induction l generalizing i n with
  | nil => simp at hi
  | cons x l ih =>
    cases i with
    | zero =>
      intro t
      simp only [List.modify_zero_cons, List.zipIdx_cons, List.flatMap_cons, coeff_append]
      have := hg x (by simp) t
      simp only [Nat.add_zero, coeff_append] at this
      rw [this, add_assoc, add_assoc, add_comm (coeff extra t)]
    | succ i =>
      intro t
      simp only [List.modify_succ_cons, List.zipIdx_cons, List.flatMap_cons, coeff_append]
      have hi' : i < l.length := by simpa using hi
      have := ih i (n + 1) hi' (by
        intro y hy
        have := hg y (by simpa using hy)
        rwa [show n + (i + 1) = n + 1 + i by omega] at this) t
      rw [this, coeff_append, add_assoc]

theorem OnsiteTerms.add_denote (ot : OnsiteTerms α) (h : ot.WF) (s : α) (i : Nat) (hi : i < ot.L)
    (op : String) :
    Sym.Equiv (ot.add s i op).denote (ot.denote ++ [(onsiteStr ot.L i op, s)]) := by
  unfold OnsiteTerms.add OnsiteTerms.denote
  simp only
  have := modify_zipIdx_flatMap ot.terms i
    (fun d => Dict.upsert d op (addTo s))
    (fun (p : Dict String α × Nat) => p.1.map (fun (q : String × α) => (onsiteStr ot.L p.2 q.1, q.2)))
    [(onsiteStr ot.L i op, s)] 0 (h.len ▸ hi) (by
      intro d _
      simp only [Nat.zero_add]
      have hu := upsert_denote d op (addTo s)
        (fun (k : String) (v : α) => [(onsiteStr ot.L i k, v)]) [(onsiteStr ot.L i op, s)]
        (by intro v t; simp only [addTo, coeff_append, coeff_singleton]; split <;> simp)
        (by intro t; simp [addTo, coeff_singleton])
      have e1 : ∀ (dd : Dict String α), dd.map (fun (q : String × α) => (onsiteStr ot.L i q.1, q.2))
          = dd.flatMap (fun p => [(onsiteStr ot.L i p.1, p.2)]) := by
        intro dd; induction dd with
        | nil => rfl
        | cons a dd ihd => simp [List.flatMap_cons, ihd]
      rw [e1, e1]
      exact hu)
  exact this

theorem OnsiteTerms.add_WF (ot : OnsiteTerms α) (h : ot.WF) (s : α) (i : Nat) (op : String) :
    (ot.add s i op).WF := by
  constructor
  · simp [OnsiteTerms.add, h.len]
  · intro d hd
    simp only [OnsiteTerms.add] at hd
    rw [List.mem_iff_getElem] at hd
    obtain ⟨n, hn, rfl⟩ := hd
    rw [List.getElem_modify]
    split
    · exact Dict.nodup_upsert _ _ _ (h.nodup _ (List.getElem_mem _))
    · exact h.nodup _ (List.getElem_mem _)

theorem OnsiteTerms.empty_WF (L : Nat) : (OnsiteTerms.empty L : OnsiteTerms α).WF :=
  ⟨by simp [OnsiteTerms.empty], by
    intro d hd
    simp only [OnsiteTerms.empty, List.mem_replicate] at hd
    simp [hd.2, Dict.keys]⟩

theorem OnsiteTerms.add_L (ot : OnsiteTerms α) (s : α) (i : Nat) (op : String) : (ot.add s i op).L = ot.L := rfl

/-- any sequence of `add_onsite_term` calls: the container denotes the sum of the added terms -/
theorem OnsiteTerms.build_denote (L : Nat) (calls : List (α × Nat × String)) (hc : ∀ c ∈ calls, c.2.1 < L) :
    let ot := calls.foldl (fun ot c => ot.add c.1 c.2.1 c.2.2) (OnsiteTerms.empty L)
    ot.WF ∧ ot.L = L ∧ Sym.Equiv ot.denote (calls.map (fun c => (onsiteStr L c.2.1 c.2.2, c.1))) := by
  suffices ∀ (ot0 : OnsiteTerms α) (base : Sym α), ot0.WF → ot0.L = L → Sym.Equiv ot0.denote base →
      let ot := calls.foldl (fun ot c => ot.add c.1 c.2.1 c.2.2) ot0
      ot.WF ∧ ot.L = L ∧ Sym.Equiv ot.denote (base ++ calls.map (fun c => (onsiteStr L c.2.1 c.2.2, c.1))) by
    have := this (OnsiteTerms.empty L) [] (OnsiteTerms.empty_WF L) rfl (by
      intro t; simp [OnsiteTerms.denote, OnsiteTerms.empty, coeff_flatMap]
      apply List.sum_eq_zero
      intro x hx
      simp only [List.mem_map] at hx
      obtain ⟨p, hp, rfl⟩ := hx
      have := (List.mem_zipIdx hp)
      simp [List.getElem_replicate] at this
      simp [this.2])
    simpa using this
  induction calls with
  | nil => intro ot0 base h1 h2 h3; simpa using ⟨h1, h2, h3⟩
  | cons c calls ih =>
    intro ot0 base h1 h2 h3
    simp only [List.foldl_cons, List.map_cons]
    have hi : c.2.1 < ot0.L := h2 ▸ hc c (List.mem_cons_self)
    have := ih (fun c' hc' => hc c' (List.mem_cons_of_mem _ hc')) (ot0.add c.1 c.2.1 c.2.2)
      (base ++ [(onsiteStr L c.2.1 c.2.2, c.1)]) (OnsiteTerms.add_WF ot0 h1 _ _ _) h2
      (by
        have e := OnsiteTerms.add_denote ot0 h1 c.1 c.2.1 hi c.2.2
        rw [h2] at e
        exact e.trans (Sym.Equiv.append h3 (Sym.Equiv.refl _)))
    simpa [List.append_assoc] using this

end onsite_add
end TenpyModel.Ops

/-! ## CouplingTerms -/
namespace TenpyModel.Ops
section coupling
variable {α : Type} [AddCommMonoid α]

/-- the four dictionary levels as nested sums -/
def cD3 (L : Nat) (i : Int) (opi str : String) (j : Int) (d3 : Dict String α) : Sym α :=
  d3.flatMap (fun p => [(couplingStr L i.toNat j.toNat opi str p.1, p.2)])
def cD2 (L : Nat) (i : Int) (opi str : String) (d2 : Dict Int (Dict String α)) : Sym α :=
  d2.flatMap (fun p => cD3 L i opi str p.1 p.2)
def cD1 (L : Nat) (i : Int) (d1 : Dict (String × String) (Dict Int (Dict String α))) : Sym α :=
  d1.flatMap (fun p => cD2 L i p.1.1 p.1.2 p.2)
def cD0 (L : Nat) (d0 : CDict α) : Sym α := d0.flatMap (fun p => cD1 L p.1 p.2)

theorem CouplingTerms.denote_eq (ct : CouplingTerms α) : ct.denote = cD0 ct.L ct.terms := by
  unfold CouplingTerms.denote CouplingTerms.entries cD0 cD1 cD2 cD3
  simp only [List.map_flatMap, List.map_map]
  apply List.flatMap_congr; intro p1 _
  apply List.flatMap_congr; intro p2 _
  apply List.flatMap_congr; intro p3 _
  induction p3.2 with
  | nil => rfl
  | cons a l ih => simp [List.flatMap_cons, ih]

theorem cD_empty (L : Nat) (i : Int) (opi str : String) (j : Int) :
    cD3 (α := α) L i opi str j [] = [] ∧ cD2 (α := α) L i opi str [] = [] ∧ cD1 (α := α) L i [] = [] := by
  simp [cD3, cD2, cD1]

/-- `add_coupling_term` adds exactly the new term to the denotation -/
theorem CouplingTerms.add_denote (ct : CouplingTerms α) (s : α) (i j : Int) (opi opj str : String) :
    Sym.Equiv (ct.add s i j opi opj str).denote
      (ct.denote ++ [(couplingStr ct.L i.toNat j.toNat opi str opj, s)]) := by
  rw [CouplingTerms.denote_eq, CouplingTerms.denote_eq]
  unfold CouplingTerms.add
  simp only
  set term : Sym α := [(couplingStr ct.L i.toNat j.toNat opi str opj, s)] with hterm
  -- level 3: the innermost dict {op_j: strength}
  have h3 : ∀ d3 : Dict String α,
      Sym.Equiv (cD3 ct.L i opi str j (Dict.upsert d3 opj (addTo s)))
        (cD3 ct.L i opi str j d3 ++ term) := by
    intro d3
    exact upsert_denote d3 opj _ (fun k v => [(couplingStr ct.L i.toNat j.toNat opi str k, v)]) term
      (by intro v t; simp only [addTo, hterm, coeff_append, coeff_singleton]; split <;> simp)
      (by intro t; simp [addTo, hterm, coeff_singleton])
  have h2 : ∀ d2 : Dict Int (Dict String α),
      Sym.Equiv (cD2 ct.L i opi str (Dict.upsert d2 j (fun d3 =>
        Dict.upsert (d3.getD []) opj (addTo s))))
        (cD2 ct.L i opi str d2 ++ term) := by
    intro d2
    exact upsert_denote d2 j _ (fun k v => cD3 ct.L i opi str k v) term
      (by intro v; simpa using h3 v)
      (by have := h3 []; simpa [cD3] using this)
  have h1 : ∀ d1 : Dict (String × String) (Dict Int (Dict String α)),
      Sym.Equiv (cD1 ct.L i (Dict.upsert d1 (opi, str) (fun d2 =>
        Dict.upsert (d2.getD []) j (fun d3 =>
          Dict.upsert (d3.getD []) opj (addTo s)))))
        (cD1 ct.L i d1 ++ term) := by
    intro d1
    exact upsert_denote d1 (opi, str) _ (fun k v => cD2 ct.L i k.1 k.2 v) term
      (by intro v; simpa using h2 v)
      (by have := h2 []; simpa [cD2] using this)
  exact upsert_denote ct.terms i _ (fun k v => cD1 ct.L k v) term
    (by intro v; simpa using h1 v)
    (by have := h1 []; simpa [cD1] using this)

/-- any sequence of `add_coupling_term` calls: the container denotes the sum of the added terms -/
theorem CouplingTerms.build_denote (L : Nat) (calls : List (α × Int × Int × String × String × String)) :
    let ct := calls.foldl (fun ct c => ct.add c.1 c.2.1 c.2.2.1 c.2.2.2.1 c.2.2.2.2.1 c.2.2.2.2.2)
      (CouplingTerms.empty L)
    ct.L = L ∧ Sym.Equiv ct.denote (calls.map (fun c =>
      (couplingStr L c.2.1.toNat c.2.2.1.toNat c.2.2.2.1 c.2.2.2.2.2 c.2.2.2.2.1, c.1))) := by
  suffices ∀ (ct0 : CouplingTerms α) (base : Sym α), ct0.L = L → Sym.Equiv ct0.denote base →
      let ct := calls.foldl (fun ct c => ct.add c.1 c.2.1 c.2.2.1 c.2.2.2.1 c.2.2.2.2.1 c.2.2.2.2.2) ct0
      ct.L = L ∧ Sym.Equiv ct.denote (base ++ calls.map (fun c =>
        (couplingStr L c.2.1.toNat c.2.2.1.toNat c.2.2.2.1 c.2.2.2.2.2 c.2.2.2.2.1, c.1))) by
    have := this (CouplingTerms.empty L) [] rfl (by intro t; simp [CouplingTerms.denote, CouplingTerms.entries, CouplingTerms.empty])
    simpa using this
  induction calls with
  | nil => intro ct0 base h2 h3; simpa using ⟨h2, h3⟩
  | cons c calls ih =>
    intro ct0 base h2 h3
    simp only [List.foldl_cons, List.map_cons]
    have := ih (ct0.add c.1 c.2.1 c.2.2.1 c.2.2.2.1 c.2.2.2.2.1 c.2.2.2.2.2)
      (base ++ [(couplingStr L c.2.1.toNat c.2.2.1.toNat c.2.2.2.1 c.2.2.2.2.2 c.2.2.2.2.1, c.1)]) h2
      (by
        have e := CouplingTerms.add_denote ct0 c.1 c.2.1 c.2.2.1 c.2.2.2.1 c.2.2.2.2.1 c.2.2.2.2.2
        rw [h2] at e
        exact e.trans (Sym.Equiv.append h3 (Sym.Equiv.refl _)))
    simpa [List.append_assoc] using this

end coupling
end TenpyModel.Ops

namespace TenpyModel.Ops
section coupling_tl
variable {α : Type} [AddCommMonoid α]

/-- distinct keys on all four levels, `0 ≤ i < j` for every entry -/
structure CouplingTerms.WF (ct : CouplingTerms α) : Prop where
  k0 : (Dict.keys ct.terms).Nodup
  k1 : ∀ p ∈ ct.terms, (Dict.keys p.2).Nodup
  k2 : ∀ p ∈ ct.terms, ∀ q ∈ p.2, (Dict.keys q.2).Nodup
  k3 : ∀ p ∈ ct.terms, ∀ q ∈ p.2, ∀ r ∈ q.2, (Dict.keys r.2).Nodup
  ord : ∀ p ∈ ct.terms, ∀ q ∈ p.2, ∀ r ∈ q.2, p.1 < r.1

theorem stermStr_pair (L : Nat) (i j : Int) (hij : i < j) (opi str opj : String) :
    stermStr L 0 (sortSOps [⟨opi, i, str⟩, ⟨opj, j, ""⟩]) = couplingStr L i.toNat j.toNat opi str opj := by
  simp [sortSOps, sortSOps.ins, hij, stermStr, stermStr.stermStrTail, couplingStr]

/-- `to_TermList` lists every stored coupling exactly once (with its operator string) -/
theorem CouplingTerms.termlist_equiv (ct : CouplingTerms α) (h : ct.WF) :
    Sym.Equiv (STermList.denote ct.L ct.toTermListS) ct.denote := by
  rw [CouplingTerms.denote_eq]
  apply Sym.Equiv.of_perm
  unfold STermList.denote CouplingTerms.toTermListS cD0
  rw [List.map_flatMap]
  refine ((Dict.sortedItems_perm intLt ct.terms h.k0).flatMap_right _).trans ?_
  apply List.Perm.flatMap_left
  intro p1 hp1
  obtain ⟨i, d1⟩ := p1
  unfold cD1
  simp only
  rw [List.map_flatMap]
  refine ((Dict.sortedItems_perm pairLt d1 (h.k1 _ hp1)).flatMap_right _).trans ?_
  apply List.Perm.flatMap_left
  intro p2 hp2
  obtain ⟨⟨opi, str⟩, d2⟩ := p2
  unfold cD2
  simp only
  rw [List.map_flatMap]
  refine ((Dict.sortedItems_perm intLt d2 (h.k2 _ hp1 _ hp2)).flatMap_right _).trans ?_
  apply List.Perm.flatMap_left
  intro p3 hp3
  obtain ⟨j, d3⟩ := p3
  unfold cD3
  simp only [List.map_map]
  have hij : i < j := h.ord _ hp1 _ hp2 _ hp3
  have e1 : ∀ (dd : Dict String α), dd.flatMap (fun p => [(couplingStr ct.L i.toNat j.toNat opi str p.1, p.2)])
      = dd.map (fun (q : String × α) => (couplingStr ct.L i.toNat j.toNat opi str q.1, q.2)) := by
    intro dd; induction dd with
    | nil => rfl
    | cons a dd ihd => simp [List.flatMap_cons, ihd]
  rw [e1]
  have hperm := (Dict.sortedItems_perm strLt d3 (h.k3 _ hp1 _ hp2 _ hp3)).map
    (fun (q : String × α) => (couplingStr ct.L i.toNat j.toNat opi str q.1, q.2))
  refine List.Perm.trans (List.Perm.of_eq ?_) hperm
  apply List.map_congr_left
  intro q _
  obtain ⟨opj, s⟩ := q
  simp only [Function.comp, stermStr_pair ct.L i j hij]

end coupling_tl
end TenpyModel.Ops

namespace TenpyModel.Ops
section dwf
variable {κ ν : Type} [DecidableEq κ]

/-- dict with distinct keys whose entries satisfy `P` -/
def DWF (P : κ → ν → Prop) (d : Dict κ ν) : Prop := (Dict.keys d).Nodup ∧ ∀ p ∈ d, P p.1 p.2

theorem mem_upsert (d : Dict κ ν) (k : κ) (f : Option ν → ν) (p : κ × ν) (hp : p ∈ Dict.upsert d k f) :
    p ∈ d ∨ (p.1 = k ∧ ((∃ v, (k, v) ∈ d ∧ p.2 = f (some v)) ∨ p.2 = f none)) := by
  induction d with
  | nil =>
    simp only [Dict.upsert, List.mem_singleton] at hp
    subst hp
    exact Or.inr ⟨rfl, Or.inr rfl⟩
  | cons q d ih =>
    obtain ⟨k', v⟩ := q
    unfold Dict.upsert at hp
    by_cases h : k' = k
    · subst h
      simp only [if_true, List.mem_cons] at hp
      rcases hp with rfl | hp
      · exact Or.inr ⟨rfl, Or.inl ⟨v, List.mem_cons_self, rfl⟩⟩
      · exact Or.inl (List.mem_cons_of_mem _ hp)
    · simp only [h, if_false, List.mem_cons] at hp
      rcases hp with rfl | hp
      · exact Or.inl List.mem_cons_self
      · rcases ih hp with h1 | ⟨h1, h2⟩
        · exact Or.inl (List.mem_cons_of_mem _ h1)
        · refine Or.inr ⟨h1, ?_⟩
          rcases h2 with ⟨w, hw, e⟩ | e
          · exact Or.inl ⟨w, List.mem_cons_of_mem _ hw, e⟩
          · exact Or.inr e

theorem DWF_upsert (P : κ → ν → Prop) (d : Dict κ ν) (k : κ) (f : Option ν → ν) (h : DWF P d)
    (hsome : ∀ v, P k v → P k (f (some v))) (hnone : P k (f none)) : DWF P (Dict.upsert d k f) := by
  refine ⟨Dict.nodup_upsert d k f h.1, ?_⟩
  intro p hp
  rcases mem_upsert d k f p hp with h1 | ⟨h1, h2⟩
  · exact h.2 p h1
  · rcases h2 with ⟨w, hw, e⟩ | e
    · rw [h1, e]; exact hsome w (h.2 (k, w) hw)
    · rw [h1, e]; exact hnone

theorem DWF_nil (P : κ → ν → Prop) : DWF P ([] : Dict κ ν) := ⟨by simp [Dict.keys], by simp⟩

end dwf

section coupling_wf
variable {α : Type} [AddCommMonoid α]

/-- nested dictionaries with distinct keys on every level whose entries satisfy `Q i j` -/
def CouplingTerms.WFP (Q : Int → Int → Prop) (ct : CouplingTerms α) : Prop :=
  DWF (fun (i : Int) d1 => DWF (fun (_ : String × String) d2 => d2 ≠ [] ∧
    DWF (fun (j : Int) (d3 : Dict String α) => Q i j ∧ (Dict.keys d3).Nodup) d2) d1) ct.terms

theorem Dict.upsert_ne_nil {κ ν : Type} [DecidableEq κ] (d : Dict κ ν) (k : κ) (f : Option ν → ν) :
    Dict.upsert d k f ≠ [] := by
  cases d with
  | nil => simp [Dict.upsert]
  | cons p d => unfold Dict.upsert; split <;> simp

def CouplingTerms.WF' (ct : CouplingTerms α) : Prop := ct.WFP (fun i j => i < j)

theorem CouplingTerms.WFP_mono {Q Q' : Int → Int → Prop} (hQ : ∀ i j, Q i j → Q' i j) (ct : CouplingTerms α)
    (h : ct.WFP Q) : ct.WFP Q' :=
  ⟨h.1, fun p hp => ⟨(h.2 p hp).1, fun q hq => ⟨((h.2 p hp).2 q hq).1, ((h.2 p hp).2 q hq).2.1, fun r hr =>
    ⟨hQ _ _ (((h.2 p hp).2 q hq).2.2 r hr).1, (((h.2 p hp).2 q hq).2.2 r hr).2⟩⟩⟩⟩

theorem CouplingTerms.WF_of_WF' (ct : CouplingTerms α) (h : ct.WF') : ct.WF where
  k0 := h.1
  k1 := fun p hp => (h.2 p hp).1
  k2 := fun p hp q hq => ((h.2 p hp).2 q hq).2.1
  k3 := fun p hp q hq r hr => (((h.2 p hp).2 q hq).2.2 r hr).2
  ord := fun p hp q hq r hr => (((h.2 p hp).2 q hq).2.2 r hr).1

theorem CouplingTerms.add_WFP (Q : Int → Int → Prop) (ct : CouplingTerms α) (h : ct.WFP Q) (s : α)
    (i j : Int) (hij : Q i j) (opi opj str : String) : (ct.add s i j opi opj str).WFP Q := by
  unfold CouplingTerms.WFP CouplingTerms.add
  simp only
  have l3 : ∀ d3 : Dict String α, (Dict.keys d3).Nodup → (Dict.keys (Dict.upsert d3 opj (addTo s))).Nodup :=
    fun d3 h3 => Dict.nodup_upsert d3 opj _ h3
  have l2 : ∀ d2 : Dict Int (Dict String α),
      DWF (fun (j' : Int) (d3 : Dict String α) => Q i j' ∧ (Dict.keys d3).Nodup) d2 →
      DWF (fun (j' : Int) (d3 : Dict String α) => Q i j' ∧ (Dict.keys d3).Nodup)
        (Dict.upsert d2 j (fun d3 => Dict.upsert (d3.getD []) opj (addTo s))) := by
    intro d2 h2
    exact DWF_upsert _ d2 j _ h2 (fun v hv => ⟨hv.1, l3 v hv.2⟩) ⟨hij, l3 [] (by simp [Dict.keys])⟩
  have l1 : ∀ d1 : Dict (String × String) (Dict Int (Dict String α)),
      DWF (fun (_ : String × String) d2 => d2 ≠ [] ∧ DWF (fun (j' : Int) (d3 : Dict String α) => Q i j' ∧ (Dict.keys d3).Nodup) d2) d1 →
      DWF (fun (_ : String × String) d2 => d2 ≠ [] ∧ DWF (fun (j' : Int) (d3 : Dict String α) => Q i j' ∧ (Dict.keys d3).Nodup) d2)
        (Dict.upsert d1 (opi, str) (fun d2 => Dict.upsert (d2.getD []) j
          (fun d3 => Dict.upsert (d3.getD []) opj (addTo s)))) := by
    intro d1 h1
    exact DWF_upsert _ d1 (opi, str) _ h1 (fun v hv => ⟨Dict.upsert_ne_nil _ _ _, l2 v hv.2⟩)
      ⟨Dict.upsert_ne_nil _ _ _, l2 [] (DWF_nil _)⟩
  exact DWF_upsert _ ct.terms i _ h (fun v hv => l1 v hv) (l1 [] (DWF_nil _))

theorem CouplingTerms.add_WF' (ct : CouplingTerms α) (h : ct.WF') (s : α) (i j : Int) (hij : i < j)
    (opi opj str : String) : (ct.add s i j opi opj str).WF' :=
  CouplingTerms.add_WFP _ ct h s i j hij opi opj str

theorem CouplingTerms.empty_WFP (Q : Int → Int → Prop) (L : Nat) :
    (CouplingTerms.empty L : CouplingTerms α).WFP Q := DWF_nil _

theorem CouplingTerms.empty_WF' (L : Nat) : (CouplingTerms.empty L : CouplingTerms α).WF' :=
  CouplingTerms.empty_WFP _ L

end coupling_wf
end TenpyModel.Ops
