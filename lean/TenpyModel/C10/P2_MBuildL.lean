import TenpyModel.C10.P2_Ens
/-!
# C10 / Props2: `MultiCouplingTerms._insert_to_graph` for `terms_left` as a sequence of "insert unless present"
operations (`ensList`) on a finite chain
-/
namespace TenpyModel.Ops

section
variable {α : Type} [DecidableEq α] [One α]

/-- the finite graph `g` has layers `S` (up to order) and every edge is old or canonical -/
def St (L : Nat) (g : Graph α) (S : Nat → List (Edge Key α)) : Prop :=
  Rep L g S ∧ AllCanon L S ∧ g.infinite = false

theorem St.ensure_add {L : Nat} {g : Graph α} {S : Nat → List (Edge Key α)} (h : St L g S) (i : Int)
    (h0 : 0 ≤ i) (h1 : i < (L : Int)) (e : Edge Key α) (he : CanonL i.toNat e ∨ CanonR i.toNat e) :
    St L (g.add i e.kL e.kR e.op e.c true) (ensS S i.toNat e) :=
  ⟨rep_ensure_add h.1 i h0 h1 e (det_of_allCanon L S h.2.1 i.toNat (by omega) e he),
    allCanon_ensS L S h.2.1 i.toNat e he, h.2.2⟩

theorem St.ensure_guard {L : Nat} {g : Graph α} {S : Nat → List (Edge Key α)} (h : St L g S) (i : Int)
    (h0 : 0 ≤ i) (h1 : i < (L : Int)) (e : Edge Key α) (he : CanonL i.toNat e ∨ CanonR i.toNat e) :
    St L (if g.hasEdge (g.siteOf i) e.kL e.kR then g else g.add i e.kL e.kR e.op e.c true)
      (ensS S i.toNat e) :=
  ⟨rep_ensure_guard h.1 i h0 h1 e (det_of_allCanon L S h.2.1 i.toNat (by omega) e he),
    allCanon_ensS L S h.2.1 i.toNat e he, by split <;> exact h.2.2⟩

/-- the loop edges of the key `lkey (q ++ [t])` on the `n` sites right of `t` -/
def loopsL (q : List MKey) (t : MKey) (n : Nat) : List (Nat × Edge Key α) :=
  (List.range n).map (fun d => (t.1.toNat + 1 + d, (⟨lkey (q ++ [t]), lkey (q ++ [t]), t.2.2, 1⟩ : Edge Key α)))

theorem loopsL_succ (q : List MKey) (t : MKey) (n : Nat) :
    loopsL (α := α) q t (n + 1) =
      loopsL q t n ++ [(t.1.toNat + 1 + n, ⟨lkey (q ++ [t]), lkey (q ++ [t]), t.2.2, 1⟩)] := by
  unfold loopsL
  rw [List.range_succ, List.map_append]
  rfl

theorem canonL_loop (q : List MKey) (t : MKey) (k : Nat) (hk : t.1 < (k : Int)) :
    CanonL k (⟨lkey (q ++ [t]), lkey (q ++ [t]), t.2.2, 1⟩ : Edge Key α) :=
  ⟨q, t, rfl, rfl, Or.inr ⟨hk, rfl, rfl⟩⟩

theorem canonL_step (q : List MKey) (t : MKey) (k : Nat) (hk : t.1 = (k : Int)) :
    CanonL k (⟨lkey q, lkey (q ++ [t]), t.2.1, 1⟩ : Edge Key α) :=
  ⟨q, t, rfl, rfl, Or.inl ⟨hk, rfl, rfl⟩⟩

/-- `add_string_left_to_right` on a finite chain -/
theorem st_stringFoldL {L : Nat} (q : List MKey) (t : MKey) (h0 : 0 ≤ t.1) (g : Graph α)
    (S : Nat → List (Edge Key α)) (h : St L g S) :
    ∀ n : Nat, t.1 + 1 + (n : Int) ≤ (L : Int) →
      (((List.range n).map (fun (d : Nat) => t.1 + 1 + (d : Int))).foldl (strStep t.1 t.2.2)
        (g, lkey (q ++ [t]))).2 = lkey (q ++ [t]) ∧
      St L (((List.range n).map (fun (d : Nat) => t.1 + 1 + (d : Int))).foldl (strStep t.1 t.2.2)
        (g, lkey (q ++ [t]))).1 (ensList S (loopsL q t n)) := by
  intro n
  induction n with
  | zero => intro _; exact ⟨rfl, h⟩
  | succ n ih =>
    intro hn
    obtain ⟨ih1, ih2⟩ := ih (by omega)
    rw [List.range_succ, List.map_append, List.foldl_append]
    simp only [List.map_cons, List.map_nil, List.foldl_cons, List.foldl_nil]
    generalize hr : ((List.range n).map (fun (d : Nat) => t.1 + 1 + (d : Int))).foldl (strStep t.1 t.2.2)
      (g, lkey (q ++ [t])) = r at ih1 ih2
    obtain ⟨g', key'⟩ := r
    simp only at ih1 ih2
    subst ih1
    have hne : ¬ ((t.1 + 1 + (n : Int) - t.1).emod g'.L = 0) := by
      rw [ih2.1.1]
      show ¬ ((t.1 + 1 + (n : Int) - t.1) % (L : Int) = 0)
      rw [Int.emod_eq_of_lt (by omega) (by omega)]
      omega
    unfold strStep
    simp only [if_neg hne]
    refine ⟨trivial, ?_⟩
    rw [loopsL_succ, ensList_append]
    have := ih2.ensure_guard (t.1 + 1 + (n : Int)) (by omega) (by omega)
      (⟨lkey (q ++ [t]), lkey (q ++ [t]), t.2.2, 1⟩ : Edge Key α)
      (Or.inl (canonL_loop q t _ (by omega)))
    have e : (t.1 + 1 + (n : Int)).toNat = t.1.toNat + 1 + n := by omega
    rw [e] at this
    exact this

theorem st_addStringLR {L : Nat} (q : List MKey) (t : MKey) (h0 : 0 ≤ t.1) (j : Int) (hij : t.1 < j)
    (hj : j ≤ (L : Int)) (g : Graph α) (S : Nat → List (Edge Key α)) (h : St L g S) :
    (g.addStringLR t.1 j (lkey (q ++ [t])) t.2.2).2 = lkey (q ++ [t]) ∧
    St L (g.addStringLR t.1 j (lkey (q ++ [t])) t.2.2).1 (ensList S (loopsL q t (j - t.1 - 1).toNat)) := by
  rw [addStringLR_eq]
  exact st_stringFoldL q t h0 g S h (j - t.1 - 1).toNat (by omega)

/-- edges after the step of `t`: loops up to the next operator, its step, … -/
def tailChainL (q : List MKey) (t : MKey) : List MKey → List (Nat × Edge Key α)
  | [] => []
  | t' :: rest =>
    loopsL q t (t'.1 - t.1 - 1).toNat ++
      (t'.1.toNat, (⟨lkey (q ++ [t]), lkey (q ++ [t] ++ [t']), t'.2.1, 1⟩ : Edge Key α)) ::
        tailChainL (q ++ [t]) t' rest

/-- loop body of the walk along one path of `terms_left` -/
def pathStepL (acc : Graph α × Key × Int × String) (x : MKey) : Graph α × Key × Int × String :=
  let r := acc.1.addStringLR acc.2.2.1 x.1 acc.2.1 acc.2.2.2
  let keyJ := r.2.ext x.1 x.2.1 x.2.2
  (r.1.add x.1 r.2 keyJ x.2.1 1 true, keyJ, x.1, x.2.2)

theorem lkey_ext (q : List MKey) (t t' : MKey) :
    (lkey (q ++ [t])).ext t'.1 t'.2.1 t'.2.2 = lkey (q ++ [t] ++ [t']) := by
  rw [lkey_snoc, lkey_snoc]
  simp [Key.ext, keyAtoms_append, keyAtoms]

theorem st_pathFoldL {L : Nat} :
    ∀ (rest : List MKey) (q : List MKey) (t : MKey) (g : Graph α) (S : Nat → List (Edge Key α)),
      St L g S → ((t :: rest).map (·.1)).Pairwise (· < ·) → (∀ x ∈ t :: rest, 0 ≤ x.1 ∧ x.1 < (L : Int)) →
      ∃ (qf : List MKey) (tf : MKey) (g' : Graph α), qf ++ [tf] = q ++ t :: rest ∧
        rest.foldl pathStepL (g, lkey (q ++ [t]), t.1, t.2.2) = (g', lkey (qf ++ [tf]), tf.1, tf.2.2) ∧
        St L g' (ensList S (tailChainL q t rest)) := by
  intro rest
  induction rest with
  | nil =>
    intro q t g S h _ _
    exact ⟨q, t, g, rfl, rfl, h⟩
  | cons t' rest ih =>
    intro q t g S h hasc hb
    have ht := hb t List.mem_cons_self
    have ht' := hb t' (by simp)
    have hlt : t.1 < t'.1 := by
      simp only [List.map_cons, List.pairwise_cons] at hasc
      exact hasc.1 t'.1 (by simp)
    obtain ⟨s1, s2⟩ := st_addStringLR q t ht.1 t'.1 hlt (by omega) g S h
    have s3 := s2.ensure_add t'.1 ht'.1 ht'.2
      (⟨lkey (q ++ [t]), lkey (q ++ [t] ++ [t']), t'.2.1, 1⟩ : Edge Key α)
      (Or.inl (canonL_step (q ++ [t]) t' _ (by omega)))
    have hstep : pathStepL (g, lkey (q ++ [t]), t.1, t.2.2) t' =
        ((g.addStringLR t.1 t'.1 (lkey (q ++ [t])) t.2.2).1.add t'.1 (lkey (q ++ [t]))
          (lkey (q ++ [t] ++ [t'])) t'.2.1 1 true, lkey (q ++ [t] ++ [t']), t'.1, t'.2.2) := by
      unfold pathStepL
      simp only [s1, lkey_ext]
    obtain ⟨qf, tf, g', e1, e2, e3⟩ := ih (q ++ [t]) t' _ _ s3
      (by simp only [List.map_cons, List.pairwise_cons] at hasc ⊢; exact hasc.2)
      (fun x hx => hb x (List.mem_cons_of_mem _ hx))
    refine ⟨qf, tf, g', by rw [e1]; simp, ?_, ?_⟩
    · rw [List.foldl_cons, hstep]
      exact e2
    · show St L g' (ensList S (loopsL q t (t'.1 - t.1 - 1).toNat ++ _ :: tailChainL (q ++ [t]) t' rest))
      rw [ensList_append, ensList_cons]
      exact e3

/-- the final strings up to the switch sites of the counters stored at the end of the path -/
def finalL (mt : MultiCouplingTerms α) (qf : List MKey) (tf : MKey) (cs : List Nat) : List (Nat × Edge Key α) :=
  cs.flatMap (fun c => match mt.conns.getD c none with
    | some k => loopsL qf tf (k.switchLR - tf.1 - 1).toNat
    | none => [])

def counterStepL (mt : MultiCouplingTerms α) (st : Graph α × Key × Int × String)
    (acc : Graph α × List (Nat × Key)) (c : Nat) : Graph α × List (Nat × Key) :=
  match mt.conns.getD c none with
  | some k =>
    let r := acc.1.addStringLR st.2.2.1 k.switchLR st.2.1 st.2.2.2
    (r.1, acc.2 ++ [(c, r.2)])
  | none => acc

theorem st_counterFoldL {L : Nat} (mt : MultiCouplingTerms α) (qf : List MKey) (tf : MKey) (h0 : 0 ≤ tf.1)
    (g0 : Graph α) :
    ∀ (cs : List Nat) (g : Graph α) (S : Nat → List (Edge Key α)) (acc : List (Nat × Key)), St L g S →
      (∀ c ∈ cs, ∀ k, mt.conns.getD c none = some k → tf.1 < k.switchLR ∧ k.switchLR ≤ (L : Int)) →
      (cs.foldl (counterStepL mt (g0, lkey (qf ++ [tf]), tf.1, tf.2.2)) (g, acc)).2 =
        acc ++ cs.filterMap (fun c => (mt.conns.getD c none).map (fun _ => (c, lkey (qf ++ [tf])))) ∧
      St L (cs.foldl (counterStepL mt (g0, lkey (qf ++ [tf]), tf.1, tf.2.2)) (g, acc)).1
        (ensList S (finalL mt qf tf cs)) := by
  intro cs
  induction cs with
  | nil => intro g S acc h _; exact ⟨by simp, h⟩
  | cons c cs ih =>
    intro g S acc h hb
    rw [List.foldl_cons]
    cases hc : mt.conns.getD c none with
    | none =>
      have hstep : counterStepL mt (g0, lkey (qf ++ [tf]), tf.1, tf.2.2) (g, acc) c = (g, acc) := by
        unfold counterStepL; rw [hc]
      rw [hstep]
      obtain ⟨i1, i2⟩ := ih g S acc h (fun c' hc' => hb c' (List.mem_cons_of_mem _ hc'))
      refine ⟨?_, ?_⟩
      · rw [i1, List.filterMap_cons, hc]; rfl
      · have : finalL mt qf tf (c :: cs) = finalL mt qf tf cs := by
          unfold finalL; rw [List.flatMap_cons, hc]; rfl
        rw [this]; exact i2
    | some k =>
      have hk := hb c List.mem_cons_self k hc
      obtain ⟨s1, s2⟩ := st_addStringLR qf tf h0 k.switchLR hk.1 hk.2 g S h
      have hstep : counterStepL mt (g0, lkey (qf ++ [tf]), tf.1, tf.2.2) (g, acc) c =
          ((g.addStringLR tf.1 k.switchLR (lkey (qf ++ [tf])) tf.2.2).1, acc ++ [(c, lkey (qf ++ [tf]))]) := by
        unfold counterStepL; rw [hc]; simp only [s1]
      rw [hstep]
      obtain ⟨i1, i2⟩ := ih _ _ (acc ++ [(c, lkey (qf ++ [tf]))]) s2
        (fun c' hc' => hb c' (List.mem_cons_of_mem _ hc'))
      refine ⟨?_, ?_⟩
      · rw [i1, List.filterMap_cons, hc]; simp
      · have : finalL mt qf tf (c :: cs) =
            loopsL qf tf (k.switchLR - tf.1 - 1).toNat ++ finalL mt qf tf cs := by
          unfold finalL; rw [List.flatMap_cons, hc]
        rw [this, ensList_append]; exact i2

/-- all edges inserted for one root-to-counter path of `terms_left` -/
def edgesL (mt : MultiCouplingTerms α) (p : MPath) : List (Nat × Edge Key α) :=
  match p.path with
  | [] => []
  | t0 :: rest =>
    (t0.1.toNat, (⟨Key.IdL, lkey [t0], t0.2.1, 1⟩ : Edge Key α)) ::
      (tailChainL [] t0 rest ++
        finalL mt (t0 :: rest).dropLast ((t0 :: rest).getLast (by simp)) p.counters)

/-- the `(counter, key)` pairs returned for one path -/
def keysL (mt : MultiCouplingTerms α) (p : MPath) : List (Nat × Key) :=
  match p.path with
  | [] => p.counters.map (fun c => (c, Key.IdL))
  | _ :: _ => p.counters.filterMap (fun c => (mt.conns.getD c none).map (fun _ => (c, lkey p.path)))

theorem insertLeft_eq (mt : MultiCouplingTerms α) (g : Graph α) (p : MPath) (t0 : MKey) (rest : List MKey)
    (hp : p.path = t0 :: rest) :
    mt.insertLeft g p =
      p.counters.foldl (counterStepL mt
        (rest.foldl pathStepL (g.add t0.1 Key.IdL (lkey [t0]) t0.2.1 1 true, lkey [t0], t0.1, t0.2.2)))
        ((rest.foldl pathStepL (g.add t0.1 Key.IdL (lkey [t0]) t0.2.1 1 true, lkey [t0], t0.1, t0.2.2)).1, []) := by
  unfold MultiCouplingTerms.insertLeft
  rw [hp]
  rfl

theorem st_insertLeft {L : Nat} (mt : MultiCouplingTerms α) (p : MPath) (g : Graph α)
    (S : Nat → List (Edge Key α)) (h : St L g S)
    (hasc : (p.path.map (·.1)).Pairwise (· < ·)) (hb : ∀ x ∈ p.path, 0 ≤ x.1 ∧ x.1 < (L : Int))
    (hc : ∀ c ∈ p.counters, ∀ k, mt.conns.getD c none = some k →
      (∀ x ∈ p.path, x.1 < k.switchLR) ∧ k.switchLR ≤ (L : Int)) :
    (mt.insertLeft g p).2 = keysL mt p ∧ St L (mt.insertLeft g p).1 (ensList S (edgesL mt p)) := by
  cases hp : p.path with
  | nil =>
    unfold MultiCouplingTerms.insertLeft keysL edgesL
    rw [hp]
    exact ⟨rfl, h⟩
  | cons t0 rest =>
    rw [insertLeft_eq mt g p t0 rest hp]
    rw [hp] at hasc hb hc
    have ht0 := hb t0 List.mem_cons_self
    have s0 := h.ensure_add t0.1 ht0.1 ht0.2 (⟨Key.IdL, lkey [t0], t0.2.1, 1⟩ : Edge Key α)
      (Or.inl (canonL_step [] t0 _ (by omega)))
    obtain ⟨qf, tf, g', e1, e2, e3⟩ := st_pathFoldL rest [] t0 _ _ s0 hasc hb
    have e2' : rest.foldl pathStepL (g.add t0.1 Key.IdL (lkey [t0]) t0.2.1 1 true, lkey [t0], t0.1, t0.2.2) =
        (g', lkey (qf ++ [tf]), tf.1, tf.2.2) := e2
    rw [e2']
    have htf : tf ∈ t0 :: rest := by
      have : tf ∈ qf ++ [tf] := by simp
      rw [e1] at this
      simpa using this
    have hdl : (t0 :: rest).dropLast = qf := by
      have : t0 :: rest = qf ++ [tf] := by rw [e1]; rfl
      rw [this, List.dropLast_concat]
    have hgl : (t0 :: rest).getLast (by simp) = tf := by
      have : t0 :: rest = qf ++ [tf] := by rw [e1]; rfl
      simp only [this, List.getLast_append_singleton]
    obtain ⟨f1, f2⟩ := st_counterFoldL (L := L) mt qf tf (hb tf htf).1 g' p.counters g' _ [] e3
      (fun c hcc k hk => ⟨(hc c hcc k hk).1 tf htf, (hc c hcc k hk).2⟩)
    refine ⟨?_, ?_⟩
    · rw [f1, List.nil_append]
      unfold keysL
      rw [hp]
      simp only
      have : lkey (qf ++ [tf]) = lkey (t0 :: rest) := by rw [e1]; rfl
      rw [this]
    · unfold edgesL
      rw [hp]
      simp only
      rw [ensList_cons, ensList_append, hdl, hgl]
      exact f2

end

end TenpyModel.Ops
