import TenpyModel.C10.ExtProofsA
import TenpyModel.C10.TermsProofs
/-!
# C10 extension, proofs part B: graphs built with `MPOGraph.add` are well formed (every key of an edge is a
registered state, states are sets), hence `_build_grids` never meets an unregistered key; `build_MPO` denotes the
path sum of the graph.
-/
namespace TenpyModel.C10Ext
open TenpyModel.Ops
set_option linter.unusedSectionVars false

variable {α : Type}

/-- invariant of `MPOGraph`: what `test_sanity` asserts about keys, and `states[i]` being sets -/
structure GWF (g : Graph α) : Prop where
  nLayers : g.layers.length = g.L
  nStates : g.states.length = g.L + 1
  nodup : ∀ st ∈ g.states, st.Nodup
  reg : ∀ i e, e ∈ g.layers.getD i [] → e.kL ∈ g.states.getD i [] ∧ e.kR ∈ g.states.getD (i + 1) []

theorem mem_addState (l : List Key) (k x : Key) : x ∈ Graph.addState l k ↔ x ∈ l ∨ x = k := by
  unfold Graph.addState
  split
  · next h =>
    have hk : k ∈ l := by simpa using h
    constructor
    · exact Or.inl
    · rintro (h | h)
      · exact h
      · exact h ▸ hk
  · simp

theorem nodup_addState (l : List Key) (k : Key) (h : l.Nodup) : (Graph.addState l k).Nodup := by
  unfold Graph.addState
  split
  · exact h
  · next hk =>
    have hk' : k ∉ l := by simpa using hk
    exact List.nodup_append.2 ⟨h, by simp, by
      intro a ha b hb
      simp at hb
      subst hb
      exact fun h' => hk' (h' ▸ ha)⟩

theorem getD_modify (l : List (List Key)) (i j : Nat) (f : List Key → List Key) :
    (l.modify i f).getD j [] = if j = i ∧ j < l.length then f (l.getD j []) else l.getD j [] := by
  simp only [List.getD_eq_getElem?_getD, List.getElem?_modify]
  by_cases h : i = j
  · subst h
    by_cases h2 : i < l.length
    · simp [h2]
    · have : l[i]? = none := by simpa using h2
      simp [h2, this]
  · have h' : ¬ j = i := fun e => h e.symm
    simp [h, h']

theorem GWF.empty (L : Nat) (inf : Bool) : GWF (Graph.empty L inf : Graph α) where
  nLayers := by simp [Graph.empty]
  nStates := by simp [Graph.empty]
  nodup := by
    intro st hst
    simp [Graph.empty] at hst
    simp [hst]
  reg := by
    intro i e he
    simp [Graph.empty, List.getD_eq_getElem?_getD, List.getElem?_replicate] at he
    split at he <;> simp at he

/-- `Graph.add` with the site index already reduced -/
def addAt (g : Graph α) (k : Nat) (kL kR : Key) (op : String) (c : α) (skip : Bool) : Graph α :=
  let layer := g.layers.getD k []
  let ex := layer.filter (fun e => e.kL = kL && e.kR = kR)
  let push := ex.isEmpty || !skip || !(ex.any (fun e => e.op = op))
  { g with
    layers := if push then g.layers.set k (layer ++ [⟨kL, kR, op, c⟩]) else g.layers,
    states := (g.states.modify k (fun s => Graph.addState s kL)).modify (k + 1) (fun s => Graph.addState s kR) }

theorem add_eq_addAt (g : Graph α) (i : Int) (kL kR : Key) (op : String) (c : α) (skip : Bool) :
    g.add i kL kR op c skip = addAt g (g.siteOf i) kL kR op c skip := rfl

theorem GWF.atSite {g : Graph α} (h : GWF g) (k : Nat) (kL kR : Key) (op : String) (c : α) (skip : Bool) :
    GWF (addAt g k kL kR op c skip) := by
  have hst : (addAt g k kL kR op c skip).states =
      (g.states.modify k (fun s => Graph.addState s kL)).modify (k + 1) (fun s => Graph.addState s kR) := rfl
  have hL : (addAt g k kL kR op c skip).L = g.L := rfl
  have hmono : ∀ j x, x ∈ g.states.getD j [] → x ∈ (addAt g k kL kR op c skip).states.getD j [] := by
    intro j x hx
    rw [hst, getD_modify, getD_modify]
    split
    · rw [mem_addState]; left
      split
      · rw [mem_addState]; exact Or.inl hx
      · exact hx
    · split
      · rw [mem_addState]; exact Or.inl hx
      · exact hx
  have hlay : ∀ j e, e ∈ (addAt g k kL kR op c skip).layers.getD j [] →
      e ∈ g.layers.getD j [] ∨ (e = ⟨kL, kR, op, c⟩ ∧ j = k ∧ k < g.layers.length) := by
    intro j e he
    simp only [addAt] at he
    split at he
    · simp only [List.getD_eq_getElem?_getD, List.getElem?_set] at he ⊢
      by_cases hjk : k = j
      · subst hjk
        by_cases hlt : k < g.layers.length
        · simp only [hlt, if_true, Option.getD_some, List.mem_append, List.mem_singleton] at he
          rcases he with he | he
          · left; simpa [List.getD_eq_getElem?_getD] using he
          · right; exact ⟨he, rfl, hlt⟩
        · have : g.layers[k]? = none := by simpa using hlt
          simp [hlt, this] at he
      · simp only [hjk, if_false] at he
        left; exact he
    · left; exact he
  constructor
  · rw [hL, ← h.nLayers]
    simp only [addAt]
    split <;> simp
  · rw [hL, hst]; simp [h.nStates]
  · intro st hmem
    rw [hst] at hmem
    obtain ⟨j, hj, rfl⟩ := List.mem_iff_getElem.1 hmem
    have hj' : j < g.states.length := by simpa using hj
    have hnd : (g.states[j]).Nodup := h.nodup _ (List.getElem_mem hj')
    simp only [List.getElem_modify]
    split <;> split <;>
      first | exact hnd | exact nodup_addState _ _ hnd | exact nodup_addState _ _ (nodup_addState _ _ hnd)
  · intro j e he
    rcases hlay j e he with hold | ⟨rfl, rfl, hlt⟩
    · exact ⟨hmono _ _ (h.reg j e hold).1, hmono _ _ (h.reg j e hold).2⟩
    · have hks : j < g.states.length := by rw [h.nStates, ← h.nLayers]; omega
      have hks1 : j + 1 < g.states.length := by rw [h.nStates, ← h.nLayers]; omega
      constructor
      · rw [hst, getD_modify, getD_modify]
        have h1 : ¬ (j = j + 1 ∧ j < (g.states.modify j (fun s => Graph.addState s kL)).length) := by omega
        rw [if_neg h1, if_pos ⟨rfl, hks⟩, mem_addState]
        exact Or.inr rfl
      · rw [hst, getD_modify, if_pos ⟨rfl, by simpa using hks1⟩, mem_addState]
        exact Or.inr rfl

theorem GWF.add {g : Graph α} (h : GWF g) (i : Int) (kL kR : Key) (op : String) (c : α) (skip : Bool) :
    GWF (g.add i kL kR op c skip) := by
  rw [add_eq_addAt]; exact h.atSite _ _ _ _ _ _

theorem GWF.of_eq {g g' : Graph α} (h : GWF g) (hL : g'.L = g.L) (hl : g'.layers = g.layers)
    (hs : g'.states = g.states) : GWF g' :=
  ⟨by rw [hl, hL]; exact h.nLayers, by rw [hs, hL]; exact h.nStates, by rw [hs]; exact h.nodup,
   by rw [hl, hs]; exact h.reg⟩

theorem GWF.bump {g : Graph α} (h : GWF g) (r : MaxRange) : GWF (bumpRange g r) := by
  unfold bumpRange
  split
  · exact h
  · exact h.of_eq rfl rfl rfl

theorem foldl_inv {β γ : Type} (P : β → Prop) (f : β → γ → β) (hf : ∀ b x, P b → P (f b x)) (l : List γ)
    (b : β) (hb : P b) : P (l.foldl f b) := by
  induction l generalizing b with
  | nil => exact hb
  | cons x l ih => exact ih _ (hf b x hb)

section one
variable [One α]

theorem GWF.addStringLR {g : Graph α} (h : GWF g) (i j : Int) (key : Key) (op : String) :
    GWF (g.addStringLR i j key op).1 := by
  unfold Graph.addStringLR
  apply foldl_inv (fun acc : Graph α × Key => GWF acc.1) _ _ _ _ h
  intro acc k hacc
  dsimp only
  split_ifs <;> first | exact hacc | exact hacc.add _ _ _ _ _ _

theorem GWF.addStringRL {g : Graph α} (h : GWF g) (j i : Int) (key : Key) (op : String) :
    GWF (g.addStringRL j i key op).1 := by
  unfold Graph.addStringRL
  apply foldl_inv (fun acc : Graph α × Key => GWF acc.1) _ _ _ _ h
  intro acc k hacc
  dsimp only
  split_ifs <;> first | exact hacc | exact hacc.add _ _ _ _ _ _

theorem GWF.addMissing {g : Graph α} (h : GWF g) (insertAll : Bool) : GWF (g.addMissingIdLIdR insertAll) := by
  unfold Graph.addMissingIdLIdR
  dsimp only
  apply foldl_inv (fun g : Graph α => GWF g)
  · intro g k hg
    split
    · exact hg
    · exact hg.add _ _ _ _ _ _
  · apply foldl_inv (fun g : Graph α => GWF g) _ _ _ _ h
    intro g k hg
    split
    · exact hg
    · exact hg.add _ _ _ _ _ _

end one

theorem GWF.onsite {g : Graph α} (h : GWF g) (ot : OnsiteTerms α) : GWF (ot.addToGraph g) := by
  unfold OnsiteTerms.addToGraph
  apply GWF.bump
  apply foldl_inv (fun g : Graph α => GWF g) _ _ _ _ h
  intro g di hg
  apply foldl_inv (fun g : Graph α => GWF g) _ _ _ _ hg
  intro g os hg
  exact hg.add _ _ _ _ _ _

theorem GWF.coupling [One α] {g : Graph α} (h : GWF g) (ct : CouplingTerms α) : GWF (ct.addToGraph g) := by
  unfold CouplingTerms.addToGraph
  apply GWF.bump
  apply foldl_inv (fun g : Graph α => GWF g) _ _ _ _ h
  intro g id1 hg
  apply foldl_inv (fun g : Graph α => GWF g) _ _ _ _ hg
  intro g kd2 hg
  dsimp only
  apply foldl_inv (fun g : Graph α => GWF g) _ _ _ _ (hg.add _ _ _ _ _ _)
  intro g jd3 hg
  apply foldl_inv (fun g : Graph α => GWF g) _ _ _ _ (hg.addStringLR _ _ _ _)
  intro g os hg
  exact hg.add _ _ _ _ _ _

section multi
variable [One α]

theorem GWF.insertLeft {g : Graph α} (h : GWF g) (mt : MultiCouplingTerms α) (p : MPath) :
    GWF (mt.insertLeft g p).1 := by
  unfold MultiCouplingTerms.insertLeft
  split
  · exact h
  · dsimp only
    apply foldl_inv (fun acc : Graph α × List (Nat × Key) => GWF acc.1)
    · intro acc c hacc
      split
      · exact hacc.addStringLR _ _ _ _
      · exact hacc
    · apply foldl_inv (fun acc : Graph α × Key × Int × String => GWF acc.1) _ _ _ _ (h.add _ _ _ _ _ _)
      intro acc x hacc
      obtain ⟨g', key, i, s⟩ := acc
      obtain ⟨j, opj, sj⟩ := x
      exact (GWF.addStringLR hacc _ _ _ _).add _ _ _ _ _ _

theorem GWF.insertRight {g : Graph α} (h : GWF g) (mt : MultiCouplingTerms α) (p : MPath) :
    GWF (mt.insertRight g p).1 := by
  unfold MultiCouplingTerms.insertRight
  split
  · exact h
  · dsimp only
    apply foldl_inv (fun acc : Graph α × List (Nat × Key) => GWF acc.1)
    · intro acc c hacc
      split
      · exact hacc.addStringRL _ _ _ _
      · exact hacc
    · apply foldl_inv (fun acc : Graph α × Key × Int × String => GWF acc.1) _ _ _ _ (h.add _ _ _ _ _ _)
      intro acc x hacc
      obtain ⟨g', key, i, s⟩ := acc
      obtain ⟨j, opj, sj⟩ := x
      exact (GWF.addStringRL hacc _ _ _ _).add _ _ _ _ _ _

theorem GWF.multi {g : Graph α} (h : GWF g) (mt : MultiCouplingTerms α) : GWF (mt.addToGraph g) := by
  unfold MultiCouplingTerms.addToGraph
  have h1 : GWF (mt.left.foldl (fun (acc : Graph α × List (Nat × Key)) p =>
      let r := mt.insertLeft acc.1 p
      (r.1, acc.2 ++ r.2)) (g, [])).1 := by
    apply foldl_inv (fun acc : Graph α × List (Nat × Key) => GWF acc.1) _ _ _ _ h
    intro acc p hacc
    exact hacc.insertLeft mt p
  generalize (mt.left.foldl (fun (acc : Graph α × List (Nat × Key)) p =>
      let r := mt.insertLeft acc.1 p
      (r.1, acc.2 ++ r.2)) (g, [])) = a1 at h1
  obtain ⟨g1, kl⟩ := a1
  dsimp only
  have h2 : GWF (mt.right.foldl (fun (acc : Graph α × List (Nat × Key)) p =>
      let r := mt.insertRight acc.1 p
      (r.1, acc.2 ++ r.2)) (g1, [])).1 := by
    apply foldl_inv (fun acc : Graph α × List (Nat × Key) => GWF acc.1) _ _ _ (g1, []) h1
    intro acc p hacc
    exact hacc.insertRight mt p
  generalize (mt.right.foldl (fun (acc : Graph α × List (Nat × Key)) p =>
      let r := mt.insertRight acc.1 p
      (r.1, acc.2 ++ r.2)) (g1, [])) = a2 at h2
  obtain ⟨g2, kr⟩ := a2
  dsimp only
  apply GWF.bump
  apply foldl_inv (fun g : Graph α => GWF g) _ _ _ _ h2
  intro g' oc hg
  split
  · exact hg.add _ _ _ _ _ _
  · exact hg

end multi

section expdecay
variable [One α] [Inhabited α]

theorem GWF.expdecay {g : Graph α} (h : GWF g) (e : ExpDecayTerms α) : GWF (e.addToGraph g) := by
  unfold ExpDecayTerms.addToGraph
  dsimp only
  apply GWF.bump
  apply foldl_inv (fun acc : Graph α × Nat => GWF acc.1)
  · intro acc t hacc
    obtain ⟨g', nr⟩ := acc
    dsimp only at hacc ⊢
    have hL : ∀ (g0 : Graph α), GWF g0 → ∀ l : List Nat, GWF (l.foldl (fun (g : Graph α) j =>
        if t.subsites.contains j = true then
          (g.add j Key.IdL (ExpDecayTerms.expLabel nr) t.opj t.strength).add j (ExpDecayTerms.expLabel nr)
            (ExpDecayTerms.expLabel nr) t.str (t.lam.getD j default)
        else g.add j (ExpDecayTerms.expLabel nr) (ExpDecayTerms.expLabel nr) t.str 1) g0) := by
      intro g0 hg0 l
      apply foldl_inv (fun g : Graph α => GWF g) _ _ _ _ hg0
      intro g1 j hg1
      split_ifs <;> repeat' (first | exact hg1 | apply GWF.add)
    have hR : ∀ (g0 : Graph α), GWF g0 → ∀ l : List Nat, GWF (l.foldl (fun (g : Graph α) j =>
        if t.subsites.contains j = true then
          (g.add j (ExpDecayTerms.expLabel nr) (ExpDecayTerms.expLabel nr) t.str (t.lam.getD j default)).add j
            (ExpDecayTerms.expLabel nr) Key.IdR t.opj t.strength
        else g.add j (ExpDecayTerms.expLabel nr) (ExpDecayTerms.expLabel nr) t.str 1) g0) := by
      intro g0 hg0 l
      apply foldl_inv (fun g : Graph α => GWF g) _ _ _ _ hg0
      intro g1 j hg1
      split_ifs <;> repeat' (first | exact hg1 | apply GWF.add)
    split_ifs <;>
      repeat' (first | exact hacc | apply GWF.add | apply hR | apply hL)
  · apply foldl_inv (fun acc : Graph α × Nat => GWF acc.1) _ _ _ _ h
    intro acc t hacc
    obtain ⟨g', nr⟩ := acc
    dsimp only at hacc ⊢
    have hB : ∀ (g0 : Graph α), GWF g0 → ∀ l : List Nat, GWF (l.foldl (fun (g : Graph α) i =>
        let g := if t.subsites.contains i = true then
            (g.add i (ExpDecayTerms.expLabel nr) (ExpDecayTerms.expLabel nr) t.str (t.lam.getD i default)).add i
              (ExpDecayTerms.expLabel nr) Key.IdR t.opj t.strength
          else g
        let g := if t.subsitesStart.contains i = true then
            g.add i Key.IdL (ExpDecayTerms.expLabel nr) t.opi (t.lam.getD i default) else g
        if (!t.subsites.contains i) = true then g.add i (ExpDecayTerms.expLabel nr) (ExpDecayTerms.expLabel nr) t.str 1
        else g) g0) := by
      intro g0 hg0 l
      apply foldl_inv (fun g : Graph α => GWF g) _ _ _ _ hg0
      intro g1 j hg1
      dsimp only
      split_ifs <;> repeat' (first | exact hg1 | apply GWF.add)
    split_ifs
    · exact hB _ hacc _
    · apply GWF.add
      apply hB
      exact hacc.add _ _ _ _ _ _
    · exact hacc

end expdecay

theorem GWF.fromTerms [One α] [Inhabited α] (L : Nat) (infinite : Bool) (terms : List (AnyTerms α))
    (insertAll : Bool) : GWF (Graph.fromTerms L infinite terms insertAll) := by
  unfold Graph.fromTerms
  apply GWF.addMissing
  apply foldl_inv (fun g : Graph α => GWF g) _ _ _ _ (GWF.empty L infinite)
  intro g t hg
  cases t with
  | onsite t => exact hg.onsite t
  | coupling t => exact hg.coupling t
  | multi t => exact hg.multi t
  | expdecay t => exact hg.expdecay t

/-! ## ordered states -/

theorem orderedStates_length (g : Graph α) : g.orderedStates.length = g.states.length := by
  simp [Graph.orderedStates]

theorem orderedStates_nodup {g : Graph α} (h : GWF g) : ∀ st ∈ g.orderedStates, st.Nodup := by
  intro st hst
  obtain ⟨s, hs, rfl⟩ := List.mem_map.1 hst
  exact (sortBy_perm _ s).nodup_iff.2 (h.nodup s hs)

/-- no path ends in a key that is not a state of the last bond -/
theorem coeff_pathsFrom_zero [Semiring α] (fin : Key) :
    ∀ (layers : List (List (Edge Key α))) (sts : List (List Key)),
      sts.length = layers.length + 1 → gridsOk layers sts = true → fin ∉ sts.getLastD [] →
      ∀ k ∈ sts.headD [], ∀ t, coeff (pathsFrom fin layers k) t = 0 := by
  intro layers
  induction layers with
  | nil =>
    intro sts hlen _ hfin k hk t
    match sts, hlen with
    | [st], _ =>
      simp only [List.getLastD_cons, List.getLastD_nil, List.headD_cons] at hfin hk
      have : k ≠ fin := fun h => hfin (h ▸ hk)
      simp [this]
  | cons layer layers ih =>
    intro sts hlen hok hfin k hk t
    match sts, hlen with
    | stL :: stR :: sts', hlen =>
      simp only [gridsOk, Bool.and_eq_true] at hok
      simp only [List.headD_cons] at hk
      have hfin' : fin ∉ (stR :: sts').getLastD [] := by simpa [List.getLastD_cons] using hfin
      rw [coeff_pathsFrom_filter]
      apply List.sum_eq_zero
      intro x hx
      obtain ⟨e, he, rfl⟩ := List.mem_map.1 hx
      rw [List.mem_filter] at he
      have hkR : e.kR ∈ stR := gridOk_mem layer stL stR hok.1 k hk e he.1 (by simpa using he.2)
      apply (coeff_consOp_congr e.op e.c (s' := []) (fun t' => ?_) t).trans
      · cases t <;> simp [Sym.consOp]
      · simpa using ih (stR :: sts') (by simpa using hlen) hok.2 hfin' e.kR (by simpa using hkR) t'

/-- **`_build_grids`.**  On a well-formed graph the grids denote the path sum of the graph. -/
theorem buildGrids_denote [Semiring α] {g : Graph α} (h : GWF g) (grids : List (Grid α))
    (hb : buildGrids g = .ok grids) (l r : Nat)
    (hl : keyIdx (g.orderedStates.headD []) Key.IdL = some l)
    (hr : keyIdx (g.orderedStates.getLastD []) Key.IdR = some r) :
    Sym.Equiv (gridPaths r grids l) (denoteGraph g) := by
  unfold buildGrids at hb
  split at hb
  · next hok =>
    cases hb
    intro t
    exact coeff_gridPaths_gridsOf Key.IdR r g.layers g.orderedStates
      (by rw [orderedStates_length, h.nStates, h.nLayers]) (orderedStates_nodup h) hok hr Key.IdL l hl t
  · cases hb

/-- what a successful `build_MPO` returns -/
theorem buildMPO_ok {Q : Type} [Add Q] [Sub Q] [Zero Q] [DecidableEq Q] {g : Graph α} {cd : ChargeData Q}
    {ucw : Nat} {m : GMPO α Q} (hb : buildMPO g cd ucw = .ok m) :
    ∃ grids legs, buildGrids g = .ok grids ∧ legcharges g cd = .ok legs ∧ m.grids = grids ∧
      m.idL = g.orderedStates.map (fun s => keyIdx s Key.IdL) ∧
      m.idR = g.orderedStates.map (fun s => keyIdx s Key.IdR) ∧ m.legs = legs ∧
      ruleOk g.layers g.orderedStates cd legs = true ∧ testSanity g cd.known = true ∧
      m.bc = (if g.infinite then Bc.infinite else Bc.finite) := by
  unfold buildMPO at hb
  cases hgr : buildGrids g with
  | error e =>
    rw [hgr] at hb
    split_ifs at hb
  | ok grids =>
    cases hleg : legcharges g cd with
    | error e =>
      rw [hgr, hleg] at hb
      split_ifs at hb
    | ok legs =>
      rw [hgr, hleg] at hb
      refine ⟨grids, legs, rfl, rfl, ?_⟩
      dsimp only at hb
      by_cases h1 : testSanity g cd.known = true
      · by_cases h2 : ruleOk g.layers g.orderedStates cd legs = true
        · simp only [h1, h2, Bool.not_true, Bool.false_eq_true, if_false] at hb
          split_ifs at hb <;> (cases hb; simp_all)
        · simp [h1, h2] at hb
      · simp [h1] at hb

end TenpyModel.C10Ext
