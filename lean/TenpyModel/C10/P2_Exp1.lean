import TenpyModel.C10.P2_MultiFinal
/-!
# C10 / Props2: `ExponentiallyDecayingTerms.add_to_graph` on a finite chain, part 1:
closed form `expNew` of the appended edges and the `Rep` theorem

Every `add` of `ExpDecayTerms.addToGraph` is made without `skip_existing`, so every call appends exactly
one edge and the appended edges do not depend on the graph.
-/
namespace TenpyModel.Ops

section defs
variable {α : Type} [One α] [Inhabited α]

/-- `lambda_[i]` -/
def lamAt (lam : List α) (i : Nat) : α := lam.getD i default

def ExpTerm.first (t : ExpTerm α) : Nat := t.subsitesStart.headD 0
def ExpTerm.last (t : ExpTerm α) : Nat := t.subsites.getLastD 0
def CenteredTerm.first (t : CenteredTerm α) : Nat := t.subsites.headD 0
def CenteredTerm.last (t : CenteredTerm α) : Nat := t.subsites.getLastD 0

/-- edges appended by one pass of the loop body (plain term) on site `i`, in the order of insertion -/
def ExpTerm.bodyEdges (t : ExpTerm α) (lab : Key) (i : Nat) : List (Edge Key α) :=
  ((if t.subsites.contains i then
      [⟨lab, lab, t.str, lamAt t.lam i⟩, ⟨lab, Key.IdR, t.opj, t.strength⟩] else []) ++
   (if t.subsitesStart.contains i then [⟨Key.IdL, lab, t.opi, lamAt t.lam i⟩] else [])) ++
   (if !t.subsites.contains i then [⟨lab, lab, t.str, 1⟩] else [])

/-- edges appended for one plain term on site `k` of a finite chain, in the order of insertion -/
def ExpTerm.edgesAt (t : ExpTerm α) (lab : Key) (k : Nat) : List (Edge Key α) :=
  if t.first < t.last then
    ((if k = t.first then [⟨Key.IdL, lab, t.opi, lamAt t.lam t.first⟩] else []) ++
     (if t.first + 1 ≤ k ∧ k < t.first + 1 + (t.last - t.first - 1) then t.bodyEdges lab k else [])) ++
     (if k = t.last then [⟨lab, Key.IdR, t.opj, t.strength⟩] else [])
  else []

/-- loop body of the left part (`j < i`) of a centred term -/
def CenteredTerm.bodyL (t : CenteredTerm α) (lab : Key) (j : Nat) : List (Edge Key α) :=
  if t.subsites.contains j then
    [⟨Key.IdL, lab, t.opj, t.strength⟩, ⟨lab, lab, t.str, lamAt t.lam j⟩]
  else [⟨lab, lab, t.str, 1⟩]

/-- loop body of the right part (`j > i`) of a centred term -/
def CenteredTerm.bodyR (t : CenteredTerm α) (lab : Key) (j : Nat) : List (Edge Key α) :=
  if t.subsites.contains j then
    [⟨lab, lab, t.str, lamAt t.lam j⟩, ⟨lab, Key.IdR, t.opj, t.strength⟩]
  else [⟨lab, lab, t.str, 1⟩]

def CenteredTerm.edgesL (t : CenteredTerm α) (lab : Key) (k : Nat) : List (Edge Key α) :=
  if t.i ≠ t.first then
    ((if k = t.first then [⟨Key.IdL, lab, t.opj, t.strength⟩] else []) ++
     (if t.first + 1 ≤ k ∧ k < t.first + 1 + (t.i - t.first - 1) then t.bodyL lab k else [])) ++
     (if k = t.i then [⟨lab, Key.IdR, t.opi, lamAt t.lam t.i⟩] else [])
  else []

def CenteredTerm.edgesR (t : CenteredTerm α) (lab : Key) (k : Nat) : List (Edge Key α) :=
  if t.i ≠ t.last then
    ((if k = t.i then [⟨Key.IdL, lab, t.opi, lamAt t.lam t.i⟩] else []) ++
     (if t.i + 1 ≤ k ∧ k < t.i + 1 + (t.last - t.i - 1) then t.bodyR lab k else [])) ++
     (if k = t.last then [⟨lab, Key.IdR, t.opj, t.strength⟩] else [])
  else []

/-- edges appended for one centred term on site `k`, in the order of insertion -/
def CenteredTerm.edgesAt (t : CenteredTerm α) (lab : Key) (k : Nat) : List (Edge Key α) :=
  t.edgesL lab k ++ t.edgesR lab k

/-- edges appended on site `k` by `ExpDecayTerms.addToGraph` on a finite chain (closed form, in the order
of insertion) -/
def expNew (e : ExpDecayTerms α) (k : Nat) : List (Edge Key α) :=
  (e.terms.zipIdx 1000).flatMap (fun p => p.1.edgesAt (ExpDecayTerms.expLabel p.2) k) ++
  (e.centered.zipIdx (1000 + e.terms.length)).flatMap (fun p => p.1.edgesAt (ExpDecayTerms.expLabel p.2) k)

end defs

/-- hypotheses on a container on the finite chain `0 … e.L-1`: what python asserts when the terms are added
(`subsites`, `subsites_start` sorted — here strictly — and inside the chain; `subsites_start[0]` exists;
`i in subsites` for a centred term) -/
structure ExpDecayTerms.FWF {α : Type} (e : ExpDecayTerms α) : Prop where
  subs : ∀ t ∈ e.terms, t.subsites.Pairwise (· < ·) ∧ ∀ j ∈ t.subsites, j < e.L
  starts : ∀ t ∈ e.terms, t.subsitesStart.Pairwise (· < ·) ∧ (∀ j ∈ t.subsitesStart, j < e.L) ∧
    t.subsitesStart ≠ []
  csubs : ∀ t ∈ e.centered, t.subsites.Pairwise (· < ·) ∧ (∀ j ∈ t.subsites, j < e.L) ∧ t.i ∈ t.subsites

/-! ## `Rep` together with `infinite = false` -/
section rep
variable {α : Type}

def RepF (L : Nat) (g : Graph α) (S : Nat → List (Edge Key α)) : Prop := Rep L g S ∧ g.infinite = false

theorem RepF.congr_eq {L : Nat} {g : Graph α} {S S' : Nat → List (Edge Key α)} (h : RepF L g S)
    (hS : ∀ k, k < L → S k = S' k) : RepF L g S' := ⟨h.1.congr_eq hS, h.2⟩

theorem RepF.add {L : Nat} {g : Graph α} {S : Nat → List (Edge Key α)} (h : RepF L g S) (i : Nat) (hi : i < L)
    (kL kR : Key) (op : String) (c : α) :
    RepF L (g.add (i : Int) kL kR op c) (fun k => S k ++ if k = i then [⟨kL, kR, op, c⟩] else []) := by
  refine ⟨?_, h.2⟩
  have := h.1.add (i : Int) (by omega) (by omega) kL kR op c false (Or.inl rfl)
  refine this.congr_eq ?_
  intro k _
  unfold upd
  rw [Int.toNat_natCast]
  by_cases e : k = i
  · rw [if_pos e, if_pos e]
  · rw [if_neg e, if_neg e, List.append_nil]

/-- a loop `for i in range(a + 1, a + 1 + n)` whose body appends `B i` on site `i` -/
theorem repF_rangeFold {L : Nat} (body : Graph α → Nat → Graph α) (B : Nat → List (Edge Key α))
    (hbody : ∀ g S i, i < L → RepF L g S → RepF L (body g i) (fun k => S k ++ if k = i then B i else []))
    (a : Nat) : ∀ n g S, a + 1 + n ≤ L → RepF L g S →
      RepF L (((List.range n).map (· + a + 1)).foldl body g)
        (fun k => S k ++ if a + 1 ≤ k ∧ k < a + 1 + n then B k else []) := by
  intro n
  induction n with
  | zero =>
    intro g S _ h
    refine h.congr_eq ?_
    intro k _
    rw [if_neg (by omega), List.append_nil]
  | succ n ih =>
    intro g S hn h
    rw [List.range_succ, List.map_append, List.foldl_append]
    simp only [List.map_cons, List.map_nil, List.foldl_cons, List.foldl_nil]
    have h1 := ih g S (by omega) h
    have h2 := hbody _ _ (n + a + 1) (by omega) h1
    refine h2.congr_eq ?_
    intro k _
    by_cases e : k = n + a + 1
    · subst e
      rw [if_neg (by omega), if_pos rfl, if_pos (by omega), List.append_nil]
    · rw [if_neg e, List.append_nil]
      congr 1
      apply if_congr _ rfl rfl
      omega

end rep

end TenpyModel.Ops
