import TenpyModel.C10.P2_Exp9
/-!
# C10 / Props2: the MPO graph of exponentially decaying terms denotes the sum of the terms (finite chain)

Deliverables:
* `expNew`, `ExpDecayTerms.FWF` (defined in `P2_Exp1`), `exp_addToGraph_rep` (`P2_Exp2`)
* `expNew_keys`, `exp_paths`, `exp_fromTerms` (here)

`FWF` contains, in addition to the sortedness / range hypotheses, `subsitesStart ≠ []` for every plain term:
python evaluates `subsites_start[0]` (IndexError otherwise); the model's `headD 0` would open a spurious term
at site 0.
-/
namespace TenpyModel.Ops

/-! ## keys of the new edges (no hypotheses) -/
section keys
variable {α : Type}

def KeysIn (lab : Key) (l : List (Edge Key α)) : Prop :=
  ∀ x ∈ l, (x.kL = Key.IdL ∨ x.kL = lab) ∧ (x.kR = Key.IdR ∨ x.kR = lab)

theorem KeysIn.nil (lab : Key) : KeysIn lab ([] : List (Edge Key α)) := by
  intro x hx; simp at hx

theorem KeysIn.append {lab : Key} {a b : List (Edge Key α)} (ha : KeysIn lab a) (hb : KeysIn lab b) :
    KeysIn lab (a ++ b) := by
  intro x hx
  rcases List.mem_append.1 hx with h | h
  · exact ha x h
  · exact hb x h

theorem KeysIn.ite {lab : Key} (c : Prop) [Decidable c] {a b : List (Edge Key α)} (ha : KeysIn lab a)
    (hb : KeysIn lab b) : KeysIn lab (if c then a else b) := by
  split
  · exact ha
  · exact hb

theorem KeysIn.cons {lab : Key} {x : Edge Key α} {l : List (Edge Key α)}
    (hx : (x.kL = Key.IdL ∨ x.kL = lab) ∧ (x.kR = Key.IdR ∨ x.kR = lab)) (hl : KeysIn lab l) :
    KeysIn lab (x :: l) := by
  intro y hy
  rcases List.mem_cons.1 hy with e | h
  · subst e; exact hx
  · exact hl y h

end keys

section keys2
variable {α : Type} [One α] [Inhabited α]

theorem ExpTerm.edgesAt_keys (t : ExpTerm α) (lab : Key) (k : Nat) : KeysIn lab (t.edgesAt lab k) := by
  unfold ExpTerm.edgesAt ExpTerm.bodyEdges
  repeat' first
    | exact ⟨Or.inl rfl, Or.inl rfl⟩
    | exact ⟨Or.inl rfl, Or.inr rfl⟩
    | exact ⟨Or.inr rfl, Or.inl rfl⟩
    | exact ⟨Or.inr rfl, Or.inr rfl⟩
    | exact KeysIn.nil _
    | refine KeysIn.cons ?_ ?_
    | refine KeysIn.ite _ ?_ ?_
    | refine KeysIn.append ?_ ?_

theorem CenteredTerm.edgesAt_keys (t : CenteredTerm α) (lab : Key) (k : Nat) : KeysIn lab (t.edgesAt lab k) := by
  unfold CenteredTerm.edgesAt CenteredTerm.edgesL CenteredTerm.edgesR CenteredTerm.bodyL CenteredTerm.bodyR
  repeat' first
    | exact ⟨Or.inl rfl, Or.inl rfl⟩
    | exact ⟨Or.inl rfl, Or.inr rfl⟩
    | exact ⟨Or.inr rfl, Or.inl rfl⟩
    | exact ⟨Or.inr rfl, Or.inr rfl⟩
    | exact KeysIn.nil _
    | refine KeysIn.cons ?_ ?_
    | refine KeysIn.ite _ ?_ ?_
    | refine KeysIn.append ?_ ?_

theorem expNew_keys (e : ExpDecayTerms α) (k : Nat) : ∀ x ∈ expNew e k,
    (x.kL = Key.IdL ∨ ∃ nr, x.kL = ExpDecayTerms.expLabel nr) ∧
    (x.kR = Key.IdR ∨ ∃ nr, x.kR = ExpDecayTerms.expLabel nr) := by
  intro x hx
  unfold expNew at hx
  rcases List.mem_append.1 hx with h | h
  · obtain ⟨p, _, hp⟩ := List.mem_flatMap.1 h
    have := p.1.edgesAt_keys (ExpDecayTerms.expLabel p.2) k x hp
    exact ⟨this.1.imp id (fun h => ⟨_, h⟩), this.2.imp id (fun h => ⟨_, h⟩)⟩
  · obtain ⟨p, _, hp⟩ := List.mem_flatMap.1 h
    have := p.1.edgesAt_keys (ExpDecayTerms.expLabel p.2) k x hp
    exact ⟨this.1.imp id (fun h => ⟨_, h⟩), this.2.imp id (fun h => ⟨_, h⟩)⟩

theorem expLabel_ne_IdL (nr : Nat) : ExpDecayTerms.expLabel nr ≠ Key.IdL := by
  simp [ExpDecayTerms.expLabel, Key.IdL]

theorem expLabel_ne_IdR (nr : Nat) : ExpDecayTerms.expLabel nr ≠ Key.IdR := by
  simp [ExpDecayTerms.expLabel, Key.IdR]

theorem expLabel_inj (a b : Nat) (h : ExpDecayTerms.expLabel a = ExpDecayTerms.expLabel b) : a = b := by
  simpa [ExpDecayTerms.expLabel] using h

end keys2

/-! ## the components of a container -/
section comps
variable {α : Type} [CommSemiring α] [Inhabited α]

def expComps (e : ExpDecayTerms α) : List (Comp α) :=
  (e.terms.zipIdx 1000).map (fun p => p.1.comp (ExpDecayTerms.expLabel p.2)) ++
  (e.centered.zipIdx (1000 + e.terms.length)).map (fun p => p.1.comp (ExpDecayTerms.expLabel p.2))

theorem expNew_layer (e : ExpDecayTerms α) :
    (fun k => expNew e k ++ idLoops) = compsLayer (expComps e) := by
  funext k
  simp only [expNew, compsLayer, expComps, List.flatMap_append, List.flatMap_map]
  rfl

theorem zipIdx_pairwise_snd {τ : Type} (l : List τ) : ∀ n, (l.zipIdx n).Pairwise (fun p q => p.2 ≠ q.2) := by
  induction l with
  | nil => intro n; simp
  | cons a l ih =>
    intro n
    rw [List.zipIdx_cons, List.pairwise_cons]
    refine ⟨?_, ih (n + 1)⟩
    intro q hq
    obtain ⟨x, i⟩ := q
    have := (List.mem_zipIdx hq).1
    simp only [ne_eq]
    omega

theorem expComps_pairwise (e : ExpDecayTerms α) :
    (expComps e).Pairwise (fun x y => x.lab ≠ y.lab) := by
  unfold expComps
  rw [List.pairwise_append]
  refine ⟨?_, ?_, ?_⟩
  · rw [List.pairwise_map]
    exact (zipIdx_pairwise_snd e.terms 1000).imp (fun h hl => h (expLabel_inj _ _ hl))
  · rw [List.pairwise_map]
    exact (zipIdx_pairwise_snd e.centered _).imp (fun h hl => h (expLabel_inj _ _ hl))
  · intro a ha b hb hl
    obtain ⟨p, hp, rfl⟩ := List.mem_map.1 ha
    obtain ⟨q, hq, rfl⟩ := List.mem_map.1 hb
    obtain ⟨x, i⟩ := p
    obtain ⟨y, j⟩ := q
    have h1 := (List.mem_zipIdx hp).2.1
    have h2 := (List.mem_zipIdx hq).1
    have := expLabel_inj _ _ hl
    simp only at this
    omega

omit [CommSemiring α] [Inhabited α] in
theorem ExpDecayTerms.FWF.term_OK {e : ExpDecayTerms α} (hwf : e.FWF) (t : ExpTerm α) (ht : t ∈ e.terms) :
    t.OK e.L :=
  ⟨(hwf.subs t ht).1, (hwf.subs t ht).2, (hwf.starts t ht).1, (hwf.starts t ht).2.1, (hwf.starts t ht).2.2⟩

omit [CommSemiring α] [Inhabited α] in
theorem ExpDecayTerms.FWF.cent_OK {e : ExpDecayTerms α} (hwf : e.FWF) (t : CenteredTerm α) (ht : t ∈ e.centered) :
    t.OK e.L :=
  ⟨(hwf.csubs t ht).1, (hwf.csubs t ht).2.1, (hwf.csubs t ht).2.2⟩

theorem expComps_OK (e : ExpDecayTerms α) (hwf : e.FWF) : ∀ c ∈ expComps e, c.OK := by
  intro c hc
  unfold expComps at hc
  rcases List.mem_append.1 hc with h | h
  · obtain ⟨p, hp, rfl⟩ := List.mem_map.1 h
    obtain ⟨t, i⟩ := p
    have ht : t ∈ e.terms := by
      have := (List.mem_zipIdx hp).2.2
      rw [this]
      exact List.getElem_mem _
    exact t.comp_OK e.L (hwf.term_OK t ht) _ (expLabel_ne_IdL _) (expLabel_ne_IdR _)
  · obtain ⟨p, hp, rfl⟩ := List.mem_map.1 h
    obtain ⟨t, i⟩ := p
    have ht : t ∈ e.centered := by
      have := (List.mem_zipIdx hp).2.2
      rw [this]
      exact List.getElem_mem _
    exact t.comp_OK e.L (hwf.cent_OK t ht) _ (expLabel_ne_IdL _) (expLabel_ne_IdR _)

omit [Inhabited α] in
theorem flatMap_zipIdx_equiv {τ : Type} (l : List τ) (F : τ × Nat → Sym α) (G : τ → Sym α)
    (h : ∀ t ∈ l, ∀ nr, Sym.Equiv (F (t, nr)) (G t)) :
    ∀ n, Sym.Equiv ((l.zipIdx n).flatMap F) (l.flatMap G) := by
  induction l with
  | nil => intro n; exact Sym.Equiv.refl _
  | cons a l ih =>
    intro n
    rw [List.zipIdx_cons, List.flatMap_cons, List.flatMap_cons]
    exact Sym.Equiv.append (h a List.mem_cons_self n)
      (ih (fun t ht => h t (List.mem_cons_of_mem _ ht)) (n + 1))

end comps

/-! ## the theorems -/
section main
variable {α : Type} [CommSemiring α] [Inhabited α]

/-- **the weighted-automaton identity**: the closed form of the appended edges (plus the identity loops)
denotes the terms of `to_TermList(cutoff=0, bc='finite')` -/
theorem exp_paths (L : Nat) (e : ExpDecayTerms α) (he : e.L = L) (hwf : e.FWF) :
    Sym.Equiv (pathsFrom Key.IdR (layersOf L (fun k => expNew e k ++ idLoops)) Key.IdL)
      (STermList.denote L (e.toTermListFinite (fun _ => false))) := by
  subst he
  rw [layersOf_eq_layersFrom, expNew_layer]
  refine ((paths_additive (expComps e) (expComps_OK e hwf) (expComps_pairwise e) e.L 0).2).trans ?_
  rw [toTermListFinite_eq]
  unfold STermList.denote
  rw [List.map_append, List.map_flatMap, List.map_flatMap]
  unfold expComps
  rw [List.flatMap_append, List.flatMap_map, List.flatMap_map]
  apply Sym.Equiv.append
  · apply flatMap_zipIdx_equiv
    intro t ht nr
    have hok := hwf.term_OK t ht
    refine ((t.suffix e.L hok _ (expLabel_ne_IdL nr) (expLabel_ne_IdR nr) e.L 0 (by omega)).2).trans ?_
    have := t.termList_denote e.L hok
    unfold STermList.denote at this
    rw [this]
    exact Sym.Equiv.refl _
  · apply flatMap_zipIdx_equiv
    intro t ht nr
    have hok := hwf.cent_OK t ht
    refine ((t.suffix e.L hok _ (expLabel_ne_IdL nr) (expLabel_ne_IdR nr) e.L 0 (by omega)).2.2).trans ?_
    exact (t.termList_denote e.L hok).symm

/-- **`MPOGraph.from_terms` of exponentially decaying terms on a finite chain denotes the sum of the terms** -/
theorem exp_fromTerms (L : Nat) (e : ExpDecayTerms α) (he : e.L = L) (hwf : e.FWF) :
    Sym.Equiv (denoteGraph (Graph.fromTerms L false [.expdecay e]))
      (STermList.denote L (e.toTermListFinite (fun _ => false))) := by
  have e0 : Graph.fromTerms L false [.expdecay e] =
      (e.addToGraph (Graph.empty L false)).addMissingIdLIdR true := rfl
  rw [e0]
  obtain ⟨r2, _⟩ := exp_addToGraph_rep L e he hwf _ _ (Rep.empty (α := α) L false) rfl
  rw [addMissing_eq, r2.1]
  have r3 := rep_idFold Key.IdL _ _ r2 (by
    intro k _ x hx hc
    rw [List.nil_append] at hx
    rcases (expNew_keys e k x hx).2 with h | ⟨nr, h⟩
    · exact IdL_ne_IdR (hc.2.symm.trans h)
    · exact expLabel_ne_IdL nr (h.symm.trans hc.2)) L (le_refl _)
  have r4 := rep_idFold Key.IdR _ _ r3 (by
    intro k _ x hx hc
    rcases List.mem_append.1 hx with hx | hx
    · rw [List.nil_append] at hx
      rcases (expNew_keys e k x hx).1 with h | ⟨nr, h⟩
      · exact IdL_ne_IdR (h.symm.trans hc.1)
      · exact expLabel_ne_IdR nr (h.symm.trans hc.1)
    · by_cases c : k < L
      · rw [if_pos c, List.mem_singleton] at hx
        subst hx
        exact IdL_ne_IdR hc.1
      · rw [if_neg c] at hx
        simp at hx) L (le_refl _)
  unfold denoteGraph
  refine (pathsFrom_equiv_of_forall2 Key.IdR (rep_forall2_layersOf r4) Key.IdL).trans ?_
  refine Sym.Equiv.trans ?_ (exp_paths L e he hwf)
  apply pathsFrom_equiv_of_forall2
  apply forall2_layersOf
  intro k hk
  simp only [if_pos hk, List.nil_append]
  unfold idLoops
  rw [List.append_assoc]
  exact List.Perm.refl _

end main

/-! ## non-vacuity: concrete containers over `Int` -/
section nonvacuity

def expExA : ExpTerm Int := ⟨7, [2, 3, 5, 11, 13], "A", "B", [0, 2, 3], [0, 2, 3], "S"⟩
/-- `subsitesStart ≠ subsites` -/
def expExB : ExpTerm Int := ⟨-3, [19, 23, 29, 31, 37], "C", "D", [1, 2, 4], [0, 1, 3], "T"⟩
def expExC : CenteredTerm Int := ⟨5, [43, 47, 53, 59, 61], "E", "F", 2, [0, 2, 3, 4], "U"⟩
def expExE : ExpDecayTerms Int := ⟨5, [expExA, expExB], []⟩
def expExE2 : ExpDecayTerms Int := ⟨5, [expExA, expExB], [expExC]⟩

example : expExE.FWF := ⟨by decide, by decide, by decide⟩
example : expExE2.FWF := ⟨by decide, by decide, by decide⟩

example : canon 0 (denoteGraph (Graph.fromTerms 5 false [.expdecay expExE])) =
    canon 0 (STermList.denote 5 (expExE.toTermListFinite (fun _ => false))) := by decide +kernel

example : canon 0 (denoteGraph (Graph.fromTerms 5 false [.expdecay expExE2])) =
    canon 0 (STermList.denote 5 (expExE2.toTermListFinite (fun _ => false))) := by decide +kernel

/-- the sums are not trivial: 3 + 6 + 3 different operator strings -/
example : (canon 0 (STermList.denote 5 (expExE2.toTermListFinite (fun _ => false)))).length = 12 := by
  decide +kernel

/-- the hypothesis `subsitesStart ≠ []` of `FWF` is needed for the MODEL: python raises `IndexError` at
`subsites_start[0]`, the model's `headD 0` opens a term at site 0 that `to_TermList` does not list -/
example : canon 0 (denoteGraph (Graph.fromTerms 3 false
      [.expdecay (⟨3, [⟨1, [2, 3, 5], "A", "B", [0, 2], [], "S"⟩], []⟩ : ExpDecayTerms Int)])) ≠
    canon 0 (STermList.denote 3 ((⟨3, [⟨1, [2, 3, 5], "A", "B", [0, 2], [], "S"⟩], []⟩ :
      ExpDecayTerms Int).toTermListFinite (fun _ => false))) := by decide +kernel

end nonvacuity

end TenpyModel.Ops
