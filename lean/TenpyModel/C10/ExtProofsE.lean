import TenpyModel.C10.ExtProofsD
/-!
# C10 extension, proofs part E: `sort_legcharges` keeps the operator (relabelling the virtual indices by
permutations)
-/
namespace TenpyModel.C10Ext
open TenpyModel.Ops
set_option linter.unusedSectionVars false

/-! ## the sorting permutation -/

theorem insStable_perm {β : Type} (lt : β → β → Bool) (x : β) (l : List β) : (insStable lt x l).Perm (x :: l) := by
  induction l with
  | nil => exact List.Perm.refl _
  | cons q qs ih =>
    unfold insStable
    split
    · exact (List.Perm.cons q ih).trans (List.Perm.swap x q qs)
    · exact List.Perm.refl _

theorem stableSort_perm {β : Type} (lt : β → β → Bool) (l : List β) : (stableSort lt l).Perm l := by
  induction l with
  | nil => exact List.Perm.refl _
  | cons x l ih =>
    unfold stableSort
    exact (insStable_perm lt x _).trans (List.Perm.cons x ih)

theorem sortPerm_perm {Q : Type} (lt : Q → Q → Bool) (leg : List Q) :
    (sortPerm lt leg).Perm (List.range leg.length) := by
  unfold sortPerm
  refine ((stableSort_perm _ leg.zipIdx).map _).trans ?_
  cases leg with
  | nil => simp
  | cons d l =>
    rw [zipIdx_eq_range_map (d :: l) d, List.map_map]
    simp [Function.comp_def]

theorem posIn_getElem? {p : List Nat} {x k : Nat} (h : posIn p x = some k) : p[k]? = some x := by
  unfold posIn at h
  split at h
  · next k' hk =>
    cases h
    rw [List.findIdx?_eq_some_iff_getElem] at hk
    obtain ⟨hlt, hp, _⟩ := hk
    rw [List.getElem?_eq_getElem hlt]
    simpa using hp
  · cases h

variable {α : Type} [Monoid α]

/-! ## relabelling -/

/-- `chis[i]` rows and `chis[i+1]` columns in the `i`-th grid -/
def ShapedL : List (Grid α) → List Nat → Prop
  | G :: Gs, c :: c' :: cs => G.length = c ∧ (∀ row ∈ G, row.length = c') ∧ ShapedL Gs (c' :: cs)
  | [], [_] => True
  | _, _ => False

theorem permuteGrid_getD (G : Grid α) (p q : List Nat) (a' a : Nat) (h : p[a']? = some a) :
    (permuteGrid G p q).getD a' [] = q.map (fun b => (G.getD a []).getD b []) := by
  simp [permuteGrid, List.getD_eq_getElem?_getD, List.getElem?_map, h]

theorem gridPaths_permute (r : Nat) :
    ∀ (grids : List (Grid α)) (perms : List (List Nat)) (chis : List Nat),
      ShapedL grids chis → List.Forall₂ (fun p c => p.Perm (List.range c)) perms chis →
      ∀ r', posIn (perms.getLastD []) r = some r' →
      ∀ a' a, (perms.headD [])[a']? = some a →
        (gridPaths r' (permuteGrids grids perms) a').Perm (gridPaths r grids a) := by
  intro grids
  induction grids with
  | nil =>
    intro perms chis hs hp r' hr a' a ha
    match chis, perms, hs, hp with
    | [c], [p], _, hp =>
      have hpc : p.Perm (List.range c) := by cases hp; assumption
      simp only [List.getLastD_cons, List.getLastD_nil, List.headD_cons] at hr ha
      have hr' := posIn_getElem? hr
      have hnd : p.Nodup := hpc.nodup_iff.2 List.nodup_range
      simp only [permuteGrids, gridPaths_nil]
      by_cases h1 : a' = r'
      · subst h1
        have : a = r := by rw [ha] at hr'; exact Option.some.inj hr'
        simp [this]
      · have : a ≠ r := by
          intro h2
          subst h2
          apply h1
          obtain ⟨h3, h4⟩ := List.getElem?_eq_some_iff.1 ha
          obtain ⟨h5, h6⟩ := List.getElem?_eq_some_iff.1 hr'
          exact (hnd.getElem_inj_iff).1 (h4.trans h6.symm)
        simp [h1, this]
  | cons G Gs ih =>
    intro perms chis hs hp r' hr a' a ha
    match chis, perms, hs, hp with
    | c :: c' :: cs, p :: q :: ps, hs, hp =>
      obtain ⟨hGlen, hrows, hs'⟩ := hs
      have hpc : p.Perm (List.range c) := by cases hp; assumption
      have hp' : List.Forall₂ (fun p c => p.Perm (List.range c)) (q :: ps) (c' :: cs) := by cases hp; assumption
      have hqc : q.Perm (List.range c') := by cases hp'; assumption
      simp only [List.headD_cons] at ha
      have hr2 : posIn ((q :: ps).getLastD []) r = some r' := by simpa [List.getLastD_cons] using hr
      have ha_lt : a < G.length := by
        rw [hGlen]
        exact List.mem_range.1 (hpc.mem_iff.1 (List.mem_of_getElem? ha))
      have hrow : (G.getD a []).length = c' := by
        apply hrows
        rw [List.getD_eq_getElem?_getD, List.getElem?_eq_getElem ha_lt]
        exact List.getElem_mem ha_lt
      simp only [permuteGrids]
      rw [gridPaths_cons, permuteGrid_getD G p q a' a ha, gridPaths_cons, hrow]
      simp only [List.length_map]
      -- reindex the left side by the entries of `q`
      have hL : (List.range q.length).flatMap (fun b' =>
            tensor ((q.map (fun b => (G.getD a []).getD b [])).getD b' [])
              (gridPaths r' (permuteGrids Gs (q :: ps)) b')) =
          q.zipIdx.flatMap (fun bb => tensor ((G.getD a []).getD bb.1 [])
              (gridPaths r' (permuteGrids Gs (q :: ps)) bb.2)) := by
        rw [zipIdx_flatMap q 0]
        apply List.flatMap_congr
        intro b' hb'
        have hb'' : b' < q.length := List.mem_range.1 hb'
        simp [List.getD_eq_getElem?_getD, List.getElem?_map, List.getElem?_eq_getElem hb'']
      rw [hL]
      have hstep : (q.zipIdx.flatMap (fun bb => tensor ((G.getD a []).getD bb.1 [])
              (gridPaths r' (permuteGrids Gs (q :: ps)) bb.2))).Perm
          (q.zipIdx.flatMap (fun bb => tensor ((G.getD a []).getD bb.1 []) (gridPaths r Gs bb.1))) := by
        apply List.Perm.flatMap_left
        intro bb hbb
        apply tensor_perm_right
        have : q[bb.2]? = some bb.1 := by
          obtain ⟨b, b'⟩ := bb
          have := List.mem_zipIdx hbb
          simp at this
          simpa using List.getElem?_eq_some_iff.2 ⟨this.1, this.2.symm⟩
        exact ih (q :: ps) (c' :: cs) hs' hp' r' hr2 bb.2 bb.1 (by simpa using this)
      refine hstep.trans ?_
      have hfst : q.zipIdx.flatMap (fun bb => tensor ((G.getD a []).getD bb.1 []) (gridPaths r Gs bb.1)) =
          q.flatMap (fun b => tensor ((G.getD a []).getD b []) (gridPaths r Gs b)) := by
        have : q.zipIdx.map (·.1) = q := by simp
        conv_rhs => rw [← this, List.flatMap_map]
      rw [hfst]
      exact hqc.flatMap_right _

theorem ShapedL.length : ∀ (grids : List (Grid α)) (chis : List Nat), ShapedL grids chis →
    chis.length = grids.length + 1
  | [], [_], _ => rfl
  | [], [], h => by simp [ShapedL] at h
  | [], _ :: _ :: _, h => by simp [ShapedL] at h
  | _ :: _, [], h => by simp [ShapedL] at h
  | _ :: _, [_], h => by simp [ShapedL] at h
  | _ :: Gs, _ :: c' :: cs, h => by
    have := ShapedL.length Gs (c' :: cs) h.2.2
    simp only [List.length_cons] at this ⊢
    omega

variable {Q : Type}

/-- shape of an MPO with respect to the dimensions of its virtual legs; the `IdL` / `IdR` indices of the outer
bonds are indices of those legs -/
structure GMPO.Shaped (m : GMPO α Q) : Prop where
  shaped : ShapedL m.grids m.chi
  nIdL : m.idL.length = m.L + 1
  nIdR : m.idR.length = m.L + 1
  idL0 : ∀ l, m.idL.head? = some (some l) → l < m.chi.headD 0
  idRL : ∀ r, m.idR.getLast? = some (some r) → r < m.chi.getLastD 0

theorem forall₂_sortPerm (lt : Q → Q → Bool) (legs : List (List Q)) :
    List.Forall₂ (fun p c => p.Perm (List.range c)) (legs.map (sortPerm lt)) (legs.map List.length) := by
  induction legs with
  | nil => exact List.Forall₂.nil
  | cons l ls ih => exact List.Forall₂.cons (sortPerm_perm lt l) ih

def mapOne (perms : List (List Nat)) (chi : List Nat) (ib : Option Nat × Nat) : Option Nat :=
  match ib.1 with
  | none => none
  | some x => posIn (perms.getD ib.2 []) (x % max (chi.getD ib.2 1) 1)

theorem mapId_ok {perms : List (List Nat)} {chi : List Nat} {ids ids' : List (Option Nat)}
    (h : mapId perms chi ids = .ok ids') :
    ids' = (ids.zipIdx).map (mapOne perms chi) := by
  unfold mapId at h
  split at h
  · cases h; rfl
  · cases h

theorem mapId_some {perms : List (List Nat)} {chi : List Nat} {ids ids' : List (Option Nat)}
    (h : mapId perms chi ids = .ok ids') (x k : Nat) (hm : (some x, k) ∈ ids.zipIdx) :
    (posIn (perms.getD k []) (x % max (chi.getD k 1) 1)).isSome = true := by
  unfold mapId at h
  split at h
  · next hall =>
    have := (List.all_eq_true.1 hall) (some x, k) hm
    simpa using this
  · cases h

/-- **`sort_legcharges` keeps the operator** -/
theorem sortLegcharges_denote (m m' : GMPO α Q) (hm : m.Shaped) (lt : Q → Q → Bool)
    (h : sortLegcharges m lt = .ok m') : m'.denote.Perm m.denote := by
  unfold sortLegcharges at h
  dsimp only at h
  split at h
  · next idL' idR' hL hR =>
    cases h
    have hL' := mapId_ok hL
    have hR' := mapId_ok hR
    have hchiLen : m.chi.length = m.L + 1 := ShapedL.length _ _ hm.shaped
    have hlegsLen : m.legs.length = m.L + 1 := by simpa [GMPO.chi] using hchiLen
    simp only [GMPO.denote]
    -- the first entry of IdL and the last entry of IdR
    obtain ⟨x, xs, hx⟩ : ∃ x xs, m.idL = x :: xs := by
      cases hq : m.idL with
      | nil => have := hm.nIdL; rw [hq] at this; simp at this
      | cons x xs => exact ⟨x, xs, rfl⟩
    have hheadL : m.idL.head? = some x := by rw [hx]; rfl
    have hhead' : idL'.head? = some (mapOne (m.legs.map (sortPerm lt)) m.chi (x, 0)) := by
      rw [hL', hx]; rfl
    have hlastR : m.idR.getLast? = some (m.idR.getD m.L none) := getLast?_eq_getD _ none _ hm.nIdR
    have hlast' : idR'.getLast? = some (mapOne (m.legs.map (sortPerm lt)) m.chi (m.idR.getD m.L none, m.L)) := by
      rw [hR', List.getLast?_map, List.getLast?_eq_getElem?, List.length_zipIdx, hm.nIdR]
      simp only [Nat.add_sub_cancel, List.getElem?_zipIdx, Nat.zero_add]
      rw [List.getElem?_eq_getElem (by rw [hm.nIdR]; omega)]
      simp [List.getD_eq_getElem?_getD, List.getElem?_eq_getElem (show m.L < m.idR.length by rw [hm.nIdR]; omega)]
    rw [hhead', hlast', hheadL, hlastR]
    cases x with
    | none => exact List.Perm.refl _
    | some l =>
      cases hr0 : m.idR.getD m.L none with
      | none =>
        simp only [mapOne]
        cases posIn ((m.legs.map (sortPerm lt)).getD 0 []) (l % max (m.chi.getD 0 1) 1) <;> exact List.Perm.refl _
      | some r =>
        simp only [mapOne]
        have hl_lt : l < m.chi.headD 0 := hm.idL0 l hheadL
        have hr_lt : r < m.chi.getLastD 0 := hm.idRL r (by rw [hlastR, hr0])
        have hchi0 : m.chi.getD 0 1 = m.chi.headD 0 := by
          cases hc : m.chi with
          | nil => rw [hc] at hchiLen; simp at hchiLen
          | cons c cs => rfl
        have hchiL : m.chi.getD m.L 1 = m.chi.getLastD 0 := by
          rw [getLastD_eq_getD _ 0 m.L hchiLen]
          simp [List.getD_eq_getElem?_getD, List.getElem?_eq_getElem (show m.L < m.chi.length by omega)]
        have hlm : l % max (m.chi.getD 0 1) 1 = l := by
          rw [hchi0]; exact Nat.mod_eq_of_lt (by omega)
        have hrm : r % max (m.chi.getD m.L 1) 1 = r := by
          rw [hchiL]; exact Nat.mod_eq_of_lt (by omega)
        rw [hlm, hrm]
        have hp0 : (m.legs.map (sortPerm lt)).getD 0 [] = (m.legs.map (sortPerm lt)).headD [] := by
          cases m.legs <;> rfl
        have hpL : (m.legs.map (sortPerm lt)).getD m.L [] = (m.legs.map (sortPerm lt)).getLastD [] := by
          rw [getLastD_eq_getD _ [] m.L (by simpa using hlegsLen)]
        have hsl := mapId_some hL l 0 (by rw [hx]; simp [List.zipIdx_cons])
        have hsr := mapId_some hR r m.L (by
          rw [List.mem_zipIdx_iff_getElem?]
          simp [← hr0, List.getD_eq_getElem?_getD, List.getElem?_eq_getElem (show m.L < m.idR.length by rw [hm.nIdR]; omega)])
        rw [hlm] at hsl
        rw [hrm] at hsr
        cases hl' : posIn ((m.legs.map (sortPerm lt)).getD 0 []) l with
        | none => rw [hl'] at hsl; cases hsl
        | some l' =>
          cases hr' : posIn ((m.legs.map (sortPerm lt)).getD m.L []) r with
          | none => rw [hr'] at hsr; cases hsr
          | some r' =>
            simp only []
            exact gridPaths_permute r m.grids (m.legs.map (sortPerm lt)) m.chi hm.shaped
              (forall₂_sortPerm lt m.legs) r' (by rw [← hpL]; exact hr') l' l
              (by rw [← hp0]; exact posIn_getElem? hl')
  · cases h
  · cases h

end TenpyModel.C10Ext
