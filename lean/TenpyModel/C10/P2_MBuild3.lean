import TenpyModel.C10.P2_MBuild2
import TenpyModel.C10.P2_MultiPaths
/-!
# C10 / Props2: `MultiCouplingTerms.add_to_graph` appends edges `N` with `MNew L mt N`
-/
namespace TenpyModel.Ops

section
variable {α : Type} [DecidableEq α] [One α]

omit [DecidableEq α] in
theorem addToGraph_eq (mt : MultiCouplingTerms α) (g : Graph α) :
    mt.addToGraph g =
      bumpRange ((mt.conns.zipIdx).foldl
        (connStep
          (mt.left.foldl (fun (acc : Graph α × List (Nat × Key)) p =>
            ((mt.insertLeft acc.1 p).1, acc.2 ++ (mt.insertLeft acc.1 p).2)) (g, [])).2
          (mt.right.foldl (fun (acc : Graph α × List (Nat × Key)) p =>
            ((mt.insertRight acc.1 p).1, acc.2 ++ (mt.insertRight acc.1 p).2))
            ((mt.left.foldl (fun (acc : Graph α × List (Nat × Key)) p =>
              ((mt.insertLeft acc.1 p).1, acc.2 ++ (mt.insertLeft acc.1 p).2)) (g, [])).1, [])).2)
        (mt.right.foldl (fun (acc : Graph α × List (Nat × Key)) p =>
            ((mt.insertRight acc.1 p).1, acc.2 ++ (mt.insertRight acc.1 p).2))
            ((mt.left.foldl (fun (acc : Graph α × List (Nat × Key)) p =>
              ((mt.insertLeft acc.1 p).1, acc.2 ++ (mt.insertLeft acc.1 p).2)) (g, [])).1, [])).1)
        (.fin mt.maxRange) := rfl

omit [DecidableEq α] [One α] in
theorem connStep_infinite (kl kr : List (Nat × Key)) (g : Graph α) (x : Option (Conn α) × Nat) :
    (connStep kl kr g x).infinite = g.infinite := by
  unfold connStep
  split <;> rfl

omit [DecidableEq α] [One α] in
theorem connFold_infinite (kl kr : List (Nat × Key)) (l : List (Option (Conn α) × Nat)) :
    ∀ g : Graph α, (l.foldl (connStep kl kr) g).infinite = g.infinite := by
  induction l with
  | nil => intro g; rfl
  | cons x l ih => intro g; rw [List.foldl_cons, ih, connStep_infinite]

omit [DecidableEq α] [One α] in
theorem bumpRange_infinite (g : Graph α) (r : MaxRange) : (bumpRange g r).infinite = g.infinite := by
  unfold bumpRange
  split <;> rfl

omit [DecidableEq α] in
theorem leftChain_site_lt (L : Nat) (pl : List MKey) (sw : Int) (hb : ∀ x ∈ pl, 0 ≤ x.1 ∧ x.1 < (L : Int))
    (hsw : sw ≤ (L : Int)) (hlt : ∀ x ∈ pl, x.1 < sw) : ∀ x ∈ leftChain (α := α) pl sw, x.1 < L := by
  unfold leftChain
  suffices ∀ (rest q : List MKey), (∀ x ∈ rest, 0 ≤ x.1 ∧ x.1 < (L : Int)) → (∀ x ∈ rest, x.1 < sw) →
      ∀ x ∈ leftChainFrom (α := α) q rest sw, x.1 < L from this pl [] hb hlt
  intro rest
  induction rest with
  | nil => intro q _ _ x hx; simp [leftChainFrom] at hx
  | cons t rest ih =>
    intro q hb hlt x hx
    have ht := hb t List.mem_cons_self
    have ht2 := hlt t List.mem_cons_self
    rw [leftChainFrom_cons'] at hx
    simp only [List.mem_cons, List.mem_append, List.mem_map, List.mem_range] at hx
    rcases hx with rfl | ⟨d, hd, rfl⟩ | hx
    · show t.1.toNat < L
      omega
    · show t.1.toNat + 1 + d < L
      cases rest with
      | nil => simp only at hd; omega
      | cons t' rest =>
        simp only at hd
        have := hb t' (by simp)
        omega
    · exact ih (q ++ [t]) (fun y hy => hb y (List.mem_cons_of_mem _ hy))
        (fun y hy => hlt y (List.mem_cons_of_mem _ hy)) x hx

omit [DecidableEq α] in
theorem rightChain_site_lt (L : Nat) (pr : List MKey) (sw : Int) (hb : ∀ x ∈ pr, 0 ≤ x.1 ∧ x.1 < (L : Int))
    (hsw : 0 ≤ sw) : ∀ x ∈ rightChain (α := α) pr sw, x.1 < L := by
  unfold rightChain
  suffices ∀ (rest q : List MKey), (∀ x ∈ rest, 0 ≤ x.1 ∧ x.1 < (L : Int)) →
      ∀ x ∈ rightChainFrom (α := α) q rest sw, x.1 < L from this pr [] hb
  intro rest
  induction rest with
  | nil => intro q _ x hx; simp [rightChainFrom] at hx
  | cons t rest ih =>
    intro q hb x hx
    have ht := hb t List.mem_cons_self
    rw [rightChainFrom_cons'] at hx
    simp only [List.mem_cons, List.mem_append, List.mem_map, List.mem_range] at hx
    rcases hx with rfl | ⟨d, hd, rfl⟩ | hx
    · show t.1.toNat < L
      omega
    · cases rest with
      | nil =>
        simp only at hd ⊢
        omega
      | cons t' rest =>
        simp only at hd ⊢
        have := hb t' (by simp)
        omega
    · exact ih (q ++ [t]) (fun y hy => hb y (List.mem_cons_of_mem _ hy)) x hx

theorem multi_addToGraph_new (L : Nat) (mt : MultiCouplingTerms α) (hL : mt.L = L) (hwf : mt.GWF)
    (g : Graph α) (hgL : g.L = L) (hlen : g.layers.length = L) (hinf : g.infinite = false)
    (hfree : TrieFree g) :
    ∃ N : Nat → List (Edge Key α), MNew L mt N ∧
      Rep L (mt.addToGraph g) (fun k => g.layers.getD k [] ++ N k) ∧ (mt.addToGraph g).infinite = false := by
  -- the old edges
  have hO : ∀ k, k < L → ∀ e ∈ g.layers.getD k [], e.kL.isTrie = false ∧ e.kR.isTrie = false := by
    intro k hk e he
    have hk' : k < g.layers.length := by omega
    rw [List.getD_eq_getElem?_getD, List.getElem?_eq_getElem hk'] at he
    exact hfree _ (List.getElem_mem hk') e he
  have h0 : St L g (fun k => g.layers.getD k []) :=
    ⟨⟨hgL, hlen, fun k _ => List.Perm.refl _⟩, fun k hk e he => Or.inl (hO k hk e he), hinf⟩
  have hleft : ∀ p ∈ mt.left, LeftPathOK L mt p := by
    intro p hp
    obtain ⟨a, b, c⟩ := hwf.leftOK p hp
    refine ⟨a, fun x hx => by have := b x hx; rw [hL] at this; exact this, ?_⟩
    intro c' hc' k hk
    have := (hwf.connOK c' k hk).2.1
    rw [hL] at this
    exact ⟨c c' hc' k hk, by omega⟩
  have hright : ∀ p ∈ mt.right, RightPathOK L mt p := by
    intro p hp
    obtain ⟨a, b, c⟩ := hwf.rightOK p hp
    refine ⟨a, fun x hx => by have := b x hx; rw [hL] at this; exact this, ?_⟩
    intro c' hc' k hk
    exact ⟨c c' hc' k hk, (hwf.connOK c' k hk).1, (hwf.connOK c' k hk).2.2⟩
  obtain ⟨l1, l2⟩ := st_leftFold mt mt.left g _ [] h0 hleft
  obtain ⟨r1, r2⟩ := st_rightFold mt mt.right _ _ [] l2 hright
  rw [← ensList_append] at r2
  rw [List.nil_append] at l1 r1
  -- the new trie edges
  obtain ⟨N1, hN1, hnd, hdis⟩ := ensList_form (mt.left.flatMap (edgesL mt) ++ mt.right.flatMap (edgesR mt))
    (fun k => g.layers.getD k [])
  have hprov : ∀ k, ∀ e ∈ N1 k, (∃ p ∈ mt.left, (k, e) ∈ edgesL mt p) ∨ (∃ p ∈ mt.right, (k, e) ∈ edgesR mt p) := by
    intro k e he
    have hmem : e ∈ ensList (fun k => g.layers.getD k []) (mt.left.flatMap (edgesL mt) ++ mt.right.flatMap (edgesR mt)) k := by
      rw [hN1]; exact List.mem_append_right _ he
    rcases ensList_prov _ _ e k hmem with h | h
    · exact absurd h (hdis k e he)
    · rcases List.mem_append.1 h with h | h
      · obtain ⟨p, hp, hx⟩ := List.mem_flatMap.1 h
        exact Or.inl ⟨p, hp, hx⟩
      · obtain ⟨p, hp, hx⟩ := List.mem_flatMap.1 h
        exact Or.inr ⟨p, hp, hx⟩
  have hcanon : ∀ k, ∀ e ∈ N1 k, CanonL k e ∨ CanonR k e := by
    intro k e he
    rcases hprov k e he with ⟨p, hp, hx⟩ | ⟨p, hp, hx⟩
    · exact Or.inl (canon_edgesL L mt p (hleft p hp) (k, e) hx)
    · exact Or.inr (canon_edgesR L mt p (hright p hp) (k, e) hx)
  -- membership of the chain edges
  have hinN1 : ∀ (x : Nat × Edge Key α),
      x ∈ mt.left.flatMap (edgesL mt) ++ mt.right.flatMap (edgesR mt) → x.1 < L →
      (x.2.kL.isTrie = true ∨ x.2.kR.isTrie = true) → x.2 ∈ N1 x.1 := by
    intro x hx hxL htrie
    have := ensList_mem _ (fun k => g.layers.getD k []) x hx
    rw [hN1] at this
    rcases List.mem_append.1 this with h | h
    · have := hO x.1 hxL x.2 h
      rcases htrie with ht | ht
      · rw [this.1] at ht; cases ht
      · rw [this.2] at ht; cases ht
    · exact h
  refine ⟨fun k => N1 k ++ connEdges mt k, ?_, ?_, ?_⟩
  · -- MNew
    have hconn : ∀ k, ∀ e ∈ connEdges mt k, ∃ pl pr, e.kL = lkey pl ∧ e.kR = rkey pr := by
      intro k e he
      unfold connEdges at he
      obtain ⟨x, _, hx⟩ := List.mem_filterMap.1 he
      obtain ⟨oc, c⟩ := x
      cases oc with
      | none => simp at hx
      | some kk =>
        simp only at hx
        split at hx
        · simp only [Option.some.injEq] at hx
          subst hx
          exact ⟨_, _, rfl, rfl⟩
        · cases hx
    refine ⟨?_, ?_, ?_, ?_, ?_, ?_, ?_⟩
    · -- classes
      intro k _ e he
      rcases List.mem_append.1 he with he | he
      · rcases hcanon k e he with ⟨q, t, h1, _, h3⟩ | ⟨q, t, h1, _, h3⟩
        · left
          refine ⟨?_, Or.inl (by rw [h1]; exact lkey_isLeft _)⟩
          rcases h3 with ⟨_, h, _⟩ | ⟨_, h, _⟩ <;> rw [h] <;> exact lkey_isLeft _
        · right
          refine ⟨by rw [h1]; exact rkey_isRight _, ?_⟩
          rcases h3 with ⟨_, h, _⟩ | ⟨_, h, _⟩ <;> rw [h] <;> exact rkey_isRight _
      · obtain ⟨pl, pr, h1, h2⟩ := hconn k e he
        left
        exact ⟨by rw [h1]; exact lkey_isLeft _, Or.inr (by rw [h2]; exact rkey_isRight _)⟩
    · -- ends
      intro k _ e he
      rcases List.mem_append.1 he with he | he
      · rcases hcanon k e he with ⟨q, t, h1, _, h3⟩ | ⟨q, t, h1, _, h3⟩
        · refine ⟨by rw [h1]; exact lkey_snoc_ne_IdL q t, ?_⟩
          intro hc
          have : e.kL.isRight = false := by
            rcases h3 with ⟨_, h, _⟩ | ⟨_, h, _⟩ <;> rw [h] <;> exact lkey_not_isRight _
          rw [hc] at this
          cases this
        · refine ⟨?_, by rw [h1]; exact rkey_snoc_ne_IdR q t⟩
          intro hc
          have : e.kR.isLeft = false := by
            rcases h3 with ⟨_, h, _⟩ | ⟨_, h, _⟩ <;> rw [h] <;> exact rkey_not_isLeft _
          rw [hc] at this
          cases this
      · obtain ⟨pl, pr, h1, h2⟩ := hconn k e he
        constructor
        · intro hc
          have := rkey_not_isLeft pr
          rw [← h2, hc] at this
          cases this
        · intro hc
          have := lkey_not_isRight pl
          rw [← h1, hc] at this
          cases this
    · -- inUniq
      intro k _
      rw [List.filter_append]
      have hc0 : (connEdges mt k).filter (fun e => e.kR.isLeft) = [] := by
        rw [List.filter_eq_nil_iff]
        intro e he
        obtain ⟨pl, pr, _, h2⟩ := hconn k e he
        rw [h2, rkey_not_isLeft]
        simp
      rw [hc0, List.append_nil]
      apply List.Nodup.map_on _ ((hnd k).filter _)
      intro x hx y hy hxy
      obtain ⟨hx1, hx2⟩ := List.mem_filter.1 hx
      obtain ⟨hy1, hy2⟩ := List.mem_filter.1 hy
      have cx : CanonL k x := by
        rcases hcanon k x hx1 with h | h
        · exact h
        · rw [canonR_kR_not_left k x h] at hx2; cases hx2
      have cy : CanonL k y := by
        rcases hcanon k y hy1 with h | h
        · exact h
        · rw [canonR_kR_not_left k y h] at hy2; cases hy2
      exact canonL_det k x y cx cy hxy
    · -- outUniq
      intro k _
      rw [List.filter_append]
      have hc0 : (connEdges mt k).filter (fun e => e.kL.isRight) = [] := by
        rw [List.filter_eq_nil_iff]
        intro e he
        obtain ⟨pl, pr, h1, _⟩ := hconn k e he
        rw [h1, lkey_not_isRight]
        simp
      rw [hc0, List.append_nil]
      apply List.Nodup.map_on _ ((hnd k).filter _)
      intro x hx y hy hxy
      obtain ⟨hx1, hx2⟩ := List.mem_filter.1 hx
      obtain ⟨hy1, hy2⟩ := List.mem_filter.1 hy
      have cx : CanonR k x := by
        rcases hcanon k x hx1 with h | h
        · rw [canonL_kL_not_right k x h] at hx2; cases hx2
        · exact h
      have cy : CanonR k y := by
        rcases hcanon k y hy1 with h | h
        · rw [canonL_kL_not_right k y h] at hy2; cases hy2
        · exact h
      exact canonR_det k x y cx cy hxy
    · -- cross
      intro k _
      rw [List.filter_append]
      have h1 : (N1 k).filter (fun e => e.kL.isLeft && e.kR.isRight) = [] := by
        rw [List.filter_eq_nil_iff]
        intro e he
        rcases hcanon k e he with ⟨q, t, h1, _⟩ | ⟨q, t, h1, _⟩
        · rw [h1, lkey_not_isRight]; simp
        · rw [h1, rkey_not_isLeft]; simp
      have h2 : (connEdges mt k).filter (fun e => e.kL.isLeft && e.kR.isRight) = connEdges mt k := by
        rw [List.filter_eq_self]
        intro e he
        obtain ⟨pl, pr, h1, h2⟩ := hconn k e he
        rw [h1, h2, lkey_isLeft, rkey_isRight]
        rfl
      rw [h1, h2, List.nil_append]
    · -- chainL
      intro c kk hk x hx
      apply List.mem_append_left
      cases hq : MultiCouplingTerms.pathOf mt.left c with
      | none => rw [hq] at hx; simp [leftChain, leftChainFrom] at hx
      | some q =>
        rw [hq] at hx
        simp only [Option.getD_some] at hx
        obtain ⟨p, hp, hcp, rfl⟩ := pathOf_some _ _ _ hq
        have hxe := leftChain_sub_edgesL mt p c hcp kk hk x hx
        have hcx := canon_edgesL L mt p (hleft p hp) x hxe
        have hall : x ∈ mt.left.flatMap (edgesL mt) ++ mt.right.flatMap (edgesR mt) :=
          List.mem_append_left _ (List.mem_flatMap.2 ⟨p, hp, hxe⟩)
        have hxL : x.1 < L :=
          leftChain_site_lt L p.path kk.switchLR (hleft p hp).2.1
            ((hleft p hp).2.2 c hcp kk hk).2 ((hleft p hp).2.2 c hcp kk hk).1 x hx
        exact hinN1 x hall hxL (Or.inr (canonL_kR_trie _ _ hcx))
    · -- chainR
      intro c kk hk x hx
      apply List.mem_append_left
      cases hq : MultiCouplingTerms.pathOf mt.right c with
      | none => rw [hq] at hx; simp [rightChain, rightChainFrom] at hx
      | some q =>
        rw [hq] at hx
        simp only [Option.getD_some] at hx
        obtain ⟨p, hp, hcp, rfl⟩ := pathOf_some _ _ _ hq
        have hrp := hright p hp
        have hxe := rightChain_sub_edgesR mt p c hcp kk hk (hrp.2.2 c hcp kk hk).2.1 hrp.1
          (hrp.2.2 c hcp kk hk).1 x hx
        have hcx := canon_edgesR L mt p hrp x hxe
        have hall : x ∈ mt.left.flatMap (edgesL mt) ++ mt.right.flatMap (edgesR mt) :=
          List.mem_append_right _ (List.mem_flatMap.2 ⟨p, hp, hxe⟩)
        have hxL : x.1 < L :=
          rightChain_site_lt L p.path kk.switchLR hrp.2.1 (hrp.2.2 c hcp kk hk).2.1 x hx
        exact hinN1 x hall hxL (Or.inl (canonR_kL_trie _ _ hcx))
  · -- Rep
    rw [addToGraph_eq, l1, r1]
    apply Rep.bump
    have := rep_connFold mt hL hwf _ _ rfl rfl (mt.conns.zipIdx)
      (fun x hx => (mem_zipIdx_getD mt.conns none x hx).2) _ _ r2.1
    refine this.congr_eq ?_
    intro k _
    show _ = g.layers.getD k [] ++ (N1 k ++ connEdges mt k)
    rw [hN1, connEdges_eq, List.append_assoc]
  · rw [addToGraph_eq, bumpRange_infinite, connFold_infinite]
    exact r2.2.2

end

end TenpyModel.Ops
