import TenpyModel.C10.P2_MT8
/-!
# C10 / Props2 (`MultiCouplingTerms.to_TermList`), part 3: the switch condition as an invariant of the container
-/
namespace TenpyModel.Ops

open MultiCouplingTerms

section
variable {α : Type}

/-- every live connection satisfies the switch condition -/
def SwInv (mt : MultiCouplingTerms α) : Prop :=
  ∀ c k, mt.conns.getD c none = some k → SwCond ((pathOf mt.left c).getD []) ((pathOf mt.right c).getD []) k

theorem SwInv.empty (L : Nat) : SwInv (MultiCouplingTerms.empty L : MultiCouplingTerms α) := by
  intro c k h
  cases c <;> cases h

/-- under the invariants `to_TermList` is the sum over the connections -/
theorem termlist_denote (mt : MultiCouplingTerms α) (h : MInv mt) (hs : SwInv mt) :
    STermList.denote mt.L mt.toTermListS = mt.connDenote := by
  rw [multi_toTermListS_eq, connDenote_eq]
  unfold STermList.denote
  rw [List.map_filterMap]
  apply List.filterMap_congr
  intro p hp
  obtain ⟨_, hget⟩ := mem_zipIdx_getD mt.conns none p hp
  cases hoc : p.1 with
  | none => simp [connTerm, hoc]
  | some k =>
    have hconn : mt.conns.getD p.2 none = some k := by rw [hget, hoc]
    obtain ⟨hs0, _, hsh⟩ := h.connOK p.2 k hconn
    have hL : (((pathOf mt.left p.2).getD []).map (·.1)).Pairwise (· < ·) ∧
        ∀ t ∈ (pathOf mt.left p.2).getD [], 0 ≤ t.1 ∧ t.1 < k.switchLR := by
      cases hq : pathOf mt.left p.2 with
      | none => simp
      | some q =>
        obtain ⟨pp, hpp, hc, rfl⟩ := pathOf_some _ _ _ hq
        obtain ⟨h1, h2, h3⟩ := h.left.ok pp hpp
        exact ⟨h1, fun t ht => ⟨(h2 t ht).1, h3 p.2 hc k hconn t ht⟩⟩
    have hR : (((pathOf mt.right p.2).getD []).map (·.1)).Pairwise (· > ·) ∧
        ∀ t ∈ (pathOf mt.right p.2).getD [], k.switchLR < t.1 := by
      cases hq : pathOf mt.right p.2 with
      | none => simp
      | some q =>
        obtain ⟨pp, hpp, hc, rfl⟩ := pathOf_some _ _ _ hq
        obtain ⟨h1, _, h3⟩ := h.right.ok pp hpp
        exact ⟨h1, fun t ht => h3 p.2 hc k hconn t ht⟩
    simp only [connTerm, hoc, Option.map_some, Option.some.injEq, Prod.mk.injEq, and_true]
    exact stermStr_sort_connSOps mt.L _ _ k hL.1 hL.2 hR.1 hR.2 hsh (hs p.2 k hconn)

theorem SwInv.insert [Add α] {mt : MultiCouplingTerms α} (h : MInv mt) (hs : SwInv mt) (lp rp : List MKey)
    (k : Conn α) (hc : SwCond lp rp k) : SwInv (mt.insertConnection lp rp k) := by
  rw [insertConnection_eq]
  cases hf : (countersAt mt.left lp).find? (sameConn mt rp k) with
  | some c =>
    obtain ⟨k', hk', _, _, _, hcr⟩ := sameConn_spec mt rp k c (by simpa using List.find?_some hf)
    have hcl : c ∈ countersAt mt.left lp := List.mem_of_find?_eq_some hf
    have hpl : pathOf mt.left c = some lp := pathOf_of_mem_countersAt lp c mt.left h.left.disj hcl
    have hpr : pathOf mt.right c = some rp := pathOf_of_mem_countersAt rp c mt.right h.right.disj hcr
    intro c' kk hkk
    show SwCond ((pathOf (touch mt.left lp) c').getD []) ((pathOf (touch mt.right rp) c').getD []) kk
    rw [pathOf_touch, pathOf_touch]
    rcases getD_modify_merge mt.conns c k k' hk' c' kk hkk with ⟨rfl, rfl⟩ | ⟨_, hh⟩
    · rw [hpl, hpr]
      exact hc
    · exact hs c' kk hh
  | none =>
    have hfl : ∀ p ∈ mt.left, mt.conns.length ∉ p.counters := by
      intro p hp hc
      have := h.left.bound p hp _ hc
      omega
    have hfr : ∀ p ∈ mt.right, mt.conns.length ∉ p.counters := by
      intro p hp hc
      have := h.right.bound p hp _ hc
      omega
    intro c' kk hkk
    show SwCond ((pathOf (pushCounter mt.left lp mt.conns.length) c').getD [])
      ((pathOf (pushCounter mt.right rp mt.conns.length) c').getD []) kk
    have hkk' : (mt.conns ++ [some k]).getD c' none = some kk := hkk
    rw [getD_append_some] at hkk'
    split at hkk'
    · rw [pathOf_pushCounter_ne _ _ _ _ (by omega), pathOf_pushCounter_ne _ _ _ _ (by omega)]
      exact hs c' kk hkk'
    · split at hkk'
      · rename_i hcc
        subst hcc
        simp only [Option.some.injEq] at hkk'
        subst hkk'
        rw [pathOf_pushCounter_self _ _ _ hfl, pathOf_pushCounter_self _ _ _ hfr]
        exact hc
      · cases hkk'

end

end TenpyModel.Ops
