import TenpyModel.C10.P2_Exp6
/-!
# C10 / Props2: exponentially decaying terms, part 7: centred terms — edges, suffix sums and their recurrences
-/
namespace TenpyModel.Ops

section
variable {α : Type} [CommSemiring α] [Inhabited α]

structure CenteredTerm.OK (t : CenteredTerm α) (L : Nat) : Prop where
  subs : t.subsites.Pairwise (· < ·)
  subsL : ∀ j ∈ t.subsites, j < L
  mem : t.i ∈ t.subsites

/-- the right part (`j > i`) of a centred term is a plain term starting only at `i` -/
def CenteredTerm.rightTerm (t : CenteredTerm α) : ExpTerm α :=
  ⟨t.strength, t.lam, t.opi, t.opj, t.subsites, [t.i], t.str⟩

omit [CommSemiring α] [Inhabited α] in
theorem CenteredTerm.rightTerm_OK (t : CenteredTerm α) (L : Nat) (hok : t.OK L) : t.rightTerm.OK L :=
  ⟨hok.subs, hok.subsL, by simp [CenteredTerm.rightTerm], by
    intro j hj
    simp only [CenteredTerm.rightTerm, List.mem_singleton] at hj
    subst hj
    exact hok.subsL _ hok.mem, by simp [CenteredTerm.rightTerm]⟩

omit [CommSemiring α] [Inhabited α] in
theorem CenteredTerm.first_le (t : CenteredTerm α) (L : Nat) (hok : t.OK L) : t.first ≤ t.i :=
  headD_le_of_sorted _ hok.subs 0 _ hok.mem

omit [CommSemiring α] [Inhabited α] in
theorem CenteredTerm.le_last (t : CenteredTerm α) (L : Nat) (hok : t.OK L) : t.i ≤ t.last :=
  le_getLastD_of_sorted _ hok.subs 0 _ hok.mem

theorem CenteredTerm.edgesR_eq (t : CenteredTerm α) (L : Nat) (hok : t.OK L) (lab : Key) (k : Nat) :
    t.edgesR lab k = t.rightTerm.edgesAt lab k := by
  have hil := t.le_last L hok
  unfold CenteredTerm.edgesR ExpTerm.edgesAt
  have e1 : t.rightTerm.first = t.i := rfl
  have e2 : t.rightTerm.last = t.last := rfl
  rw [e1, e2]
  by_cases h : t.i < t.last
  · rw [if_pos (by omega), if_pos h]
    congr 2
    by_cases hr : t.i + 1 ≤ k ∧ k < t.i + 1 + (t.last - t.i - 1)
    · rw [if_pos hr, if_pos hr]
      unfold CenteredTerm.bodyR ExpTerm.bodyEdges
      have hne : ¬ (k = t.i) := by omega
      by_cases hs : k ∈ t.subsites
      · simp [CenteredTerm.rightTerm, hs, hne]
      · simp [CenteredTerm.rightTerm, hs, hne]
    · rw [if_neg hr, if_neg hr]
  · rw [if_neg (by omega), if_neg h]

/-- coefficient of the loop on site `k` -/
def CenteredTerm.lc (t : CenteredTerm α) (k : Nat) : α := t.rightTerm.lc k

/-- the edges of the left part on site `k`, conditions simplified -/
def CenteredTerm.cleanL (t : CenteredTerm α) (lab : Key) (k : Nat) : List (Edge Key α) :=
  ((if k ∈ t.subsites ∧ k < t.i then [⟨Key.IdL, lab, t.opj, t.strength⟩] else []) ++
   (if t.first < k ∧ k < t.i then [⟨lab, lab, t.str, t.lc k⟩] else [])) ++
   (if k = t.i ∧ t.first < t.i then [⟨lab, Key.IdR, t.opi, lamAt t.lam t.i⟩] else [])

theorem CenteredTerm.edgesL_eq (t : CenteredTerm α) (L : Nat) (hok : t.OK L) (lab : Key) (k : Nat) :
    t.edgesL lab k = t.cleanL lab k := by
  have hfi := t.first_le L hok
  have hF : ∀ s ∈ t.subsites, t.first ≤ s := fun s hs => headD_le_of_sorted _ hok.subs 0 s hs
  have hF0 : t.first ∈ t.subsites := headD_mem _ 0 (List.ne_nil_of_mem hok.mem)
  unfold CenteredTerm.edgesL CenteredTerm.cleanL
  by_cases h : t.i = t.first
  · have c1 : ¬ (k ∈ t.subsites ∧ k < t.i) := by
      rintro ⟨a, b⟩
      have := hF k a
      omega
    rw [if_neg (by simpa using h), if_neg c1, if_neg (by omega), if_neg (by omega)]
    rfl
  · have hlt : t.first < t.i := by omega
    have hr' : t.first + 1 + (t.i - t.first - 1) = t.i := by omega
    rw [if_pos h, hr']
    by_cases h1 : k = t.first
    · subst h1
      rw [if_pos rfl, if_neg (by omega), if_neg (by omega), if_pos ⟨hF0, hlt⟩, if_neg (by omega),
        if_neg (by omega)]
    · by_cases h2 : k = t.i
      · subst h2
        rw [if_neg h1, if_neg (by omega), if_pos rfl, if_neg (by omega), if_neg (by omega), if_pos ⟨rfl, hlt⟩]
      · by_cases h3 : t.first + 1 ≤ k ∧ k < t.i
        · rw [if_neg h1, if_pos h3, if_neg h2]
          have hk : t.first < k := by omega
          unfold CenteredTerm.bodyL CenteredTerm.lc ExpTerm.lc
          have e : t.rightTerm.subsites = t.subsites := rfl
          have e' : t.rightTerm.lam = t.lam := rfl
          rw [e, e']
          by_cases hs : k ∈ t.subsites
          · simp [hs, h3.2, hk, h2]
          · simp [hs, h3.2, hk, h2]
        · have c1 : ¬ (k ∈ t.subsites ∧ k < t.i) := by
            rintro ⟨a, b⟩
            have := hF k a
            omega
          rw [if_neg h1, if_neg h3, if_neg h2, if_neg c1, if_neg (by omega), if_neg (by omega)]

/-- `Π_{n ∈ subsites, k ≤ n < j} lambda[n]` -/
def CenteredTerm.w (t : CenteredTerm α) (k j : Nat) : α := t.rightTerm.w k j

/-- suffix sum from the label at a site `first < k ≤ i` (left part): continue up to `i` and close with `op_i` -/
def CenteredTerm.tailL (t : CenteredTerm α) (L k : Nat) : Sym α :=
  [(List.replicate (t.i - k) t.str ++ t.opi :: idStr (L - t.i - 1), t.w k t.i * lamAt t.lam t.i)]

/-- the left terms (`j < i`) starting at sites `≥ k` -/
def CenteredTerm.leftFrom (t : CenteredTerm α) (L k : Nat) : Sym α :=
  (t.subsites.filter (fun j => decide (k ≤ j) && decide (j < t.i))).flatMap (fun j =>
    (t.tailL L (j + 1)).map (fun p => (idStr (j - k) ++ t.opj :: p.1, t.strength * p.2)))

theorem CenteredTerm.tailL_step (t : CenteredTerm α) (hs : t.subsites.Pairwise (· < ·)) (L k : Nat) (hk : k < t.i) :
    t.tailL L k = Sym.consOp t.str (t.lc k) (t.tailL L (k + 1)) := by
  unfold CenteredTerm.tailL CenteredTerm.w CenteredTerm.lc
  rw [consOp_singleton, t.rightTerm.w_step hs k t.i hk, mul_assoc]
  have e1 : t.i - k = (t.i - (k + 1)) + 1 := by omega
  rw [e1, List.replicate_succ]
  rfl

theorem CenteredTerm.tailL_self (t : CenteredTerm α) (L : Nat) :
    t.tailL L t.i = [(t.opi :: idStr (L - t.i - 1), lamAt t.lam t.i)] := by
  unfold CenteredTerm.tailL CenteredTerm.w
  rw [t.rightTerm.w_self, one_mul, Nat.sub_self]
  rfl

theorem CenteredTerm.leftFrom_eq_nil (t : CenteredTerm α) (L k : Nat) (h : t.i ≤ k) : t.leftFrom L k = [] := by
  unfold CenteredTerm.leftFrom
  have : t.subsites.filter (fun j => decide (k ≤ j) && decide (j < t.i)) = [] := by
    rw [List.filter_eq_nil_iff]
    intro n _
    simp
    omega
  rw [this]
  rfl

theorem CenteredTerm.leftFrom_step (t : CenteredTerm α) (hs : t.subsites.Pairwise (· < ·)) (L k : Nat) :
    Sym.Equiv (t.leftFrom L k)
      ((if k ∈ t.subsites ∧ k < t.i then Sym.consOp t.opj t.strength (t.tailL L (k + 1)) else []) ++
        Sym.consOp "Id" 1 (t.leftFrom L (k + 1))) := by
  unfold CenteredTerm.leftFrom
  rw [filter_ge_step_gen (fun j => decide (j < t.i)) _ hs k, List.flatMap_append]
  apply Sym.Equiv.append
  · by_cases hk : k ∈ t.subsites ∧ k < t.i
    · rw [if_pos hk, if_pos (by simpa using hk)]
      simp only [List.flatMap_cons, List.flatMap_nil, List.append_nil, Nat.sub_self, idStr,
        List.replicate_zero, List.nil_append]
      exact Sym.Equiv.refl _
    · rw [if_neg hk, if_neg (by simpa using hk)]
      exact Sym.Equiv.refl _
  · rw [consOp_flatMap]
    apply Sym.Equiv.of_perm
    apply List.Perm.of_eq
    apply List.flatMap_congr
    intro j hj
    have hj' : k + 1 ≤ j := by
      have := (List.mem_filter.1 hj).2
      simp at this
      exact this.1
    have e1 : j - k = (j - (k + 1)) + 1 := by omega
    unfold Sym.consOp
    rw [List.map_map]
    apply List.map_congr_left
    intro p _
    simp only [Function.comp_def]
    rw [e1, idStr_succ, one_mul]
    rfl

end

end TenpyModel.Ops
