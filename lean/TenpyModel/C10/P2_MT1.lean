import Mathlib.Data.List.Basic
import TenpyModel.C10.P2_MultiPaths
/-!
# C10 / Props2 (container level of `MultiCouplingTerms`), part 1: strings

Forward (ascending-site) descriptions of the strings read along the left and the right path of a connection,
and the lemma that the triple `(leftPath, op_switch, rightPath)` computed by `add_multi_coupling_term` spells
exactly the positional string `multiStr` of the call, wherever `switchLR` lies.
-/
namespace TenpyModel.Ops

open MultiCouplingTerms

/-! ## forward form of `leftStrRev` -/

/-- sites `t.site+1 … k-1` after the operator of `t`, the remaining operators `rest` ascending -/
def leftTail : MKey → List MKey → Nat → OpStr
  | t, [], k => List.replicate (k - t.1.toNat - 1) t.2.2
  | t, u :: rest, k => List.replicate (u.1.toNat - t.1.toNat - 1) t.2.2 ++ u.2.1 :: leftTail u rest k

theorem leftTail_concat : ∀ (rest : List MKey) (t u : MKey) (k : Nat),
    leftTail t (rest ++ [u]) k =
      leftTail t rest u.1.toNat ++ u.2.1 :: List.replicate (k - u.1.toNat - 1) u.2.2 := by
  intro rest
  induction rest with
  | nil => intro t u k; simp [leftTail]
  | cons v rest ih => intro t u k; simp [leftTail, ih]

theorem leftStrRev_reverse_cons (t : MKey) (rest : List MKey) (k : Nat) :
    leftStrRev (t :: rest).reverse k = idStr t.1.toNat ++ t.2.1 :: leftTail t rest k := by
  induction rest using List.reverseRecOn generalizing k with
  | nil => simp [leftStrRev, leftTail]
  | append_singleton rest u ih =>
    rw [← List.cons_append, List.reverse_append, List.reverse_singleton, List.singleton_append]
    simp only [leftStrRev]
    rw [ih, leftTail_concat]
    simp

/-! ## the right path read forwards -/

theorem zip_reverse_eq {β γ : Type} (l₁ : List β) (l₂ : List γ) (h : l₁.length = l₂.length) :
    l₁.reverse.zip l₂.reverse = (l₁.zip l₂).reverse := by
  unfold List.zip
  rw [List.reverse_zipWith h]

/-- `(l.reverse.takeWhile p).reverse = l.filter p` when `p` is upward closed along `l` -/
theorem rtakeWhile_eq_filter {β : Type} (p : β → Bool) :
    ∀ (l : List β), l.Pairwise (fun a b => p a = true → p b = true) →
      (l.reverse.takeWhile p).reverse = l.filter p := by
  intro l
  induction l with
  | nil => intro _; rfl
  | cons x l ih =>
    intro h
    rw [List.pairwise_cons] at h
    rw [List.reverse_cons, List.takeWhile_append]
    by_cases hx : p x = true
    · have hall : ∀ y ∈ l, p y = true := fun y hy => h.1 y hy hx
      have h1 : l.reverse.takeWhile p = l.reverse := by
        rw [List.takeWhile_eq_self_iff]
        intro y hy
        exact hall y (List.mem_reverse.1 hy)
      rw [h1, if_pos rfl]
      simp only [List.takeWhile_cons, hx, if_true, List.takeWhile_nil, List.reverse_append,
        List.reverse_reverse, List.reverse_singleton, List.singleton_append, List.filter_cons]
      congr 1
      exact (List.filter_eq_self.2 hall).symm
    · rw [List.filter_cons_of_neg hx, ← ih h.2]
      split
      · simp [hx]
      · rfl

/-- the stored (descending) right path of `add`, read in ascending order -/
theorem rightPath_reverse (i : Int) (is : List Int) (op : String) (ops strs : List String) (swi : Int)
    (h1 : ops.length = is.length) (h2 : strs.length = is.length) (hasc : is.Pairwise (· < ·)) :
    (((i :: is).reverse.zip ((op :: ops).reverse.zip strs.reverse)).takeWhile
        (fun t => decide (swi < t.1))).reverse =
      (is.zip (ops.zip strs)).filter (fun t => decide (swi < t.1)) := by
  have e1 : (op :: ops).reverse.zip strs.reverse = (ops.zip strs).reverse := by
    rw [List.reverse_cons]
    have : strs.reverse = strs.reverse ++ [] := by simp
    rw [this, List.zip_append (by simp [h1, h2]), List.zip_nil_right, List.append_nil,
      zip_reverse_eq _ _ (by omega)]
  have e2 : (i :: is).reverse.zip (ops.zip strs).reverse = (is.zip (ops.zip strs)).reverse := by
    rw [List.reverse_cons]
    have : (ops.zip strs).reverse = (ops.zip strs).reverse ++ [] := by simp
    rw [this, List.zip_append (by simp [h1, h2]), List.zip_nil_right, List.append_nil,
      zip_reverse_eq _ _ (by simp [h1, h2])]
  rw [e1, e2]
  apply rtakeWhile_eq_filter
  have hp : (is.zip (ops.zip strs)).Pairwise (fun a b => a.1 < b.1) := by
    have := hasc
    rw [← List.pairwise_map (f := Prod.fst) (R := fun (a b : Int) => a < b)]
    have hm : (is.zip (ops.zip strs)).map Prod.fst = is := by
      rw [List.map_fst_zip]
      simp [h1, h2]
    rw [hm]
    exact hasc
  exact hp.imp (fun {a b} hab ha => by
    simp only [decide_eq_true_eq] at ha ⊢
    omega)

/-! ## `multiTail` is `rightFrom` on the zipped triples -/

theorem rightFrom_zip (L : Nat) : ∀ (js : List Int) (os ss : List String) (j : Int),
    os.length = js.length → ss.length = js.length → (j :: js).Pairwise (· < ·) → 0 ≤ j →
    rightFrom L (j.toNat + 1) (js.zip (os.zip ss)) = multiTail L j js os ss := by
  intro js
  induction js with
  | nil =>
    intro os ss j _ _ _ _
    simp only [List.zip_nil_left, rightFrom, multiTail]
    congr 1
  | cons j' js ih =>
    intro os ss j h1 h2 hasc h0
    cases os with
    | nil => simp at h1
    | cons o os =>
      cases ss with
      | nil => simp at h2
      | cons s ss =>
        simp only [List.length_cons, Nat.add_right_cancel_iff] at h1 h2
        rw [List.pairwise_cons] at hasc
        have hjj : j < j' := hasc.1 j' List.mem_cons_self
        simp only [List.zip_cons_cons, rightFrom, multiTail]
        rw [ih os ss j' h1 h2 hasc.2 (by omega)]
        congr 2
        omega

end TenpyModel.Ops
