import Mathlib.Data.List.Basic
import TenpyModel.C10.P2_MultiPaths
/-!
# C10 / Props2 (container level of `MultiCouplingTerms`), part 1: strings

Forward (ascending-site) descriptions of the strings read along the left and the right path of a connection,
and the lemma that the triple `(leftPath, op_switch, rightPath)` computed by `add_multi_coupling_term` spells
exactly the positional string `multiStr` of the call, wherever `switchLR` lies.
-/
namespace TenpyModel.Ops

open MultiCouplingTerms

/-! ## forward form of `leftStrRev` -/

/-- sites `t.site+1 … k-1` after the operator of `t`, the remaining operators `rest` ascending -/
def leftTail : MKey → List MKey → Nat → OpStr
  | t, [], k => List.replicate (k - t.1.toNat - 1) t.2.2
  | t, u :: rest, k => List.replicate (u.1.toNat - t.1.toNat - 1) t.2.2 ++ u.2.1 :: leftTail u rest k

theorem leftTail_concat : ∀ (rest : List MKey) (t u : MKey) (k : Nat),
    leftTail t (rest ++ [u]) k =
      leftTail t rest u.1.toNat ++ u.2.1 :: List.replicate (k - u.1.toNat - 1) u.2.2 := by
  intro rest
  induction rest with
  | nil => intro t u k; simp [leftTail]
  | cons v rest ih => intro t u k; simp [leftTail, ih]

theorem leftStrRev_reverse_cons (t : MKey) (rest : List MKey) (k : Nat) :
    leftStrRev (t :: rest).reverse k = idStr t.1.toNat ++ t.2.1 :: leftTail t rest k := by
  induction rest using List.reverseRecOn generalizing k with
  | nil => simp [leftStrRev, leftTail]
  | append_singleton rest u ih =>
    rw [← List.cons_append, List.reverse_append, List.reverse_singleton, List.singleton_append]
    simp only [leftStrRev]
    rw [ih, leftTail_concat]
    simp

/-! ## the right path read forwards -/

theorem zip_reverse_eq {β γ : Type} (l₁ : List β) (l₂ : List γ) (h : l₁.length = l₂.length) :
    l₁.reverse.zip l₂.reverse = (l₁.zip l₂).reverse := by
  unfold List.zip
  rw [List.reverse_zipWith h]

theorem takeWhile_concat_neg {β : Type} (p : β → Bool) (x : β) (hx : ¬ p x = true) :
    ∀ (a : List β), (a ++ [x]).takeWhile p = a.takeWhile p := by
  intro a
  induction a with
  | nil => simp [hx]
  | cons y a ih =>
    simp only [List.cons_append, List.takeWhile_cons, ih]

/-- `(l.reverse.takeWhile p).reverse = l.filter p` when `p` is upward closed along `l` -/
theorem rtakeWhile_eq_filter {β : Type} (p : β → Bool) :
    ∀ (l : List β), l.Pairwise (fun a b => p a = true → p b = true) →
      (l.reverse.takeWhile p).reverse = l.filter p := by
  intro l
  induction l with
  | nil => intro _; rfl
  | cons x l ih =>
    intro h
    rw [List.pairwise_cons] at h
    rw [List.reverse_cons]
    by_cases hx : p x = true
    · have hall : ∀ y ∈ l, p y = true := fun y hy => h.1 y hy hx
      rw [List.takeWhile_append_of_pos (fun y hy => hall y (List.mem_reverse.1 hy))]
      simp only [List.takeWhile_cons, hx, if_true, List.takeWhile_nil, List.reverse_append,
        List.reverse_reverse, List.reverse_singleton, List.singleton_append, List.filter_cons]
      congr 1
      exact (List.filter_eq_self.2 hall).symm
    · rw [List.filter_cons_of_neg hx, ← ih h.2, takeWhile_concat_neg p x hx]

/-- the stored (descending) right path of `add`, read in ascending order -/
theorem rightPath_reverse (i : Int) (is : List Int) (op : String) (ops strs : List String) (swi : Int)
    (h1 : ops.length = is.length) (h2 : strs.length = is.length) (hasc : is.Pairwise (· < ·)) :
    (((i :: is).reverse.zip ((op :: ops).reverse.zip strs.reverse)).takeWhile
        (fun t => decide (swi < t.1))).reverse =
      (is.zip (ops.zip strs)).filter (fun t => decide (swi < t.1)) := by
  have e1 : (op :: ops).reverse.zip strs.reverse = (ops.zip strs).reverse := by
    rw [List.reverse_cons]
    have : strs.reverse = strs.reverse ++ [] := by simp
    rw [this, List.zip_append (by simp [h1, h2]), List.zip_nil_right, List.append_nil,
      zip_reverse_eq _ _ (by omega)]
  have e2 : (i :: is).reverse.zip (ops.zip strs).reverse = (is.zip (ops.zip strs)).reverse := by
    rw [List.reverse_cons]
    have : (ops.zip strs).reverse = (ops.zip strs).reverse ++ [] := by simp
    rw [this, List.zip_append (by simp [h1, h2]), List.zip_nil_right, List.append_nil,
      zip_reverse_eq _ _ (by simp [h1, h2])]
  rw [e1, e2]
  apply rtakeWhile_eq_filter
  have hp : (is.zip (ops.zip strs)).Pairwise (fun a b => a.1 < b.1) := by
    have := hasc
    rw [← List.pairwise_map (f := Prod.fst) (R := fun (a b : Int) => a < b)]
    have hm : (is.zip (ops.zip strs)).map Prod.fst = is := by
      rw [List.map_fst_zip]
      simp [h1, h2]
    rw [hm]
    exact hasc
  exact hp.imp (fun {a b} hab ha => by
    simp only [decide_eq_true_eq] at ha ⊢
    omega)

/-! ## `multiTail` is `rightFrom` on the zipped triples -/

theorem rightFrom_zip (L : Nat) : ∀ (js : List Int) (os ss : List String) (j : Int),
    os.length = js.length → ss.length = js.length → (j :: js).Pairwise (· < ·) → 0 ≤ j →
    rightFrom L (j.toNat + 1) (js.zip (os.zip ss)) = multiTail L j js os ss := by
  intro js
  induction js with
  | nil =>
    intro os ss j _ _ _ _
    simp only [List.zip_nil_left, rightFrom, multiTail]
    congr 1
  | cons j' js ih =>
    intro os ss j h1 h2 hasc h0
    cases os with
    | nil => simp at h1
    | cons o os =>
      cases ss with
      | nil => simp at h2
      | cons s ss =>
        simp only [List.length_cons, Nat.add_right_cancel_iff] at h1 h2
        rw [List.pairwise_cons] at hasc
        have hjj : j < j' := hasc.1 j' List.mem_cons_self
        simp only [List.zip_cons_cons, rightFrom, multiTail]
        rw [ih os ss j' h1 h2 hasc.2 (by omega)]
        congr 2

/-! ## `op_switch` -/

/-- `op_switch` when the string left of the first listed site is `prev` -/
def opSwFrom (swi : Int) : String → List Int → List String → List String → String
  | _, [], _, _ => ""
  | prev, i :: is, ops, strs =>
    if swi = i then ops.headD "" else if swi < i then prev
    else opSwFrom swi (strs.headD "") is ops.tail strs.tail

theorem opSwitchOf_eq (swi : Int) : ∀ (is : List Int) (ops strs : List String) (n : Nat),
    opSwitchOf swi is ops strs n = opSwFrom swi (strs.getD (n - 1) "") is (ops.drop n) (strs.drop n) := by
  intro is
  induction is with
  | nil => intro ops strs n; rfl
  | cons i is ih =>
    intro ops strs n
    simp only [opSwitchOf, opSwFrom]
    rw [ih ops strs (n + 1)]
    have e1 : ops.getD n "" = (ops.drop n).headD "" := by
      rw [List.getD_eq_getElem?_getD, List.headD_eq_head?_getD, List.head?_drop]
    have e2 : strs.getD (n + 1 - 1) "" = (strs.drop n).headD "" := by
      rw [List.getD_eq_getElem?_getD, List.headD_eq_head?_getD, List.head?_drop]
      rfl
    rw [e1, e2, List.tail_drop, List.tail_drop]

/-! ## the tail of the call after a left operator -/

theorem replicate_split (a b : Nat) (s : String) :
    List.replicate (a + 1 + b) s = List.replicate a s ++ s :: List.replicate b s := by
  rw [List.replicate_add, List.replicate_add]
  simp

theorem tail_split (L : Nat) (swi : Int) : ∀ (js : List Int) (os ss : List String) (i : Int) (op s : String),
    os.length = js.length → ss.length + 1 = js.length → (i :: js).Pairwise (· < ·) → 0 ≤ i → i < swi →
    (∃ x ∈ js, swi ≤ x) →
    multiTail L i js os (s :: ss) =
      leftTail (i, op, s) ((js.zip (os.zip ss)).takeWhile (fun t => decide (t.1 < swi))) swi.toNat ++
        opSwFrom swi s js os ss ::
          rightFrom L (swi.toNat + 1) ((js.zip (os.zip (s :: ss))).filter (fun t => decide (swi < t.1))) := by
  intro js
  induction js with
  | nil => intro os ss i op s _ _ _ _ _ hex; obtain ⟨x, hx, _⟩ := hex; cases hx
  | cons j js ih =>
    intro os ss i op s h1 h2 hasc h0 hlt hex
    cases os with
    | nil => simp at h1
    | cons o os =>
      simp only [List.length_cons, Nat.add_right_cancel_iff] at h1 h2
      have hasc' := hasc
      rw [List.pairwise_cons] at hasc'
      have hij : i < j := hasc'.1 j List.mem_cons_self
      have hjs : ∀ y ∈ js, j < y := (List.pairwise_cons.1 hasc'.2).1
      have hall : ∀ y ∈ js.zip (os.zip ss), j < y.1 := fun y hy => hjs y.1 (List.of_mem_zip hy).1
      simp only [multiTail]
      rcases lt_trichotomy j swi with hj | hj | hj
      · -- the operator on `j` belongs to the left path
        obtain ⟨x, hx, hxs⟩ := hex
        have hxj : x ∈ js := by
          rcases List.mem_cons.1 hx with rfl | hx
          · omega
          · exact hx
        cases ss with
        | nil =>
          have : js = [] := List.eq_nil_of_length_eq_zero (by simpa using h2.symm)
          rw [this] at hxj; cases hxj
        | cons s' ss =>
          have hne : ¬ swi = j := by omega
          have hnl : ¬ swi < j := by omega
          simp only [List.zip_cons_cons, List.takeWhile_cons, hj, decide_true, if_true, leftTail,
            opSwFrom, hne, hnl, if_false, List.headD_cons, List.tail_cons,
            List.filter_cons, decide_false, Bool.false_eq_true]
          rw [ih os ss j o s' h1 h2 hasc'.2 (by omega) hj ⟨x, hxj, hxs⟩]
          simp
      · -- the operator sits on the switch site
        subst hj
        have hf : (js.zip (os.zip ss)).filter (fun t => decide (j < t.1)) = js.zip (os.zip ss) :=
          List.filter_eq_self.2 (fun y hy => by simpa using hall y hy)
        cases ss with
        | nil =>
          have : js = [] := List.eq_nil_of_length_eq_zero (by simpa using h2.symm)
          subst this
          simp [leftTail, opSwFrom, rightFrom, multiTail, Nat.sub_sub]
        | cons s' ss =>
          simp only [List.zip_cons_cons, List.takeWhile_cons, lt_irrefl, decide_false, Bool.false_eq_true,
            if_false, leftTail, opSwFrom, if_true, List.headD_cons, List.filter_cons, hf]
          rw [rightFrom_zip L js os (s' :: ss) j h1 (by simpa using h2) hasc'.2 (by omega)]
      · -- the switch site lies strictly between `i` and `j`
        have hne : ¬ swi = j := by omega
        have hnl : ¬ j < swi := by omega
        have hf : (js.zip (os.zip ss)).filter (fun t => decide (swi < t.1)) = js.zip (os.zip ss) :=
          List.filter_eq_self.2 (fun y hy => by have := hall y hy; simp; omega)
        have hrep : List.replicate (j.toNat - i.toNat - 1) s =
            List.replicate (swi.toNat - i.toNat - 1) s ++ s :: List.replicate (j.toNat - (swi.toNat + 1)) s := by
          rw [← replicate_split]
          congr 1
          omega
        cases ss with
        | nil =>
          have : js = [] := List.eq_nil_of_length_eq_zero (by simpa using h2.symm)
          subst this
          simp only [List.zip_nil_right, List.takeWhile_nil, leftTail, opSwFrom, hne, hj,
            if_false, if_true, List.zip_cons_cons, List.filter_cons, decide_true, List.filter_nil, rightFrom,
            multiTail]
          rw [hrep]
          simp [Nat.sub_sub]
        | cons s' ss =>
          simp only [List.zip_cons_cons, List.takeWhile_cons, hnl, decide_false, Bool.false_eq_true,
            if_false, leftTail, opSwFrom, hne, hj, if_true, List.filter_cons, decide_true, hf, rightFrom]
          rw [rightFrom_zip L js os (s' :: ss) j h1 (by simpa using h2) hasc'.2 (by omega), hrep]
          simp

/-! ## the connection of one call -/

/-- left path computed by `add` -/
def leftPathOf (ijkl : List Int) (ops strs : List String) (swi : Int) : List MKey :=
  (ijkl.zip (ops.zip strs)).takeWhile (fun t => t.1 < swi)

/-- right path computed by `add` (stored order: descending sites) -/
def rightPathOf (ijkl : List Int) (ops strs : List String) (swi shift : Int) : List MKey :=
  ((ijkl.reverse.zip (ops.reverse.zip strs.reverse)).takeWhile (fun t => swi < t.1)).map
    (fun t => (t.1 - shift, t.2))

theorem add_eq {α : Type} [Add α] (mt : MultiCouplingTerms α) (s : α) (ijkl : List Int) (ops strs : List String)
    (sw : Switch) :
    mt.add s ijkl ops strs sw =
      { mt.insertConnection (leftPathOf ijkl ops strs (resolveSwitch ijkl sw))
          (rightPathOf ijkl ops strs (resolveSwitch ijkl sw) (ijkl.getLastD 0 - pymod (ijkl.getLastD 0) mt.L))
          ⟨resolveSwitch ijkl sw, opSwitchOf (resolveSwitch ijkl sw) ijkl ops strs 0,
            ijkl.getLastD 0 - pymod (ijkl.getLastD 0) mt.L, s⟩ with
        maxRange := max (ijkl.getLastD 0 - ijkl.headD 0) mt.maxRange } := rfl

theorem shift_zero (L : Nat) (last : Int) (h0 : 0 ≤ last) (hL : last < (L : Int)) :
    last - pymod last L = 0 := by
  have : last.emod (L : Int) = last := Int.emod_eq_of_lt h0 hL
  unfold pymod
  omega

theorem rightPathOf_zero (ijkl : List Int) (ops strs : List String) (swi : Int) :
    rightPathOf ijkl ops strs swi 0 =
      (ijkl.reverse.zip (ops.reverse.zip strs.reverse)).takeWhile (fun t => swi < t.1) := by
  unfold rightPathOf
  simp

theorem getLastD_mem_of_ne_nil (l : List Int) (h : l ≠ []) : l.getLastD 0 ∈ l := by
  rw [List.getLastD_eq_getLast?, List.getLast?_eq_getLast_of_ne_nil h]
  exact List.getLast_mem h

/-- the strings: whatever `switchLR`, the connection spells the positional string of the call -/
theorem connStr_call (L : Nat) (ijkl : List Int) (ops strs : List String) (sw : Switch)
    (h : MultiCallOK L ijkl ops strs sw) :
    connStr L (leftPathOf ijkl ops strs (resolveSwitch ijkl sw)) (resolveSwitch ijkl sw)
      (opSwitchOf (resolveSwitch ijkl sw) ijkl ops strs 0)
      (rightPathOf ijkl ops strs (resolveSwitch ijkl sw) 0) = multiStr L ijkl ops strs := by
  obtain ⟨hlen, hops, hstrs, hasc, h0, hlo, hhi, _⟩ := h
  generalize resolveSwitch ijkl sw = swi at *
  cases ijkl with
  | nil => simp at hlen
  | cons i is =>
    cases ops with
    | nil => simp at hops
    | cons op ops =>
      simp only [List.length_cons, Nat.add_right_cancel_iff] at hops hstrs
      simp only [List.headD_cons] at h0 hlo
      have hasc' := hasc
      rw [List.pairwise_cons] at hasc'
      have hne : is ≠ [] := by
        intro hh; subst hh; simp at hlen
      cases strs with
      | nil => exact absurd (List.eq_nil_of_length_eq_zero hstrs.symm) hne
      | cons s ss =>
        unfold connStr
        rw [rightPathOf_zero, rightPath_reverse i is op ops (s :: ss) swi hops hstrs hasc'.2, opSwitchOf_eq]
        simp only [leftPathOf, List.zip_cons_cons, List.drop_zero, multiStr]
        rcases lt_or_eq_of_le hlo with hi | hi
        · have hex : ∃ x ∈ is, swi ≤ x := by
            refine ⟨(i :: is).getLastD 0, ?_, hhi⟩
            rcases List.mem_cons.1 (getLastD_mem_of_ne_nil (i :: is) (by simp)) with hh | hh
            · omega
            · exact hh
          have hn1 : ¬ swi = i := by omega
          have hn2 : ¬ swi < i := by omega
          rw [List.takeWhile_cons_of_pos (by simpa using hi), leftStrRev_reverse_cons]
          simp only [opSwFrom, hn1, hn2, if_false, List.headD_cons, List.tail_cons, List.append_assoc,
            List.cons_append]
          rw [tail_split L swi is ops ss i op s hops (by simpa using hstrs) hasc h0 hi hex]
        · subst hi
          have hall : ∀ y ∈ is.zip (ops.zip (s :: ss)), i < y.1 :=
            fun y hy => hasc'.1 y.1 (List.of_mem_zip hy).1
          have hf : (is.zip (ops.zip (s :: ss))).filter (fun t => decide (i < t.1)) = is.zip (ops.zip (s :: ss)) :=
            List.filter_eq_self.2 (fun y hy => by simpa using hall y hy)
          rw [List.takeWhile_cons_of_neg (by simp), hf, rightFrom_zip L is ops (s :: ss) i hops hstrs hasc h0]
          simp [leftStrRev, opSwFrom]

end TenpyModel.Ops
