import TenpyModel.C10.AlgProofs
import TenpyModel.C10.TermsProofs
import TenpyModel.Ops.Model
import TenpyModel.Ops.Bond
/-!
# C10 — all representations of a model Hamiltonian are the same operator: property theorems

Formal sums of operator strings (`Sym`, meaning = coefficient function `coeff`, `Sym.Equiv`) are the
common denotation of the term containers, the term lists, the MPO graph and the bond operators.
Theorems hold for every chain length, every sequence of calls and every commutative (semi)ring of
strengths.
-/
open TenpyModel.Ops

/-- **OnsiteTerms → TermList.**  For every sequence of `add_onsite_term(strength, i, op)` calls
(`i < L`), `to_TermList()` of the resulting container denotes the sum of the added terms: repeated
additions to the same `(i, op)` are accumulated, every stored entry is listed exactly once. -/
theorem C10_terms_termlist_onsite {α : Type} [AddCommMonoid α] (L : Nat) (calls : List (α × Nat × String))
    (hc : ∀ c ∈ calls, c.2.1 < L) :
    Sym.Equiv
      (STermList.denote L (calls.foldl (fun ot c => ot.add c.1 c.2.1 c.2.2) (OnsiteTerms.empty L)).toTermListS)
      (calls.map (fun c => (onsiteStr L c.2.1 c.2.2, c.1))) := by
  obtain ⟨hwf, hL, hden⟩ := OnsiteTerms.build_denote L calls hc
  have := OnsiteTerms.termlist_equiv _ hwf
  rw [hL] at this
  exact this.trans hden

/-- the nested dictionaries stay well formed under `add_coupling_term` with `i < j` -/
theorem coupling_build_WF {α : Type} [AddCommMonoid α] (L : Nat)
    (calls : List (α × Int × Int × String × String × String)) (hc : ∀ c ∈ calls, c.2.1 < c.2.2.1) :
    (calls.foldl (fun ct c => ct.add c.1 c.2.1 c.2.2.1 c.2.2.2.1 c.2.2.2.2.1 c.2.2.2.2.2)
      (CouplingTerms.empty L)).WF' := by
  suffices ∀ ct0 : CouplingTerms α, ct0.WF' →
      (calls.foldl (fun ct c => ct.add c.1 c.2.1 c.2.2.1 c.2.2.2.1 c.2.2.2.2.1 c.2.2.2.2.2) ct0).WF' from
    this _ (CouplingTerms.empty_WF' L)
  induction calls with
  | nil => intro ct0 h; exact h
  | cons c calls ih =>
    intro ct0 h
    exact ih (fun c' hc' => hc c' (List.mem_cons_of_mem _ hc')) _
      (CouplingTerms.add_WF' ct0 h c.1 c.2.1 c.2.2.1 (hc c List.mem_cons_self) _ _ _)

/-- **CouplingTerms → TermList.**  For every sequence of
`add_coupling_term(strength, i, j, op_i, op_j, op_string)` calls with `i < j`, `to_TermList()` of the
nested dictionary `{i: {(op_i, op_str): {j: {op_j: strength}}}}` (with the operator string kept)
denotes the sum of the added couplings `op_i ⊗ op_str ⊗ … ⊗ op_j`. -/
theorem C10_terms_termlist_coupling {α : Type} [AddCommMonoid α] (L : Nat)
    (calls : List (α × Int × Int × String × String × String)) (hc : ∀ c ∈ calls, c.2.1 < c.2.2.1) :
    Sym.Equiv
      (STermList.denote L (calls.foldl (fun ct c => ct.add c.1 c.2.1 c.2.2.1 c.2.2.2.1 c.2.2.2.2.1 c.2.2.2.2.2)
        (CouplingTerms.empty L)).toTermListS)
      (calls.map (fun c => (couplingStr L c.2.1.toNat c.2.2.1.toNat c.2.2.2.1 c.2.2.2.2.2 c.2.2.2.2.1, c.1))) := by
  obtain ⟨hL, hden⟩ := CouplingTerms.build_denote L calls
  have := CouplingTerms.termlist_equiv _ (CouplingTerms.WF_of_WF' _ (coupling_build_WF L calls hc))
  rw [hL] at this
  exact this.trans hden

/-- **Hermiticity.**  A sum of terms that is closed under the Hermitian conjugate (`T + T†`, what
`plus_hc=True` produces) is a self-adjoint formal sum; `hc` is the name-wise conjugate of the sites
(`hc_ops`, an involution), `cj` complex conjugation. -/
theorem C10_hermitian {α : Type} [CommSemiring α] (hc : String → String) (cj : α → α)
    (hhc : ∀ x, hc (hc x) = x) (hcj : ∀ x, cj (cj x) = x) (T : Sym α) :
    Sym.Equiv (Sym.dagger hc cj (T ++ Sym.dagger hc cj T)) (T ++ Sym.dagger hc cj T) :=
  hermitian_of_closed hc cj hhc hcj T

/-- **`explicit_plus_hc`.**  With the flag the adders store `A/2 + B` (`A` = terms added without
`plus_hc`, halved; `B` = terms added with `plus_hc`, their conjugate *not* stored) and the model
represents `stored + stored†`; without the flag they store and represent `A + B + B†`.  Both
representations denote the same sum whenever `A` is self-adjoint. -/
theorem C10_plus_hc {α : Type} [CommSemiring α] (hc : String → String) (cj : α →+* α) (half : α)
    (hhalf : half + half = 1) (hcjh : cj half = half) (A B : Sym α)
    (hA : Sym.Equiv (Sym.dagger hc cj A) A) :
    Sym.Equiv ((Sym.smul half A ++ B) ++ Sym.dagger hc cj (Sym.smul half A ++ B))
      (A ++ B ++ Sym.dagger hc cj B) :=
  explicit_eq_implicit hc cj half hhalf hcjh A B hA

/-- the prologue shared by all adders of `CouplingModel` implements exactly that bookkeeping -/
theorem C10_plus_hc_prologue {α : Type} [Mul α] (m : Model α) (half : α) (ph : Bool) (s : α) :
    m.prologue half ph s =
      if m.explicitPlusHc then (false, if ph then s else s * half) else (ph, s) := by
  unfold Model.prologue
  cases m.explicitPlusHc <;> cases ph <;> rfl

/-! ## non-vacuity -/
section examples

/-- three calls, two of them on the same `(i, op)`: accumulated to one entry, listed once -/
example : (([(2, 1, "Sz"), (3, 0, "Sx"), (5, 1, "Sz")] : List (Int × Nat × String)).foldl
      (fun ot c => ot.add c.1 c.2.1 c.2.2) (OnsiteTerms.empty 3)).toTermList
    = [([("Sx", 0)], 0 + 3), ([("Sz", 1)], 0 + 2 + 5)] := by decide

example : ((CouplingTerms.empty 4 : CouplingTerms Int).add 2 0 2 "Cd JW" "C" "JW").denote
    = [(["Cd JW", "JW", "C", "Id"], 0 + 2)] := by decide

end examples
