import TenpyModel.Ops.Model
import TenpyModel.Ops.Bond
open TenpyModel.Ops

/-- placeholder while the library grows -/
theorem C10_coeff_nil {α : Type} [Add α] [Zero α] (t : OpStr) : coeff ([] : Sym α) t = 0 := rfl
