import TenpyModel.C10.AlgProofs
import TenpyModel.C10.TermsProofs
import TenpyModel.C10.GraphProofs
import TenpyModel.C10.BondProofs
import TenpyModel.C10.BuildProofs
import TenpyModel.C10.HcProofs
import TenpyModel.Ops.Model
import TenpyModel.Ops.Bond
/-!
# C10 — all representations of a model Hamiltonian are the same operator: property theorems

Formal sums of operator strings (`Sym`, meaning = coefficient function `coeff`, `Sym.Equiv`) are the
common denotation of the term containers, the term lists, the MPO graph and the bond operators.
Theorems hold for every chain length, every sequence of calls and every commutative (semi)ring of
strengths.
-/
open TenpyModel.Ops

/-- **OnsiteTerms → TermList.**  For every sequence of `add_onsite_term(strength, i, op)` calls
(`i < L`), `to_TermList()` of the resulting container denotes the sum of the added terms: repeated
additions to the same `(i, op)` are accumulated, every stored entry is listed exactly once. -/
theorem C10_terms_termlist_onsite {α : Type} [AddCommMonoid α] (L : Nat) (calls : List (α × Nat × String))
    (hc : ∀ c ∈ calls, c.2.1 < L) :
    Sym.Equiv
      (STermList.denote L (calls.foldl (fun ot c => ot.add c.1 c.2.1 c.2.2) (OnsiteTerms.empty L)).toTermListS)
      (calls.map (fun c => (onsiteStr L c.2.1 c.2.2, c.1))) := by
  obtain ⟨hwf, hL, hden⟩ := OnsiteTerms.build_denote L calls hc
  have := OnsiteTerms.termlist_equiv _ hwf
  rw [hL] at this
  exact this.trans hden

/-- the nested dictionaries stay well formed under `add_coupling_term` calls that satisfy `Q i j` -/
theorem coupling_build_WFP {α : Type} [AddCommMonoid α] (Q : Int → Int → Prop) (L : Nat)
    (calls : List (α × Int × Int × String × String × String)) (hc : ∀ c ∈ calls, Q c.2.1 c.2.2.1) :
    (calls.foldl (fun ct c => ct.add c.1 c.2.1 c.2.2.1 c.2.2.2.1 c.2.2.2.2.1 c.2.2.2.2.2)
      (CouplingTerms.empty L)).WFP Q := by
  suffices ∀ ct0 : CouplingTerms α, ct0.WFP Q →
      (calls.foldl (fun ct c => ct.add c.1 c.2.1 c.2.2.1 c.2.2.2.1 c.2.2.2.2.1 c.2.2.2.2.2) ct0).WFP Q from
    this _ (CouplingTerms.empty_WFP Q L)
  induction calls with
  | nil => intro ct0 h; exact h
  | cons c calls ih =>
    intro ct0 h
    exact ih (fun c' hc' => hc c' (List.mem_cons_of_mem _ hc')) _
      (CouplingTerms.add_WFP Q ct0 h c.1 c.2.1 c.2.2.1 (hc c List.mem_cons_self) _ _ _)

theorem coupling_build_WF {α : Type} [AddCommMonoid α] (L : Nat)
    (calls : List (α × Int × Int × String × String × String)) (hc : ∀ c ∈ calls, c.2.1 < c.2.2.1) :
    (calls.foldl (fun ct c => ct.add c.1 c.2.1 c.2.2.1 c.2.2.2.1 c.2.2.2.2.1 c.2.2.2.2.2)
      (CouplingTerms.empty L)).WF' := coupling_build_WFP _ L calls hc

/-- **CouplingTerms → TermList.**  For every sequence of
`add_coupling_term(strength, i, j, op_i, op_j, op_string)` calls with `i < j`, `to_TermList()` of the
nested dictionary `{i: {(op_i, op_str): {j: {op_j: strength}}}}` (with the operator string kept)
denotes the sum of the added couplings `op_i ⊗ op_str ⊗ … ⊗ op_j`. -/
theorem C10_terms_termlist_coupling {α : Type} [AddCommMonoid α] (L : Nat)
    (calls : List (α × Int × Int × String × String × String)) (hc : ∀ c ∈ calls, c.2.1 < c.2.2.1) :
    Sym.Equiv
      (STermList.denote L (calls.foldl (fun ct c => ct.add c.1 c.2.1 c.2.2.1 c.2.2.2.1 c.2.2.2.2.1 c.2.2.2.2.2)
        (CouplingTerms.empty L)).toTermListS)
      (calls.map (fun c => (couplingStr L c.2.1.toNat c.2.2.1.toNat c.2.2.2.1 c.2.2.2.2.2 c.2.2.2.2.1, c.1))) := by
  obtain ⟨hL, hden⟩ := CouplingTerms.build_denote L calls
  have := CouplingTerms.termlist_equiv _ (CouplingTerms.WF_of_WF' _ (coupling_build_WF L calls hc))
  rw [hL] at this
  exact this.trans hden

/- **MPO graph = sum of terms.**  Proved below for onsite and two-site coupling terms on a finite chain,
for the imperative model of `MPOGraph.from_terms` (`C10_graph_paths`) via its closed form
(`C10_graph_paths_closed_form`).  Not proved: the same statement for `MultiCouplingTerms` (tries built from the
left and from the right, connected at `switchLR`) and `ExponentiallyDecayingTerms` (a weighted loop
`label → label`), full statement

    Sym.Equiv (denoteGraph (Graph.fromTerms L false [.onsite ot, .multi mt, .expdecay e]))
              (STermList.denote L (ot.toTermListS ++ mt.toTermListS ++ e.toTermListFinite (fun _ => false)))

What is missing: the suffix-sum invariants for the nested `('left', …)` / `('right', …)` keys and for the
geometric loop.  The driver evaluates both sides of exactly this equation on every generated case
(`paths_ok`), also for infinite unit cells unrolled over a window, and the edge lists are compared exactly
with those of the implementation. -/

/-- **MPO graph paths (closed form).**  For every sequence of `add_onsite_term` calls (`i < L`) and
`add_coupling_term` calls (`0 ≤ i < j < L`): the Σ over `IdL → IdR` paths of (product of strengths)·(operator
string) of the MPO graph of the two containers is the sum of all added terms. -/
theorem C10_graph_paths_closed_form {α : Type} [Semiring α] (L : Nat)
    (ocalls : List (α × Nat × String)) (ccalls : List (α × Int × Int × String × String × String))
    (ho : ∀ c ∈ ocalls, c.2.1 < L) (hc : ∀ c ∈ ccalls, 0 ≤ c.2.1 ∧ c.2.1 < c.2.2.1 ∧ c.2.2.1 < (L : Int)) :
    Sym.Equiv
      (pathsFrom Key.IdR
        (specLayers (ocalls.foldl (fun ot c => ot.add c.1 c.2.1 c.2.2) (OnsiteTerms.empty L))
          (ccalls.foldl (fun ct c => ct.add c.1 c.2.1 c.2.2.1 c.2.2.2.1 c.2.2.2.2.1 c.2.2.2.2.2)
            (CouplingTerms.empty L)) L) Key.IdL)
      (ocalls.map (fun c => (onsiteStr L c.2.1 c.2.2, c.1)) ++
       ccalls.map (fun c => (couplingStr L c.2.1.toNat c.2.2.1.toNat c.2.2.2.1 c.2.2.2.2.2 c.2.2.2.2.1, c.1))) := by
  obtain ⟨hwf, hL, hden⟩ := OnsiteTerms.build_denote L ocalls ho
  obtain ⟨hcL, hcden⟩ := CouplingTerms.build_denote L ccalls
  have hwfp := coupling_build_WFP (fun i j => 0 ≤ i ∧ i < j ∧ j < (L : Int)) L ccalls hc
  have hyp := graphHyp_of_WFP _ _ L (hwf.len.trans hL) hwfp
  exact (spec_denote _ _ L hL hcL hyp).trans (Sym.Equiv.append hden hcden)

/-- **MPO graph paths.**  For every sequence of `add_onsite_term` calls (`i < L`) and `add_coupling_term`
calls (`0 ≤ i < j < L`) on a finite chain, the graph built by `MPOGraph.from_terms((onsite, coupling))` —
`add` with `skip_existing`, `add_string_left_to_right` with its `has_edge` test, closing edges,
`add_missing_IdL_IdR` — denotes (Σ over `IdL → IdR` paths of product of strengths · operator string) the sum
of all added terms: every coupling exactly once although all couplings with equal `(i, op_i, op_str)` share
their opening and string edges. -/
theorem C10_graph_paths {α : Type} [Semiring α] [Inhabited α] (L : Nat)
    (ocalls : List (α × Nat × String)) (ccalls : List (α × Int × Int × String × String × String))
    (ho : ∀ c ∈ ocalls, c.2.1 < L) (hc : ∀ c ∈ ccalls, 0 ≤ c.2.1 ∧ c.2.1 < c.2.2.1 ∧ c.2.2.1 < (L : Int)) :
    Sym.Equiv
      (denoteGraph (Graph.fromTerms L false
        [.onsite (ocalls.foldl (fun ot c => ot.add c.1 c.2.1 c.2.2) (OnsiteTerms.empty L)),
         .coupling (ccalls.foldl (fun ct c => ct.add c.1 c.2.1 c.2.2.1 c.2.2.2.1 c.2.2.2.2.1 c.2.2.2.2.2)
            (CouplingTerms.empty L))]))
      (ocalls.map (fun c => (onsiteStr L c.2.1 c.2.2, c.1)) ++
       ccalls.map (fun c => (couplingStr L c.2.1.toNat c.2.2.1.toNat c.2.2.2.1 c.2.2.2.2.2 c.2.2.2.2.1, c.1))) := by
  obtain ⟨hwf, hL, _⟩ := OnsiteTerms.build_denote L ocalls ho
  have hwfp := coupling_build_WFP (fun i j => 0 ≤ i ∧ i < j ∧ j < (L : Int)) L ccalls hc
  exact (denoteGraph_fromTerms_equiv _ _ L (hwf.len.trans hL) hwfp).trans
    (C10_graph_paths_closed_form L ocalls ccalls ho hc)

/-- **Bond form.**  For every sequence of `add_onsite_term` calls (`i < L`) and nearest-neighbour
`add_coupling_term` calls (`0 ≤ i`, `j = i + 1 < L`) on a finite chain of `L ≥ 2` sites:
`to_nn_bond_Arrays` succeeds and `Σ_j H_bond[j]` (after `add_to_nn_bond_Arrays` with the onsite terms
split 1/2–1/2 in the bulk and put entirely on the single neighbouring bond at the two ends) is the sum of
all added terms. -/
theorem C10_bond_split {α : Type} [Semiring α] [DecidableEq α] (L : Nat) (hL : 2 ≤ L) (half : α)
    (hh : half + half = 1) (h10 : (1 : α) ≠ 0) (hh0 : half ≠ 0)
    (ocalls : List (α × Nat × String)) (ccalls : List (α × Int × Int × String × String × String))
    (ho : ∀ c ∈ ocalls, c.2.1 < L)
    (hc : ∀ c ∈ ccalls, 0 ≤ c.2.1 ∧ c.2.2.1 = c.2.1 + 1 ∧ c.2.2.1 < (L : Int)) :
    let ot := ocalls.foldl (fun ot c => ot.add c.1 c.2.1 c.2.2) (OnsiteTerms.empty L)
    let ct := ccalls.foldl (fun ct c => ct.add c.1 c.2.1 c.2.2.1 c.2.2.2.1 c.2.2.2.2.1 c.2.2.2.2.2)
      (CouplingTerms.empty L)
    ∃ b, ct.toNNBonds = some b ∧
      Sym.Equiv (Bonds.denote L (ot.addToNNBonds half true b))
        (ccalls.map (fun c => (couplingStr L c.2.1.toNat c.2.2.1.toNat c.2.2.2.1 c.2.2.2.2.2 c.2.2.2.2.1, c.1)) ++
         ocalls.map (fun c => (onsiteStr L c.2.1 c.2.2, c.1))) := by
  intro ot ct
  obtain ⟨hwf, hotL, hden⟩ := OnsiteTerms.build_denote L ocalls ho
  obtain ⟨hcL, hcden⟩ := CouplingTerms.build_denote L ccalls
  have hwfp := coupling_build_WFP (fun i j => 0 ≤ i ∧ j = i + 1 ∧ j < (L : Int)) L ccalls hc
  obtain ⟨b, hb1, hb2, hb3⟩ := coupling_bonds ct L hcL hwfp
  refine ⟨b, hb1, ?_⟩
  have hlen : ot.terms.length = ot.L := hwf.len
  have := (onsite_bonds ot hlen (hotL ▸ hL) half hh h10 hh0 b (hb2.trans hotL.symm)).2
  rw [hotL] at this
  exact this.trans (Sym.Equiv.append (hb3.trans hcden) hden)

/-- **Hermiticity.**  A sum of terms that is closed under the Hermitian conjugate (`T + T†`, what
`plus_hc=True` produces) is a self-adjoint formal sum; `hc` is the name-wise conjugate of the sites
(`hc_ops`, an involution), `cj` complex conjugation. -/
theorem C10_hermitian {α : Type} [CommSemiring α] (hc : String → String) (cj : α → α)
    (hhc : ∀ x, hc (hc x) = x) (hcj : ∀ x, cj (cj x) = x) (T : Sym α) :
    Sym.Equiv (Sym.dagger hc cj (T ++ Sym.dagger hc cj T)) (T ++ Sym.dagger hc cj T) :=
  hermitian_of_closed hc cj hhc hcj T

/-- **`explicit_plus_hc`.**  With the flag the adders store `A/2 + B` (`A` = terms added without
`plus_hc`, halved; `B` = terms added with `plus_hc`, their conjugate *not* stored) and the model
represents `stored + stored†`; without the flag they store and represent `A + B + B†`.  Both
representations denote the same sum whenever `A` is self-adjoint. -/
theorem C10_plus_hc {α : Type} [CommSemiring α] (hc : String → String) (cj : α →+* α) (half : α)
    (hhalf : half + half = 1) (hcjh : cj half = half) (A B : Sym α)
    (hA : Sym.Equiv (Sym.dagger hc cj A) A) :
    Sym.Equiv ((Sym.smul half A ++ B) ++ Sym.dagger hc cj (Sym.smul half A ++ B))
      (A ++ B ++ Sym.dagger hc cj B) :=
  explicit_eq_implicit hc cj half hhalf hcjh A B hA

/-- **`plus_hc=True`** (without `explicit_plus_hc`) of `add_coupling_term`: the container gains the term and
its Hermitian conjugate `conj(strength) · hc(op_i) ⊗ hc(op_str) ⊗ … ⊗ hc(op_j)` on the same sites. -/
theorem C10_plus_hc_coupling_term {α : Type} [CommSemiring α] (hc : String → String) (cj : α → α)
    (hid : hc "Id" = "Id") (ct : CouplingTerms α) (s : α) (i j : Int) (opi opj str : String) :
    Sym.Equiv (((ct.add s i j opi opj str).add (cj s) i j (hc opi) (hc opj) (hc str)).denote)
      (ct.denote ++ ([(couplingStr ct.L i.toNat j.toNat opi str opj, s)]
        ++ Sym.dagger hc cj [(couplingStr ct.L i.toNat j.toNat opi str opj, s)])) :=
  coupling_add_plus_hc hc cj hid ct s i j opi opj str

/-- the prologue shared by all adders of `CouplingModel` implements exactly that bookkeeping -/
theorem C10_plus_hc_prologue {α : Type} [Mul α] (m : Model α) (half : α) (ph : Bool) (s : α) :
    m.prologue half ph s =
      if m.explicitPlusHc then (false, if ph then s else s * half) else (ph, s) := by
  unfold Model.prologue
  cases m.explicitPlusHc <;> cases ph <;> rfl

/-! ## non-vacuity -/
section examples

/-- three calls, two of them on the same `(i, op)`: accumulated to one entry, listed once -/
example : (([(2, 1, "Sz"), (3, 0, "Sx"), (5, 1, "Sz")] : List (Int × Nat × String)).foldl
      (fun ot c => ot.add c.1 c.2.1 c.2.2) (OnsiteTerms.empty 3)).toTermList
    = [([("Sx", 0)], 0 + 3), ([("Sz", 1)], 0 + 2 + 5)] := by decide

example : ((CouplingTerms.empty 4 : CouplingTerms Int).add 2 0 2 "Cd JW" "C" "JW").denote
    = [(["Cd JW", "JW", "C", "Id"], 0 + 2)] := by decide

/-- two couplings sharing the state `('left', 0, 'A', 'S')` and one onsite term: three paths -/
example :
    let ot := (OnsiteTerms.empty 3 : OnsiteTerms Int).add 7 1 "Z"
    let ct := ((CouplingTerms.empty 3 : CouplingTerms Int).add 2 0 1 "A" "B" "S").add 3 0 2 "A" "C" "S"
    pathsFrom Key.IdR (specLayers ot ct 3) Key.IdL
      = [(["A", "S", "C"], 3), (["A", "B", "Id"], 2), (["Id", "Z", "Id"], 7)] := by decide

/-- the bond operators of a 3-site chain with one coupling and one bulk onsite term -/
example :
    let ot := (OnsiteTerms.empty 3 : OnsiteTerms Rat).add 4 1 "Z"
    let ct := (CouplingTerms.empty 3 : CouplingTerms Rat).add 2 0 1 "A" "B" "Id"
    (ct.toNNBonds.map (fun b => ot.addToNNBonds (1 / 2) true b))
      = some [[], [(["A", "B"], 0 + 2), (["Id", "Z"], 1 / 2 * (0 + 4))], [(["Z", "Id"], 1 / 2 * (0 + 4))]] := by
  decide +kernel

/-- … and the imperative model of `MPOGraph.from_terms` has the same three paths -/
example :
    let ot := (OnsiteTerms.empty 3 : OnsiteTerms Int).add 7 1 "Z"
    let ct := ((CouplingTerms.empty 3 : CouplingTerms Int).add 2 0 1 "A" "B" "S").add 3 0 2 "A" "C" "S"
    canon 0 (denoteGraph (Graph.fromTerms 3 false [.onsite ot, .coupling ct]))
      = [([(0, "A"), (1, "B")], 2), ([(0, "A"), (1, "S"), (2, "C")], 3), ([(1, "Z")], 7)] := by decide

end examples
